/-
MBI image theorems for the `signedV21` family (classes whose `collect_data` resolves to the signedV21 collector).
See Properties/C01.lean for the statements' meaning; base lemmas in Proofs/MbiBase.lean.

Structure of the file: class facts (`V21Cls`) and configuration facts (`V21Cfg`) extracted once from `ClassWF` / `cfgWF`;
closed forms of the length sums and of the exported image (`v21Image = v21App ++ cert ++ v21Man ++ signature ++ v21Hash`);
the order of the `mix_parse` calls (`v21OkOrder`: nobody is called while it must wait; `parseOrder` enumerates the data
mixins); one `mix_parse` call by provider (`v21Upd`), the fold over the order and its closed form (`v21B`); the reverts;
the re-export from the parsed settings (`v21Cfg'`).
-/
import SpsdkVerif.Proofs.MbiBase

namespace SpsdkVerif.Mbi
open SpsdkVerif SpsdkVerif.Misc SpsdkVerif.Crypto
open SpsdkVerif.Generated.IvtConsts
open SpsdkVerif.Generated.MbiClasses (MixinName Method Attr provider attrs preParsed isData parent countInLegacyCertBlockLen)

variable {co : CryptoOps} {env : Env} {c : Cls} {cfg : Cfg} {signer : Signer}

/-- class facts of the signedV21 family -/
structure V21Cls (c : Cls) : Prop where
  itype : c.imageType ≤ imageTypeMask
  tzs : c.tzSize % 4 = 0
  ivt : c.hasAttr .ivt_table = true
  clean : c.hasAttr .clean_ivt = true
  hasApp : c.has .Mbi_MixinApp = true
  order : (parseOrder c).isSome = true
  appAll : (c.appLenProviders.all fun o => o == none || o == some .Mbi_MixinApp || o == some .Mbi_MixinRelocTable) = true
  appCnt : provCount c.appLenProviders .Mbi_MixinApp = 1
  relCnt : provCount c.appLenProviders .Mbi_MixinRelocTable = 0
  aTab : c.hasAttr .app_table = false
  aDis : c.hasAttr .disassembly_app_data = false
  aLoad : c.hasAttr .load_address = c.has .Mbi_MixinLoadAddress
  aSub : c.hasAttr .image_subtype = c.has .Mbi_MixinImageSubType
  aVer : c.hasAttr .image_version = c.has .Mbi_MixinImageVersion
  aV2T : c.hasAttr .image_version_to_image_type = c.has .Mbi_MixinImageVersion
  aHw : c.hasAttr .user_hw_key_enabled = c.has .Mbi_MixinHwKey
  aKs : c.hasAttr .key_store = false
  aHmac : c.hasAttr .hmac_key = false
  aBca : c.hasAttr .bca = false
  aFcf : c.hasAttr .fcf = false
  rColl : c.resolve .collect_data = some .Mbi_ExportMixinAppCertBlockManifest
  rDis : c.resolve .disassemble_image = some .Mbi_ExportMixinAppCertBlockManifest
  rEnc : c.resolve .encrypt = none
  rPost : c.resolve .post_encrypt = none
  rFin : c.resolve .finalize = some .Mbi_ExportMixinAppCertBlockManifest
  sign : c.signKind = .ecc
  itype0 : c.imageType ≠ 0
  hasV21 : c.has .Mbi_MixinCertBlockV21 = true
  hasV1 : c.has .Mbi_MixinCertBlockV1 = false
  aCert : c.hasAttr .cert_block = true
  mkSome : c.manifestKind.isSome = true
  hasReloc : c.has .Mbi_MixinRelocTable = false
  hasHmac : c.has .Mbi_MixinHmac = false
  hasKs : c.has .Mbi_MixinKeyStore = false
  hasCtr : c.has .Mbi_MixinCtrInitVector = false
  aTz : c.hasAttr .trust_zone = false
  lens : lenProvidersAre c.lenProviders ([.Mbi_MixinApp, .Mbi_MixinCertBlockV21] ++
            if c.manifestKind = some .digest then [.Mbi_MixinManifestDigest] else [.Mbi_MixinManifest]) = true

theorem signedV21_collector (hf : c.family = some .signedV21) :
    c.resolve .collect_data = some .Mbi_ExportMixinAppCertBlockManifest := by
  unfold Cls.family at hf
  split at hf <;> simp_all

theorem signedV21_classFacts (hc : ClassWF c = true) (hf : c.family = some .signedV21) : V21Cls c := by
  have hcoll := signedV21_collector hf
  unfold ClassWF at hc
  simp only [hf, Bool.and_eq_true, beq_iff_eq, Bool.not_eq_true', bne_iff_ne, ne_eq, decide_eq_true_eq,
    and_assoc, Option.isNone_iff_eq_none] at hc
  obtain ⟨h1, h2, h3, h4, -, h6, h7, h8, h9, h10, h11, h12, h13, h14, h15, h16, h17, h18, h19, h20, h21,
    h22, h23, h24, h25, h26, h27, h28, h29, h30, h31, h32, h33, h34, h35, h36, h37⟩ := hc
  simp only [h32, Bool.false_eq_true, if_false] at h10 h11 h12
  rw [h34] at h18
  rw [h33] at h19
  exact ⟨h1, h2, h3, h4, h6, h7, h8, h9, h10, h11, h12, h13, h14, h15, h16, h17, h18, h19, h20, h21, hcoll,
    h22, h23, h24, h25, h26, h27, h28, h29, h30, h31, h32, h33, h34, h35, h36, h37⟩


/-- configuration facts (signedV21 classes) -/
structure V21Cfg (c : Cls) (cfg : Cfg) : Prop where
  val : validate c cfg = .ok ()
  pack : packGuard c cfg = .ok ()
  la : cfg.loadAddress < 2 ^ 32
  iv : cfg.imageVersion < 2 ^ 16
  st : cfg.subType ≤ subTypeMask
  fw : cfg.fwVersion < 2 ^ 32
  fl : flagsOf c cfg < 2 ^ 32
  tz : ∀ d, cfg.tz = .custom d → d.length = c.tzSize ∧ c.tzSize > 0
  reloc : cfg.reloc = none
  ks : cfg.keyStore = none
  hmac : cfg.hmacKey = none
  bca : cfg.bca = none
  fcf : cfg.fcf = none
  certne : cfg.cert ≠ []
  sigpos : cfg.sigLen > 0
  dig : c.manifestKind ≠ some .digest → cfg.digest = none
  sha1 : cfg.digest ≠ some .sha1
  ver0 : c.has .Mbi_MixinImageVersion = false → cfg.imageVersion = 0
  sub0 : c.has .Mbi_MixinImageSubType = false → cfg.subType = 0
  hw0 : c.has .Mbi_MixinHwKey = false → cfg.hwKey = false
  la0 : c.has .Mbi_MixinLoadAddress = false → cfg.loadAddress = 0
  ctr : cfg.ctrIv = []

theorem signedV21_cfgFacts (F : V21Cls c) (hc : cfgWF c cfg = true) : V21Cfg c cfg := by
  unfold cfgWF at hc
  simp only [Bool.and_eq_true, beq_iff_eq, Bool.not_eq_true', bne_iff_ne, ne_eq, decide_eq_true_eq, and_assoc,
    Option.isNone_iff_eq_none, List.isEmpty_iff] at hc
  obtain ⟨h1, h2, h3, h4, h5, h6, h7, h8, h9, h10, h11, h12, h13, h14, h15, h16, h17, h18, h19, h20, h21, h22,
    h23, h24, h25, h26, h27⟩ := hc
  have h18' := h18 F.hasV21
  refine ⟨h1, h2, h3, h4, h5, h6, h7, ?_, ?_, ?_, ?_, h15, h16, ?_, h18'.2, h20, h21, h23, h24, h25, h26, h27 F.hasCtr⟩
  · intro d hd
    rw [hd] at h8
    simpa using h8
  · cases hr : cfg.reloc with
    | none => rfl
    | some es => rw [hr] at h10; simp [F.hasReloc] at h10
  · cases hr : cfg.keyStore with
    | none => rfl
    | some es => rw [hr] at h11; simp [F.hasKs] at h11
  · cases hr : cfg.hmacKey with
    | none => rfl
    | some es => rw [hr] at h12; simp [F.hasHmac] at h12
  · intro hn; simp [hn] at h18'


/-! ### membership facts -/

theorem signedV21_forM_ok {α : Type} (f : α → PyRes Unit) : ∀ (l : List α), forM l f = .ok () → ∀ m ∈ l, f m = .ok ()
  | [], _, m, hm => by cases hm
  | x :: xs, h, m, hm => by
    rw [List.forM_cons] at h
    cases hx : f x with
    | error e => rw [hx] at h; cases h
    | ok u =>
      rw [hx] at h
      cases hm with
      | head => exact hx
      | tail _ hm' => exact signedV21_forM_ok f xs h m hm'

theorem signedV21_validate_mem (h : validate c cfg = .ok ()) : ∀ m ∈ c.dataMixins, validateMixin c cfg m = .ok () := by
  unfold validate at h
  rw [List.forM_eq_forM] at h
  exact signedV21_forM_ok _ _ h

theorem signedV21_has_mem {c : Cls} {b : MixinName} (h : c.has b = true) : ∃ m ∈ c.mixins, derivesFrom m b = true := by
  simpa [Cls.has, List.any_eq_true] using h

theorem signedV21_has_false {c : Cls} {b : MixinName} (h : c.has b = false) : ∀ m ∈ c.mixins, derivesFrom m b = false := by
  simpa [Cls.has, List.any_eq_false] using h

theorem signedV21_hasAttr_false {c : Cls} {a : Attr} (h : c.hasAttr a = false) :
    ∀ m ∈ c.mixins, (attrs m).contains a = false := by
  simpa [Cls.hasAttr, List.any_eq_false] using h

theorem signedV21_mem_data {c : Cls} {m : MixinName} (h : m ∈ c.dataMixins) : m ∈ c.mixins ∧ isData m = true := by
  simpa [Cls.dataMixins] using h

theorem signedV21_derives_app (m : MixinName) (h : derivesFrom m .Mbi_MixinApp = true) : m = .Mbi_MixinApp := by
  cases m <;> first | rfl | (revert h; decide)

theorem signedV21_derives_manifest (m : MixinName)
    (h : derivesFrom m .Mbi_MixinManifestCrc = true ∨ derivesFrom m .Mbi_MixinManifestDigest = true) :
    derivesFrom m .Mbi_MixinTrustZone = true ∧ provider m .mix_validate = some .Mbi_MixinManifest ∧ isData m = true := by
  cases m <;> first | decide | (revert h; decide)

theorem signedV21_manifest_mem (F : V21Cls c) :
    ∃ m ∈ c.mixins, derivesFrom m .Mbi_MixinTrustZone = true ∧ provider m .mix_validate = some .Mbi_MixinManifest
      ∧ isData m = true := by
  have h := F.mkSome
  unfold Cls.manifestKind at h
  by_cases h1 : c.has .Mbi_MixinManifestCrc = true
  · obtain ⟨m, hm, hd⟩ := signedV21_has_mem h1
    exact ⟨m, hm, signedV21_derives_manifest m (Or.inl hd)⟩
  · by_cases h2 : c.has .Mbi_MixinManifestDigest = true
    · obtain ⟨m, hm, hd⟩ := signedV21_has_mem h2
      exact ⟨m, hm, signedV21_derives_manifest m (Or.inr hd)⟩
    · simp [h1, h2] at h

theorem signedV21_hasTrustZone (F : V21Cls c) : c.hasTrustZone = true := by
  obtain ⟨m, hm, hd, -, -⟩ := signedV21_manifest_mem F
  have : c.has .Mbi_MixinTrustZone = true := by
    simp only [Cls.has, List.any_eq_true]; exact ⟨m, hm, hd⟩
  simp [Cls.hasTrustZone, this]

theorem signedV21_tz_ne_disabled (F : V21Cls c) (G : V21Cfg c cfg) : cfg.tz ≠ .disabled := by
  obtain ⟨m, hm, -, hp, hd⟩ := signedV21_manifest_mem F
  have hmem : m ∈ c.dataMixins := by simp [Cls.dataMixins, hm, hd]
  have := signedV21_validate_mem G.val m hmem
  unfold validateMixin at this
  rw [hp] at this
  intro h
  simp [h] at this

theorem signedV21_app_len (F : V21Cls c) (G : V21Cfg c cfg) :
    minIvtSize ≤ (appData cfg).length := by
  obtain ⟨m, hm, hd⟩ := signedV21_has_mem F.hasApp
  have := signedV21_derives_app m hd
  subst this
  have hmem : MixinName.Mbi_MixinApp ∈ c.dataMixins := by simp [Cls.dataMixins, hm, isData]
  have := signedV21_validate_mem G.val _ hmem
  have hp : provider .Mbi_MixinApp .mix_validate = some .Mbi_MixinApp := rfl
  unfold validateMixin at this
  rw [hp] at this
  by_cases hl : (appData cfg).length < minAppSize
  · simp only [hl, if_true] at this; cases this
  · simp only [minAppSize] at hl; simp only [minIvtSize]; omega

/-- the digest term of the length (0 for the CRC manifest) -/
def v21DigLen (k : ManifestKind) (cfg : Cfg) : Nat := match k with | .digest => digestSize cfg.digest | .crc => 0

theorem signedV21_totalLen (F : V21Cls c) (k : ManifestKind) (hk : c.manifestKind = some k) :
    totalLen c cfg = (((appData cfg).length + (cfg.cert.length + cfg.sigLen)
      + (manifestLen k cfg + v21DigLen k cfg) : Nat) : Int) := by
  have h1 : totalLen c cfg
      = (c.lenProviders.map (fun o => match o with | some m => mixLenOf c cfg m | none => 0)).sum := by
    unfold totalLen Cls.lenProviders
    rw [List.map_map]
    rfl
  have h2 := sum_of_lenProvidersAre c.lenProviders _ (mixLenOf c cfg) F.lens
  rw [h1]
  refine Eq.trans h2 ?_
  rw [hk]
  cases k <;> simp [mixLenOf, hk, v21DigLen] <;> omega

theorem signedV21_appLen_aux (A R : Nat) : ∀ (l : List (Option MixinName)),
    (l.map (fun o => match o with
        | some .Mbi_MixinApp => A | some .Mbi_MixinRelocTable => R | _ => 0)).sum
      = provCount l .Mbi_MixinApp * A + provCount l .Mbi_MixinRelocTable * R
  | [] => by simp [provCount]
  | o :: l => by
    have ih := signedV21_appLen_aux A R l
    simp only [provCount] at ih ⊢
    rw [List.map_cons, List.sum_cons, ih]
    cases o with
    | none => simp [List.count_cons]
    | some d => cases d <;> simp [List.count_cons, Nat.add_mul] <;> omega

theorem signedV21_appLen (F : V21Cls c) : appLen c cfg = (appData cfg).length := by
  have h1 : appLen c cfg = (c.appLenProviders.map (fun o => match o with
        | some .Mbi_MixinApp => (appData cfg).length | some .Mbi_MixinRelocTable => relocLen c cfg | _ => 0)).sum := by
    unfold appLen Cls.appLenProviders
    rw [List.map_map]
    rfl
  rw [h1, signedV21_appLen_aux, F.appCnt, F.relCnt]
  omega


/-! ### closed form of the exported image -/

/-- the application with the updated IVT -/
def v21App (c : Cls) (cfg : Cfg) : Bytes := updateIvt c cfg (appData cfg) (totalLen c cfg).toNat (appLen c cfg)

/-- the manifest as emitted -/
def v21Man (c : Cls) (cfg : Cfg) (k : ManifestKind) : Bytes :=
  match k with
  | .digest => manifestBytes k cfg 0
  | .crc => manifestBytes k cfg (crc32m (dropLast (v21App c cfg ++ cfg.cert ++ manifestBytes k cfg 0) 4))

def v21Raw (c : Cls) (cfg : Cfg) (k : ManifestKind) : Bytes := v21App c cfg ++ cfg.cert ++ v21Man c cfg k

def v21Hash (co : CryptoOps) (cfg : Cfg) (k : ManifestKind) (raw : Bytes) : Bytes :=
  match k, cfg.digest with
  | .digest, some a => co.hash a raw
  | _, _ => []

def v21Image (co : CryptoOps) (c : Cls) (cfg : Cfg) (signer : Signer) (k : ManifestKind) : Bytes :=
  v21Raw c cfg k ++ signer (v21Raw c cfg k) ++ v21Hash co cfg k (v21Raw c cfg k)

theorem signedV21_app_ne (F : V21Cls c) (G : V21Cfg c cfg) : (appData cfg).isEmpty = false := by
  have := signedV21_app_len F G
  cases h : appData cfg with
  | nil => rw [h] at this; simp [minIvtSize] at this
  | cons x xs => rfl

theorem signedV21_collect (F : V21Cls c) (G : V21Cfg c cfg) (k : ManifestKind) (hk : c.manifestKind = some k) :
    collect c cfg = .ok (v21Raw c cfg k) := by
  unfold collect
  rw [F.rColl]
  unfold collectAppCertManifest
  simp only [hk, signedV21_app_ne F G]
  cases k <;> simp [v21Raw, v21Man, v21App]

theorem signedV21_export (F : V21Cls c) (G : V21Cfg c cfg) (k : ManifestKind) (hk : c.manifestKind = some k) :
    exportImage co c cfg signer = .ok (v21Image co c cfg signer k) := by
  have hfin : finalizeStage co c cfg (v21Raw c cfg k) (v21Raw c cfg k ++ signer (v21Raw c cfg k))
      = .ok (v21Image co c cfg signer k) := by
    unfold finalizeStage
    rw [F.rFin, hk]
    cases k <;> cases hd : cfg.digest <;> simp [v21Image, v21Hash, hd]
  unfold exportImage
  simp only [G.val, G.pack, signedV21_collect F G k hk, bind, Except.bind, encryptStage, F.rEnc, postEncryptStage,
    F.rPost, signStage, F.sign, hfin]

theorem signedV21_pack (G : V21Cfg c cfg) :
    0 ≤ totalLen c cfg ∧ totalLen c cfg + cfg.sigLen + encIvtCopySize + encIvSize < 2 ^ 32 := by
  have h := G.pack
  unfold packGuard at h
  split at h
  · cases h
  · rename_i hn
    simp only [not_or] at hn
    exact ⟨by omega, by omega⟩

theorem signedV21_manifestBytes_length (k : ManifestKind) (cfg : Cfg) (crc : Nat) :
    (manifestBytes k cfg crc).length = manifestLen k cfg := by
  cases k <;> simp [manifestBytes, manifestLen, le32_length, manifestMagic, manifestHeaderSize] <;> omega

theorem signedV21_man_length (c : Cls) (cfg : Cfg) (k : ManifestKind) : (v21Man c cfg k).length = manifestLen k cfg := by
  cases k <;> simp [v21Man, signedV21_manifestBytes_length]

theorem signedV21_app_length (F : V21Cls c) (G : V21Cfg c cfg) : (v21App c cfg).length = (appData cfg).length :=
  updateIvt_length _ _ _ _ _ (signedV21_app_len F G)

theorem signedV21_hash_length (hl : CryptoLaws co) (G : V21Cfg c cfg) (k : ManifestKind) (raw : Bytes) :
    (v21Hash co cfg k raw).length = v21DigLen k cfg := by
  have := G.sha1
  cases k <;> cases hd : cfg.digest with
  | none => simp [v21Hash, v21DigLen, hd, digestSize]
  | some a => cases a <;> simp_all [v21Hash, v21DigLen, digestSize, hl.hash_len, HashAlg.size]

theorem signedV21_raw_length (F : V21Cls c) (G : V21Cfg c cfg) (k : ManifestKind) :
    (v21Raw c cfg k).length = (appData cfg).length + cfg.cert.length + manifestLen k cfg := by
  simp [v21Raw, signedV21_app_length F G, signedV21_man_length]; omega

theorem signedV21_image_length (hl : CryptoLaws co) (hs : ∀ m, (signer m).length = cfg.sigLen)
    (F : V21Cls c) (G : V21Cfg c cfg) (k : ManifestKind) (hk : c.manifestKind = some k) :
    ((v21Image co c cfg signer k).length : Int) = totalLen c cfg := by
  rw [signedV21_totalLen F k hk]
  simp only [v21Image, List.length_append, signedV21_raw_length F G, hs, signedV21_hash_length hl G]
  omega


theorem signedV21_words (F : V21Cls c) (G : V21Cfg c cfg) (rest : Bytes) :
    rd32 (v21App c cfg ++ rest) ivtImageLengthOffset = (if c.zeroTotalLength then 0 else (totalLen c cfg).toNat)
    ∧ rd32 (v21App c cfg ++ rest) ivtImageFlagsOffset = flagsOf c cfg
    ∧ rd32 (v21App c cfg ++ rest) ivtCrcCertificateOffset = (appData cfg).length
    ∧ rd32 (v21App c cfg ++ rest) ivtLoadAddrOffset = (if c.has .Mbi_MixinLoadAddress then cfg.loadAddress else 0) := by
  have hA := signedV21_app_len F G
  obtain ⟨hp0, hp1⟩ := signedV21_pack G
  obtain ⟨k, hk⟩ := Option.isSome_iff_exists.mp F.mkSome
  have htl := signedV21_totalLen (cfg := cfg) F k hk
  have hal := signedV21_appLen (cfg := cfg) F
  have hw := updateIvt_words c cfg (appData cfg) (totalLen c cfg).toNat (appLen c cfg) hA G.fl
    (by simp only [encIvtCopySize, encIvSize] at hp1; omega)
    (by rw [hal]; simp only [encIvtCopySize, encIvSize] at hp1; omega) G.la
  simp only [v21App]
  rw [rd32_updateIvt_append _ _ _ _ _ _ _ hA (by simp [ivtImageLengthOffset]),
    rd32_updateIvt_append _ _ _ _ _ _ _ hA (by simp [ivtImageFlagsOffset]),
    rd32_updateIvt_append _ _ _ _ _ _ _ hA (by simp [ivtCrcCertificateOffset]),
    rd32_updateIvt_append _ _ _ _ _ _ _ hA (by simp [ivtLoadAddrOffset])]
  obtain ⟨h1, h2, h3, h4⟩ := hw
  refine ⟨h1, h2, ?_, ?_⟩
  · rw [h3, if_neg F.itype0, hal]
  · rw [h4, F.aLoad]

theorem signedV21_image_assoc (co : CryptoOps) (c : Cls) (cfg : Cfg) (signer : Signer) (k : ManifestKind) :
    v21Image co c cfg signer k = v21App c cfg ++ (cfg.cert ++ (v21Man c cfg k ++ (signer (v21Raw c cfg k)
      ++ v21Hash co cfg k (v21Raw c cfg k)))) := by
  simp [v21Image, v21Raw]

theorem total_len_sum_signedV21 (h : Hyp co env c cfg signer) (hf : c.family = some .signedV21) :
    ∃ e, exportImage co c cfg signer = .ok e
      ∧ (e.length : Int) = totalLen c cfg + (if c.signKind = .rsa then cfg.sigLen else 0)
          + (if c.family = some .encrypted then encIvtCopySize + encIvSize else 0) := by
  have F := signedV21_classFacts h.hcls hf
  have G := signedV21_cfgFacts F h.hcfg
  obtain ⟨k, hk⟩ := Option.isSome_iff_exists.mp F.mkSome
  refine ⟨_, signedV21_export F G k hk, ?_⟩
  rw [signedV21_image_length h.hlaws h.hsig F G k hk, F.sign, hf]
  simp

theorem header_describes_signedV21 (h : Hyp co env c cfg signer) (hf : c.family = some .signedV21) :
    ∃ e, exportImage co c cfg signer = .ok e
      ∧ rd32 e ivtImageLengthOffset = (if c.zeroTotalLength then 0 else e.length)
      ∧ rd32 e ivtImageFlagsOffset = flagsOf c cfg
      ∧ rd32 e ivtLoadAddrOffset = (if c.has .Mbi_MixinLoadAddress then cfg.loadAddress else 0)
      ∧ (c.imageType = 0 → rd32 e ivtCrcCertificateOffset = 0)
      ∧ (c.signKind = .crc → rd32 e ivtCrcCertificateOffset
            = crc32m (e.take ivtCrcCertificateOffset ++ e.drop (ivtCrcCertificateOffset + 4)))
      ∧ (c.hasAttr .cert_block = true →
          rd32 e ivtCrcCertificateOffset = appLen c cfg
          ∧ (let off := appLen c cfg + (if c.has .Mbi_MixinHmac then hmacSize + (cfg.keyStore.getD []).length else 0)
             slice e off (off + cfg.cert.length)
               = (if c.has .Mbi_MixinCertBlockV1 then certInImage c cfg else cfg.cert))) := by
  have F := signedV21_classFacts h.hcls hf
  have G := signedV21_cfgFacts F h.hcfg
  obtain ⟨k, hk⟩ := Option.isSome_iff_exists.mp F.mkSome
  refine ⟨_, signedV21_export F G k hk, ?_⟩
  have hlen := signedV21_image_length (signer := signer) h.hlaws h.hsig F G k hk
  have hal := signedV21_appLen (cfg := cfg) F
  have hAl := signedV21_app_length F G
  obtain ⟨hp0, hp1⟩ := signedV21_pack G
  rw [signedV21_image_assoc] at hlen ⊢
  obtain ⟨h1, h2, h3, h4⟩ := signedV21_words F G (cfg.cert ++ (v21Man c cfg k ++ (signer (v21Raw c cfg k)
      ++ v21Hash co cfg k (v21Raw c cfg k))))
  refine ⟨?_, h2, h4, ?_, ?_, ?_⟩
  · have : (totalLen c cfg).toNat = (v21App c cfg ++ (cfg.cert ++ (v21Man c cfg k ++ (signer (v21Raw c cfg k)
      ++ v21Hash co cfg k (v21Raw c cfg k))))).length := by
      generalize (v21App c cfg ++ (cfg.cert ++ (v21Man c cfg k ++ (signer (v21Raw c cfg k)
        ++ v21Hash co cfg k (v21Raw c cfg k))))).length = n at hlen
      omega
    rw [h1, this]
  · intro h0; exact absurd h0 F.itype0
  · intro hc; rw [F.sign] at hc; cases hc
  · intro _
    refine ⟨by rw [h3, hal], ?_⟩
    simp only [F.hasHmac, F.hasV1, hal, Bool.false_eq_true, if_false, Nat.add_zero, slice]
    rw [← hAl, ← List.append_assoc, List.take_append_of_le_length (by simp), List.take_of_length_le (by simp),
      List.drop_left]

theorem signedV21_disassemble (F : V21Cls c) (G : V21Cfg c cfg) (k : ManifestKind) (p : Parsed)
    (hcert : p.cert.isSome = true) :
    disassemble c p (v21Raw c cfg k) = .ok { p with app := some (cleanIvt (appData cfg)) } := by
  have hA := signedV21_app_len F G
  have hAl := signedV21_app_length F G
  have h3 : rd32 (v21Raw c cfg k) ivtCrcCertificateOffset = (appData cfg).length := by
    have := (signedV21_words F G (cfg.cert ++ v21Man c cfg k)).2.2.1
    simpa [v21Raw] using this
  have htake : (v21Raw c cfg k).take (appData cfg).length = v21App c cfg := by
    rw [← hAl]; simp [v21Raw]
  unfold disassemble
  simp only [F.rDis, hcert, if_true, h3, htake, disassemblyAppData, F.aDis, Bool.false_eq_true, if_false, bind,
    Except.bind, pure, Except.pure]
  have hal4 : align4 (cleanIvt (appData cfg)) = cleanIvt (appData cfg) :=
    align4_of_aligned _ (by rw [cleanIvt_length _ hA]; exact align4_length_mod _)
  simp only [v21App, cleanIvt_updateIvt _ _ _ _ _ hA, hal4]

theorem signedV21_canon_app (F : V21Cls c) (dek : Option Bytes) :
    (canon c cfg dek).app = some (cleanIvt (appData cfg)) := by
  simp [canon, F.clean]

theorem signedV21_canon_reloc (F : V21Cls c) (dek : Option Bytes) : (canon c cfg dek).reloc = none := by
  simp [canon, F.hasReloc]

theorem disassemble_collect_signedV21 (h : Hyp co env c cfg signer) (hf : c.family = some .signedV21) (dek : Option Bytes)
    (p : Parsed) (hp : p.tz = cfg.tz) (hcert : p.cert.isSome = c.hasAttr .cert_block) (hr : p.reloc = none) :
    ∃ raw, collect c cfg = .ok raw
      ∧ disassemble c p raw = .ok { p with app := (canon c cfg dek).app, reloc := (canon c cfg dek).reloc } := by
  have F := signedV21_classFacts h.hcls hf
  have G := signedV21_cfgFacts F h.hcfg
  obtain ⟨k, hk⟩ := Option.isSome_iff_exists.mp F.mkSome
  refine ⟨_, signedV21_collect F G k hk, ?_⟩
  rw [signedV21_disassemble F G k p (by rw [hcert, F.aCert]), signedV21_canon_app F, signedV21_canon_reloc F, ← hr]

/-! ### the order of the `mix_parse` calls: nobody is called while it must wait -/

def v21OkOrder (c : Cls) : Bool → List MixinName → Prop
  | _, [] => True
  | done, m :: ms => mustWait c done m = false ∧ v21OkOrder c (done || setsCert m) ms

theorem signedV21_okOrder_append (c : Cls) : ∀ (o1 o2 : List MixinName) (done : Bool),
    v21OkOrder c done o1 → v21OkOrder c (done || o1.any setsCert) o2 → v21OkOrder c done (o1 ++ o2)
  | [], o2, done, _, h2 => by simpa using h2
  | m :: ms, o2, done, h1, h2 => by
    refine ⟨h1.1, signedV21_okOrder_append c ms o2 _ h1.2 ?_⟩
    simpa [List.any_cons, Bool.or_assoc] using h2

theorem signedV21_parseRound (c : Cls) : ∀ (ms : List MixinName) (done : Bool),
    v21OkOrder c done (parseRound c ms done).1
    ∧ (parseRound c ms done).2.2 = (done || (parseRound c ms done).1.any setsCert)
    ∧ (∀ m, m ∈ ms ↔ m ∈ (parseRound c ms done).1 ∨ m ∈ (parseRound c ms done).2.1)
  | [], done => by simp [parseRound, v21OkOrder]
  | m :: ms, done => by
    unfold parseRound
    by_cases hw : mustWait c done m = true
    · obtain ⟨h1, h2, h3⟩ := signedV21_parseRound c ms done
      simp only [hw, if_true]
      refine ⟨h1, h2, ?_⟩
      intro x
      simp only [List.mem_cons, h3 x]
      grind
    · obtain ⟨h1, h2, h3⟩ := signedV21_parseRound c ms (done || setsCert m)
      simp only [hw, Bool.false_eq_true, if_false]
      refine ⟨⟨by simpa using hw, h1⟩, ?_, ?_⟩
      · rw [h2]; simp [List.any_cons, Bool.or_assoc]
      · intro x
        simp only [List.mem_cons, h3 x]
        grind

theorem signedV21_parseOrderF (c : Cls) : ∀ (f : Nat) (todo : List MixinName) (done : Bool) (order : List MixinName),
    parseOrderF c f todo done = some order → v21OkOrder c done order ∧ ∀ m, m ∈ order ↔ m ∈ todo := by
  intro f
  induction f with
  | zero =>
    intro todo done order h
    cases todo with
    | nil => simp [parseOrderF] at h; subst h; simp [v21OkOrder]
    | cons x xs => simp [parseOrderF] at h
  | succ f ih =>
    intro todo done order h
    cases todo with
    | nil => simp [parseOrderF] at h; subst h; simp [v21OkOrder]
    | cons x xs =>
      unfold parseOrderF at h
      obtain ⟨h1, h2, h3⟩ := signedV21_parseRound c (x :: xs) done
      generalize parseRound c (x :: xs) done = r at h h1 h2 h3
      obtain ⟨o, w, d⟩ := r
      simp only at h h1 h2 h3
      split at h
      · cases h
      · cases hr : parseOrderF c f w d with
        | none => rw [hr] at h; cases h
        | some rest =>
          rw [hr] at h
          simp only [Option.map_some, Option.some.injEq] at h
          subst h
          obtain ⟨i1, i2⟩ := ih w d rest hr
          refine ⟨signedV21_okOrder_append c o rest done h1 (h2 ▸ i1), ?_⟩
          intro m
          rw [List.mem_append, i2 m, h3 m]

theorem signedV21_parseOrder (c : Cls) (order : List MixinName) (h : parseOrder c = some order) :
    v21OkOrder c false order ∧ ∀ m, m ∈ order ↔ m ∈ c.dataMixins :=
  signedV21_parseOrderF c _ _ _ _ h

/-- the flag word the manifest carries -/
def v21ManFlags (k : ManifestKind) (cfg : Cfg) : Nat := match k with | .crc => 0 | .digest => manifestFlags cfg.digest

theorem signedV21_manFlags_lt (k : ManifestKind) (cfg : Cfg) : v21ManFlags k cfg < 2 ^ 32 := by
  cases k with
  | crc => simp [v21ManFlags]
  | digest =>
    simp only [v21ManFlags]
    cases cfg.digest with
    | none => decide
    | some a => cases a <;> decide

theorem signedV21_manFlags_ok (cfg : Cfg) :
    ¬ (manifestFlags cfg.digest &&& manifestDigestPresentFlag ≠ 0
        ∧ (manifestFlags cfg.digest &&& manifestHashTypeMask) > 3) := by
  cases cfg.digest with
  | none => decide
  | some a => cases a <;> decide

theorem signedV21_digestOfFlags (cfg : Cfg) (h : cfg.digest ≠ some .sha1) :
    digestOfFlags (manifestFlags cfg.digest) = cfg.digest := by
  cases hd : cfg.digest with
  | none => decide
  | some a => cases a <;> first | decide | exact absurd hd h

def v21CrcPart (k : ManifestKind) (crc : Nat) : Bytes := match k with | .crc => le32 crc | .digest => []

theorem signedV21_parseManifest (c : Cls) (k : ManifestKind) (cfg : Cfg) (crc : Nat) (tail : Bytes)
    (htail : 0 < tail.length) (hfw : cfg.fwVersion < 2 ^ 32) (hml : manifestLen k cfg < 2 ^ 32) :
    parseManifest c k (manifestBytes k cfg crc ++ tail) = .ok (cfg.fwVersion, v21ManFlags k cfg, cfg.tz.bytes) := by
  have hlen := signedV21_manifestBytes_length k cfg crc
  generalize hd : manifestBytes k cfg crc ++ tail = d
  have hdl : d.length = manifestLen k cfg + tail.length := by rw [← hd, List.length_append, hlen]
  have hform : d = manifestMagic ++ le32 manifestFormatVersion ++ le32 cfg.fwVersion ++ le32 (manifestLen k cfg)
      ++ le32 (v21ManFlags k cfg) ++ (cfg.tz.bytes ++ v21CrcPart k crc ++ tail) := by
    rw [← hd]; cases k <;> simp [manifestBytes, v21ManFlags, v21CrcPart, List.append_assoc]
  have h0 : d.take 4 = manifestMagic := by
    rw [hform]; simp only [List.append_assoc]; exact List.take_left' (by decide)
  have h4 : rd32 d 4 = manifestFormatVersion :=
    rd32_at d manifestMagic _ _ 4 (by rw [hform]; simp only [List.append_assoc]; try rfl) (by decide) (by decide)
  have h8 : rd32 d 8 = cfg.fwVersion :=
    rd32_at d (manifestMagic ++ le32 manifestFormatVersion) _ _ 8 (by rw [hform]; simp only [List.append_assoc]; try rfl)
      (by simp [le32_length, manifestMagic]) hfw
  have h12 : rd32 d 12 = manifestLen k cfg :=
    rd32_at d (manifestMagic ++ le32 manifestFormatVersion ++ le32 cfg.fwVersion) _ _ 12
      (by rw [hform]; simp only [List.append_assoc]; try rfl) (by simp [le32_length, manifestMagic]) hml
  have h16 : rd32 d 16 = v21ManFlags k cfg :=
    rd32_at d (manifestMagic ++ le32 manifestFormatVersion ++ le32 cfg.fwVersion ++ le32 (manifestLen k cfg)) _ _ 16
      (by rw [hform]) (by simp [le32_length, manifestMagic]) (signedV21_manFlags_lt k cfg)
  have hsl : slice d manifestHeaderSize (manifestLen k cfg)
      = cfg.tz.bytes ++ v21CrcPart k crc := by
    have hmb : manifestBytes k cfg crc = (manifestMagic ++ le32 manifestFormatVersion ++ le32 cfg.fwVersion
        ++ le32 (manifestLen k cfg) ++ le32 (v21ManFlags k cfg)) ++ (cfg.tz.bytes ++ v21CrcPart k crc) := by
      cases k <;> simp [manifestBytes, v21ManFlags, v21CrcPart]
    unfold slice
    rw [← hd, List.take_left' hlen, hmb]
    exact List.drop_left' (by simp [le32_length, manifestMagic, manifestHeaderSize])
  have hml20 : manifestHeaderSize ≤ manifestLen k cfg := by simp [manifestLen]; omega
  unfold parseManifest
  simp only [h0, h4, h8, h12, h16, hsl]
  rw [if_neg (by omega), if_neg (by simp), if_neg (by simp), if_neg (by omega)]
  cases k with
  | crc => simp [le32_length, dropLast, v21ManFlags, v21CrcPart]
  | digest =>
    simp only [v21ManFlags, v21CrcPart, List.append_nil]
    rw [if_neg (signedV21_manFlags_ok cfg)]

theorem signedV21_flag_getters (F : V21Cls c) (G : V21Cfg c cfg) :
    getImageVersion (flagsOf c cfg) = (if c.has .Mbi_MixinImageVersion then cfg.imageVersion else 0)
    ∧ getSubType (flagsOf c cfg) = (if c.has .Mbi_MixinImageSubType then cfg.subType else 0)
    ∧ getHwKeyEnabled (flagsOf c cfg) = (c.has .Mbi_MixinHwKey && cfg.hwKey)
    ∧ getTzType (flagsOf c cfg) = cfg.tz.tag := by
  have htag : cfg.tz.tag ≤ tzTypeMask := by cases cfg.tz <;> simp [TzCfg.tag, tzTypeMask, tzEnabled, tzCustom, tzDisabled]
  have hiv : cfg.imageVersion ≤ imgVerMask := by have := G.iv; simp only [imgVerMask]; omega
  have hfo : flagsOf c cfg = createFlags c.imageType c.hasTrustZone cfg.tz.tag (c.hasAttr .image_subtype) cfg.subType
      (c.hasAttr .user_hw_key_enabled) cfg.hwKey (c.hasAttr .key_store) false 0
      (c.hasAttr .app_table) cfg.reloc.isSome (c.hasAttr .image_version) cfg.imageVersion
      (c.hasAttr .image_version_to_image_type) true := by
    unfold flagsOf; rw [G.ks]; rfl
  have h := flags_fields c.imageType cfg.tz.tag cfg.subType cfg.imageVersion 0
    c.hasTrustZone (c.hasAttr .image_subtype) (c.hasAttr .user_hw_key_enabled) cfg.hwKey (c.hasAttr .key_store)
    false (c.hasAttr .app_table) cfg.reloc.isSome (c.hasAttr .image_version)
    (c.hasAttr .image_version_to_image_type) true F.itype htag G.st hiv
  obtain ⟨-, h2, h3, h4, -, -, h7, -⟩ := h
  rw [hfo]
  refine ⟨?_, ?_, ?_, ?_⟩
  · rw [h7, F.aVer, F.aV2T]; cases c.has .Mbi_MixinImageVersion <;> simp
  · rw [h3, F.aSub]
  · rw [h4, F.aHw]
  · rw [h2, signedV21_hasTrustZone F]; simp


/-- what the parser reads in the image -/
structure V21Img (c : Cls) (cfg : Cfg) (k : ManifestKind) (e tail : Bytes) : Prop where
  flags : flagsIn e = flagsOf c cfg
  la : rd32 e ivtLoadAddrOffset = (if c.has .Mbi_MixinLoadAddress then cfg.loadAddress else 0)
  off : certOffsetChecked c e = .ok (appData cfg).length
  dropA : e.drop (appData cfg).length = cfg.cert ++ (v21Man c cfg k ++ tail)
  dropC : e.drop ((appData cfg).length + cfg.cert.length) = v21Man c cfg k ++ tail
  tailpos : 0 < tail.length

theorem signedV21_img (F : V21Cls c) (G : V21Cfg c cfg) (k : ManifestKind) (tail : Bytes) (htail : 0 < tail.length)
    (hlen : ((v21App c cfg ++ (cfg.cert ++ (v21Man c cfg k ++ tail))).length : Int) = totalLen c cfg) :
    V21Img c cfg k (v21App c cfg ++ (cfg.cert ++ (v21Man c cfg k ++ tail))) tail := by
  obtain ⟨h1, h2, h3, h4⟩ := signedV21_words F G (cfg.cert ++ (v21Man c cfg k ++ tail))
  have hAl := signedV21_app_length F G
  have hA := signedV21_app_len F G
  generalize he : v21App c cfg ++ (cfg.cert ++ (v21Man c cfg k ++ tail)) = e at h1 h2 h3 h4 hlen
  have hel : (totalLen c cfg).toNat = e.length := by omega
  have hge : minIvtSize ≤ e.length := by
    rw [← he, List.length_append, hAl]; omega
  refine ⟨h2, h4, ?_, ?_, ?_, htail⟩
  · unfold certOffsetChecked checkTotalLength
    simp only [h1, h3, hel]
    have hlt : ¬ e.length < minIvtSize := by omega
    by_cases hz : c.zeroTotalLength = true
    · simp [hz, hlt]; rfl
    · simp [hz, hlt]; rfl
  · rw [← he, ← hAl, List.drop_left]
  · rw [← he, ← hAl, ← List.append_assoc, List.drop_left' (by simp)]

def v21Cert (cfg : Cfg) : CertInfo := ⟨cfg.cert, cfg.cert.length, cfg.sigLen, false⟩

def v21Dig (k : ManifestKind) (cfg : Cfg) : Option HashAlg := match k with | .digest => cfg.digest | .crc => none

theorem signedV21_step_cert (F : V21Cls c) (henv : EnvOK env c cfg) {k : ManifestKind} {e tail : Bytes}
    (I : V21Img c cfg k e tail) (dek : Option Bytes) (p : Parsed) (m : MixinName)
    (hpv : provider m .mix_parse = some .Mbi_MixinCertBlockV21) :
    mixParse env c dek e p m = .ok { p with cert := some (v21Cert cfg) } := by
  obtain ⟨h1, h2, h3⟩ := henv.2 F.hasV21 (v21Man c cfg k ++ tail)
  unfold mixParse
  simp only [hpv, I.off, bind, Except.bind, I.dropA, h1, h2, h3, pure, Except.pure]
  simp [v21Cert]

theorem signedV21_tzFromBinary (G : V21Cfg c cfg) (d : Bytes) (h : cfg.tz = .custom d) :
    tzFromBinary c d = .ok (.custom d) := by
  obtain ⟨h1, h2⟩ := G.tz d h
  unfold tzFromBinary
  rw [if_neg (by omega), if_neg (by rw [h1]; omega), ← h1, List.take_length]

theorem signedV21_step_manifest (F : V21Cls c) (G : V21Cfg c cfg) {k : ManifestKind} (hk : c.manifestKind = some k)
    {e tail : Bytes} (I : V21Img c cfg k e tail) (dek : Option Bytes) (p : Parsed) (m : MixinName)
    (hpv : provider m .mix_parse = some .Mbi_MixinManifest) (hc : p.cert = some (v21Cert cfg)) :
    mixParse env c dek e p m = .ok { p with
      fwVersion := cfg.fwVersion, tz := cfg.tz, manifestSeen := true, manifestFlags := v21ManFlags k cfg,
      digest := v21Dig k cfg } := by
  obtain ⟨hp0, hp1⟩ := signedV21_pack G
  have htl := signedV21_totalLen (cfg := cfg) F k hk
  have hml : manifestLen k cfg < 2 ^ 32 := by simp only [encIvtCopySize, encIvSize] at hp1; omega
  have hpm : parseManifest c k (e.drop ((appData cfg).length + cfg.cert.length))
      = .ok (cfg.fwVersion, v21ManFlags k cfg, cfg.tz.bytes) := by
    rw [I.dropC]
    cases k <;> (simp only [v21Man]; exact signedV21_parseManifest c _ cfg _ tail I.tailpos G.fw hml)
  have htz : (if cfg.tz.bytes.isEmpty then
        (pure (if getTzType (flagsIn e) = tzEnabled then TzCfg.enabled else TzCfg.disabled) : PyRes TzCfg)
      else tzFromBinary c cfg.tz.bytes) = .ok cfg.tz := by
    rw [I.flags, (signedV21_flag_getters F G).2.2.2]
    have hnd := signedV21_tz_ne_disabled F G
    cases ht : cfg.tz with
    | disabled => exact absurd ht hnd
    | enabled => rfl
    | custom d =>
      obtain ⟨h1, h2⟩ := G.tz d ht
      have : d ≠ [] := by intro h; rw [h] at h1; simp at h1; omega
      simp only [TzCfg.bytes, List.isEmpty_iff, this, if_false]
      exact signedV21_tzFromBinary G d ht
  have htz' : (if cfg.tz.bytes = [] then
        (Except.ok (if getTzType (flagsIn e) = tzEnabled then TzCfg.enabled else TzCfg.disabled) : PyRes TzCfg)
      else tzFromBinary c cfg.tz.bytes) = .ok cfg.tz := by
    simpa [pure, Except.pure] using htz
  unfold mixParse
  simp only [hpv, hc, hk, v21Cert, I.off, bind, Except.bind, hpm, pure, Except.pure]
  cases k <;> simp [v21Dig, v21ManFlags, signedV21_digestOfFlags cfg G.sha1, htz']

/-- what one `mix_parse` call (by provider) writes -/
def v21Upd (c : Cls) (cfg : Cfg) (k : ManifestKind) (o : Option MixinName) (p : Parsed) : Parsed :=
  match o with
  | some .Mbi_MixinLoadAddress => { p with loadAddress := if c.has .Mbi_MixinLoadAddress then cfg.loadAddress else 0 }
  | some .Mbi_MixinImageVersion => { p with imageVersion := if c.has .Mbi_MixinImageVersion then cfg.imageVersion else 0 }
  | some .Mbi_MixinImageSubType => { p with subType := if c.has .Mbi_MixinImageSubType then cfg.subType else 0 }
  | some .Mbi_MixinHwKey => { p with hwKey := c.has .Mbi_MixinHwKey && cfg.hwKey }
  | some .Mbi_MixinCertBlockV21 => { p with cert := some (v21Cert cfg) }
  | some .Mbi_MixinManifest => { p with
      fwVersion := cfg.fwVersion, tz := cfg.tz, manifestSeen := true, manifestFlags := v21ManFlags k cfg,
      digest := v21Dig k cfg }
  | _ => p

/-- providers of `mix_parse` that cannot occur in a signedV21 class -/
theorem signedV21_excluded (F : V21Cls c) (m : MixinName) (hm : m ∈ c.mixins) :
    provider m .mix_parse ≠ some .Mbi_MixinTrustZone ∧ provider m .mix_parse ≠ some .Mbi_MixinKeyStore
    ∧ provider m .mix_parse ≠ some .Mbi_MixinHmac ∧ provider m .mix_parse ≠ some .Mbi_MixinCtrInitVector
    ∧ provider m .mix_parse ≠ some .Mbi_MixinCertBlockV1 ∧ provider m .mix_parse ≠ some .Mbi_MixinBca
    ∧ provider m .mix_parse ≠ some .Mbi_MixinFcf := by
  have h1 := signedV21_hasAttr_false F.aTz m hm
  have h2 := signedV21_has_false F.hasKs m hm
  have h3 := signedV21_has_false F.hasHmac m hm
  have h4 := signedV21_has_false F.hasCtr m hm
  have h5 := signedV21_has_false F.hasV1 m hm
  have h6 := signedV21_hasAttr_false F.aBca m hm
  have h7 := signedV21_hasAttr_false F.aFcf m hm
  revert h1 h2 h3 h4 h5 h6 h7
  cases m <;> decide

theorem signedV21_step (F : V21Cls c) (G : V21Cfg c cfg) (henv : EnvOK env c cfg) {k : ManifestKind}
    (hk : c.manifestKind = some k) {e tail : Bytes} (I : V21Img c cfg k e tail) (dek : Option Bytes) (p : Parsed)
    (m : MixinName) (hm : m ∈ c.mixins)
    (hc : provider m .mix_parse = some .Mbi_MixinManifest → p.cert = some (v21Cert cfg)) :
    mixParse env c dek e p m = .ok (v21Upd c cfg k (provider m .mix_parse) p) := by
  obtain ⟨x1, x2, x3, x4, x5, x6, x7⟩ := signedV21_excluded F m hm
  obtain ⟨g1, g2, g3, g4⟩ := signedV21_flag_getters F G
  cases hpv : provider m .mix_parse with
  | none => unfold mixParse; simp only [hpv, v21Upd]
  | some d =>
    rw [hpv] at x1 x2 x3 x4 x5 x6 x7 hc
    cases d
    case Mbi_MixinCertBlockV21 => rw [signedV21_step_cert F henv I dek p m hpv]; rfl
    case Mbi_MixinManifest => rw [signedV21_step_manifest F G hk I dek p m hpv (hc rfl)]; rfl
    case Mbi_MixinLoadAddress => unfold mixParse; simp only [hpv, v21Upd, I.la]
    case Mbi_MixinImageVersion => unfold mixParse; simp only [hpv, v21Upd, I.flags, g1]
    case Mbi_MixinImageSubType => unfold mixParse; simp only [hpv, v21Upd, I.flags, g2]
    case Mbi_MixinHwKey => unfold mixParse; simp only [hpv, v21Upd, I.flags, g3]
    all_goals first
      | (exfalso; first | exact x1 rfl | exact x2 rfl | exact x3 rfl | exact x4 rfl | exact x5 rfl | exact x6 rfl | exact x7 rfl)
      | (unfold mixParse; simp only [hpv, v21Upd])

theorem signedV21_manifest_waits (c : Cls) (done : Bool) (m : MixinName)
    (h : provider m .mix_parse = some .Mbi_MixinManifest) :
    mustWait c done m = (c.hasAttr .cert_block && !done) := by
  cases m <;> first | (exact absurd h (by decide)) | simp [mustWait, preParsed]

theorem signedV21_upd_cert (c : Cls) (cfg : Cfg) (k : ManifestKind) (o : Option MixinName) (p : Parsed) :
    (v21Upd c cfg k o p).cert = if o = some .Mbi_MixinCertBlockV21 then some (v21Cert cfg) else p.cert := by
  cases o with
  | none => rfl
  | some d => cases d <;> simp [v21Upd]

theorem signedV21_setsCert (F : V21Cls c) (m : MixinName) (hm : m ∈ c.mixins) (h : setsCert m = true) :
    provider m .mix_parse = some .Mbi_MixinCertBlockV21 := by
  have := (signedV21_excluded F m hm).2.2.2.2.1
  simp only [setsCert, Bool.or_eq_true, beq_iff_eq] at h
  rcases h with h | h
  · exact absurd h this
  · exact h

theorem signedV21_fold (F : V21Cls c) (G : V21Cfg c cfg) (henv : EnvOK env c cfg) {k : ManifestKind}
    (hk : c.manifestKind = some k) {e tail : Bytes} (I : V21Img c cfg k e tail) (dek : Option Bytes) :
    ∀ (order : List MixinName) (done : Bool) (p : Parsed), v21OkOrder c done order → (∀ m ∈ order, m ∈ c.mixins) →
      (done = true → p.cert = some (v21Cert cfg)) →
      order.foldlM (mixParse env c dek e) p
        = .ok (order.foldl (fun p m => v21Upd c cfg k (provider m .mix_parse) p) p)
  | [], _, _, _, _, _ => rfl
  | m :: ms, done, p, hok, hmem, hdone => by
    have hm := hmem m (List.mem_cons_self ..)
    have hstep := signedV21_step F G henv hk I dek p m hm (by
      intro hpv
      have hw := hok.1
      rw [signedV21_manifest_waits c done m hpv, F.aCert] at hw
      exact hdone (by simpa using hw))
    rw [List.foldlM_cons, hstep, List.foldl_cons]
    refine signedV21_fold F G henv hk I dek ms (done || setsCert m) _ hok.2
      (fun x hx => hmem x (List.mem_cons_of_mem _ hx)) ?_
    intro hd
    rw [signedV21_upd_cert]
    by_cases hv : provider m .mix_parse = some .Mbi_MixinCertBlockV21
    · rw [if_pos hv]
    · rw [if_neg hv]
      rcases Bool.or_eq_true _ _ ▸ hd with h | h
      · exact hdone h
      · exact absurd (signedV21_setsCert F m hm h) hv

/-- has a mixin whose `mix_parse` is provided by `X` been called? -/
def v21Sees (order : List MixinName) (X : MixinName) : Bool := order.any (fun m => provider m .mix_parse == some X)

/-- the state after the calls, by the set of providers called -/
def v21B (c : Cls) (cfg : Cfg) (k : ManifestKind) (s : MixinName → Bool) (p : Parsed) : Parsed :=
  { p with
    loadAddress := if s .Mbi_MixinLoadAddress then (if c.has .Mbi_MixinLoadAddress then cfg.loadAddress else 0) else p.loadAddress
    imageVersion := if s .Mbi_MixinImageVersion then (if c.has .Mbi_MixinImageVersion then cfg.imageVersion else 0) else p.imageVersion
    subType := if s .Mbi_MixinImageSubType then (if c.has .Mbi_MixinImageSubType then cfg.subType else 0) else p.subType
    hwKey := if s .Mbi_MixinHwKey then (c.has .Mbi_MixinHwKey && cfg.hwKey) else p.hwKey
    cert := if s .Mbi_MixinCertBlockV21 then some (v21Cert cfg) else p.cert
    fwVersion := if s .Mbi_MixinManifest then cfg.fwVersion else p.fwVersion
    tz := if s .Mbi_MixinManifest then cfg.tz else p.tz
    manifestSeen := if s .Mbi_MixinManifest then true else p.manifestSeen
    manifestFlags := if s .Mbi_MixinManifest then v21ManFlags k cfg else p.manifestFlags
    digest := if s .Mbi_MixinManifest then v21Dig k cfg else p.digest }

theorem signedV21_foldl (c : Cls) (cfg : Cfg) (k : ManifestKind) : ∀ (order : List MixinName) (p : Parsed),
    order.foldl (fun p m => v21Upd c cfg k (provider m .mix_parse) p) p = v21B c cfg k (v21Sees order) p
  | [], p => by simp [v21B, v21Sees]
  | m :: ms, p => by
    rw [List.foldl_cons, signedV21_foldl c cfg k ms]
    cases hpv : provider m .mix_parse with
    | none => simp [v21B, v21Sees, v21Upd, hpv]
    | some d => cases d <;> simp [v21B, v21Sees, v21Upd, hpv]

theorem signedV21_cover {order : List MixinName} (hmem : ∀ m, m ∈ order ↔ m ∈ c.dataMixins) (X Y : MixinName)
    (hXY : ∀ m, derivesFrom m X = true → provider m .mix_parse = some Y ∧ isData m = true) (h : c.has X = true) :
    v21Sees order Y = true := by
  obtain ⟨m, hm, hd⟩ := signedV21_has_mem h
  obtain ⟨h1, h2⟩ := hXY m hd
  have : m ∈ order := (hmem m).2 (by simp [Cls.dataMixins, hm, h2])
  simp only [v21Sees, List.any_eq_true, beq_iff_eq]
  exact ⟨m, this, h1⟩

theorem signedV21_prov_la (m : MixinName) (h : derivesFrom m .Mbi_MixinLoadAddress = true) :
    provider m .mix_parse = some .Mbi_MixinLoadAddress ∧ isData m = true := by
  cases m <;> first | decide | (revert h; decide)
theorem signedV21_prov_iv (m : MixinName) (h : derivesFrom m .Mbi_MixinImageVersion = true) :
    provider m .mix_parse = some .Mbi_MixinImageVersion ∧ isData m = true := by
  cases m <;> first | decide | (revert h; decide)
theorem signedV21_prov_st (m : MixinName) (h : derivesFrom m .Mbi_MixinImageSubType = true) :
    provider m .mix_parse = some .Mbi_MixinImageSubType ∧ isData m = true := by
  cases m <;> first | decide | (revert h; decide)
theorem signedV21_prov_hw (m : MixinName) (h : derivesFrom m .Mbi_MixinHwKey = true) :
    provider m .mix_parse = some .Mbi_MixinHwKey ∧ isData m = true := by
  cases m <;> first | decide | (revert h; decide)
theorem signedV21_prov_v21 (m : MixinName) (h : derivesFrom m .Mbi_MixinCertBlockV21 = true) :
    provider m .mix_parse = some .Mbi_MixinCertBlockV21 ∧ isData m = true := by
  cases m <;> first | decide | (revert h; decide)
theorem signedV21_prov_mc (m : MixinName) (h : derivesFrom m .Mbi_MixinManifestCrc = true) :
    provider m .mix_parse = some .Mbi_MixinManifest ∧ isData m = true := by
  cases m <;> first | decide | (revert h; decide)
theorem signedV21_prov_md (m : MixinName) (h : derivesFrom m .Mbi_MixinManifestDigest = true) :
    provider m .mix_parse = some .Mbi_MixinManifest ∧ isData m = true := by
  cases m <;> first | decide | (revert h; decide)

theorem signedV21_sees_manifest (F : V21Cls c) {order : List MixinName} (hmem : ∀ m, m ∈ order ↔ m ∈ c.dataMixins) :
    v21Sees order .Mbi_MixinManifest = true := by
  have h := F.mkSome
  unfold Cls.manifestKind at h
  by_cases h1 : c.has .Mbi_MixinManifestCrc = true
  · exact signedV21_cover hmem _ _ signedV21_prov_mc h1
  · by_cases h2 : c.has .Mbi_MixinManifestDigest = true
    · exact signedV21_cover hmem _ _ signedV21_prov_md h2
    · simp [h1, h2] at h

theorem signedV21_final (F : V21Cls c) (G : V21Cfg c cfg) {k : ManifestKind} (hk : c.manifestKind = some k)
    (dek : Option Bytes) {order : List MixinName} (hmem : ∀ m, m ∈ order ↔ m ∈ c.dataMixins) :
    v21B c cfg k (v21Sees order) {} = { canon c cfg dek with app := none } := by
  have s1 := signedV21_sees_manifest F hmem
  have s2 := signedV21_cover hmem _ _ signedV21_prov_v21 F.hasV21
  have s3 := signedV21_cover hmem _ _ signedV21_prov_la
  have s4 := signedV21_cover hmem _ _ signedV21_prov_iv
  have s5 := signedV21_cover hmem _ _ signedV21_prov_st
  have s6 := signedV21_cover hmem _ _ signedV21_prov_hw
  have hla : (if v21Sees order .Mbi_MixinLoadAddress then (if c.has .Mbi_MixinLoadAddress then cfg.loadAddress else 0) else 0)
      = (if c.has .Mbi_MixinLoadAddress then cfg.loadAddress else 0) := by
    cases h : c.has .Mbi_MixinLoadAddress <;> simp [h] at s3 ⊢; simp [s3]
  have hiv : (if v21Sees order .Mbi_MixinImageVersion then (if c.has .Mbi_MixinImageVersion then cfg.imageVersion else 0) else 0)
      = (if c.has .Mbi_MixinImageVersion then cfg.imageVersion else 0) := by
    cases h : c.has .Mbi_MixinImageVersion <;> simp [h] at s4 ⊢; simp [s4]
  have hst : (if v21Sees order .Mbi_MixinImageSubType then (if c.has .Mbi_MixinImageSubType then cfg.subType else 0) else 0)
      = (if c.has .Mbi_MixinImageSubType then cfg.subType else 0) := by
    cases h : c.has .Mbi_MixinImageSubType <;> simp [h] at s5 ⊢; simp [s5]
  have hhw : (if v21Sees order .Mbi_MixinHwKey then (c.has .Mbi_MixinHwKey && cfg.hwKey) else false)
      = (c.has .Mbi_MixinHwKey && cfg.hwKey) := by
    cases h : c.has .Mbi_MixinHwKey <;> simp [h] at s6 ⊢; simp [s6]
  simp only [v21B, hla, hiv, hst, hhw, s1, s2, if_true, canon, F.hasV1, F.hasV21, hk, F.hasKs, F.hasHmac, F.hasCtr,
    F.hasReloc, signedV21_hasTrustZone F, G.bca, G.fcf, Bool.false_eq_true, if_false, Option.isSome_some, ite_self,
    v21Cert]
  cases k <;> simp [v21ManFlags, v21Dig]

theorem signedV21_mixParseAll (F : V21Cls c) (G : V21Cfg c cfg) (henv : EnvOK env c cfg) {k : ManifestKind}
    (hk : c.manifestKind = some k) {e tail : Bytes} (I : V21Img c cfg k e tail) (dek : Option Bytes) :
    mixParseAll env c dek e = .ok { canon c cfg dek with app := none } := by
  obtain ⟨order, ho⟩ := Option.isSome_iff_exists.mp F.order
  obtain ⟨hok, hmem⟩ := signedV21_parseOrder c order ho
  unfold mixParseAll
  rw [ho]
  simp only
  rw [signedV21_fold F G henv hk I dek order false {} hok
    (fun m hm => (signedV21_mem_data ((hmem m).1 hm)).1) (by intro h; cases h),
    signedV21_foldl, signedV21_final F G hk dek hmem]

theorem signedV21_finalizeRevert (hl : CryptoLaws co) (F : V21Cls c) (G : V21Cfg c cfg) (k : ManifestKind)
    (P : Parsed) (h1 : P.manifestSeen = true) (h2 : P.manifestFlags = v21ManFlags k cfg) (h3 : P.digest = v21Dig k cfg)
    (x raw : Bytes) :
    finalizeRevert c P (x ++ v21Hash co cfg k raw) = .ok x := by
  unfold finalizeRevert
  rw [F.rFin]
  simp only [h1, h2, h3]
  have hsha := G.sha1
  cases k with
  | crc => simp [v21ManFlags, v21Hash]
  | digest =>
    cases hd : cfg.digest with
    | none => simp [v21ManFlags, v21Hash, v21Dig, hd, manifestFlags]
    | some a =>
      have hne : manifestFlags (some a) ≠ 0 := by cases a <;> decide
      have hsz : (co.hash a raw).length = digestSize (some a) := by
        rw [hl.hash_len]; cases a <;> first | rfl | exact absurd hd hsha
      simp only [v21ManFlags, v21Hash, v21Dig, hd, hne, ne_eq, not_false_eq_true, Option.isSome_some, and_self,
        if_true, dropLast, List.length_append, hsz, Nat.add_sub_cancel]
      rw [List.take_left' rfl]

theorem signedV21_signRevert (F : V21Cls c) (G : V21Cfg c cfg) (P : Parsed) (h1 : P.cert = some (v21Cert cfg))
    (raw sig : Bytes) (hs : sig.length = cfg.sigLen) :
    signRevert c P (raw ++ sig) = .ok raw := by
  unfold signRevert
  rw [F.sign]
  have hne : (raw ++ sig).isEmpty = false := by
    have := G.sigpos
    cases sig with
    | nil => simp at hs; omega
    | cons a l => simp
  simp only [h1, hne, v21Cert, dropLast, List.length_append, hs, Nat.add_sub_cancel]
  simp

theorem signedV21_parsed_facts (F : V21Cls c) {k : ManifestKind} (hk : c.manifestKind = some k) (dek : Option Bytes) :
    (canon c cfg dek).cert = some (v21Cert cfg) ∧ (canon c cfg dek).manifestSeen = true
    ∧ (canon c cfg dek).manifestFlags = v21ManFlags k cfg ∧ (canon c cfg dek).digest = v21Dig k cfg := by
  simp only [canon, F.hasV1, F.hasV21, hk, Bool.false_eq_true, if_false, if_true, v21Cert, Option.isSome_some, true_and]
  cases k <;> simp [v21ManFlags, v21Dig]

theorem parse_export_signedV21 (h : Hyp co env c cfg signer) (hf : c.family = some .signedV21) (dek : Option Bytes) :
    ∃ e, exportImage co c cfg signer = .ok e ∧ parseImage co env c dek e = .ok (canon c cfg dek) := by
  have F := signedV21_classFacts h.hcls hf
  have G := signedV21_cfgFacts F h.hcfg
  obtain ⟨k, hk⟩ := Option.isSome_iff_exists.mp F.mkSome
  refine ⟨_, signedV21_export F G k hk, ?_⟩
  have hlen := signedV21_image_length (signer := signer) h.hlaws h.hsig F G k hk
  rw [signedV21_image_assoc] at hlen
  have htail : 0 < (signer (v21Raw c cfg k) ++ v21Hash co cfg k (v21Raw c cfg k)).length := by
    have := G.sigpos
    rw [List.length_append, h.hsig]; omega
  have I := signedV21_img F G k _ htail hlen
  obtain ⟨p1, p2, p3, p4⟩ := signedV21_parsed_facts (cfg := cfg) F hk dek
  have hmix := signedV21_mixParseAll F G h.henv hk I dek
  rw [← signedV21_image_assoc] at hmix
  unfold parseImage
  simp only [hmix, bind, Except.bind]
  have hfin := signedV21_finalizeRevert h.hlaws F G k { canon c cfg dek with app := none } p2 p3 p4
    (v21Raw c cfg k ++ signer (v21Raw c cfg k)) (v21Raw c cfg k)
  have hsign := signedV21_signRevert F G { canon c cfg dek with app := none } p1 (v21Raw c cfg k)
    (signer (v21Raw c cfg k)) (h.hsig _)
  have hdis := signedV21_disassemble F G k { canon c cfg dek with app := none } (by rw [p1]; rfl)
  simp only [v21Image, hfin, hsign, postEncryptRevert, F.rPost, encryptRevert, F.rEnc, hdis]
  rw [← signedV21_canon_app F dek]

/-- the configuration a parsed image is re-exported from: the same settings with the cleaned application -/
def v21Cfg' (cfg : Cfg) : Cfg := { cfg with app := cleanIvt (appData cfg) }

theorem signedV21_toCfg (F : V21Cls c) (G : V21Cfg c cfg) {k : ManifestKind} (hk : c.manifestKind = some k)
    (dek : Option Bytes) : (canon c cfg dek).toCfg = v21Cfg' cfg := by
  have h1 := G.reloc; have h2 := G.ks; have h3 := G.hmac; have h4 := G.bca; have h5 := G.fcf; have h6 := G.ctr
  have h7 := G.dig; have h8 := G.ver0; have h9 := G.sub0; have h10 := G.hw0; have h11 := G.la0
  rw [hk] at h7
  obtain ⟨app, la, iv, st, tz, hw, ks, hm, ctr, rel, cert, sl, fw, dig, bca, fcf⟩ := cfg
  simp only at h1 h2 h3 h4 h5 h6 h7 h8 h9 h10 h11
  subst h1 h2 h3 h4 h5 h6
  simp only [Parsed.toCfg, canon, v21Cfg', F.clean, F.hasV1, F.hasV21, hk, F.hasKs, F.hasHmac, F.hasCtr, F.hasReloc,
    signedV21_hasTrustZone F, Bool.false_eq_true, if_false, if_true, Option.isSome_some, ite_self, Option.getD_some]
  congr 1
  · cases h : c.has .Mbi_MixinLoadAddress <;> simp_all
  · cases h : c.has .Mbi_MixinImageVersion <;> simp_all
  · cases h : c.has .Mbi_MixinImageSubType <;> simp_all
  · cases h : c.has .Mbi_MixinHwKey <;> simp_all
  · cases k <;> simp_all

theorem signedV21_rd32_take (b : Bytes) (n off : Nat) (h : off + 4 ≤ n) (hn : n ≤ b.length) :
    rd32 (b.take n) off = rd32 b off := by
  conv => rhs; rw [← List.take_append_drop n b]
  rw [rd32_append_left _ _ _ (by rw [List.length_take]; omega)]

theorem signedV21_rd32_cleanIvt (A : Bytes) (hA : minIvtSize ≤ A.length) (off : Nat) (h : off + 4 ≤ 32) :
    rd32 (cleanIvt A) off = rd32 A off := by
  simp only [minIvtSize] at hA
  rw [cleanIvt_eq A hA]
  simp only [List.append_assoc]
  rw [rd32_append_left _ _ _ (by rw [List.length_take]; omega), signedV21_rd32_take _ _ _ h (by omega)]

theorem signedV21_appData' (F : V21Cls c) (G : V21Cfg c cfg) : appData (v21Cfg' cfg) = cleanIvt (appData cfg) := by
  have hA := signedV21_app_len F G
  show align4 (cleanIvt (appData cfg)) = _
  apply align4_of_aligned
  rw [cleanIvt_length _ hA]
  exact align4_length_mod _

theorem signedV21_validateMixin' (F : V21Cls c) (G : V21Cfg c cfg) (m : MixinName) :
    validateMixin c (v21Cfg' cfg) m = validateMixin c cfg m := by
  have hA := signedV21_app_len F G
  unfold validateMixin
  simp only [signedV21_appData' F G, cleanIvt_length _ hA, signedV21_rd32_cleanIvt _ hA 0 (by omega),
    signedV21_rd32_cleanIvt _ hA 4 (by omega), signedV21_rd32_cleanIvt _ hA 8 (by omega)]
  rfl

theorem signedV21_totalLen' (F : V21Cls c) (G : V21Cfg c cfg) : totalLen c (v21Cfg' cfg) = totalLen c cfg := by
  obtain ⟨k, hk⟩ := Option.isSome_iff_exists.mp F.mkSome
  have e1 := signedV21_totalLen (cfg := v21Cfg' cfg) F k hk
  have e2 := signedV21_totalLen (cfg := cfg) F k hk
  have h1 : (v21Cfg' cfg).cert = cfg.cert := rfl
  have h2 : (v21Cfg' cfg).sigLen = cfg.sigLen := rfl
  have h3 : manifestLen k (v21Cfg' cfg) = manifestLen k cfg := rfl
  have h4 : v21DigLen k (v21Cfg' cfg) = v21DigLen k cfg := rfl
  rw [signedV21_appData' F G, cleanIvt_length _ (signedV21_app_len F G), h1, h2, h3, h4] at e1
  rw [e1, e2]

theorem signedV21_validate' (F : V21Cls c) (G : V21Cfg c cfg) : validate c (v21Cfg' cfg) = validate c cfg := by
  have hfun : validateMixin c (v21Cfg' cfg) = validateMixin c cfg := funext (signedV21_validateMixin' F G)
  unfold validate
  rw [hfun]

theorem signedV21_packGuard' (F : V21Cls c) (G : V21Cfg c cfg) : packGuard c (v21Cfg' cfg) = packGuard c cfg := by
  unfold packGuard
  rw [signedV21_totalLen' F G]
  rfl

theorem signedV21_cfgFacts' (F : V21Cls c) (G : V21Cfg c cfg) : V21Cfg c (v21Cfg' cfg) := by
  have hfl : flagsOf c (v21Cfg' cfg) = flagsOf c cfg := by unfold flagsOf; simp only [v21Cfg']
  refine
  { val := (signedV21_validate' F G).trans G.val
    pack := (signedV21_packGuard' F G).trans G.pack
    la := ?_, iv := ?_, st := ?_, fw := ?_, fl := hfl ▸ G.fl, tz := ?_, reloc := ?_, ks := ?_, hmac := ?_
    bca := ?_, fcf := ?_, certne := ?_, sigpos := ?_, dig := ?_, sha1 := ?_, ver0 := ?_
    sub0 := ?_, hw0 := ?_, la0 := ?_, ctr := ?_ } <;> simp only [v21Cfg']
  · exact G.la
  · exact G.iv
  · exact G.st
  · exact G.fw
  · exact G.tz
  · exact G.reloc
  · exact G.ks
  · exact G.hmac
  · exact G.bca
  · exact G.fcf
  · exact G.certne
  · exact G.sigpos
  · exact G.dig
  · exact G.sha1
  · exact G.ver0
  · exact G.sub0
  · exact G.hw0
  · exact G.la0
  · exact G.ctr

theorem signedV21_updateIvt' (c : Cls) (cfg : Cfg) (x : Bytes) (t o : Nat) :
    updateIvt c (v21Cfg' cfg) x t o = updateIvt c cfg x t o := rfl

theorem signedV21_app' (F : V21Cls c) (G : V21Cfg c cfg) : v21App c (v21Cfg' cfg) = v21App c cfg := by
  unfold v21App
  rw [signedV21_updateIvt', signedV21_appData' F G, signedV21_totalLen' F G, signedV21_appLen F, signedV21_appLen F,
    signedV21_appData' F G, cleanIvt_length _ (signedV21_app_len F G),
    updateIvt_cleanIvt _ _ _ _ _ (signedV21_app_len F G)]

theorem signedV21_manifestBytes' (k : ManifestKind) (cfg : Cfg) (crc : Nat) :
    manifestBytes k (v21Cfg' cfg) crc = manifestBytes k cfg crc := rfl

theorem signedV21_raw' (F : V21Cls c) (G : V21Cfg c cfg) (k : ManifestKind) :
    v21Raw c (v21Cfg' cfg) k = v21Raw c cfg k := by
  have hc : (v21Cfg' cfg).cert = cfg.cert := rfl
  unfold v21Raw v21Man
  cases k <;> simp only [signedV21_app' F G, hc, signedV21_manifestBytes']

theorem signedV21_hash' (co : CryptoOps) (cfg : Cfg) (k : ManifestKind) (raw : Bytes) :
    v21Hash co (v21Cfg' cfg) k raw = v21Hash co cfg k raw := rfl

theorem reexport_signedV21 (h : Hyp co env c cfg signer) (hf : c.family = some .signedV21) (signer' : Signer)
    (hs' : ∀ m, (signer' m).length = cfg.sigLen) (dek : Option Bytes)
    (hdek : c.has .Mbi_MixinHmac = true → dek = cfg.hmacKey) :
    ∃ e e', exportImage co c cfg signer = .ok e ∧ exportImage co c (canon c cfg dek).toCfg signer' = .ok e'
      ∧ eqOutsideSig c cfg e e' := by
  have F := signedV21_classFacts h.hcls hf
  have G := signedV21_cfgFacts F h.hcfg
  obtain ⟨k, hk⟩ := Option.isSome_iff_exists.mp F.mkSome
  have G' := signedV21_cfgFacts' F G
  refine ⟨v21Image co c cfg signer k, v21Image co c (v21Cfg' cfg) signer' k, signedV21_export F G k hk, ?_, ?_⟩
  · rw [signedV21_toCfg F G hk dek]
    exact signedV21_export F G' k hk
  · have hH := signedV21_hash_length h.hlaws G k (v21Raw c cfg k)
    have hd : (if c.manifestKind = some ManifestKind.digest then digestSize cfg.digest else 0) = v21DigLen k cfg := by
      rw [hk]; cases k <;> simp [v21DigLen]
    unfold eqOutsideSig sigOffset
    simp only [F.sign, hd, v21Image, signedV21_raw' F G, signedV21_hash']
    generalize v21Raw c cfg k = raw at hH ⊢
    generalize v21Hash co cfg k raw = H at hH ⊢
    have e1 : (raw ++ signer raw ++ H).length - v21DigLen k cfg - cfg.sigLen = raw.length := by
      simp only [List.length_append, h.hsig, hH]; omega
    simp only [e1]
    refine ⟨by simp [h.hsig, hs'], ?_, ?_⟩
    · simp [List.append_assoc]
    · have l1 : raw.length + cfg.sigLen = (raw ++ signer raw).length := by simp [h.hsig]
      have l2 : raw.length + cfg.sigLen = (raw ++ signer' raw).length := by simp [hs']
      conv => lhs; rw [l1, List.drop_left]
      conv => rhs; rw [l2, List.drop_left]

end SpsdkVerif.Mbi
