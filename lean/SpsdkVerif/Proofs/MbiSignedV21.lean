/-
MBI image theorems for the `signedV21` family (classes whose `collect_data` resolves to the signedV21 collector).
See Properties/C01.lean for the statements' meaning; base lemmas in Proofs/MbiBase.lean.
-/
import SpsdkVerif.Proofs.MbiBase

namespace SpsdkVerif.Mbi
open SpsdkVerif SpsdkVerif.Misc SpsdkVerif.Crypto
open SpsdkVerif.Generated.IvtConsts
open SpsdkVerif.Generated.MbiClasses (MixinName Method Attr provider attrs preParsed isData parent countInLegacyCertBlockLen)

variable {co : CryptoOps} {env : Env} {c : Cls} {cfg : Cfg} {signer : Signer}

theorem disassemble_collect_signedV21 (h : Hyp co env c cfg signer) (hf : c.family = some .signedV21) (dek : Option Bytes)
    (p : Parsed) (hp : p.tz = cfg.tz) (hcert : p.cert.isSome = c.hasAttr .cert_block) (hr : p.reloc = none) :
    ∃ raw, collect c cfg = .ok raw
      ∧ disassemble c p raw = .ok { p with app := (canon c cfg dek).app, reloc := (canon c cfg dek).reloc } := by
  sorry

theorem parse_export_signedV21 (h : Hyp co env c cfg signer) (hf : c.family = some .signedV21) (dek : Option Bytes) :
    ∃ e, exportImage co c cfg signer = .ok e ∧ parseImage co env c dek e = .ok (canon c cfg dek) := by
  sorry

theorem reexport_signedV21 (h : Hyp co env c cfg signer) (hf : c.family = some .signedV21) (signer' : Signer)
    (hs' : ∀ m, (signer' m).length = cfg.sigLen) (dek : Option Bytes)
    (hdek : c.has .Mbi_MixinHmac = true → dek = cfg.hmacKey) :
    ∃ e e', exportImage co c cfg signer = .ok e ∧ exportImage co c (canon c cfg dek).toCfg signer' = .ok e'
      ∧ eqOutsideSig c cfg e e' := by
  sorry

theorem header_describes_signedV21 (h : Hyp co env c cfg signer) (hf : c.family = some .signedV21) :
    ∃ e, exportImage co c cfg signer = .ok e
      ∧ rd32 e ivtImageLengthOffset = (if c.zeroTotalLength then 0 else e.length)
      ∧ rd32 e ivtImageFlagsOffset = flagsOf c cfg
      ∧ rd32 e ivtLoadAddrOffset = (if c.has .Mbi_MixinLoadAddress then cfg.loadAddress else 0)
      ∧ (c.imageType = 0 → rd32 e ivtCrcCertificateOffset = 0)
      ∧ (c.signKind = .crc → rd32 e ivtCrcCertificateOffset
            = crc32m (e.take ivtCrcCertificateOffset ++ e.drop (ivtCrcCertificateOffset + 4)))
      ∧ (c.hasAttr .cert_block = true →
          rd32 e ivtCrcCertificateOffset = appLen c cfg
          ∧ (let off := appLen c cfg + (if c.has .Mbi_MixinHmac then hmacSize + (cfg.keyStore.getD []).length else 0)
             slice e off (off + cfg.cert.length)
               = (if c.has .Mbi_MixinCertBlockV1 then certInImage c cfg else cfg.cert))) := by
  sorry

theorem total_len_sum_signedV21 (h : Hyp co env c cfg signer) (hf : c.family = some .signedV21) :
    ∃ e, exportImage co c cfg signer = .ok e
      ∧ (e.length : Int) = totalLen c cfg + (if c.signKind = .rsa then cfg.sigLen else 0)
          + (if c.family = some .encrypted then encIvtCopySize + encIvSize else 0) := by
  sorry

end SpsdkVerif.Mbi
