/- Helper lemmas for Properties/C03.lean: integer encodings, generated-constant agreement, per-key hashes. -/
import SpsdkVerif.Model.Rkht
import SpsdkVerif.Proofs.Misc

namespace SpsdkVerif.Rkht
open SpsdkVerif SpsdkVerif.Spec
open SpsdkVerif.Misc hiding Bytes
open SpsdkVerif.Crypto (HashAlg CryptoOps CryptoLaws Bytes)

/-! ### lists and the `Except` monad -/

theorem mapM_ok {α β} (f : α → PyRes β) (g : α → β) :
    ∀ (l : List α), (∀ a ∈ l, f a = .ok (g a)) → l.mapM f = .ok (l.map g) := by
  intro l
  induction l with
  | nil => intro _; rfl
  | cons a l ih =>
    intro h
    rw [List.mapM_cons, h a (by simp), ih (fun b hb => h b (by simp [hb]))]
    rfl

theorem bind_ok {α β} (a : α) (f : α → PyRes β) : ((Except.ok a : PyRes α) >>= f) = f a := rfl

/-- a list of at most four elements, by cases -/
theorem list_le4 {α} (l : List α) (h : l.length ≤ 4) :
    l = [] ∨ (∃ a, l = [a]) ∨ (∃ a b, l = [a, b]) ∨ (∃ a b c, l = [a, b, c]) ∨ (∃ a b c d, l = [a, b, c, d]) := by
  match l, h with
  | [], _ => simp
  | [a], _ => simp
  | [a, b], _ => simp
  | [a, b, c], _ => simp
  | [a, b, c, d], _ => simp
  | _ :: _ :: _ :: _ :: _ :: _, h => simp at h

/-! ### bit length, byte length -/

theorem bitLenF_spec (f v : Nat) (h : v ≤ f) :
    v < 2 ^ bitLenF f v ∧ (0 < v → 2 ^ (bitLenF f v - 1) ≤ v) := by
  induction f generalizing v with
  | zero =>
    have : v = 0 := by omega
    subst this; simp [bitLenF]
  | succ f ih =>
    by_cases hv : v = 0
    · subst hv; simp [bitLenF]
    · have h' : v / 2 ≤ f := by omega
      obtain ⟨i1, i2⟩ := ih (v / 2) h'
      simp only [bitLenF, hv, if_false]
      rw [Nat.add_comm 1, Nat.pow_succ, Nat.add_sub_cancel]
      refine ⟨by omega, fun _ => ?_⟩
      by_cases hq : v / 2 = 0
      · rw [hq]; cases f <;> simp [bitLenF] <;> omega
      · have := i2 (by omega)
        have hL : bitLenF f (v / 2) ≠ 0 := by
          intro e; rw [e] at i1; simp at i1; omega
        obtain ⟨L, hL'⟩ := Nat.exists_eq_succ_of_ne_zero hL
        rw [hL'] at this ⊢
        rw [Nat.pow_succ]
        simp at this
        omega

theorem bitLen_spec (v : Nat) : v < 2 ^ bitLen v ∧ (0 < v → 2 ^ (bitLen v - 1) ≤ v) :=
  bitLenF_spec v v (Nat.le_refl v)

theorem byteLen_spec (v : Nat) : v < 256 ^ byteLen v ∧ (0 < v → 256 ^ (byteLen v - 1) ≤ v) :=
  byteLenF_min v v (Nat.le_refl v)

theorem pow256 (k : Nat) : 256 ^ k = 2 ^ (8 * k) := by
  rw [Nat.pow_mul]

/-- `math.ceil(v.bit_length() / 8)` is the number of bytes of the minimal big-endian encoding -/
theorem pyByteLen_eq (v : Nat) : pyByteLen v = byteLen v := by
  unfold pyByteLen
  by_cases hv : v = 0
  · subst hv; simp [bitLen, byteLen, bitLenF, byteLenF]
  · have hp : 0 < v := by omega
    obtain ⟨b1, b2⟩ := bitLen_spec v
    obtain ⟨c1, c2⟩ := byteLen_spec v
    have b2 := b2 hp
    have c2 := c2 hp
    rw [pow256] at c1 c2
    have h1 : 2 ^ (bitLen v - 1) < 2 ^ (8 * byteLen v) := Nat.lt_of_le_of_lt b2 c1
    have h2 : 2 ^ (8 * (byteLen v - 1)) < 2 ^ bitLen v := Nat.lt_of_le_of_lt c2 b1
    have h1' := (Nat.pow_lt_pow_iff_right (by decide : 1 < 2)).mp h1
    have h2' := (Nat.pow_lt_pow_iff_right (by decide : 1 < 2)).mp h2
    have hb : 1 ≤ byteLen v := byteLen_pos v hv
    omega

/-- a number with exactly `bits` bits -/
theorem bitLen_of_bounds (n bits : Nat) (hb : 0 < bits) (h1 : 2 ^ (bits - 1) ≤ n) (h2 : n < 2 ^ bits) :
    bitLen n = bits := by
  have hp : 0 < n := Nat.lt_of_lt_of_le (Nat.pow_pos (by decide)) h1
  obtain ⟨b1, b2⟩ := bitLen_spec n
  have b2 := b2 hp
  have g1 : 2 ^ (bits - 1) < 2 ^ bitLen n := Nat.lt_of_le_of_lt h1 b1
  have g2 : 2 ^ (bitLen n - 1) < 2 ^ bits := Nat.lt_of_le_of_lt b2 h2
  have g1' := (Nat.pow_lt_pow_iff_right (by decide : 1 < 2)).mp g1
  have g2' := (Nat.pow_lt_pow_iff_right (by decide : 1 < 2)).mp g2
  omega

theorem byteLen_of_bounds (n bits : Nat) (hb : 0 < bits) (h8 : bits % 8 = 0) (h1 : 2 ^ (bits - 1) ≤ n) (h2 : n < 2 ^ bits) :
    byteLen n = bits / 8 := by
  rw [← pyByteLen_eq, pyByteLen, bitLen_of_bounds n bits hb h1 h2]; omega

/-! ### `int.to_bytes` -/

theorem toBytes_fit (w v : Nat) (h : v < 256 ^ w) : toBytes w v = .ok (beEnc w v) := by
  simp [toBytes, h]

theorem toBytes_min (v : Nat) : toBytes (pyByteLen v) v = .ok (beMin v) := by
  rw [pyByteLen_eq, toBytes_fit _ _ (byteLen_spec v).1]; rfl

theorem coordSize_eq (cv : Curve) : coordSize cv = cv.coordSize := by
  cases cv <;> rfl

/-! ### key export = the hashed key material -/

theorem exportRsa_default (n e : Nat) : exportRsa n e none none = .ok ((Key.rsa n e).material) := by
  simp only [exportRsa, toBytes_min, Key.material]; rfl

theorem exportEcc_fit (cv : Curve) (x y : Nat) (hx : x < 256 ^ cv.coordSize) (hy : y < 256 ^ cv.coordSize) :
    exportEcc cv x y = .ok ((Key.ecc cv x y).material) := by
  simp only [exportEcc, coordSize_eq, toBytes_fit _ _ hx, toBytes_fit _ _ hy, Key.material]; rfl

theorem keyOK_ecc {cv : Curve} {x y : Nat} (h : keyOK (.ecc cv x y) = true) :
    x < 256 ^ cv.coordSize ∧ y < 256 ^ cv.coordSize := by
  simpa [keyOK] using h

theorem exportKey_ok (k : Key) (h : keyOK k = true) : exportKey k = .ok k.material := by
  cases k with
  | rsa n e => exact exportRsa_default n e
  | ecc cv x y => exact exportEcc_fit cv x y (keyOK_ecc h).1 (keyOK_ecc h).2

/-! ### `_get_hash_algorithm`, `_calc_key_hash` -/

theorem getHashAlgorithm_rsa (n e : Nat) : getHashAlgorithm (.rsa n e) = .ok .sha256 := by
  simp only [getHashAlgorithm]; decide

theorem getHashAlgorithm_ecc (cv : Curve) (x y : Nat) (h : cv ≠ .p521) :
    getHashAlgorithm (.ecc cv x y) = .ok cv.hashAlg := by
  cases cv <;> first | rfl | exact absurd rfl h

theorem getHashAlgorithm_p521 (x y : Nat) : getHashAlgorithm (.ecc .p521 x y) = .error .spsdk := rfl

/-- the key is accepted by `RKHT._get_hash_algorithm` (everything but P-521) -/
def rkhtKey : Key → Bool
  | .ecc .p521 _ _ => false
  | _ => true

theorem getHashAlgorithm_ok (k : Key) (h : rkhtKey k = true) : getHashAlgorithm k = .ok k.hashAlg := by
  cases k with
  | rsa n e => exact getHashAlgorithm_rsa n e
  | ecc cv x y =>
    cases cv with
    | p256 => rfl
    | p384 => rfl
    | p521 => simp [rkhtKey] at h

theorem calcKeyHash_ok (c : CryptoOps) (k : Key) (h : keyOK k = true) (h2 : rkhtKey k = true) :
    calcKeyHash c k = .ok (keyHash c k) := by
  cases k with
  | rsa n e =>
    simp only [calcKeyHash, toBytes_min, getHashAlgorithm_rsa]
    rfl
  | ecc cv x y =>
    obtain ⟨hx, hy⟩ := keyOK_ecc h
    simp only [calcKeyHash, coordSize_eq, toBytes_fit _ _ hx, toBytes_fit _ _ hy, getHashAlgorithm_ok _ h2]
    rfl

/-! ### RKHT v1 -/

theorem isEmpty_of_len32 (h : Bytes) (hl : h.length = 32) : h.isEmpty = false := by
  cases h with
  | nil => simp at hl
  | cons a t => rfl

theorem exportV1_ok (l : List Bytes) (hl : l.length ≤ 4) (h32 : ∀ h ∈ l, h.length = 32) :
    exportV1 l = .ok ((l ++ List.replicate (4 - l.length) (List.replicate 32 (0 : UInt8))).flatten) := by
  have e1 : G.rkhtV1Slots = 4 := rfl
  have e2 : G.rkhV1Size = 32 := rfl
  rcases list_le4 l hl with h | ⟨a, h⟩ | ⟨a, b, h⟩ | ⟨a, b, c, h⟩ | ⟨a, b, c, d, h⟩ <;> subst h
  · simp [exportV1, exportV1Slots, e1, e2]
  · have ha := h32 a (by simp)
    simp [exportV1, exportV1Slots, e1, e2, isEmpty_of_len32 a ha, ha]
  · have ha := h32 a (by simp); have hb := h32 b (by simp)
    simp [exportV1, exportV1Slots, e1, e2, isEmpty_of_len32 _ ha, isEmpty_of_len32 _ hb, ha, hb]
  · have ha := h32 a (by simp); have hb := h32 b (by simp); have hc := h32 c (by simp)
    simp [exportV1, exportV1Slots, e1, e2, isEmpty_of_len32 _ ha, isEmpty_of_len32 _ hb, isEmpty_of_len32 _ hc, ha, hb, hc]
  · have ha := h32 a (by simp); have hb := h32 b (by simp); have hc := h32 c (by simp); have hd := h32 d (by simp)
    simp [exportV1, exportV1Slots, e1, e2, isEmpty_of_len32 _ ha, isEmpty_of_len32 _ hb, isEmpty_of_len32 _ hc,
      isEmpty_of_len32 _ hd, ha, hb, hc, hd]


/-- uniform key list: every key is in the domain, accepted by `_get_hash_algorithm`, of the class and hash of the first -/
def Uniform (k0 : Key) (ks : List Key) : Prop :=
  ∀ k ∈ ks, keyOK k = true ∧ rkhtKey k = true ∧ sameClass k0 k = true ∧ k.hashAlg = k0.hashAlg

theorem sameAlgAll_ok (k0 : Key) (h0 : rkhtKey k0 = true) :
    ∀ (ks : List Key), (∀ k ∈ ks, rkhtKey k = true ∧ k.hashAlg = k0.hashAlg) → sameAlgAll k0 ks = .ok () := by
  intro ks
  induction ks with
  | nil => intro _; rfl
  | cons k ks ih =>
    intro h
    obtain ⟨h1, h2⟩ := h k (by simp)
    simp only [sameAlgAll, getHashAlgorithm_ok k h1, getHashAlgorithm_ok k0 h0, h2]
    show (if k0.hashAlg = k0.hashAlg then sameAlgAll k0 ks else Except.error PyErr.spsdk) = Except.ok ()
    rw [if_pos rfl]
    exact ih (fun b hb => h b (by simp [hb]))

theorem fromKeysHashes_ok (c : CryptoOps) (k0 : Key) (ks : List Key) (h : Uniform k0 (k0 :: ks)) :
    fromKeysHashes c (k0 :: ks) = .ok ((k0 :: ks).map (keyHash c)) := by
  have hall : (k0 :: ks).all (sameClass k0) = true := by
    rw [List.all_eq_true]; intro k hk; exact (h k hk).2.2.1
  have h0 := h k0 (by simp)
  have hs := sameAlgAll_ok k0 h0.2.1 (k0 :: ks) (fun k hk => ⟨(h k hk).2.1, (h k hk).2.2.2⟩)
  have hm := mapM_ok (calcKeyHash c) (keyHash c) (k0 :: ks) (fun k hk => calcKeyHash_ok c k (h k hk).1 (h k hk).2.1)
  simp only [fromKeysHashes, hall, hs, hm]
  rfl

theorem keyHash_len (c : CryptoOps) (hc : CryptoLaws c) (k : Key) : (keyHash c k).length = k.hashAlg.size :=
  hc.hash_len _ _

/-- KeysOK for cert block v1, unpacked -/
theorem keysOK_cb1 {ks : List Key} (h : KeysOK .certBlock1 ks) :
    1 ≤ ks.length ∧ ks.length ≤ 4 ∧ ∀ k ∈ ks, keyOK k = true ∧ k.isRsa = true := by
  simp only [KeysOK, keysOK, Bool.and_eq_true, List.all_eq_true, decide_eq_true_eq] at h
  exact ⟨h.2.1.1, h.2.1.2, fun k hk => ⟨h.1 k hk, h.2.2 k hk⟩⟩

theorem uniform_rsa {k0 : Key} {ks : List Key} (h0 : k0.isRsa = true) (h : ∀ k ∈ ks, keyOK k = true ∧ k.isRsa = true) :
    Uniform k0 ks := by
  intro k hk
  obtain ⟨a, b⟩ := h k hk
  cases k with
  | rsa n e => cases k0 with
    | rsa m f => exact ⟨a, rfl, rfl, rfl⟩
    | ecc _ _ _ => simp [Key.isRsa] at h0
  | ecc _ _ _ => simp [Key.isRsa] at b

theorem hashAlg_rsa {k : Key} (h : k.isRsa = true) : k.hashAlg = .sha256 := by
  cases k with
  | rsa _ _ => rfl
  | ecc _ _ _ => simp [Key.isRsa] at h

theorem rkhtV1Init_ok (l : List (List UInt8)) (hl : l.length ≤ 4) (h32 : ∀ h ∈ l, h.length = 32) :
    rkhtV1Init l = .ok l := by
  have : l.all (fun h => h.length == G.rkhV1Size) = true := by
    rw [List.all_eq_true]; intro h hh; simp [h32 h hh]; rfl
  have e : G.rkhtMaxKeys = 4 := rfl
  simp only [rkhtV1Init, this, rkhtInit, e]
  simp; omega

theorem path_rkhtV1 (c : CryptoOps) (hc : CryptoLaws c) (ks : List Key) (h : KeysOK .certBlock1 ks) :
    pathRkhtV1 c ks = .ok (rotkhV1 c ks) := by
  obtain ⟨h1, h4, hk⟩ := keysOK_cb1 h
  cases ks with
  | nil => simp at h1
  | cons k0 rest =>
    have hu : Uniform k0 (k0 :: rest) := uniform_rsa (hk k0 (by simp)).2 hk
    have hl : ((k0 :: rest).map (keyHash c)).length ≤ 4 := by simpa using h4
    have h32 : ∀ x ∈ (k0 :: rest).map (keyHash c), x.length = 32 := by
      intro x hx
      obtain ⟨k, hk', rfl⟩ := List.mem_map.mp hx
      rw [keyHash_len c hc, hashAlg_rsa (hk k hk').2]; rfl
    simp only [pathRkhtV1, fromKeysV1, fromKeysHashes_ok c k0 rest hu, bind_ok, rkhtV1Init_ok _ hl h32, rkthV1,
      exportV1_ok _ hl h32]
    simp [rotkhV1, rkhTableV1]
    rfl

/-! ### CertBlockV1.set_root_key_hash -/

theorem setRootKeyHash_step (c : CryptoOps) (hc : CryptoLaws c) (l : List Bytes) (k : Key) (hk : keyOK k = true)
    (hi3 : l.length ≤ 3) (hl : ∀ h ∈ l, h.length = 32) :
    setRootKeyHash c l l.length k = .ok (l ++ [c.hash .sha256 k.material]) := by
  have hh : (c.hash .sha256 k.material).length = 32 := hc.hash_len _ _
  have e2 : G.rkhV1Size = 32 := rfl
  simp only [setRootKeyHash, exportKey_ok k hk, bind_ok, e2]
  simp only [hh]
  cases l with
  | nil => simp [setRkh, setRkh.fill, e2]
  | cons h0 t =>
    have h0l := hl h0 (by simp)
    simp only [setRkh, hh, h0l]
    simp [setRkh.fill]
    simp at hi3
    rw [if_neg (by omega), if_neg (by omega)]


theorem setAll_ok (c : CryptoOps) (hc : CryptoLaws c) :
    ∀ (ks : List Key) (l : List Bytes), l.length + ks.length ≤ 4 → (∀ k ∈ ks, keyOK k = true) →
      (∀ h ∈ l, h.length = 32) →
      setAll c l l.length ks = .ok (l ++ ks.map (fun k => c.hash .sha256 k.material)) := by
  intro ks
  induction ks with
  | nil => intro l _ _ _; simp [setAll]
  | cons k ks ih =>
    intro l hlen hk hl
    have h3 : l.length ≤ 3 := by simp at hlen; omega
    simp only [setAll, setRootKeyHash_step c hc l k (hk k (by simp)) h3 hl, bind_ok]
    have := ih (l ++ [c.hash .sha256 k.material]) (by simp at hlen ⊢; omega) (fun b hb => hk b (by simp [hb]))
      (by
        intro h hh
        rcases List.mem_append.mp hh with h1 | h1
        · exact hl h h1
        · simp at h1; subst h1; exact hc.hash_len _ _)
    simp only [List.length_append, List.length_singleton] at this
    rw [this]; simp

theorem path_certBlockV1 (c : CryptoOps) (hc : CryptoLaws c) (ks : List Key) (h : KeysOK .certBlock1 ks) (used : Nat) :
    pathCertBlockV1 c ks used = .ok (rotkhV1 c ks) := by
  obtain ⟨h1, h4, hk⟩ := keysOK_cb1 h
  have hs := setAll_ok c hc ks [] (by simpa using h4) (fun k hk' => (hk k hk').1) (by simp)
  have hm : ks.map (fun k => c.hash .sha256 k.material) = ks.map (keyHash c) := by
    apply List.map_congr_left
    intro k hk'
    simp only [keyHash, hashAlg_rsa (hk k hk').2]
  have hl : (ks.map (keyHash c)).length ≤ 4 := by simpa using h4
  have h32 : ∀ x ∈ ks.map (keyHash c), x.length = 32 := by
    intro x hx
    obtain ⟨k, hk', rfl⟩ := List.mem_map.mp hx
    rw [keyHash_len c hc, hashAlg_rsa (hk k hk').2]; rfl
  simp only [List.length_nil, List.nil_append] at hs
  simp only [pathCertBlockV1, certBlockV1Rkh, hs, hm, bind_ok, rkthV1, exportV1_ok _ hl h32]
  simp [rotkhV1, rkhTableV1]
  rfl

/-! ### RKHT v2.1 -/

/-- EC key on P-256 or P-384 -/
def v21Key : Key → Bool
  | .ecc .p256 _ _ => true
  | .ecc .p384 _ _ => true
  | _ => false

theorem keysOK_cb21 {ks : List Key} (h : KeysOK .certBlock21 ks) :
    1 ≤ ks.length ∧ ks.length ≤ 4 ∧ (∀ k ∈ ks, keyOK k = true) ∧
    ((∀ k ∈ ks, k.curve? = some .p256) ∨ (∀ k ∈ ks, k.curve? = some .p384)) := by
  simp only [KeysOK, keysOK, Bool.and_eq_true, Bool.or_eq_true, List.all_eq_true, decide_eq_true_eq, beq_iff_eq] at h
  exact ⟨h.2.1.1, h.2.1.2, h.1, h.2.2⟩

theorem uniform_curve {cv : Curve} (hcv : cv ≠ .p521) {k0 : Key} {ks : List Key} (h0 : k0.curve? = some cv)
    (hk : ∀ k ∈ ks, keyOK k = true) (h : ∀ k ∈ ks, k.curve? = some cv) : Uniform k0 ks := by
  intro k hk'
  have a := hk k hk'
  have b := h k hk'
  cases k with
  | rsa _ _ => simp [Key.curve?] at b
  | ecc c1 x y =>
    cases k0 with
    | rsa _ _ => simp [Key.curve?] at h0
    | ecc c0 x0 y0 =>
      simp only [Key.curve?, Option.some.injEq] at b h0
      subst b; subst h0
      refine ⟨a, ?_, rfl, rfl⟩
      cases c0 <;> first | rfl | exact absurd rfl hcv

theorem hashAlgorithm_hashes (c : CryptoOps) (hc : CryptoLaws c) (k0 : Key) (rest : List Key)
    (h : k0.hashAlg = .sha256 ∨ k0.hashAlg = .sha384 ∨ k0.hashAlg = .sha512) :
    hashAlgorithm ((k0 :: rest).map (keyHash c)) = .ok k0.hashAlg := by
  simp only [hashAlgorithm, hashAlgorithmSize, List.map_cons, bind_ok, keyHash_len c hc]
  rcases h with h | h | h <;> rw [h] <;> rfl

theorem rkthV21_hashes (c : CryptoOps) (hc : CryptoLaws c) (k0 : Key) (rest : List Key)
    (h : k0.hashAlg = .sha256 ∨ k0.hashAlg = .sha384 ∨ k0.hashAlg = .sha512) :
    rkthV21 c ((k0 :: rest).map (keyHash c)) = .ok (rotkhV21 c (k0 :: rest)) := by
  cases rest with
  | nil => rfl
  | cons k1 r =>
    have := hashAlgorithm_hashes c hc k0 (k1 :: r) h
    simp only [List.map_cons] at this
    simp only [rkthV21, List.map_cons, this, bind_ok, rotkhV21, ctrkTable, exportV21]
    simp
    rfl

theorem hashAlg_cases (k : Key) : k.hashAlg = .sha256 ∨ k.hashAlg = .sha384 ∨ k.hashAlg = .sha512 := by
  cases k with
  | rsa _ _ => exact Or.inl rfl
  | ecc cv _ _ => cases cv <;> simp [Key.hashAlg, Curve.hashAlg]

theorem rkhtInit_ok (l : List Bytes) (hl : l.length ≤ 4) : rkhtInit l = .ok l := by
  have e : G.rkhtMaxKeys = 4 := rfl
  simp only [rkhtInit, e]; simp; omega

theorem uniform_cb21 {k0 : Key} {rest : List Key} (h : KeysOK .certBlock21 (k0 :: rest)) : Uniform k0 (k0 :: rest) := by
  obtain ⟨_, _, hk, hc⟩ := keysOK_cb21 h
  rcases hc with hc | hc
  · exact uniform_curve (by decide) (hc k0 (by simp)) hk hc
  · exact uniform_curve (by decide) (hc k0 (by simp)) hk hc

theorem path_rkhtV21 (c : CryptoOps) (hc : CryptoLaws c) (ks : List Key) (h : KeysOK .certBlock21 ks) :
    pathRkhtV21 c ks = .ok (rotkhV21 c ks) := by
  obtain ⟨h1, h4, hk, _⟩ := keysOK_cb21 h
  cases ks with
  | nil => simp at h1
  | cons k0 rest =>
    have hl : ((k0 :: rest).map (keyHash c)).length ≤ 4 := by simpa using h4
    simp only [pathRkhtV21, fromKeysV21, fromKeysHashes_ok c k0 rest (uniform_cb21 h), bind_ok, rkhtInit_ok _ hl,
      rkthV21_hashes c hc k0 rest (hashAlg_cases k0)]

/-! ### RootKeyRecord.calculate -/

theorem rkrFlags_nibble (ca : Bool) (used count : Nat) (cv : Curve) :
    rkrFlags ca used count cv % 16 = curveBit cv % 16 := by
  have e1 : G.rkrCaBit = 31 := rfl
  have e2 : G.rkrUsedShift = 8 := rfl
  have e3 : G.rkrCountShift = 4 := rfl
  simp only [rkrFlags, e1, e2, e3]
  have h16 : (16 : Nat) = 2 ^ 4 := rfl
  rw [h16, Nat.or_mod_two_pow, Nat.or_mod_two_pow, Nat.or_mod_two_pow]
  have a : (if ca = true then 1 <<< 31 else 0) % 2 ^ 4 = 0 := by cases ca <;> decide
  have b : (used <<< 8) % 2 ^ 4 = 0 := by rw [Nat.shiftLeft_eq]; omega
  have d : (count <<< 4) % 2 ^ 4 = 0 := by rw [Nat.shiftLeft_eq]; omega
  rw [a, b, d]; simp

theorem rkrHashAlgorithm_flags (ca : Bool) (used count : Nat) (cv : Curve) (h : cv ≠ .p521) :
    rkrHashAlgorithm (rkrFlags ca used count cv) = .ok cv.hashAlg := by
  simp only [rkrHashAlgorithm, rkrFlags_nibble]
  cases cv <;> first | (exact absurd rfl h) | decide

theorem path_certBlockV21 (c : CryptoOps) (hc : CryptoLaws c) (ks : List Key) (h : KeysOK .certBlock21 ks)
    (used : Nat) (hu : used < ks.length) (ca : Bool) :
    pathCertBlockV21 c ks used ca = .ok (rotkhV21 c ks) := by
  obtain ⟨h1, h4, hk, hcv⟩ := keysOK_cb21 h
  cases ks with
  | nil => simp at h1
  | cons k0 rest =>
    have hU := uniform_cb21 h
    have hall : (k0 :: rest).all (sameClass k0) = true := by
      rw [List.all_eq_true]; intro k hk'; exact (hU k hk').2.2.1
    have hl : ((k0 :: rest).map (keyHash c)).length ≤ 4 := by simpa using h4
    obtain ⟨ku, hku⟩ : ∃ ku, (k0 :: rest)[used]? = some ku := ⟨(k0 :: rest)[used], by simp [hu]⟩
    have hkum : ku ∈ k0 :: rest := List.mem_of_getElem? hku
    cases k0 with
    | rsa n e =>
      rcases hcv with hcv | hcv <;> have := hcv _ (List.mem_cons_self) <;> simp [Key.curve?] at this
    | ecc cv0 x0 y0 =>
      have hne : cv0 ≠ .p521 := by
        rcases hcv with hcv | hcv <;> have := hcv _ (List.mem_cons_self) <;>
          simp only [Key.curve?, Option.some.injEq] at this <;> subst this <;> decide
      simp only [pathCertBlockV21, rkrCalculate, hall, fromKeysV21, fromKeysHashes_ok c _ rest hU, bind_ok,
        rkhtInit_ok _ hl, hashAlgorithm_hashes c hc _ rest (hashAlg_cases _), rkrHashAlgorithm_flags _ _ _ _ hne, hku,
        exportKey_ok ku (hk ku hkum)]
      simp only [Key.hashAlg, pure_bind, Bool.not_true, Bool.false_eq_true, ↓reduceIte,
        rkrHashAlgorithm_flags _ _ _ _ hne, bind_ok, ne_eq, not_true_eq_false]
      have := rkthV21_hashes c hc (Key.ecc cv0 x0 y0) rest (hashAlg_cases _)
      simp only [List.map_cons] at this
      simpa using this

/-! ### PFR -/

theorem fromKeysV1_ok (c : CryptoOps) (hc : CryptoLaws c) (ks : List Key) (h : KeysOK .certBlock1 ks) :
    fromKeysV1 c ks = .ok (ks.map (keyHash c)) ∧ (ks.map (keyHash c)).length ≤ 4 ∧
      (∀ x ∈ ks.map (keyHash c), x.length = 32) := by
  obtain ⟨h1, h4, hk⟩ := keysOK_cb1 h
  cases ks with
  | nil => simp at h1
  | cons k0 rest =>
    have hu : Uniform k0 (k0 :: rest) := uniform_rsa (hk k0 (by simp)).2 hk
    have hl : ((k0 :: rest).map (keyHash c)).length ≤ 4 := by simpa using h4
    have h32 : ∀ x ∈ (k0 :: rest).map (keyHash c), x.length = 32 := by
      intro x hx
      obtain ⟨k, hk', rfl⟩ := List.mem_map.mp hx
      rw [keyHash_len c hc, hashAlg_rsa (hk k hk').2]; rfl
    refine ⟨?_, hl, h32⟩
    simp only [fromKeysV1, fromKeysHashes_ok c k0 rest hu, bind_ok, rkhtV1Init_ok _ hl h32]

theorem rkthV1_hashes (c : CryptoOps) (ks : List Key) (hl : (ks.map (keyHash c)).length ≤ 4)
    (h32 : ∀ x ∈ ks.map (keyHash c), x.length = 32) : rkthV1 c (ks.map (keyHash c)) = .ok (rotkhV1 c ks) := by
  simp only [rkthV1, exportV1_ok _ hl h32]
  simp [rotkhV1, rkhTableV1]
  rfl

theorem ljust_of_len (n : Nat) (b : Bytes) (h : b.length = n) : ljust n b = b := by
  simp [ljust, h]

theorem path_pfr_v1 (c : CryptoOps) (hc : CryptoLaws c) (ks : List Key) (h : KeysOK .certBlock1 ks) (w : Nat)
    (hw : 256 ≤ w) : pathPfr c "cert_block_1" w ks = .ok (ljust (w / 8) (rotkhV1 c ks)) := by
  obtain ⟨hf, hl, h32⟩ := fromKeysV1_ok c hc ks h
  obtain ⟨h1, _, _⟩ := keysOK_cb1 h
  have e : G.pfrRkhtTypes.lookup "cert_block_1" = some "RKHTv1" := by decide
  have e2 : (("RKHTv1" : String) == "RKHTv1") = true := by decide
  cases ks with
  | nil => simp at h1
  | cons k0 rest =>
    have hs : hashAlgorithmSize ((k0 :: rest).map (keyHash c)) = .ok 256 := by
      simp only [hashAlgorithmSize, List.map_cons, h32 (keyHash c k0) (by simp)]
    simp only [pathPfr, e, e2, ↓reduceIte, hf, bind_ok, hs, rkthV1_hashes c _ hl h32]
    have : ¬ (256 > w) := by omega
    simp [this]
    rfl

theorem path_pfr_v21 (c : CryptoOps) (hc : CryptoLaws c) (k0 : Key) (rest : List Key)
    (h : KeysOK .certBlock21 (k0 :: rest)) (w : Nat) (hw : k0.hashAlg.size * 8 ≤ w) :
    pathPfr c "cert_block_21" w (k0 :: rest) = .ok (ljust (w / 8) (rotkhV21 c (k0 :: rest))) := by
  obtain ⟨h1, h4, hk, _⟩ := keysOK_cb21 h
  have e : G.pfrRkhtTypes.lookup "cert_block_21" = some "RKHTv21" := by decide
  have e2 : (("RKHTv21" : String) == "RKHTv1") = false := by decide
  have hl : ((k0 :: rest).map (keyHash c)).length ≤ 4 := by simpa using h4
  have hs : hashAlgorithmSize ((k0 :: rest).map (keyHash c)) = .ok (k0.hashAlg.size * 8) := by
    simp only [hashAlgorithmSize, List.map_cons, keyHash_len c hc]
  have : ¬ (k0.hashAlg.size * 8 > w) := by omega
  simp only [pathPfr, e, e2, Bool.false_eq_true, ↓reduceIte, fromKeysV21, fromKeysHashes_ok c k0 rest (uniform_cb21 h),
    bind_ok, rkhtInit_ok _ hl, hs, rkthV21_hashes c hc k0 rest (hashAlg_cases k0)]
  simp [this]
  rfl

/-! ### debug-credential RoT meta -/

theorem flatten_len32 : ∀ (l : List Bytes), (∀ x ∈ l, x.length = 32) → l.flatten.length = 32 * l.length
  | [], _ => rfl
  | a :: l, h => by
    simp only [List.flatten_cons, List.length_append, List.length_cons, h a (by simp),
      flatten_len32 l (fun x hx => h x (by simp [hx]))]
    omega

theorem path_datRsa (c : CryptoOps) (hc : CryptoLaws c) (ks : List Key) (h : KeysOK .certBlock1 ks)
    (he : ∀ n e, Key.rsa n e ∈ ks → byteLen e = 3) : pathDatRsa c ks = .ok (rotkhV1 c ks) := by
  obtain ⟨h1, h4, hk⟩ := keysOK_cb1 h
  have e3 : G.datRsaExpLength = 3 := rfl
  have e128 : G.datRsaTableLen = 128 := rfl
  have hm := mapM_ok (datRsaItem c) (keyHash c) ks (by
    intro k hk'
    cases k with
    | ecc _ _ _ => have := (hk _ hk').2; simp [Key.isRsa] at this
    | rsa n e =>
      have h3 := he n e hk'
      have hfit : e < 256 ^ 3 := by have := (byteLen_spec e).1; rwa [h3] at this
      have hb : beEnc 3 e = beMin e := by rw [beMin, h3]
      have h30 : (3 : Nat) ≠ 0 := by decide
      simp only [datRsaItem, exportRsa, e3, toBytes_min, h30, ↓reduceIte, toBytes_fit 3 e hfit, hb, bind_ok]
      rfl)
  have hnot : ¬ (ks.length > 4) := by omega
  simp only [pathDatRsa, hnot, ↓reduceIte, hm]
  have h32 : ∀ x ∈ ks.map (keyHash c), x.length = 32 := by
    intro x hx
    obtain ⟨k, hk', rfl⟩ := List.mem_map.mp hx
    rw [keyHash_len c hc, hashAlg_rsa (hk k hk').2]; rfl
  have hfl := flatten_len32 _ h32
  simp only [bind_ok, pure_bind, rotkhV1, rkhTableV1, e128, List.flatten_append, hfl, List.length_map]
  have : (List.replicate (4 - ks.length) (List.replicate 32 (0 : UInt8))).flatten = List.replicate (128 - 32 * ks.length) 0 := by
    rw [List.flatten_replicate_replicate]; congr 1; omega
  rw [this]; rfl

theorem flatten_lenN (m : Nat) : ∀ (l : List Bytes), (∀ x ∈ l, x.length = m) → l.flatten.length = m * l.length
  | [], _ => rfl
  | a :: l, h => by
    simp only [List.flatten_cons, List.length_append, List.length_cons, h a (by simp),
      flatten_lenN m l (fun x hx => h x (by simp [hx]))]
    rw [Nat.mul_add]; omega

/-- domain of the debug-credential EC path: 1..4 EC keys on one curve (P-521 included) -/
def DatEccOK (cv : Curve) (ks : List Key) : Prop :=
  1 ≤ ks.length ∧ ks.length ≤ 4 ∧ ∀ k ∈ ks, keyOK k = true ∧ k.curve? = some cv

theorem datEcc_lookup (cv : Curve) : G.datEccHashSizes.lookup (coordSize cv) = some (cv.hashAlg.size * 8) := by
  cases cv <;> decide

theorem shaLabel_size (a : HashAlg) (h : a ≠ .sha1) : shaLabel (a.size * 8) = .ok a := by
  cases a <;> first | (exact absurd rfl h) | rfl

theorem curve_hash_ne_sha1 (cv : Curve) : cv.hashAlg ≠ .sha1 := by cases cv <;> decide

theorem key_of_curve {k : Key} {cv : Curve} (h : k.curve? = some cv) : ∃ x y, k = .ecc cv x y := by
  cases k with
  | rsa _ _ => simp [Key.curve?] at h
  | ecc c x y => simp only [Key.curve?, Option.some.injEq] at h; subst h; exact ⟨x, y, rfl⟩

theorem datEccFallback_ok (c : CryptoOps) (cv : Curve) (x y : Nat) (hk : keyOK (.ecc cv x y) = true) :
    datEccFallback c (.ecc cv x y) = .ok (keyHash c (.ecc cv x y)) := by
  simp only [datEccFallback, exportKey_ok _ hk, bind_ok, eccCoordSize?, Option.bind_some, datEcc_lookup, pure_bind,
    shaLabel_size _ (curve_hash_ne_sha1 cv)]
  rfl

theorem path_datEcc (c : CryptoOps) (hc : CryptoLaws c) (cv : Curve) (ks : List Key) (h : DatEccOK cv ks)
    (used : Nat) (hu : used < ks.length) : pathDatEcc c ks used = .ok (rotkhV21 c ks) := by
  obtain ⟨h1, h4, hk⟩ := h
  cases ks with
  | nil => simp at h1
  | cons k0 rest =>
    obtain ⟨x0, y0, rfl⟩ := key_of_curve (hk k0 (by simp)).2
    have hall : (Key.ecc cv x0 y0 :: rest).all (fun k => eccCoordSize? k == some (coordSize cv)) = true := by
      rw [List.all_eq_true]; intro k hk'
      obtain ⟨x, y, rfl⟩ := key_of_curve (hk k hk').2
      simp [eccCoordSize?]
    have hnot4 : ¬ ((Key.ecc cv x0 y0 :: rest).length > 4) := by omega
    have hnotu : ¬ (used + 1 > (Key.ecc cv x0 y0 :: rest).length) := by omega
    have hE0 : eccCoordSize? (Key.ecc cv x0 y0) = some (coordSize cv) := rfl
    simp only [pathDatEcc, hE0, hall, Bool.not_true, Bool.false_eq_true, ↓reduceIte, datEcc_lookup,
      shaLabel_size _ (curve_hash_ne_sha1 cv), bind_ok]
    cases rest with
    | nil =>
      have hu0 : used = 0 := by simp at hu; omega
      subst hu0
      simp [datEccFallback_ok c cv x0 y0 (hk _ (by simp)).1, rotkhV21]
    | cons k1 r =>
      have hm := mapM_ok (datEccItem c cv.hashAlg) (keyHash c) (Key.ecc cv x0 y0 :: k1 :: r) (by
        intro k hk'
        obtain ⟨x, y, rfl⟩ := key_of_curve (hk k hk').2
        simp only [datEccItem, exportKey_ok _ (hk _ hk').1, bind_ok]; rfl)
      have hgt : (Key.ecc cv x0 y0 :: k1 :: r).length > 1 := by simp
      have hlen : ∀ z ∈ (Key.ecc cv x0 y0 :: k1 :: r).map (keyHash c), z.length = cv.hashAlg.size := by
        intro z hz
        obtain ⟨k, hk', rfl⟩ := List.mem_map.mp hz
        obtain ⟨x, y, rfl⟩ := key_of_curve (hk k hk').2
        exact keyHash_len c hc _
      have hfl := flatten_lenN _ _ hlen
      have hpos : 0 < cv.hashAlg.size := by cases cv <;> decide
      simp only [hgt, ↓reduceIte, hm, bind_ok, pure_bind, hnot4, hnotu, List.length_map]
      have hne : ((Key.ecc cv x0 y0 :: k1 :: r).map (keyHash c)).flatten.isEmpty = false := by
        have hp : 0 < ((Key.ecc cv x0 y0 :: k1 :: r).map (keyHash c)).flatten.length := by
          rw [hfl]; exact Nat.mul_pos hpos (by simp)
        cases hE : ((Key.ecc cv x0 y0 :: k1 :: r).map (keyHash c)).flatten with
        | nil => rw [hE] at hp; simp at hp
        | cons _ _ => rfl
      simp only [hne, Bool.false_eq_true, ↓reduceIte, hfl, List.length_map]
      have hdiv : cv.hashAlg.size * (Key.ecc cv x0 y0 :: k1 :: r).length / (Key.ecc cv x0 y0 :: k1 :: r).length
          = cv.hashAlg.size := Nat.mul_div_cancel _ (by simp)
      rw [hdiv, shaLabel_size _ (curve_hash_ne_sha1 cv)]
      rfl

/-! ### AHAB -/

theorem keyOK_rsa {n e : Nat} (h : keyOK (.rsa n e) = true) :
    (∃ bits, (bits = 2048 ∨ bits = 3072 ∨ bits = 4096) ∧ 2 ^ (bits - 1) ≤ n ∧ n < 2 ^ bits) ∧ 0 < e ∧ e < 2 ^ 32 := by
  simp only [keyOK, rsaBitsOK, Bool.and_eq_true, Bool.or_eq_true, decide_eq_true_eq] at h
  obtain ⟨⟨hb, he0⟩, he⟩ := h
  refine ⟨?_, he0, he⟩
  rcases hb with (hb | hb) | hb
  · exact ⟨2048, Or.inl rfl, hb.1, hb.2⟩
  · exact ⟨3072, Or.inr (Or.inl rfl), hb.1, hb.2⟩
  · exact ⟨4096, Or.inr (Or.inr rfl), hb.1, hb.2⟩

theorem byteLen_le_of_lt (v k : Nat) (h : v < 256 ^ k) : byteLen v ≤ k := by
  by_cases hv : v = 0
  · subst hv; simp [byteLen, byteLenF]
  · have := (byteLen_spec v).2 (by omega)
    have h2 : 256 ^ (byteLen v - 1) < 256 ^ k := Nat.lt_of_le_of_lt this h
    have := (Nat.pow_lt_pow_iff_right (by decide : 1 < 256)).mp h2
    omega

/-- what `ahabKeyData` returns for a key of the domain, in terms of the documented record fields -/
theorem ahabKeyData_ok (k : Key) (h : keyOK k = true) :
    ∃ d, ahabKeyData k = .ok (k.ahabSizeCode, d, k.hashAlg, k.ahabParams) ∧
      G.ahabKeySizes.lookup k.ahabSizeCode = some k.ahabLens := by
  cases k with
  | rsa n e =>
    obtain ⟨⟨bits, hb, h1, h2⟩, _, he⟩ := keyOK_rsa h
    have he4 : e < 256 ^ 4 := by simpa using he
    refine ⟨0, ?_⟩
    rcases hb with hb | hb | hb <;> subst hb
    · have hbl := bitLen_of_bounds n 2048 (by decide) h1 h2
      have hby : byteLen n = 256 := byteLen_of_bounds n 2048 (by decide) (by decide) h1 h2
      have hn : n < 256 ^ 256 := by rw [pow256]; exact h2
      have l1 : G.ahabRsaKeyType.lookup 2048 = some 5 := by decide
      have l2 : ahabKeyLens 5 = .ok (256, 4) := by decide
      have l3 : G.ahabKeySizes.lookup 5 = some (256, 4) := by decide
      simp only [ahabKeyData, hbl, l1, l2, bind_ok, pure_bind, toBytes_fit _ _ hn, toBytes_fit _ _ he4,
        Key.ahabSizeCode, Key.ahabLens, Key.ahabParams, hby, ↓reduceIte, l3, Key.hashAlg]
      exact ⟨rfl, trivial⟩
    · have hbl := bitLen_of_bounds n 3072 (by decide) h1 h2
      have hby : byteLen n = 384 := byteLen_of_bounds n 3072 (by decide) (by decide) h1 h2
      have hn : n < 256 ^ 384 := by rw [pow256]; exact h2
      have l1 : G.ahabRsaKeyType.lookup 3072 = some 6 := by decide
      have l2 : ahabKeyLens 6 = .ok (384, 4) := by decide
      have l3 : G.ahabKeySizes.lookup 6 = some (384, 4) := by decide
      simp only [ahabKeyData, hbl, l1, l2, bind_ok, pure_bind, toBytes_fit _ _ hn, toBytes_fit _ _ he4,
        Key.ahabSizeCode, Key.ahabLens, Key.ahabParams, hby, ↓reduceIte, l3, Key.hashAlg]
      exact ⟨rfl, by decide⟩
    · have hbl := bitLen_of_bounds n 4096 (by decide) h1 h2
      have hby : byteLen n = 512 := byteLen_of_bounds n 4096 (by decide) (by decide) h1 h2
      have hn : n < 256 ^ 512 := by rw [pow256]; exact h2
      have l1 : G.ahabRsaKeyType.lookup 4096 = some 7 := by decide
      have l2 : ahabKeyLens 7 = .ok (512, 4) := by decide
      have l3 : G.ahabKeySizes.lookup 7 = some (512, 4) := by decide
      simp only [ahabKeyData, hbl, l1, l2, bind_ok, pure_bind, toBytes_fit _ _ hn, toBytes_fit _ _ he4,
        Key.ahabSizeCode, Key.ahabLens, Key.ahabParams, hby, ↓reduceIte, l3, Key.hashAlg]
      exact ⟨rfl, by decide⟩
  | ecc cv x y =>
    obtain ⟨hx, hy⟩ := keyOK_ecc h
    refine ⟨1, ?_⟩
    cases cv
    · have l1 : G.ahabEccKeyType.lookup (Curve.pyName .p256) = some 1 := by decide
      have l2 : ahabKeyLens 1 = .ok (32, 32) := by decide
      have l4 : ahabEccHash .p256 = .ok .sha256 := by decide
      simp only [ahabKeyData, l1, l2, l4, bind_ok, pure_bind]
      simp only [Curve.coordSize] at hx hy
      rw [toBytes_fit _ _ hx, toBytes_fit _ _ hy]
      exact ⟨rfl, by simp only [Key.ahabSizeCode, Key.ahabLens, Curve.coordSize]; decide⟩
    · have l1 : G.ahabEccKeyType.lookup (Curve.pyName .p384) = some 2 := by decide
      have l2 : ahabKeyLens 2 = .ok (48, 48) := by decide
      have l4 : ahabEccHash .p384 = .ok .sha384 := by decide
      simp only [ahabKeyData, l1, l2, l4, bind_ok, pure_bind]
      simp only [Curve.coordSize] at hx hy
      rw [toBytes_fit _ _ hx, toBytes_fit _ _ hy]
      exact ⟨rfl, by simp only [Key.ahabSizeCode, Key.ahabLens, Curve.coordSize]; decide⟩
    · have l1 : G.ahabEccKeyType.lookup (Curve.pyName .p521) = some 3 := by decide
      have l2 : ahabKeyLens 3 = .ok (66, 66) := by decide
      have l4 : ahabEccHash .p521 = .ok .sha512 := by decide
      simp only [ahabKeyData, l1, l2, l4, bind_ok, pure_bind]
      simp only [Curve.coordSize] at hx hy
      rw [toBytes_fit _ _ hx, toBytes_fit _ _ hy]
      exact ⟨rfl, by simp only [Key.ahabSizeCode, Key.ahabLens, Curve.coordSize]; decide⟩


/-- the record the documentation prescribes for a key (fields of `SrkRecord`) -/
def recOf (k : Key) (ca : Bool) (params : Bytes) : SrkRecord :=
  { signAlg := k.ahabSignAlg, hashAlg := k.hashAlg, keySize := k.ahabSizeCode, flags := caFlag ca,
    params := params, length := 12 + params.length }

theorem ahabSignAlg_eq (v2 : Bool) (k : Key) : ahabSignAlg v2 k = k.ahabSignAlg := by
  cases k <;> cases v2 <;> rfl

theorem srkRecordCreate_ok (k : Key) (ca : Bool) (h : keyOK k = true) :
    srkRecordCreate k ca = .ok (recOf k ca k.ahabParams) := by
  obtain ⟨d, hd, _⟩ := ahabKeyData_ok k h
  simp only [srkRecordCreate, hd, bind_ok, ahabSignAlg_eq, recOf, caFlag]
  cases ca <;> rfl

theorem ahabHashTag_eq (v2 : Bool) (k : Key) : ahabHashTag v2 k.hashAlg = hashTagAhab k.hashAlg := by
  rcases hashAlg_cases k with h | h | h <;> rw [h] <;> cases v2 <;> decide

theorem srkRecordExport_ok (v2 : Bool) (k : Key) (ca : Bool) (params : Bytes) (h : keyOK k = true) :
    srkRecordExport v2 (recOf k ca params) = .ok (ahabRecordHead k ca params.length ++ params) := by
  obtain ⟨d, _, hl⟩ := ahabKeyData_ok k h
  simp only [srkRecordExport, recOf, hl, bind_ok, pure_bind, ahabHashTag_eq, ahabRecordHead]
  have e : (UInt8.ofNat G.ahabTagSrkRecord) = 0xE1 := by decide
  rw [e]
  simp [byte]
  rfl

theorem ahabRecordHead_len (k : Key) (ca : Bool) (n : Nat) : (ahabRecordHead k ca n).length = 12 := by
  simp [ahabRecordHead, leEnc, beEnc_length']

/-- all keys are of the kind of the first one and carry the same CA flag -/
def AhabOK (kcs : List (Key × Bool)) : Prop :=
  kcs.length = 4 ∧ (∀ kc ∈ kcs, keyOK kc.1 = true) ∧
  ∃ k0 ca0, kcs.head? = some (k0, ca0) ∧ ∀ kc ∈ kcs, Key.sameKind k0 kc.1 = true ∧ kc.2 = ca0

theorem sameKind_fields {k0 k : Key} (h : Key.sameKind k0 k = true) :
    k.ahabSignAlg = k0.ahabSignAlg ∧ k.hashAlg = k0.hashAlg ∧ k.ahabSizeCode = k0.ahabSizeCode ∧
      k.ahabParams.length = k0.ahabParams.length := by
  cases k0 with
  | rsa n e =>
    cases k with
    | rsa m f =>
      simp only [Key.sameKind, beq_iff_eq] at h
      simp [Key.ahabSignAlg, Key.hashAlg, Key.ahabSizeCode, Key.ahabParams, h, beEnc_length']
    | ecc _ _ _ => simp [Key.sameKind] at h
  | ecc c0 x0 y0 =>
    cases k with
    | rsa _ _ => simp [Key.sameKind] at h
    | ecc c1 x y =>
      simp only [Key.sameKind, beq_iff_eq] at h
      subst h
      cases c0 <;> simp [Key.ahabSignAlg, Key.hashAlg, Key.ahabSizeCode, Key.ahabParams, beEnc_length']


theorem pure_eq_ok {α} (a : α) : (pure a : PyRes α) = Except.ok a := rfl

theorem list_eq4 {α} (l : List α) (h : l.length = 4) : ∃ a b c d, l = [a, b, c, d] := by
  match l, h with
  | [a, b, c, d], _ => exact ⟨a, b, c, d, rfl⟩

theorem ahabRecord_len (k : Key) (ca : Bool) : (ahabRecord k ca).length = 12 + k.ahabParams.length := by
  simp [ahabRecord, ahabRecordHead_len]

theorem path_ahab (c : CryptoOps) (kcs : List (Key × Bool)) (h : AhabOK kcs) :
    pathAhab c kcs = .ok (rotkhAhab c kcs) := by
  obtain ⟨hlen, hk, k0, ca0, hhead, hsame⟩ := h
  have hm := mapM_ok (fun kc : Key × Bool => srkRecordCreate kc.1 kc.2) (fun kc => recOf kc.1 kc.2 kc.1.ahabParams) kcs
    (fun kc hkc => srkRecordCreate_ok kc.1 kc.2 (hk kc hkc))
  obtain ⟨a, b, d, e, rfl⟩ := list_eq4 kcs hlen
  simp only [List.head?_cons, Option.some.injEq] at hhead
  subst hhead
  have hb := hsame b (by simp)
  have hd := hsame d (by simp)
  have he := hsame e (by simp)
  obtain ⟨fb1, fb2, fb3, fb4⟩ := sameKind_fields hb.1
  obtain ⟨fd1, fd2, fd3, fd4⟩ := sameKind_fields hd.1
  obtain ⟨fe1, fe2, fe3, fe4⟩ := sameKind_fields he.1
  have e4 : G.ahabRecordsCnt = 4 := rfl
  have eh : hashOfName G.ahabTableHash = .ok .sha256 := by decide
  have et : UInt8.ofNat G.ahabTagSrkTable = 0xD7 := by decide
  have ev : UInt8.ofNat G.ahabTableVersion = 0x42 := by decide
  have hv : srkTableVerify (List.map (fun kc : Key × Bool => recOf kc.1 kc.2 kc.1.ahabParams) [(k0, ca0), b, d, e]) = .ok () := by
    simp only [List.map_cons, List.map_nil, srkTableVerify, List.length_cons, List.length_nil, e4]
    simp only [recOf, fb1, fb2, fb3, fb4, fd1, fd2, fd3, fd4, fe1, fe2, fe3, fe4, hb.2, hd.2, he.2, List.all_cons,
      List.all_nil, beq_self_eq_true, Bool.and_self, ↓reduceIte]
    rfl
  have xa := srkRecordExport_ok false k0 ca0 k0.ahabParams (hk (k0, ca0) (by simp))
  have xb := srkRecordExport_ok false b.1 b.2 b.1.ahabParams (hk b (by simp))
  have xd := srkRecordExport_ok false d.1 d.2 d.1.ahabParams (hk d (by simp))
  have xe := srkRecordExport_ok false e.1 e.2 e.1.ahabParams (hk e (by simp))
  simp only [pathAhab, hm, bind_ok, hv]
  simp only [srkTableExport, List.map_cons, List.map_nil, List.mapM_cons, List.mapM_nil,
    xa, xb, xd, xe, pure_bind, eh, et, ev, Bool.false_eq_true, ↓reduceIte]
  simp only [rotkhAhab, ahabTable, ahabTableOf, List.map_cons, List.map_nil, ahabRecord, recOf, List.sum_cons, List.sum_nil,
    List.flatten_cons, List.flatten_nil, List.length_append, ahabRecordHead_len, List.append_nil, Nat.add_zero,
    pure_eq_ok, bind_ok]

/-! ### AHAB v2 -/

theorem srkDataExport_ok (k : Key) (id : Nat) (hid : id < 4) (h : keyOK k = true) :
    srkDataExport k id = .ok (ahabSrkData k id) := by
  obtain ⟨d, hd, _⟩ := ahabKeyData_ok k h
  have e1 : UInt8.ofNat G.ahabSrkDataVersion = 0 := by decide
  have e2 : UInt8.ofNat G.ahabTagSrkData = 0x5D := by decide
  have e3 : leEnc 2 id ++ [0, 0] = [byte id, 0, 0, 0] := by
    match id, hid with
    | 0, _ => decide
    | 1, _ => decide
    | 2, _ => decide
    | 3, _ => decide
  simp only [srkDataExport, hd, bind_ok, pure_eq_ok, e1, e2, ahabSrkData, List.append_assoc, e3]

theorem padTo_len (n : Nat) (b : Bytes) (h : b.length ≤ n) : (padTo n b).length = n := by
  simp [padTo]; omega

theorem hashSize_le64 (a : HashAlg) : a.size ≤ 64 := by cases a <;> decide

theorem srkRecordV2Create_ok (c : CryptoOps) (hc : CryptoLaws c) (k : Key) (ca : Bool) (id : Nat) (hid : id < 4)
    (h : keyOK k = true) :
    srkRecordV2Create c k ca id = .ok (recOf k ca (padTo 64 (c.hash k.hashAlg (ahabSrkData k id)))) := by
  obtain ⟨d, hd, _⟩ := ahabKeyData_ok k h
  have e64 : G.ahabV2ParamsLen = 64 := rfl
  have hl : (c.hash k.hashAlg (ahabSrkData k id)).length ≤ 64 := by rw [hc.hash_len]; exact hashSize_le64 _
  have hx : extendBlock (c.hash k.hashAlg (ahabSrkData k id)) 64 = .ok (padTo 64 (c.hash k.hashAlg (ahabSrkData k id))) := by
    simp only [extendBlock, padTo]
    rw [if_neg (by omega)]
  simp only [srkRecordV2Create, hd, bind_ok, srkDataExport_ok k id hid h, e64, hx, ahabSignAlg_eq, recOf, caFlag, pure_eq_ok]
  cases ca <;> rfl

theorem path_ahabV2 (c : CryptoOps) (hc : CryptoLaws c) (kcs : List (Key × Bool)) (h : AhabOK kcs) :
    pathAhabV2 c kcs = .ok (rotkhAhabV2 c kcs) := by
  obtain ⟨hlen, hk, k0, ca0, hhead, hsame⟩ := h
  obtain ⟨a, b, d, e, rfl⟩ := list_eq4 kcs hlen
  simp only [List.head?_cons, Option.some.injEq] at hhead
  subst hhead
  have hb := hsame b (by simp)
  have hd := hsame d (by simp)
  have he := hsame e (by simp)
  obtain ⟨fb1, fb2, fb3, _⟩ := sameKind_fields hb.1
  obtain ⟨fd1, fd2, fd3, _⟩ := sameKind_fields hd.1
  obtain ⟨fe1, fe2, fe3, _⟩ := sameKind_fields he.1
  have ka := hk (k0, ca0) (by simp)
  have kb := hk b (by simp)
  have kd := hk d (by simp)
  have ke := hk e (by simp)
  have ca := srkRecordV2Create_ok c hc k0 ca0 0 (by decide) ka
  have cb := srkRecordV2Create_ok c hc b.1 b.2 1 (by decide) kb
  have cd := srkRecordV2Create_ok c hc d.1 d.2 2 (by decide) kd
  have ce := srkRecordV2Create_ok c hc e.1 e.2 3 (by decide) ke
  have pl : ∀ (a : HashAlg) (m : Bytes), (padTo 64 (c.hash a m)).length = 64 := by
    intro a m; apply padTo_len; rw [hc.hash_len]; exact hashSize_le64 _
  have e4 : G.ahabRecordsCnt = 4 := rfl
  have eh : hashOfName G.ahabTableHashV2 = .ok .sha512 := by decide
  have et : UInt8.ofNat G.ahabTagSrkTable = 0xD7 := by decide
  have ev : UInt8.ofNat G.ahabTableVersionV2 = 0x43 := by decide
  have xa := srkRecordExport_ok true k0 ca0 (padTo 64 (c.hash k0.hashAlg (ahabSrkData k0 0))) ka
  have xb := srkRecordExport_ok true b.1 b.2 (padTo 64 (c.hash b.1.hashAlg (ahabSrkData b.1 1))) kb
  have xd := srkRecordExport_ok true d.1 d.2 (padTo 64 (c.hash d.1.hashAlg (ahabSrkData d.1 2))) kd
  have xe := srkRecordExport_ok true e.1 e.2 (padTo 64 (c.hash e.1.hashAlg (ahabSrkData e.1 3))) ke
  simp only [pathAhabV2, zipIdx, List.mapM_cons, List.mapM_nil, ca, cb, cd, ce, bind_ok, pure_eq_ok]
  have hv : srkTableVerify [recOf k0 ca0 (padTo 64 (c.hash k0.hashAlg (ahabSrkData k0 0))),
      recOf b.1 b.2 (padTo 64 (c.hash b.1.hashAlg (ahabSrkData b.1 (0 + 1)))),
      recOf d.1 d.2 (padTo 64 (c.hash d.1.hashAlg (ahabSrkData d.1 (0 + 1 + 1)))),
      recOf e.1 e.2 (padTo 64 (c.hash e.1.hashAlg (ahabSrkData e.1 (0 + 1 + 1 + 1))))] = .ok () := by
    simp only [srkTableVerify, List.length_cons, List.length_nil, e4]
    simp only [recOf, fb1, fb2, fb3, fd1, fd2, fd3, fe1, fe2, fe3, hb.2, hd.2, he.2, pl, List.all_cons,
      List.all_nil, beq_self_eq_true, Bool.and_self, ↓reduceIte]
    rfl
  simp only [hv, bind_ok]
  simp only [srkTableExport, List.map_cons, List.map_nil, List.mapM_cons, List.mapM_nil, Nat.zero_add, Nat.reduceAdd,
    xa, xb, xd, xe, eh, et, ev, ↓reduceIte, pure_eq_ok, bind_ok]
  simp only [rotkhAhabV2, ahabTableV2, ahabTableOf, Spec.zipIdx, List.map_cons, List.map_nil, ahabRecordV2, recOf, List.sum_cons,
    List.sum_nil, List.flatten_cons, List.flatten_nil, List.length_append, ahabRecordHead_len, List.append_nil,
    Nat.add_zero, pl, Nat.zero_add, Nat.reduceAdd]

/-! ### HAB -/

theorem beMin_len (v : Nat) : (beMin v).length = byteLen v := by simp [beMin, beEnc_length']

/-- the generated description of `SrkItemEcc.__init__` / `export` (field sources, shifts, masks, coordinate-size rule, curve table)
    evaluates, for each of the three curves, to the documented HAB item: key size in BITS (P-521: 0x0209), fixed-width X ‖ Y -/
theorem habEccExport_curve (cv : Curve) (x y : Nat) (ca : Bool) (hx : x < 256 ^ cv.coordSize) (hy : y < 256 ^ cv.coordSize) :
    habEccExport { keySize := cv.bits, x := x, y := y, flag := if ca then 0x80 else 0 } = .ok (habItem (.ecc cv x y) ca) := by
  have e1 : UInt8.ofNat G.habTagKeyPublic = 0xE1 := by decide
  have e2 : UInt8.ofNat G.habAlgEcdsa = 0x27 := by decide
  have hcs : habCoordSize cv.bits = cv.coordSize := by cases cv <;> decide
  have hfl : ¬ ((if ca then 0x80 else 0 : Nat) ≠ 0 ∧ (if ca then 0x80 else 0 : Nat) ≠ 0x80) := by cases ca <;> decide
  have hlen : ¬ (12 + 2 * cv.coordSize ≥ 65536) := by cases cv <;> decide
  have hl : G.habHeaderSize + G.habEccLenExtra + cv.coordSize + cv.coordSize = 12 + 2 * cv.coordSize := by
    have a : G.habHeaderSize = 4 := rfl
    have b : G.habEccLenExtra = 8 := rfl
    rw [a, b]; omega
  have hcurve : ∃ nm id, habCurveName cv.bits = .ok nm ∧ G.habEccKeyType.lookup nm = some id ∧
      (G.habEccExportFields.map (habEccField (if ca then 0x80 else 0) id cv.bits)).any (fun v => decide (v ≥ 256)) = false ∧
      (G.habEccExportFields.map (habEccField (if ca then 0x80 else 0) id cv.bits)).map UInt8.ofNat =
        [0, 0, 0, byte (caFlag ca), byte cv.habId, 0] ++ beEnc 2 cv.bits := by
    cases cv <;> cases ca
    · exact ⟨"secp256r1", 0x4B, by decide, by decide, by decide, by decide⟩
    · exact ⟨"secp256r1", 0x4B, by decide, by decide, by decide, by decide⟩
    · exact ⟨"secp384r1", 0x4D, by decide, by decide, by decide, by decide⟩
    · exact ⟨"secp384r1", 0x4D, by decide, by decide, by decide, by decide⟩
    · exact ⟨"secp521r1", 0x4E, by decide, by decide, by decide, by decide⟩
    · exact ⟨"secp521r1", 0x4E, by decide, by decide, by decide, by decide⟩
  obtain ⟨nm, id, hnm, hid, hany, hf⟩ := hcurve
  simp only [habEccExport, hfl, hcs, toBytes_fit _ _ hx, toBytes_fit _ _ hy, bind_ok, pure_eq_ok, beEnc_length', hlen, hnm, hid,
    hany, hf, hl, e1, e2, ↓reduceIte, Bool.false_eq_true, habItem]
  simp only [List.append_assoc, List.cons_append, List.nil_append]

theorem habItemExport_ok (k : Key) (ca : Bool) (h : keyOK k = true) : habItemExport k ca = .ok (habItem k ca) := by
  have e1 : UInt8.ofNat G.habTagKeyPublic = 0xE1 := by decide
  cases k with
  | rsa n e =>
    obtain ⟨⟨bits, hb, h1, h2⟩, _, he⟩ := keyOK_rsa h
    have he4 : byteLen e ≤ 4 := byteLen_le_of_lt e 4 (by simpa using he)
    have hn : byteLen n ≤ 512 := by
      rcases hb with hb | hb | hb <;> subst hb
      · rw [byteLen_of_bounds n 2048 (by decide) (by decide) h1 h2]; decide
      · rw [byteLen_of_bounds n 3072 (by decide) (by decide) h1 h2]; decide
      · rw [byteLen_of_bounds n 4096 (by decide) (by decide) h1 h2]; decide
    have e2 : UInt8.ofNat G.habAlgPkcs1 = 0x21 := by decide
    have hlt : ¬ (4 + 8 + byteLen n + byteLen e ≥ 65536) := by omega
    simp only [habItemExport, toBytes_min, bind_ok, beMin_len, hlt, ↓reduceIte, pure_eq_ok, e1, e2, habItem, caFlag, byte]
  | ecc cv x y =>
    obtain ⟨hx, hy⟩ := keyOK_ecc h
    exact habEccExport_curve cv x y ca hx hy

theorem path_hab (c : CryptoOps) (kcs : List (Key × Bool)) (h : ∀ kc ∈ kcs, keyOK kc.1 = true) :
    pathHab c kcs = .ok (rotkhHab c kcs) := by
  have hm := mapM_ok (fun kc : Key × Bool => habItemExport kc.1 kc.2) (fun kc => habItem kc.1 kc.2) kcs
    (fun kc hkc => habItemExport_ok kc.1 kc.2 (h kc hkc))
  simp only [pathHab, hm, bind_ok, pure_eq_ok, rotkhHab, List.map_map]
  rfl

/-! ### `Rot` dispatch -/

theorem pathRot_cb1 (c : CryptoOps) (kcs : List (Key × Bool)) :
    pathRot c (RotType.name .certBlock1) kcs = pathRkhtV1 c (kcs.map (·.1)) := by
  have h : (G.rotClassTypes.find? (fun p => p.2 == RotType.name .certBlock1)).map (·.1) = some "RotCertBlockv1" := by decide
  simp only [pathRot, h]
  rfl

theorem pathRot_cb21 (c : CryptoOps) (kcs : List (Key × Bool)) :
    pathRot c (RotType.name .certBlock21) kcs = pathRkhtV21 c (kcs.map (·.1)) := by
  have h : (G.rotClassTypes.find? (fun p => p.2 == RotType.name .certBlock21)).map (·.1) = some "RotCertBlockv21" := by decide
  simp only [pathRot, h]
  rfl

theorem pathRot_ahab (c : CryptoOps) (kcs : List (Key × Bool)) :
    pathRot c (RotType.name .srkTableAhab) kcs = pathAhab c kcs := by
  have h : (G.rotClassTypes.find? (fun p => p.2 == RotType.name .srkTableAhab)).map (·.1) = some "RotSrkTableAhab" := by decide
  simp only [pathRot, h]
  rfl

theorem pathRot_ahabV2 (c : CryptoOps) (kcs : List (Key × Bool)) :
    pathRot c (RotType.name .srkTableAhabV2) kcs = pathAhabV2 c kcs := by
  have h : (G.rotClassTypes.find? (fun p => p.2 == RotType.name .srkTableAhabV2)).map (·.1) = some "RotSrkTableAhabV2" := by decide
  simp only [pathRot, h]
  rfl

theorem pathRot_hab (c : CryptoOps) (kcs : List (Key × Bool)) :
    pathRot c (RotType.name .srkTableHab) kcs = pathHab c kcs := by
  have h : (G.rotClassTypes.find? (fun p => p.2 == RotType.name .srkTableHab)).map (·.1) = some "RotSrkTableHab" := by decide
  simp only [pathRot, h]
  rfl

/-! ### fuses -/

theorem rkthFuses_cons4 (a b c d : UInt8) (rest : Bytes) :
    rkthFuses (a :: b :: c :: d :: rest) = leDec [a, b, c, d] :: rkthFuses rest := by
  rw [rkthFuses]; rfl

theorem leDec4 (a b c d : UInt8) :
    leDec [a, b, c, d] = ((d.toNat * 256 + c.toNat) * 256 + b.toNat) * 256 + a.toNat := by
  simp [leDec, beDec]

theorem leEnc4_leDec4 (a b c d : UInt8) : leEnc 4 (leDec [a, b, c, d]) = [a, b, c, d] := by
  rw [leDec4]
  have ha := a.toNat_lt; have hb := b.toNat_lt; have hc := c.toNat_lt; have hd := d.toNat_lt
  have e1 : (((d.toNat * 256 + c.toNat) * 256 + b.toNat) * 256 + a.toNat) % 256 = a.toNat := by omega
  have e2 : (((d.toNat * 256 + c.toNat) * 256 + b.toNat) * 256 + a.toNat) / 256 % 256 = b.toNat := by omega
  have e3 : (((d.toNat * 256 + c.toNat) * 256 + b.toNat) * 256 + a.toNat) / 256 / 256 % 256 = c.toNat := by omega
  have e4 : (((d.toNat * 256 + c.toNat) * 256 + b.toNat) * 256 + a.toNat) / 256 / 256 / 256 % 256 = d.toNat := by omega
  simp only [leEnc, beEnc, e1, e2, e3, e4, UInt8.ofNat_toNat]
  rfl

/-- the fuse words, re-encoded little endian, give back the hash bytes (length a multiple of 4) -/
theorem rkthFuses_le : ∀ (n : Nat) (b : Bytes), b.length = 4 * n →
    ((rkthFuses b).map (leEnc 4)).flatten = b ∧ (rkthFuses b).length = n ∧ ∀ w ∈ rkthFuses b, w < 2 ^ 32 := by
  intro n
  induction n with
  | zero =>
    intro b h
    have : b = [] := by cases b <;> simp_all
    subst this
    rw [rkthFuses]; simp
  | succ n ih =>
    intro b h
    match b, h with
    | a :: b1 :: c :: d :: rest, h =>
      have hr : rest.length = 4 * n := by simp at h; omega
      obtain ⟨i1, i2, i3⟩ := ih rest hr
      rw [rkthFuses_cons4]
      refine ⟨?_, by simp [i2], ?_⟩
      · simp only [List.map_cons, List.flatten_cons, i1, leEnc4_leDec4]; rfl
      · intro w hw
        rcases List.mem_cons.mp hw with hw | hw
        · subst hw
          rw [leDec4]
          have ha := a.toNat_lt; have hb := b1.toNat_lt; have hc := c.toNat_lt; have hd := d.toNat_lt
          omega
        · exact i3 w hw

/-! ### sequences of `set_rkh` calls: the final table is the function slot ↦ last hash written -/

/-- the zero entry -/
abbrev Z32 : Bytes := List.replicate 32 (0 : UInt8)

/-- the 4-slot table `RKHTv1.export` serialises (absent slots are zeros) -/
def tbl (l : List Bytes) : List Bytes := l ++ List.replicate (4 - l.length) Z32

theorem tbl_length (l : List Bytes) (hl : l.length ≤ 4) : (tbl l).length = 4 := by
  simp [tbl]; omega

theorem tbl_getElem? (l : List Bytes) (hl : l.length ≤ 4) (i : Nat) (hi : i < 4) : (tbl l)[i]? = some (l[i]?.getD Z32) := by
  by_cases h : i < l.length
  · simp [tbl, List.getElem?_append_left h, List.getElem?_eq_getElem h]
  · have h' : l.length ≤ i := by omega
    simp [tbl, List.getElem?_append_right h', List.getElem?_replicate, List.getElem?_eq_none h']
    omega

/-- the last hash written to slot `i` by a call sequence (none: the slot is never written) -/
def lastWrite : List (Nat × Bytes) → Nat → Option Bytes
  | [], _ => none
  | (j, h) :: ops, i => match lastWrite ops i with
    | some x => some x
    | none => if j = i then some h else none

/-- table invariant of `RKHTv1` inside a certificate block v1 -/
def WFtab (l : List Bytes) : Prop := l.length ≤ 4 ∧ ∀ h ∈ l, h.length = 32

/-- admissible calls: slot 0..3, a 32-byte hash (`set_root_key_hash` refuses every other length) -/
def WFops (ops : List (Nat × Bytes)) : Prop := ∀ op ∈ ops, op.1 ≤ 3 ∧ op.2.length = 32

theorem setRkh_step (l : List Bytes) (i : Nat) (h : Bytes) (hw : WFtab l) (hi : i ≤ 3) (hh : h.length = 32) :
    ∃ l', setRkh l i h = .ok l' ∧ WFtab l' ∧ l'.length = max l.length (i + 1) ∧ tbl l' = (tbl l).set i h := by
  obtain ⟨hl, h32⟩ := hw
  have e2 : G.rkhV1Size = 32 := rfl
  refine ⟨(l ++ List.replicate (i + 1 - l.length) Z32).set i h, ?_, ⟨?_, ?_⟩, ?_, ?_⟩
  · cases l with
    | nil =>
      simp only [setRkh, setRkh.fill, e2]
      rw [if_neg (by omega), if_neg (by simp; omega)]
    | cons h0 t =>
      have h0l := h32 h0 (by simp)
      simp only [setRkh, setRkh.fill, e2, hh, h0l]
      rw [if_neg (by omega), if_neg (by simp), if_neg (by simp at hl ⊢; omega)]
  · simp; omega
  · intro x hx
    rcases List.mem_or_eq_of_mem_set hx with h1 | h1
    · rcases List.mem_append.mp h1 with h2 | h2
      · exact h32 x h2
      · rw [(List.mem_replicate.mp h2).2]; simp
    · rw [h1]; exact hh
  · simp; omega
  · have hi' : i = 0 ∨ i = 1 ∨ i = 2 ∨ i = 3 := by omega
    rcases list_le4 l hl with hq | ⟨a, hq⟩ | ⟨a, b, hq⟩ | ⟨a, b, c, hq⟩ | ⟨a, b, c, d, hq⟩ <;> subst hq <;>
      rcases hi' with rfl | rfl | rfl | rfl <;> rfl

theorem setSeq_fold : ∀ (ops : List (Nat × Bytes)) (l : List Bytes), WFtab l → WFops ops →
    ∃ l', setSeq l ops = .ok l' ∧ WFtab l' ∧ tbl l' = ops.foldl (fun t op => t.set op.1 op.2) (tbl l) := by
  intro ops
  induction ops with
  | nil => intro l hw _; exact ⟨l, rfl, hw, rfl⟩
  | cons op ops ih =>
    intro l hw ho
    obtain ⟨i, h⟩ := op
    obtain ⟨hi, hh⟩ := ho (i, h) (by simp)
    obtain ⟨l1, e1, w1, _, t1⟩ := setRkh_step l i h hw hi hh
    obtain ⟨l2, e2, w2, t2⟩ := ih l1 w1 (fun op hop => ho op (by simp [hop]))
    refine ⟨l2, ?_, w2, ?_⟩
    · simp only [setSeq, e1, bind_ok, e2]
    · rw [t2, t1]; rfl

theorem foldl_set_getElem? : ∀ (ops : List (Nat × Bytes)) (t : List Bytes) (i : Nat),
    (ops.foldl (fun t op => t.set op.1 op.2) t)[i]? = (t[i]?).map (fun x => (lastWrite ops i).getD x) := by
  intro ops
  induction ops with
  | nil => intro t i; simp [lastWrite]
  | cons op ops ih =>
    intro t i
    obtain ⟨j, h⟩ := op
    simp only [List.foldl_cons, ih, lastWrite, List.getElem?_set]
    by_cases hji : j = i
    · subst hji
      cases hlw : lastWrite ops j <;> cases ht : t[j]? <;> simp [List.getElem?_eq_none_iff, List.getElem?_eq_some_iff] at ht ⊢
      all_goals first | omega | (obtain ⟨hlt, _⟩ := ht; simp [hlt]) | skip
    · simp only [hji, if_false]
      cases hlw : lastWrite ops i <;> simp

/-- **last write wins**: after any admissible call sequence, slot `i` of the 4-slot table holds the last hash written to it,
    and the former content (zeros if there was none) when it was never written -/
theorem setSeq_last_write (l : List Bytes) (ops : List (Nat × Bytes)) (hw : WFtab l) (ho : WFops ops) :
    ∃ l', setSeq l ops = .ok l' ∧ WFtab l' ∧
      ∀ i, i < 4 → (tbl l')[i]? = some ((lastWrite ops i).getD ((tbl l)[i]?.getD Z32)) := by
  obtain ⟨l', e, w, t⟩ := setSeq_fold ops l hw ho
  refine ⟨l', e, w, ?_⟩
  intro i hi
  have hlen := tbl_length l hw.1
  rw [t, foldl_set_getElem?]
  have : i < (tbl l).length := by omega
  simp [List.getElem?_eq_getElem this]

theorem tbl_ext (a b : List Bytes) (ha : a.length ≤ 4) (hb : b.length ≤ 4) (h : ∀ i, i < 4 → (tbl a)[i]? = (tbl b)[i]?) :
    tbl a = tbl b := by
  apply List.ext_getElem?
  intro i
  by_cases hi : i < 4
  · exact h i hi
  · have h1 := tbl_length a ha; have h2 := tbl_length b hb
    rw [List.getElem?_eq_none (by omega), List.getElem?_eq_none (by omega)]

theorem rkthV1_tbl (c : CryptoOps) (l : List Bytes) (hw : WFtab l) : rkthV1 c l = .ok (c.hash .sha256 (tbl l).flatten) := by
  simp only [rkthV1, exportV1_ok l hw.1 hw.2, bind_ok]; rfl

theorem exportV1_tbl (l : List Bytes) (hw : WFtab l) : exportV1 l = .ok (tbl l).flatten := exportV1_ok l hw.1 hw.2

/-- **order independence**: two admissible call sequences with the same last write per slot give the same exported table and RKTH -/
theorem setSeq_order_indep (c : CryptoOps) (l : List Bytes) (ops1 ops2 : List (Nat × Bytes)) (hw : WFtab l)
    (h1 : WFops ops1) (h2 : WFops ops2) (hlw : ∀ i, i < 4 → lastWrite ops1 i = lastWrite ops2 i) :
    (setSeq l ops1 >>= exportV1) = (setSeq l ops2 >>= exportV1) ∧ (setSeq l ops1 >>= rkthV1 c) = (setSeq l ops2 >>= rkthV1 c) := by
  obtain ⟨a, ea, wa, ta⟩ := setSeq_last_write l ops1 hw h1
  obtain ⟨b, eb, wb, tb⟩ := setSeq_last_write l ops2 hw h2
  have : tbl a = tbl b := tbl_ext a b wa.1 wb.1 (fun i hi => by rw [ta i hi, tb i hi, hlw i hi])
  simp only [ea, eb, bind_ok, exportV1_tbl _ wa, exportV1_tbl _ wb, rkthV1_tbl c _ wa, rkthV1_tbl c _ wb, this, and_self]

/-- **the v1 certificate block path, any call order**: when the last write to slot `i` is the hash of root key `i` (and no other slot
    is written), the RKTH is the documented RoT value of the ordered key list - whatever the order of the calls, whichever slot
    (e.g. the signing key's) is written first, however often slots are overwritten on the way -/
theorem setSeq_keys_any_order (c : CryptoOps) (hc : CryptoLaws c) (ks : List Key) (h : KeysOK .certBlock1 ks)
    (ops : List (Nat × Bytes)) (ho : WFops ops) (hlw : ∀ i, i < 4 → lastWrite ops i = (ks.map (keyHash c))[i]?) :
    (setSeq [] ops >>= rkthV1 c) = .ok (rotkhV1 c ks) := by
  obtain ⟨_, h4, hk⟩ := keysOK_cb1 h
  have hl : (ks.map (keyHash c)).length ≤ 4 := by simpa using h4
  have h32 : ∀ x ∈ ks.map (keyHash c), x.length = 32 := by
    intro x hx
    obtain ⟨k, hk', rfl⟩ := List.mem_map.mp hx
    rw [keyHash_len c hc, hashAlg_rsa (hk k hk').2]; rfl
  have w0 : WFtab [] := ⟨by simp, by simp⟩
  obtain ⟨a, ea, wa, ta⟩ := setSeq_last_write [] ops w0 ho
  have : tbl a = tbl (ks.map (keyHash c)) := by
    apply tbl_ext a _ wa.1 hl
    intro i hi
    rw [ta i hi, hlw i hi, tbl_getElem? _ hl i hi, tbl_getElem? [] (by simp) i hi]
    simp
  simp only [ea, bind_ok, rkthV1_tbl c _ wa, this]
  simp only [rotkhV1, rkhTableV1, tbl, List.length_map]

end SpsdkVerif.Rkht
