/-
C03 phase 2: negative statement as a reduction - the root-of-trust value BINDS the key list.
Two key lists of the documented domain (same RoT type, same number of keys) with the same fuse value are equal, or the
proof exhibits a hash collision (`Crypto.Break`).  No idealised axiom; `CryptoLaws.hash_len` only.
-/
import SpsdkVerif.Proofs.Rkht
import SpsdkVerif.Crypto.Break

namespace SpsdkVerif.Rkht
open SpsdkVerif SpsdkVerif.Spec
open SpsdkVerif.Misc hiding Bytes
open SpsdkVerif.Crypto (HashAlg CryptoOps CryptoLaws Bytes Break)

/-! ### the fuse value binds the key list (reduction to a hash collision) -/

theorem beEnc_inj (w a b : Nat) (ha : a < 256 ^ w) (hb : b < 256 ^ w) (h : beEnc w a = beEnc w b) : a = b := by
  have := congrArg beDec h
  rwa [beDec_beEnc_mod, beDec_beEnc_mod, Nat.mod_eq_of_lt ha, Nat.mod_eq_of_lt hb] at this

theorem beMin_inj (a b : Nat) (h : beMin a = beMin b) : a = b := by
  have hl : byteLen a = byteLen b := by
    have := congrArg List.length h
    simpa [beMin, beEnc_length'] using this
  unfold beMin at h
  rw [hl] at h
  exact beEnc_inj _ a b (by rw [← hl]; exact (byteLen_spec a).1) (byteLen_spec b).1 h

theorem append_inj_len {α} {a b c d : List α} (h : a ++ b = c ++ d) (hl : a.length = c.length) : a = c ∧ b = d :=
  List.append_inj h hl

theorem flatten_inj (m : Nat) : ∀ (l l' : List Bytes), (∀ x ∈ l, x.length = m) → (∀ x ∈ l', x.length = m) → l.length = l'.length →
    l.flatten = l'.flatten → l = l'
  | [], [], _, _, _, _ => rfl
  | [], _ :: _, _, _, hl, _ => by simp at hl
  | _ :: _, [], _, _, hl, _ => by simp at hl
  | a :: l, b :: l', h1, h2, hl, hf => by
    simp only [List.flatten_cons] at hf
    obtain ⟨e1, e2⟩ := List.append_inj hf (by rw [h1 a (by simp), h2 b (by simp)])
    rw [e1, flatten_inj m l l' (fun x hx => h1 x (by simp [hx])) (fun x hx => h2 x (by simp [hx])) (by simpa using hl) e2]

/-- byte length of the modulus of a key of the domain -/
theorem rsa_byteLen {n e : Nat} (h : keyOK (.rsa n e) = true) :
    (byteLen n = 256 ∨ byteLen n = 384 ∨ byteLen n = 512) ∧ 1 ≤ byteLen e ∧ byteLen e ≤ 4 := by
  obtain ⟨⟨bits, hb, h1, h2⟩, he0, he⟩ := keyOK_rsa h
  refine ⟨?_, byteLen_pos e (by omega), byteLen_le_of_lt e 4 (by simpa using he)⟩
  rcases hb with hb | hb | hb <;> subst hb
  · exact Or.inl (byteLen_of_bounds n 2048 (by decide) (by decide) h1 h2)
  · exact Or.inr (Or.inl (byteLen_of_bounds n 3072 (by decide) (by decide) h1 h2))
  · exact Or.inr (Or.inr (byteLen_of_bounds n 4096 (by decide) (by decide) h1 h2))

/-- the hashed key material determines the key: RSA keys of the domain, and EC keys on one curve -/
theorem material_inj_rsa {n e n' e' : Nat} (h : keyOK (.rsa n e) = true) (h' : keyOK (.rsa n' e') = true)
    (hm : (Key.rsa n e).material = (Key.rsa n' e').material) : n = n' ∧ e = e' := by
  obtain ⟨a1, a2, a3⟩ := rsa_byteLen h
  obtain ⟨b1, b2, b3⟩ := rsa_byteLen h'
  simp only [Key.material] at hm
  have hl := congrArg List.length hm
  simp only [List.length_append, beMin_len] at hl
  have hn : (beMin n).length = (beMin n').length := by rw [beMin_len, beMin_len]; omega
  obtain ⟨e1, e2⟩ := List.append_inj hm hn
  exact ⟨beMin_inj _ _ e1, beMin_inj _ _ e2⟩

theorem material_inj_ecc {cv : Curve} {x y x' y' : Nat} (h : keyOK (.ecc cv x y) = true) (h' : keyOK (.ecc cv x' y') = true)
    (hm : (Key.ecc cv x y).material = (Key.ecc cv x' y').material) : x = x' ∧ y = y' := by
  obtain ⟨a1, a2⟩ := keyOK_ecc h
  obtain ⟨b1, b2⟩ := keyOK_ecc h'
  simp only [Key.material] at hm
  obtain ⟨e1, e2⟩ := List.append_inj hm (by rw [beEnc_length', beEnc_length'])
  exact ⟨beEnc_inj _ _ _ a1 b1 e1, beEnc_inj _ _ _ a2 b2 e2⟩


/-- keys of one "family" (all RSA of the domain, or all on one curve): equal per-key hashes mean equal keys or a collision -/
theorem keyHashes_binding (c : CryptoOps) (D : Key → Prop)
    (hinj : ∀ k k', D k → D k' → k.hashAlg = k'.hashAlg ∧ (k.material = k'.material → k = k')) :
    ∀ (ks ks' : List Key), (∀ k ∈ ks, D k) → (∀ k ∈ ks', D k) → ks.map (keyHash c) = ks'.map (keyHash c) → ks = ks' ∨ Break c
  | [], [], _, _, _ => Or.inl rfl
  | [], _ :: _, _, _, h => by simp at h
  | _ :: _, [], _, _, h => by simp at h
  | k :: ks, k' :: ks', h1, h2, h => by
    simp only [List.map_cons, List.cons.injEq] at h
    obtain ⟨ha, hm⟩ := hinj k k' (h1 k (by simp)) (h2 k' (by simp))
    by_cases hmat : k.material = k'.material
    · have hk := hm hmat
      rcases keyHashes_binding c D hinj ks ks' (fun x hx => h1 x (by simp [hx])) (fun x hx => h2 x (by simp [hx])) h.2 with e | b
      · exact Or.inl (by rw [hk, e])
      · exact Or.inr b
    · refine Or.inr (Break.collision k.hashAlg k.material k'.material hmat ?_)
      have := h.1
      simp only [keyHash] at this
      rw [this, ha]

def DRsa (k : Key) : Prop := keyOK k = true ∧ k.isRsa = true
def DEcc (cv : Curve) (k : Key) : Prop := keyOK k = true ∧ k.curve? = some cv

theorem DRsa_inj : ∀ k k', DRsa k → DRsa k' → k.hashAlg = k'.hashAlg ∧ (k.material = k'.material → k = k') := by
  intro k k' h h'
  cases k with
  | ecc _ _ _ => have := h.2; simp [Key.isRsa] at this
  | rsa n e =>
    cases k' with
    | ecc _ _ _ => have := h'.2; simp [Key.isRsa] at this
    | rsa n' e' =>
      refine ⟨rfl, fun hm => ?_⟩
      obtain ⟨a, b⟩ := material_inj_rsa h.1 h'.1 hm
      rw [a, b]

theorem DEcc_inj (cv : Curve) : ∀ k k', DEcc cv k → DEcc cv k' → k.hashAlg = k'.hashAlg ∧ (k.material = k'.material → k = k') := by
  intro k k' h h'
  obtain ⟨x, y, rfl⟩ := key_of_curve h.2
  obtain ⟨x', y', rfl⟩ := key_of_curve h'.2
  refine ⟨rfl, fun hm => ?_⟩
  obtain ⟨a, b⟩ := material_inj_ecc h.1 h'.1 hm
  rw [a, b]

/-- cert block v1: two key lists of the domain with the same number of keys and the same RKTH are equal, or the proof
    exhibits a SHA-256 collision (of the two tables or of two keys' material) -/
theorem rotkhV1_binding (c : CryptoOps) (hc : CryptoLaws c) (ks ks' : List Key) (h : KeysOK .certBlock1 ks) (h' : KeysOK .certBlock1 ks')
    (hl : ks.length = ks'.length) (he : rotkhV1 c ks = rotkhV1 c ks') : ks = ks' ∨ Break c := by
  obtain ⟨_, h4, hk⟩ := keysOK_cb1 h
  obtain ⟨_, h4', hk'⟩ := keysOK_cb1 h'
  by_cases ht : rkhTableV1 c ks = rkhTableV1 c ks'
  · have h32 : ∀ (l : List Key), (∀ k ∈ l, keyOK k = true ∧ k.isRsa = true) →
        ∀ x ∈ l.map (keyHash c) ++ List.replicate (4 - l.length) (List.replicate 32 (0 : UInt8)), x.length = 32 := by
      intro l hl' x hx
      rcases List.mem_append.mp hx with hx | hx
      · obtain ⟨k, hk1, rfl⟩ := List.mem_map.mp hx
        rw [keyHash_len c hc, hashAlg_rsa (hl' k hk1).2]; rfl
      · rw [(List.mem_replicate.mp hx).2]; simp
    have := flatten_inj 32 _ _ (h32 ks hk) (h32 ks' hk') (by simp [hl]) ht
    obtain ⟨e1, _⟩ := List.append_inj this (by simp [hl])
    exact keyHashes_binding c DRsa DRsa_inj ks ks' hk hk' e1
  · exact Or.inr (Break.collision .sha256 _ _ ht he)

theorem hashAlg_size_inj_curve {cv cv' : Curve} (h1 : cv ≠ .p521) (h2 : cv' ≠ .p521) (h : cv.hashAlg.size = cv'.hashAlg.size) : cv = cv' := by
  cases cv <;> cases cv' <;> first | rfl | (exact absurd rfl h1) | (exact absurd rfl h2) | (simp [Curve.hashAlg, HashAlg.size] at h)

/-- cert block v2.1: the same for two key lists of the domain with the same number of keys -/
theorem rotkhV21_binding (c : CryptoOps) (hc : CryptoLaws c) (ks ks' : List Key) (h : KeysOK .certBlock21 ks) (h' : KeysOK .certBlock21 ks')
    (hl : ks.length = ks'.length) (he : rotkhV21 c ks = rotkhV21 c ks') : ks = ks' ∨ Break c := by
  obtain ⟨h1, _, hk, hcv⟩ := keysOK_cb21 h
  obtain ⟨h1', _, hk', hcv'⟩ := keysOK_cb21 h'
  -- both lists live on one curve each
  have hcurve : ∀ (l : List Key), ((∀ k ∈ l, k.curve? = some .p256) ∨ (∀ k ∈ l, k.curve? = some .p384)) →
      ∃ cv, cv ≠ .p521 ∧ ∀ k ∈ l, k.curve? = some cv := by
    intro l hl'; rcases hl' with a | a
    · exact ⟨.p256, by decide, a⟩
    · exact ⟨.p384, by decide, a⟩
  obtain ⟨cv, hne, hall⟩ := hcurve ks hcv
  obtain ⟨cv', hne', hall'⟩ := hcurve ks' hcv'
  -- the digest length tells the curve
  have hsame : cv = cv' := by
    apply hashAlg_size_inj_curve hne hne'
    have l1 : (rotkhV21 c ks).length = cv.hashAlg.size := by
      cases ks with
      | nil => simp at h1
      | cons k0 r =>
        obtain ⟨x, y, rfl⟩ := key_of_curve (hall k0 (by simp))
        cases r <;> simp [rotkhV21, keyHash, hc.hash_len, Key.hashAlg]
    have l2 : (rotkhV21 c ks').length = cv'.hashAlg.size := by
      cases ks' with
      | nil => simp at h1'
      | cons k0 r =>
        obtain ⟨x, y, rfl⟩ := key_of_curve (hall' k0 (by simp))
        cases r <;> simp [rotkhV21, keyHash, hc.hash_len, Key.hashAlg]
    rw [← l1, ← l2, he]
  subst hsame
  have hD : ∀ k ∈ ks, DEcc cv k := fun k hk1 => ⟨hk k hk1, hall k hk1⟩
  have hD' : ∀ k ∈ ks', DEcc cv k := fun k hk1 => ⟨hk' k hk1, hall' k hk1⟩
  match ks, ks', hl, he, hD, hD', h1 with
  | [k], [k'], _, he, hD, hD', _ =>
    exact keyHashes_binding c (DEcc cv) (DEcc_inj cv) [k] [k'] hD hD' (by simpa [rotkhV21] using he)
  | k0 :: k1 :: r, k0' :: k1' :: r', hl, he, hD, hD', _ =>
    have a0 : k0.hashAlg = cv.hashAlg := by obtain ⟨x, y, rfl⟩ := key_of_curve (hD k0 (by simp)).2; rfl
    have a0' : k0'.hashAlg = cv.hashAlg := by obtain ⟨x, y, rfl⟩ := key_of_curve (hD' k0' (by simp)).2; rfl
    simp only [rotkhV21, a0, a0'] at he
    by_cases ht : ctrkTable c (k0 :: k1 :: r) = ctrkTable c (k0' :: k1' :: r')
    · have hlen : ∀ (l : List Key), (∀ k ∈ l, DEcc cv k) → ∀ x ∈ l.map (keyHash c), x.length = cv.hashAlg.size := by
        intro l hl' x hx
        obtain ⟨k, hk1, rfl⟩ := List.mem_map.mp hx
        obtain ⟨a, b, rfl⟩ := key_of_curve (hl' k hk1).2
        exact keyHash_len c hc _
      have := flatten_inj _ _ _ (hlen _ hD) (hlen _ hD') (by simpa using hl) ht
      exact keyHashes_binding c (DEcc cv) (DEcc_inj cv) _ _ hD hD' this
    · exact Or.inr (Break.collision cv.hashAlg _ _ ht he)

end SpsdkVerif.Rkht
