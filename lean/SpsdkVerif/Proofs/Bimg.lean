/-
Proofs behind Properties/C14.lean: Proofs/BimgExport.lean (init offset, offsets, export) and Proofs/BimgParse.lean (parse).
-/
import SpsdkVerif.Proofs.BimgExport
import SpsdkVerif.Proofs.BimgParse
