/-
Helper lemmas for C12 (Properties/C12.lean): the area export expressed through the C16 theorems about `BinaryImage`.
-/
import SpsdkVerif.Model.ConfigArea
import SpsdkVerif.Proofs.Registers
import SpsdkVerif.Proofs.BinImage
import SpsdkVerif.Properties.C16
import SpsdkVerif.Proofs.Misc
import SpsdkVerif.Base.BitExpr

namespace SpsdkVerif.CfgArea
open SpsdkVerif SpsdkVerif.Misc SpsdkVerif.BinImg
open SpsdkVerif.Regs (leEnc_length leDec_leEnc two_pow_eq_256_pow)

/-! ## the image built by `image_info` -/

theorem insertSorted_perm (c : Img) (l : List Img) : (insertSorted c l).Perm (c :: l) := by
  induction l with
  | nil => simp [insertSorted]
  | cons x xs ih =>
    simp only [insertSorted]
    split
    · exact List.Perm.refl _
    · exact (List.Perm.cons x ih).trans (List.Perm.swap c x xs)

def regImgs : List RegL → Vals → List Img
  | r :: rs, v :: vs => regImg r v :: regImgs rs vs
  | _, _ => []

theorem areaImgFrom_spec (s o a : Nat) (bin : Option Bytes) (pat : Option Pattern) :
    ∀ (rs : List RegL) (vs : Vals) (ch : List Img),
      ∃ ch', areaImgFrom (.mk s o a bin pat ch) rs vs = .mk s o a bin pat ch' ∧ ch'.Perm (regImgs rs vs ++ ch) := by
  intro rs
  induction rs with
  | nil => intro vs ch; exact ⟨ch, by simp [areaImgFrom], by simp [regImgs]⟩
  | cons r rs ih =>
    intro vs ch
    cases vs with
    | nil => exact ⟨ch, by simp [areaImgFrom], by simp [regImgs]⟩
    | cons v vs =>
      obtain ⟨ch', h1, h2⟩ := ih vs (insertSorted (regImg r v) ch)
      refine ⟨ch', ?_, ?_⟩
      · simp only [areaImgFrom, Img.addImage]; exact h1
      · refine h2.trans ?_
        simp only [regImgs]
        refine (List.Perm.append_left _ (insertSorted_perm _ _)).trans ?_
        exact List.perm_middle

theorem areaImg_spec (l : Layout) (vals : Vals) :
    ∃ ch, areaImg l vals = .mk l.size 0 1 none (some (.num l.fill)) ch ∧ ch.Perm (regImgs l.regs vals) := by
  obtain ⟨ch, h1, h2⟩ := areaImgFrom_spec l.size 0 1 none (some (.num l.fill)) l.regs vals []
  exact ⟨ch, h1, by simpa using h2⟩

/-! ## a single register image -/

theorem regImg_offset (r : RegL) (v : Nat) : (regImg r v).offset = r.off := rfl
theorem regImg_children (r : RegL) (v : Nat) : (regImg r v).children = [] := rfl

theorem regImg_len (r : RegL) (v : Nat) : (regImg r v).len = r.bytes := by
  simp only [regImg, Img.len, childrenEnd, binLen, leEnc_length]
  split
  · rfl
  · simp [alignNat_one]

theorem regImg_export (r : RegL) (v : Nat) (h : 0 < r.bytes) : (regImg r v).export = .ok (leEnc r.bytes v) := by
  have hl := regImg_len r v
  have hne : (leEnc r.bytes v).isEmpty = false := by
    cases hb : leEnc r.bytes v with
    | nil => have := leEnc_length r.bytes v; rw [hb] at this; simp at this; omega
    | cons x xs => rfl
  simp only [regImg] at hl ⊢
  rw [Img.export, hl]
  simp [hne, leEnc_length]

theorem regImg_noGeoErr (r : RegL) (v : Nat) : ¬ C16.GeoErr (regImg r v) := by
  intro h
  cases h with
  | bin _ hb => simp only [regImg, Img.binary, binLen, leEnc_length] at hb; rw [← regImg, regImg_len] at hb; omega
  | child _ c hc _ => simp [regImg, Img.children] at hc
  | sticks _ c hc _ => simp [regImg, Img.children] at hc
  | overlap _ a b ca cb _ ha _ _ => simp [regImg, Img.children] at ha

theorem regImg_alignWF (r : RegL) (v : Nat) : C16.AlignWF (regImg r v) := by
  refine .mk _ (by simp [regImg, Img.alignment]) (by simp [regImg, Img.alignment, Img.size, Nat.mod_one]) ?_
  intro c hc; simp [regImg, Img.children] at hc

theorem mem_regImgs {rs : List RegL} {vs : Vals} {c : Img} (h : c ∈ regImgs rs vs) :
    ∃ r v, r ∈ rs ∧ c = regImg r v := by
  induction rs generalizing vs with
  | nil => simp [regImgs] at h
  | cons r rs ih =>
    cases vs with
    | nil => simp [regImgs] at h
    | cons v vs =>
      simp only [regImgs, List.mem_cons] at h
      rcases h with rfl | h
      · exact ⟨r, v, by simp, rfl⟩
      · obtain ⟨r', v', hr, hc⟩ := ih h
        exact ⟨r', v', by simp [hr], hc⟩

/-! ## geometry of the area image -/

def DisjR (a b : RegL) : Prop := a.stop ≤ b.off ∨ b.stop ≤ a.off

instance (a b : RegL) : Decidable (DisjR a b) := by unfold DisjR; infer_instance

/-- the part of well-formedness the binary theorems need -/
structure BinWF (l : Layout) : Prop where
  regs : ∀ r ∈ l.regs, r.width % 8 = 0 ∧ 0 < r.width ∧ r.cov = r.width
  disjoint : l.regs.Pairwise DisjR
  inside : l.size ≠ 0 → ∀ r ∈ l.regs, r.stop ≤ l.size

def NoOv (a b : Img) : Prop := ¬ C16.OverlapPair a b

theorem NoOv.symm {a b : Img} (h : NoOv a b) : NoOv b a := by
  intro h'; exact h ⟨h'.2, h'.1⟩

theorem regImgs_pairwise (rs : List RegL) (vs : Vals) (h : rs.Pairwise DisjR) : (regImgs rs vs).Pairwise NoOv := by
  induction rs generalizing vs with
  | nil => simp [regImgs]
  | cons r rs ih =>
    cases vs with
    | nil => simp [regImgs]
    | cons v vs =>
      rw [List.pairwise_cons] at h
      simp only [regImgs, List.pairwise_cons]
      refine ⟨?_, ih vs h.2⟩
      intro c hc
      obtain ⟨r', v', hr', rfl⟩ := mem_regImgs hc
      have hd := h.1 r' hr'
      intro hov
      have h1 := hov.1
      have h2 := hov.2
      rw [regImg_offset, regImg_offset, regImg_len] at h1 h2
      simp only [DisjR, RegL.stop] at hd
      omega

theorem bytes_pos {r : RegL} (h8 : r.width % 8 = 0) (hp : 0 < r.width) : 0 < r.bytes := by
  simp only [RegL.bytes]; omega

theorem le_childrenEnd {c : Img} {ch : List Img} (h : c ∈ ch) : c.offset + c.len ≤ childrenEnd ch := by
  induction ch with
  | nil => simp at h
  | cons x xs ih =>
    simp only [childrenEnd]
    rcases List.mem_cons.1 h with rfl | h
    · exact Nat.le_max_left _ _
    · exact Nat.le_trans (ih h) (Nat.le_max_right _ _)

theorem childrenEnd_le {ch : List Img} {M : Nat} (h : ∀ c ∈ ch, c.offset + c.len ≤ M) : childrenEnd ch ≤ M := by
  induction ch with
  | nil => simp [childrenEnd]
  | cons x xs ih =>
    simp only [childrenEnd]
    exact Nat.max_le.2 ⟨h x (by simp), ih (fun c hc => h c (by simp [hc]))⟩

theorem le_maxStop {r : RegL} {rs : List RegL} (h : r ∈ rs) : r.stop ≤ maxStop rs := by
  induction rs with
  | nil => simp at h
  | cons x xs ih =>
    simp only [maxStop]
    rcases List.mem_cons.1 h with rfl | h
    · exact Nat.le_max_left _ _
    · exact Nat.le_trans (ih h) (Nat.le_max_right _ _)

theorem maxStop_le {rs : List RegL} {M : Nat} (h : ∀ r ∈ rs, r.stop ≤ M) : maxStop rs ≤ M := by
  induction rs with
  | nil => simp [maxStop]
  | cons x xs ih =>
    simp only [maxStop]
    exact Nat.max_le.2 ⟨h x (by simp), ih (fun c hc => h c (by simp [hc]))⟩

/-- every register has an image among the children (when there is a value for every register) -/
theorem regImg_mem_regImgs {rs : List RegL} {vs : Vals} (hl : rs.length = vs.length) {r : RegL} (h : r ∈ rs) :
    ∃ v, regImg r v ∈ regImgs rs vs := by
  induction rs generalizing vs with
  | nil => simp at h
  | cons x xs ih =>
    cases vs with
    | nil => simp at hl
    | cons v vs =>
      rcases List.mem_cons.1 h with rfl | h
      · exact ⟨v, by simp [regImgs]⟩
      · obtain ⟨v', hv'⟩ := ih (by simpa using hl) h
        exact ⟨v', by simp [regImgs, hv']⟩

theorem areaImg_len (l : Layout) (vals : Vals) (hl : l.regs.length = vals.length) : (areaImg l vals).len = l.exportLen := by
  obtain ⟨ch, h1, h2⟩ := areaImg_spec l vals
  rw [h1, Img.len, Layout.exportLen]
  split
  · rfl
  · simp only [binLen, alignNat_one, Nat.zero_max]
    apply Nat.le_antisymm
    · apply childrenEnd_le
      intro c hc
      obtain ⟨r, v, hr, rfl⟩ := mem_regImgs (h2.mem_iff.1 hc)
      rw [regImg_offset, regImg_len]
      exact le_maxStop hr
    · apply maxStop_le
      intro r hr
      obtain ⟨v, hv⟩ := regImg_mem_regImgs hl hr
      have := le_childrenEnd (h2.mem_iff.2 hv)
      rwa [regImg_offset, regImg_len] at this

theorem areaImg_noGeoErr (l : Layout) (vals : Vals) (wf : BinWF l) (hl : l.regs.length = vals.length) :
    ¬ C16.GeoErr (areaImg l vals) := by
  have hlen := areaImg_len l vals hl
  obtain ⟨ch, h1, h2⟩ := areaImg_spec l vals
  rw [h1] at hlen ⊢
  intro h
  cases h with
  | bin _ hb => simp [Img.binary, binLen] at hb
  | child _ c hc hg =>
    simp only [Img.children] at hc
    obtain ⟨r, v, _, rfl⟩ := mem_regImgs (h2.mem_iff.1 hc)
    exact regImg_noGeoErr r v hg
  | sticks _ c hc hs =>
    simp only [Img.children] at hc
    obtain ⟨r, v, hr, rfl⟩ := mem_regImgs (h2.mem_iff.1 hc)
    rw [hlen, regImg_offset, regImg_len] at hs
    simp only [Layout.exportLen] at hs
    split at hs
    · have := wf.inside (by assumption) r hr; simp only [RegL.stop] at this; omega
    · have := le_maxStop hr; simp only [RegL.stop] at this; omega
  | overlap _ a b ca cb hab ha hb hov =>
    simp only [Img.children] at ha hb
    have hp : ch.Pairwise NoOv :=
      (List.Perm.pairwise_iff (fun h => NoOv.symm h) h2).2 (regImgs_pairwise l.regs vals wf.disjoint)
    rw [List.pairwise_iff_getElem] at hp
    obtain ⟨ha', hae⟩ := List.getElem?_eq_some_iff.1 ha
    obtain ⟨hb', hbe⟩ := List.getElem?_eq_some_iff.1 hb
    rcases Nat.lt_or_gt_of_ne hab with hlt | hgt
    · exact hp a b ha' hb' hlt (hae ▸ hbe ▸ hov)
    · exact hp b a hb' ha' hgt (hae ▸ hbe ▸ ⟨hov.2, hov.1⟩)

theorem areaImg_alignWF (l : Layout) (vals : Vals) : C16.AlignWF (areaImg l vals) := by
  obtain ⟨ch, h1, h2⟩ := areaImg_spec l vals
  rw [h1]
  refine .mk _ (by simp [Img.alignment]) (by simp [Img.alignment, Img.size, Nat.mod_one]) ?_
  intro c hc
  simp only [Img.children] at hc
  obtain ⟨r, v, _, rfl⟩ := mem_regImgs (h2.mem_iff.1 hc)
  exact regImg_alignWF r v

/-! ## export -/

theorem areaImg_validate (l : Layout) (vals : Vals) (wf : BinWF l) (hl : l.regs.length = vals.length) :
    (areaImg l vals).validate = .ok () :=
  (C16.validate_iff _).2 (areaImg_noGeoErr l vals wf hl)

theorem export_ok (l : Layout) (vals : Vals) (wf : BinWF l) (hl : l.regs.length = vals.length) :
    ∃ b, exportArea l vals = .ok b ∧ b.length = l.exportLen := by
  obtain ⟨b, hb, hlen⟩ := C16.export_length _ (areaImg_validate l vals wf hl) (areaImg_alignWF l vals)
  exact ⟨b, hb, by rw [hlen, areaImg_len l vals hl]⟩

/-- the bytes of every register sit at its offset -/
theorem export_slice (l : Layout) (vals : Vals) (b : Bytes) (wf : BinWF l) (hl : l.regs.length = vals.length)
    (hb : exportArea l vals = .ok b) (r : RegL) (v : Nat) (hr : r ∈ l.regs) (hm : regImg r v ∈ regImgs l.regs vals) :
    slice b r.off r.bytes = leEnc r.bytes v := by
  obtain ⟨ch, h1, h2⟩ := areaImg_spec l vals
  have hc : regImg r v ∈ (areaImg l vals).children := by rw [h1]; exact h2.mem_iff.2 hm
  obtain ⟨h8, hp, _⟩ := wf.regs r hr
  have he := regImg_export r v (bytes_pos h8 hp)
  have := C16.export_child_at _ _ b _ (areaImg_validate l vals wf hl) (areaImg_alignWF l vals) hc hb he
  simpa [slice, regImg_offset, leEnc_length] using this

/-- pointwise relation between the registers and their values (core has no `List.Forall₂`) -/
inductive RV (P : RegL → Nat → Prop) : List RegL → Vals → Prop
  | nil : RV P [] []
  | cons {r : RegL} {v : Nat} {rs : List RegL} {vs : Vals} : P r v → RV P rs vs → RV P (r :: rs) (v :: vs)

theorem RV.length {P : RegL → Nat → Prop} {rs : List RegL} {vs : Vals} (h : RV P rs vs) : rs.length = vs.length := by
  induction h with
  | nil => rfl
  | cons _ _ ih => simp [ih]

theorem RV.imp {P Q : RegL → Nat → Prop} {rs : List RegL} {vs : Vals} (h : RV P rs vs)
    (hpq : ∀ r v, r ∈ rs → P r v → Q r v) : RV Q rs vs := by
  induction h with
  | nil => exact .nil
  | cons hp _ ih => exact .cons (hpq _ _ (by simp) hp) (ih (fun r v hr => hpq r v (by simp [hr])))

theorem RV.and {P Q : RegL → Nat → Prop} {rs : List RegL} {vs : Vals} (h : RV P rs vs) (h' : RV Q rs vs) :
    RV (fun r v => P r v ∧ Q r v) rs vs := by
  induction h with
  | nil => exact .nil
  | cons hp _ ih => cases h' with | cons hq h'' => exact .cons ⟨hp, hq⟩ (ih h'')

theorem forall2_of_regImgs {P : RegL → Nat → Prop} :
    ∀ (rs : List RegL) (vs : Vals), rs.length = vs.length →
      (∀ r v, r ∈ rs → regImg r v ∈ regImgs rs vs → P r v) → RV P rs vs := by
  intro rs
  induction rs with
  | nil => intro vs hl _; cases vs with | nil => exact .nil | cons _ _ => simp at hl
  | cons r rs ih =>
    intro vs hl h
    cases vs with
    | nil => simp at hl
    | cons v vs =>
      refine .cons (h r v (by simp) (by simp [regImgs])) (ih vs (by simpa using hl) ?_)
      intro r' v' hr' hm
      exact h r' v' (by simp [hr']) (by simp [regImgs, hm])

/-! ## parse -/

/-- what `parse` leaves in an object that held `cur`: visible registers get the new values, hidden ones keep theirs -/
def mergeHidden : List RegL → Vals → Vals → Vals
  | r :: rs, v :: vs, c :: cs => (if r.hidden then c else v) :: mergeHidden rs vs cs
  | _, _, cs => cs

theorem mergeHidden_self : ∀ (rs : List RegL) (vs : Vals), mergeHidden rs vs vs = vs := by
  intro rs
  induction rs with
  | nil => intro vs; cases vs <;> simp [mergeHidden]
  | cons r rs ih =>
    intro vs
    cases vs with
    | nil => simp [mergeHidden]
    | cons v vs => simp [mergeHidden, ih vs]

theorem parseAux_of_slices (b : Bytes) :
    ∀ (rs : List RegL) (vs cur : Vals),
      RV (fun r v => slice b r.off r.bytes = leEnc r.bytes v ∧ v < 2 ^ r.width ∧ r.stop ≤ b.length ∧
        r.cov = r.width ∧ r.width % 8 = 0) rs vs →
      parseAux rs cur b false = mergeHidden rs vs cur := by
  intro rs vs cur h
  induction h generalizing cur with
  | nil => cases cur <;> simp [parseAux, mergeHidden]
  | @cons r v rs vs hrv _ ih =>
    cases cur with
    | nil => simp [parseAux, mergeHidden]
    | cons c cs =>
      obtain ⟨hs, hv, hst, hcov, h8⟩ := hrv
      simp only [parseAux, mergeHidden]
      by_cases hh : r.hidden
      · simp [hh, ih cs]
      · have hnl : ¬ b.length < r.stop := by omega
        have hdec : leDec (slice b r.off r.bytes) % 2 ^ r.cov = v := by
          rw [hs, hcov, leDec_leEnc _ _ (by rw [RegL.bytes, ← two_pow_eq_256_pow r.width h8]; exact hv)]
          exact Nat.mod_eq_of_lt hv
        simp [hh, hnl, hdec, ih cs]

/-! ## computed-field rules: bit-level facts -/

theorem testBit_ffff (k : Nat) : (0xFFFF : Nat).testBit k = decide (k < 16) := by
  rw [show (0xFFFF : Nat) = 2 ^ 16 - 1 by decide]; exact Nat.testBit_two_pow_sub_one 16 k

theorem testBit_ff (k : Nat) : (0xFF : Nat).testBit k = decide (k < 8) := by
  rw [show (0xFF : Nat) = 2 ^ 8 - 1 by decide]; exact Nat.testBit_two_pow_sub_one 8 k

theorem testBit_ffff00ff (k : Nat) : (0xFFFF00FF : Nat).testBit k = (decide (k < 8) || (decide (16 ≤ k) && decide (k < 32))) := by
  rw [show (0xFFFF00FF : Nat) = (2 ^ 8 - 1) ||| ((2 ^ 16 - 1) <<< 16) by decide]
  simp only [Nat.testBit_or, Nat.testBit_shiftLeft, Nat.testBit_two_pow_sub_one]
  by_cases h : 16 ≤ k
  · have e : (k - 16 < 16) ↔ (k < 32) := by omega
    simp [h, e]
  · simp [h]

theorem invHighHalf_holds (v : Nat) : RuleHolds 0 (invHighHalf v) := by
  simp only [RuleHolds, if_true]
  apply Nat.eq_of_testBit_eq
  intro i
  simp only [invHighHalf, Nat.testBit_shiftRight, Nat.testBit_or, Nat.testBit_and, Nat.testBit_xor, Nat.testBit_shiftLeft, testBit_ffff]
  by_cases h : i < 16
  · simp [h, show ¬ 16 + i < 16 by omega, show ¬ 16 ≤ i by omega]
  · simp [h]

theorem invLow8_holds (v : Nat) : RuleHolds 1 (invLow8 v) := by
  simp only [RuleHolds]
  apply Nat.eq_of_testBit_eq
  intro i
  simp only [invLow8, Nat.testBit_shiftRight, Nat.testBit_or, Nat.testBit_and, Nat.testBit_xor, Nat.testBit_shiftLeft, testBit_ff, testBit_ffff00ff]
  by_cases h : i < 8
  · simp [h, show ¬ 8 + i < 8 by omega, show ¬ 16 ≤ 8 + i by omega, show ¬ 8 ≤ i by omega]
  · simp [h]

theorem invHighHalf_lt (v : Nat) : invHighHalf v < 2 ^ 32 := by
  apply Nat.lt_pow_two_of_testBit
  intro i hi
  simp only [invHighHalf, Nat.testBit_or, Nat.testBit_and, Nat.testBit_xor, Nat.testBit_shiftLeft, testBit_ffff]
  simp [show ¬ i < 16 by omega, show ¬ i - 16 < 16 by omega]

theorem invLow8_lt (v : Nat) : invLow8 v < 2 ^ 32 := by
  apply Nat.lt_pow_two_of_testBit
  intro i hi
  simp only [invLow8, Nat.testBit_or, Nat.testBit_and, Nat.testBit_xor, Nat.testBit_shiftLeft, testBit_ff, testBit_ffff00ff]
  simp [show ¬ i < 8 by omega, show ¬ i < 32 by omega, show ¬ i - 8 < 8 by omega]

/-- the low half-word / low byte (the user's part of the register) is kept -/
theorem invHighHalf_low (v : Nat) : invHighHalf v &&& 0xFFFF = v &&& 0xFFFF := by
  apply Nat.eq_of_testBit_eq
  intro i
  simp only [invHighHalf, Nat.testBit_or, Nat.testBit_and, Nat.testBit_xor, Nat.testBit_shiftLeft, testBit_ffff]
  by_cases h : i < 16
  · simp [h, show ¬ 16 ≤ i by omega]
  · simp [h]

theorem invLow8_keeps (v : Nat) (hv : v < 2 ^ 32) : invLow8 v &&& 0xFFFF00FF = v &&& 0xFFFF00FF := by
  apply Nat.eq_of_testBit_eq
  intro i
  simp only [invLow8, Nat.testBit_or, Nat.testBit_and, Nat.testBit_xor, Nat.testBit_shiftLeft, testBit_ff, testBit_ffff00ff]
  by_cases h : i < 8
  · simp [h, show ¬ 8 ≤ i by omega]
  · by_cases h2 : 16 ≤ i
    · simp [h, h2, show ¬ i - 8 < 8 by omega]
    · simp [h, h2]

/-! ## the rule functions as bit expressions (specification side; the generated side is Generated/PfrRules.lean) -/

open SpsdkVerif.BitExpr in
/-- `invHighHalf` as a bit expression -/
def specRule0 : BitExpr.BExpr :=
  .or (.and .var (.lit 0xFFFF)) (.shl (.xor (.and .var (.lit 0xFFFF)) (.lit 0xFFFF)) 16)

open SpsdkVerif.BitExpr in
/-- `invLow8` as a bit expression -/
def specRule1 : BitExpr.BExpr :=
  .or (.and .var (.lit 0xFFFF00FF)) (.shl (.xor (.and .var (.lit 0xFF)) (.lit 0xFF)) 8)

theorem specRule0_eval (v : Nat) : BitExpr.eval specRule0 v = invHighHalf v := rfl
theorem specRule1_eval (v : Nat) : BitExpr.eval specRule1 v = invLow8 v := rfl

/-! ## computeAll -/

def stepRule (m : Nat → Bool) (vs : Vals) (ir : Nat × Nat) : Vals :=
  if m ir.1 then vs.set ir.1 (applyRule ir.2 (vs.getD ir.1 0)) else vs

theorem computeAll_eq (rules : List (Nat × Nat)) (m : Nat → Bool) (vals : Vals) :
    computeAll rules m vals = rules.foldl (stepRule m) vals := rfl

theorem stepRule_length (m : Nat → Bool) (vs : Vals) (ir : Nat × Nat) : (stepRule m vs ir).length = vs.length := by
  simp only [stepRule]; split <;> simp

theorem stepRule_getD_ne (m : Nat → Bool) (vs : Vals) (ir : Nat × Nat) (i : Nat) (h : ir.1 ≠ i) :
    (stepRule m vs ir).getD i 0 = vs.getD i 0 := by
  simp only [stepRule]; split
  · simp [List.getD_eq_getElem?_getD, List.getElem?_set_ne h]
  · rfl

theorem computeAll_length (rules : List (Nat × Nat)) (m : Nat → Bool) (vals : Vals) :
    (computeAll rules m vals).length = vals.length := by
  rw [computeAll_eq]
  induction rules generalizing vals with
  | nil => rfl
  | cons ir rest ih => simp only [List.foldl_cons]; rw [ih, stepRule_length]

theorem computeAll_frame (rules : List (Nat × Nat)) (m : Nat → Bool) (vals : Vals) (i : Nat)
    (h : ∀ ir ∈ rules, ir.1 = i → m i = false) : (computeAll rules m vals).getD i 0 = vals.getD i 0 := by
  rw [computeAll_eq]
  induction rules generalizing vals with
  | nil => rfl
  | cons ir rest ih =>
    simp only [List.foldl_cons]
    rw [ih _ (fun x hx => h x (by simp [hx]))]
    by_cases he : ir.1 = i
    · have := h ir (by simp) he
      simp [stepRule, he, this]
    · exact stepRule_getD_ne m vals ir i he

theorem computeAll_get (rules : List (Nat × Nat)) (m : Nat → Bool) (vals : Vals)
    (hn : (rules.map (·.1)).Nodup) (ir : Nat × Nat) (hir : ir ∈ rules) (hm : m ir.1 = true) (hi : ir.1 < vals.length) :
    (computeAll rules m vals).getD ir.1 0 = applyRule ir.2 (vals.getD ir.1 0) := by
  induction rules generalizing vals with
  | nil => simp at hir
  | cons x rest ih =>
    simp only [List.map_cons, List.nodup_cons, List.mem_map, not_exists, not_and] at hn
    have e : computeAll (x :: rest) m vals = computeAll rest m (stepRule m vals x) := rfl
    rw [e]
    rcases List.mem_cons.1 hir with rfl | hr
    · rw [computeAll_frame rest m _ ir.1 (fun y hy hy1 => absurd hy1 (hn.1 y hy))]
      simp [stepRule, hm, List.getD_eq_getElem?_getD, hi]
    · have hne : x.1 ≠ ir.1 := fun h => hn.1 ir hr h.symm
      rw [ih _ hn.2 hr (by rw [stepRule_length]; exact hi), stepRule_getD_ne m vals x ir.1 hne]

/-! ## seal -/

theorem repeatBytes_length (m : Bytes) (n : Nat) : (repeatBytes m n).length = n * m.length := by
  induction n with
  | zero => simp [repeatBytes]
  | succ k ih => simp [repeatBytes, ih, Nat.succ_mul, Nat.add_comm]

theorem sliceAssign_spec (b d : Bytes) (s : Nat) (h : s + d.length ≤ b.length) :
    (b.take s ++ d ++ b.drop (s + d.length)).length = b.length ∧
    ((b.take s ++ d ++ b.drop (s + d.length)).drop s).take d.length = d ∧
    (b.take s ++ d ++ b.drop (s + d.length)).take s = b.take s ∧
    (b.take s ++ d ++ b.drop (s + d.length)).drop (s + d.length) = b.drop (s + d.length) := by
  have hp : (b.take s).length = s := by simp; omega
  have hpd : (b.take s ++ d).length = s + d.length := by simp [hp]
  refine ⟨by simp [hp]; omega, ?_, ?_, ?_⟩
  · rw [List.append_assoc, List.drop_left' hp, List.take_left' rfl]
  · rw [List.append_assoc, List.take_left' hp]
  · rw [List.drop_left' hpd]

theorem seal_spec (mark b : Bytes) (l : Layout) (hm : mark.length = 4) (hb : b.length = l.size)
    (hs : l.sealCount ≠ 0 → l.sealStart + l.sealCount * 4 ≤ l.size) :
    ∃ bs, sealBytes mark l b = .ok bs ∧ bs.length = l.size ∧
      slice bs l.sealStart (l.sealCount * 4) = repeatBytes mark l.sealCount ∧
      bs.take l.sealStart = b.take l.sealStart ∧
      bs.drop (l.sealStart + l.sealCount * 4) = b.drop (l.sealStart + l.sealCount * 4) := by
  by_cases hc : l.sealCount = 0
  · refine ⟨b, by simp [sealBytes, hc, hb], hb, ?_, rfl, rfl⟩
    simp [hc, slice, repeatBytes]
  · have h := hs hc
    have hrl := repeatBytes_length mark l.sealCount
    rw [hm] at hrl
    have hmax : max l.sealStart (l.sealStart + l.sealCount * 4) = l.sealStart + l.sealCount * 4 := by omega
    obtain ⟨h1, h2, h3, h4⟩ := sliceAssign_spec b (repeatBytes mark l.sealCount) l.sealStart (by rw [hrl]; omega)
    rw [hrl] at h1 h2 h3 h4
    have e : sliceAssign b l.sealStart (l.sealStart + l.sealCount * 4) (repeatBytes mark l.sealCount) =
        b.take l.sealStart ++ repeatBytes mark l.sealCount ++ b.drop (l.sealStart + l.sealCount * 4) := by
      simp only [sliceAssign, hmax]
    have hl : (b.take l.sealStart ++ repeatBytes mark l.sealCount ++ b.drop (l.sealStart + l.sealCount * 4)).length = l.size := by
      rw [h1, hb]
    refine ⟨b.take l.sealStart ++ repeatBytes mark l.sealCount ++ b.drop (l.sealStart + l.sealCount * 4), ?_, hl, h2, h3, h4⟩
    simp only [sealBytes, hc, if_false, e]
    rw [if_neg (by rw [hl]; simp)]

/-! ## TrustZone words -/

theorem flatMap_leEnc_length (ws : List Nat) : (ws.flatMap (leEnc 4)).length = 4 * ws.length := by
  induction ws with
  | nil => rfl
  | cons w ws ih => simp [List.flatMap_cons, leEnc_length, ih]; omega

theorem tzWordsOf_flatMap (ws : List Nat) (tail : Bytes) (h : ∀ w ∈ ws, w < 2 ^ 32) :
    tzWordsOf ws.length (ws.flatMap (leEnc 4) ++ tail) = ws := by
  induction ws with
  | nil => rfl
  | cons w ws ih =>
    have hl : (leEnc 4 w).length = 4 := leEnc_length 4 w
    simp only [List.flatMap_cons, List.length_cons, tzWordsOf, List.append_assoc]
    rw [List.take_left' hl, List.drop_left' hl, ih (fun x hx => h x (by simp [hx]))]
    rw [leDec_leEnc 4 w (by have := h w (by simp); omega)]

theorem tz_roundtrip' (ws : List Nat) (tail : Bytes) (h : ∀ w ∈ ws, w < 2 ^ 32) :
    ∃ b, tzExport ws = .ok b ∧ b.length = 4 * ws.length ∧ tzParse ws.length (b ++ tail) = .ok ws := by
  refine ⟨ws.flatMap (leEnc 4), ?_, flatMap_leEnc_length ws, ?_⟩
  · have : ws.all (· < 2 ^ 32) = true := by simpa using h
    simp [tzExport, this]
  · have hn : ¬ ws.length > (ws.flatMap (leEnc 4) ++ tail).length / 4 := by
      simp only [List.length_append, flatMap_leEnc_length]; omega
    simp only [tzParse, hn, if_false]
    rw [tzWordsOf_flatMap ws tail h]

/-! ## XMCD header word -/

theorem testBit_fff (k : Nat) : (0xFFF : Nat).testBit k = decide (k < 12) := by
  rw [show (0xFFF : Nat) = 2 ^ 12 - 1 by decide]; exact Nat.testBit_two_pow_sub_one 12 k

theorem testBit_f (k : Nat) : (0xF : Nat).testBit k = decide (k < 4) := by
  rw [show (0xF : Nat) = 2 ^ 4 - 1 by decide]; exact Nat.testBit_two_pow_sub_one 4 k

theorem xmcd_size_field (tag size bt inst iface : Nat) (hs : size < 2 ^ 12) :
    xmcdSizeField (xmcdHeader tag size bt inst iface) = size := by
  apply Nat.eq_of_testBit_eq
  intro i
  simp only [xmcdSizeField, xmcdHeader, Nat.testBit_or, Nat.testBit_and, Nat.testBit_shiftLeft, testBit_fff, testBit_f]
  by_cases h : i < 12
  · simp [h, show ¬ 12 ≤ i by omega, show ¬ 16 ≤ i by omega, show ¬ 20 ≤ i by omega, show ¬ 28 ≤ i by omega]
  · have : size.testBit i = false := Nat.testBit_lt_two_pow (Nat.lt_of_lt_of_le hs (Nat.pow_le_pow_right (by decide) (by omega)))
    simp [h, this]

theorem xmcd_tag_field (tag size bt inst iface : Nat) (ht : tag < 2 ^ 4) :
    xmcdTagField (xmcdHeader tag size bt inst iface) = tag := by
  apply Nat.eq_of_testBit_eq
  intro i
  simp only [xmcdTagField, xmcdHeader, Nat.testBit_or, Nat.testBit_and, Nat.testBit_shiftLeft, Nat.testBit_shiftRight, testBit_fff, testBit_f]
  by_cases h : i < 4
  · simp [h, show ¬ 28 + i < 12 by omega, show 12 ≤ 28 + i by omega, show ¬ 28 + i - 12 < 4 by omega,
      show ¬ 28 + i - 16 < 4 by omega, show ¬ 28 + i - 20 < 4 by omega, show 16 ≤ 28 + i by omega, show 20 ≤ 28 + i by omega]
  · have : tag.testBit i = false := Nat.testBit_lt_two_pow (Nat.lt_of_lt_of_le ht (Nat.pow_le_pow_right (by decide) (by omega)))
    simp [h, this]

/-! ## Boolean checkers -/

theorem pairwiseB_sound {α} (p : α → α → Bool) (l : List α) (h : pairwiseB p l = true) :
    l.Pairwise (fun a b => p a b = true) := by
  induction l with
  | nil => exact List.Pairwise.nil
  | cons x xs ih =>
    simp only [pairwiseB, Bool.and_eq_true, List.all_eq_true] at h
    exact List.Pairwise.cons h.1 (ih h.2)

theorem nodupB_sound (l : List Nat) (h : nodupB l = true) : l.Nodup := by
  induction l with
  | nil => exact List.nodup_nil
  | cons x xs ih =>
    simp only [nodupB, Bool.and_eq_true, Bool.not_eq_true', List.contains_eq_mem, decide_eq_false_iff_not] at h
    exact List.nodup_cons.2 ⟨h.1, ih h.2⟩


/-! ## the linear-time duplicate check -/

theorem testBit_orPow (l : List Nat) (k : Nat) : (orPow l).testBit k = decide (k ∈ l) := by
  induction l with
  | nil => simp [orPow]
  | cons a t ih =>
    simp only [orPow, Nat.testBit_or, ih, Nat.testBit_two_pow, List.mem_cons]
    by_cases h : a = k
    · simp [h]
    · have : ¬ k = a := fun e => h e.symm
      simp [h, this]

theorem or_pow_of_set (a x : Nat) (h : x.testBit a = true) : 2 ^ a ||| x = x := by
  apply Nat.eq_of_testBit_eq; intro k
  simp only [Nat.testBit_or, Nat.testBit_two_pow]
  by_cases hk : a = k
  · subst hk; simp [h]
  · simp [hk]

theorem or_pow_of_clear (a x : Nat) (h : x.testBit a = false) : 2 ^ a ||| x = 2 ^ a + x := by
  have hz : 2 ^ a &&& x = 0 := by
    apply Nat.eq_of_testBit_eq; intro k
    simp only [Nat.testBit_and, Nat.testBit_two_pow, Nat.zero_testBit]
    by_cases hk : a = k
    · subst hk; simp [h]
    · simp [hk]
  exact (Regs.add_eq_or_of_and_eq_zero _ _ hz).symm

theorem orPow_le_sumPow (l : List Nat) : orPow l ≤ sumPow l := by
  induction l with
  | nil => simp [orPow, sumPow]
  | cons a t ih =>
    simp only [orPow, sumPow]
    cases hb : (orPow t).testBit a with
    | true => rw [or_pow_of_set a _ hb]; have := Nat.two_pow_pos a; omega
    | false => rw [or_pow_of_clear a _ hb]; have := Nat.two_pow_pos a; omega

theorem nodupFastB_sound (l : List Nat) (h : nodupFastB l = true) : l.Nodup := by
  simp only [nodupFastB, beq_iff_eq] at h
  induction l with
  | nil => exact List.nodup_nil
  | cons a t ih =>
    simp only [sumPow, orPow] at h
    have hle := orPow_le_sumPow t
    by_cases ha : a ∈ t
    · have hb : (orPow t).testBit a = true := by rw [testBit_orPow]; simpa using ha
      rw [or_pow_of_set a _ hb] at h
      have : 0 < 2 ^ a := Nat.two_pow_pos a
      omega
    · have hb : (orPow t).testBit a = false := by rw [testBit_orPow]; simpa using ha
      rw [or_pow_of_clear a _ hb] at h
      exact List.nodup_cons.2 ⟨ha, ih (by omega)⟩

/-! ## segment parsers and option words -/

/-- the value of register `i` in a pointwise-related pair of lists -/
theorem rv_pick {P : RegL → Nat → Prop} : ∀ {rs : List RegL} {vs : Vals} {i : Nat} {r : RegL},
    RV P rs vs → rs[i]? = some r → P r (vs.getD i 0) := by
  intro rs vs i r h
  induction h generalizing i with
  | nil => intro hr; simp at hr
  | @cons r0 v0 rs vs h0 _ ih =>
    intro hr
    cases i with
    | zero => simp at hr; subst hr; simpa using h0
    | succ j => simpa using ih (by simpa using hr)

theorem tagCheck_ok (tag : Bytes) (ti : Nat) (l : Layout) (vals : Vals) (r : RegL) (hr : l.regs[ti]? = some r)
    (ht : leEnc r.bytes (vals.getD ti 0) = tag) : tagCheck tag ti l vals = .ok vals := by
  simp only [tagCheck, hr]
  rw [if_pos ht]

theorem swapPairs_take4 : ∀ (b : Bytes), 4 ≤ b.length → (swapPairs b).take 4 = swapPairs (b.take 4)
  | a :: b :: c :: d :: rest, _ => by simp [swapPairs]
  | [], h => by simp at h
  | [_], h => by simp at h
  | [_, _], h => by simp at h
  | [_, _, _], h => by simp at h

/-- registers that are visible 32-bit words at offsets 4·k, 4·(k+1), … -/
def WordsFrom : Nat → List RegL → Prop
  | _, [] => True
  | k, r :: rs => r.off = 4 * k ∧ r.width = 32 ∧ r.cov = 32 ∧ r.hidden = false ∧ WordsFrom (k + 1) rs

theorem owBytes_length (ws : List Nat) : (owBytes ws).length = 4 * ws.length := flatMap_leEnc_length ws

theorem slice_owBytes (pre : List Nat) (w : Nat) (post : List Nat) :
    slice (owBytes (pre ++ w :: post)) (4 * pre.length) 4 = leEnc 4 w := by
  have hp : (List.flatMap (leEnc 4) pre).length = 4 * pre.length := owBytes_length pre
  have hl : (leEnc 4 w).length = 4 := leEnc_length 4 w
  simp only [owBytes, List.flatMap_append, List.flatMap_cons, slice]
  rw [List.drop_left' hp, List.take_left' hl]

theorem WordsFrom.visible : ∀ {k : Nat} {rs : List RegL}, WordsFrom k rs → ∀ r ∈ rs, r.hidden = false
  | _, [], _ => by simp
  | k, r :: rs, h => by
    intro x hx
    rcases List.mem_cons.1 hx with rfl | hx
    · exact h.2.2.2.1
    · exact WordsFrom.visible h.2.2.2.2 x hx

/-- once the parsing has ended, nothing changes any more -/
theorem parseAux_stopped : ∀ (rs : List RegL) (cur : Vals) (b : Bytes), (∀ r ∈ rs, r.hidden = false) →
    parseAux rs cur b true = cur := by
  intro rs
  induction rs with
  | nil => intro cur b _; cases cur <;> simp [parseAux]
  | cons r rs ih =>
    intro cur b h
    cases cur with
    | nil => simp [parseAux]
    | cons c cs =>
      simp [parseAux, h r (by simp), ih cs b (fun x hx => h x (by simp [hx]))]

/-- parsing the bytes of `done ++ ws` into registers starting at word `done.length`: the registers that have a word get it,
    the parsing ends at the first register without one and the rest keeps `cur` -/
theorem parseAux_words : ∀ (rs : List RegL) (done ws cur : List Nat),
    WordsFrom done.length rs → (∀ w ∈ ws, w < 2 ^ 32) → rs.length = cur.length →
    parseAux rs cur (owBytes (done ++ ws)) false = ws.take rs.length ++ cur.drop (min ws.length rs.length) := by
  intro rs
  induction rs with
  | nil => intro done ws cur _ _ hl; cases cur with | nil => simp [parseAux] | cons _ _ => simp at hl
  | cons r rs ih =>
    intro done ws cur hw hb hl
    cases cur with
    | nil => simp at hl
    | cons c cs =>
      have hvis := WordsFrom.visible hw
      obtain ⟨ho, hwd, hcov, hh, hrest⟩ := hw
      have hbytes : r.bytes = 4 := by simp [RegL.bytes, hwd]
      have hstop : r.stop = 4 * done.length + 4 := by simp [RegL.stop, ho, hbytes]
      simp only [parseAux, hh]
      cases ws with
      | nil =>
        have hlen : (owBytes (done ++ [])).length < r.stop := by rw [owBytes_length]; simp; omega
        simp only [Bool.false_eq_true, if_false, Bool.false_or, decide_eq_true_eq, hlen, if_true]
        rw [parseAux_stopped rs cs _ (fun x hx => hvis x (by simp [hx]))]
        simp
      | cons w ws =>
        have hlen : ¬ (owBytes (done ++ w :: ws)).length < r.stop := by
          rw [owBytes_length]; simp; omega
        have hw32 : w < 2 ^ 32 := hb w (by simp)
        have hdec : leDec (slice (owBytes (done ++ w :: ws)) r.off r.bytes) % 2 ^ r.cov = w := by
          rw [ho, hbytes, slice_owBytes, hcov, leDec_leEnc 4 w (by omega)]
          exact Nat.mod_eq_of_lt hw32
        simp only [Bool.false_eq_true, if_false, Bool.false_or, decide_eq_true_eq, hlen, hdec]
        have e : done ++ w :: ws = (done ++ [w]) ++ ws := by simp
        rw [e, ih (done ++ [w]) ws cs (by simpa using hrest) (fun x hx => hb x (by simp [hx])) (by simpa using hl)]
        simp [Nat.succ_min_succ]

theorem owCount_congr (rule fi ud : Nat) (l : Layout) (vals vals' : Vals) (h : vals.getD 0 0 = vals'.getD 0 0) :
    owCount [rule, 0, fi, ud] l vals = owCount [rule, 0, fi, ud] l vals' := by
  simp only [owCount, h]

theorem owCount_pos (rule fi ud : Nat) (l : Layout) (vals : Vals) (n : Nat) (hne : l.regs ≠ [])
    (h : owCount [rule, 0, fi, ud] l vals = .ok n) : 1 ≤ n := by
  have hL : 1 ≤ l.regs.length := by cases hr : l.regs with | nil => exact absurd hr hne | cons _ _ => simp
  simp only [owCount] at h
  split at h
  · cases h; exact hL
  · split at h
    · cases h
    · split at h
      · cases h
      · split at h
        · cases h; omega
        · split at h
          · cases h; split <;> omega
          · cases h

theorem stateOK_words : ∀ {rs : List RegL} {vs : Vals} {k : Nat}, WordsFrom k rs → RV (fun r v => v < 2 ^ r.width) rs vs →
    ∀ w ∈ vs, w < 2 ^ 32 := by
  intro rs vs k hw h
  induction h generalizing k with
  | nil => simp
  | @cons r v rs vs hv _ ih =>
    intro w hwm
    rcases List.mem_cons.1 hwm with rfl | hwm
    · rw [hw.2.1] at hv; exact hv
    · exact ih hw.2.2.2.2 w hwm

theorem wordsFromB_sound : ∀ (k : Nat) (rs : List RegL), wordsFromB k rs = true → WordsFrom k rs
  | _, [], _ => trivial
  | k, r :: rs, h => by
    simp only [wordsFromB, Bool.and_eq_true, beq_iff_eq, Bool.not_eq_true'] at h
    exact ⟨h.1.1.1.1, h.1.1.1.2, h.1.1.2, h.1.2, wordsFromB_sound (k + 1) rs h.2⟩


/-! ## `find_reg` by name -/

theorem findRegB_sound (d : LayoutD) (h : findRegB d = true) (i j : Nat) (r r' : RegD)
    (hi : d.regs[i]? = some r) (hj : d.regs[j]? = some r') (hm : r'.name = r.name ∨ r'.uid = r.name) : j = i := by
  simp only [findRegB, Bool.and_eq_true, beq_iff_eq, Bool.not_eq_true', List.contains_eq_mem, decide_eq_false_iff_not] at h
  obtain ⟨⟨hnd, hne⟩, hand⟩ := h
  have hnodup := nodupFastB_sound _ hnd
  have hri : r ∈ d.regs := List.mem_of_getElem? hi
  have hrj : r' ∈ d.regs := List.mem_of_getElem? hj
  have same : r'.name = r.name → j = i := by
    intro hn
    obtain ⟨hi', hie⟩ := List.getElem?_eq_some_iff.1 hi
    obtain ⟨hj', hje⟩ := List.getElem?_eq_some_iff.1 hj
    have h1 : (d.regs.map (·.name))[i]'(by simpa using hi') = r.name := by simp [hie]
    have h2 : (d.regs.map (·.name))[j]'(by simpa using hj') = r'.name := by simp [hje]
    exact (List.getElem_inj hnodup).1 (by rw [h2, h1, hn])
  rcases hm with hn | hu
  · exact same hn
  · by_cases hs : r'.uid = r'.name
    · exact same (by rw [← hs, hu])
    · exfalso
      have hne' : r'.uid ≠ d.emptyName := by
        intro he; apply hne; rw [← he, hu]; exact List.mem_map.2 ⟨r, hri, rfl⟩
      have hin : r'.uid ∈ otherUids d := by
        simp only [otherUids, List.mem_map, List.mem_filter, Bool.and_eq_true, bne_iff_ne, ne_eq]
        exact ⟨r', ⟨hrj, hs, hne'⟩, rfl⟩
      have hb1 : (orPow (d.regs.map (·.name))).testBit r.name = true := by
        rw [testBit_orPow]; simpa using List.mem_map.2 ⟨r, hri, rfl⟩
      have hb2 : (orPow (otherUids d)).testBit r.name = true := by
        rw [testBit_orPow, ← hu]; simpa using hin
      have : (orPow (d.regs.map (·.name)) &&& orPow (otherUids d)).testBit r.name = true := by
        rw [Nat.testBit_and, hb1, hb2]; rfl
      rw [hand] at this
      simp at this


end SpsdkVerif.CfgArea
