/-
C18 (phase 2) — a GENERIC sequential semantics of the generated program listings, independent of the
hand-written `pstep`: the items of a function are executed in source order; an item runs iff every branch
condition on its `path` has been activated (by an `exists` / `fpcompare` / `merge_compare` item that ran before,
or by an exception that reached that `handler`); an action that raises `e` looks through its `caught` lists
(innermost first), skips the rest of that `try` body and activates the handler.  Each action has its obvious
meaning on the file (`exists`, `open_r`, `load`, `remove`, `open_w`, `dump`, `replace`) and on the local
variables (`typecheck`, `clear_loaded`, `use_loaded`, `return_loaded`, `set_fp`, `clear_fp`, `merge`).

`Properties/C18.lean` evaluates this semantics on the GENERATED listings and the model (`runSeq`/`pstep` with the
GENERATED guards) on every class of initial cache file and decides that both give the same sequence of observable
actions, the same final file, the same answers, the same fatal/non-fatal outcome — so the hand transcription and the
regenerated program text agree semantically (for one process run alone), not only textually.
The listings are in the generator's normal form (conditions that are not cache conditions and merely guard a bail-out —
`SPSDK_CACHE_DISABLED`, "fingerprint unchanged" — do not appear; an `if`/`else` tag that remains is never activated, so such a
program disagrees with the model and is reported).  An exception caught by an OUTER `try` (none in the source) is `unsupported`.
-/
import SpsdkVerif.Proofs.DbCacheCodec
import SpsdkVerif.Proofs.DbCacheProgram

namespace SpsdkVerif.DbCache.ListingSem
open SpsdkVerif

inductive Fn where
  | quick | loader | writer
  deriving DecidableEq, Repr

structure LS where
  file : Option Bytes
  buf : Bytes := []
  loaded : Option Val := none
  mem : List (Nat × Nat) := []
  selfFp : Option Nat := none
  toTmp : Bool := false
  active : List (List String) := []
  /-- exception being handled: (path of the raising item, depth of the handler, raised inside `with FileLock`) -/
  pending : Option (List String × Nat × Bool) := none
  trace : List String := []
  fatal : Option Exc := none
  returned : Bool := false
  unsupported : Bool := false
  deriving DecidableEq, Repr

def prefixes (p : List String) : List (List String) := (List.range p.length).map (fun i => p.take (i + 1))

def pathActive (st : LS) (p : List String) : Bool := (prefixes p).all (fun q => st.active.contains q)

/-- `item` is (inside) the handler of a `try` that encloses the item that raised at path `rp` -/
def handlerRoot (rp : List String) (item : ProgItem) : Option (List String) :=
  (List.range item.path.length).findSome? (fun p =>
    if item.path[p]? == some "handler" && (item.path.take p).isPrefixOf rp && !((item.path.take (p + 1)).isPrefixOf rp)
    then some (item.path.take (p + 1)) else none)

def raise (st : LS) (item : ProgItem) (e : Exc) : LS :=
  match item.caught.findIdx? (fun cs => Exc.caughtBy cs e) with
  | none => { st with fatal := some e, returned := true }
  | some 0 => { st with pending := some (item.path, item.caught.length - 1, item.inLock) }
  | some _ => { st with unsupported := true, returned := true }

def obs (st : LS) (a : String) : LS := { st with trace := st.trace ++ [a] }

/-- the meaning of one action -/
def exec (env : Env) (fn : Fn) (st : LS) (item : ProgItem) : LS :=
  let branch (st : LS) (yes : Bool) (t f : String) : LS :=
    { st with active := (item.path ++ [if yes then t else f]) :: st.active.filter (fun q => q != item.path ++ [t] && q != item.path ++ [f]) }
  match item.act with
  | "exists" => branch (obs st "exists") st.file.isSome "exists" "!exists"
  | "exists_dir" => branch st true "exists_dir" "!exists_dir"
  | "makedirs" => st
  | "acquire" => obs st "acquire"
  | "release" => obs st "release"
  | "open_r" =>
    (match st.file with
     | none => raise (obs st "open_r") item .FileNotFoundError
     | some b => { obs st "open_r" with buf := b })
  | "load" =>
    (match env.unpickle st.buf with
     | .ok v => { obs st "load" with loaded := some v }
     | .raises e => raise (obs st "load") item e)
  | "typecheck" =>
    (match st.loaded, item.exc with
     | some v, e :: _ => if v.ty != env.expectedTy then raise st item e else st
     | _, _ => st)
  | "fpcompare" =>
    (match st.loaded with
     | some v => branch st (env.fpOf (keys v.ents) == v.fp) "match" "mismatch"
     | none => st)
  | "clear_loaded" => { st with loaded := none }
  | "use_loaded" => if fn == .loader && st.mem.isEmpty then { st with mem := (st.loaded.map (·.ents)).getD [] } else st
  | "return_loaded" => { st with mem := (st.loaded.map (·.ents)).getD [], selfFp := st.loaded.map (·.fp), returned := true }
  | "return" => { st with returned := true }
  | "remove" =>
    (match st.file with
     | none => raise (obs st "remove") item .FileNotFoundError
     | some _ => { obs st "remove" with file := none })
  | "set_fp" =>
    (match fn with
     | .loader => { st with selfFp := st.loaded.map (·.fp) }                  -- `self.db_hash = db_hash` (= the stored one: they match)
     | .quick =>                                                              -- the full load has happened; its fingerprint
       let mem := if (st.mem.lookup 0).isSome then st.mem else st.mem ++ [(0, env.loadCfg 0)]
       { st with mem := mem, selfFp := some (env.fpOf (keys mem)) }
     | .writer => { st with selfFp := some (env.fpOf (keys st.mem)) })
  | "clear_fp" => { st with selfFp := none }
  | "merge_compare" =>
    (match st.loaded with
     | some v => branch st (some v.fp != st.selfFp) "differs" "same"
     | none => st)
  | "merge" =>
    (match st.loaded with
     | some v => { st with mem := st.mem ++ v.ents.filter (fun e => (st.mem.lookup e.1).isNone) }
     | none => st)
  | "open_w" => { obs st "open_w" with file := some [] }
  | "open_tmp" => { obs st "open_w" with toTmp := true }
  | "dump" =>
    let data := env.pickle { ty := env.expectedTy, fp := st.selfFp.getD 0, ents := st.mem }
    if st.toTmp then { obs st "dump" with buf := data } else { obs st "dump" with file := some data }
  | "replace" => { st with file := some st.buf, toTmp := false }
  | _ => { st with unsupported := true, returned := true }

/-- leaving a `with FileLock` block by an exception releases the lock: visible as soon as control is outside -/
def unwind (st : LS) (rel : Bool) (item : ProgItem) : LS :=
  if rel && !item.inLock then obs { st with pending := none } "release" else { st with pending := none }

def step (env : Env) (fn : Fn) (st : LS) (item : ProgItem) : LS :=
  if st.returned then st
  else match st.pending with
    | some (rp, d, rel) =>
      (match handlerRoot rp item with
       | some root =>
         if item.caught.length ≥ d then
           let st := unwind st rel item
           let st := { st with active := root :: st.active }
           if pathActive st item.path then exec env fn st item else st
         else st
       | none =>
         if item.caught.length > d then st            -- still inside the `try` body that was left
         else
           let st := unwind st rel item                  -- the handler had no cache action
           if pathActive st item.path then exec env fn st item else st)
    | none => if pathActive st item.path then exec env fn st item else st

/-- run one function -/
def runFn (env : Env) (fn : Fn) (items : List ProgItem) (st : LS) : LS :=
  let st0 : LS := { st with active := [], pending := none, returned := false,
                            loaded := if fn == .writer then none else st.loaded, buf := [], toTmp := false }
  let st1 := items.foldl (step env fn) st0
  match st1.pending with
  | some (_, _, true) => obs { st1 with pending := none } "release"
  | _ => { st1 with pending := none }

/-- what is compared: observable actions, final file, answers, fatal?, unsupported? -/
structure RunResult where
  trace : List String
  file : Option Bytes
  answers : List (Nat × Nat)
  fatal : Option Exc
  unsupported : Bool
  deriving DecidableEq, Repr

/-- quick-info cache: one function, one query (key 0) -/
def runQuick (env : Env) (prog : List ProgItem) (f0 : Option Bytes) : RunResult :=
  let st := runFn env .quick prog { file := f0 }
  { trace := st.trace, file := st.file, fatal := st.fatal, unsupported := st.unsupported,
    answers := if st.fatal.isSome then [] else [(0, (st.mem.lookup 0).getD (env.loadCfg 0))] }

/-- config cache: the loader function, then `load_db_cfg_file` for every query: a miss loads the file and calls the writer
    function unless the fingerprint is unchanged -/
def runConfigQueries (env : Env) (writer : List ProgItem) : List Nat → LS → List (Nat × Nat) → LS × List (Nat × Nat)
  | [], st, ans => (st, ans)
  | k :: rest, st, ans =>
    if st.fatal.isSome then (st, ans) else
    match st.mem.lookup k with
    | some c => runConfigQueries env writer rest st (ans ++ [(k, c)])
    | none =>
      let c := env.loadCfg k
      let mem := st.mem ++ [(k, c)]
      let st := { st with mem := mem }
      if st.selfFp = some (env.fpOf (keys mem)) then runConfigQueries env writer rest st (ans ++ [(k, c)])
      else runConfigQueries env writer rest (runFn env .writer writer st) (ans ++ [(k, c)])

def runConfig (env : Env) (loader writer : List ProgItem) (f0 : Option Bytes) (qs : List Nat) : RunResult :=
  let st := runFn env .loader loader { file := f0 }
  let (st, ans) := if st.fatal.isSome then (st, []) else runConfigQueries env writer qs st []
  { trace := st.trace, file := st.file, fatal := st.fatal, unsupported := st.unsupported,
    answers := if st.fatal.isSome then [] else ans }

/-! ### the model side: `pstep` run to completion, recording the action of every program counter -/

def modelRun (env : Env) (G : Guards) : Nat → Sh → Proc → List String → Sh × Proc × List String
  | 0, sh, p, tr => (sh, p, tr)
  | n + 1, sh, p, tr =>
    match pstep env G 0 sh p with
    | none => (sh, p, tr)
    | some (sh', p') => modelRun env G n sh' p' (tr ++ [p.pc.action])

def modelOutcome (env : Env) (G : Guards) (f0 : Option Bytes) (qs : List Nat) : RunResult :=
  let (sh, p, tr) := modelRun env G 400 { file := f0, lock := none } (initProc G qs) []
  let fatal := match p.pc with | .fatal e => some e | _ => none
  { trace := tr, file := sh.file, fatal := fatal, unsupported := false,
    answers := if fatal.isSome then [] else p.answers }

/-! ### the classes of initial cache files (with the computable codec of `Proofs/DbCacheCodec.lean`) -/

def env0 : Env := { Codec.codecEnv with loadCfg := fun k => k + 10, fpOf := fun ks => ks.foldl (fun a k => a + 2 * k + 1) 1, expectedTy := 1 }

def goodVal (ks : List Nat) : Val := { ty := env0.expectedTy, fp := env0.fpOf ks, ents := ks.map fun k => (k, env0.loadCfg k) }

/-- missing, empty, truncated, valid, stale (wrong fingerprint, wrong entries), wrong type, garbage -/
def initialFiles (ks : List Nat) : List (Option Bytes) :=
  [none, some [], some ((env0.pickle (goodVal ks)).take 3), some (env0.pickle (goodVal ks)),
   some (env0.pickle { ty := env0.expectedTy, fp := env0.fpOf ks + 1, ents := ks.map fun k => (k, env0.loadCfg k + 1) }),
   some (env0.pickle { ty := env0.expectedTy + 1, fp := 0, ents := [(0, 0)] }),
   some [9, 9]]

end SpsdkVerif.DbCache.ListingSem
