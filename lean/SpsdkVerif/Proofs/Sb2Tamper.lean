/-
C04 helper lemmas, tamper side at IMAGE level (phase 3): one changed byte anywhere in the boot-section area of a
complete SB 2.1 / SB 2.0 file is refused by the ROM model — or an HMAC forgery / hash collision is exhibited.
Built on the section-level reductions of Proofs/Sb2Section.lean (`readSection_header_tampered`,
`readSection_macs_tampered`, `readSection_body_tampered`) by induction over the section list.
-/
import SpsdkVerif.Proofs.Sb2Image

set_option linter.unusedSimpArgs false
set_option linter.unusedVariables false

namespace SpsdkVerif.Sb2
open SpsdkVerif SpsdkVerif.Sb2.Rom
open SpsdkVerif.Misc (Bytes beEnc beDec leEnc leDec)
open SpsdkVerif.Crypto (CryptoOps CryptoLaws Break xorBytes zeroPad16 zeros hmac kwWrap kwUnwrap)
open SpsdkVerif.Generated

variable {c : CryptoOps}

/-! ## `List.set` against concatenation -/

theorem set_ne_self (l : Bytes) (j : Nat) (v : UInt8) (hj : j < l.length) (hv : some v ≠ l[j]?) : l.set j v ≠ l := by
  intro e
  apply hv
  have h1 : (l.set j v)[j]? = some v := List.getElem?_set_self hj
  rw [e] at h1
  exact h1.symm

theorem set_mid' (x y z : Bytes) (j : Nat) (v : UInt8) (h1 : x.length ≤ j) (h2 : j < x.length + y.length) :
    (x ++ y ++ z).set j v = x ++ y.set (j - x.length) v ++ z := by
  rw [List.append_assoc, List.set_append, if_neg (by omega), List.set_append, if_pos (by omega), List.append_assoc]

/-- a byte set inside the window `[a, a+n)` of `l` -/
theorem set_mid (l : Bytes) (a n j : Nat) (v : UInt8) (h1 : a ≤ j) (h2 : j < a + n) (h3 : a + n ≤ l.length) :
    l.set j v = l.take a ++ ((l.drop a).take n).set (j - a) v ++ l.drop (a + n) := by
  have la : (l.take a).length = a := by rw [List.length_take]; omega
  have lm : ((l.drop a).take n).length = n := by rw [List.length_take, List.length_drop]; omega
  have e : l = l.take a ++ (l.drop a).take n ++ l.drop (a + n) := by
    rw [List.append_assoc, ← List.drop_drop, List.take_append_drop, List.take_append_drop]
  have := set_mid' (l.take a) ((l.drop a).take n) (l.drop (a + n)) j v (by omega) (by omega)
  rw [← e, la] at this
  exact this

theorem set_tail (l : Bytes) (a j : Nat) (v : UInt8) (h1 : a ≤ j) (h3 : a ≤ l.length) :
    l.set j v = l.take a ++ (l.drop a).set (j - a) v := by
  have la : (l.take a).length = a := by rw [List.length_take]; omega
  have : (l.take a ++ l.drop a).set j v = _ := List.set_append
  rw [List.take_append_drop, la, if_neg (by omega)] at this
  exact this

/-! ## one section, one byte -/

theorem readSection_byte_tampered (h : CryptoLaws c) (dek mac nonce pre post : Bytes) (s : Section)
    (wf : Spec.WFsection s) (hpre : pre.length % 16 = 0) (j : Nat) (v : UInt8) (hj : j < Spec.sectionLen s)
    (hv : some v ≠ (buildSection c dek mac nonce (nonceCtr nonce + pre.length / 16) s)[j]?) :
    (∃ e, Rom.readSection c dek mac nonce
        (pre ++ (buildSection c dek mac nonce (nonceCtr nonce + pre.length / 16) s).set j v ++ post) pre.length
          = .error e) ∨ Break c := by
  have hl0 : (buildSection c dek mac nonce (nonceCtr nonce + pre.length / 16) s).length = Spec.sectionLen s :=
    buildSectionWith_length h _ _ _ _ _ s wf
  have hlen : Spec.sectionLen s = 16 + 32 + 32 * Spec.macCount s + Spec.cmdsLen s.cmds := rfl
  have k1 := readSection_header_tampered h dek mac nonce pre post s wf hpre
  have k2 := readSection_macs_tampered h dek mac nonce pre post s wf hpre
  have k3 := readSection_body_tampered h dek mac nonce pre post s wf hpre
  generalize hb : buildSection c dek mac nonce (nonceCtr nonce + pre.length / 16) s = b at *
  by_cases c1 : j < 16
  · have e := set_mid b 0 16 j v (by omega) (by omega) (by omega)
    simp only [List.take_zero, List.nil_append, List.drop_zero, Nat.sub_zero, Nat.zero_add] at e
    have hne : (b.take 16).set j v ≠ b.take 16 :=
      set_ne_self _ _ _ (by rw [List.length_take]; omega) (by simpa [List.getElem?_take, c1] using hv)
    rcases k1 ((b.take 16).set j v) (by rw [List.length_set, List.length_take]; omega) hne with k | k
    · left; rw [e]; exact ⟨_, by simpa [List.append_assoc] using k⟩
    · exact Or.inr k
  · by_cases c2 : j < 48 + 32 * Spec.macCount s
    · have e := set_mid b 16 (32 + 32 * Spec.macCount s) j v (by omega) (by omega) (by omega)
      have hne : ((b.drop 16).take (32 + 32 * Spec.macCount s)).set (j - 16) v ≠ (b.drop 16).take (32 + 32 * Spec.macCount s) :=
        set_ne_self _ _ _ (by rw [List.length_take, List.length_drop]; omega)
          (by simpa [List.getElem?_take, List.getElem?_drop, show j - 16 < 32 + 32 * Spec.macCount s by omega,
                show 16 + (j - 16) = j by omega] using hv)
      have k := k2 (((b.drop 16).take (32 + 32 * Spec.macCount s)).set (j - 16) v)
        (by rw [List.length_set, List.length_take, List.length_drop]; omega) hne
      left; rw [e, show 16 + (32 + 32 * Spec.macCount s) = 48 + 32 * Spec.macCount s by omega]
      exact ⟨_, by simpa [List.append_assoc] using k⟩
    · have e := set_tail b (48 + 32 * Spec.macCount s) j v (by omega) (by omega)
      have hne : (b.drop (48 + 32 * Spec.macCount s)).set (j - (48 + 32 * Spec.macCount s)) v ≠ b.drop (48 + 32 * Spec.macCount s) :=
        set_ne_self _ _ _ (by rw [List.length_drop]; omega)
          (by simpa [List.getElem?_drop, show 48 + 32 * Spec.macCount s + (j - (48 + 32 * Spec.macCount s)) = j by omega] using hv)
      rcases k3 ((b.drop (48 + 32 * Spec.macCount s)).set (j - (48 + 32 * Spec.macCount s)) v)
        (by rw [List.length_set, List.length_drop]; omega) hne with k | k
      · left; rw [e]; exact ⟨_, by simpa [List.append_assoc] using k⟩
      · exact Or.inr k

/-! ## a list of sections, one byte -/

theorem readSections_byte_tampered (h : CryptoLaws c) (dek mac nonce post : Bytes) (ss : List Section)
    (wf : ∀ s ∈ ss, Spec.WFsection s) (pre : Bytes) (hpre : pre.length % 16 = 0) (fuel : Nat) (hf : ss.length ≤ fuel)
    (j : Nat) (v : UInt8) (hj : j < Spec.sectionsLen ss)
    (hv : some v ≠ (buildSections c dek mac nonce (nonceCtr nonce + pre.length / 16) ss)[j]?) :
    (∃ e, Rom.readSections c dek mac nonce
        (pre ++ (buildSections c dek mac nonce (nonceCtr nonce + pre.length / 16) ss).set j v ++ post)
        (pre.length + Spec.sectionsLen ss) fuel pre.length = .error e) ∨ Break c := by
  induction ss generalizing pre fuel j with
  | nil => simp [Spec.sectionsLen] at hj
  | cons s rest ih =>
    have wfs := wf s (by simp)
    have ⟨_, r2, r3⟩ := rawSize_eq_sectionLen s wfs
    cases fuel with
    | zero => simp at hf
    | succ f =>
      have hsl : Spec.sectionsLen (s :: rest) = Spec.sectionLen s + Spec.sectionsLen rest := by
        simp [Spec.sectionsLen]
      have hl0 : (buildSection c dek mac nonce (nonceCtr nonce + pre.length / 16) s).length = Spec.sectionLen s :=
        buildSectionWith_length h _ _ _ _ _ s wfs
      have hB : buildSections c dek mac nonce (nonceCtr nonce + pre.length / 16) (s :: rest)
          = buildSection c dek mac nonce (nonceCtr nonce + pre.length / 16) s ++
            buildSections c dek mac nonce
              (nonceCtr nonce + (pre ++ buildSection c dek mac nonce (nonceCtr nonce + pre.length / 16) s).length / 16) rest := by
        have : (pre ++ buildSection c dek mac nonce (nonceCtr nonce + pre.length / 16) s).length / 16
            = pre.length / 16 + (buildSection c dek mac nonce (nonceCtr nonce + pre.length / 16) s).length / 16 := by
          simp; omega
        simp only [buildSections, this, Nat.add_assoc]
      have ktamper := fun post' => readSection_byte_tampered h dek mac nonce pre post' s wfs hpre
      have kgood := fun post' => readSection_buildSection h dek mac nonce pre post' s wfs hpre
      rw [hB] at hv ⊢
      generalize hb : buildSection c dek mac nonce (nonceCtr nonce + pre.length / 16) s = b at *
      have hstop : pre.length + Spec.sectionsLen (s :: rest) = (pre ++ b).length + Spec.sectionsLen rest := by
        simp [hsl, hl0]; omega
      have hnext : pre.length + Spec.sectionLen s = (pre ++ b).length := by simp [hl0]
      by_cases cj : j < b.length
      · rw [List.set_append, if_pos cj]
        have hv' : some v ≠ b[j]? := by rwa [List.getElem?_append_left cj] at hv
        rcases ktamper (buildSections c dek mac nonce (nonceCtr nonce + (pre ++ b).length / 16) rest ++ post)
            j v (by omega) hv' with ⟨e, ke⟩ | kb
        · left; refine ⟨e, ?_⟩
          unfold Rom.readSections
          rw [if_neg (by omega), if_neg (by omega)]
          rw [show pre ++ (b.set j v ++ buildSections c dek mac nonce (nonceCtr nonce + (pre ++ b).length / 16) rest) ++ post
              = pre ++ b.set j v ++ (buildSections c dek mac nonce (nonceCtr nonce + (pre ++ b).length / 16) rest ++ post) by
            simp only [List.append_assoc]]
          rw [ke]
        · exact Or.inr kb
      · rw [List.set_append, if_neg cj]
        have hv' : some v ≠ (buildSections c dek mac nonce (nonceCtr nonce + (pre ++ b).length / 16) rest)[j - b.length]? := by
          rwa [List.getElem?_append_right (by omega)] at hv
        have hrs := kgood
          ((buildSections c dek mac nonce (nonceCtr nonce + (pre ++ b).length / 16) rest).set (j - b.length) v ++ post)
        rcases ih (fun x hx => wf x (by simp [hx])) (pre ++ b) (by simp; omega) f (by simpa using hf) (j - b.length)
            (by omega) hv' with ⟨e, ke⟩ | kb
        · left; refine ⟨e, ?_⟩
          unfold Rom.readSections
          rw [if_neg (by omega), if_neg (by omega)]
          rw [show pre ++ (b ++ (buildSections c dek mac nonce (nonceCtr nonce + (pre ++ b).length / 16) rest).set (j - b.length) v) ++ post
              = pre ++ b ++ ((buildSections c dek mac nonce (nonceCtr nonce + (pre ++ b).length / 16) rest).set (j - b.length) v ++ post) by
            simp only [List.append_assoc]]
          rw [hrs]
          simp only []
          rw [hstop, hnext, ← List.append_assoc, ke]
        · exact Or.inr kb

/-! ## SB 2.1 image: everything in front of the boot sections unchanged, anything behind it -/

/-- start of the boot sections in a V2.1 file -/
def start21 (cfg : Cfg) : Nat := 208 + cfg.certBlock.length + shaLen21 cfg + cfg.signature.length

/-- what the ROM reads in front of the sections does not depend on the section bytes `B` -/
theorem v21_front (h : CryptoLaws c) (cfg : Cfg) (wf : Spec.WF21 cfg) (B : Bytes) :
    (cfg.signed21 c ++ cfg.signature).length = start21 cfg ∧
    Rom.slice (cfg.signed21 c ++ cfg.signature ++ B) 128 72 = kwWrap c cfg.kek (cfg.dek ++ cfg.mac) ∧
    Rom.certBlockLen (cfg.signed21 c ++ cfg.signature ++ B) 208 = .ok cfg.certBlock.length ∧
    Rom.readImageHdr (cfg.signed21 c ++ cfg.signature ++ B) = .ok (hd21 cfg) := by
  have ⟨hok, hrom⟩ := header21_facts cfg wf
  obtain ⟨wdek, wmac, wnonce, wpad, wts, wpv, wcv, wbn, wfl, wsg, wcert, wsig, wne, wsec, wlen, wmc⟩ := wf
  have ⟨lkw, lkb, ekb⟩ := keyBlob_eq h cfg.kek cfg.dek cfg.mac wdek wmac
  have lH : (encodeImageHdr cfg.header21).length = 96 := encodeImageHdr_length _ wnonce wpad
  have lsha : (if cfg.shaPresent then c.hash .sha256 (cfg.bsData21 c) else []).length = shaLen21 cfg := by
    unfold shaLen21
    by_cases hs : cfg.flags / 0x8000 % 2 = 1
    · rw [if_pos ((shaPresent_iff cfg).2 hs), if_pos hs, h.hash_len]; rfl
    · rw [if_neg (by rw [shaPresent_iff]; exact hs), if_neg hs]; rfl
  have hfile : cfg.signed21 c ++ cfg.signature ++ B = encodeImageHdr cfg.header21 ++
      hmac256 c cfg.mac (((cfg.bsData21 c).drop 16).take ((cfg.sections.head?.map Section.effHmacCount).getD 0 * 32 + 32)) ++
      keyBlob c cfg.kek cfg.dek cfg.mac ++ cfg.certBlock ++
      (if cfg.shaPresent then c.hash .sha256 (cfg.bsData21 c) else []) ++ cfg.signature ++ B := rfl
  have hP : (cfg.signed21 c ++ cfg.signature).length = start21 cfg := by
    have : cfg.signed21 c ++ cfg.signature = encodeImageHdr cfg.header21 ++
      hmac256 c cfg.mac (((cfg.bsData21 c).drop 16).take ((cfg.sections.head?.map Section.effHmacCount).getD 0 * 32 + 32)) ++
      keyBlob c cfg.kek cfg.dek cfg.mac ++ cfg.certBlock ++
      (if cfg.shaPresent then c.hash .sha256 (cfg.bsData21 c) else []) ++ cfg.signature := rfl
    rw [this]
    simp only [List.length_append, lH, hmac256_length h, lkb, lsha, start21]
  obtain ⟨p1, p2, p3, p4, p5, p6, p7, p8, p9, p10⟩ := parts7 _ _ _ cfg.certBlock
    (if cfg.shaPresent then c.hash .sha256 (cfg.bsData21 c) else []) cfg.signature B
    lH (hmac256_length h _ _) lkb
  rw [← hfile] at p1 p2 p3 p4 p5 p6 p7 p8 p9 p10
  refine ⟨hP, ?_, ?_, ?_⟩
  · have : Rom.slice (cfg.signed21 c ++ cfg.signature ++ B) 128 72
        = (Rom.slice (cfg.signed21 c ++ cfg.signature ++ B) 128 80).take 72 := by
      simp [Rom.slice, List.take_take]
    rw [this, p4, ekb, List.take_left' lkw]
  · rw [hfile]
    simp only [List.append_assoc]
    rw [← List.append_assoc, ← List.append_assoc, ← List.append_assoc]
    exact certBlockLen_embed _ _ _ wcert 208 (by simp only [List.length_append, lH, hmac256_length h, lkb])
  · rw [hfile]
    simp only [List.append_assoc]
    rw [readImageHdr_encode _ hok, hrom]

/-- if the section reader refuses, the ROM refuses (nothing in front of the sections was touched) -/
theorem romV21_of_sections_error (h : CryptoLaws c) (cfg : Cfg) (wf : Spec.WF21 cfg) (B : Bytes)
    (lB : B.length = Spec.sectionsLen cfg.sections)
    (hrs : ∃ e, Rom.readSections c cfg.dek cfg.mac cfg.nonce (cfg.signed21 c ++ cfg.signature ++ B)
        (cfg.signed21 c ++ cfg.signature ++ B).length ((cfg.signed21 c ++ cfg.signature ++ B).length / 16 + 1) (start21 cfg)
          = .error e) :
    ∃ e, Rom.romV21 c cfg.kek (cfg.signed21 c ++ cfg.signature ++ B) = .error e := by
  obtain ⟨hP, f8, f14, f15⟩ := v21_front h cfg wf B
  have bsMod := (buildSections_length h cfg.dek cfg.mac cfg.nonce cfg.sections wf.2.2.2.2.2.2.2.2.2.2.2.2.2.1 0).2
  have certMod := certBlockOk_mod _ wf.2.2.2.2.2.2.2.2.2.2.1
  obtain ⟨wdek, wmac, wnonce, wpad, wts, wpv, wcv, wbn, wfl, wsg, wcert, wsig, wne, wsec, wlen, wmc⟩ := wf
  have f1 : (cfg.signed21 c ++ cfg.signature ++ B).length = start21 cfg + Spec.sectionsLen cfg.sections := by
    rw [List.length_append, hP, lB]
  unfold start21 at f1 hrs
  have hstop : Spec.fileLen21 cfg / 16 * 16 = (cfg.signed21 c ++ cfg.signature ++ B).length := by
    rw [f1, fileLen21_sha]; have := shaLen21_cases cfg; omega
  have hstart : (208 + cfg.certBlock.length + shaLen21 cfg + cfg.signature.length) / 16 * 16
      = 208 + cfg.certBlock.length + shaLen21 cfg + cfg.signature.length := by
    have := shaLen21_cases cfg; omega
  generalize hfile : cfg.signed21 c ++ cfg.signature ++ B = file at *
  generalize hhd : hd21 cfg = hd at f15
  have ⟨g1, g2, g3, g4, g5, g6, g7, g8, g9, g10, g11⟩ : hd.major = 2 ∧ hd.minor = 1 ∧ hd.flags = cfg.flags ∧
      hd.headerBlocks = 6 ∧ hd.offsetToCert = 208 ∧ hd.keyBlobBlock = 8 ∧ hd.keyBlobBlockCount = 5 ∧
      hd.firstBootTagBlock = (208 + cfg.certBlock.length + shaLen21 cfg + cfg.signature.length) / 16 ∧
      hd.imageBlocks = Spec.fileLen21 cfg / 16 ∧ hd.nonce = cfg.nonce ∧
      hd.firstBootSectionId = (cfg.sections.head?.map (·.uid)).getD 0 := by
    subst hhd; exact ⟨rfl, rfl, rfl, rfl, rfl, rfl, rfl, rfl, rfl, rfl, rfl⟩
  obtain ⟨e, he⟩ := hrs
  unfold Rom.romV21
  rw [f15]
  simp only [g1, g2, g3, g4, g5, g6, g7, g8, g9, g10, g11, Spec.flagSigned, Spec.imageHeaderSize, Spec.flagSha,
    Spec.shaSize, Spec.macSize, flags_sha_iff, ← shaLen21.eq_1, hstart, hstop]
  rw [if_neg (by omega), if_neg ((flags_signed_iff cfg.flags).2 wsg), if_neg (by omega)]
  rw [readKeys_ok h cfg.kek cfg.dek cfg.mac file hd g6 g7 (by omega) f8 wdek wmac]
  simp only []
  rw [f14]
  simp only []
  rw [if_neg (by omega)]
  split
  · exact ⟨_, rfl⟩
  · rw [he]; exact ⟨_, rfl⟩

/-- SB 2.1: ONE changed byte anywhere in the boot-section area (encrypted section headers, their MACs, MAC tables,
    encrypted command streams — of any section) is refused by the ROM model, or an HMAC forgery is exhibited -/
theorem romV21_section_byte_tampered (h : CryptoLaws c) (cfg : Cfg) (wf : Spec.WF21 cfg) (i : Nat) (v : UInt8)
    (hi1 : start21 cfg ≤ i) (hi2 : i < (buildV21 c cfg).length) (hv : some v ≠ (buildV21 c cfg)[i]?) :
    (∃ e, Rom.romV21 c cfg.kek ((buildV21 c cfg).set i v) = .error e) ∨ Break c := by
  obtain ⟨hP, -, -, -⟩ := v21_front h cfg wf []
  have wsec := wf.2.2.2.2.2.2.2.2.2.2.2.2.2.1
  have certMod := certBlockOk_mod _ wf.2.2.2.2.2.2.2.2.2.2.1
  have wsig := wf.2.2.2.2.2.2.2.2.2.2.2.1
  have hbsO : cfg.bsOffset21 = start21 cfg := bsOffset21_eq cfg
  have hfile : buildV21 c cfg = cfg.signed21 c ++ cfg.signature ++ cfg.bsData21 c := rfl
  have hbsd : cfg.bsData21 c = buildSections c cfg.dek cfg.mac cfg.nonce
      (nonceCtr cfg.nonce + (cfg.signed21 c ++ cfg.signature).length / 16) cfg.sections := by
    unfold Cfg.bsData21; rw [hbsO, hP]
  have ⟨lbs, lbs16⟩ := buildSections_length h cfg.dek cfg.mac cfg.nonce cfg.sections wsec
    (nonceCtr cfg.nonce + (cfg.signed21 c ++ cfg.signature).length / 16)
  rw [hfile, hbsd] at hi2 hv ⊢
  rw [List.length_append, lbs, hP] at hi2
  have hidx : i - (cfg.signed21 c ++ cfg.signature).length = i - start21 cfg := by rw [hP]
  rw [List.set_append, if_neg (by rw [hP]; omega), hidx]
  rw [List.getElem?_append_right (by rw [hP]; omega), hidx] at hv
  have hmod : (cfg.signed21 c ++ cfg.signature).length % 16 = 0 := by
    rw [hP]; unfold start21; have := shaLen21_cases cfg; omega
  have hlen : ∀ B : Bytes, B.length = Spec.sectionsLen cfg.sections →
      (cfg.signed21 c ++ cfg.signature ++ B).length = start21 cfg + Spec.sectionsLen cfg.sections := by
    intro B lB; rw [List.length_append, hP, lB]
  have hfuel : cfg.sections.length ≤ (start21 cfg + Spec.sectionsLen cfg.sections) / 16 + 1 := by
    have := sections_length_le cfg.sections wsec; omega
  rcases readSections_byte_tampered h cfg.dek cfg.mac cfg.nonce [] cfg.sections wsec (cfg.signed21 c ++ cfg.signature)
      hmod ((start21 cfg + Spec.sectionsLen cfg.sections) / 16 + 1) hfuel (i - start21 cfg) v (by omega) hv with ⟨e, ke⟩ | kb
  · left
    rw [List.append_nil] at ke
    rw [show (cfg.signed21 c ++ cfg.signature).length + Spec.sectionsLen cfg.sections
          = start21 cfg + Spec.sectionsLen cfg.sections by rw [hP]] at ke
    rw [show Rom.readSections c cfg.dek cfg.mac cfg.nonce
            (cfg.signed21 c ++ cfg.signature ++ (buildSections c cfg.dek cfg.mac cfg.nonce
              (nonceCtr cfg.nonce + (cfg.signed21 c ++ cfg.signature).length / 16) cfg.sections).set (i - start21 cfg) v)
            (start21 cfg + Spec.sectionsLen cfg.sections) ((start21 cfg + Spec.sectionsLen cfg.sections) / 16 + 1)
            (cfg.signed21 c ++ cfg.signature).length
          = Rom.readSections c cfg.dek cfg.mac cfg.nonce
            (cfg.signed21 c ++ cfg.signature ++ (buildSections c cfg.dek cfg.mac cfg.nonce
              (nonceCtr cfg.nonce + (cfg.signed21 c ++ cfg.signature).length / 16) cfg.sections).set (i - start21 cfg) v)
            (start21 cfg + Spec.sectionsLen cfg.sections) ((start21 cfg + Spec.sectionsLen cfg.sections) / 16 + 1)
            (start21 cfg) by rw [hP]] at ke
    apply romV21_of_sections_error h cfg wf _ (by rw [List.length_set, lbs])
    rw [hlen _ (by rw [List.length_set, lbs])]
    exact ⟨e, ke⟩
  · exact Or.inr kb

/-! ## SB 2.1: header MAC and SHA-256 field replaced (no crypto assumption: the ROM recomputes and compares) -/

/-- a V2.1 file with the header-MAC field `M` and the SHA-256 field `S` left arbitrary -/
def file21p (c : CryptoOps) (cfg : Cfg) (M S : Bytes) : Bytes :=
  encodeImageHdr cfg.header21 ++ M ++ keyBlob c cfg.kek cfg.dek cfg.mac ++ cfg.certBlock ++ S ++ cfg.signature ++ cfg.bsData21 c

/-- the header-MAC field and the SHA-256 field as the builder writes them -/
def hmacField21 (c : CryptoOps) (cfg : Cfg) : Bytes :=
  hmac256 c cfg.mac (((cfg.bsData21 c).drop 16).take ((cfg.sections.head?.map Section.effHmacCount).getD 0 * 32 + 32))
def shaField21 (c : CryptoOps) (cfg : Cfg) : Bytes := if cfg.shaPresent then c.hash .sha256 (cfg.bsData21 c) else []

theorem buildV21_eq_file21p (cfg : Cfg) : buildV21 c cfg = file21p c cfg (hmacField21 c cfg) (shaField21 c cfg) := rfl

theorem romV21_fields_replaced (h : CryptoLaws c) (cfg : Cfg) (wf : Spec.WF21 cfg) (M S : Bytes)
    (lM : M.length = 32) (lS : S.length = shaLen21 cfg) :
    (S ≠ shaField21 c cfg → Rom.romV21 c cfg.kek (file21p c cfg M S) = .error .badSha) ∧
    (S = shaField21 c cfg → M ≠ hmacField21 c cfg → Rom.romV21 c cfg.kek (file21p c cfg M S) = .error .badHeaderMac) := by
  have ⟨hok, hrom⟩ := header21_facts cfg wf
  obtain ⟨wdek, wmac, wnonce, wpad, wts, wpv, wcv, wbn, wfl, wsg, wcert, wsig, wne, wsec, wlen, wmc⟩ := wf
  have ⟨f2, f3⟩ := buildSections_length h cfg.dek cfg.mac cfg.nonce cfg.sections wsec
    (nonceCtr cfg.nonce + cfg.bsOffset21 / 16)
  have f4 := certBlockOk_mod _ wcert
  have ⟨lkw, lkb, ekb⟩ := keyBlob_eq h cfg.kek cfg.dek cfg.mac wdek wmac
  have lH : (encodeImageHdr cfg.header21).length = 96 := encodeImageHdr_length _ wnonce wpad
  obtain ⟨p1, p2, f6, p4, f9, f10, f11, f12, p9, p10⟩ := parts7 (encodeImageHdr cfg.header21) M
    (keyBlob c cfg.kek cfg.dek cfg.mac) cfg.certBlock S cfg.signature (cfg.bsData21 c) lH lM lkb
  have hfile : file21p c cfg M S = encodeImageHdr cfg.header21 ++ M ++ keyBlob c cfg.kek cfg.dek cfg.mac ++ cfg.certBlock ++
      S ++ cfg.signature ++ cfg.bsData21 c := rfl
  rw [← hfile] at p1 p2 f6 p4 f9 f10 f11 f12 p9 p10
  rw [lS] at p1 f10 f11 f12 p9
  have f2' : (cfg.bsData21 c).length = Spec.sectionsLen cfg.sections := f2
  have f1 : (file21p c cfg M S).length
      = 208 + cfg.certBlock.length + shaLen21 cfg + cfg.signature.length + Spec.sectionsLen cfg.sections := by rw [p1, f2']
  have f8 : Rom.slice (file21p c cfg M S) 128 72 = kwWrap c cfg.kek (cfg.dek ++ cfg.mac) := by
    have : Rom.slice (file21p c cfg M S) 128 72 = (Rom.slice (file21p c cfg M S) 128 80).take 72 := by
      simp [Rom.slice, List.take_take]
    rw [this, p4, ekb, List.take_left' lkw]
  have f14 : Rom.certBlockLen (file21p c cfg M S) 208 = .ok cfg.certBlock.length := by
    rw [hfile]
    simp only [List.append_assoc]
    rw [← List.append_assoc, ← List.append_assoc, ← List.append_assoc]
    exact certBlockLen_embed _ _ _ wcert 208 (by simp only [List.length_append, lH, lM, lkb])
  have f15 : Rom.readImageHdr (file21p c cfg M S) = .ok (hd21 cfg) := by
    rw [hfile]
    simp only [List.append_assoc]
    rw [readImageHdr_encode _ hok, hrom]
  have hstop : Spec.fileLen21 cfg / 16 * 16 = (file21p c cfg M S).length := by
    rw [f1, fileLen21_sha]; have := shaLen21_cases cfg; omega
  have hstart : (208 + cfg.certBlock.length + shaLen21 cfg + cfg.signature.length) / 16 * 16
      = 208 + cfg.certBlock.length + shaLen21 cfg + cfg.signature.length := by
    have := shaLen21_cases cfg; omega
  generalize hfileg : file21p c cfg M S = file at *
  generalize hhd : hd21 cfg = hd at f15
  have ⟨g1, g2, g3, g4, g5, g6, g7, g8, g9, g10, g11⟩ : hd.major = 2 ∧ hd.minor = 1 ∧ hd.flags = cfg.flags ∧
      hd.headerBlocks = 6 ∧ hd.offsetToCert = 208 ∧ hd.keyBlobBlock = 8 ∧ hd.keyBlobBlockCount = 5 ∧
      hd.firstBootTagBlock = (208 + cfg.certBlock.length + shaLen21 cfg + cfg.signature.length) / 16 ∧
      hd.imageBlocks = Spec.fileLen21 cfg / 16 ∧ hd.nonce = cfg.nonce ∧
      hd.firstBootSectionId = (cfg.sections.head?.map (·.uid)).getD 0 := by
    subst hhd; exact ⟨rfl, rfl, rfl, rfl, rfl, rfl, rfl, rfl, rfl, rfl, rfl⟩
  have hbsO : cfg.bsOffset21 = 208 + cfg.certBlock.length + shaLen21 cfg + cfg.signature.length := bsOffset21_eq cfg
  -- common prefix of both claims: the ROM reaches the SHA comparison
  have reach : Rom.romV21 c cfg.kek file =
      (if (decide (cfg.flags / 32768 % 2 = 1) &&
            Rom.slice file (208 + cfg.certBlock.length + shaLen21 cfg - 32) 32 != c.hash .sha256 (cfg.bsData21 c)) = true
       then .error .badSha
       else match Rom.readSections c cfg.dek cfg.mac cfg.nonce file file.length (file.length / 16 + 1)
              (208 + cfg.certBlock.length + shaLen21 cfg + cfg.signature.length) with
        | .error e => .error e
        | .ok ss =>
          match ss with
          | [] => .error .badLayout
          | s0 :: _ =>
            if Rom.slice file 96 32 ≠ hmac c .sha256 cfg.mac
                (Rom.slice file (208 + cfg.certBlock.length + shaLen21 cfg + cfg.signature.length + 16) (32 * (s0.hmacCount + 1))) then
              .error .badHeaderMac
            else if s0.uid ≠ (cfg.sections.head?.map (·.uid)).getD 0 then .error .badLayout
            else .ok (Rom.mkContent hd cfg.dek cfg.mac ss (208 + cfg.certBlock.length + shaLen21 cfg)
              (Rom.slice file (208 + cfg.certBlock.length + shaLen21 cfg)
                (208 + cfg.certBlock.length + shaLen21 cfg + cfg.signature.length - (208 + cfg.certBlock.length + shaLen21 cfg)))
              (Rom.slice file 208 cfg.certBlock.length))) := by
    unfold Rom.romV21
    rw [f15]
    simp only [g1, g2, g3, g4, g5, g6, g7, g8, g9, g10, g11, Spec.flagSigned, Spec.imageHeaderSize, Spec.flagSha,
      Spec.shaSize, Spec.macSize, flags_sha_iff, ← shaLen21.eq_1, hstart, hstop]
    rw [if_neg (by omega), if_neg ((flags_signed_iff cfg.flags).2 wsg), if_neg (by omega)]
    rw [readKeys_ok h cfg.kek cfg.dek cfg.mac file hd g6 g7 (by omega) f8 wdek wmac]
    simp only []
    rw [f14]
    simp only []
    rw [if_neg (by omega)]
    have hbs : Rom.slice file (208 + cfg.certBlock.length + shaLen21 cfg + cfg.signature.length)
        (file.length - (208 + cfg.certBlock.length + shaLen21 cfg + cfg.signature.length)) = cfg.bsData21 c := by
      unfold Rom.slice; rw [f12]; exact List.take_of_length_le (by omega)
    rw [hbs]
    rfl
  constructor
  · intro hS
    rw [reach]
    rcases shaLen21_cases cfg with ⟨hs, hl⟩ | ⟨hs, hl⟩
    · have hsf : shaField21 c cfg = c.hash .sha256 (cfg.bsData21 c) := by
        unfold shaField21; rw [if_pos ((shaPresent_iff cfg).2 hs)]
      rw [hl] at f10 ⊢
      rw [show 208 + cfg.certBlock.length + 32 - 32 = 208 + cfg.certBlock.length by omega, f10]
      rw [if_pos (by rw [hsf] at hS; simp [hs, hS])]
    · exfalso
      apply hS
      have : shaField21 c cfg = [] := by unfold shaField21; rw [if_neg (by rw [shaPresent_iff]; exact hs)]
      rw [this]
      exact List.eq_nil_of_length_eq_zero (by rw [lS, hl])
  · intro hS hM
    rw [reach]
    have hsha : (decide (cfg.flags / 32768 % 2 = 1) &&
        Rom.slice file (208 + cfg.certBlock.length + shaLen21 cfg - 32) 32 != c.hash .sha256 (cfg.bsData21 c)) = false := by
      rcases shaLen21_cases cfg with ⟨hs, hl⟩ | ⟨hs, hl⟩
      · rw [hl] at f10 ⊢
        rw [show 208 + cfg.certBlock.length + 32 - 32 = 208 + cfg.certBlock.length by omega, f10, hS]
        unfold shaField21; rw [if_pos ((shaPresent_iff cfg).2 hs)]
        simp
      · simp [hs]
    rw [hsha]
    simp only [Bool.false_eq_true, if_false]
    generalize hst : 208 + cfg.certBlock.length + shaLen21 cfg + cfg.signature.length = start at *
    have hpre : file = file.take start ++ cfg.bsData21 c ++ [] := by
      rw [List.append_nil, ← f12, List.take_append_drop]
    have lpre : (file.take start).length = start := by rw [List.length_take]; omega
    have hrs := readSections_buildSections h cfg.dek cfg.mac cfg.nonce [] cfg.sections wsec (file.take start)
      (by rw [lpre]; omega) (file.length / 16 + 1) (by have := sections_length_le cfg.sections wsec; omega)
    have hbsd : cfg.bsData21 c = buildSections c cfg.dek cfg.mac cfg.nonce (nonceCtr cfg.nonce + start / 16) cfg.sections := by
      unfold Cfg.bsData21; rw [hbsO]
    rw [lpre, ← hbsd, ← hpre, show start + Spec.sectionsLen cfg.sections = file.length by omega] at hrs
    rw [hrs]
    obtain ⟨s, rest, hss⟩ : ∃ s rest, cfg.sections = s :: rest := by
      cases hc : cfg.sections with
      | nil => exact absurd hc wne
      | cons s rest => exact ⟨s, rest, rfl⟩
    have ⟨em, _, _⟩ := effHmacCount_eq s (wsec s (by rw [hss]; simp))
    have hmac0 : hmacField21 c cfg =
        hmac c .sha256 cfg.mac (Rom.slice file (start + 16) (32 * ((Spec.expectedSection s).hmacCount + 1))) := by
      unfold hmacField21
      rw [hss]
      simp only [List.head?_cons, Option.map_some, Option.getD_some, hmac256, Spec.expectedSection, Rom.slice]
      rw [← f12, List.drop_drop, em, show 32 * (Spec.macCount s + 1) = Spec.macCount s * 32 + 32 by omega]
    simp only [hss, List.map_cons]
    rw [if_pos (by rw [f6, ← hmac0]; exact hM)]

/-- one changed byte inside the header-MAC field of an SB 2.1 file: always refused -/
theorem romV21_hmac_byte_tampered (h : CryptoLaws c) (cfg : Cfg) (wf : Spec.WF21 cfg) (i : Nat) (v : UInt8)
    (h1 : 96 ≤ i) (h2 : i < 128) (hv : some v ≠ (buildV21 c cfg)[i]?) :
    Rom.romV21 c cfg.kek ((buildV21 c cfg).set i v) = .error .badHeaderMac := by
  have lH : (encodeImageHdr cfg.header21).length = 96 := encodeImageHdr_length _ wf.2.2.1 wf.2.2.2.1
  have lM : (hmacField21 c cfg).length = 32 := hmac256_length h _ _
  have lS : (shaField21 c cfg).length = shaLen21 cfg := by
    unfold shaField21 shaLen21
    by_cases hs : cfg.flags / 0x8000 % 2 = 1
    · rw [if_pos ((shaPresent_iff cfg).2 hs), if_pos hs, h.hash_len]; rfl
    · rw [if_neg (by rw [shaPresent_iff]; exact hs), if_neg hs]; rfl
  have e : buildV21 c cfg = encodeImageHdr cfg.header21 ++ hmacField21 c cfg ++
      (keyBlob c cfg.kek cfg.dek cfg.mac ++ (cfg.certBlock ++ (shaField21 c cfg ++ (cfg.signature ++ cfg.bsData21 c)))) := by
    rw [buildV21_eq_file21p]; unfold file21p; simp only [List.append_assoc]
  rw [e] at hv ⊢
  rw [set_mid' _ _ _ i v (by rw [lH]; exact h1) (by rw [lH, lM]; omega), lH]
  rw [List.getElem?_append_left (by rw [List.length_append, lH, lM]; omega),
    List.getElem?_append_right (by rw [lH]; exact h1), lH] at hv
  have hne := set_ne_self (hmacField21 c cfg) (i - 96) v (by rw [lM]; omega) hv
  have key := (romV21_fields_replaced h cfg wf ((hmacField21 c cfg).set (i - 96) v) (shaField21 c cfg)
    (by rw [List.length_set, lM]) lS).2 rfl hne
  unfold file21p at key
  simpa only [List.append_assoc] using key

/-- one changed byte inside the SHA-256 field (flag 0x8000) of an SB 2.1 file: always refused -/
theorem romV21_sha_byte_tampered (h : CryptoLaws c) (cfg : Cfg) (wf : Spec.WF21 cfg) (i : Nat) (v : UInt8)
    (h1 : 208 + cfg.certBlock.length ≤ i) (h2 : i < 208 + cfg.certBlock.length + shaLen21 cfg)
    (hv : some v ≠ (buildV21 c cfg)[i]?) :
    Rom.romV21 c cfg.kek ((buildV21 c cfg).set i v) = .error .badSha := by
  have lH : (encodeImageHdr cfg.header21).length = 96 := encodeImageHdr_length _ wf.2.2.1 wf.2.2.2.1
  have lM : (hmacField21 c cfg).length = 32 := hmac256_length h _ _
  have ⟨_, lkb, _⟩ := keyBlob_eq h cfg.kek cfg.dek cfg.mac wf.1 wf.2.1
  have lS : (shaField21 c cfg).length = shaLen21 cfg := by
    unfold shaField21 shaLen21
    by_cases hs : cfg.flags / 0x8000 % 2 = 1
    · rw [if_pos ((shaPresent_iff cfg).2 hs), if_pos hs, h.hash_len]; rfl
    · rw [if_neg (by rw [shaPresent_iff]; exact hs), if_neg hs]; rfl
  have lP : (encodeImageHdr cfg.header21 ++ hmacField21 c cfg ++ keyBlob c cfg.kek cfg.dek cfg.mac ++ cfg.certBlock).length
      = 208 + cfg.certBlock.length := by
    simp only [List.length_append, lH, lM, lkb]
  have e : buildV21 c cfg = (encodeImageHdr cfg.header21 ++ hmacField21 c cfg ++ keyBlob c cfg.kek cfg.dek cfg.mac ++ cfg.certBlock) ++
      shaField21 c cfg ++ (cfg.signature ++ cfg.bsData21 c) := by
    rw [buildV21_eq_file21p]; unfold file21p; simp only [List.append_assoc]
  rw [e] at hv ⊢
  have hidx : i - (encodeImageHdr cfg.header21 ++ hmacField21 c cfg ++ keyBlob c cfg.kek cfg.dek cfg.mac ++ cfg.certBlock).length
      = i - (208 + cfg.certBlock.length) := by rw [lP]
  rw [set_mid' _ _ _ i v (by rw [lP]; exact h1) (by rw [lP, lS]; omega), hidx]
  rw [List.getElem?_append_left (by rw [List.length_append, lP, lS]; omega),
    List.getElem?_append_right (by rw [lP]; exact h1), hidx] at hv
  have hne := set_ne_self (shaField21 c cfg) (i - (208 + cfg.certBlock.length)) v (by rw [lS]; omega) hv
  have key := (romV21_fields_replaced h cfg wf (hmacField21 c cfg) ((shaField21 c cfg).set (i - (208 + cfg.certBlock.length)) v)
    lM (by rw [List.length_set, lS])).1 hne
  unfold file21p at key
  simpa only [List.append_assoc] using key

/-! ## SB 2.0 image: the same, signed (certificate section in front, signature behind) and unsigned -/

/-- a V2.0 file with arbitrary bytes `B` where the boot sections sit -/
def file20t (c : CryptoOps) (cfg : Cfg) (hdr : ImageHdr) (cs B sg : Bytes) : Bytes := pre20 c cfg hdr ++ cs ++ B ++ sg

theorem file20_eq_file20t (h : CryptoLaws c) (cfg : Cfg) (hdr : ImageHdr) (cs sg : Bytes) (hok : HdrOk hdr)
    (wdek : cfg.dek.length = 32) (wmac : cfg.mac.length = 32) (wpad : cfg.padding.length = 8) (hcs : cs.length % 16 = 0) :
    (pre20 c cfg hdr).length = 208 ∧
    file20 c cfg hdr cs sg = file20t c cfg hdr cs
      (buildSections c cfg.dek cfg.mac cfg.nonce (nonceCtr cfg.nonce + (pre20 c cfg hdr ++ cs).length / 16) cfg.sections) sg := by
  have lH : (encodeImageHdr hdr).length = 96 := encodeImageHdr_length _ hok.nonce hok.padding
  have ⟨lkw, _, _⟩ := keyBlob_eq h cfg.kek cfg.dek cfg.mac wdek wmac
  have lpre : (pre20 c cfg hdr).length = 208 := by
    simp only [pre20, List.length_append, lH, hmac256_length h, lkw, wpad]
  refine ⟨lpre, ?_⟩
  have : (pre20 c cfg hdr ++ cs).length / 16 = (pre20 c cfg hdr).length / 16 + cs.length / 16 := by
    rw [List.length_append, lpre]; omega
  unfold file20t
  rw [this, ← Nat.add_assoc]; rfl

/-- what the ROM reads in front of / behind the boot sections does not depend on the section bytes -/
theorem v20_front (h : CryptoLaws c) (cfg : Cfg) (hdr : ImageHdr) (cs B sg : Bytes) (hok : HdrOk hdr)
    (wdek : cfg.dek.length = 32) (wmac : cfg.mac.length = 32) (wpad : cfg.padding.length = 8)
    (lB : B.length = Spec.sectionsLen cfg.sections) :
    (file20t c cfg hdr cs B sg).length = 208 + cs.length + Spec.sectionsLen cfg.sections + sg.length ∧
    (file20t c cfg hdr cs B sg).take 96 = encodeImageHdr hdr ∧
    Rom.slice (file20t c cfg hdr cs B sg) 96 32 = hmac256 c cfg.mac (encodeImageHdr hdr) ∧
    Rom.slice (file20t c cfg hdr cs B sg) 128 72 = kwWrap c cfg.kek (cfg.dek ++ cfg.mac) ∧
    Rom.readImageHdr (file20t c cfg hdr cs B sg) = .ok hdr.toRom ∧
    (file20t c cfg hdr cs B sg).drop (208 + cs.length + Spec.sectionsLen cfg.sections) = sg := by
  have lH : (encodeImageHdr hdr).length = 96 := encodeImageHdr_length _ hok.nonce hok.padding
  have ⟨lkw, _, _⟩ := keyBlob_eq h cfg.kek cfg.dek cfg.mac wdek wmac
  have lpre : (pre20 c cfg hdr).length = 208 := by
    simp only [pre20, List.length_append, lH, hmac256_length h, lkw, wpad]
  have hfile2 : file20t c cfg hdr cs B sg = encodeImageHdr hdr ++ hmac256 c cfg.mac (encodeImageHdr hdr) ++
      (kwWrap c cfg.kek (cfg.dek ++ cfg.mac) ++ cfg.padding) ++ cs ++ B ++ sg ++ [] := by
    simp only [file20t, pre20, List.append_assoc, List.append_nil]
  obtain ⟨p1, p2, p3, p4, p5, p6, p7, p8, p9, p10⟩ := parts7 (encodeImageHdr hdr) (hmac256 c cfg.mac (encodeImageHdr hdr))
    (kwWrap c cfg.kek (cfg.dek ++ cfg.mac) ++ cfg.padding) cs B sg [] lH (hmac256_length h _ _)
    (by simp only [List.length_append, lkw, wpad])
  rw [← hfile2] at p1 p2 p3 p4 p5 p6 p7 p8 p9 p10
  refine ⟨by rw [p1, lB]; simp, p2, p3, ?_, ?_, ?_⟩
  · have : Rom.slice (file20t c cfg hdr cs B sg) 128 72 = (Rom.slice (file20t c cfg hdr cs B sg) 128 80).take 72 := by
      simp [Rom.slice, List.take_take]
    rw [this, p4, List.take_left' lkw]
  · rw [hfile2]
    simp only [List.append_assoc]
    exact readImageHdr_encode _ hok _
  · rw [← lB]
    unfold file20t
    exact List.drop_left' (by simp only [List.length_append, lpre])

theorem romV20_unsigned_of_sections_error (h : CryptoLaws c) (cfg : Cfg) (wf : Spec.WF20 cfg false) (B : Bytes)
    (lB : B.length = Spec.sectionsLen cfg.sections)
    (hrs : ∃ e, Rom.readSections c cfg.dek cfg.mac cfg.nonce (file20t c cfg (cfg.header20 false) [] B [])
        (208 + Spec.sectionsLen cfg.sections) ((file20t c cfg (cfg.header20 false) [] B []).length / 16 + 1) 208 = .error e) :
    ∃ e, Rom.romV20 c cfg.kek (file20t c cfg (cfg.header20 false) [] B []) = .error e := by
  have ⟨hok, hrom⟩ := header20_facts cfg false wf
  obtain ⟨wdek, wmac, wnonce, wpad, wts, wpv, wcv, wbn, wsg, wne, wsec, wlen, wmc⟩ := wf
  have smod := (buildSections_length h cfg.dek cfg.mac cfg.nonce cfg.sections wsec 0).2
  obtain ⟨flen, ftake, fhmac, fkw, fread, fdrop⟩ := v20_front h cfg (cfg.header20 false) [] B [] hok wdek wmac wpad lB
  generalize hfile : file20t c cfg (cfg.header20 false) [] B [] = file at *
  rw [hrom] at fread
  simp only [List.length_nil, Nat.add_zero] at flen fdrop
  generalize hhd : hd20 cfg false = hd at fread
  have ⟨g1, g2, g3, g4, g6, g7, g8, g9, g10, g11⟩ : hd.major = 2 ∧ hd.minor = 0 ∧ hd.flags = 4 ∧
      hd.headerBlocks = 6 ∧ hd.keyBlobBlock = 8 ∧ hd.keyBlobBlockCount = 5 ∧
      hd.firstBootTagBlock = (208 + 0) / 16 ∧
      hd.imageBlocks = Spec.bodyLen20 cfg false / 16 ∧ hd.nonce = cfg.nonce ∧
      hd.firstBootSectionId = (cfg.sections.head?.map (·.uid)).getD 0 := by
    subst hhd; exact ⟨rfl, rfl, rfl, rfl, rfl, rfl, rfl, rfl, rfl, rfl⟩
  have hbl : Spec.bodyLen20 cfg false = 208 + Spec.sectionsLen cfg.sections := by simp [Spec.bodyLen20]
  have hstop : Spec.bodyLen20 cfg false / 16 * 16 = 208 + Spec.sectionsLen cfg.sections := by omega
  have hm : Rom.slice file 96 32 = hmac c .sha256 cfg.mac (file.take 96) := by rw [fhmac, ftake]; rfl
  obtain ⟨e, he⟩ := hrs
  unfold Rom.romV20
  rw [fread]
  simp only [g1, g2, g3, g4, g6, g7, g8, g9, g10, g11, Spec.imageHeaderSize, Spec.macSize, Spec.flagUnsignedV20, hstop,
    Nat.reduceMul, Nat.reduceAdd]
  rw [if_neg (by omega), if_neg (by omega), readKeys_ok h cfg.kek cfg.dek cfg.mac file hd g6 g7 (by omega) fkw wdek wmac]
  simp only []
  rw [if_neg (fun hne => hne hm), if_neg (by omega), if_pos trivial, if_neg (by omega), he]
  exact ⟨_, rfl⟩

theorem romV20_signed_of_sections_error (h : CryptoLaws c) (cfg : Cfg) (wf : Spec.WF20 cfg true) (B : Bytes)
    (lB : B.length = Spec.sectionsLen cfg.sections)
    (hrs : ∃ e, Rom.readSections c cfg.dek cfg.mac cfg.nonce
        (file20t c cfg (cfg.header20 true)
          (buildCertSection c cfg.dek cfg.mac cfg.nonce (nonceCtr cfg.nonce + (pre20 c cfg (cfg.header20 true)).length / 16) cfg.certBlock)
          B cfg.signature)
        (288 + cfg.certBlock.length + Spec.sectionsLen cfg.sections)
        ((file20t c cfg (cfg.header20 true)
          (buildCertSection c cfg.dek cfg.mac cfg.nonce (nonceCtr cfg.nonce + (pre20 c cfg (cfg.header20 true)).length / 16) cfg.certBlock)
          B cfg.signature).length / 16 + 1) (288 + cfg.certBlock.length) = .error e) :
    ∃ e, Rom.romV20 c cfg.kek
      (file20t c cfg (cfg.header20 true)
        (buildCertSection c cfg.dek cfg.mac cfg.nonce (nonceCtr cfg.nonce + (pre20 c cfg (cfg.header20 true)).length / 16) cfg.certBlock)
        B cfg.signature) = .error e := by
  have ⟨hok, hrom⟩ := header20_facts cfg true wf
  obtain ⟨wdek, wmac, wnonce, wpad, wts, wpv, wcv, wbn, wsg, wne, wsec, wlen, wmc⟩ := wf
  obtain ⟨wcert, wsig⟩ := wsg rfl
  have cmod := certBlockOk_mod _ wcert
  have smod := (buildSections_length h cfg.dek cfg.mac cfg.nonce cfg.sections wsec 0).2
  have hbl : Spec.bodyLen20 cfg true = 288 + cfg.certBlock.length + Spec.sectionsLen cfg.sections := by
    simp [Spec.bodyLen20]; omega
  generalize hcs : buildCertSection c cfg.dek cfg.mac cfg.nonce
    (nonceCtr cfg.nonce + (pre20 c cfg (cfg.header20 true)).length / 16) cfg.certBlock = cs at *
  have lcs : cs.length = 80 + cfg.certBlock.length := by subst hcs; exact buildCertSection_length h _ _ _ _ _
  obtain ⟨flen, ftake, fhmac, fkw, fread, fdrop⟩ := v20_front h cfg (cfg.header20 true) cs B cfg.signature hok wdek wmac wpad lB
  have lpre : (pre20 c cfg (cfg.header20 true)).length = 208 :=
    (file20_eq_file20t h cfg (cfg.header20 true) cs cfg.signature hok wdek wmac wpad (by omega)).1
  have hshape : file20t c cfg (cfg.header20 true) cs B cfg.signature
      = pre20 c cfg (cfg.header20 true) ++ cs ++ (B ++ cfg.signature) := by
    simp only [file20t, List.append_assoc]
  obtain ⟨c1, c2, c3, c4, c5⟩ := certSection_facts h cfg.dek cfg.mac cfg.nonce _ cfg.certBlock (B ++ cfg.signature) cs _ lpre wcert
    (by omega) hcs.symm hshape
  generalize hfile : file20t c cfg (cfg.header20 true) cs B cfg.signature = file at *
  rw [hrom] at fread
  rw [lcs] at flen fdrop
  rw [show 208 + (80 + cfg.certBlock.length) = 288 + cfg.certBlock.length by omega] at flen fdrop
  have lsig : 0 < cfg.signature.length := List.length_pos_iff.2 wsig
  generalize hhd : hd20 cfg true = hd at fread
  have ⟨g1, g2, g3, g4, g5, g6, g7, g8, g9, g10, g11⟩ : hd.major = 2 ∧ hd.minor = 0 ∧ hd.flags = 8 ∧
      hd.headerBlocks = 6 ∧ hd.offsetToCert = 288 ∧ hd.keyBlobBlock = 8 ∧ hd.keyBlobBlockCount = 5 ∧
      hd.firstBootTagBlock = (208 + (80 + cfg.certBlock.length)) / 16 ∧
      hd.imageBlocks = Spec.bodyLen20 cfg true / 16 ∧ hd.nonce = cfg.nonce ∧
      hd.firstBootSectionId = (cfg.sections.head?.map (·.uid)).getD 0 := by
    subst hhd; exact ⟨rfl, rfl, rfl, rfl, rfl, rfl, rfl, rfl, rfl, rfl, rfl⟩
  have hstop : Spec.bodyLen20 cfg true / 16 * 16 = 288 + cfg.certBlock.length + Spec.sectionsLen cfg.sections := by omega
  have hstart : (208 + (80 + cfg.certBlock.length)) / 16 * 16 = 288 + cfg.certBlock.length := by omega
  have hm : Rom.slice file 96 32 = hmac c .sha256 cfg.mac (file.take 96) := by rw [fhmac, ftake]; rfl
  generalize hsh : (⟨1, 0x8002, Spec.certSectionMark, cfg.certBlock.length / 16, 1⟩ : Rom.RawHdr) = sh at c2
  have ⟨s1, s2, s3, s4⟩ : sh.tag = 1 ∧ sh.flags = 0x8002 ∧ sh.address = Spec.certSectionMark ∧
      sh.count = cfg.certBlock.length / 16 := by
    subst hsh; exact ⟨rfl, rfl, rfl, rfl⟩
  obtain ⟨e, he⟩ := hrs
  unfold Rom.romV20
  rw [fread]
  simp only [g1, g2, g3, g4, g5, g6, g7, g8, g9, g10, g11, Spec.imageHeaderSize, Spec.macSize, Spec.flagUnsignedV20,
    Spec.flagSigned, hstop, hstart, Nat.reduceMul, Nat.reduceAdd]
  rw [if_neg (by omega), if_neg (by omega), readKeys_ok h cfg.kek cfg.dek cfg.mac file hd g6 g7 (by omega) fkw wdek wmac]
  simp only []
  rw [if_neg (fun hne => hne hm), if_neg (by omega), if_neg (by omega), if_pos trivial, if_neg (by omega),
    if_neg (fun hne => hne c1), c2]
  simp only [s1, s2, s3, s4, Spec.tagTag, Spec.sectCleartext, Spec.sectLast]
  rw [if_neg (by simp), if_neg (by simp), c3]
  simp only []
  rw [if_neg (by omega), if_neg (by omega), c4, if_neg (fun hne => hne c5), if_neg (by omega), he]
  exact ⟨_, rfl⟩

/-- SB 2.0 (signed or not): ONE changed byte anywhere in the boot-section area is refused, or an HMAC forgery is exhibited -/
theorem romV20_section_byte_tampered (h : CryptoLaws c) (cfg : Cfg) (signed : Bool) (wf : Spec.WF20 cfg signed) (i : Nat) (v : UInt8)
    (hi1 : 208 + (if signed then 80 + cfg.certBlock.length else 0) ≤ i)
    (hi2 : i < 208 + (if signed then 80 + cfg.certBlock.length else 0) + Spec.sectionsLen cfg.sections)
    (hv : some v ≠ (buildV20 c cfg signed)[i]?) :
    (∃ e, Rom.romV20 c cfg.kek ((buildV20 c cfg signed).set i v) = .error e) ∨ Break c := by
  have ⟨hok, hrom⟩ := header20_facts cfg signed wf
  have wf' := wf
  obtain ⟨wdek, wmac, wnonce, wpad, wts, wpv, wcv, wbn, wsg, wne, wsec, wlen, wmc⟩ := wf
  -- common part: a file `P ++ bs ++ sg` with `P` 16-aligned
  have core : ∀ (cs sg : Bytes), cs.length % 16 = 0 → 208 + cs.length ≤ i → i < 208 + cs.length + Spec.sectionsLen cfg.sections →
      some v ≠ (file20 c cfg (cfg.header20 signed) cs sg)[i]? →
      (∃ B, B.length = Spec.sectionsLen cfg.sections ∧
        (file20 c cfg (cfg.header20 signed) cs sg).set i v = file20t c cfg (cfg.header20 signed) cs B sg ∧
        ((∃ e, Rom.readSections c cfg.dek cfg.mac cfg.nonce (file20t c cfg (cfg.header20 signed) cs B sg)
          (208 + cs.length + Spec.sectionsLen cfg.sections)
          ((file20t c cfg (cfg.header20 signed) cs B sg).length / 16 + 1) (208 + cs.length) = .error e) ∨ Break c)) := by
    intro cs sg hcs h1 h2 hv
    obtain ⟨lpre, hshape⟩ := file20_eq_file20t h cfg (cfg.header20 signed) cs sg hok wdek wmac wpad hcs
    have lP : (pre20 c cfg (cfg.header20 signed) ++ cs).length = 208 + cs.length := by rw [List.length_append, lpre]
    have ⟨lbs, lbs16⟩ := buildSections_length h cfg.dek cfg.mac cfg.nonce cfg.sections wsec
      (nonceCtr cfg.nonce + (pre20 c cfg (cfg.header20 signed) ++ cs).length / 16)
    rw [hshape] at hv ⊢
    unfold file20t at hv ⊢
    have hidx : i - (pre20 c cfg (cfg.header20 signed) ++ cs).length = i - (208 + cs.length) := by rw [lP]
    rw [set_mid' _ _ _ i v (by rw [lP]; omega) (by rw [lbs, lP]; omega), hidx]
    rw [List.getElem?_append_left (by rw [List.length_append, lbs, lP]; omega),
      List.getElem?_append_right (by rw [lP]; omega), hidx] at hv
    refine ⟨_, by rw [List.length_set, lbs], rfl, ?_⟩
    have hflen : (pre20 c cfg (cfg.header20 signed) ++ cs ++
        (buildSections c cfg.dek cfg.mac cfg.nonce (nonceCtr cfg.nonce + (pre20 c cfg (cfg.header20 signed) ++ cs).length / 16)
          cfg.sections).set (i - (208 + cs.length)) v ++ sg).length = 208 + cs.length + Spec.sectionsLen cfg.sections + sg.length := by
      rw [List.length_append, List.length_append, List.length_set, lbs, lP]
    have hfuel : cfg.sections.length ≤ (208 + cs.length + Spec.sectionsLen cfg.sections + sg.length) / 16 + 1 := by
      have := sections_length_le cfg.sections wsec; omega
    rcases readSections_byte_tampered h cfg.dek cfg.mac cfg.nonce sg cfg.sections wsec (pre20 c cfg (cfg.header20 signed) ++ cs)
        (by rw [lP]; omega) ((208 + cs.length + Spec.sectionsLen cfg.sections + sg.length) / 16 + 1) hfuel
        (i - (208 + cs.length)) v (by omega) hv with ⟨e, ke⟩ | kb
    · left
      refine ⟨e, ?_⟩
      rw [hflen]
      rw [show Rom.readSections c cfg.dek cfg.mac cfg.nonce
            (pre20 c cfg (cfg.header20 signed) ++ cs ++
              (buildSections c cfg.dek cfg.mac cfg.nonce (nonceCtr cfg.nonce + (pre20 c cfg (cfg.header20 signed) ++ cs).length / 16)
                cfg.sections).set (i - (208 + cs.length)) v ++ sg)
            ((pre20 c cfg (cfg.header20 signed) ++ cs).length + Spec.sectionsLen cfg.sections)
            ((208 + cs.length + Spec.sectionsLen cfg.sections + sg.length) / 16 + 1)
            (pre20 c cfg (cfg.header20 signed) ++ cs).length
          = Rom.readSections c cfg.dek cfg.mac cfg.nonce
            (pre20 c cfg (cfg.header20 signed) ++ cs ++
              (buildSections c cfg.dek cfg.mac cfg.nonce (nonceCtr cfg.nonce + (pre20 c cfg (cfg.header20 signed) ++ cs).length / 16)
                cfg.sections).set (i - (208 + cs.length)) v ++ sg)
            (208 + cs.length + Spec.sectionsLen cfg.sections)
            ((208 + cs.length + Spec.sectionsLen cfg.sections + sg.length) / 16 + 1)
            (208 + cs.length) by rw [lP]] at ke
      exact ke
    · exact Or.inr kb
  cases signed
  · rw [buildV20_unsigned] at hv ⊢
    simp only [Bool.false_eq_true, if_false, Nat.add_zero] at hi1 hi2
    obtain ⟨B, lB, hset, hr⟩ := core [] [] (by simp) (by simpa using hi1) (by simpa using hi2) hv
    rw [hset]
    rcases hr with hr | hb
    · left
      simp only [List.length_nil, Nat.add_zero] at hr
      exact romV20_unsigned_of_sections_error h cfg wf' B lB hr
    · exact Or.inr hb
  · obtain ⟨wcert, wsig⟩ := wsg rfl
    have cmod := certBlockOk_mod _ wcert
    rw [buildV20_signed] at hv ⊢
    simp only [if_true] at hi1 hi2
    have lcs := buildCertSection_length h cfg.dek cfg.mac cfg.nonce cfg.certBlock
      (nonceCtr cfg.nonce + (pre20 c cfg (cfg.header20 true)).length / 16)
    obtain ⟨B, lB, hset, hr⟩ := core _ cfg.signature (by rw [lcs]; omega) (by rw [lcs]; omega) (by rw [lcs]; omega) hv
    rw [hset]
    rcases hr with hr | hb
    · left
      rw [lcs, show 208 + (80 + cfg.certBlock.length) = 288 + cfg.certBlock.length by omega] at hr
      exact romV20_signed_of_sections_error h cfg wf' B lB hr
    · exact Or.inr hb

/-! ## SB 2.0: header and header-MAC field (the header MAC of 2.0 is HMAC(mac key, header)) -/

/-- ANY file that starts with a 96-byte header `H`, a 32-byte field `M` and the wrapped keys, and whose header still points at
    that key blob (block 8, 5 blocks), is refused by the SB 2.0 reader unless `M` is the HMAC of `H` under the wrapped MAC key -/
theorem romV20_header_mac_mismatch (h : CryptoLaws c) (kek dek mac H M T : Bytes) (wdek : dek.length = 32) (wmac : mac.length = 32)
    (lH : H.length = 96) (lM : M.length = 32) (lT : 8 ≤ T.length)
    (hkb : ∀ h', Rom.readImageHdr (H ++ M ++ (kwWrap c kek (dek ++ mac) ++ T)) = .ok h' → h'.keyBlobBlock = 8 ∧ h'.keyBlobBlockCount = 5)
    (hne : M ≠ hmac c .sha256 mac H) :
    ∃ e, Rom.romV20 c kek (H ++ M ++ (kwWrap c kek (dek ++ mac) ++ T)) = .error e := by
  have lkw : (kwWrap c kek (dek ++ mac)).length = 72 := by
    rw [Crypto.kwWrap_length h _ _ (by simp [wdek, wmac])]; simp [wdek, wmac]
  generalize hfile : H ++ M ++ (kwWrap c kek (dek ++ mac) ++ T) = file at *
  have flen : 208 ≤ file.length := by
    rw [← hfile]; simp only [List.length_append, lH, lM, lkw]; omega
  have f1 : file.take 96 = H := by
    rw [← hfile, List.append_assoc]; exact List.take_left' lH
  have f2 : Rom.slice file 96 32 = M := by
    rw [← hfile]; exact slice_mid _ _ _ _ _ lH.symm lM.symm
  have f3 : Rom.slice file 128 72 = kwWrap c kek (dek ++ mac) := by
    rw [← hfile, ← List.append_assoc]
    exact slice_mid _ _ _ _ _ (by simp only [List.length_append, lH, lM]) lkw.symm
  unfold Rom.romV20
  cases hr : Rom.readImageHdr file with
  | error e => exact ⟨_, rfl⟩
  | ok h' =>
    obtain ⟨g6, g7⟩ := hkb h' hr
    simp only []
    by_cases hv : h'.major ≠ 2 ∨ h'.minor ≠ 0
    · rw [if_pos hv]; exact ⟨_, rfl⟩
    · rw [if_neg hv]
      by_cases hb : h'.headerBlocks * 16 ≠ Spec.imageHeaderSize
      · rw [if_pos hb]; exact ⟨_, rfl⟩
      · rw [if_neg hb, readKeys_ok h kek dek mac file h' g6 g7 flen f3 wdek wmac]
        simp only []
        have hc : Rom.slice file Spec.imageHeaderSize Spec.macSize ≠ hmac c .sha256 mac (file.take Spec.imageHeaderSize) := by
          show Rom.slice file 96 32 ≠ hmac c .sha256 mac (file.take 96)
          rw [f1, f2]; exact hne
        rw [if_pos hc]
        exact ⟨_, rfl⟩

/-- what follows the wrapped keys in a V2.0 file -/
def tail20 (c : CryptoOps) (cfg : Cfg) (hdr : ImageHdr) (cs sg : Bytes) : Bytes :=
  cfg.padding ++ (cs ++ (buildSections c cfg.dek cfg.mac cfg.nonce
    (nonceCtr cfg.nonce + (encodeImageHdr hdr ++ hmac256 c cfg.mac (encodeImageHdr hdr) ++ kwWrap c cfg.kek (cfg.dek ++ cfg.mac) ++
      cfg.padding).length / 16 + cs.length / 16) cfg.sections ++ sg))

theorem file20_shape (cfg : Cfg) (hdr : ImageHdr) (cs sg : Bytes) :
    file20 c cfg hdr cs sg = encodeImageHdr hdr ++ hmac c .sha256 cfg.mac (encodeImageHdr hdr) ++
      (kwWrap c cfg.kek (cfg.dek ++ cfg.mac) ++ tail20 c cfg hdr cs sg) := by
  unfold file20 tail20 hmac256; simp only [List.append_assoc]

/-- shape of a built SB 2.0 file: header ‖ HMAC(header) ‖ wrapped keys ‖ at least the 8 padding bytes -/
theorem buildV20_shape (cfg : Cfg) (signed : Bool) (wpad : cfg.padding.length = 8) :
    ∃ T : Bytes, 8 ≤ T.length ∧
      buildV20 c cfg signed = encodeImageHdr (cfg.header20 signed) ++ hmac c .sha256 cfg.mac (encodeImageHdr (cfg.header20 signed)) ++
        (kwWrap c cfg.kek (cfg.dek ++ cfg.mac) ++ T) := by
  cases signed
  · refine ⟨tail20 c cfg (cfg.header20 false) [] [], ?_, ?_⟩
    · unfold tail20; rw [List.length_append, wpad]; omega
    · rw [buildV20_unsigned]; exact file20_shape cfg _ _ _
  · refine ⟨tail20 c cfg (cfg.header20 true)
      (buildCertSection c cfg.dek cfg.mac cfg.nonce (nonceCtr cfg.nonce + (pre20 c cfg (cfg.header20 true)).length / 16) cfg.certBlock)
      cfg.signature, ?_, ?_⟩
    · unfold tail20; rw [List.length_append, wpad]; omega
    · rw [buildV20_signed]; exact file20_shape cfg _ _ _

/-- one changed byte in the header-MAC field (bytes 96..127) of an SB 2.0 file: always refused -/
theorem romV20_hmac_byte_tampered (h : CryptoLaws c) (cfg : Cfg) (signed : Bool) (wf : Spec.WF20 cfg signed) (i : Nat) (v : UInt8)
    (h1 : 96 ≤ i) (h2 : i < 128) (hv : some v ≠ (buildV20 c cfg signed)[i]?) :
    ∃ e, Rom.romV20 c cfg.kek ((buildV20 c cfg signed).set i v) = .error e := by
  have ⟨hok, hrom⟩ := header20_facts cfg signed wf
  obtain ⟨wdek, wmac, wnonce, wpad, wts, wpv, wcv, wbn, wsg, wne, wsec, wlen, wmc⟩ := wf
  obtain ⟨T, lT, e⟩ := buildV20_shape (c := c) cfg signed wpad
  have lH : (encodeImageHdr (cfg.header20 signed)).length = 96 := encodeImageHdr_length _ hok.nonce hok.padding
  have lM : (hmac c .sha256 cfg.mac (encodeImageHdr (cfg.header20 signed))).length = 32 := hmac256_length h _ _
  rw [e] at hv ⊢
  rw [set_mid' _ _ _ i v (by rw [lH]; exact h1) (by rw [lH, lM]; omega), lH]
  rw [List.getElem?_append_left (by rw [List.length_append, lH, lM]; omega),
    List.getElem?_append_right (by rw [lH]; exact h1), lH] at hv
  have hne := set_ne_self _ (i - 96) v (by rw [lM]; omega) hv
  refine romV20_header_mac_mismatch h cfg.kek cfg.dek cfg.mac _ _ T wdek wmac lH (by rw [List.length_set, lM]) lT ?_ hne
  intro h' hr
  rw [List.append_assoc, readImageHdr_encode _ hok, hrom] at hr
  injection hr with hr
  subst hr
  exact ⟨rfl, rfl⟩

/-- one changed byte in the 96-byte header of an SB 2.0 file, the header still pointing at the key blob (block 8, 5 blocks —
    i.e. the two 16-bit words at offsets 46 and 48 read as before): refused, or an HMAC forgery under the image's MAC key -/
theorem romV20_header_byte_tampered (h : CryptoLaws c) (cfg : Cfg) (signed : Bool) (wf : Spec.WF20 cfg signed) (i : Nat) (v : UInt8)
    (h2 : i < 96) (hv : some v ≠ (buildV20 c cfg signed)[i]?)
    (hkb : ∀ h', Rom.readImageHdr ((buildV20 c cfg signed).set i v) = .ok h' → h'.keyBlobBlock = 8 ∧ h'.keyBlobBlockCount = 5) :
    (∃ e, Rom.romV20 c cfg.kek ((buildV20 c cfg signed).set i v) = .error e) ∨ Break c := by
  have ⟨hok, hrom⟩ := header20_facts cfg signed wf
  obtain ⟨wdek, wmac, wnonce, wpad, wts, wpv, wcv, wbn, wsg, wne, wsec, wlen, wmc⟩ := wf
  obtain ⟨T, lT, e⟩ := buildV20_shape (c := c) cfg signed wpad
  have lH : (encodeImageHdr (cfg.header20 signed)).length = 96 := encodeImageHdr_length _ hok.nonce hok.padding
  have lM : (hmac c .sha256 cfg.mac (encodeImageHdr (cfg.header20 signed))).length = 32 := hmac256_length h _ _
  rw [e] at hv hkb ⊢
  have hset : (encodeImageHdr (cfg.header20 signed) ++ hmac c .sha256 cfg.mac (encodeImageHdr (cfg.header20 signed)) ++
        (kwWrap c cfg.kek (cfg.dek ++ cfg.mac) ++ T)).set i v
      = (encodeImageHdr (cfg.header20 signed)).set i v ++ hmac c .sha256 cfg.mac (encodeImageHdr (cfg.header20 signed)) ++
        (kwWrap c cfg.kek (cfg.dek ++ cfg.mac) ++ T) := by
    rw [List.append_assoc, List.set_append, if_pos (by rw [lH]; exact h2), List.append_assoc]
  rw [hset] at hkb ⊢
  rw [List.append_assoc, List.getElem?_append_left (by rw [lH]; exact h2)] at hv
  have hne := set_ne_self _ i v (by rw [lH]; exact h2) hv
  by_cases he : hmac c .sha256 cfg.mac (encodeImageHdr (cfg.header20 signed))
      = hmac c .sha256 cfg.mac ((encodeImageHdr (cfg.header20 signed)).set i v)
  · exact Or.inr (Break.hmacForgery .sha256 cfg.mac _ _ (Ne.symm hne) he)
  · left
    exact romV20_header_mac_mismatch h cfg.kek cfg.dek cfg.mac _ _ T wdek wmac (by rw [List.length_set, lH]) lM lT hkb he

/-- the hypothesis `hkb` of `romV20_header_byte_tampered` holds for every changed NONCE byte (bytes 0..15): the ROM reads the
    same header with another nonce (this also serves as the non-vacuity witness of that hypothesis) -/
theorem hkb_of_nonce_byte (cfg : Cfg) (signed : Bool) (wf : Spec.WF20 cfg signed) (i : Nat) (v : UInt8) (hi : i < 16) :
    ∀ h', Rom.readImageHdr ((buildV20 c cfg signed).set i v) = .ok h' → h'.keyBlobBlock = 8 ∧ h'.keyBlobBlockCount = 5 := by
  have ⟨hok, hrom⟩ := header20_facts cfg signed wf
  obtain ⟨T, lT, e⟩ := buildV20_shape (c := c) cfg signed wf.2.2.2.1
  have lN : (cfg.header20 signed).nonce.length = 16 := hok.nonce
  let hdr' : ImageHdr := { cfg.header20 signed with nonce := (cfg.header20 signed).nonce.set i v }
  have hok' : HdrOk hdr' :=
    { hok with nonce := by show ((cfg.header20 signed).nonce.set i v).length = 16; rw [List.length_set]; exact lN }
  have henc : (encodeImageHdr (cfg.header20 signed)).set i v = encodeImageHdr hdr' := by
    unfold encodeImageHdr
    simp only [List.append_assoc]
    rw [List.set_append, if_pos (by rw [lN]; exact hi)]
  intro h' hr
  rw [e, List.append_assoc, List.set_append,
    if_pos (by rw [encodeImageHdr_length _ hok.nonce hok.padding]; omega), henc, readImageHdr_encode _ hok'] at hr
  injection hr with hr
  subst hr
  have : (cfg.header20 signed).toRom.keyBlobBlock = 8 ∧ (cfg.header20 signed).toRom.keyBlobBlockCount = 5 := by
    rw [hrom]; exact ⟨rfl, rfl⟩
  exact this

end SpsdkVerif.Sb2
