/- Phase 3 (C06): `update_fields` twice is `update_fields` once (re-sign flow). -/
import SpsdkVerif.Model.AhabResign
import SpsdkVerif.Proofs.AhabRom

namespace SpsdkVerif.Ahab
open SpsdkVerif SpsdkVerif.Misc
open SpsdkVerif.Generated
open SpsdkVerif.Crypto (CryptoOps CryptoLaws)

theorem reReady_fix (c : CryptoOps) (hc : CryptoLaws c) (ch : Chip) (v : Ver) (dek : Option Bytes) (e : Entry) (r : Ready)
    (h : readyEntry c ch v dek e = .ok r) : reReady c ch v e r = .ok r := by
  obtain ⟨a, _, _, hhl, _, hsize, henc⟩ := readyEntry_spec c hc ch v dek e r h
  unfold reReady
  have hne : r.hash.isEmpty = false := by
    cases hh : r.hash with
    | nil => rw [hh] at hhl; simp at hhl
    | cons x xs => rfl
  simp only [hne, Bool.false_eq_true, if_false]
  have hiv : (if (r.iv.all (· == 0) && Iae.isEncrypted v e.flags) = true then c.hash .sha256 (storedImage ch e.data) else r.iv) = r.iv := by
    split
    · rename_i hcnd
      simp only [Bool.and_eq_true] at hcnd
      exact ((henc hcnd.2).1).symm
    · rfl
  rw [hiv, ← hsize]

theorem rePlaced_fix (c : CryptoOps) (hc : CryptoLaws c) (ch : Chip) (v : Ver) (dek : Option Bytes) (base : Nat) :
    ∀ (ps : List Placed), (∀ p ∈ ps, readyEntry c ch v dek p.entry = .ok p.ready ∧ p.iae = mkIae base p.offset p.entry p.ready) →
      rePlaced c ch v base ps = .ok ps
  | [], _ => rfl
  | p :: ps, h => by
    have hp := h p (by simp)
    unfold rePlaced
    rw [reReady_fix c hc ch v dek p.entry p.ready hp.1, rePlaced_fix c hc ch v dek base ps (fun q hq => h q (by simp [hq]))]
    simp only
    rw [← hp.2]

theorem reupdateAll_fix (c : CryptoOps) (hc : CryptoLaws c) (ch : Chip) (v : Ver) :
    ∀ (us : List UContainer), (∀ u ∈ us, ∀ p ∈ u.placed,
      readyEntry c ch v (if u.cont.sb.blob.isSome then u.cont.dek else none) p.entry = .ok p.ready ∧
      p.iae = mkIae u.base p.offset p.entry p.ready) → reupdateAll c ch v us = .ok us
  | [], _ => rfl
  | u :: us, h => by
    unfold reupdateAll
    rw [rePlaced_fix c hc ch v _ u.base u.placed (h u (by simp)), reupdateAll_fix c hc ch v us (fun w hw => h w (by simp [hw]))]

theorem update2_eq_update (c : CryptoOps) (hc : CryptoLaws c) (img : Image) (us : List UContainer) (h : img.update c = .ok us) :
    img.update2 c = .ok us := by
  unfold Image.update2
  rw [h]
  exact reupdateAll_fix c hc img.chip img.ver us (updateContainers_entries c img.chip img.ver img.containers 0 _ us h)

end SpsdkVerif.Ahab
