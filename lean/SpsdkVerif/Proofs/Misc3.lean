/-
Helper lemmas for the phase-3 part of C20 (Model/Misc3.lean): `str.split`, the BCD text form, the file branch of `load_hex_string`, round-half-even, the `size_fmt` loop.  Core Lean only.
-/
import SpsdkVerif.Model.Misc3
import SpsdkVerif.Proofs.Misc
import SpsdkVerif.Proofs.Misc2

namespace SpsdkVerif.Misc
open SpsdkVerif SpsdkVerif.Generated.PyFuns2 SpsdkVerif.Generated.PyFuns3

/-! helper lemmas (Proofs/Misc3.lean) -/
theorem splitOn_ne_nil (sep : Char) (s : List Char) : splitOn sep s ≠ [] := by
  cases s with
  | nil => simp [splitOn]
  | cons c cs =>
    rw [splitOn]
    split
    · simp
    · split <;> simp

theorem splitOn_nosep (sep : Char) (a : List Char) (ha : sep ∉ a) : splitOn sep a = [a] := by
  induction a with
  | nil => rfl
  | cons c cs ih =>
    have hc : (c == sep) = false := by
      simp only [List.mem_cons, not_or] at ha
      simp; exact fun h => ha.1 h.symm
    have := ih (fun h => ha (List.mem_cons_of_mem _ h))
    simp [splitOn, hc, this]

theorem splitOn_append (sep : Char) (a rest : List Char) (ha : sep ∉ a) :
    splitOn sep (a ++ sep :: rest) = a :: splitOn sep rest := by
  induction a with
  | nil => simp [splitOn]
  | cons c cs ih =>
    have hc : (c == sep) = false := by
      simp only [List.mem_cons, not_or] at ha
      simp; exact fun h => ha.1 h.symm
    have := ih (fun h => ha (List.mem_cons_of_mem _ h))
    simp [splitOn, hc, this]

theorem dec_facts (c : Char) (h : '0' ≤ c ∧ c ≤ '9') :
    lowerCh c = c ∧ digitVal c = c.toNat - 48 ∧ c ≠ '.' ∧ Generated.Misc3Tables.bcdNumAlphabet.contains c = true := by
  obtain ⟨n, rfl⟩ := digit_cases c h
  revert n
  decide

/-- every character of the generated alphabet is a hex digit, and only the decimal ones have a value ≤ 9 -/
theorem alpha_facts : ∀ c ∈ Generated.Misc3Tables.bcdNumAlphabet,
    digitVal (lowerCh c) < 16 ∧ (digitVal (lowerCh c) ≤ 9 → '0' ≤ c ∧ c ≤ '9') := by
  decide

theorem bcdToDigits_facts (n : Nat) (h : bcdDigitOk n = true) :
    bcdToDigits n ≠ [] ∧ (bcdToDigits n).length ≤ 4 ∧ (∀ c ∈ bcdToDigits n, '0' ≤ c ∧ c ≤ '9') ∧
    (bcdToDigits n).foldl (fun acc c => acc * 16 + (c.toNat - 48)) 0 = n := by
  have hr := bcd_roundtrip' n h
  have hne : bcdToDigits n ≠ [] := by
    simp only [bcdToDigits]
    split <;> simp_all
  unfold bcdFromDigits at hr
  by_cases h1 : (bcdToDigits n).length > 4
  · simp [h1] at hr
  · by_cases h2 : (bcdToDigits n).all (fun c => decide ('0' ≤ c) && decide (c ≤ '9')) = true
    · simp only [h1, if_false, h2, if_true, Except.ok.injEq] at hr
      refine ⟨hne, by omega, ?_, hr⟩
      intro c hc
      have := List.all_eq_true.1 h2 c hc
      simpa using this
    · simp [h1, h2] at hr

theorem bcdNumFromStr_digits (n : Nat) (h : bcdDigitOk n = true) : bcdNumFromStr (bcdToDigits n) = .ok n := by
  obtain ⟨hne, hlen, hd, hv⟩ := bcdToDigits_facts n h
  have hpos : 0 < (bcdToDigits n).length := List.length_pos_iff.2 hne
  have hg : bcdNumFromStrGuard ((bcdToDigits n).length : Int) = .ok true := by
    unfold bcdNumFromStrGuard
    have h1 : ¬ (((bcdToDigits n).length : Int) < 1) := by omega
    have h0 : ¬ (((bcdToDigits n).length : Int) < 0) := by omega
    have h2 : ¬ (((bcdToDigits n).length : Int) > 4) := by omega
    simp [h0, h1, h2]
  have hc : bcdCheckNumber (n : Int) = .ok true := by
    rw [bcdCheckNumber_eq]; simp [h]
  have hall : (bcdToDigits n).all (fun c => Generated.Misc3Tables.bcdNumAlphabet.contains c) = true := by
    rw [List.all_eq_true]; intro c hc'; exact (dec_facts c (hd c hc')).2.2.2
  have hf : ∀ (l : List Char) (acc : Nat), (∀ c ∈ l, '0' ≤ c ∧ c ≤ '9') →
      l.foldl (fun acc c => acc * 16 + digitVal (lowerCh c)) acc = l.foldl (fun acc c => acc * 16 + (c.toNat - 48)) acc := by
    intro l
    induction l with
    | nil => intros; rfl
    | cons c l ih =>
      intro acc hl
      have := dec_facts c (hl c (by simp))
      simp only [List.foldl_cons, this.1, this.2.1]
      exact ih _ (fun c hc => hl c (by simp [hc]))
  simp only [bcdNumFromStr, hexTextValue, hg, hall, if_true, hf _ 0 hd, hv, hc]

/-- what the file branch does, in one expression -/
theorem loadHexFile_eq (content : Bytes) (n : Int) (hn : 1 ≤ n) :
    loadHexFile content n =
      match (asciiText content).bind (fun t => if t.isEmpty then none else valueToInt (with0x t)) with
      | some v => if v < 256 ^ n.toNat then .ok (some (beEnc n.toNat v))
                  else if (content.length : Int) = n then .ok (some content) else .error .spsdk
      | none => if (content.length : Int) = n then .ok (some content) else .error .spsdk := by
  unfold loadHexFile
  cases ht : asciiText content with
  | none => simp
  | some t =>
    by_cases he : t.isEmpty = true
    · have : t = [] := by simpa using he
      subst this; simp
    · have hne : t ≠ [] := by intro h; subst h; simp at he
      simp only [he, Bool.false_eq_true, if_false, Option.bind_some]
      rw [loadHexString_str t n hne hn]
      cases hv : valueToInt (with0x t) with
      | none => simp
      | some v => by_cases hw : v < 256 ^ n.toNat <;> simp [hw]

theorem roundHalfEven_spec (a d : Nat) (hd : 0 < d) :
    2 * (roundHalfEven a d * d) ≤ 2 * a + d ∧ 2 * a ≤ 2 * (roundHalfEven a d * d) + d := by
  have e := Nat.div_add_mod a d
  have l := Nat.mod_lt a hd
  rw [Nat.mul_comm] at e
  unfold roundHalfEven
  by_cases h1 : 2 * (a % d) > d
  · rw [if_pos h1, Nat.add_mul, Nat.one_mul]; omega
  · rw [if_neg h1]
    by_cases h2 : 2 * (a % d) = d
    · rw [if_pos h2]
      rcases Nat.mod_two_eq_zero_or_one (a / d) with h | h <;> rw [h]
      · rw [Nat.add_zero]; omega
      · rw [Nat.add_mul, Nat.one_mul]; omega
    · rw [if_neg h2]; omega

theorem bcdNumFromStr_ok (x : List Char) (n : Nat) (h : bcdNumFromStr x = .ok n) : bcdDigitOk n = true := by
  unfold bcdNumFromStr at h
  split at h
  · cases h
  · split at h
    · split at h
      · cases h
      · rename_i hv
        rw [bcdCheckNumber_eq] at hv
        split at hv
        · rename_i hc
          cases h
          simpa using hc.2
        · cases hv
    · cases h

/-- every refusal of a component is an SPSDK error (fix 619e9e1; `int()` can no longer raise) -/
theorem bcdNumFromStr_err (x : List Char) (e : PyErr) (h : bcdNumFromStr x = .error e) : e = .spsdk := by
  unfold bcdNumFromStr at h
  split at h
  · rename_i e' hg
    cases h
    unfold bcdNumFromStrGuard at hg
    split at hg
    · cases hg; rfl
    · cases hg
  · split at h
    · split at h
      · rename_i e' hv
        cases h
        rw [bcdCheckNumber_eq] at hv
        split at hv
        · cases hv
        · cases hv; rfl
      · cases h
    · cases h; rfl

/-- an accepted component is 1–4 DECIMAL digits — the documented grammar (hex letters pass the alphabet test but fail
    `_check_number`, because with at most four characters every character is a nibble of its own) -/
theorem bcdNumFromStr_grammar (t : List Char) (n : Nat) (h : bcdNumFromStr t = .ok n) :
    1 ≤ t.length ∧ t.length ≤ 4 ∧ ∀ c ∈ t, '0' ≤ c ∧ c ≤ '9' := by
  have hok := bcdNumFromStr_ok t n h
  unfold bcdNumFromStr at h
  split at h
  · cases h
  · rename_i hg
    have hlen : 1 ≤ t.length ∧ t.length ≤ 4 := by
      refine Classical.byContradiction (fun hc => ?_)
      have : bcdNumFromStrGuard (t.length : Int) = .error .spsdk := by
        unfold bcdNumFromStrGuard
        have : ((t.length : Int) < 1) ∨ ((t.length : Int) > 4) := by omega
        rcases this with h' | h' <;> simp [h']
      rw [this] at hg; cases hg
    refine ⟨hlen.1, hlen.2, ?_⟩
    split at h
    · rename_i hall
      split at h
      · cases h
      · cases h
        rw [List.all_eq_true] at hall
        have hm : ∀ c ∈ t, digitVal (lowerCh c) < 16 ∧ (digitVal (lowerCh c) ≤ 9 → '0' ≤ c ∧ c ≤ '9') :=
          fun c hc => alpha_facts c (by simpa using hall c hc)
        simp only [bcdDigitOk, hexTextValue, Bool.and_eq_true, decide_eq_true_eq] at hok
        match t, hlen, hm, hok with
        | [c1], _, hm, hok =>
          have m1 := hm c1 (by simp)
          simp at hok
          intro c hc; simp at hc; subst hc
          exact m1.2 (by omega)
        | [c1, c2], _, hm, hok =>
          have m1 := hm c1 (by simp); have m2 := hm c2 (by simp)
          simp at hok
          intro c hc; simp at hc
          rcases hc with rfl | rfl
          · exact m1.2 (by omega)
          · exact m2.2 (by omega)
        | [c1, c2, c3], _, hm, hok =>
          have m1 := hm c1 (by simp); have m2 := hm c2 (by simp); have m3 := hm c3 (by simp)
          simp at hok
          intro c hc; simp at hc
          rcases hc with rfl | rfl | rfl
          · exact m1.2 (by omega)
          · exact m2.2 (by omega)
          · exact m3.2 (by omega)
        | [c1, c2, c3, c4], _, hm, hok =>
          have m1 := hm c1 (by simp); have m2 := hm c2 (by simp); have m3 := hm c3 (by simp); have m4 := hm c4 (by simp)
          simp at hok
          intro c hc; simp at hc
          rcases hc with rfl | rfl | rfl | rfl
          · exact m1.2 (by omega)
          · exact m2.2 (by omega)
          · exact m3.2 (by omega)
          · exact m4.2 (by omega)
        | [], hl, _, _ => simp at hl
        | _ :: _ :: _ :: _ :: _ :: _, hl, _, _ => simp at hl
    · cases h

/-- the division count of the `size_fmt` loop: `k ≤ r ≤ k + #units`; the value is at least `base^r` (unless nothing was
    divided), and below `base^(r+1)` UNLESS the loop ran off the end of the unit list (`r = k + #units`) -/
theorem sizeFmtLoop_spec (base n : Nat) (units : List (List Char)) :
    ∀ (k : Nat) (last : List Char), (k = 0 ∨ base ^ k ≤ n) →
      (((sizeFmtLoop base n units k last).1 = 0 ∨ base ^ (sizeFmtLoop base n units k last).1 ≤ n) ∧
       ((sizeFmtLoop base n units k last).1 < k + units.length → n < base ^ ((sizeFmtLoop base n units k last).1 + 1)) ∧
       k ≤ (sizeFmtLoop base n units k last).1 ∧ (sizeFmtLoop base n units k last).1 ≤ k + units.length) := by
  induction units with
  | nil => intro k last h; simp [sizeFmtLoop, h]
  | cons u us ih =>
    intro k last h
    by_cases hlt : n < base ^ (k + 1)
    · simp [sizeFmtLoop, hlt, h]
    · have hge : base ^ (k + 1) ≤ n := by omega
      obtain ⟨a, b, c, d⟩ := ih (k + 1) u (Or.inr hge)
      simp only [sizeFmtLoop, hlt, if_false, List.length_cons]
      exact ⟨a, fun hh => b (by omega), by omega, by omega⟩

end SpsdkVerif.Misc
