/-
Helper lemmas for the phase-3 part of C20 (Model/Misc3.lean): `str.split`, Python `int(text, 16)` on decimal digit strings,
the BCD text form, the file branch of `load_hex_string`, round-half-even, the `size_fmt` loop.  Core Lean only.
-/
import SpsdkVerif.Model.Misc3
import SpsdkVerif.Proofs.Misc
import SpsdkVerif.Proofs.Misc2

namespace SpsdkVerif.Misc
open SpsdkVerif SpsdkVerif.Generated.PyFuns2 SpsdkVerif.Generated.PyFuns3

/-! helper lemmas (Proofs/Misc3.lean) -/
theorem splitOn_ne_nil (sep : Char) (s : List Char) : splitOn sep s ≠ [] := by
  cases s with
  | nil => simp [splitOn]
  | cons c cs =>
    rw [splitOn]
    split
    · simp
    · split <;> simp

theorem splitOn_nosep (sep : Char) (a : List Char) (ha : sep ∉ a) : splitOn sep a = [a] := by
  induction a with
  | nil => rfl
  | cons c cs ih =>
    have hc : (c == sep) = false := by
      simp only [List.mem_cons, not_or] at ha
      simp; exact fun h => ha.1 h.symm
    have := ih (fun h => ha (List.mem_cons_of_mem _ h))
    simp [splitOn, hc, this]

theorem splitOn_append (sep : Char) (a rest : List Char) (ha : sep ∉ a) :
    splitOn sep (a ++ sep :: rest) = a :: splitOn sep rest := by
  induction a with
  | nil => simp [splitOn]
  | cons c cs ih =>
    have hc : (c == sep) = false := by
      simp only [List.mem_cons, not_or] at ha
      simp; exact fun h => ha.1 h.symm
    have := ih (fun h => ha (List.mem_cons_of_mem _ h))
    simp [splitOn, hc, this]

theorem dec_facts (c : Char) (h : '0' ≤ c ∧ c ≤ '9') :
    isWsC c = false ∧ lowerCh c = c ∧ c ≠ '_' ∧ digitVal c < 16 ∧ digitVal c = c.toNat - 48 ∧
    c ≠ 'x' ∧ c ≠ '-' ∧ c ≠ '+' ∧ c ≠ '.' := by
  obtain ⟨n, rfl⟩ := digit_cases c h
  revert n
  decide

theorem stripC_eq_self (s : List Char) (h : ∀ c ∈ s, isWsC c = false) : stripC s = s := by
  unfold stripC
  rw [dropWhile_head_false isWsC s, dropWhile_head_false isWsC s.reverse, List.reverse_reverse]
  · intro x hx; exact h x (by simpa using List.mem_of_mem_head? hx)
  · intro x hx; exact h x (List.mem_of_mem_head? hx)

theorem pyIntHex_decimal (cs : List Char) (hne : cs ≠ []) (hd : ∀ c ∈ cs, '0' ≤ c ∧ c ≤ '9') :
    pyIntHex cs = some ((cs.foldl (fun acc c => acc * 16 + (c.toNat - 48)) 0 : Nat) : Int) := by
  have hf := fun c hc => dec_facts c (hd c hc)
  have h1 : stripC cs = cs := stripC_eq_self cs (fun c hc => (hf c hc).1)
  have h2 : cs.map lowerCh = cs := by
    conv => rhs; rw [← List.map_id cs]
    exact List.map_congr_left (fun c hc => (hf c hc).2.1)
  have h3 : signSplit cs = (false, cs) := by
    cases cs with
    | nil => rfl
    | cons c0 r =>
      have := hf c0 (by simp)
      unfold signSplit
      split <;> simp_all
  have h4 : dropHexPrefix cs = cs := by
    rcases cs with _ | ⟨c0, _ | ⟨c1, r⟩⟩
    · rfl
    · unfold dropHexPrefix; split <;> simp_all
    · have := hf c1 (by simp)
      unfold dropHexPrefix
      split <;> simp_all
  have h5 : hexBodyValue cs = digitsValue 16 cs false 0 := by
    cases cs with
    | nil => exact absurd rfl hne
    | cons c0 r =>
      have := hf c0 (by simp)
      unfold hexBodyValue
      split <;> simp_all
  have h6 := digitsValue_digits 16 cs 0 (fun c hc => ⟨(hf c hc).2.2.1, (hf c hc).2.2.2.1⟩)
  have h7 : ∀ (l : List Char) (acc : Nat), (∀ c ∈ l, '0' ≤ c ∧ c ≤ '9') →
      l.foldl (fun acc c => acc * 16 + digitVal c) acc = l.foldl (fun acc c => acc * 16 + (c.toNat - 48)) acc := by
    intro l
    induction l with
    | nil => intros; rfl
    | cons c l ih =>
      intro acc hl
      simp only [List.foldl_cons, (dec_facts c (hl c (by simp))).2.2.2.2.1]
      exact ih _ (fun c hc => hl c (by simp [hc]))
  simp only [pyIntHex, h1, h3, h2, h4, h5, h6, h7 cs 0 hd, Bool.false_eq_true, if_false]
  rfl

theorem bcdToDigits_facts (n : Nat) (h : bcdDigitOk n = true) :
    bcdToDigits n ≠ [] ∧ (bcdToDigits n).length ≤ 4 ∧ (∀ c ∈ bcdToDigits n, '0' ≤ c ∧ c ≤ '9') ∧
    (bcdToDigits n).foldl (fun acc c => acc * 16 + (c.toNat - 48)) 0 = n := by
  have hr := bcd_roundtrip' n h
  have hne : bcdToDigits n ≠ [] := by
    simp only [bcdToDigits]
    split <;> simp_all
  unfold bcdFromDigits at hr
  by_cases h1 : (bcdToDigits n).length > 4
  · simp [h1] at hr
  · by_cases h2 : (bcdToDigits n).all (fun c => decide ('0' ≤ c) && decide (c ≤ '9')) = true
    · simp only [h1, if_false, h2, if_true, Except.ok.injEq] at hr
      refine ⟨hne, by omega, ?_, hr⟩
      intro c hc
      have := List.all_eq_true.1 h2 c hc
      simpa using this
    · simp [h1, h2] at hr

theorem bcdNumFromStr_digits (n : Nat) (h : bcdDigitOk n = true) : bcdNumFromStr (bcdToDigits n) = .ok n := by
  obtain ⟨hne, hlen, hd, hv⟩ := bcdToDigits_facts n h
  have hg : bcdNumFromStrGuard ((bcdToDigits n).length : Int) = .ok true := by
    unfold bcdNumFromStrGuard
    have h1 : ¬ (((bcdToDigits n).length : Int) < 0) := by omega
    have h2 : ¬ (((bcdToDigits n).length : Int) > 4) := by omega
    simp [h1, h2]
  have hc : bcdCheckNumber (n : Int) = .ok true := by
    rw [bcdCheckNumber_eq]; simp [h]
  simp only [bcdNumFromStr, hg, pyIntHex_decimal _ hne hd, hv, hc, Int.toNat_natCast]


/-- what the file branch does, in one expression -/
theorem loadHexFile_eq (content : Bytes) (n : Int) (hn : 1 ≤ n) :
    loadHexFile content n =
      match (asciiText content).bind (fun t => if t.isEmpty then none else valueToInt (with0x t)) with
      | some v => if v < 256 ^ n.toNat then .ok (some (beEnc n.toNat v))
                  else if (content.length : Int) = n then .ok (some content) else .error .spsdk
      | none => if (content.length : Int) = n then .ok (some content) else .error .spsdk := by
  unfold loadHexFile
  cases ht : asciiText content with
  | none => simp
  | some t =>
    by_cases he : t.isEmpty = true
    · have : t = [] := by simpa using he
      subst this; simp
    · have hne : t ≠ [] := by intro h; subst h; simp at he
      simp only [he, Bool.false_eq_true, if_false, Option.bind_some]
      rw [loadHexString_str t n hne hn]
      cases hv : valueToInt (with0x t) with
      | none => simp
      | some v => by_cases hw : v < 256 ^ n.toNat <;> simp [hw]

theorem roundHalfEven_spec (a d : Nat) (hd : 0 < d) :
    2 * (roundHalfEven a d * d) ≤ 2 * a + d ∧ 2 * a ≤ 2 * (roundHalfEven a d * d) + d := by
  have e := Nat.div_add_mod a d
  have l := Nat.mod_lt a hd
  rw [Nat.mul_comm] at e
  unfold roundHalfEven
  by_cases h1 : 2 * (a % d) > d
  · rw [if_pos h1, Nat.add_mul, Nat.one_mul]; omega
  · rw [if_neg h1]
    by_cases h2 : 2 * (a % d) = d
    · rw [if_pos h2]
      rcases Nat.mod_two_eq_zero_or_one (a / d) with h | h <;> rw [h]
      · rw [Nat.add_zero]; omega
      · rw [Nat.add_mul, Nat.one_mul]; omega
    · rw [if_neg h2]; omega

theorem bcdNumFromStr_ok (x : List Char) (n : Nat) (h : bcdNumFromStr x = .ok n) : bcdDigitOk n = true := by
  unfold bcdNumFromStr at h
  split at h
  · cases h
  · split at h
    · cases h
    · rename_i v hv
      rw [bcdCheckNumber_eq] at h
      by_cases hc : 0 ≤ v ∧ bcdDigitOk v.toNat = true
      · simp only [hc, and_self, if_true] at h
        cases h; exact hc.2
      · simp [hc] at h


/-- the division count of the `size_fmt` loop: `k ≤ r ≤ k + #units`; the value is at least `base^r` (unless nothing was
    divided), and below `base^(r+1)` UNLESS the loop ran off the end of the unit list (`r = k + #units`) -/
theorem sizeFmtLoop_spec (base n : Nat) (units : List (List Char)) :
    ∀ (k : Nat) (last : List Char), (k = 0 ∨ base ^ k ≤ n) →
      (((sizeFmtLoop base n units k last).1 = 0 ∨ base ^ (sizeFmtLoop base n units k last).1 ≤ n) ∧
       ((sizeFmtLoop base n units k last).1 < k + units.length → n < base ^ ((sizeFmtLoop base n units k last).1 + 1)) ∧
       k ≤ (sizeFmtLoop base n units k last).1 ∧ (sizeFmtLoop base n units k last).1 ≤ k + units.length) := by
  induction units with
  | nil => intro k last h; simp [sizeFmtLoop, h]
  | cons u us ih =>
    intro k last h
    by_cases hlt : n < base ^ (k + 1)
    · simp [sizeFmtLoop, hlt, h]
    · have hge : base ^ (k + 1) ≤ n := by omega
      obtain ⟨a, b, c, d⟩ := ih (k + 1) u (Or.inr hge)
      simp only [sizeFmtLoop, hlt, if_false, List.length_cons]
      exact ⟨a, fun hh => b (by omega), by omega, by omega⟩

end SpsdkVerif.Misc
