/-
C14 proofs, part 4: the `Delimit` assumption of the parse theorems DISCHARGED for application containers from the
finished container models (instead of assumed):

  * MBI  - `SegmentMbi.parse_binary` = `MasterBootImage.parse` (class selection, parse pipeline) + `validate()`, raw block :=
           whole rest.  From C01 `parse_export` (the pipeline accepts what `exportImage` emitted) and `reexport` (the parsed
           configuration exports again, hence validates).  The class selection by image type has no theorem in C01; it is the
           explicit hypothesis `hsel` (`Mbi.selectClass … e = some c`).
  * HAB  - `SegmentHab.parse_binary` = `HabContainer.parse`, raw block := whole rest.  From the C07 round trips, composed in
           Properties/C14.lean: `hab_roundtrip_signed` (signed / encrypted: full strength) and `hab_roundtrip_unsigned`
           (under the decidable `AppVisible`: the application-offset heuristic finds the application, known finding of C07).

AHAB, SB2.1 and SB3.1: see the note at the end of the file (the foreign models have no model of `AHABImage.parse` /
`__len__` after parse, `ImageHeaderV2.parse`, `SecureBinary31Header.parse`+`validate`).
-/
import SpsdkVerif.Properties.C01
import SpsdkVerif.Properties.C07
import SpsdkVerif.Proofs.Sb31
import SpsdkVerif.Proofs.BimgParse

namespace SpsdkVerif.Bimg
open SpsdkVerif SpsdkVerif.Misc
open SpsdkVerif.Crypto (CryptoOps CryptoLaws)

/-! ### MBI -/

/-- the external part of `SegmentMbi.parse_binary` on the C01 model: `MasterBootImage.parse(family, data)` - class selection
    among the family's classes (`fixedType` = the database's `fixed_image_type`, -1 = read from the IVT flags), parse pipeline -
    then `mbi.validate()`; the container object stands for all the bytes it was given -/
def mbiApp (co : CryptoOps) (env : Mbi.Env) (fixedType : Int) (family : List Mbi.Cls) (dek : Option Bytes)
    (data : Bytes) : Option Nat :=
  match Mbi.selectClass fixedType family data with
  | none => none
  | some c =>
    match Mbi.parseImage co env c dek data with
    | .error _ => none
    | .ok p =>
      match Mbi.validate c p.toCfg with
      | .ok _ => some data.length
      | .error _ => none

theorem bimgD_validate_of_export (co : CryptoOps) (c : Mbi.Cls) (cfg : Mbi.Cfg) (signer : Mbi.Signer) (e : Bytes)
    (h : Mbi.exportImage co c cfg signer = .ok e) : Mbi.validate c cfg = .ok () := by
  unfold Mbi.exportImage at h
  cases hv : Mbi.validate c cfg with
  | ok u => rfl
  | error err =>
    rw [hv] at h
    simp [bind, Except.bind] at h

/-- the MBI parser of the bootable image accepts every image the MBI exporter emits (any well-formed class and option set) -/
theorem mbi_accepts' {co : CryptoOps} {env : Mbi.Env} {c : Mbi.Cls} {cfg : Mbi.Cfg} {signer : Mbi.Signer}
    (h : Mbi.Hyp co env c cfg signer) (fixedType : Int) (family : List Mbi.Cls) (dek : Option Bytes)
    (hdek : c.has .Mbi_MixinHmac = true → dek = cfg.hmacKey) (hdek' : c.family = some .encrypted → dek = cfg.hmacKey)
    (e : Bytes) (he : Mbi.exportImage co c cfg signer = .ok e)
    (hsel : Mbi.selectClass fixedType family e = some c) :
    mbiApp co env fixedType family dek e = some e.length := by
  obtain ⟨e1, he1, hp⟩ := SpsdkVerif.Properties.C01.parse_export h dek hdek'
  obtain ⟨e2, e', he2, he', _⟩ := SpsdkVerif.Properties.C01.reexport h signer h.hsig dek hdek
  have h1 : e1 = e := by rw [he] at he1; injection he1 with h'; exact h'.symm
  subst h1
  have hv := bimgD_validate_of_export co c _ signer e' he'
  unfold mbiApp
  rw [hsel]
  simp only []
  rw [hp]
  simp only []
  rw [hv]

/-- `Delimit.good` for an MBI segment: with the external parser given by the C01 model, an exported MBI standing at the end of
    the image (MBI segments are last in every table row, `greedyLast`) is recovered unchanged -/
theorem mbi_delimits' {co : CryptoOps} {env : Mbi.Env} {c : Mbi.Cls} {cfg : Mbi.Cfg} {signer : Mbi.Signer}
    (h : Mbi.Hyp co env c cfg signer) (fixedType : Int) (family : List Mbi.Cls) (dek : Option Bytes)
    (hdek : c.has .Mbi_MixinHmac = true → dek = cfg.hmacKey) (hdek' : c.family = some .encrypted → dek = cfg.hmacKey)
    (e : Bytes) (he : Mbi.exportImage co c cfg signer = .ok e) (hne : e ≠ [])
    (hsel : Mbi.selectClass fixedType family e = some c)
    (ext : Ext) (fcbSup : Bool) (s : Seg) (hp : s.parser = .greedy) (hsz : s.size < 0)
    (hext : ∀ data, ext.app s.kind data = mbiApp co env fixedType family dek data) :
    parseSeg ext fcbSup s (e ++ []) = .present e := by
  apply app_delimits' ext fcbSup s e [] (Or.inr ⟨Or.inl hp, rfl⟩) hsz hne
  rw [hext, List.append_nil]
  exact mbi_accepts' h fixedType family dek hdek hdek' e he hsel

/-! ### HAB -/

/-- the external part of `SegmentHab.parse_binary`: `HabContainer.parse(data)` -/
def habApp (data : Bytes) : Option Nat :=
  match Hab.parse data with
  | .ok _ => some data.length
  | .error _ => none

/-- the HAB parser of the bootable image accepts every container for which `HabContainer.parse` round-trips (`hrt` is the
    conclusion of C07 `hab_roundtrip_partial`; the composition with that theorem's hypotheses is in Properties/C14.lean) -/
theorem hab_accepts_of_roundtrip' (c : Hab.Cfg) (b : Hab.Built) (p : Hab.Parsed)
    (hrt : Hab.parse (Hab.exportImage c b) = .ok p) :
    habApp (Hab.exportImage c b) = some (Hab.exportImage c b).length := by
  unfold habApp
  rw [hrt]

theorem hab_delimits_of_roundtrip' (c : Hab.Cfg) (b : Hab.Built) (p : Hab.Parsed)
    (hrt : Hab.parse (Hab.exportImage c b) = .ok p) (hne : Hab.exportImage c b ≠ [])
    (ext : Ext) (fcbSup : Bool) (s : Seg) (hp : s.parser = .greedy) (hsz : s.size < 0)
    (hext : ∀ data, ext.app s.kind data = habApp data) :
    parseSeg ext fcbSup s (Hab.exportImage c b ++ []) = .present (Hab.exportImage c b) := by
  apply app_delimits' ext fcbSup s _ [] (Or.inr ⟨Or.inl hp, rfl⟩) hsz hne
  rw [hext, List.append_nil]
  exact hab_accepts_of_roundtrip' c b p hrt

/-! ### SB3.1 (header acceptance as the ROM model of C05 reads it) -/

/-- the external part of `SegmentSB31.parse_binary`: `SecureBinary31.validate_header(data)`.  C05 has no model of the Python
    `SecureBinary31Header.parse` + `validate()`; this is the header reader of its ROM model (same 60-byte layout: magic, version
    3.1, eight integer fields, description) -/
def sb31App (data : Bytes) : Option Nat :=
  match Sb31.Rom.parseHeader data with
  | .ok _ => some data.length
  | .error _ => none

/-- every file that begins with an encoded SB3.1 header whose fields fit is accepted, whatever follows -/
theorem sb31_accepts' (h : Sb31.Header) (wf : Sb31.Spec.HeaderWF h) (body : Bytes) :
    sb31App (Sb31.encHeader h ++ body) = some (Sb31.encHeader h ++ body).length := by
  unfold sb31App
  rw [Sb31.parseHeader_enc h wf body]

theorem sb31_delimits' (h : Sb31.Header) (wf : Sb31.Spec.HeaderWF h) (body : Bytes)
    (ext : Ext) (fcbSup : Bool) (s : Seg) (hp : s.parser = .sb) (hsz : s.size < 0)
    (hext : ∀ data, ext.app s.kind data = sb31App data) :
    parseSeg ext fcbSup s ((Sb31.encHeader h ++ body) ++ []) = .present (Sb31.encHeader h ++ body) := by
  have hne : Sb31.encHeader h ++ body ≠ [] := by
    intro he
    have := congrArg List.length he
    simp [Sb31.encHeader, Generated.Sb31Consts.hdrMagic] at this
  apply app_delimits' ext fcbSup s _ [] (Or.inr ⟨Or.inr hp, rfl⟩) hsz hne
  rw [hext, List.append_nil]
  exact sb31_accepts' h wf body

/-! ### end to end for the MBI rows: no assumption on the container parser left -/

theorem bimgD_segOK_iv (pat : Pattern) (s : Seg) (h : segOK pat s = true)
    (hp : s.parser = .imageVersion ∨ s.parser = .imageVersionAp) : s.size = 4 := by
  unfold segOK at h
  simp only [Bool.and_eq_true, Bool.or_eq_true, decide_eq_true_eq, bne_iff_ne, beq_iff_eq, ne_eq] at h
  obtain ⟨⟨⟨⟨⟨⟨⟨⟨⟨⟨⟨_, _⟩, _⟩, _⟩, h5⟩, h6⟩, _⟩, _⟩, _⟩, _⟩, _⟩, _⟩ := h
  rcases hp with hp | hp
  · rcases h6 with h | h
    · exact absurd hp h
    · exact h
  · rcases h5 with h | h
    · exact absurd hp h
    · exact h

/-- Rows whose segments are raw headers, image-version words, an FCB and an MBI (internal, recovery_spi_mbi, sd/emmc,
    the flexspi_nor rows of LPC55S3x / MCX N / RW61x / RT5xx / RT6xx): parsing the exported image recovers every supplied segment
    at its offset, for every init offset, with the container parser GIVEN BY THE C01 MODEL - the remaining hypotheses are about the
    supplied bytes only: raw headers have their SIZE and are not padding, version words have 4 bytes, the FCB carries the tag
    (and `FCB.parse` accepts it where the family has FCB support), the MBI is `exportImage` of a well-formed class / option
    set that the class selection picks. -/
theorem parse_export_mbi_row' {co : CryptoOps} {env : Mbi.Env} {c : Mbi.Cls} {cfg : Mbi.Cfg} {signer : Mbi.Signer}
    (hm : Mbi.Hyp co env c cfg signer) (fixedType : Int) (family : List Mbi.Cls) (dek : Option Bytes)
    (hdek : c.has .Mbi_MixinHmac = true → dek = cfg.hmacKey) (hdek' : c.family = some .encrypted → dek = cfg.hmacKey)
    (e : Bytes) (he : Mbi.exportImage co c cfg signer = .ok e)
    (hsel : Mbi.selectClass fixedType family e = some c)
    (ext : Ext) (fcbSup : Bool) (d : Desc) (init : Nat) (raws : List (Option Bytes))
    (h : Ctx d init raws) (hsup : Supplied init (mkSlots d.segs raws))
    (hkinds : ∀ s ∈ mkSlots d.segs raws, s.seg.parser = .raw ∨ s.seg.parser = .imageVersion ∨ s.seg.parser = .imageVersionAp ∨
      s.seg.parser = .fcb ∨ s.seg.parser = .greedy)
    (hext : ∀ s ∈ mkSlots d.segs raws, s.seg.parser = .greedy → ∀ data, ext.app s.seg.kind data = mbiApp co env fixedType family dek data)
    (hraw : ∀ s ∈ mkSlots d.segs raws, s.present init = true → s.seg.parser = .raw →
      (s.bytes.length : Int) = s.seg.size ∧ isPadding s.seg s.bytes = false)
    (hiv : ∀ s ∈ mkSlots d.segs raws, s.present init = true →
      (s.seg.parser = .imageVersion ∨ s.seg.parser = .imageVersionAp) → s.bytes.length = 4)
    (hfcb : ∀ s ∈ mkSlots d.segs raws, s.present init = true → s.seg.parser = .fcb →
      (s.bytes.length : Int) = s.seg.size ∧
      (s.bytes.take 4 = Generated.BimgTables.fcbTag ∨ s.bytes.take 4 = Generated.BimgTables.fcbTagSwapped) ∧
      (fcbSup = true → ext.fcbOk s.bytes = true) ∧ (fcbSup = false → isPadding s.seg s.bytes = false))
    (hmbi : ∀ s ∈ mkSlots d.segs raws, s.present init = true → s.seg.parser = .greedy → s.bytes = e)
    (b : Bytes) (hb : exportImg d init raws = .ok b) :
    walk ext fcbSup init d.segs b = .ok (expectedFound init (mkSlots d.segs raws)) := by
  have hparts := bimg_descOK_parts d h.ok
  have hsegOK : ∀ s ∈ mkSlots d.segs raws, segOK d.pattern s.seg = true := by
    intro s hs
    have hmap := bimg_mkSlots_segs d.segs raws h.len
    have : s.seg ∈ d.segs := by
      rw [← hmap]; exact List.mem_map_of_mem (f := fun x : Slot => x.seg) hs
    exact hparts.2.1 _ this
  refine parse_export' ext fcbSup d init raws h hsup ⟨?_, ?_⟩ b hb
  · intro s hs hp rest hrest
    have hok := hsegOK s hs
    have P := bimgP_segOK_parts d.pattern s.seg hok
    rcases hkinds s hs with hk | hk | hk | hk | hk
    · obtain ⟨hl, hnp⟩ := hraw s hs hp hk
      have hbh : s.seg.bootHeader = true := by
        cases hbb : s.seg.bootHeader with
        | true => rfl
        | false =>
          rcases P.2.2.2.2.2.2.2.1 hbb with h' | h' | h' <;> rw [hk] at h' <;> cases h'
      exact raw_delimits' ext fcbSup s.seg s.bytes rest hk (P.2.2.2.2.2.1 hk hbh) hl hnp
    · exact imageVersion_delimits' ext fcbSup s.seg s.bytes rest (Or.inl hk) (bimgD_segOK_iv _ _ hok (Or.inl hk)) (hiv s hs hp (Or.inl hk))
    · exact imageVersion_delimits' ext fcbSup s.seg s.bytes rest (Or.inr hk) (bimgD_segOK_iv _ _ hok (Or.inr hk)) (hiv s hs hp (Or.inr hk))
    · obtain ⟨hl, htag, hokf, hnp⟩ := hfcb s hs hp hk
      exact fcb_delimits' ext fcbSup s.seg s.bytes rest hk (P.2.2.2.1 hk) hl htag hokf hnp
    · have hrest' : rest = [] := hrest (Or.inl hk)
      subst hrest'
      have hbe := hmbi s hs hp hk
      rw [hbe]
      have hne : e ≠ [] := by
        intro hnil
        have hpos := (bimg_present_iff (init := init) (s := s)).1 hp
        have hlen := bimg_bytes_length (s := s)
        rw [hbe, hnil] at hlen
        simp at hlen
        omega
      exact mbi_delimits' hm fixedType family dek hdek hdek' e he hne hsel ext fcbSup s.seg hk
        (P.2.2.2.2.2.2.1 (Or.inl hk)).1 (hext s hs hk)
  · intro s hs hp hf rest
    have P := bimgP_segOK_parts d.pattern s.seg (hsegOK s hs)
    have := P.2.2.2.2.2.2.2.2.1 hf
    rcases hkinds s hs with hk | hk | hk | hk | hk <;> rw [hk] at this <;> cases this

/-!
### not discharged - what is missing in the foreign models

* AHAB (`Model/Ahab.lean`, C06): the model has `Image.export`, `imageLength`, `decodeHeader`/`decodeIaes` and a ROM walk
  (`rom_accepts`), but no model of `AHABImage.parse` over a whole image (the loop over container offsets) nor of `__len__`
  of the parsed object.  `Delimit` needs: `parse (bin ++ rest) = ok img'` with `length img' = bin.length` for
  `bin = Image.export …`, and `find_offset_of_ahab (bin ++ rest) = 0` (container head at offset 0).
* SB2.1 (`Model/Sb2.lean`, C04): `ImageHeaderV2.parse` is not modelled as a function on bytes (the ROM model `Rom` reads
  the header fields it needs); needed: `headerParse (file) = ok _` for `file = export cfg`.
* SB3.1 (`Model/Sb31.lean`, C05): discharged above against the ROM model's header reader only; a model of the Python
  `SecureBinary31Header.parse` + `validate()` (and `(exportSb …).2 = encHeader _ ++ _` as a standalone lemma) is missing.
For AHAB and SB2.1 `Delimit` stays an assumption validated by running the real parsers on every generated container.
-/

end SpsdkVerif.Bimg
