/-
C14 proofs, part 4: the `Delimit` assumption of the parse theorems DISCHARGED for application containers from the
finished container models (instead of assumed):

  * MBI  - `SegmentMbi.parse_binary` = `MasterBootImage.parse` (class selection, parse pipeline) + `validate()`, raw block :=
           whole rest.  From C01 `parse_export` (the pipeline accepts what `exportImage` emitted) and `reexport` (the parsed
           configuration exports again, hence validates).  The class selection by image type has no theorem in C01; it is the
           explicit hypothesis `hsel` (`Mbi.selectClass … e = some c`).
  * HAB  - `SegmentHab.parse_binary` = `HabContainer.parse`, raw block := whole rest.  From C07 `hab_roundtrip_partial`
           (inherits its hypothesis `hvis`: the application offset heuristic finds the application, known finding of C07).

AHAB, SB2.1 and SB3.1: see the note at the end of the file (the foreign models have no model of `AHABImage.parse` /
`__len__` after parse, `ImageHeaderV2.parse`, `SecureBinary31Header.parse`+`validate`).
-/
import SpsdkVerif.Properties.C01
import SpsdkVerif.Properties.C07
import SpsdkVerif.Proofs.Sb31
import SpsdkVerif.Proofs.BimgParse

namespace SpsdkVerif.Bimg
open SpsdkVerif SpsdkVerif.Misc
open SpsdkVerif.Crypto (CryptoOps CryptoLaws)

/-! ### MBI -/

/-- the external part of `SegmentMbi.parse_binary` on the C01 model: `MasterBootImage.parse(family, data)` - class selection
    among the family's classes (`fixedType` = the database's `fixed_image_type`, -1 = read from the IVT flags), parse pipeline -
    then `mbi.validate()`; the container object stands for all the bytes it was given -/
def mbiApp (co : CryptoOps) (env : Mbi.Env) (fixedType : Int) (family : List Mbi.Cls) (dek : Option Bytes)
    (data : Bytes) : Option Nat :=
  match Mbi.selectClass fixedType family data with
  | none => none
  | some c =>
    match Mbi.parseImage co env c dek data with
    | .error _ => none
    | .ok p =>
      match Mbi.validate c p.toCfg with
      | .ok _ => some data.length
      | .error _ => none

theorem bimgD_validate_of_export (co : CryptoOps) (c : Mbi.Cls) (cfg : Mbi.Cfg) (signer : Mbi.Signer) (e : Bytes)
    (h : Mbi.exportImage co c cfg signer = .ok e) : Mbi.validate c cfg = .ok () := by
  unfold Mbi.exportImage at h
  cases hv : Mbi.validate c cfg with
  | ok u => rfl
  | error err =>
    rw [hv] at h
    simp [bind, Except.bind] at h

/-- the MBI parser of the bootable image accepts every image the MBI exporter emits (any well-formed class and option set) -/
theorem mbi_accepts' {co : CryptoOps} {env : Mbi.Env} {c : Mbi.Cls} {cfg : Mbi.Cfg} {signer : Mbi.Signer}
    (h : Mbi.Hyp co env c cfg signer) (fixedType : Int) (family : List Mbi.Cls) (dek : Option Bytes)
    (hdek : c.has .Mbi_MixinHmac = true → dek = cfg.hmacKey) (hdek' : c.family = some .encrypted → dek = cfg.hmacKey)
    (e : Bytes) (he : Mbi.exportImage co c cfg signer = .ok e)
    (hsel : Mbi.selectClass fixedType family e = some c) :
    mbiApp co env fixedType family dek e = some e.length := by
  obtain ⟨e1, he1, hp⟩ := SpsdkVerif.Properties.C01.parse_export h dek hdek'
  obtain ⟨e2, e', he2, he', _⟩ := SpsdkVerif.Properties.C01.reexport h signer h.hsig dek hdek
  have h1 : e1 = e := by rw [he] at he1; injection he1 with h'; exact h'.symm
  subst h1
  have hv := bimgD_validate_of_export co c _ signer e' he'
  unfold mbiApp
  rw [hsel]
  simp only []
  rw [hp]
  simp only []
  rw [hv]

/-- `Delimit.good` for an MBI segment: with the external parser given by the C01 model, an exported MBI standing at the end of
    the image (MBI segments are last in every table row, `greedyLast`) is recovered unchanged -/
theorem mbi_delimits' {co : CryptoOps} {env : Mbi.Env} {c : Mbi.Cls} {cfg : Mbi.Cfg} {signer : Mbi.Signer}
    (h : Mbi.Hyp co env c cfg signer) (fixedType : Int) (family : List Mbi.Cls) (dek : Option Bytes)
    (hdek : c.has .Mbi_MixinHmac = true → dek = cfg.hmacKey) (hdek' : c.family = some .encrypted → dek = cfg.hmacKey)
    (e : Bytes) (he : Mbi.exportImage co c cfg signer = .ok e) (hne : e ≠ [])
    (hsel : Mbi.selectClass fixedType family e = some c)
    (ext : Ext) (fcbSup : Bool) (s : Seg) (hp : s.parser = .greedy) (hsz : s.size < 0)
    (hext : ∀ data, ext.app s.kind data = mbiApp co env fixedType family dek data) :
    parseSeg ext fcbSup s (e ++ []) = .present e := by
  apply app_delimits' ext fcbSup s e [] (Or.inr ⟨Or.inl hp, rfl⟩) hsz hne
  rw [hext, List.append_nil]
  exact mbi_accepts' h fixedType family dek hdek hdek' e he hsel

/-! ### HAB -/

/-- the external part of `SegmentHab.parse_binary`: `HabContainer.parse(data)` -/
def habApp (data : Bytes) : Option Nat :=
  match Hab.parse data with
  | .ok _ => some data.length
  | .error _ => none

/-- the HAB parser of the bootable image accepts every container the HAB exporter emits - under the hypotheses of C07
    `hab_roundtrip_partial`, in particular `hvis`: the application-offset heuristic of `HabContainer.parse` finds the
    application (false for some configurations, C07's known finding) -/
theorem hab_accepts_partial' (c : Hab.Cfg) (b : Hab.Built) (h : c.WF)
    (hd : ∀ d, c.dcd = some d → Hab.DcdWF d) (hx : ∀ x, c.xmcd = some x → Hab.XmcdWF x)
    (happ : b.app.length = c.appBin.length)
    (hc : c.hasCsf = true → Hab.CsfWF c.version b.cmds ∧ (Hab.getAut 2 b.cmds).isSome = Hab.isEnc c.flags)
    (hvis : Hab.findAppOffset (Hab.exportImage c b) c.entry Generated.HabConsts.knownAppOffsets = some c.appOff) :
    habApp (Hab.exportImage c b) = some (Hab.exportImage c b).length := by
  unfold habApp
  rw [SpsdkVerif.C07.hab_roundtrip_partial c b h hd hx happ hc hvis]

theorem hab_delimits_partial' (c : Hab.Cfg) (b : Hab.Built) (h : c.WF)
    (hd : ∀ d, c.dcd = some d → Hab.DcdWF d) (hx : ∀ x, c.xmcd = some x → Hab.XmcdWF x)
    (happ : b.app.length = c.appBin.length)
    (hc : c.hasCsf = true → Hab.CsfWF c.version b.cmds ∧ (Hab.getAut 2 b.cmds).isSome = Hab.isEnc c.flags)
    (hvis : Hab.findAppOffset (Hab.exportImage c b) c.entry Generated.HabConsts.knownAppOffsets = some c.appOff)
    (hne : Hab.exportImage c b ≠ [])
    (ext : Ext) (fcbSup : Bool) (s : Seg) (hp : s.parser = .greedy) (hsz : s.size < 0)
    (hext : ∀ data, ext.app s.kind data = habApp data) :
    parseSeg ext fcbSup s (Hab.exportImage c b ++ []) = .present (Hab.exportImage c b) := by
  apply app_delimits' ext fcbSup s _ [] (Or.inr ⟨Or.inl hp, rfl⟩) hsz hne
  rw [hext, List.append_nil]
  exact hab_accepts_partial' c b h hd hx happ hc hvis

/-! ### SB3.1 (header acceptance as the ROM model of C05 reads it) -/

/-- the external part of `SegmentSB31.parse_binary`: `SecureBinary31.validate_header(data)`.  C05 has no model of the Python
    `SecureBinary31Header.parse` + `validate()`; this is the header reader of its ROM model (same 60-byte layout: magic, version
    3.1, eight integer fields, description) -/
def sb31App (data : Bytes) : Option Nat :=
  match Sb31.Rom.parseHeader data with
  | .ok _ => some data.length
  | .error _ => none

/-- every file that begins with an encoded SB3.1 header whose fields fit is accepted, whatever follows -/
theorem sb31_accepts' (h : Sb31.Header) (wf : Sb31.Spec.HeaderWF h) (body : Bytes) :
    sb31App (Sb31.encHeader h ++ body) = some (Sb31.encHeader h ++ body).length := by
  unfold sb31App
  rw [Sb31.parseHeader_enc h wf body]

theorem sb31_delimits' (h : Sb31.Header) (wf : Sb31.Spec.HeaderWF h) (body : Bytes)
    (ext : Ext) (fcbSup : Bool) (s : Seg) (hp : s.parser = .sb) (hsz : s.size < 0)
    (hext : ∀ data, ext.app s.kind data = sb31App data) :
    parseSeg ext fcbSup s ((Sb31.encHeader h ++ body) ++ []) = .present (Sb31.encHeader h ++ body) := by
  have hne : Sb31.encHeader h ++ body ≠ [] := by
    intro he
    have := congrArg List.length he
    simp [Sb31.encHeader, Generated.Sb31Consts.hdrMagic] at this
  apply app_delimits' ext fcbSup s _ [] (Or.inr ⟨Or.inr hp, rfl⟩) hsz hne
  rw [hext, List.append_nil]
  exact sb31_accepts' h wf body

/-!
### not discharged - what is missing in the foreign models

* AHAB (`Model/Ahab.lean`, C06): the model has `Image.export`, `imageLength`, `decodeHeader`/`decodeIaes` and a ROM walk
  (`rom_accepts`), but no model of `AHABImage.parse` over a whole image (the loop over container offsets) nor of `__len__`
  of the parsed object.  `Delimit` needs: `parse (bin ++ rest) = ok img'` with `length img' = bin.length` for
  `bin = Image.export …`, and `find_offset_of_ahab (bin ++ rest) = 0` (container head at offset 0).
* SB2.1 (`Model/Sb2.lean`, C04): `ImageHeaderV2.parse` is not modelled as a function on bytes (the ROM model `Rom` reads
  the header fields it needs); needed: `headerParse (file) = ok _` for `file = export cfg`.
* SB3.1 (`Model/Sb31.lean`, C05): discharged above against the ROM model's header reader only; a model of the Python
  `SecureBinary31Header.parse` + `validate()` (and `(exportSb …).2 = encHeader _ ++ _` as a standalone lemma) is missing.
For AHAB and SB2.1 `Delimit` stays an assumption validated by running the real parsers on every generated container.
-/

end SpsdkVerif.Bimg
