/-
C13 — lemmas shared by the OTFAD / IEE / BEE proofs: integer codecs, single-block CTR, no-carry of the
128-bit counter increment into the nonce, byte-swap involution, zero padding, slice assignment.
Core Lean only.
-/
import SpsdkVerif.Proofs.FlashEncDefs
import SpsdkVerif.Proofs.Crypto
import SpsdkVerif.Proofs.Misc

namespace SpsdkVerif.FlashEnc
open SpsdkVerif SpsdkVerif.Crypto
open SpsdkVerif.Misc (beEnc beDec leEnc leDec)

/-! ### Spec = Generated: the hardware-side CRC constant set is the one configured in the source -/

@[simp] theorem crc32MpegHw_eq (d : Bytes) : crc32MpegHw d = crc32Mpeg d := by
  have : crcMpegParams = Crc.crc32Mpeg2 := by decide
  simp [crc32MpegHw, crc32Mpeg, this]

/-! ### integer codecs -/

theorem bytes_rev_ind {P : Bytes → Prop} (h0 : P []) (hs : ∀ l x, P l → P (l ++ [x])) : ∀ l, P l := by
  intro l
  rw [← List.reverse_reverse l]
  induction l.reverse with
  | nil => simpa using h0
  | cons x t ih => rw [List.reverse_cons]; exact hs _ _ ih

theorem beDec_lt (b : Bytes) : beDec b < 256 ^ b.length := by
  induction b using bytes_rev_ind with
  | h0 => simp [beDec]
  | hs l x ih =>
    rw [Misc.beDec_append_single, List.length_append, List.length_singleton, Nat.pow_succ]
    have := x.toNat_lt
    omega

theorem beEnc_beDec (b : Bytes) : beEnc b.length (beDec b) = b := by
  induction b using bytes_rev_ind with
  | h0 => simp [beEnc]
  | hs l x ih =>
    rw [Misc.beDec_append_single, List.length_append, List.length_singleton, beEnc]
    have hx := x.toNat_lt
    have h1 : (beDec l * 256 + x.toNat) / 256 = beDec l := by omega
    have h2 : (beDec l * 256 + x.toNat) % 256 = x.toNat := by omega
    rw [h1, h2, ih, UInt8.ofNat_toNat]

theorem beDec_beEnc (n v : Nat) (h : v < 256 ^ n) : beDec (beEnc n v) = v := by
  rw [Misc.beDec_beEnc_mod, Nat.mod_eq_of_lt h]

theorem leDec_leEnc (n v : Nat) (h : v < 256 ^ n) : leDec (leEnc n v) = v := by
  simp [leDec, leEnc, beDec_beEnc n v h]

theorem beDec_append (a b : Bytes) : beDec (a ++ b) = beDec a * 256 ^ b.length + beDec b := by
  induction b using bytes_rev_ind with
  | h0 => simp [beDec]
  | hs l x ih =>
    rw [← List.append_assoc, Misc.beDec_append_single, Misc.beDec_append_single, ih, List.length_append,
      List.length_singleton, Nat.pow_succ]
    rw [Nat.add_mul, Nat.mul_assoc, Nat.add_assoc]

theorem beEnc_add_mul (n m hi lo : Nat) (h : lo < 256 ^ m) :
    beEnc (n + m) (hi * 256 ^ m + lo) = beEnc n hi ++ beEnc m lo := by
  induction m generalizing lo with
  | zero => simp at h; subst h; simp [beEnc]
  | succ m ih =>
    have hp : 256 ^ (m + 1) = 256 ^ m * 256 := Nat.pow_succ ..
    rw [← Nat.add_assoc, beEnc, beEnc, ← List.append_assoc]
    have h1 : (hi * 256 ^ (m + 1) + lo) / 256 = hi * 256 ^ m + lo / 256 := by
      rw [hp, ← Nat.mul_assoc]; omega
    have h2 : (hi * 256 ^ (m + 1) + lo) % 256 = lo % 256 := by
      rw [hp, ← Nat.mul_assoc]; omega
    rw [h1, h2, ih (lo / 256) (by rw [hp] at h; omega)]

/-! ### AES-CTR on one block, and no carry into the nonce -/

theorem ctrBlock_zero (iv : Bytes) (h : iv.length = 16) : ctrBlock iv 0 = iv := by
  have := beEnc_beDec iv
  rw [h] at this
  simpa [ctrBlock] using this

/-- the 128-bit big-endian increment of `nonce ‖ BE32(v)` by `j` stays inside the low 32-bit word -/
theorem counter_carry (nonce : Bytes) (hn : nonce.length = 12) (v j : Nat) (hv : v + j < 2 ^ 32) :
    ctrBlock (nonce ++ beEnc 4 v) j = nonce ++ beEnc 4 (v + j) := by
  unfold ctrBlock
  have hp : (256 : Nat) ^ 4 = 2 ^ 32 := by decide
  have hv' : v < 256 ^ 4 := by omega
  have hvj : v + j < 256 ^ 4 := by omega
  rw [beDec_append, beEnc_length, beDec_beEnc 4 v hv', Nat.add_assoc]
  have := beEnc_add_mul 12 4 (beDec nonce) (v + j) hvj
  rw [show (12 + 4 : Nat) = 16 from rfl] at this
  rw [this]
  have h2 := beEnc_beDec nonce
  rw [hn] at h2
  rw [h2]

theorem blocksFor_16 : blocksFor 16 = 1 := rfl

/-- `aes_ctr_encrypt(key, block, iv)` on exactly one block is `block xor E_key(iv)` -/
theorem ctrXor_block (c : CryptoOps) (k iv blk : Bytes) (hiv : iv.length = 16) (hb : blk.length = 16) :
    ctrXor c k iv blk = xorBytes blk (c.encBlk k iv) := by
  simp [ctrXor, ctrXorWith, hb, blocksFor_16, ctrStream, streamOf, ctrBlock_zero iv hiv]

/-! ### byte swap -/

theorem swap8_length (b : Bytes) (h : b.length = 16) : (swap8 b).length = 16 := by
  simp [swap8, h]

theorem swap8_swap8 (b : Bytes) (h : b.length = 16) : swap8 (swap8 b) = b := by
  match b, h with
  | [b0, b1, b2, b3, b4, b5, b6, b7, b8, b9, b10, b11, b12, b13, b14, b15], _ => simp [swap8]

theorem swap8_xor (a b : Bytes) (ha : a.length = 16) (hb : b.length = 16) :
    swap8 (xorBytes a b) = xorBytes (swap8 a) (swap8 b) := by
  match a, ha, b, hb with
  | [a0, a1, a2, a3, a4, a5, a6, a7, a8, a9, a10, a11, a12, a13, a14, a15], _,
    [b0, b1, b2, b3, b4, b5, b6, b7, b8, b9, b10, b11, b12, b13, b14, b15], _ => simp [swap8, xorBytes]

/-! ### zero padding -/

theorem zeroPad_length (n : Nat) (m : Bytes) : (zeroPad n m).length = m.length + (n - m.length % n) % n := by
  simp [zeroPad]

theorem zeroPad16_length_piece (p : Bytes) (h0 : 0 < p.length) (h16 : p.length ≤ 16) : (zeroPad 16 p).length = 16 := by
  rw [zeroPad_length]; omega

theorem zeroPad16_nil : zeroPad 16 ([] : Bytes) = [] := by simp [zeroPad, zeros]

theorem zeroPad16_length (m : Bytes) : (zeroPad 16 m).length = (m.length + 15) / 16 * 16 := by
  rw [zeroPad_length]; omega

theorem zeroPad_take_self (n : Nat) (m : Bytes) : (zeroPad n m).take m.length = m := by
  simp [zeroPad]

/-! ### slice assignment -/

theorem sliceAssign_prefix (done rest x : Bytes) (blockLen : Nat) :
    sliceAssign (done ++ rest) done.length (blockLen + done.length) x = done ++ x ++ rest.drop blockLen := by
  simp [sliceAssign, List.drop_append]

end SpsdkVerif.FlashEnc
