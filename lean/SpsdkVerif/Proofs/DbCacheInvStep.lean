/-
C18 — interleavings: what ONE action (`pstep`) or kill (`crashStep`) of one process does to the
per-process invariant, the lock, and the cache file (`StepIn` ⟹ `StepOut`), one lemma per program counter.
Helper file of `Proofs/DbCacheInv.lean`.
-/
import SpsdkVerif.Proofs.DbCacheInvBase
namespace SpsdkVerif.DbCache.Sched
open SpsdkVerif

/-- what the global invariant tells about the acting process `i` and the shared state -/
structure StepIn (env : Env) (G : Guards) (f0 : Option Bytes) (i : Nat) (sh : Sh) (p : Proc) : Prop where
  inv : PInv env G p
  harmless : ∀ b, sh.file = some b → Harmless env G b
  good : G.w.mergesExisting = true → FileGood env G sh.file ∨ (sh.file = f0 ∧ PreW env f0 p)
  lock : inLock G p.pc = true ↔ sh.lock = some i
  wr : p.pc = .wWrite → G.w.atomicWrite = false → sh.file = none ∨ sh.file = some []

/-- what one action (or a kill) of process `i` guarantees -/
structure StepOut (env : Env) (G : Guards) (f0 : Option Bytes) (i : Nat) (sh : Sh) (p : Proc)
    (sh' : Sh) (p' : Proc) : Prop where
  inv : PInv env G p'
  asked : p'.asked = p.asked
  lockSelf : inLock G p'.pc = true ↔ sh'.lock = some i
  lockOther : ∀ j, j ≠ i → (sh'.lock = some j ↔ sh.lock = some j)
  wrSelf : p'.pc = .wWrite → G.w.atomicWrite = false → sh'.file = none ∨ sh'.file = some []
  fileOther : inLock G p.pc = false → sh'.file = sh.file ∨ sh'.file = none
  file : FileGood env G sh'.file ∨
    (sh'.file = sh.file ∧ (G.w.mergesExisting = true → sh.file = f0 → PreW env f0 p → PreW env f0 p'))

variable {env : Env} {G : Guards} {f0 : Option Bytes} {i : Nat} {sh : Sh} {p : Proc}

theorem file_or {p' : Proc}
    (h : G.w.mergesExisting = true → sh.file = f0 → PreW env f0 p → FileGood env G sh.file ∨ PreW env f0 p') :
    FileGood env G sh.file ∨
      (sh.file = sh.file ∧ (G.w.mergesExisting = true → sh.file = f0 → PreW env f0 p → PreW env f0 p')) := by
  by_cases hc : G.w.mergesExisting = true ∧ sh.file = f0 ∧ PreW env f0 p
  · rcases h hc.1 hc.2.1 hc.2.2 with h | h
    · exact Or.inl h
    · exact Or.inr ⟨rfl, fun _ _ _ => h⟩
  · exact Or.inr ⟨rfl, fun h1 h2 h3 => absurd ⟨h1, h2, h3⟩ hc⟩

theorem ne_wWrite_of_nolock {pc : PC} (h : inLock G pc = false) : pc ≠ .wWrite := by
  intro h'; rw [h'] at h; simp [inLock] at h

/-- a step that leaves the shared state alone and does not change whether `i` is in a lock region -/
theorem out_same (hin : StepIn env G f0 i sh p) {p' : Proc} (hinv : PInv env G p') (hasked : p'.asked = p.asked)
    (hl : inLock G p'.pc = inLock G p.pc) (hnw : p'.pc ≠ .wWrite)
    (hfile : G.w.mergesExisting = true → sh.file = f0 → PreW env f0 p → FileGood env G sh.file ∨ PreW env f0 p') :
    StepOut env G f0 i sh p sh p' :=
  ⟨hinv, hasked, by rw [hl]; exact hin.lock, fun _ _ => Iff.rfl, fun h => absurd h hnw, fun _ => Or.inl rfl,
   file_or hfile⟩

theorem out_same_fin (hin : StepIn env G f0 i sh p) {p' : Proc} (hf : Fin env G p p')
    (hl : inLock G p.pc = false)
    (hfile : G.w.mergesExisting = true → sh.file = f0 → PreW env f0 p → FileGood env G sh.file ∨ PreW env f0 p') :
    StepOut env G f0 i sh p sh p' :=
  out_same hin hf.inv hf.asked (by rw [hf.nolock, hl]) (ne_wWrite_of_nolock hf.nolock) hfile

/-- leaving a `with FileLock` block -/
theorem out_release (hin : StepIn env G f0 i sh p) {p' : Proc} (hf : Fin env G p p')
    (hl : inLock G p.pc = true)
    (hfile : G.w.mergesExisting = true → sh.file = f0 → PreW env f0 p → FileGood env G sh.file ∨ PreW env f0 p') :
    StepOut env G f0 i sh p { sh with lock := none } p' := by
  have hli := hin.lock.mp hl
  refine ⟨hf.inv, hf.asked, ?_, ?_, fun h => absurd h (ne_wWrite_of_nolock hf.nolock), fun _ => Or.inl rfl, file_or hfile⟩
  · simp [hf.nolock]
  · intro j hj; simp only [hli, Option.some.injEq, reduceCtorEq, false_iff]; exact fun h => hj h.symm

/-- entering a `with FileLock` block -/
theorem out_acquire (_hin : StepIn env G f0 i sh p) {p' : Proc} (hinv : PInv env G p') (hasked : p'.asked = p.asked)
    (hfree : sh.lock = none) (hl' : inLock G p'.pc = true) (hnw : p'.pc ≠ .wWrite)
    (hfile : G.w.mergesExisting = true → sh.file = f0 → PreW env f0 p → FileGood env G sh.file ∨ PreW env f0 p') :
    StepOut env G f0 i sh p { sh with lock := some i } p' := by
  refine ⟨hinv, hasked, ?_, ?_, fun h => absurd h hnw, fun _ => Or.inl rfl, file_or hfile⟩
  · simp [hl']
  · intro j hj; simp only [hfree, Option.some.injEq, reduceCtorEq, iff_false]; exact fun h => hj h.symm

/-- removing the file outside the lock -/
theorem out_remove (hin : StepIn env G f0 i sh p) {p' : Proc} (hf : Fin env G p p')
    (hl : inLock G p.pc = false) : StepOut env G f0 i sh p { sh with file := none } p' :=
  ⟨hf.inv, hf.asked, by rw [hf.nolock, ← hl]; exact hin.lock, fun _ _ => Iff.rfl,
   fun h => absurd h (ne_wWrite_of_nolock hf.nolock), fun _ => Or.inr rfl, Or.inl FileGood.none⟩

/-- result of `leaveRead` -/
structure LvOut (env : Env) (G : Guards) (p r : Proc) : Prop where
  inv : PInv env G r
  asked : r.asked = p.asked
  lock : inLock G r.pc = G.l.lockRead
  nw : r.pc ≠ .wWrite

theorem lvr_exc (hw : WF G) (p : Proc) (e : Exc) (hb : Base env p)
    (he : Exc.caughtBy G.l.caught e = true) : LvOut env G p (leaveRead env G p (.exc e)) := by
  simp only [leaveRead]
  split
  · rename_i hl
    exact ⟨⟨⟨hb.ans, hb.mem, hb.keys⟩, by simpa [PcInv] using he⟩, rfl, by simp [inLock, hl], by simp⟩
  · rename_i hl
    have := lr_fin hw p e hb he
    exact ⟨this.inv, this.asked, by rw [this.nolock]; simpa using hl, ne_wWrite_of_nolock this.nolock⟩

theorem lvr_exc_prew (hw : WF G) (p : Proc) (e : Exc) (he : Exc.caughtBy G.l.caught e = true)
    (hm : G.w.mergesExisting = true) : PreW env f0 (leaveRead env G p (.exc e)) := by
  simp only [leaveRead]
  split
  · simp [PreW]
  · exact lr_prew hw p e he hm

theorem lvr_normal (hw : WF G) (p : Proc) (hb : Base env p) (hs : ∀ v, p.loaded = some v → Sound env v) :
    LvOut env G p (leaveRead env G p .normal) ∧
    (G.w.mergesExisting = true → ∀ v, p.loaded = some v → env.unpickle p.buf = .ok v → f0 = some p.buf →
      BytesGood env G p.buf ∨ PreW env f0 (leaveRead env G p .normal)) := by
  simp only [leaveRead]
  split
  · rename_i hl
    refine ⟨⟨⟨⟨hb.ans, hb.mem, hb.keys⟩, by simpa [PcInv] using hs⟩, rfl, by simp [inLock, hl], by simp⟩, ?_⟩
    intro _ v hv hu hf
    right; simp only [PreW]; exact ⟨hf, v, hv, hu⟩
  · rename_i hl
    have := lc_fin (f0 := f0) hw p hb hs
    refine ⟨⟨this.1.inv, this.1.asked, by rw [this.1.nolock]; simpa using hl, ne_wWrite_of_nolock this.1.nolock⟩, ?_⟩
    intro hm v hv hu _
    exact this.2 hm v hv hu

attribute [local irreducible] runQueries finishLoader loaderRaise loaderChecks leaveRead writerRaise

theorem step_lExists (hw : WF G) (hin : StepIn env G f0 i sh p) (hpc : p.pc = .lExists) {sh' : Sh} {p' : Proc}
    (h : pstep env G i sh p = some (sh', p')) : StepOut env G f0 i sh p sh' p' := by
  simp only [pstep, hpc, Option.some.injEq, Prod.mk.injEq] at h
  obtain ⟨rfl, rfl⟩ := h
  have hb := hin.inv.toBase
  have hpi : p.loaded = none := by have := hin.inv.pc; simpa [PcInv, hpc] using this
  have hnl : inLock G p.pc = false := by simp [hpc, inLock]
  split
  · refine out_same hin ⟨⟨hb.ans, hb.mem, hb.keys⟩, ?_⟩ rfl ?_ ?_ ?_
    · split <;> simp_all [PcInv]
    · rw [hnl]; split <;> simp_all [inLock]
    · split <;> simp
    · intro _ _ _; right; split <;> simp [PreW]
  · rename_i hf
    refine out_same_fin hin (fl_fin hw p hb (by simp [hpi])) hnl ?_
    intro _ _ _; left; intro b hb; simp [hb] at hf

theorem step_lAcquire (hin : StepIn env G f0 i sh p) (hpc : p.pc = .lAcquire) {sh' : Sh} {p' : Proc}
    (h : pstep env G i sh p = some (sh', p')) : StepOut env G f0 i sh p sh' p' := by
  simp only [pstep, hpc] at h
  split at h
  · rename_i hfree
    simp only [Option.some.injEq, Prod.mk.injEq] at h
    obtain ⟨rfl, rfl⟩ := h
    have hb := hin.inv.toBase
    have hpi : p.loaded = none ∧ G.l.lockRead = true := by have := hin.inv.pc; simpa [PcInv, hpc] using this
    refine out_acquire hin ⟨⟨hb.ans, hb.mem, hb.keys⟩, by simpa [PcInv] using hpi.1⟩ rfl hfree
      (by simp [inLock, hpi.2]) (by simp) ?_
    intro _ _ _; right; simp [PreW]
  · cases h

theorem step_lOpen (hw : WF G) (hin : StepIn env G f0 i sh p) (hpc : p.pc = .lOpen) {sh' : Sh} {p' : Proc}
    (h : pstep env G i sh p = some (sh', p')) : StepOut env G f0 i sh p sh' p' := by
  simp only [pstep, hpc] at h
  have hb := hin.inv.toBase
  have hpi : p.loaded = none := by have := hin.inv.pc; simpa [PcInv, hpc] using this
  have hl : inLock G p.pc = G.l.lockRead := by simp [hpc, inLock]
  split at h
  · rename_i hf
    simp only [Option.some.injEq, Prod.mk.injEq] at h
    obtain ⟨rfl, rfl⟩ := h
    have := lvr_exc hw p .FileNotFoundError hb hw.fnf
    refine out_same hin this.inv this.asked (by rw [this.lock, hl]) this.nw ?_
    intro _ _ _; left; rw [hf]; exact FileGood.none
  · rename_i b hf
    simp only [Option.some.injEq, Prod.mk.injEq] at h
    obtain ⟨rfl, rfl⟩ := h
    refine out_same hin ⟨⟨hb.ans, hb.mem, hb.keys⟩, ?_⟩ rfl ?_ (by simp) ?_
    · simp only [PcInv]; exact ⟨hpi, hin.harmless b hf⟩
    · rw [hl]; simp [inLock]
    · intro _ h0 _; right; simp only [PreW]; rw [← h0, hf]

theorem step_lUnpickle (hw : WF G) (hin : StepIn env G f0 i sh p) (hpc : p.pc = .lUnpickle) {sh' : Sh} {p' : Proc}
    (h : pstep env G i sh p = some (sh', p')) : StepOut env G f0 i sh p sh' p' := by
  simp only [pstep, hpc] at h
  have hb := hin.inv.toBase
  have hpi : p.loaded = none ∧ Harmless env G p.buf := by have := hin.inv.pc; simpa [PcInv, hpc] using this
  have hl : inLock G p.pc = G.l.lockRead := by simp [hpc, inLock]
  have hpw : PreW env f0 p → f0 = some p.buf := by intro h; simpa [PreW, hpc] using h
  have hharm := hpi.2
  unfold Harmless at hharm
  split at h
  · rename_i v hu
    simp only [Option.some.injEq, Prod.mk.injEq] at h
    obtain ⟨rfl, rfl⟩ := h
    rw [hu] at hharm
    have := lvr_normal (f0 := f0) hw { p with pc := .lUnpickle, loaded := some v } ⟨hb.ans, hb.mem, hb.keys⟩
      (by intro v' hv'; simp only [Option.some.injEq] at hv'; subst hv'; exact hharm)
    refine out_same hin this.1.inv this.1.asked (by rw [this.1.lock, hl]) this.1.nw ?_
    intro hm h0 hp
    rcases this.2 hm v rfl hu (hpw hp) with hg | hg
    · left; intro b hb'; rw [h0, hpw hp] at hb'; cases hb'; exact hg
    · exact Or.inr hg
  · rename_i e hu
    simp only [Option.some.injEq, Prod.mk.injEq] at h
    obtain ⟨rfl, rfl⟩ := h
    rw [hu] at hharm
    have := lvr_exc hw p e hb hharm.1
    refine out_same hin this.inv this.asked (by rw [this.lock, hl]) this.nw ?_
    intro hm h0 hp
    left; intro b hb'; rw [h0, hpw hp] at hb'; cases hb'
    unfold BytesGood; rw [hu]; exact hharm

theorem step_lRelease (hw : WF G) (hin : StepIn env G f0 i sh p) (c : Cont) (hpc : p.pc = .lRelease c)
    {sh' : Sh} {p' : Proc}
    (h : pstep env G i sh p = some (sh', p')) : StepOut env G f0 i sh p sh' p' := by
  simp only [pstep, hpc, Option.some.injEq, Prod.mk.injEq] at h
  obtain ⟨rfl, rfl⟩ := h
  have hb := hin.inv.toBase
  have hl : inLock G p.pc = true := by simp [hpc, inLock]
  cases c with
  | normal =>
    have hpi : ∀ v, p.loaded = some v → Sound env v := by have := hin.inv.pc; simpa [PcInv, hpc] using this
    have := lc_fin (f0 := f0) hw p hb hpi
    refine out_release hin this.1 hl ?_
    intro hm h0 hp
    have hp : f0 = some p.buf ∧ ∃ v, p.loaded = some v ∧ env.unpickle p.buf = .ok v := by
      simpa [PreW, hpc] using hp
    obtain ⟨hf, v, hv, hu⟩ := hp
    rcases this.2 hm v hv hu with hg | hg
    · left; intro b hb'; rw [h0, hf] at hb'; cases hb'; exact hg
    · exact Or.inr hg
  | exc e =>
    have hpi : Exc.caughtBy G.l.caught e = true := by have := hin.inv.pc; simpa [PcInv, hpc] using this
    refine out_release hin (lr_fin hw p e hb hpi) hl ?_
    intro hm _ _; exact Or.inr (lr_prew hw p e hpi hm)

theorem step_lRemoveStale (hw : WF G) (hin : StepIn env G f0 i sh p) (hpc : p.pc = .lRemoveStale)
    {sh' : Sh} {p' : Proc}
    (h : pstep env G i sh p = some (sh', p')) : StepOut env G f0 i sh p sh' p' := by
  simp only [pstep, hpc] at h
  have hb := hin.inv.toBase
  have hpi : p.loaded = none ∧ G.l.removeStale = true := by have := hin.inv.pc; simpa [PcInv, hpc] using this
  have hl : inLock G p.pc = false := by simp [hpc, inLock]
  split at h
  · simp only [Option.some.injEq, Prod.mk.injEq] at h
    obtain ⟨rfl, rfl⟩ := h
    exact out_remove hin (fl_fin hw p hb (by simp [hpi.1])) hl
  · rename_i hf
    simp only [hw.rsTry hpi.2, if_true, Option.some.injEq, Prod.mk.injEq] at h
    obtain ⟨rfl, rfl⟩ := h
    refine out_same_fin hin (lr_fin hw p _ hb hw.fnf) hl ?_
    intro _ _ _; left; rw [hf]; exact FileGood.none

theorem step_hExists (hw : WF G) (hin : StepIn env G f0 i sh p) (hpc : p.pc = .hExists)
    {sh' : Sh} {p' : Proc}
    (h : pstep env G i sh p = some (sh', p')) : StepOut env G f0 i sh p sh' p' := by
  simp only [pstep, hpc, Option.some.injEq, Prod.mk.injEq] at h
  obtain ⟨rfl, rfl⟩ := h
  have hb := hin.inv.toBase
  have hpi : p.loaded = none ∧ G.l.handlerRemoves = true := by have := hin.inv.pc; simpa [PcInv, hpc] using this
  have hl : inLock G p.pc = false := by simp [hpc, inLock]
  split
  · refine out_same hin ⟨⟨hb.ans, hb.mem, hb.keys⟩, by simpa [PcInv] using hpi⟩ rfl (by rw [hl]; simp [inLock])
      (by simp) ?_
    intro _ _ _; right; simp [PreW]
  · rename_i hf
    refine out_same_fin hin (fl_fin hw p hb (by simp [hpi.1])) hl ?_
    intro _ _ _; left; intro b hb'; simp [hb'] at hf

theorem step_hRemove (hw : WF G) (hin : StepIn env G f0 i sh p) (hpc : p.pc = .hRemove)
    {sh' : Sh} {p' : Proc}
    (h : pstep env G i sh p = some (sh', p')) : StepOut env G f0 i sh p sh' p' := by
  simp only [pstep, hpc] at h
  have hb := hin.inv.toBase
  have hpi : p.loaded = none ∧ G.l.handlerRemoves = true := by have := hin.inv.pc; simpa [PcInv, hpc] using this
  have hl : inLock G p.pc = false := by simp [hpc, inLock]
  split at h
  · simp only [Option.some.injEq, Prod.mk.injEq] at h
    obtain ⟨rfl, rfl⟩ := h
    exact out_remove hin (fl_fin hw p hb (by simp [hpi.1])) hl
  · rename_i hf
    simp only [hw.hrt hpi.2, if_true, Option.some.injEq, Prod.mk.injEq] at h
    obtain ⟨rfl, rfl⟩ := h
    refine out_same_fin hin (fl_fin hw p hb (by simp [hpi.1])) hl ?_
    intro _ _ _; left; rw [hf]; exact FileGood.none

theorem noPreW_file {p' : Proc} (hp : ¬ PreW env f0 p) :
    G.w.mergesExisting = true → sh.file = f0 → PreW env f0 p → FileGood env G sh.file ∨ PreW env f0 p' :=
  fun _ _ h => absurd h hp

theorem step_wAcquire (hin : StepIn env G f0 i sh p) (hpc : p.pc = .wAcquire) {sh' : Sh} {p' : Proc}
    (h : pstep env G i sh p = some (sh', p')) : StepOut env G f0 i sh p sh' p' := by
  simp only [pstep, hpc] at h
  split at h
  · rename_i hfree
    simp only [Option.some.injEq, Prod.mk.injEq] at h
    obtain ⟨rfl, rfl⟩ := h
    have hb := hin.inv.toBase
    refine out_acquire hin ⟨⟨hb.ans, hb.mem, hb.keys⟩, ?_⟩ rfl hfree ?_ ?_ (noPreW_file (by simp [PreW, hpc]))
    · simp only [afterWAcquire]; split
      · rename_i hm; split <;> simp [PcInv, hm]
      · simp [PcInv]
    · simp only [afterWAcquire]; split
      · split <;> simp [inLock]
      · simp [inLock]
    · simp only [afterWAcquire]; split
      · split <;> simp
      · simp
  · cases h

theorem step_wExists (hin : StepIn env G f0 i sh p) (hpc : p.pc = .wExists) {sh' : Sh} {p' : Proc}
    (h : pstep env G i sh p = some (sh', p')) : StepOut env G f0 i sh p sh' p' := by
  simp only [pstep, hpc, Option.some.injEq, Prod.mk.injEq] at h
  obtain ⟨rfl, rfl⟩ := h
  have hb := hin.inv.toBase
  have hpi : G.w.mergesExisting = true := by have := hin.inv.pc; simpa [PcInv, hpc] using this
  refine out_same hin ⟨⟨hb.ans, hb.mem, hb.keys⟩, ?_⟩ rfl ?_ ?_ (noPreW_file (by simp [PreW, hpc]))
  · split <;> simp [PcInv, hpi]
  · rw [hpc]; split <;> simp [inLock]
  · split <;> simp

theorem step_wOpenR (hw : WF G) (hin : StepIn env G f0 i sh p) (hpc : p.pc = .wOpenR) {sh' : Sh} {p' : Proc}
    (h : pstep env G i sh p = some (sh', p')) : StepOut env G f0 i sh p sh' p' := by
  simp only [pstep, hpc, leaveWrite, hw.lw, if_true] at h
  have hb := hin.inv.toBase
  have hpi : G.w.mergesExisting = true := by have := hin.inv.pc; simpa [PcInv, hpc] using this
  have hnp : ¬ PreW env f0 p := by simp [PreW, hpc]
  split at h
  · simp only [Option.some.injEq, Prod.mk.injEq] at h
    obtain ⟨rfl, rfl⟩ := h
    refine out_same hin ⟨⟨hb.ans, hb.mem, hb.keys⟩, ?_⟩ rfl ?_ (by simp) (noPreW_file hnp)
    · simpa [PcInv] using hw.mfnf
    · rw [hpc]; simp [inLock]
  · rename_i b hf
    simp only [Option.some.injEq, Prod.mk.injEq] at h
    obtain ⟨rfl, rfl⟩ := h
    refine out_same hin ⟨⟨hb.ans, hb.mem, hb.keys⟩, ?_⟩ rfl ?_ (by simp) (noPreW_file hnp)
    · simp only [PcInv]; refine ⟨hpi, ?_⟩
      rcases hin.good hpi with hg | hg
      · exact hg b hf
      · exact absurd hg.2 hnp
    · rw [hpc]; simp [inLock]

theorem merged_ok {v : Val} (hm : ∀ e ∈ p.mem, EntOK env e) (hv : ∀ e ∈ v.ents, EntOK env e) :
    ∀ e ∈ merged p v, EntOK env e := by
  intro e he
  unfold merged at he
  split at he
  · simp only [List.mem_append, List.mem_filter] at he
    rcases he with he | he
    · exact hm e he
    · exact hv e he.1
  · exact hm e he

theorem step_wUnpickle (hw : WF G) (hin : StepIn env G f0 i sh p) (hpc : p.pc = .wUnpickle) {sh' : Sh} {p' : Proc}
    (h : pstep env G i sh p = some (sh', p')) : StepOut env G f0 i sh p sh' p' := by
  simp only [pstep, hpc, leaveWrite, hw.lw, if_true] at h
  have hb := hin.inv.toBase
  have hpi : G.w.mergesExisting = true ∧ BytesGood env G p.buf := by have := hin.inv.pc; simpa [PcInv, hpc] using this
  have hnp : ¬ PreW env f0 p := by simp [PreW, hpc]
  have hgood := hpi.2
  unfold BytesGood at hgood
  split at h
  · rename_i e hu
    simp only [Option.some.injEq, Prod.mk.injEq] at h
    obtain ⟨rfl, rfl⟩ := h
    rw [hu] at hgood
    refine out_same hin ⟨⟨hb.ans, hb.mem, hb.keys⟩, ?_⟩ rfl ?_ (by simp) (noPreW_file hnp)
    · simpa [PcInv] using hgood.2 hpi.1
    · rw [hpc]; simp [inLock]
  · rename_i v hu
    rw [hu] at hgood
    split at h
    · rename_i hty
      have hmt : G.w.mergeTypeChecked = true := by
        simp only [Bool.and_eq_true] at hty; exact hty.1
      simp only [Option.some.injEq, Prod.mk.injEq] at h
      obtain ⟨rfl, rfl⟩ := h
      refine out_same hin ⟨⟨hb.ans, hb.mem, hb.keys⟩, ?_⟩ rfl ?_ (by simp) (noPreW_file hnp)
      · simpa [PcInv] using hw.mte hpi.1 hmt
      · rw [hpc]; simp [inLock]
    · simp only [Option.some.injEq, Prod.mk.injEq] at h
      obtain ⟨rfl, rfl⟩ := h
      refine out_same hin ⟨⟨hb.ans, merged_ok hb.mem hgood, hb.keys⟩, ?_⟩ rfl ?_ (by simp) (noPreW_file hnp)
      · simp [PcInv]
      · rw [hpc]; simp [inLock]

theorem step_wTrunc (he : EnvOK env G) (hin : StepIn env G f0 i sh p) (hpc : p.pc = .wTrunc) {sh' : Sh} {p' : Proc}
    (h : pstep env G i sh p = some (sh', p')) : StepOut env G f0 i sh p sh' p' := by
  simp only [pstep, hpc, Option.some.injEq, Prod.mk.injEq] at h
  obtain ⟨rfl, rfl⟩ := h
  have hb := hin.inv.toBase
  have hl : inLock G p.pc = true := by simp [hpc, inLock]
  have hnp : ¬ PreW env f0 p := by simp [PreW, hpc]
  refine ⟨⟨⟨hb.ans, hb.mem, hb.keys⟩, by simp [PcInv]⟩, rfl, ?_, ?_, ?_, ?_, ?_⟩
  · have hli := hin.lock.mp hl
    split <;> simp [inLock, hli]
  · intro j _; split <;> simp
  · intro _ ha; simp [ha]
  · intro h'; rw [hl] at h'; cases h'
  · split
    · exact Or.inr ⟨rfl, fun _ _ h => absurd h hnp⟩
    · left; intro b hb'; simp only [Option.some.injEq] at hb'; subst hb'; exact he.empty

theorem written_good (hm : ∀ e ∈ p.mem, EntOK env e) : Good env (written env p) := hm

theorem step_wWrite (hw : WF G) (he : EnvOK env G) (hin : StepIn env G f0 i sh p) (hpc : p.pc = .wWrite)
    {sh' : Sh} {p' : Proc}
    (h : pstep env G i sh p = some (sh', p')) : StepOut env G f0 i sh p sh' p' := by
  simp only [pstep, hpc, leaveWrite, hw.lw, if_true, Option.some.injEq, Prod.mk.injEq] at h
  obtain ⟨rfl, rfl⟩ := h
  have hb := hin.inv.toBase
  have hl : inLock G p.pc = true := by simp [hpc, inLock]
  have hdata : BytesGood env G (env.pickle (written env p)) := he.full _ (written_good hb.mem)
  refine ⟨⟨⟨hb.ans, hb.mem, hb.keys⟩, by simp [PcInv]⟩, rfl, ?_, ?_, ?_, ?_, ?_⟩
  · have hli := hin.lock.mp hl
    simp [inLock, hli]
  · intro j _; exact Iff.rfl
  · intro h'; simp at h'
  · intro h'; rw [hl] at h'; cases h'
  · left
    simp only
    split
    · intro b hb'; simp only [Option.some.injEq] at hb'; subst hb'; exact hdata
    · rename_i ha
      rcases hin.wr hpc (by simpa using ha) with hf | hf
      · rw [hf]; exact FileGood.none
      · rw [hf]; intro b hb'; simp only [Option.some.injEq] at hb'; subst hb'; exact hdata

theorem step_wRelease (hw : WF G) (hin : StepIn env G f0 i sh p) (c : Cont) (hpc : p.pc = .wRelease c)
    {sh' : Sh} {p' : Proc}
    (h : pstep env G i sh p = some (sh', p')) : StepOut env G f0 i sh p sh' p' := by
  simp only [pstep, hpc, Option.some.injEq, Prod.mk.injEq] at h
  obtain ⟨rfl, rfl⟩ := h
  have hb := hin.inv.toBase
  have hl : inLock G p.pc = true := by simp [hpc, inLock]
  have hnp : ¬ PreW env f0 p := by simp [PreW, hpc]
  cases c with
  | normal => exact out_release hin (rq_fin' hw p hb) hl (noPreW_file hnp)
  | exc e =>
    have hpi : Exc.caughtBy G.w.caught e = true := by have := hin.inv.pc; simpa [PcInv, hpc] using this
    exact out_release hin (wr_fin hw p e hb hpi) hl (noPreW_file hnp)

/-- one action of process `i` -/
theorem pstep_out (hw : WF G) (he : EnvOK env G) (hin : StepIn env G f0 i sh p) {sh' : Sh} {p' : Proc}
    (h : pstep env G i sh p = some (sh', p')) : StepOut env G f0 i sh p sh' p' := by
  cases hpc : p.pc with
  | lExists => exact step_lExists hw hin hpc h
  | lAcquire => exact step_lAcquire hin hpc h
  | lOpen => exact step_lOpen hw hin hpc h
  | lUnpickle => exact step_lUnpickle hw hin hpc h
  | lRelease c => exact step_lRelease hw hin c hpc h
  | lRemoveStale => exact step_lRemoveStale hw hin hpc h
  | hExists => exact step_hExists hw hin hpc h
  | hRemove => exact step_hRemove hw hin hpc h
  | wAcquire => exact step_wAcquire hin hpc h
  | wExists => exact step_wExists hin hpc h
  | wOpenR => exact step_wOpenR hw hin hpc h
  | wUnpickle => exact step_wUnpickle hw hin hpc h
  | wTrunc => exact step_wTrunc he hin hpc h
  | wWrite => exact step_wWrite hw he hin hpc h
  | wRelease c => exact step_wRelease hw hin c hpc h
  | done => simp [pstep, hpc] at h
  | fatal e => simp [pstep, hpc] at h
  | crashed => simp [pstep, hpc] at h

/-- a kill of process `i` -/
theorem crashStep_out (he : EnvOK env G) (hin : StepIn env G f0 i sh p) {n : Nat} {sh' : Sh} {p' : Proc}
    (h : crashStep env G i n sh p = some (sh', p')) : StepOut env G f0 i sh p sh' p' := by
  simp only [crashStep] at h
  split at h
  · cases h
  · simp only [Option.some.injEq, Prod.mk.injEq] at h
    obtain ⟨rfl, rfl⟩ := h
    have hb := hin.inv.toBase
    refine ⟨⟨⟨hb.ans, hb.mem, hb.keys⟩, by simp [PcInv]⟩, rfl, ?_, ?_, ?_, ?_, ?_⟩
    · simp only [inLock]; split <;> simp_all
    · intro j hj; simp only; split
      · rename_i hl; simp only [hl, Option.some.injEq, reduceCtorEq, false_iff]; exact fun h => hj h.symm
      · exact Iff.rfl
    · intro h'; simp at h'
    · intro hnl
      have : p.pc ≠ .wWrite := ne_wWrite_of_nolock hnl
      simp [this]
    · simp only
      split
      · rename_i hc
        simp only [Bool.and_eq_true, decide_eq_true_eq] at hc
        split
        · left; intro b hb'; simp only [Option.some.injEq] at hb'; subst hb'
          exact he.dump _ _ (written_good hb.mem)
        · exact Or.inr ⟨rfl, fun _ _ _ => by simp [PreW]⟩
      · exact Or.inr ⟨rfl, fun _ _ _ => by simp [PreW]⟩

/-- the next action of process `i` fails with an I/O error -/
theorem failStep_out (hw : WF G) (he : EnvOK env G) (hin : StepIn env G f0 i sh p) {e : Exc} {n : Nat}
    {sh' : Sh} {p' : Proc}
    (h : failStep env G e n sh p = some (sh', p')) : StepOut env G f0 i sh p sh' p' := by
  simp only [failStep] at h
  split at h
  · cases h
  · rename_i hio
    have hio : ioExcs.contains e = true := by simpa using hio
    have hb := hin.inv.toBase
    have hLC := hw.ioL e hio
    have hWC := hw.ioW e hio
    split at h
    · -- lAcquire: the lock is not taken, the handler runs
      rename_i hpc
      simp only [Option.some.injEq, Prod.mk.injEq] at h
      obtain ⟨rfl, rfl⟩ := h
      refine out_same_fin hin (lr_fin hw p e hb hLC) (by simp [hpc, inLock]) ?_
      intro hm _ _; exact Or.inr (lr_prew hw p e hLC hm)
    · -- lOpen
      rename_i hpc
      simp only [Option.some.injEq, Prod.mk.injEq] at h
      obtain ⟨rfl, rfl⟩ := h
      have := lvr_exc hw p e hb hLC
      refine out_same hin this.inv this.asked (by rw [this.lock, hpc]; simp [inLock]) this.nw ?_
      intro hm _ _; exact Or.inr (lvr_exc_prew hw p e hLC hm)
    · -- wAcquire
      rename_i hpc
      simp only [Option.some.injEq, Prod.mk.injEq] at h
      obtain ⟨rfl, rfl⟩ := h
      exact out_same_fin hin (wr_fin hw p e hb hWC) (by simp [hpc, inLock]) (noPreW_file (by simp [PreW, hpc]))
    · -- wOpenR
      rename_i hpc
      simp only [leaveWrite, hw.lw, if_true, Option.some.injEq, Prod.mk.injEq] at h
      obtain ⟨rfl, rfl⟩ := h
      refine out_same hin ⟨⟨hb.ans, hb.mem, hb.keys⟩, by simpa [PcInv] using hWC⟩ rfl (by rw [hpc]; simp [inLock])
        (by simp) (noPreW_file (by simp [PreW, hpc]))
    · -- wTrunc
      rename_i hpc
      simp only [leaveWrite, hw.lw, if_true, Option.some.injEq, Prod.mk.injEq] at h
      obtain ⟨rfl, rfl⟩ := h
      refine out_same hin ⟨⟨hb.ans, hb.mem, hb.keys⟩, by simpa [PcInv] using hWC⟩ rfl (by rw [hpc]; simp [inLock])
        (by simp) (noPreW_file (by simp [PreW, hpc]))
    · -- wWrite: a prefix of the dump may have reached the file
      rename_i hpc
      simp only [leaveWrite, hw.lw, if_true, Option.some.injEq, Prod.mk.injEq] at h
      obtain ⟨rfl, rfl⟩ := h
      have hl : inLock G p.pc = true := by simp [hpc, inLock]
      have hli := hin.lock.mp hl
      have hnp : ¬ PreW env f0 p := by simp [PreW, hpc]
      refine ⟨⟨⟨hb.ans, hb.mem, hb.keys⟩, by simpa [PcInv] using hWC⟩, rfl, ?_, ?_, ?_, ?_, ?_⟩
      · simp [inLock, hli]
      · intro j _; exact Iff.rfl
      · intro h'; simp at h'
      · intro h'; rw [hl] at h'; cases h'
      · simp only
        split
        · exact Or.inr ⟨rfl, fun _ _ h => absurd h hnp⟩
        · split
          · left; intro b hb'; simp only [Option.some.injEq] at hb'; subst hb'
            exact he.dump _ _ (written_good hb.mem)
          · exact Or.inr ⟨rfl, fun _ _ h => absurd h hnp⟩
    · cases h

end SpsdkVerif.DbCache.Sched
