/-
No-fault refinement lemmas for C10: the host model in closed loop with the live reference device has exactly the
effect `specOp` defines (see Model/Mboot.lean, "specification vocabulary").
Helper lemmas about codecs / CRC / splitting: Proofs/Mboot.lean.

Structure: monad plumbing for `H`; exact equations for the read primitives (`Host.rd`, `Host.rdR`); `Host.Is` (the host
after some communication, relative to a reference host; `reads`, `txRev`, `relRev` unconstrained) as the invariant of
every step lemma; the reference device one write at a time; `_process_cmd` per transport and transport-generic
(`processCmd_single/_fromHost/_toHost`); data phases by induction (`Feeds`, `sendChunks_ok`, `sendChunks_stray`,
`readDataLoop_ok`, `readChunks_ok`); generic `dataOutCmd_ok/_refused`, `dataInCmd_ok/_refused`, `refines_logged`;
one `refines_<op>` per covered operation; `specOp_OK`; `op_refines` (either transport) from which
`op_refines_serial` / `op_refines_hid` follow.
-/
import SpsdkVerif.Model.Mboot
import SpsdkVerif.Proofs.Mboot

namespace SpsdkVerif.Mboot
open SpsdkVerif H

/-! ### lengths -/

theorem splice_length (mem : Bytes) (a : Nat) (d : Bytes) (h : a + d.length ≤ mem.length) :
    (splice mem a d).length = mem.length := by
  simp [splice]; omega

theorem fillBytes_length (k pat : Nat) : (fillBytes k pat).length = 4 * k := by
  induction k with
  | zero => simp [fillBytes]
  | succ k ih => simp [fillBytes, ih]; omega

theorem fillPattern_length (n pat : Nat) : (fillPattern n pat).length = n := by
  simp [fillPattern, fillBytes_length]; omega

/-! ### monad plumbing -/

section plumbing
variable {α β : Type}
@[simp] theorem pure_run (a : α) (s : Host) : (pure a : H α) s = (.ok a, s) := rfl
theorem bind_run (m : H α) (f : α → H β) (s : Host) :
    (m >>= f) s = match m s with | (.ok a, s') => f a s' | (.error e, s') => (.error e, s') := rfl
theorem bind_ok {m : H α} {f : α → H β} {s s' : Host} {a : α} (h : m s = (.ok a, s')) : (m >>= f) s = f a s' := by
  rw [bind_run, h]
theorem bind_err {m : H α} {f : α → H β} {s s' : Host} {e : HErr} (h : m s = (.error e, s')) :
    (m >>= f) s = (.error e, s') := by
  rw [bind_run, h]
@[simp] theorem fail_run (e : HErr) (s : Host) : (fail e : H α) s = (.error e, s) := rfl
@[simp] theorem get_run (s : Host) : H.get s = (.ok s, s) := rfl
@[simp] theorem modify_run (f : Host → Host) (s : Host) : H.modify f s = (.ok (), f s) := rfl
@[simp] theorem lift_run (x : Except HErr α) (s : Host) : H.lift x s = (x, s) := rfl
theorem catch_ok {m : H α} {hd : HErr → H α} {s s' : Host} {a : α} (h : m s = (.ok a, s')) :
    catch_ m hd s = (.ok a, s') := by
  unfold catch_; rw [h]
theorem catch_err {m : H α} {hd : HErr → H α} {s s' : Host} {e : HErr} (h : m s = (.error e, s')) :
    catch_ m hd s = hd e s' := by
  unfold catch_; rw [h]
@[simp] theorem ite_run (c : Prop) [Decidable c] (m1 m2 : H α) (s : Host) :
    (if c then m1 else m2) s = if c then m1 s else m2 s := by split <;> rfl
end plumbing


/-! ### read primitives (exact equations; `Host.rd` = the host after `k` successful `device.read`s) -/

/-- the host after `k` more `device.read` calls that left `b` in the serial receive buffer -/
def Host.rd (h : Host) (k : Nat) (b : Bytes) : Host := { h with reads := h.reads + k, rxB := b }

theorem devRead_ok (n : Nat) (h : Host) (a b : Bytes) (hn : 0 < n) (ha : a.length = n) (hrx : h.rxB = a ++ b) :
    devRead n h = (.ok a, h.rd 1 b) := by
  unfold devRead
  have h1 : ¬ (n = 0 ∨ h.rxB.isEmpty = true) := by
    rw [hrx]; cases a with
    | nil => simp at ha; omega
    | cons x r => simp; omega
  have h2 : n ≤ h.rxB.length := by rw [hrx]; simp; omega
  simp only [h1, h2, if_false, if_true, Host.rd]
  rw [hrx, ← ha]
  simp

/-- a frame header `0x5A, t` at the front of the stream -/
theorem readFrameHeader_ok (exp : Option Nat) (h : Host) (b0 b1 : UInt8) (t : Nat) (rest : Bytes)
    (hb0 : b0.toNat = Spec.startByte) (hb1 : b1.toNat = t)
    (ht : t = Spec.fAck ∨ t = Spec.fCmd ∨ t = Spec.fData) (hexp : exp = none ∨ exp = some t)
    (hrx : h.rxB = b0 :: b1 :: rest) :
    readFrameHeader exp h = (.ok (Spec.startByte, t), (h.rd 1 (b1 :: rest)).rd 1 rest) := by
  have e1 : devRead 1 h = (.ok [b0], h.rd 1 (b1 :: rest)) :=
    devRead_ok 1 h [_] _ (by omega) rfl hrx
  have e2 : devRead 1 (h.rd 1 (b1 :: rest)) = (.ok [b1], (h.rd 1 (b1 :: rest)).rd 1 rest) :=
    devRead_ok 1 _ [_] _ (by omega) rfl rfl
  have e0 : waitForData h = (.ok Spec.startByte, h.rd 1 (b1 :: rest)) := by
    unfold waitForData
    rw [hrx]
    simp only [List.length_cons, waitGo]
    rw [bind_ok e1]
    simp [fromLe, hb0]
  unfold readFrameHeader
  rw [bind_ok e0]
  rcases ht with rfl | rfl | rfl <;> rcases hexp with rfl | rfl <;>
    simp [bind_run, e2, fromLe, hb1, Spec.startByte, Spec.fAck, Spec.fCmd, Spec.fData, Spec.fAbort]

/-- `h'` is the reference host `h` after some communication: status `st`, peer = live device `d`,
    pending device→host bytes `rxB` / reports `rxR`; configuration fields untouched -/
structure Host.Is (h' h : Host) (st : Nat) (d : Dev) (rxB : Bytes) (rxR : List Bytes) : Prop where
  cfg : h'.cfg = h.cfg
  mps : h'.mps = h.mps
  eda : h'.eda = h.eda
  opened : h'.opened = h.opened
  fuelHint : h'.fuelHint = h.fuelHint
  status : h'.status = st
  peer : h'.peer = .live d
  rxB : h'.rxB = rxB
  rxR : h'.rxR = rxR


theorem Host.Is.rd {h1 h0 : Host} {st d b r} (hI : h1.Is h0 st d b r) (k : Nat) (b' : Bytes) :
    (h1.rd k b').Is h0 st d b' r :=
  ⟨hI.cfg, hI.mps, hI.eda, hI.opened, hI.fuelHint, hI.status, hI.peer, rfl, hI.rxR⟩

/-- the host after one more `device.read` that left the reports `rs` pending -/
def Host.rdR (h : Host) (rs : List Bytes) : Host := { h with reads := h.reads + 1, rxR := rs }

theorem Host.Is.rdR {h1 h0 : Host} {st d b r} (hI : h1.Is h0 st d b r) (r' : List Bytes) :
    (h1.rdR r').Is h0 st d b r' :=
  ⟨hI.cfg, hI.mps, hI.eda, hI.opened, hI.fuelHint, hI.status, hI.peer, hI.rxB, rfl⟩

theorem Host.Is.setStatus {h1 h0 : Host} {st d b r} (hI : h1.Is h0 st d b r) (st' : Nat) :
    ({ h1 with status := st' } : Host).Is h0 st' d b r :=
  ⟨hI.cfg, hI.mps, hI.eda, hI.opened, hI.fuelHint, rfl, hI.peer, hI.rxB, hI.rxR⟩

theorem Host.Is.write_serial {h1 h0 : Host} {st d b r} (hI : h1.Is h0 st d b r) (htr : h0.cfg.tr = .serial) (w : Bytes) :
    (h1.write w).Is h0 st (d.stepSerial w).1 (b ++ (d.stepSerial w).2) r := by
  have htr1 : h1.cfg.tr = .serial := by rw [hI.cfg, htr]
  unfold Host.write
  rw [hI.peer]
  simp only [htr1]
  exact ⟨hI.cfg, hI.mps, hI.eda, hI.opened, hI.fuelHint, hI.status, rfl, by simp [hI.rxB], hI.rxR⟩

theorem Host.Is.write_hid {h1 h0 : Host} {st d b r} (hI : h1.Is h0 st d b r) (htr : h0.cfg.tr = .hid) (w : Bytes) :
    (h1.write w).Is h0 st (d.stepHid w).1 b (r ++ (d.stepHid w).2) := by
  have htr1 : h1.cfg.tr = .hid := by rw [hI.cfg, htr]
  unfold Host.write
  rw [hI.peer]
  simp only [htr1]
  exact ⟨hI.cfg, hI.mps, hI.eda, hI.opened, hI.fuelHint, hI.status, rfl, hI.rxB, by simp [hI.rxR]⟩

theorem devWrite_run (w : Bytes) (h : Host) : devWrite w h = (.ok (), h.write w) := rfl
theorem setStatus_run (st : Nat) (h : Host) : setStatus st h = (.ok (), { h with status := st }) := rfl

theorem b0_toNat : (UInt8.ofNat Spec.startByte).toNat = Spec.startByte := by decide

theorem serialSendFrame_ok {h1 h0 : Host} {st d r} (hI : h1.Is h0 st d [] r) (htr : h0.cfg.tr = .serial)
    (t : Nat) (data : Bytes) (hlen : data.length < 65536) (d' : Dev) (out : Bytes)
    (hstep : d.stepSerial (mkFrame t data) = (d', ackFrame ++ out)) :
    ∃ h2, serialSendFrame t data h1 = (.ok (), h2) ∧ h2.Is h0 st d' out r := by
  have hw := hI.write_serial htr (mkFrame t data)
  rw [hstep] at hw
  simp only [List.nil_append] at hw
  refine ⟨_, ?_, (hw.rd 1 (UInt8.ofNat Spec.fAck :: out)).rd 1 out⟩
  unfold serialSendFrame
  rw [if_neg (by omega), bind_ok (devWrite_run _ _)]
  rw [bind_ok (readFrameHeader_ok (some Spec.fAck) _ _ (UInt8.ofNat Spec.fAck) Spec.fAck out b0_toNat (by decide) (Or.inl rfl) (Or.inr rfl)
    (by rw [hw.rxB]; rfl))]
  rfl

theorem serialRead_ok {h1 h0 : Host} {st d r} {t : Nat} {p rest : Bytes}
    (hI : h1.Is h0 st d (mkFrame t p ++ rest) r) (htr : h0.cfg.tr = .serial)
    (ht : t = Spec.fCmd ∨ t = Spec.fData) (hp0 : p ≠ []) (hp : p.length < 65536) :
    ∃ h2, serialRead h1 =
        ((if t = Spec.fCmd then
            match parseCmdResponse p with
            | .ok r => .ok (.resp r)
            | .error e => .error e
          else .ok (.data p)), h2) ∧
      h2.Is h0 st (d.stepSerial ackFrame).1 (rest ++ (d.stepSerial ackFrame).2) r := by
  have hbt : (UInt8.ofNat t).toNat = t := by rcases ht with rfl | rfl <;> decide
  have hplen : 0 < p.length := List.length_pos_iff.mpr hp0
  have hcrc := crc16_lt (crcInput t p)
  have hl1 : fromLe (le 2 p.length) = p.length := fromLe_le_of_lt 2 _ (by simpa using hp)
  have hl2 : fromLe (le 2 (frameCrc t p)) = frameCrc t p := fromLe_le_of_lt 2 _ (by simpa [frameCrc] using hcrc)
  have hrx : h1.rxB = UInt8.ofNat Spec.startByte :: UInt8.ofNat t :: (le 2 p.length ++ (le 2 (frameCrc t p) ++ (p ++ rest))) := by
    rw [hI.rxB]; simp [mkFrame]
  have e1 := readFrameHeader_ok none h1 _ _ t _ b0_toNat hbt (Or.inr ht) (Or.inl rfl) hrx
  obtain ⟨g1, hg1⟩ : ∃ g, g = (h1.rd 1 (UInt8.ofNat t :: (le 2 p.length ++ (le 2 (frameCrc t p) ++ (p ++ rest))))).rd 1
      (le 2 p.length ++ (le 2 (frameCrc t p) ++ (p ++ rest))) := ⟨_, rfl⟩
  rw [← hg1] at e1
  have hI1 : g1.Is h0 st d (le 2 p.length ++ (le 2 (frameCrc t p) ++ (p ++ rest))) r := by
    rw [hg1]; exact (hI.rd 1 _).rd 1 _
  have e2 := devRead_ok 2 g1 (le 2 p.length) _ (by omega) (le_length _ _) hI1.rxB
  have hI2 := hI1.rd 1 (le 2 (frameCrc t p) ++ (p ++ rest))
  have e3 := devRead_ok 2 _ (le 2 (frameCrc t p)) _ (by omega) (le_length _ _) hI2.rxB
  have hI3 := hI2.rd 1 (p ++ rest)
  have e4 := devRead_ok p.length _ p rest hplen rfl hI3.rxB
  have hI4 := (hI3.rd 1 rest).write_serial htr ackFrame
  refine ⟨_, ?_, hI4⟩
  unfold serialRead
  rw [bind_ok e1]
  simp only []
  rw [bind_ok e2, bind_ok e3, hl1, if_neg (by omega), bind_ok e4]
  unfold sendAck
  rw [bind_ok (devWrite_run _ _), hl2]
  simp only [ne_eq, not_true_eq_false, if_false]
  rcases ht with rfl | rfl
  · simp only [if_true]
    cases parseCmdResponse p <;> rfl
  · rw [if_neg (by decide), if_neg (by decide)]
    rfl

/-! ### the reference device, one write at a time -/

theorem stepSerial_cmd (d : Dev) (pkt : CmdPkt) (hwf : pkt.WF) :
    d.stepSerial (mkFrame Spec.fCmd pkt.encode) =
      match d.exec pkt with
      | .single d' r => (d', ackFrame ++ mkFrame Spec.fCmd r)
      | .toHost d' r data fs =>
        ({ d' with phase := .send pkt.tag (split d'.maxPacket data) fs }, ackFrame ++ mkFrame Spec.fCmd r)
      | .fromHost d' r a n fs =>
        (if n = 0 then { d'.finishData pkt.tag with phase := .send pkt.tag [] fs } else { d' with phase := .recv pkt.tag a n fs },
          ackFrame ++ mkFrame Spec.fCmd r) := by
  have hlen : pkt.encode.length < 65536 := by rw [encode_length]; have := hwf.count; omega
  have h1 : mkFrame Spec.fCmd pkt.encode ≠ pingFrame := by
    intro e; have := congrArg List.length e; rw [mkFrame_length] at this; simp [pingFrame] at this; omega
  have h2 : mkFrame Spec.fCmd pkt.encode ≠ ackFrame := by
    intro e; have := congrArg List.length e; rw [mkFrame_length] at this; simp [ackFrame] at this; omega
  have h3 := frame_roundtrip' Spec.fCmd pkt.encode [] (by decide) hlen
  rw [List.append_nil] at h3
  unfold Dev.stepSerial
  rw [if_neg h1, if_neg h2, h3]
  simp only [if_true, cmd_roundtrip' pkt hwf]
  cases d.exec pkt <;> rfl

theorem abortsNow_false (d : Dev) (h : d.abortAfter = none) : d.abortsNow = false := by
  unfold Dev.abortsNow
  rw [h]
  cases d.phase <;> rfl

/-- a data packet the device accepts (no forced abort) -/
theorem stepSerial_data_acc (d : Dev) (c : Bytes) (hlen : c.length < 65536) (hab : d.abortsNow = false)
    (d' : Dev) (fin : Option Bytes) (hacc : d.acceptData c = some (d', fin)) :
    d.stepSerial (mkFrame Spec.fData c) =
      (d', ackFrame ++ (match fin with | none => [] | some f => mkFrame Spec.fCmd f)) := by
  have h1 : mkFrame Spec.fData c ≠ pingFrame := by
    intro e; have := congrArg List.length e; rw [mkFrame_length] at this; simp [pingFrame] at this; omega
  have h2 : mkFrame Spec.fData c ≠ ackFrame := by
    intro e; have := congrArg List.length e; rw [mkFrame_length] at this; simp [ackFrame] at this; omega
  have h3 := frame_roundtrip' Spec.fData c [] (by decide) hlen
  rw [List.append_nil] at h3
  unfold Dev.stepSerial
  rw [if_neg h1, if_neg h2, h3]
  simp only [if_true]
  rw [if_neg (by decide)]
  simp only [hab, hacc, Bool.false_eq_true, if_false]
  cases fin <;> simp

/-- a data packet outside a data phase that the device collects (image mode) -/
theorem stepSerial_data_stray (d : Dev) (c : Bytes) (hlen : c.length < 65536) (hph : d.phase = .idle)
    (d' : Dev) (hs : d.strayData c = some d') :
    d.stepSerial (mkFrame Spec.fData c) = (d', ackFrame) := by
  have h1 : mkFrame Spec.fData c ≠ pingFrame := by
    intro e; have := congrArg List.length e; rw [mkFrame_length] at this; simp [pingFrame] at this; omega
  have h2 : mkFrame Spec.fData c ≠ ackFrame := by
    intro e; have := congrArg List.length e; rw [mkFrame_length] at this; simp [ackFrame] at this; omega
  have h3 := frame_roundtrip' Spec.fData c [] (by decide) hlen
  rw [List.append_nil] at h3
  have hab : d.abortsNow = false := by unfold Dev.abortsNow; rw [hph]
  have hacc : d.acceptData c = none := by unfold Dev.acceptData; rw [hph]
  unfold Dev.stepSerial
  rw [if_neg h1, if_neg h2, h3]
  simp only [if_true]
  rw [if_neg (by decide)]
  simp only [hab, hacc, hs, Bool.false_eq_true, if_false, hph]

theorem stepSerial_ack (d : Dev) :
    d.stepSerial ackFrame =
      match d.phase with
      | .send tag (c :: cs) fs => ({ d with phase := .send tag cs fs }, mkFrame Spec.fData c)
      | .send tag [] fs => ({ d with phase := .idle }, mkFrame Spec.fCmd (genericResp fs tag))
      | _ => (d, []) := by
  unfold Dev.stepSerial
  rw [if_neg (by decide), if_pos rfl]
  rcases d.phase with _ | _ | ⟨tag, _ | ⟨c, cs⟩, fs⟩ <;> rfl

theorem stepSerial_ack_idle (d : Dev) (h : d.phase = .idle) : d.stepSerial ackFrame = (d, []) := by
  rw [stepSerial_ack, h]


theorem stepHid_cmd (d : Dev) (pkt : CmdPkt) (hwf : pkt.WF) :
    d.stepHid (mkReport Spec.ridCmdOut pkt.encode) =
      match d.exec pkt with
      | .single d' r => (d', [padTo d.hidPad (mkReport Spec.ridCmdIn r)])
      | .toHost d' r data fs =>
        (d', [padTo d.hidPad (mkReport Spec.ridCmdIn r)] ++
          (split d'.maxPacket data).map (fun c => padTo d.hidPad (mkReport Spec.ridDataIn c)) ++
          [padTo d.hidPad (mkReport Spec.ridCmdIn (genericResp fs pkt.tag))])
      | .fromHost d' r a n fs =>
        if n = 0 then
          (d'.finishData pkt.tag,
            [padTo d.hidPad (mkReport Spec.ridCmdIn r), padTo d.hidPad (mkReport Spec.ridCmdIn (genericResp fs pkt.tag))])
        else ({ d' with phase := .recv pkt.tag a n fs }, [padTo d.hidPad (mkReport Spec.ridCmdIn r)]) := by
  have hlen : pkt.encode.length < 65536 := by rw [encode_length]; have := hwf.count; omega
  have h3 := hid_roundtrip' Spec.ridCmdOut pkt.encode [] (by decide) hlen
  rw [List.append_nil] at h3
  unfold Dev.stepHid
  simp only [h3, if_true, cmd_roundtrip' pkt hwf]
  cases d.exec pkt <;> rfl

theorem stepHid_data_acc (d : Dev) (c : Bytes) (hlen : c.length < 65536) (hab : d.abortsNow = false)
    (d' : Dev) (fin : Option Bytes) (hacc : d.acceptData c = some (d', fin)) :
    d.stepHid (mkReport Spec.ridDataOut c) =
      (d', match fin with | none => [] | some f => [padTo d.hidPad (mkReport Spec.ridCmdIn f)]) := by
  have h3 := hid_roundtrip' Spec.ridDataOut c [] (by decide) hlen
  rw [List.append_nil] at h3
  unfold Dev.stepHid
  simp only [h3, if_true]
  rw [if_neg (by decide)]
  simp only [hab, hacc, Bool.false_eq_true, if_false]
  cases fin <;> rfl

theorem stepHid_data_stray (d : Dev) (c : Bytes) (hlen : c.length < 65536) (hph : d.phase = .idle)
    (d' : Dev) (hs : d.strayData c = some d') :
    d.stepHid (mkReport Spec.ridDataOut c) = (d', []) := by
  have h3 := hid_roundtrip' Spec.ridDataOut c [] (by decide) hlen
  rw [List.append_nil] at h3
  have hab : d.abortsNow = false := by unfold Dev.abortsNow; rw [hph]
  have hacc : d.acceptData c = none := by unfold Dev.acceptData; rw [hph]
  unfold Dev.stepHid
  simp only [h3, if_true]
  rw [if_neg (by decide)]
  simp only [hab, hacc, hs, Bool.false_eq_true, if_false, hph]

/-! ### HID primitives -/

theorem hidParseFrame_report (k rid : Nat) (p : Bytes) (hrid : rid < 256) (hp0 : p ≠ []) (hp : p.length < 65536) :
    hidParseFrame (padTo k (mkReport rid p)) =
      if rid = Spec.ridCmdIn then
        match parseCmdResponse p with
        | .ok r => .ok (.resp r)
        | .error e => .error e
      else .ok (.data p) := by
  have hplen : 0 < p.length := List.length_pos_iff.mpr hp0
  have h1 : fromLe (le 2 p.length) = p.length := fromLe_le_of_lt 2 _ (by simpa using hp)
  rw [le2_cases] at h1
  have e1 : (UInt8.ofNat rid).toNat = rid := toNat_ofNat8_lt hrid
  simp only [padTo, mkReport, le2_cases, List.cons_append, List.nil_append, hidParseFrame, h1, e1]
  rw [if_neg (by omega), if_neg (by simp)]
  simp only [List.take_left']
  split <;> rename_i hc
  · cases parseCmdResponse p <;> rfl
  · rfl

theorem padTo_ne_nil (k rid : Nat) (p : Bytes) : (padTo k (mkReport rid p)).isEmpty = false := by
  simp [padTo, mkReport]


theorem hidRead_ok (h1 : Host) (k rid : Nat) (p : Bytes) (rs : List Bytes)
    (hrx : h1.rxR = padTo k (mkReport rid p) :: rs) (hrid : rid < 256) (hp0 : p ≠ []) (hp : p.length < 65536) :
    hidRead h1 =
      ((if rid = Spec.ridCmdIn then
          match parseCmdResponse p with
          | .ok r => .ok (.resp r)
          | .error e => .error e
        else .ok (.data p)), h1.rdR rs) := by
  have e1 : hidDevRead h1 = (.ok (padTo k (mkReport rid p)), h1.rdR rs) := by
    unfold hidDevRead
    simp only [hrx, padTo_ne_nil, Bool.false_eq_true, if_false, Host.rdR]
  unfold hidRead
  rw [bind_ok e1, lift_run, hidParseFrame_report k rid p hrid hp0 hp]

/-! ### `_process_cmd` -/

theorem requireOpen_ok (h : Host) (ho : h.opened = true) : requireOpen h = (.ok (), h) := by
  unfold requireOpen
  rw [bind_ok (get_run h)]
  simp [ho]

/-- the result `_process_cmd` returns for a parsed response -/
def cmdResult (ce : Bool) (r : Resp) : Except HErr Resp :=
  if ce = true ∧ r.status ≠ Spec.stSuccess then .error (.cmd r.status) else .ok r

theorem processCmd_tail (r : Resp) (h : Host) :
    (do setStatus r.status
        let h ← get
        if h.cfg.cmdExc ∧ r.status ≠ Spec.stSuccess then fail (.cmd r.status) else pure r : H Resp) h =
      (cmdResult h.cfg.cmdExc r, { h with status := r.status }) := by
  rw [bind_ok (setStatus_run _ _), bind_ok (get_run _)]
  unfold cmdResult
  simp only [ite_run, fail_run, pure_run]
  split <;> rfl

theorem processCmd_serial {h1 h0 : Host} {st d} (hI : h1.Is h0 st d [] []) (htr : h0.cfg.tr = .serial)
    (hop : h0.opened = true) (pkt : CmdPkt) (hwf : pkt.WF) (dX : Dev) (resp : Bytes)
    (hstep : d.stepSerial (mkFrame Spec.fCmd pkt.encode) = (dX, ackFrame ++ mkFrame Spec.fCmd resp))
    (rr : Resp) (hparse : parseCmdResponse resp = .ok rr) (hr0 : resp ≠ []) (hr : resp.length < 65536) :
    ∃ h2, processCmd pkt h1 = (cmdResult h0.cfg.cmdExc rr, h2) ∧
      h2.Is h0 rr.status (dX.stepSerial ackFrame).1 (dX.stepSerial ackFrame).2 [] := by
  have htr1 : h1.cfg.tr = .serial := by rw [hI.cfg, htr]
  have hlen : pkt.encode.length < 65536 := by rw [encode_length]; have := hwf.count; omega
  obtain ⟨h2, e2, hI2⟩ := serialSendFrame_ok hI htr Spec.fCmd pkt.encode hlen dX _ hstep
  have hI2' : h2.Is h0 st dX (mkFrame Spec.fCmd resp ++ []) [] := by rw [List.append_nil]; exact hI2
  obtain ⟨h3, e3, hI3⟩ := serialRead_ok hI2' htr (Or.inl rfl) hr0 hr
  rw [if_pos rfl, hparse] at e3
  simp only [List.nil_append] at hI3
  have ew : writeCommand pkt h1 = (.ok (), h2) := by
    unfold writeCommand
    rw [toBytes_ok pkt hwf, bind_ok (lift_run _ _), bind_ok (get_run _)]
    simp only [htr1]
    exact e2
  have er : readAny h2 = (.ok (.resp rr), h3) := by
    unfold readAny
    rw [bind_ok (get_run _)]
    have htr2 : h2.cfg.tr = .serial := by rw [hI2.cfg, htr]
    simp only [htr2]
    exact e3
  refine ⟨{ h3 with status := rr.status }, ?_, hI3.setStatus _⟩
  unfold processCmd
  rw [bind_ok (requireOpen_ok h1 (by rw [hI.opened, hop]))]
  rw [bind_ok (catch_ok (by rw [bind_ok ew]; exact er))]
  simp only []
  rw [processCmd_tail, hI3.cfg]

theorem processCmd_hid {h1 h0 : Host} {st d} (hI : h1.Is h0 st d [] []) (htr : h0.cfg.tr = .hid)
    (hop : h0.opened = true) (pkt : CmdPkt) (hwf : pkt.WF) (dX : Dev) (k : Nat) (resp : Bytes) (rs : List Bytes)
    (hstep : d.stepHid (mkReport Spec.ridCmdOut pkt.encode) = (dX, padTo k (mkReport Spec.ridCmdIn resp) :: rs))
    (rr : Resp) (hparse : parseCmdResponse resp = .ok rr) (hr0 : resp ≠ []) (hr : resp.length < 65536) :
    ∃ h2, processCmd pkt h1 = (cmdResult h0.cfg.cmdExc rr, h2) ∧ h2.Is h0 rr.status dX [] rs := by
  have htr1 : h1.cfg.tr = .hid := by rw [hI.cfg, htr]
  have hlen : pkt.encode.length < 65536 := by rw [encode_length]; have := hwf.count; omega
  obtain ⟨h2, hh2⟩ : ∃ h2, h2 = h1.write (mkReport Spec.ridCmdOut pkt.encode) := ⟨_, rfl⟩
  have hI2 := hI.write_hid htr (mkReport Spec.ridCmdOut pkt.encode)
  rw [hstep, ← hh2] at hI2
  simp only [List.nil_append] at hI2
  have ew : writeCommand pkt h1 = (.ok (), h2) := by
    unfold writeCommand
    rw [toBytes_ok pkt hwf, bind_ok (lift_run _ _), bind_ok (get_run _)]
    simp only [htr1]
    unfold hidWriteReport
    rw [if_neg (by omega), hh2]
    rfl
  have e3 := hidRead_ok h2 k Spec.ridCmdIn resp rs hI2.rxR (by decide) hr0 hr
  rw [if_pos rfl, hparse] at e3
  have er : readAny h2 = (.ok (.resp rr), h2.rdR rs) := by
    unfold readAny
    rw [bind_ok (get_run _)]
    have htr2 : h2.cfg.tr = .hid := by rw [hI2.cfg, htr]
    simp only [htr2]
    exact e3
  refine ⟨_, ?_, (hI2.rdR rs).setStatus rr.status⟩
  unfold processCmd
  rw [bind_ok (requireOpen_ok h1 (by rw [hI.opened, hop]))]
  rw [bind_ok (catch_ok (by rw [bind_ok ew]; exact er))]
  simp only []
  rw [processCmd_tail]
  simp only [Host.rdR, hI2.cfg]


/-! ### what the commands do on a device without forced errors -/

/-- the device after it has taken one more command -/
def Dev.next (d : Dev) : Dev := { d with ncmd := d.ncmd + 1, phase := .idle, pktCount := 0 }

theorem faultAt_none (d : Dev) (hf : d.faults = []) (b : Bool) : faultAt d b = none := by
  simp [faultAt, hf]

theorem exec_fillMemory (d : Dev) (hf : d.faults = []) (a n pat : Nat) :
    d.exec ⟨Spec.cFillMemory, 0, [a, n, pat]⟩ =
      if a + n ≤ d.mem.length then
        .single { d.next with mem := splice d.mem a (fillPattern n pat) } (genericResp 0 Spec.cFillMemory)
      else .single d.next (genericResp Spec.stMemoryRangeInvalid Spec.cFillMemory) := by
  simp [Dev.exec, faultAt_none d hf, Dev.next, Spec.cFillMemory, Spec.cGetProperty, Spec.cSetProperty]

theorem exec_eraseRegion (d : Dev) (hf : d.faults = []) (a n m : Nat) :
    d.exec ⟨Spec.cFlashEraseRegion, 0, [a, n, m]⟩ =
      if a + n ≤ d.mem.length then
        .single { d.next with mem := splice d.mem a (List.replicate n 0xFF) } (genericResp 0 Spec.cFlashEraseRegion)
      else .single d.next (genericResp Spec.stMemoryRangeInvalid Spec.cFlashEraseRegion) := by
  simp [Dev.exec, faultAt_none d hf, Dev.next, Spec.cFillMemory, Spec.cGetProperty, Spec.cSetProperty,
    Spec.cFlashEraseRegion]

theorem exec_eraseAll (d : Dev) (hf : d.faults = []) (m : Nat) :
    d.exec ⟨Spec.cFlashEraseAll, 0, [m]⟩ =
      .single { d.next with mem := List.replicate d.mem.length 0xFF } (genericResp 0 Spec.cFlashEraseAll) := by
  simp [Dev.exec, faultAt_none d hf, Dev.next, Spec.cFillMemory, Spec.cGetProperty, Spec.cSetProperty,
    Spec.cFlashEraseRegion, Spec.cFlashEraseAll]

theorem exec_getProperty (d : Dev) (hf : d.faults = []) (t i : Nat) :
    d.exec ⟨Spec.cGetProperty, 0, [t, i]⟩ =
      if t = Spec.propMaxPacketSize then .single d.next (getPropResp 0 [d.maxPacket])
      else match d.props.lookup t with
        | some v => .single d.next (getPropResp 0 [v])
        | none => .single d.next (getPropResp Spec.stUnknownProperty [0]) := by
  simp only [Dev.exec, faultAt_none d hf, Dev.next, if_true]
  split
  · rfl
  · cases d.props.lookup t <;> rfl

theorem exec_setProperty (d : Dev) (hf : d.faults = []) (t v : Nat) :
    d.exec ⟨Spec.cSetProperty, 0, [t, v]⟩ =
      if d.rwProps.contains t then
        .single { d.next with props := (t, v) :: d.props.filter (fun q => q.1 != t) } (genericResp 0 Spec.cSetProperty)
      else if (d.props.lookup t).isSome ∨ t = Spec.propMaxPacketSize then
        .single d.next (genericResp Spec.stReadOnlyProperty Spec.cSetProperty)
      else .single d.next (genericResp Spec.stUnknownProperty Spec.cSetProperty) := by
  simp only [Dev.exec, faultAt_none d hf, Dev.next, if_true]
  rw [if_neg (by decide)]

theorem exec_readMemory (d : Dev) (hf : d.faults = []) (a n m : Nat) :
    d.exec ⟨Spec.cReadMemory, 0, [a, n, m]⟩ =
      if a + n ≤ d.mem.length then .toHost d.next (readMemResp 0 n) ((d.mem.drop a).take n) 0
      else .single d.next (genericResp Spec.stMemoryRangeInvalid Spec.cReadMemory) := by
  simp [Dev.exec, faultAt_none d hf, Dev.next, Spec.cFillMemory, Spec.cGetProperty, Spec.cSetProperty,
    Spec.cFlashEraseRegion, Spec.cFlashEraseAll, Spec.cReadMemory]

theorem exec_writeMemory (d : Dev) (hf : d.faults = []) (a n m : Nat) :
    d.exec ⟨Spec.cWriteMemory, Spec.flagHasDataPhase, [a, n, m]⟩ =
      if a + n ≤ d.mem.length then .fromHost d.next (genericResp 0 Spec.cWriteMemory) a n 0
      else .single d.next (genericResp Spec.stMemoryRangeInvalid Spec.cWriteMemory) := by
  simp [Dev.exec, faultAt_none d hf, Dev.next, Spec.cFillMemory, Spec.cGetProperty, Spec.cSetProperty,
    Spec.cFlashEraseRegion, Spec.cFlashEraseAll, Spec.cReadMemory, Spec.cWriteMemory]

theorem exec_receiveSbFile (d : Dev) (hf : d.faults = []) (n : Nat) :
    d.exec ⟨Spec.cReceiveSbFile, Spec.flagHasDataPhase, [n]⟩ =
      .fromHost { d.next with sb := [] } (genericResp 0 Spec.cReceiveSbFile) 0 n 0 := by
  simp [Dev.exec, faultAt_none d hf, Dev.next, Spec.cFillMemory, Spec.cGetProperty, Spec.cSetProperty,
    Spec.cFlashEraseRegion, Spec.cFlashEraseAll, Spec.cReadMemory, Spec.cWriteMemory, Spec.cReceiveSbFile]

/-- the commands the reference device only records (`p.tag` one of the five log-only tags) -/
theorem exec_logOnly (d : Dev) (hf : d.faults = []) (tag : Nat) (ps : List Nat)
    (ht : tag = Spec.cExecute ∨ tag = Spec.cCall ∨ tag = Spec.cFlashEraseAllUnsecure
      ∨ tag = Spec.cConfigureMemory ∨ tag = Spec.cReliableUpdate) :
    d.exec ⟨tag, 0, ps⟩ = .single { d.next with log := d.log ++ [(tag, ps)] } (genericResp 0 tag) := by
  rcases ht with rfl | rfl | rfl | rfl | rfl <;>
    simp [Dev.exec, faultAt_none d hf, Dev.next, Spec.cFillMemory, Spec.cGetProperty, Spec.cSetProperty,
      Spec.cFlashEraseRegion, Spec.cFlashEraseAll, Spec.cReadMemory, Spec.cWriteMemory, Spec.cReceiveSbFile,
      Spec.cExecute, Spec.cCall, Spec.cFlashEraseAllUnsecure, Spec.cConfigureMemory, Spec.cReliableUpdate]

theorem exec_kpLog (d : Dev) (hf : d.faults = []) (ps : List Nat)
    (hp : ps = [Spec.kpEnroll] ∨ (∃ m, ps = [Spec.kpWriteNonVolatile, m]) ∨ (∃ m, ps = [Spec.kpReadNonVolatile, m])
      ∨ (∃ t z, ps = [Spec.kpSetIntrinsicKey, t, z])) :
    d.exec ⟨Spec.cKeyProvisioning, 0, ps⟩ =
      .single { d.next with log := d.log ++ [(Spec.cKeyProvisioning, ps)] } (genericResp 0 Spec.cKeyProvisioning) := by
  rcases hp with rfl | ⟨m, rfl⟩ | ⟨m, rfl⟩ | ⟨t, z, rfl⟩ <;>
    simp [Dev.exec, faultAt_none d hf, Dev.next, Spec.cFillMemory, Spec.cGetProperty, Spec.cSetProperty,
      Spec.cFlashEraseRegion, Spec.cFlashEraseAll, Spec.cReadMemory, Spec.cWriteMemory, Spec.cReceiveSbFile,
      Spec.cExecute, Spec.cCall, Spec.cFlashEraseAllUnsecure, Spec.cConfigureMemory, Spec.cReliableUpdate,
      Spec.cReset, Spec.cFlashReadResource, Spec.cFlashReadOnce, Spec.cFlashProgramOnce, Spec.cKeyProvisioning,
      Spec.kpEnroll, Spec.kpWriteNonVolatile, Spec.kpReadNonVolatile, Spec.kpSetIntrinsicKey]

theorem exec_kpData (d : Dev) (hf : d.faults = []) (op t n : Nat) (hop : op = Spec.kpSetUserKey ∨ op = Spec.kpWriteKeyStore) :
    d.exec ⟨Spec.cKeyProvisioning, Spec.flagHasDataPhase, [op, t, n]⟩ =
      .fromHost { d.next with kpTarget := (op, t), kpBuf := [] } (genericResp 0 Spec.cKeyProvisioning) 0 n 0 := by
  rcases hop with rfl | rfl <;>
    simp [Dev.exec, faultAt_none d hf, Dev.next, Spec.cFillMemory, Spec.cGetProperty, Spec.cSetProperty,
      Spec.cFlashEraseRegion, Spec.cFlashEraseAll, Spec.cReadMemory, Spec.cWriteMemory, Spec.cReceiveSbFile,
      Spec.cExecute, Spec.cCall, Spec.cFlashEraseAllUnsecure, Spec.cConfigureMemory, Spec.cReliableUpdate,
      Spec.cReset, Spec.cFlashReadResource, Spec.cFlashReadOnce, Spec.cFlashProgramOnce, Spec.cKeyProvisioning,
      Spec.kpSetUserKey, Spec.kpWriteKeyStore, Spec.kpSetIntrinsicKey]

theorem exec_kpReadKeyStore (d : Dev) (hf : d.faults = []) :
    d.exec ⟨Spec.cKeyProvisioning, 0, [Spec.kpReadKeyStore]⟩ =
      .toHost d.next (lenResp Spec.rKeyProv 0 d.keyStore.length) d.keyStore 0 := by
  simp [Dev.exec, faultAt_none d hf, Dev.next, Spec.cFillMemory, Spec.cGetProperty, Spec.cSetProperty,
    Spec.cFlashEraseRegion, Spec.cFlashEraseAll, Spec.cReadMemory, Spec.cWriteMemory, Spec.cReceiveSbFile,
    Spec.cExecute, Spec.cCall, Spec.cFlashEraseAllUnsecure, Spec.cConfigureMemory, Spec.cReliableUpdate,
    Spec.cReset, Spec.cFlashReadResource, Spec.cFlashReadOnce, Spec.cFlashProgramOnce, Spec.cKeyProvisioning,
    Spec.kpReadKeyStore, Spec.kpEnroll]

theorem exec_flashReadResource (d : Dev) (hf : d.faults = []) (a n o : Nat) :
    d.exec ⟨Spec.cFlashReadResource, 0, [a, n, o]⟩ =
      if a + n ≤ d.resource.length then
        .toHost d.next (lenResp Spec.rFlashReadResource 0 n) ((d.resource.drop a).take n) 0
      else .single d.next (genericResp Spec.stMemoryRangeInvalid Spec.cFlashReadResource) := by
  simp [Dev.exec, faultAt_none d hf, Dev.next, Spec.cFillMemory, Spec.cGetProperty, Spec.cSetProperty,
    Spec.cFlashEraseRegion, Spec.cFlashEraseAll, Spec.cReadMemory, Spec.cWriteMemory, Spec.cReceiveSbFile,
    Spec.cExecute, Spec.cCall, Spec.cFlashEraseAllUnsecure, Spec.cConfigureMemory, Spec.cReliableUpdate,
    Spec.cReset, Spec.cFlashReadResource]

theorem exec_flashReadOnce4 (d : Dev) (hf : d.faults = []) (i : Nat) :
    d.exec ⟨Spec.cFlashReadOnce, 0, [i, 4]⟩ = .single d.next (readOnceResp 0 4 [(d.fuses.lookup i).getD 0]) := by
  simp [Dev.exec, faultAt_none d hf, Dev.next, Spec.cFillMemory, Spec.cGetProperty, Spec.cSetProperty,
    Spec.cFlashEraseRegion, Spec.cFlashEraseAll, Spec.cReadMemory, Spec.cWriteMemory, Spec.cReceiveSbFile,
    Spec.cExecute, Spec.cCall, Spec.cFlashEraseAllUnsecure, Spec.cConfigureMemory, Spec.cReliableUpdate,
    Spec.cReset, Spec.cFlashReadResource, Spec.cFlashReadOnce]

theorem exec_flashReadOnce8 (d : Dev) (hf : d.faults = []) (i : Nat) :
    d.exec ⟨Spec.cFlashReadOnce, 0, [i, 8]⟩ =
      .single d.next (readOnceResp 0 8 [(d.fuses.lookup i).getD 0, (d.fuses.lookup (i + 1)).getD 0]) := by
  simp [Dev.exec, faultAt_none d hf, Dev.next, Spec.cFillMemory, Spec.cGetProperty, Spec.cSetProperty,
    Spec.cFlashEraseRegion, Spec.cFlashEraseAll, Spec.cReadMemory, Spec.cWriteMemory, Spec.cReceiveSbFile,
    Spec.cExecute, Spec.cCall, Spec.cFlashEraseAllUnsecure, Spec.cConfigureMemory, Spec.cReliableUpdate,
    Spec.cReset, Spec.cFlashReadResource, Spec.cFlashReadOnce]

theorem exec_flashProgramOnce4 (d : Dev) (hf : d.faults = []) (i v : Nat) :
    d.exec ⟨Spec.cFlashProgramOnce, 0, [i, 4, v]⟩ =
      .single (d.next.programFuse i v) (genericResp 0 Spec.cFlashProgramOnce) := by
  simp [Dev.exec, faultAt_none d hf, Dev.next, Spec.cFillMemory, Spec.cGetProperty, Spec.cSetProperty,
    Spec.cFlashEraseRegion, Spec.cFlashEraseAll, Spec.cReadMemory, Spec.cWriteMemory, Spec.cReceiveSbFile,
    Spec.cExecute, Spec.cCall, Spec.cFlashEraseAllUnsecure, Spec.cConfigureMemory, Spec.cReliableUpdate,
    Spec.cReset, Spec.cFlashReadResource, Spec.cFlashReadOnce, Spec.cFlashProgramOnce]

/-! ### responses -/

theorem genericResp_length (st tag : Nat) : (genericResp st tag).length = 12 := by simp [genericResp]
theorem genericResp_ne_nil (st tag : Nat) : genericResp st tag ≠ [] := by simp [genericResp]
theorem readMemResp_length (st n : Nat) : (readMemResp st n).length = 12 := by simp [readMemResp]
theorem readMemResp_ne_nil (st n : Nat) : readMemResp st n ≠ [] := by simp [readMemResp]
theorem lenResp_length (t st n : Nat) : (lenResp t st n).length = 12 := by simp [lenResp]
theorem lenResp_ne_nil (t st n : Nat) : lenResp t st n ≠ [] := by simp [lenResp]
theorem getPropResp1_length (st v : Nat) : (getPropResp st [v]).length = 12 := by simp [getPropResp]
theorem getPropResp_ne_nil (st : Nat) (vs : List Nat) : getPropResp st vs ≠ [] := by simp [getPropResp]
theorem readOnceResp_length (st n : Nat) (vs : List Nat) : (readOnceResp st n vs).length = 12 + 4 * vs.length := by
  simp only [readOnceResp, List.length_append, List.length_cons, List.length_nil, le_length, flatMap_le4_length]
theorem readOnceResp_ne_nil (st n : Nat) (vs : List Nat) : readOnceResp st n vs ≠ [] := by simp [readOnceResp]

theorem lenResp_parse_resource (st len : Nat) (h1 : st < 4294967296) (h2 : len < 4294967296) :
    parseCmdResponse (lenResp Spec.rFlashReadResource st len) =
      .ok { kind := .flashReadResource, tag := Spec.rFlashReadResource, pc := 2, status := st, length := len } := by
  have a : fromLe (le 4 st) = st := fromLe_le_of_lt 4 st (by omega)
  have b : fromLe (le 4 len) = len := fromLe_le_of_lt 4 len (by omega)
  have k : kindOf (UInt8.ofNat Spec.rFlashReadResource).toNat = .flashReadResource := by decide
  simp only [lenResp, List.cons_append, List.nil_append, parseCmdResponse, k]
  simp [a, b]
  decide

theorem lenResp_parse_keyProv (st len : Nat) (h1 : st < 4294967296) (h2 : len < 4294967296) :
    parseCmdResponse (lenResp Spec.rKeyProv st len) =
      .ok { kind := .keyProv, tag := Spec.rKeyProv, pc := 2, status := st, length := len } := by
  have a : fromLe (le 4 st) = st := fromLe_le_of_lt 4 st (by omega)
  have b : fromLe (le 4 len) = len := fromLe_le_of_lt 4 len (by omega)
  have k : kindOf (UInt8.ofNat Spec.rKeyProv).toNat = .keyProv := by decide
  simp only [lenResp, List.cons_append, List.nil_append, parseCmdResponse, k]
  simp [a, b]
  decide

theorem drop8_le_le (a b : Nat) (x : Bytes) : (le 4 a ++ (le 4 b ++ x)).drop 8 = x := by
  rw [show 8 = 4 + 4 from rfl, ← List.drop_drop, drop_le_append, drop_le_append]

theorem readOnceResp_parse (st : Nat) (vals : List Nat) (h1 : st < 4294967296) (hv : ∀ v ∈ vals, v < 4294967296)
    (hn : vals.length < 254) (hpos : 0 < vals.length) :
    parseCmdResponse (readOnceResp st (4 * vals.length) vals) =
      .ok { kind := .flashReadOnce, tag := Spec.rFlashReadOnce, pc := 2 + vals.length, status := st,
            length := 4 * vals.length, values := vals, data := vals.flatMap (le 4) } := by
  have a : fromLe (le 4 st) = st := fromLe_le_of_lt 4 st (by omega)
  have b : fromLe (le 4 (4 * vals.length)) = 4 * vals.length := fromLe_le_of_lt 4 _ (by omega)
  have k : kindOf (UInt8.ofNat Spec.rFlashReadOnce).toNat = .flashReadOnce := by decide
  have e3 : (UInt8.ofNat (2 + vals.length)).toNat = 2 + vals.length := toNat_ofNat8_lt (by omega)
  have e4 := u32s_flatMap_le vals [] hv
  simp only [List.append_nil] at e4
  have e5 := flatMap_le4_length vals
  simp only [readOnceResp, List.cons_append, List.nil_append, List.append_assoc, parseCmdResponse, k, e3]
  have c1 : ¬ (le 4 st ++ (le 4 (4 * vals.length) ++ List.flatMap (le 4) vals)).length < 4 := by simp
  have c2 : ¬ ((le 4 st ++ (le 4 (4 * vals.length) ++ List.flatMap (le 4) vals)).length < 4 * (2 + vals.length)
      ∨ 2 + vals.length < 2) := by
    simp only [List.length_append, le_length, e5]; omega
  rw [if_neg c1]
  simp only [if_neg c2, take_le_append, drop_le_append, drop8_le_le, a, b, e4, Nat.add_sub_cancel_left]
  rw [if_pos (by omega), ← e5, List.take_length]
  rfl

/-- a command answered by a single response, either transport -/
theorem processCmd_single {h1 h0 : Host} {st d} (hI : h1.Is h0 st d [] []) (hop : h0.opened = true)
    (pkt : CmdPkt) (hwf : pkt.WF) (d1 : Dev) (resp : Bytes) (hexec : d.exec pkt = .single d1 resp)
    (hid1 : d1.phase = .idle)
    (rr : Resp) (hparse : parseCmdResponse resp = .ok rr) (hr0 : resp ≠ []) (hr : resp.length < 65536) :
    ∃ h2, processCmd pkt h1 = (cmdResult h0.cfg.cmdExc rr, h2) ∧ h2.Is h0 rr.status d1 [] [] := by
  cases htr : h0.cfg.tr with
  | serial =>
    have hstep := stepSerial_cmd d pkt hwf
    rw [hexec] at hstep
    obtain ⟨h2, e2, hI2⟩ := processCmd_serial hI htr hop pkt hwf d1 resp hstep rr hparse hr0 hr
    rw [stepSerial_ack_idle d1 hid1] at hI2
    exact ⟨h2, e2, hI2⟩
  | hid =>
    have hstep := stepHid_cmd d pkt hwf
    rw [hexec] at hstep
    exact processCmd_hid hI htr hop pkt hwf d1 _ resp [] hstep rr hparse hr0 hr

theorem simpleCmd_single {h1 h0 : Host} {st d} (hI : h1.Is h0 st d [] []) (hop : h0.opened = true)
    (tag : Nat) (params : List Nat) (hwf : (⟨tag, 0, params⟩ : CmdPkt).WF) (d1 : Dev) (s : Nat) (hs : s < 4294967296)
    (hexec : d.exec ⟨tag, 0, params⟩ = .single d1 (genericResp s tag)) (hid1 : d1.phase = .idle) :
    ∃ h2, simpleCmd tag params h1 =
        ((if s = 0 then .ok (.bool true) else specFail h0.cfg.cmdExc s (.bool false)), h2) ∧
      h2.Is h0 s d1 [] [] := by
  have htag : tag < 4294967296 := by have := hwf.tag; simp at this; omega
  obtain ⟨h2, e2, hI2⟩ := processCmd_single hI hop _ hwf d1 _ hexec hid1 _ (genericResp_parse s tag hs htag)
    (genericResp_ne_nil _ _) (by rw [genericResp_length]; omega)
  refine ⟨h2, ?_, hI2⟩
  unfold simpleCmd
  simp only [cmdResult] at e2
  by_cases hs0 : s = 0
  · subst hs0
    rw [if_neg (by simp)] at e2
    rw [bind_ok e2]
    rfl
  · rw [if_neg hs0]
    unfold specFail
    cases hce : h0.cfg.cmdExc
    · rw [if_neg (by simp [hce])] at e2
      rw [bind_ok e2]
      simp [hs0]
    · rw [if_pos ⟨hce, hs0⟩] at e2
      rw [bind_err e2]
      rfl

/-! ### assembling the operations -/

theorem next_eq (d : Dev) (h : d.phase = .idle) : d.next = { d with ncmd := d.ncmd + 1, pktCount := 0 } := by
  cases d; simp_all [Dev.next]

theorem Synced.is {h : Host} {d : Dev} (hs : Synced h d) : h.Is h h.status d [] [] :=
  ⟨rfl, rfl, rfl, rfl, rfl, rfl, hs.peer, hs.rxB, hs.rxR⟩

/-- the conclusion of the refinement theorems -/
def Refines (h : Host) (op : Op) (d' : Dev) (res : Except HErr Val) (st : Nat) : Prop :=
  ∃ h', runOp op h = (res, h') ∧ Synced h' d' ∧ h'.status = st ∧ h'.cfg = h.cfg ∧ h'.mps = h.mps ∧ h'.eda = false

theorem Refines.mk' {h h2 : Host} {op : Op} {d' : Dev} {res : Except HErr Val} {st : Nat}
    (e : runOp op h = (res, h2)) (hI : h2.Is h st d' [] []) (hop : h.opened = true) (hid : d'.phase = .idle)
    (heda : h.eda = false) : Refines h op d' res st :=
  ⟨h2, e, ⟨hI.peer, hid, hI.rxB, hI.rxR, by rw [hI.opened, hop]⟩, hI.status, hI.cfg, hI.mps, by rw [hI.eda, heda]⟩

theorem lookup_mem {t v : Nat} {l : List (Nat × Nat)} (h : l.lookup t = some v) : (t, v) ∈ l := by
  induction l with
  | nil => simp at h
  | cons q r ih =>
    obtain ⟨a, b⟩ := q
    rw [List.lookup_cons] at h
    by_cases e : t = a
    · subst e; simp at h; subst h; simp
    · have : (t == a) = false := by simpa using e
      rw [this] at h
      exact List.mem_cons_of_mem _ (ih h)

theorem clampMemId_lt {m : Nat} (h : m < 4294967296) : clampMemId m < 4294967296 := by
  unfold clampMemId; split <;> omega

theorem wf_mk (tag fl : Nat) (ps : List Nat) (h1 : tag < 256) (h2 : fl < 256) (h3 : ps.length < 256)
    (h4 : ∀ v ∈ ps, v < 4294967296) : (⟨tag, fl, ps⟩ : CmdPkt).WF := ⟨h1, h2, h3, h4⟩

theorem refines_fillMemory (h : Host) (d d' : Dev) (a n pat : Nat) (res : Except HErr Val) (st : Nat)
    (hs : Synced h d) (hd : d.OK) (heda : h.eda = false)
    (hargs : (Op.fillMemory a n pat).argsOK) (hspec : specOp h.cfg.cmdExc h.cfg.usb d (.fillMemory a n pat) = some (d', res, st)) :
    Refines h (.fillMemory a n pat) d' res st := by
  obtain ⟨ha, hn, hp⟩ := hargs
  have hwf : (⟨Spec.cFillMemory, 0, [a, n, pat]⟩ : CmdPkt).WF :=
    wf_mk _ _ _ (by decide) (by decide) (by simp) (by intro v hv; simp at hv; rcases hv with rfl | rfl | rfl <;> assumption)
  have hex := exec_fillMemory d hd.nofault a n pat
  simp only [specOp] at hspec
  split at hspec <;> rename_i hc <;> simp only [Option.some.injEq, Prod.mk.injEq] at hspec <;>
    obtain ⟨rfl, rfl, rfl⟩ := hspec
  · rw [if_pos hc] at hex
    obtain ⟨h2, e2, hI2⟩ := simpleCmd_single hs.is hs.opened _ _ hwf _ 0 (by omega) hex rfl
    rw [next_eq d hs.idle] at hI2
    exact Refines.mk' e2 hI2 hs.opened hs.idle heda
  · rw [if_neg hc] at hex
    obtain ⟨h2, e2, hI2⟩ := simpleCmd_single hs.is hs.opened _ _ hwf _ Spec.stMemoryRangeInvalid (by decide) hex rfl
    rw [next_eq d hs.idle] at hI2
    exact Refines.mk' e2 hI2 hs.opened hs.idle heda

theorem refines_eraseRegion (h : Host) (d d' : Dev) (a n m : Nat) (res : Except HErr Val) (st : Nat)
    (hs : Synced h d) (hd : d.OK) (heda : h.eda = false)
    (hargs : (Op.eraseRegion a n m).argsOK) (hspec : specOp h.cfg.cmdExc h.cfg.usb d (.eraseRegion a n m) = some (d', res, st)) :
    Refines h (.eraseRegion a n m) d' res st := by
  obtain ⟨ha, hn, hm⟩ := hargs
  have hm' := clampMemId_lt hm
  have hwf : (⟨Spec.cFlashEraseRegion, 0, [a, n, clampMemId m]⟩ : CmdPkt).WF :=
    wf_mk _ _ _ (by decide) (by decide) (by simp) (by intro v hv; simp at hv; rcases hv with rfl | rfl | rfl <;> assumption)
  have hex := exec_eraseRegion d hd.nofault a n (clampMemId m)
  simp only [specOp] at hspec
  split at hspec <;> rename_i hc <;> simp only [Option.some.injEq, Prod.mk.injEq] at hspec <;>
    obtain ⟨rfl, rfl, rfl⟩ := hspec
  · rw [if_pos hc] at hex
    obtain ⟨h2, e2, hI2⟩ := simpleCmd_single hs.is hs.opened _ _ hwf _ 0 (by omega) hex rfl
    rw [next_eq d hs.idle] at hI2
    exact Refines.mk' e2 hI2 hs.opened hs.idle heda
  · rw [if_neg hc] at hex
    obtain ⟨h2, e2, hI2⟩ := simpleCmd_single hs.is hs.opened _ _ hwf _ Spec.stMemoryRangeInvalid (by decide) hex rfl
    rw [next_eq d hs.idle] at hI2
    exact Refines.mk' e2 hI2 hs.opened hs.idle heda

theorem refines_eraseAll (h : Host) (d d' : Dev) (m : Nat) (res : Except HErr Val) (st : Nat)
    (hs : Synced h d) (hd : d.OK) (heda : h.eda = false)
    (hargs : (Op.eraseAll m).argsOK) (hspec : specOp h.cfg.cmdExc h.cfg.usb d (.eraseAll m) = some (d', res, st)) :
    Refines h (.eraseAll m) d' res st := by
  have hm : m < 4294967296 := hargs
  have hwf : (⟨Spec.cFlashEraseAll, 0, [m]⟩ : CmdPkt).WF :=
    wf_mk _ _ _ (by decide) (by decide) (by simp) (by intro v hv; simp at hv; rcases hv with rfl; assumption)
  have hex := exec_eraseAll d hd.nofault m
  simp only [specOp, Option.some.injEq, Prod.mk.injEq] at hspec
  obtain ⟨rfl, rfl, rfl⟩ := hspec
  obtain ⟨h2, e2, hI2⟩ := simpleCmd_single hs.is hs.opened _ _ hwf _ 0 (by omega) hex rfl
  rw [next_eq d hs.idle] at hI2
  exact Refines.mk' e2 hI2 hs.opened hs.idle heda

theorem refines_setProperty (h : Host) (d d' : Dev) (t v : Nat) (res : Except HErr Val) (st : Nat)
    (hs : Synced h d) (hd : d.OK) (heda : h.eda = false)
    (hargs : (Op.setProperty t v).argsOK) (hspec : specOp h.cfg.cmdExc h.cfg.usb d (.setProperty t v) = some (d', res, st)) :
    Refines h (.setProperty t v) d' res st := by
  obtain ⟨ht, hv⟩ := hargs
  have hwf : (⟨Spec.cSetProperty, 0, [t, v]⟩ : CmdPkt).WF :=
    wf_mk _ _ _ (by decide) (by decide) (by simp) (by intro v hv; simp at hv; rcases hv with rfl | rfl <;> assumption)
  have hex := exec_setProperty d hd.nofault t v
  simp only [specOp] at hspec
  split at hspec <;> rename_i hc
  · simp only [Option.some.injEq, Prod.mk.injEq] at hspec
    obtain ⟨rfl, rfl, rfl⟩ := hspec
    rw [if_pos hc] at hex
    obtain ⟨h2, e2, hI2⟩ := simpleCmd_single hs.is hs.opened _ _ hwf _ 0 (by omega) hex rfl
    rw [next_eq d hs.idle] at hI2
    exact Refines.mk' e2 hI2 hs.opened hs.idle heda
  · rw [if_neg hc] at hex
    split at hspec <;> rename_i hc2 <;> simp only [Option.some.injEq, Prod.mk.injEq] at hspec <;>
      obtain ⟨rfl, rfl, rfl⟩ := hspec
    · rw [if_pos hc2] at hex
      obtain ⟨h2, e2, hI2⟩ := simpleCmd_single hs.is hs.opened _ _ hwf _ Spec.stReadOnlyProperty (by decide) hex rfl
      rw [next_eq d hs.idle] at hI2
      exact Refines.mk' e2 hI2 hs.opened hs.idle heda
    · rw [if_neg hc2] at hex
      obtain ⟨h2, e2, hI2⟩ := simpleCmd_single hs.is hs.opened _ _ hwf _ Spec.stUnknownProperty (by decide) hex rfl
      rw [next_eq d hs.idle] at hI2
      exact Refines.mk' e2 hI2 hs.opened hs.idle heda

theorem getProperty_single {h1 h0 : Host} {st d} (hI : h1.Is h0 st d [] []) (hop : h0.opened = true)
    (t i : Nat) (hwf : (⟨Spec.cGetProperty, 0, [t, i]⟩ : CmdPkt).WF) (d1 : Dev) (s v : Nat) (hs : s < 4294967296)
    (hv : v < 4294967296)
    (hexec : d.exec ⟨Spec.cGetProperty, 0, [t, i]⟩ = .single d1 (getPropResp s [v])) (hid1 : d1.phase = .idle) :
    ∃ h2, runOp (.getProperty t i) h1 =
        ((if s = 0 then .ok (.ints [v]) else specFail h0.cfg.cmdExc s .none), h2) ∧
      h2.Is h0 s d1 [] [] := by
  obtain ⟨h2, e2, hI2⟩ := processCmd_single hI hop _ hwf d1 _ hexec hid1 _
    (getPropResp_parse s [v] hs (by intro x hx; simp at hx; subst hx; exact hv) (by simp))
    (getPropResp_ne_nil _ _) (by rw [getPropResp1_length]; omega)
  refine ⟨h2, ?_, hI2⟩
  show (getProperty t i >>= _) h1 = _
  simp only [cmdResult] at e2
  by_cases hs0 : s = 0
  · subst hs0
    rw [if_neg (by simp)] at e2
    have eg : getProperty t i h1 = (.ok (some [v]), h2) := by
      unfold getProperty
      rw [bind_ok e2]
      rfl
    rw [bind_ok eg]
    rfl
  · rw [if_neg hs0]
    unfold specFail
    cases hce : h0.cfg.cmdExc
    · rw [if_neg (by simp [hce])] at e2
      have eg : getProperty t i h1 = (.ok none, h2) := by
        unfold getProperty
        rw [bind_ok e2]
        simp [hs0]
      rw [bind_ok eg]
      rfl
    · rw [if_pos ⟨hce, hs0⟩] at e2
      have eg : getProperty t i h1 = (.error (.cmd s), h2) := by
        unfold getProperty
        rw [bind_err e2]
      rw [bind_err eg]
      rfl

theorem refines_getProperty (h : Host) (d d' : Dev) (t i : Nat) (res : Except HErr Val) (st : Nat)
    (hs : Synced h d) (hd : d.OK) (heda : h.eda = false)
    (hargs : (Op.getProperty t i).argsOK) (hspec : specOp h.cfg.cmdExc h.cfg.usb d (.getProperty t i) = some (d', res, st)) :
    Refines h (.getProperty t i) d' res st := by
  obtain ⟨ht, hi⟩ := hargs
  have hwf : (⟨Spec.cGetProperty, 0, [t, i]⟩ : CmdPkt).WF :=
    wf_mk _ _ _ (by decide) (by decide) (by simp) (by intro v hv; simp at hv; rcases hv with rfl | rfl <;> assumption)
  have hex := exec_getProperty d hd.nofault t i
  have hmp := hd.mp_lt
  simp only [specOp] at hspec
  split at hspec <;> rename_i hc
  · simp only [Option.some.injEq, Prod.mk.injEq] at hspec
    obtain ⟨rfl, rfl, rfl⟩ := hspec
    rw [if_pos hc] at hex
    obtain ⟨h2, e2, hI2⟩ := getProperty_single hs.is hs.opened _ _ hwf _ 0 d.maxPacket (by omega) (by omega) hex rfl
    rw [next_eq d hs.idle] at hI2
    exact Refines.mk' e2 hI2 hs.opened hs.idle heda
  · rw [if_neg hc] at hex
    split at hspec <;> rename_i hc2 <;> simp only [Option.some.injEq, Prod.mk.injEq] at hspec <;>
      obtain ⟨rfl, rfl, rfl⟩ := hspec
    · rw [hc2] at hex
      rename_i v
      have hv := hd.props_lt _ (lookup_mem hc2)
      obtain ⟨h2, e2, hI2⟩ := getProperty_single hs.is hs.opened _ _ hwf _ 0 v (by omega) hv hex rfl
      rw [next_eq d hs.idle] at hI2
      exact Refines.mk' e2 hI2 hs.opened hs.idle heda
    · rw [hc2] at hex
      obtain ⟨h2, e2, hI2⟩ := getProperty_single hs.is hs.opened _ _ hwf _ Spec.stUnknownProperty 0 (by decide) (by omega) hex rfl
      rw [next_eq d hs.idle] at hI2
      exact Refines.mk' e2 hI2 hs.opened hs.idle heda

/-! ### host→device data phase, device side -/

/-- what the device keeps of `k` accepted data packets with the bytes `c` (written at `a` / appended) -/
def Dev.store (d : Dev) (tag a : Nat) (c : Bytes) (k : Nat) : Dev :=
  if tag = Spec.cWriteMemory then { d with pktCount := d.pktCount + k, mem := splice d.mem a c }
  else if tag = Spec.cKeyProvisioning then { d with pktCount := d.pktCount + k, kpBuf := d.kpBuf ++ c }
  else { d with pktCount := d.pktCount + k, sb := d.sb ++ c }

/-- the device after the whole data `l` (in `k` packets) of a data phase starting at `a` -/
def Dev.afterData (d : Dev) (tag a : Nat) (l : Bytes) (k : Nat) : Dev :=
  { (d.store tag a l k).finishData tag with phase := .idle }

/-- device-level run of a host→device data phase: every packet but the last is accepted silently,
    the last one ends the phase with the final response `fin` -/
inductive Feeds : Dev → List Bytes → Dev → Bytes → Prop
  | last (d : Dev) (c : Bytes) (d' : Dev) (fin : Bytes) :
      d.abortsNow = false → d.acceptData c = some (d', some fin) → Feeds d [c] d' fin
  | more (d : Dev) (c : Bytes) (cs : List Bytes) (d1 d' : Dev) (fin : Bytes) :
      d.abortsNow = false → d.acceptData c = some (d1, none) → Feeds d1 cs d' fin → Feeds d (c :: cs) d' fin

theorem acceptData_last (d : Dev) (tag a fs : Nat) (c : Bytes) (hph : d.phase = .recv tag a c.length fs)
    (hc0 : c ≠ []) (hc : c.length ≤ d.maxPacket) :
    d.acceptData c = some (d.afterData tag a c 1, some (genericResp fs tag)) := by
  have h1 : ¬ (c.isEmpty = true ∨ d.maxPacket < c.length ∨ c.length < c.length) := by
    simp [hc0]; omega
  cases d
  simp only at hph
  subst hph
  simp only [Dev.acceptData, h1, if_false, if_true, Dev.store, Dev.afterData]

theorem acceptData_more (d : Dev) (tag a rem fs : Nat) (c : Bytes) (hph : d.phase = .recv tag a rem fs)
    (hc0 : c ≠ []) (hc : c.length ≤ d.maxPacket) (hrem : c.length < rem) :
    d.acceptData c =
      some ({ d.store tag a c 1 with phase := .recv tag (a + c.length) (rem - c.length) fs }, none) := by
  have h1 : ¬ (c.isEmpty = true ∨ d.maxPacket < c.length ∨ rem < c.length) := by
    simp [hc0]; omega
  have h2 : ¬ rem = c.length := by omega
  cases d
  simp only at hph
  subst hph
  simp only [Dev.acceptData, h1, h2, if_false, Dev.store]

theorem splice_splice (mem : Bytes) (a : Nat) (x y : Bytes) (h : a ≤ mem.length) :
    splice (splice mem a x) (a + x.length) y = splice mem a (x ++ y) := by
  have h1 : (mem.take a).length = a := by simp; omega
  unfold splice
  have e1 : (List.take a mem ++ x ++ List.drop (a + x.length) mem).take (a + x.length) = List.take a mem ++ x := by
    rw [List.take_append_of_le_length (by simp; omega)]
    exact List.take_of_length_le (by simp; omega)
  have e2 : (List.take a mem ++ x ++ List.drop (a + x.length) mem).drop (a + x.length + y.length)
      = List.drop (a + (x ++ y).length) mem := by
    have : a + x.length + y.length = (List.take a mem ++ x).length + y.length := by
      rw [List.length_append, h1]
    rw [this, List.drop_append, List.drop_drop, List.length_append, h1]
    rw [List.drop_of_length_le (by rw [List.length_append, h1]; omega), List.nil_append, List.length_append]
    congr 1; omega
  rw [e1, e2]
  simp

/-- the device after the whole data `l` of a data phase starting at `a` -/

theorem afterData_step (d : Dev) (tag a : Nat) (c l : Bytes) (k : Nat) (ph : Phase)
    (hmem : tag = Spec.cWriteMemory → a ≤ d.mem.length) :
    Dev.afterData { d.store tag a c 1 with phase := ph } tag (a + c.length) l k = d.afterData tag a (c ++ l) (1 + k) := by
  simp only [Dev.afterData, Dev.store]
  by_cases ht : tag = Spec.cWriteMemory
  · have := hmem ht
    simp only [ht, if_true]
    rw [splice_splice _ _ _ _ this]
    simp only [Dev.finishData, if_neg (show ¬ Spec.cWriteMemory = Spec.cKeyProvisioning by decide), Nat.add_assoc]
  · simp only [ht, if_false]
    by_cases hk : tag = Spec.cKeyProvisioning
    · simp only [hk, if_true, Dev.finishData, List.append_assoc, Nat.add_assoc]
      split <;> rfl
    · simp only [hk, if_false, Dev.finishData, List.append_assoc, Nat.add_assoc]

theorem store_abortAfter (d : Dev) (tag a : Nat) (c : Bytes) (k : Nat) :
    (d.store tag a c k).abortAfter = d.abortAfter := by
  simp only [Dev.store]
  split
  · rfl
  · split <;> rfl

theorem store_maxPacket (d : Dev) (tag a : Nat) (c : Bytes) (k : Nat) :
    (d.store tag a c k).maxPacket = d.maxPacket := by
  simp only [Dev.store]
  split
  · rfl
  · split <;> rfl

theorem feeds_split (mp : Nat) (hmp : 0 < mp) (tag fs : Nat) :
    ∀ (n : Nat) (l : Bytes) (d : Dev) (a : Nat), l.length = n → l ≠ [] → d.maxPacket = mp → d.abortAfter = none →
      d.phase = .recv tag a l.length fs → (tag = Spec.cWriteMemory → a + l.length ≤ d.mem.length) →
      Feeds d (split mp l) (d.afterData tag a l (split mp l).length) (genericResp fs tag) := by
  intro n
  induction n using Nat.strongRecOn with
  | _ n ih =>
    intro l d a hn hl hdmp hnoab hph hmem
    have hab := abortsNow_false d hnoab
    rw [split_cons mp hmp l hl]
    have hpos : 0 < l.length := List.length_pos_iff.mpr hl
    have hc0 : l.take mp ≠ [] := by
      intro e; have := congrArg List.length e; rw [List.length_take] at this; simp at this
      rcases this with h | h
      · omega
      · exact hl h
    by_cases hle : l.length ≤ mp
    · have e1 : l.take mp = l := List.take_of_length_le hle
      have e2 : l.drop mp = [] := List.drop_of_length_le hle
      rw [e1, e2, split_nil]
      exact Feeds.last d l _ _ hab (acceptData_last d tag a fs l hph hl (by rw [hdmp]; exact hle))
    · have hlen : (l.take mp).length = mp := by simp; omega
      have hdl : (l.drop mp).length = l.length - mp := by simp
      have hd0 : l.drop mp ≠ [] := by
        intro e; have := congrArg List.length e; rw [List.length_drop] at this; simp at this; omega
      have hacc := acceptData_more d tag a l.length fs (l.take mp) hph hc0 (by omega) (by omega)
      refine Feeds.more d _ _ _ _ _ hab hacc ?_
      have hrec := ih (l.drop mp).length (by omega) (l.drop mp)
        { d.store tag a (l.take mp) 1 with phase := .recv tag (a + (l.take mp).length) (l.length - (l.take mp).length) fs }
        (a + (l.take mp).length) rfl hd0 (by rw [← hdmp]; exact store_maxPacket d tag a _ 1)
        (by rw [← hnoab]; exact store_abortAfter d tag a _ 1)
        (by simp only [hlen, hdl]) (by
          intro ht
          have := hmem ht
          simp only [Dev.store, ht, if_true, hlen, hdl]
          rw [splice_length _ _ _ (by omega)]
          omega)
      rw [afterData_step d tag a _ _ _ _ (fun ht => by have := hmem ht; omega), List.take_append_drop] at hrec
      have hcnt : (l.take mp :: split mp (l.drop mp)).length = 1 + (split mp (l.drop mp)).length := by
        simp; omega
      rw [hcnt]
      exact hrec

/-! ### host→device data phase, host side -/

theorem writeData_serial {h1 h0 : Host} {st d r} (hI : h1.Is h0 st d [] r) (htr : h0.cfg.tr = .serial)
    (ab : Bool) (c : Bytes) (hlen : c.length < 65536) (d' : Dev) (out : Bytes)
    (hstep : d.stepSerial (mkFrame Spec.fData c) = (d', ackFrame ++ out)) :
    ∃ h2, writeData ab c h1 = (.ok (), h2) ∧ h2.Is h0 st d' out r := by
  have htr1 : h1.cfg.tr = .serial := by rw [hI.cfg, htr]
  obtain ⟨h2, e2, hI2⟩ := serialSendFrame_ok hI htr Spec.fData c hlen d' out hstep
  refine ⟨h2, ?_, hI2⟩
  unfold writeData
  rw [bind_ok (get_run _)]
  simp only [htr1]
  exact e2

theorem sendChunks_cons_ok {ab : Bool} {c : Bytes} {cs : List Bytes} {sent : Nat} {h h' : Host}
    (e : writeData ab c h = (.ok (), h')) :
    sendChunks ab (c :: cs) sent h = sendChunks ab cs (sent + c.length) h' := by
  rw [sendChunks]
  simp only [e]


theorem sendChunks_serial {h0 : Host} (htr : h0.cfg.tr = .serial) (ab : Bool) {d : Dev} {cs : List Bytes} {d' : Dev}
    {fin : Bytes} (hF : Feeds d cs d' fin) :
    ∀ (h1 : Host) (sent st : Nat), (∀ c ∈ cs, c.length < 65536) → h1.Is h0 st d [] [] →
      ∃ h2, sendChunks ab cs sent h1 = (.ok (sent + (cs.map List.length).sum, none), h2) ∧
        h2.Is h0 st d' (mkFrame Spec.fCmd fin) [] := by
  induction hF with
  | last d c d' fin hab hacc =>
    intro h1 sent st hlen hI
    have hc := hlen c (by simp)
    have hstep := stepSerial_data_acc d c hc hab _ _ hacc
    obtain ⟨h2, e2, hI2⟩ := writeData_serial hI htr ab c hc d' _ hstep
    refine ⟨h2, ?_, hI2⟩
    rw [sendChunks_cons_ok e2]
    simp [sendChunks]
  | more d c cs d1 d' fin hab hacc _ ih =>
    intro h1 sent st hlen hI
    have hc := hlen c (by simp)
    have hstep := stepSerial_data_acc d c hc hab _ _ hacc
    obtain ⟨h2, e2, hI2⟩ := writeData_serial hI htr ab c hc d1 [] hstep
    obtain ⟨h3, e3, hI3⟩ := ih h2 (sent + c.length) st (fun x hx => hlen x (by simp [hx])) hI2
    refine ⟨h3, ?_, hI3⟩
    rw [sendChunks_cons_ok e2, e3]
    simp [Nat.add_assoc]

theorem writeData_hid {h1 h0 : Host} {st d} (hI : h1.Is h0 st d [] []) (htr : h0.cfg.tr = .hid)
    (ab : Bool) (c : Bytes) (hlen : c.length < 65536) :
    ∃ h2, writeData ab c h1 = (.ok (), h2) ∧
      h2.Is h0 st (d.stepHid (mkReport Spec.ridDataOut c)).1 [] (d.stepHid (mkReport Spec.ridDataOut c)).2 := by
  have htr1 : h1.cfg.tr = .hid := by rw [hI.cfg, htr]
  cases ab
  · refine ⟨h1.write (mkReport Spec.ridDataOut c), ?_, by simpa using hI.write_hid htr (mkReport Spec.ridDataOut c)⟩
    unfold writeData
    rw [bind_ok (get_run _)]
    simp only [htr1]
    unfold hidWriteData
    rw [if_neg (by omega)]
    rfl
  · have hIg : ({ h1 with reads := h1.reads + 1 } : Host).Is h0 st d [] [] :=
      ⟨hI.cfg, hI.mps, hI.eda, hI.opened, hI.fuelHint, hI.status, hI.peer, hI.rxB, hI.rxR⟩
    refine ⟨({ h1 with reads := h1.reads + 1 } : Host).write (mkReport Spec.ridDataOut c), ?_,
      by simpa using hIg.write_hid htr (mkReport Spec.ridDataOut c)⟩
    have e1 : hidDevRead h1 = (.error .timeout, { h1 with reads := h1.reads + 1 }) := by
      unfold hidDevRead; simp only [hI.rxR]
    unfold writeData
    rw [bind_ok (get_run _)]
    simp only [htr1]
    unfold hidWriteData
    rw [if_neg (by omega)]
    simp only [if_true]
    rw [bind_ok (catch_err (bind_err e1))]
    rfl

theorem sendChunks_hid {h0 : Host} (htr : h0.cfg.tr = .hid) (ab : Bool) {d : Dev} {cs : List Bytes} {d' : Dev}
    {fin : Bytes} (hF : Feeds d cs d' fin) :
    ∀ (h1 : Host) (sent st : Nat), (∀ c ∈ cs, c.length < 65536) → h1.Is h0 st d [] [] →
      ∃ h2 k, sendChunks ab cs sent h1 = (.ok (sent + (cs.map List.length).sum, none), h2) ∧
        h2.Is h0 st d' [] [padTo k (mkReport Spec.ridCmdIn fin)] := by
  induction hF with
  | last d c d' fin hab hacc =>
    intro h1 sent st hlen hI
    have hc := hlen c (by simp)
    have hstep := stepHid_data_acc d c hc hab _ _ hacc
    obtain ⟨h2, e2, hI2⟩ := writeData_hid hI htr ab c hc
    rw [hstep] at hI2
    refine ⟨h2, _, ?_, hI2⟩
    rw [sendChunks_cons_ok e2]
    simp [sendChunks]
  | more d c cs d1 d' fin hab hacc _ ih =>
    intro h1 sent st hlen hI
    have hc := hlen c (by simp)
    have hstep := stepHid_data_acc d c hc hab _ _ hacc
    obtain ⟨h2, e2, hI2⟩ := writeData_hid hI htr ab c hc
    rw [hstep] at hI2
    obtain ⟨h3, k, e3, hI3⟩ := ih h2 (sent + c.length) st (fun x hx => hlen x (by simp [hx])) hI2
    refine ⟨h3, k, ?_, hI3⟩
    rw [sendChunks_cons_ok e2, e3]
    simp [Nat.add_assoc]

theorem sendData_ok {h1 h2 h3 : Host} (cs : List Bytes) (hop : h1.opened = true) (rr : Resp)
    (hst : rr.status = 0)
    (e1 : sendChunks h1.eda cs 0 h1 = (.ok (0 + (cs.map List.length).sum, none), h2))
    (e2 : readAny h2 = (.ok (.resp rr), h3)) :
    sendData cs h1 = (.ok true, { h3 with status := 0 }) := by
  unfold sendData
  rw [bind_ok (requireOpen_ok h1 hop), bind_ok (get_run _)]
  simp only []
  rw [bind_ok e1]
  simp only []
  rw [bind_ok (catch_ok e2)]
  simp only []
  rw [bind_ok (setStatus_run _ _), hst]
  simp

/-- the final response `fin` of the device is on its way to the host -/
def FinalPending (h1 h0 : Host) (st : Nat) (d : Dev) (fin : Bytes) : Prop :=
  match h0.cfg.tr with
  | .serial => h1.Is h0 st d (mkFrame Spec.fCmd fin) []
  | .hid => ∃ k, h1.Is h0 st d [] [padTo k (mkReport Spec.ridCmdIn fin)]

theorem sendChunks_ok {h0 : Host} (ab : Bool) {d : Dev} {cs : List Bytes} {d' : Dev}
    {fin : Bytes} (hF : Feeds d cs d' fin) (h1 : Host) (sent st : Nat) (hlen : ∀ c ∈ cs, c.length < 65536)
    (hI : h1.Is h0 st d [] []) :
    ∃ h2, sendChunks ab cs sent h1 = (.ok (sent + (cs.map List.length).sum, none), h2) ∧
      FinalPending h2 h0 st d' fin := by
  unfold FinalPending
  cases htr : h0.cfg.tr with
  | serial => exact sendChunks_serial htr ab hF h1 sent st hlen hI
  | hid =>
    obtain ⟨h2, k, e, hI2⟩ := sendChunks_hid htr ab hF h1 sent st hlen hI
    exact ⟨h2, e, k, hI2⟩

theorem readAny_final {h2 h0 : Host} {st : Nat} {d' : Dev} {fin : Bytes} (hP : FinalPending h2 h0 st d' fin)
    (hid : d'.phase = .idle) (rr : Resp) (hparse : parseCmdResponse fin = .ok rr) (hr0 : fin ≠ [])
    (hr : fin.length < 65536) :
    ∃ h3, readAny h2 = (.ok (.resp rr), h3) ∧ h3.Is h0 st d' [] [] := by
  unfold FinalPending at hP
  cases htr : h0.cfg.tr with
  | serial =>
    rw [htr] at hP
    have hP' : h2.Is h0 st d' (mkFrame Spec.fCmd fin ++ []) [] := by rw [List.append_nil]; exact hP
    obtain ⟨h3, e3, hI3⟩ := serialRead_ok hP' htr (Or.inl rfl) hr0 hr
    rw [if_pos rfl, hparse] at e3
    rw [stepSerial_ack_idle d' hid] at hI3
    refine ⟨h3, ?_, hI3⟩
    unfold readAny
    rw [bind_ok (get_run _)]
    have htr2 : h2.cfg.tr = .serial := by rw [hP.cfg, htr]
    simp only [htr2]
    exact e3
  | hid =>
    rw [htr] at hP
    obtain ⟨k, hP⟩ := hP
    have e3 := hidRead_ok h2 k Spec.ridCmdIn fin [] hP.rxR (by decide) hr0 hr
    rw [if_pos rfl, hparse] at e3
    refine ⟨_, ?_, hP.rdR []⟩
    unfold readAny
    rw [bind_ok (get_run _)]
    have htr2 : h2.cfg.tr = .hid := by rw [hP.cfg, htr]
    simp only [htr2]
    exact e3

theorem set_phase_idle (d : Dev) (h : d.phase = .idle) (ph : Phase) :
    { { d with phase := ph } with phase := .idle } = d := by
  cases d; simp_all

theorem finishData_idle (d : Dev) (tag : Nat) (h : d.phase = .idle) :
    { d.finishData tag with phase := .idle } = d.finishData tag := by
  cases d
  simp only at h
  subst h
  simp only [Dev.finishData]
  split
  · split <;> rfl
  · rfl

theorem processCmd_fromHost {h1 h0 : Host} {st d} (hI : h1.Is h0 st d [] []) (hop : h0.opened = true)
    (pkt : CmdPkt) (hwf : pkt.WF) (d1 : Dev) (resp : Bytes) (a n fs : Nat)
    (hexec : d.exec pkt = .fromHost d1 resp a n fs) (hid1 : d1.phase = .idle)
    (rr : Resp) (hparse : parseCmdResponse resp = .ok rr) (hr0 : resp ≠ []) (hr : resp.length < 65536) :
    ∃ h2, processCmd pkt h1 = (cmdResult h0.cfg.cmdExc rr, h2) ∧
      if n = 0 then FinalPending h2 h0 rr.status { d1.finishData pkt.tag with phase := .idle } (genericResp fs pkt.tag)
      else h2.Is h0 rr.status { d1 with phase := .recv pkt.tag a n fs } [] [] := by
  unfold FinalPending
  cases htr : h0.cfg.tr with
  | serial =>
    have hstep := stepSerial_cmd d pkt hwf
    rw [hexec] at hstep
    obtain ⟨h2, e2, hI2⟩ := processCmd_serial hI htr hop pkt hwf _ resp hstep rr hparse hr0 hr
    refine ⟨h2, e2, ?_⟩
    by_cases hn : n = 0
    · rw [if_pos hn]
      rw [if_pos hn, stepSerial_ack] at hI2
      exact hI2
    · rw [if_neg hn]
      rw [if_neg hn, stepSerial_ack] at hI2
      exact hI2
  | hid =>
    have hstep := stepHid_cmd d pkt hwf
    rw [hexec] at hstep
    simp only [] at hstep
    by_cases hn : n = 0
    · rw [if_pos hn] at hstep
      obtain ⟨h2, e2, hI2⟩ := processCmd_hid hI htr hop pkt hwf _ _ resp _ hstep rr hparse hr0 hr
      refine ⟨h2, e2, ?_⟩
      rw [if_pos hn, finishData_idle d1 pkt.tag hid1]
      exact ⟨_, hI2⟩
    · rw [if_neg hn] at hstep
      obtain ⟨h2, e2, hI2⟩ := processCmd_hid hI htr hop pkt hwf _ _ resp _ hstep rr hparse hr0 hr
      refine ⟨h2, e2, ?_⟩
      rw [if_neg hn]
      exact hI2

theorem FinalPending.is {h1 h0 : Host} {st : Nat} {d : Dev} {fin : Bytes} (hP : FinalPending h1 h0 st d fin) :
    ∃ b r, h1.Is h0 st d b r := by
  unfold FinalPending at hP
  cases htr : h0.cfg.tr with
  | serial => rw [htr] at hP; exact ⟨_, _, hP⟩
  | hid => rw [htr] at hP; obtain ⟨k, hP⟩ := hP; exact ⟨_, _, hP⟩


theorem afterData_nil (d : Dev) (tag a : Nat) : d.afterData tag a [] 0 = { d.finishData tag with phase := .idle } := by
  cases d
  simp only [Dev.afterData, Dev.store, splice]
  split
  · simp
  · split <;> simp

theorem afterData_phase (d : Dev) (tag a : Nat) (l : Bytes) (k : Nat) (ph : Phase) :
    Dev.afterData { d with phase := ph } tag a l k = d.afterData tag a l k := by
  simp only [Dev.afterData, Dev.store]
  by_cases ht : tag = Spec.cWriteMemory
  · simp only [ht, if_true, Dev.finishData, if_neg (show ¬ Spec.cWriteMemory = Spec.cKeyProvisioning by decide)]
  · simp only [ht, if_false]
    by_cases hk : tag = Spec.cKeyProvisioning
    · simp only [hk, if_true, Dev.finishData]
      split <;> rfl
    · simp only [hk, if_false, Dev.finishData]

theorem sendData_dataOut {h2 h0 : Host} (hop : h0.opened = true) (mp : Nat) (hmp : 0 < mp) (hmp2 : mp < 65536)
    (d1 : Dev) (tag a : Nat) (data : Bytes) (htag : tag < 4294967296)
    (hmp1 : d1.maxPacket = mp) (hnoab : d1.abortAfter = none)
    (hmem : tag = Spec.cWriteMemory → a + data.length ≤ d1.mem.length)
    (hmid : if data.length = 0 then FinalPending h2 h0 0 { d1.finishData tag with phase := .idle } (genericResp 0 tag)
            else h2.Is h0 0 { d1 with phase := .recv tag a data.length 0 } [] []) :
    ∃ h3, sendData (split mp data) h2 = (.ok true, h3) ∧
      h3.Is h0 0 (d1.afterData tag a data (split mp data).length) [] [] := by
  have hparse := genericResp_parse 0 tag (by omega) htag
  by_cases hn : data.length = 0
  · rw [if_pos hn] at hmid
    have hnil : data = [] := List.length_eq_zero_iff.mp hn
    subst hnil
    obtain ⟨b, r, hI2⟩ := hmid.is
    obtain ⟨h3, e3, hI3⟩ := readAny_final hmid rfl _ hparse (genericResp_ne_nil _ _)
      (by rw [genericResp_length]; omega)
    refine ⟨{ h3 with status := 0 }, ?_, ?_⟩
    · rw [split_nil]
      exact sendData_ok [] (by rw [hI2.opened, hop]) _ rfl rfl e3
    · rw [split_nil, List.length_nil, afterData_nil d1 tag a]
      exact hI3.setStatus 0
  · rw [if_neg hn] at hmid
    have hne : data ≠ [] := fun e => hn (by rw [e]; rfl)
    have hF := feeds_split mp hmp tag 0 data.length data { d1 with phase := .recv tag a data.length 0 } a rfl hne
      hmp1 hnoab rfl hmem
    rw [afterData_phase] at hF
    have hlen : ∀ c ∈ split mp data, c.length < 65536 := by
      intro c hc; have := (split_chunks' mp hmp data c hc).1; omega
    obtain ⟨h3, e3, hP3⟩ := sendChunks_ok h2.eda hF h2 0 0 hlen hmid
    obtain ⟨h4, e4, hI4⟩ := readAny_final hP3 rfl _ hparse (genericResp_ne_nil _ _)
      (by rw [genericResp_length]; omega)
    refine ⟨{ h4 with status := 0 }, ?_, hI4.setStatus 0⟩
    exact sendData_ok _ (by rw [hmid.opened, hop]) _ rfl e3 e4

theorem splitData_ok (data : Bytes) (h : Host) (mp : Nat) (hmps : h.mps = some mp) (hmp : 0 < mp) :
    splitData data h = (.ok (split mp data), h) := by
  have e1 : getMaxPacketSize h = (.ok mp, h) := by
    unfold getMaxPacketSize
    rw [bind_ok (get_run _)]
    simp only [hmps]
    rfl
  unfold splitData
  rw [bind_ok e1, if_neg (by omega)]
  rfl

theorem cmdResult_ok (ce : Bool) (r : Resp) (h : r.status = 0) : cmdResult ce r = .ok r := by
  unfold cmdResult; rw [if_neg (by simp [h])]

theorem cmdResult_fail (ce : Bool) (r : Resp) (h : r.status ≠ 0) :
    cmdResult ce r = if ce then .error (.cmd r.status) else .ok r := by
  unfold cmdResult; cases ce <;> simp [h]

/-- a command with a host→device data phase the device accepts (`dataOutCmd`, `write_memory`) -/
theorem dataOutCmd_ok {h : Host} {d : Dev} (hs : Synced h d) (hd : d.OK) (hmps : h.mps = some d.maxPacket)
    (tag : Nat) (params : List Nat) (data : Bytes) (hwf : (⟨tag, Spec.flagHasDataPhase, params⟩ : CmdPkt).WF)
    (d1 : Dev) (a : Nat)
    (hexec : d.exec ⟨tag, Spec.flagHasDataPhase, params⟩ = .fromHost d1 (genericResp 0 tag) a data.length 0)
    (hid1 : d1.phase = .idle) (hmp1 : d1.maxPacket = d.maxPacket) (hnoab : d1.abortAfter = none)
    (hmem : tag = Spec.cWriteMemory → a + data.length ≤ d1.mem.length) :
    ∃ h3, dataOutCmd tag params data h = (.ok (.bool true), h3) ∧
      h3.Is h 0 (d1.afterData tag a data (split d.maxPacket data).length) [] [] := by
  have htag : tag < 4294967296 := by have := hwf.tag; simp at this; omega
  have esplit := splitData_ok data h d.maxPacket hmps hd.mp_pos
  obtain ⟨h2, e2, hmid⟩ := processCmd_fromHost hs.is hs.opened _ hwf _ _ _ _ _ hexec hid1 _
    (genericResp_parse 0 tag (by omega) htag) (genericResp_ne_nil _ _)
    (by rw [genericResp_length]; omega)
  rw [cmdResult_ok _ _ rfl] at e2
  obtain ⟨h3, e3, hI3⟩ := sendData_dataOut hs.opened d.maxPacket hd.mp_pos hd.mp_lt d1 tag a data
    htag hmp1 hnoab hmem hmid
  refine ⟨h3, ?_, hI3⟩
  unfold dataOutCmd
  rw [bind_ok esplit, bind_ok e2]
  simp only [if_true]
  rw [bind_ok e3]
  rfl

/-- a command with a host→device data phase the device refuses with status `s` -/
theorem dataOutCmd_refused {h : Host} {d : Dev} (hs : Synced h d) (hd : d.OK) (hmps : h.mps = some d.maxPacket)
    (tag : Nat) (params : List Nat) (data : Bytes) (hwf : (⟨tag, Spec.flagHasDataPhase, params⟩ : CmdPkt).WF)
    (d1 : Dev) (s : Nat) (hs0 : s ≠ 0) (hs1 : s < 4294967296)
    (hexec : d.exec ⟨tag, Spec.flagHasDataPhase, params⟩ = .single d1 (genericResp s tag))
    (hid1 : d1.phase = .idle) :
    ∃ h3, dataOutCmd tag params data h = (specFail h.cfg.cmdExc s (.bool false), h3) ∧ h3.Is h s d1 [] [] := by
  have htag : tag < 4294967296 := by have := hwf.tag; simp at this; omega
  have esplit := splitData_ok data h d.maxPacket hmps hd.mp_pos
  obtain ⟨h2, e2, hI2⟩ := processCmd_single hs.is hs.opened _ hwf _ _ hexec hid1 _
    (genericResp_parse s tag hs1 htag) (genericResp_ne_nil _ _) (by rw [genericResp_length]; omega)
  rw [cmdResult_fail _ _ hs0] at e2
  refine ⟨h2, ?_, hI2⟩
  unfold dataOutCmd specFail
  rw [bind_ok esplit]
  cases hce : h.cfg.cmdExc <;> rw [hce] at e2
  · rw [bind_ok e2]
    simp [hs0]
  · rw [bind_err e2]
    rfl

theorem afterData_write (d : Dev) (h : d.phase = .idle) (a : Nat) (data : Bytes) (k : Nat) :
    d.next.afterData Spec.cWriteMemory a data k =
      { d with ncmd := d.ncmd + 1, mem := splice d.mem a data, pktCount := k } := by
  cases d
  simp only at h
  subst h
  simp [Dev.afterData, Dev.store, Dev.next, Dev.finishData, Spec.cKeyProvisioning, Spec.cWriteMemory]

theorem refines_writeMemory (h : Host) (d d' : Dev) (a : Nat) (data : Bytes) (m : Nat) (res : Except HErr Val) (st : Nat)
    (hs : Synced h d) (hd : d.OK) (hmps : h.mps = some d.maxPacket) (heda : h.eda = false)
    (hargs : (Op.writeMemory a data m).argsOK)
    (hspec : specOp h.cfg.cmdExc h.cfg.usb d (.writeMemory a data m) = some (d', res, st)) :
    Refines h (.writeMemory a data m) d' res st := by
  obtain ⟨ha, hn, hm⟩ := hargs
  have hm' := clampMemId_lt hm
  have hwf : (⟨Spec.cWriteMemory, Spec.flagHasDataPhase, [a, data.length, clampMemId m]⟩ : CmdPkt).WF :=
    wf_mk _ _ _ (by decide) (by decide) (by simp) (by intro v hv; simp at hv; rcases hv with rfl | rfl | rfl <;> assumption)
  have hex := exec_writeMemory d hd.nofault a data.length (clampMemId m)
  have hrun : runOp (.writeMemory a data m) h =
      dataOutCmd Spec.cWriteMemory [a, data.length, clampMemId m] data h := rfl
  simp only [specOp] at hspec
  split at hspec <;> rename_i hc <;> simp only [Option.some.injEq, Prod.mk.injEq] at hspec <;>
    obtain ⟨rfl, rfl, rfl⟩ := hspec
  · rw [if_pos hc] at hex
    obtain ⟨h3, e3, hI3⟩ := dataOutCmd_ok hs hd hmps _ _ data hwf d.next a hex rfl rfl hd.noabort (fun _ => hc)
    rw [afterData_write d hs.idle] at hI3
    exact Refines.mk' (hrun.trans e3) hI3 hs.opened hs.idle heda
  · rw [if_neg hc] at hex
    obtain ⟨h3, e3, hI3⟩ := dataOutCmd_refused hs hd hmps _ _ data hwf d.next Spec.stMemoryRangeInvalid (by decide)
      (by decide) hex rfl
    rw [next_eq d hs.idle] at hI3
    exact Refines.mk' (hrun.trans e3) hI3 hs.opened hs.idle heda

theorem Host.Is.setEda {h1 h0 : Host} {st d b r} (hI : h1.Is h0 st d b r) (c : Bool) :
    ({ h1 with eda := c } : Host).Is { h0 with eda := c } st d b r :=
  ⟨hI.cfg, hI.mps, rfl, hI.opened, hI.fuelHint, hI.status, hI.peer, hI.rxB, hI.rxR⟩

theorem FinalPending.setEda {h1 h0 : Host} {st : Nat} {d : Dev} {fin : Bytes} (hP : FinalPending h1 h0 st d fin)
    (c : Bool) : FinalPending { h1 with eda := c } { h0 with eda := c } st d fin := by
  unfold FinalPending at hP ⊢
  simp only
  cases htr : h0.cfg.tr with
  | serial => rw [htr] at hP; exact hP.setEda c
  | hid => rw [htr] at hP; obtain ⟨k, hP⟩ := hP; exact ⟨k, hP.setEda c⟩


theorem afterData_recvSb (d : Dev) (h : d.phase = .idle) (data : Bytes) (k : Nat) :
    Dev.afterData { d.next with sb := [] } Spec.cReceiveSbFile 0 data k =
      { d with ncmd := d.ncmd + 1, sb := data, pktCount := k } := by
  cases d
  simp only at h
  subst h
  simp [Dev.afterData, Dev.store, Dev.next, Dev.finishData, Spec.cReceiveSbFile, Spec.cWriteMemory, Spec.cKeyProvisioning]

theorem refines_receiveSbFile (h : Host) (d d' : Dev) (data : Bytes) (c : Bool) (res : Except HErr Val) (st : Nat)
    (hs : Synced h d) (hd : d.OK) (hmps : h.mps = some d.maxPacket) (heda : h.eda = false)
    (hargs : (Op.receiveSbFile data c).argsOK)
    (hspec : specOp h.cfg.cmdExc h.cfg.usb d (.receiveSbFile data c) = some (d', res, st)) :
    Refines h (.receiveSbFile data c) d' res st := by
  have hn : data.length < 4294967296 := hargs
  have hwf : (⟨Spec.cReceiveSbFile, Spec.flagHasDataPhase, [data.length]⟩ : CmdPkt).WF :=
    wf_mk _ _ _ (by decide) (by decide) (by simp) (by intro v hv; simp at hv; rcases hv with rfl; assumption)
  have hex := exec_receiveSbFile d hd.nofault data.length
  have esplit := splitData_ok data h d.maxPacket hmps hd.mp_pos
  simp only [specOp, Option.some.injEq, Prod.mk.injEq] at hspec
  obtain ⟨rfl, rfl, rfl⟩ := hspec
  obtain ⟨h2, e2, hmid⟩ := processCmd_fromHost hs.is hs.opened _ hwf _ _ _ _ _ hex rfl _
    (genericResp_parse 0 Spec.cReceiveSbFile (by omega) (by decide)) (genericResp_ne_nil _ _)
    (by rw [genericResp_length]; omega)
  rw [cmdResult_ok _ _ rfl] at e2
  have hmid' : if data.length = 0 then
        FinalPending { h2 with eda := c } { h with eda := c } 0
          { Dev.finishData { d.next with sb := [] } Spec.cReceiveSbFile with phase := .idle } (genericResp 0 Spec.cReceiveSbFile)
      else ({ h2 with eda := c } : Host).Is { h with eda := c } 0
        { ({ d.next with sb := [] } : Dev) with phase := .recv Spec.cReceiveSbFile 0 data.length 0 } [] [] := by
    split <;> rename_i hc
    · rw [if_pos hc] at hmid; exact hmid.setEda c
    · rw [if_neg hc] at hmid; exact hmid.setEda c
  obtain ⟨h3, e3, hI3⟩ := sendData_dataOut (h0 := { h with eda := c }) hs.opened d.maxPacket hd.mp_pos hd.mp_lt
    { d.next with sb := [] } Spec.cReceiveSbFile 0 data (by decide) rfl hd.noabort (fun e => absurd e (by decide)) hmid'
  rw [afterData_recvSb d hs.idle] at hI3
  have hI4 : ({ h3 with eda := false } : Host).Is h 0
      { d with ncmd := d.ncmd + 1, sb := data, pktCount := (split d.maxPacket data).length } [] [] :=
    ⟨hI3.cfg, hI3.mps, heda.symm, hI3.opened, hI3.fuelHint, hI3.status, hI3.peer, hI3.rxB, hI3.rxR⟩
  refine Refines.mk' ?_ hI4 hs.opened hs.idle heda
  show receiveSbFile data c h = _
  unfold receiveSbFile
  rw [bind_ok esplit, bind_ok e2]
  simp only [if_true]
  rw [bind_ok (modify_run _ _), bind_ok e3, bind_ok (modify_run _ _)]
  rfl

/-! ### device→host data phase -/

theorem readAny_serial (h : Host) (htr : h.cfg.tr = .serial) : readAny h = serialRead h := by
  unfold readAny
  rw [bind_ok (get_run _)]
  simp only [htr]

theorem readAny_hid (h : Host) (htr : h.cfg.tr = .hid) : readAny h = hidRead h := by
  unfold readAny
  rw [bind_ok (get_run _)]
  simp only [htr]

theorem readDataLoop_data {tag f : Nat} {acc b : Bytes} {h h' : Host} (e : readAny h = (.ok (.data b), h')) :
    readDataLoop tag (f + 1) acc h = readDataLoop tag f (acc ++ b) h' := by
  have e1 : (do let x ← readAny; pure (some x) : H (Option RxItem)) h = (.ok (some (.data b)), h') := by
    rw [bind_ok e]; rfl
  rw [readDataLoop, bind_ok (catch_ok e1)]

theorem readDataLoop_final {tag f : Nat} {acc : Bytes} {h h' : Host} {r : Resp} (e : readAny h = (.ok (.resp r), h'))
    (hk : r.kind = .generic) (ht : r.cmdTag = tag) :
    readDataLoop tag (f + 1) acc h = (.ok acc, { h' with status := r.status }) := by
  have e1 : (do let x ← readAny; pure (some x) : H (Option RxItem)) h = (.ok (some (.resp r)), h') := by
    rw [bind_ok e]; rfl
  rw [readDataLoop, bind_ok (catch_ok e1)]
  simp only [hk, if_true]
  rw [bind_ok (setStatus_run _ _)]
  simp [ht]

theorem readDataLoop_serial {h0 : Host} (htr : h0.cfg.tr = .serial) (tag : Nat) (htag : tag < 4294967296) :
    ∀ (L : List Bytes) (d : Dev) (h1 : Host) (acc : Bytes) (fuel st : Nat),
      d.phase = .send tag L 0 → (∀ c ∈ L, c ≠ [] ∧ c.length < 65536) →
      h1.Is h0 st (d.stepSerial ackFrame).1 (d.stepSerial ackFrame).2 [] → L.length < fuel →
      ∃ h2, readDataLoop tag fuel acc h1 = (.ok (acc ++ L.flatten), h2) ∧ h2.Is h0 0 { d with phase := .idle } [] [] := by
  intro L
  induction L with
  | nil =>
    intro d h1 acc fuel st hph _ hI hfuel
    obtain ⟨f, rfl⟩ : ∃ f, fuel = f + 1 := ⟨fuel - 1, by omega⟩
    rw [stepSerial_ack, hph] at hI
    simp only at hI
    have hI' : h1.Is h0 st { d with phase := .idle } (mkFrame Spec.fCmd (genericResp 0 tag) ++ []) [] := by
      rw [List.append_nil]; exact hI
    obtain ⟨h2, e2, hI2⟩ := serialRead_ok hI' htr (Or.inl rfl) (genericResp_ne_nil _ _)
      (by rw [genericResp_length]; omega)
    rw [if_pos rfl, genericResp_parse 0 tag (by omega) htag] at e2
    rw [stepSerial_ack_idle _ rfl] at hI2
    rw [← readAny_serial h1 (by rw [hI.cfg, htr])] at e2
    refine ⟨_, ?_, hI2.setStatus 0⟩
    rw [readDataLoop_final e2 rfl rfl]
    simp
  | cons c cs ih =>
    intro d h1 acc fuel st hph hL hI hfuel
    obtain ⟨f, rfl⟩ : ∃ f, fuel = f + 1 := ⟨fuel - 1, by omega⟩
    rw [stepSerial_ack, hph] at hI
    simp only at hI
    have hI' : h1.Is h0 st { d with phase := .send tag cs 0 } (mkFrame Spec.fData c ++ []) [] := by
      rw [List.append_nil]; exact hI
    have hc := hL c (by simp)
    obtain ⟨h2, e2, hI2⟩ := serialRead_ok hI' htr (Or.inr rfl) hc.1 hc.2
    rw [if_neg (by decide)] at e2
    rw [← readAny_serial h1 (by rw [hI.cfg, htr])] at e2
    simp only [List.nil_append] at hI2
    obtain ⟨h3, e3, hI3⟩ := ih { d with phase := .send tag cs 0 } h2 (acc ++ c) f st rfl
      (fun x hx => hL x (by simp [hx])) hI2 (by simp at hfuel; omega)
    refine ⟨h3, ?_, hI3⟩
    rw [readDataLoop_data e2, e3]
    simp

theorem readDataLoop_hid {h0 : Host} (htr : h0.cfg.tr = .hid) (tag : Nat) (htag : tag < 4294967296) (k : Nat) (d : Dev) :
    ∀ (L : List Bytes) (h1 : Host) (acc : Bytes) (fuel st : Nat),
      (∀ c ∈ L, c ≠ [] ∧ c.length < 65536) →
      h1.Is h0 st d [] (L.map (fun c => padTo k (mkReport Spec.ridDataIn c)) ++
        [padTo k (mkReport Spec.ridCmdIn (genericResp 0 tag))]) → L.length < fuel →
      ∃ h2, readDataLoop tag fuel acc h1 = (.ok (acc ++ L.flatten), h2) ∧ h2.Is h0 0 d [] [] := by
  intro L
  induction L with
  | nil =>
    intro h1 acc fuel st _ hI hfuel
    obtain ⟨f, rfl⟩ : ∃ f, fuel = f + 1 := ⟨fuel - 1, by omega⟩
    have e2 := hidRead_ok h1 k Spec.ridCmdIn (genericResp 0 tag) [] hI.rxR (by decide) (genericResp_ne_nil _ _)
      (by rw [genericResp_length]; omega)
    rw [if_pos rfl, genericResp_parse 0 tag (by omega) htag] at e2
    rw [← readAny_hid h1 (by rw [hI.cfg, htr])] at e2
    refine ⟨_, ?_, (hI.rdR []).setStatus 0⟩
    rw [readDataLoop_final e2 rfl rfl]
    simp
  | cons c cs ih =>
    intro h1 acc fuel st hL hI hfuel
    obtain ⟨f, rfl⟩ : ∃ f, fuel = f + 1 := ⟨fuel - 1, by omega⟩
    have hc := hL c (by simp)
    have hrx : h1.rxR = padTo k (mkReport Spec.ridDataIn c) ::
        (cs.map (fun c => padTo k (mkReport Spec.ridDataIn c)) ++ [padTo k (mkReport Spec.ridCmdIn (genericResp 0 tag))]) := by
      rw [hI.rxR]; rfl
    have e2 := hidRead_ok h1 k Spec.ridDataIn c _ hrx (by decide) hc.1 hc.2
    rw [if_neg (by decide)] at e2
    rw [← readAny_hid h1 (by rw [hI.cfg, htr])] at e2
    obtain ⟨h3, e3, hI3⟩ := ih _ (acc ++ c) f st (fun x hx => hL x (by simp [hx])) (hI.rdR _)
      (by simp at hfuel; omega)
    refine ⟨h3, ?_, hI3⟩
    rw [readDataLoop_data e2, e3]
    simp

/-- the data `L` (already split) and the final response of a device→host data phase are on their way -/
def DataInPending (h1 h0 : Host) (st : Nat) (d1 : Dev) (tag : Nat) (L : List Bytes) : Prop :=
  match h0.cfg.tr with
  | .serial =>
    h1.Is h0 st (Dev.stepSerial { d1 with phase := .send tag L 0 } ackFrame).1
      (Dev.stepSerial { d1 with phase := .send tag L 0 } ackFrame).2 []
  | .hid =>
    ∃ k, h1.Is h0 st d1 [] (L.map (fun c => padTo k (mkReport Spec.ridDataIn c)) ++
      [padTo k (mkReport Spec.ridCmdIn (genericResp 0 tag))])

theorem DataInPending.is {h1 h0 : Host} {st : Nat} {d : Dev} {tag : Nat} {L : List Bytes}
    (hP : DataInPending h1 h0 st d tag L) : ∃ d' b r, h1.Is h0 st d' b r := by
  unfold DataInPending at hP
  cases htr : h0.cfg.tr with
  | serial => rw [htr] at hP; exact ⟨_, _, _, hP⟩
  | hid => rw [htr] at hP; obtain ⟨k, hP⟩ := hP; exact ⟨_, _, _, hP⟩

theorem processCmd_toHost {h1 h0 : Host} {st d} (hI : h1.Is h0 st d [] []) (hop : h0.opened = true)
    (pkt : CmdPkt) (hwf : pkt.WF) (d1 : Dev) (resp data : Bytes)
    (hexec : d.exec pkt = .toHost d1 resp data 0)
    (rr : Resp) (hparse : parseCmdResponse resp = .ok rr) (hr0 : resp ≠ []) (hr : resp.length < 65536) :
    ∃ h2, processCmd pkt h1 = (cmdResult h0.cfg.cmdExc rr, h2) ∧
      DataInPending h2 h0 rr.status d1 pkt.tag (split d1.maxPacket data) := by
  unfold DataInPending
  cases htr : h0.cfg.tr with
  | serial =>
    have hstep := stepSerial_cmd d pkt hwf
    rw [hexec] at hstep
    exact processCmd_serial hI htr hop pkt hwf _ resp hstep rr hparse hr0 hr
  | hid =>
    have hstep := stepHid_cmd d pkt hwf
    rw [hexec] at hstep
    simp only [List.cons_append, List.nil_append] at hstep
    obtain ⟨h2, e2, hI2⟩ := processCmd_hid hI htr hop pkt hwf _ _ resp _ hstep rr hparse hr0 hr
    exact ⟨h2, e2, _, hI2⟩

theorem readDataLoop_ok {h1 h0 : Host} {st : Nat} {d1 : Dev} {tag : Nat} {L : List Bytes}
    (hP : DataInPending h1 h0 st d1 tag L) (hid1 : d1.phase = .idle) (htag : tag < 4294967296)
    (hL : ∀ c ∈ L, c ≠ [] ∧ c.length < 65536) (acc : Bytes) (fuel : Nat) (hfuel : L.length < fuel) :
    ∃ h2, readDataLoop tag fuel acc h1 = (.ok (acc ++ L.flatten), h2) ∧ h2.Is h0 0 d1 [] [] := by
  unfold DataInPending at hP
  cases htr : h0.cfg.tr with
  | serial =>
    rw [htr] at hP
    obtain ⟨h2, e2, hI2⟩ := readDataLoop_serial htr tag htag L { d1 with phase := .send tag L 0 } h1 acc fuel st rfl hL hP hfuel
    rw [set_phase_idle d1 hid1] at hI2
    exact ⟨h2, e2, hI2⟩
  | hid =>
    rw [htr] at hP
    obtain ⟨k, hP⟩ := hP
    exact readDataLoop_hid htr tag htag k d1 L h1 acc fuel st hL hP hfuel

theorem splitN_length_le (n : Nat) (hn : 0 < n) (f : Nat) (l : Bytes) : (splitN n f l).length ≤ l.length := by
  induction f generalizing l with
  | zero => simp [splitN]
  | succ f ih =>
    unfold splitN
    by_cases he : l.isEmpty
    · simp [he]
    · simp only [he, Bool.false_eq_true, if_false, List.length_cons]
      have hl : 0 < l.length := by
        cases l with
        | nil => simp at he
        | cons _ _ => simp
      have := ih (l.drop n)
      simp only [List.length_drop] at this
      omega

theorem split_length_le (n : Nat) (hn : 0 < n) (l : Bytes) : (split n l).length ≤ l.length :=
  splitN_length_le n hn l.length l

theorem readData_ok {h1 h2 : Host} (tag n : Nat) (data : Bytes) (hop : h1.opened = true)
    (e : readDataLoop tag (n + h1.fuelHint + h1.rxB.length + h1.rxR.length + 8) [] h1 = (.ok data, h2))
    (hst : h2.status = 0) (hlen : data.length = n) :
    readData tag n h1 = (.ok data, h2) := by
  unfold readData
  rw [bind_ok (requireOpen_ok h1 hop), bind_ok (get_run _), bind_ok e, bind_ok (get_run _)]
  rw [if_neg (by simp [hst, hlen])]
  rw [← hlen, List.take_length]
  rfl


/-- a command with a device→host data phase followed by `_read_data`, from any in-step state -/
theorem cmd_readData {h1 h0 : Host} {st d} (hI : h1.Is h0 st d [] []) (hop : h0.opened = true)
    (pkt : CmdPkt) (hwf : pkt.WF) (d1 : Dev) (resp data : Bytes)
    (hexec : d.exec pkt = .toHost d1 resp data 0) (hid1 : d1.phase = .idle)
    (hmp : 0 < d1.maxPacket) (hmp2 : d1.maxPacket < 65536)
    (rr : Resp) (hparse : parseCmdResponse resp = .ok rr) (hr0 : resp ≠ []) (hr : resp.length < 65536)
    (hst : rr.status = 0) :
    ∃ h2, processCmd pkt h1 = (.ok rr, h2) ∧
      ∃ h3, readData pkt.tag data.length h2 = (.ok data, h3) ∧ h3.Is h0 0 d1 [] [] := by
  have htag : pkt.tag < 4294967296 := by have := hwf.tag; omega
  obtain ⟨h2, e2, hP2⟩ := processCmd_toHost hI hop pkt hwf d1 resp data hexec rr hparse hr0 hr
  rw [cmdResult_ok _ _ hst] at e2
  refine ⟨h2, e2, ?_⟩
  have hL : ∀ c ∈ split d1.maxPacket data, c ≠ [] ∧ c.length < 65536 := by
    intro c hc'
    have h1 := split_chunks' d1.maxPacket hmp _ c hc'
    exact ⟨h1.2, by omega⟩
  have hfuel : (split d1.maxPacket data).length <
      data.length + h2.fuelHint + h2.rxB.length + h2.rxR.length + 8 := by
    have := split_length_le d1.maxPacket hmp data
    omega
  obtain ⟨h3, e3, hI3⟩ := readDataLoop_ok hP2 hid1 htag hL [] _ hfuel
  rw [List.nil_append, split_flatten' _ hmp] at e3
  obtain ⟨dx, bx, rx, hI2⟩ := hP2.is
  exact ⟨h3, readData_ok pkt.tag data.length _ (by rw [hI2.opened, hop]) e3 hI3.status rfl, hI3⟩

theorem dataInCmd_ok {h : Host} {d : Dev} (hs : Synced h d) (hd : d.OK)
    (tag : Nat) (params : List Nat) (kind : RKind) (hwf : (⟨tag, 0, params⟩ : CmdPkt).WF)
    (d1 : Dev) (resp data : Bytes)
    (hexec : d.exec ⟨tag, 0, params⟩ = .toHost d1 resp data 0) (hid1 : d1.phase = .idle)
    (hmp1 : d1.maxPacket = d.maxPacket)
    (rr : Resp) (hparse : parseCmdResponse resp = .ok rr) (hr0 : resp ≠ []) (hr : resp.length < 65536)
    (hst : rr.status = 0) (hkind : rr.kind = kind) (hlen : rr.length = data.length) :
    ∃ h3, dataInCmd tag params kind h = (.ok (.bytes data), h3) ∧ h3.Is h 0 d1 [] [] := by
  obtain ⟨h2, e2, h3, e3, hI3⟩ := cmd_readData hs.is hs.opened _ hwf d1 resp data hexec hid1
    (by rw [hmp1]; exact hd.mp_pos) (by rw [hmp1]; exact hd.mp_lt) rr hparse hr0 hr hst
  refine ⟨h3, ?_, hI3⟩
  unfold dataInCmd
  rw [bind_ok e2]
  simp only [hst, hkind, hlen, if_true]
  rw [bind_ok e3]
  rfl

theorem dataInCmd_refused {h : Host} {d : Dev} (hs : Synced h d)
    (tag : Nat) (params : List Nat) (kind : RKind) (hwf : (⟨tag, 0, params⟩ : CmdPkt).WF)
    (d1 : Dev) (s : Nat) (hs0 : s ≠ 0) (hs1 : s < 4294967296)
    (hexec : d.exec ⟨tag, 0, params⟩ = .single d1 (genericResp s tag)) (hid1 : d1.phase = .idle) :
    ∃ h3, dataInCmd tag params kind h = (specFail h.cfg.cmdExc s .none, h3) ∧ h3.Is h s d1 [] [] := by
  have htag : tag < 4294967296 := by have := hwf.tag; simp at this; omega
  obtain ⟨h2, e2, hI2⟩ := processCmd_single hs.is hs.opened _ hwf _ _ hexec hid1 _
    (genericResp_parse s tag hs1 htag) (genericResp_ne_nil _ _) (by rw [genericResp_length]; omega)
  rw [cmdResult_fail _ _ hs0] at e2
  refine ⟨h2, ?_, hI2⟩
  unfold dataInCmd specFail
  cases hce : h.cfg.cmdExc <;> rw [hce] at e2
  · rw [bind_ok e2]
    simp [hs0]
  · rw [bind_err e2]
    rfl

/-! ### the remaining operations -/

theorem logged_eq (d : Dev) (h : d.phase = .idle) (tag : Nat) (ps : List Nat) :
    { d.next with log := d.log ++ [(tag, ps)] } = d.logged tag ps := by
  cases d; simp_all [Dev.next, Dev.logged]

/-- commands the reference device only records -/
theorem refines_logged (h : Host) (d : Dev) (op : Op) (tag : Nat) (ps : List Nat)
    (hs : Synced h d) (heda : h.eda = false) (hwf : (⟨tag, 0, ps⟩ : CmdPkt).WF)
    (hexec : d.exec ⟨tag, 0, ps⟩ = .single { d.next with log := d.log ++ [(tag, ps)] } (genericResp 0 tag))
    (hrun : runOp op h = simpleCmd tag ps h) :
    Refines h op (d.logged tag ps) (.ok (.bool true)) Spec.stSuccess := by
  obtain ⟨h2, e2, hI2⟩ := simpleCmd_single hs.is hs.opened _ _ hwf _ 0 (by omega) hexec rfl
  rw [logged_eq d hs.idle] at hI2
  exact Refines.mk' (hrun.trans e2) hI2 hs.opened hs.idle heda

theorem afterData_kpUser (d : Dev) (h : d.phase = .idle) (t : Nat) (data : Bytes) (k : Nat) :
    Dev.afterData { d.next with kpTarget := (Spec.kpSetUserKey, t), kpBuf := [] } Spec.cKeyProvisioning 0 data k =
      { d with ncmd := d.ncmd + 1, pktCount := k, kpTarget := (Spec.kpSetUserKey, t), kpBuf := data,
               userKeys := (t, data) :: d.userKeys.filter (fun q => q.1 != t) } := by
  cases d
  simp only at h
  subst h
  simp [Dev.afterData, Dev.store, Dev.next, Dev.finishData, Spec.cWriteMemory, Spec.cKeyProvisioning,
    Spec.kpSetUserKey, Spec.kpWriteKeyStore]

theorem afterData_kpStore (d : Dev) (h : d.phase = .idle) (data : Bytes) (k : Nat) :
    Dev.afterData { d.next with kpTarget := (Spec.kpWriteKeyStore, 0), kpBuf := [] } Spec.cKeyProvisioning 0 data k =
      { d with ncmd := d.ncmd + 1, pktCount := k, kpTarget := (Spec.kpWriteKeyStore, 0), kpBuf := data,
               keyStore := data } := by
  cases d
  simp only at h
  subst h
  simp [Dev.afterData, Dev.store, Dev.next, Dev.finishData, Spec.cWriteMemory, Spec.cKeyProvisioning,
    Spec.kpWriteKeyStore]

theorem refines_kpSetUserKey (h : Host) (d d' : Dev) (t : Nat) (data : Bytes) (res : Except HErr Val) (st : Nat)
    (hs : Synced h d) (hd : d.OK) (hmps : h.mps = some d.maxPacket) (heda : h.eda = false)
    (hargs : (Op.kpSetUserKey t data).argsOK)
    (hspec : specOp h.cfg.cmdExc h.cfg.usb d (.kpSetUserKey t data) = some (d', res, st)) :
    Refines h (.kpSetUserKey t data) d' res st := by
  obtain ⟨ht, hn⟩ := hargs
  have hwf : (⟨Spec.cKeyProvisioning, Spec.flagHasDataPhase, [Spec.kpSetUserKey, t, data.length]⟩ : CmdPkt).WF :=
    wf_mk _ _ _ (by decide) (by decide) (by simp) (by intro v hv; simp at hv; rcases hv with rfl | rfl | rfl <;> first | assumption | decide)
  have hex := exec_kpData d hd.nofault Spec.kpSetUserKey t data.length (Or.inl rfl)
  simp only [specOp, Option.some.injEq, Prod.mk.injEq] at hspec
  obtain ⟨rfl, rfl, rfl⟩ := hspec
  obtain ⟨h3, e3, hI3⟩ := dataOutCmd_ok hs hd hmps _ _ data hwf _ 0 hex rfl rfl hd.noabort (fun e => absurd e (by decide))
  rw [afterData_kpUser d hs.idle] at hI3
  exact Refines.mk' e3 hI3 hs.opened hs.idle heda

theorem refines_kpWriteKeyStore (h : Host) (d d' : Dev) (data : Bytes) (res : Except HErr Val) (st : Nat)
    (hs : Synced h d) (hd : d.OK) (hmps : h.mps = some d.maxPacket) (heda : h.eda = false)
    (hargs : (Op.kpWriteKeyStore data).argsOK)
    (hspec : specOp h.cfg.cmdExc h.cfg.usb d (.kpWriteKeyStore data) = some (d', res, st)) :
    Refines h (.kpWriteKeyStore data) d' res st := by
  have hn : data.length < 4294967296 := hargs
  have hwf : (⟨Spec.cKeyProvisioning, Spec.flagHasDataPhase, [Spec.kpWriteKeyStore, 0, data.length]⟩ : CmdPkt).WF :=
    wf_mk _ _ _ (by decide) (by decide) (by simp) (by intro v hv; simp at hv; rcases hv with rfl | rfl | rfl <;> first | assumption | decide)
  have hex := exec_kpData d hd.nofault Spec.kpWriteKeyStore 0 data.length (Or.inr rfl)
  simp only [specOp, Option.some.injEq, Prod.mk.injEq] at hspec
  obtain ⟨rfl, rfl, rfl⟩ := hspec
  obtain ⟨h3, e3, hI3⟩ := dataOutCmd_ok hs hd hmps _ _ data hwf _ 0 hex rfl rfl hd.noabort (fun e => absurd e (by decide))
  rw [afterData_kpStore d hs.idle] at hI3
  exact Refines.mk' e3 hI3 hs.opened hs.idle heda

theorem refines_kpReadKeyStore (h : Host) (d d' : Dev) (res : Except HErr Val) (st : Nat)
    (hs : Synced h d) (hd : d.OK) (heda : h.eda = false)
    (hspec : specOp h.cfg.cmdExc h.cfg.usb d .kpReadKeyStore = some (d', res, st)) :
    Refines h .kpReadKeyStore d' res st := by
  have hwf : (⟨Spec.cKeyProvisioning, 0, [Spec.kpReadKeyStore]⟩ : CmdPkt).WF :=
    wf_mk _ _ _ (by decide) (by decide) (by simp) (by intro v hv; simp at hv; rcases hv with rfl; decide)
  have hex := exec_kpReadKeyStore d hd.nofault
  simp only [specOp, Option.some.injEq, Prod.mk.injEq] at hspec
  obtain ⟨rfl, rfl, rfl⟩ := hspec
  obtain ⟨h3, e3, hI3⟩ := dataInCmd_ok hs hd _ _ .keyProv hwf d.next _ _ hex rfl rfl _
    (lenResp_parse_keyProv 0 d.keyStore.length (by omega) hd.keystore_lt) (lenResp_ne_nil _ _ _)
    (by rw [lenResp_length]; omega) rfl rfl rfl
  rw [next_eq d hs.idle] at hI3
  exact Refines.mk' e3 hI3 hs.opened hs.idle heda

theorem refines_flashReadResource (h : Host) (d d' : Dev) (a n o : Nat) (res : Except HErr Val) (st : Nat)
    (hs : Synced h d) (hd : d.OK) (heda : h.eda = false)
    (hargs : (Op.flashReadResource a n o).argsOK)
    (hspec : specOp h.cfg.cmdExc h.cfg.usb d (.flashReadResource a n o) = some (d', res, st)) :
    Refines h (.flashReadResource a n o) d' res st := by
  obtain ⟨ha, hn, ho⟩ := hargs
  have hwf : (⟨Spec.cFlashReadResource, 0, [a, n, o]⟩ : CmdPkt).WF :=
    wf_mk _ _ _ (by decide) (by decide) (by simp) (by intro v hv; simp at hv; rcases hv with rfl | rfl | rfl <;> assumption)
  have hex := exec_flashReadResource d hd.nofault a n o
  simp only [specOp] at hspec
  split at hspec <;> rename_i hmod
  · simp at hspec
  have hrun : runOp (.flashReadResource a n o) h =
      dataInCmd Spec.cFlashReadResource [a, n, o] .flashReadResource h := by
    show (if n % 4 ≠ 0 then fail .mboot else dataInCmd Spec.cFlashReadResource [a, n, o] .flashReadResource) h = _
    rw [if_neg hmod]
  split at hspec <;> rename_i hc <;> simp only [Option.some.injEq, Prod.mk.injEq] at hspec <;>
    obtain ⟨rfl, rfl, rfl⟩ := hspec
  · rw [if_pos hc] at hex
    have hdata : ((d.resource.drop a).take n).length = n := by
      rw [List.length_take, List.length_drop]; omega
    obtain ⟨h3, e3, hI3⟩ := dataInCmd_ok hs hd _ _ .flashReadResource hwf d.next _ _ hex rfl rfl _
      (lenResp_parse_resource 0 n (by omega) hn) (lenResp_ne_nil _ _ _)
      (by rw [lenResp_length]; omega) rfl rfl hdata.symm
    rw [next_eq d hs.idle] at hI3
    exact Refines.mk' (hrun.trans e3) hI3 hs.opened hs.idle heda
  · rw [if_neg hc] at hex
    obtain ⟨h3, e3, hI3⟩ := dataInCmd_refused hs _ _ .flashReadResource hwf d.next Spec.stMemoryRangeInvalid
      (by decide) (by decide) hex rfl
    rw [next_eq d hs.idle] at hI3
    exact Refines.mk' (hrun.trans e3) hI3 hs.opened hs.idle heda

/-! ### program-once words -/

theorem fuse_lt (fuses : List (Nat × Nat)) (hf : ∀ q ∈ fuses, q.2 < 4294967296) (i : Nat) :
    (fuses.lookup i).getD 0 < 4294967296 := by
  cases hl : fuses.lookup i with
  | none => simp
  | some v => exact hf _ (lookup_mem hl)

theorem programFuse_fuses_lt (d : Dev) (i v : Nat) (hf : ∀ q ∈ d.fuses, q.2 < 4294967296) (hv : v < 4294967296) :
    ∀ q ∈ (d.programFuse i v).fuses, q.2 < 4294967296 := by
  unfold Dev.programFuse
  split
  · exact hf
  · intro q hq
    simp only [List.mem_cons, List.mem_filter] at hq
    rcases hq with rfl | ⟨hq, -⟩
    · exact Nat.or_lt_two_pow (n := 32) (fuse_lt d.fuses hf i) hv
    · exact hf q hq

theorem programFuse_next (d : Dev) (i v : Nat) (h : d.phase = .idle) :
    d.next.programFuse i v = { d.programFuse i v with ncmd := d.ncmd + 1, pktCount := 0 } := by
  have hn := next_eq d h
  unfold Dev.programFuse
  have hlk : d.next.lockedFuses = d.lockedFuses := rfl
  rw [hlk]
  by_cases hl : d.lockedFuses.contains i = true
  · simp only [if_pos hl]; exact hn
  · simp only [if_neg hl]
    rw [hn]

theorem programFuse_phase (d : Dev) (i v : Nat) : (d.programFuse i v).phase = d.phase := by
  unfold Dev.programFuse; split <;> rfl
theorem programFuse_faults (d : Dev) (i v : Nat) : (d.programFuse i v).faults = d.faults := by
  unfold Dev.programFuse; split <;> rfl
theorem programFuse_ncmd (d : Dev) (i v : Nat) : (d.programFuse i v).ncmd = d.ncmd := by
  unfold Dev.programFuse; split <;> rfl

/-- `efuse_read_once` from any in-step state -/
theorem efuseReadOnce_ok {h1 h0 : Host} {st d} (hI : h1.Is h0 st d [] []) (hop : h0.opened = true)
    (i : Nat) (hi : i < 4294967296) (hf : d.faults = []) (hfl : ∀ q ∈ d.fuses, q.2 < 4294967296) :
    ∃ h2, efuseReadOnce i h1 = (.ok (some ((d.fuses.lookup i).getD 0)), h2) ∧ h2.Is h0 0 d.next [] [] := by
  have hwf : (⟨Spec.cFlashReadOnce, 0, [i, 4]⟩ : CmdPkt).WF :=
    wf_mk _ _ _ (by decide) (by decide) (by simp) (by intro v hv; simp at hv; rcases hv with rfl | rfl <;> omega)
  have hv := fuse_lt d.fuses hfl i
  obtain ⟨h2, e2, hI2⟩ := processCmd_single hI hop _ hwf _ _ (exec_flashReadOnce4 d hf i) rfl _
    (readOnceResp_parse 0 [(d.fuses.lookup i).getD 0] (by omega) (by intro x hx; simp at hx; subst hx; exact hv)
      (by simp) (by simp))
    (readOnceResp_ne_nil _ _ _) (by rw [readOnceResp_length]; simp)
  rw [cmdResult_ok _ _ rfl] at e2
  refine ⟨h2, ?_, hI2⟩
  unfold efuseReadOnce
  rw [bind_ok e2]
  rfl

theorem refines_efuseReadOnce (h : Host) (d d' : Dev) (i : Nat) (res : Except HErr Val) (st : Nat)
    (hs : Synced h d) (hd : d.OK) (heda : h.eda = false)
    (hargs : (Op.efuseReadOnce i).argsOK)
    (hspec : specOp h.cfg.cmdExc h.cfg.usb d (.efuseReadOnce i) = some (d', res, st)) :
    Refines h (.efuseReadOnce i) d' res st := by
  have hi : i < 4294967296 := hargs
  simp only [specOp, Option.some.injEq, Prod.mk.injEq] at hspec
  obtain ⟨rfl, rfl, rfl⟩ := hspec
  obtain ⟨h2, e2, hI2⟩ := efuseReadOnce_ok hs.is hs.opened i hi hd.nofault hd.fuses_lt
  rw [next_eq d hs.idle] at hI2
  refine Refines.mk' ?_ hI2 hs.opened hs.idle heda
  show (efuseReadOnce i >>= _) h = _
  rw [bind_ok e2]
  rfl

theorem refines_flashReadOnce (h : Host) (d d' : Dev) (i c : Nat) (res : Except HErr Val) (st : Nat)
    (hs : Synced h d) (hd : d.OK) (heda : h.eda = false)
    (hargs : (Op.flashReadOnce i c).argsOK)
    (hspec : specOp h.cfg.cmdExc h.cfg.usb d (.flashReadOnce i c) = some (d', res, st)) :
    Refines h (.flashReadOnce i c) d' res st := by
  have hi : i < 4294967296 := hargs
  have hv := fuse_lt d.fuses hd.fuses_lt i
  have hw := fuse_lt d.fuses hd.fuses_lt (i + 1)
  simp only [specOp] at hspec
  split at hspec <;> rename_i hc4
  · subst hc4
    simp only [Option.some.injEq, Prod.mk.injEq] at hspec
    obtain ⟨rfl, rfl, rfl⟩ := hspec
    have hwf : (⟨Spec.cFlashReadOnce, 0, [i, 4]⟩ : CmdPkt).WF :=
      wf_mk _ _ _ (by decide) (by decide) (by simp) (by intro v hv; simp at hv; rcases hv with rfl | rfl <;> omega)
    obtain ⟨h2, e2, hI2⟩ := processCmd_single hs.is hs.opened _ hwf _ _ (exec_flashReadOnce4 d hd.nofault i) rfl _
      (readOnceResp_parse 0 [(d.fuses.lookup i).getD 0] (by omega) (by intro x hx; simp at hx; subst hx; exact hv)
        (by simp) (by simp))
      (readOnceResp_ne_nil _ _ _) (by rw [readOnceResp_length]; simp)
    rw [cmdResult_ok _ _ rfl] at e2
    rw [next_eq d hs.idle] at hI2
    refine Refines.mk' ?_ hI2 hs.opened hs.idle heda
    show flashReadOnce i 4 h = _
    unfold flashReadOnce
    rw [if_neg (by simp), bind_ok e2]
    simp
  · split at hspec <;> rename_i hc8
    · subst hc8
      simp only [Option.some.injEq, Prod.mk.injEq] at hspec
      obtain ⟨rfl, rfl, rfl⟩ := hspec
      have hwf : (⟨Spec.cFlashReadOnce, 0, [i, 8]⟩ : CmdPkt).WF :=
        wf_mk _ _ _ (by decide) (by decide) (by simp) (by intro v hv; simp at hv; rcases hv with rfl | rfl <;> omega)
      obtain ⟨h2, e2, hI2⟩ := processCmd_single hs.is hs.opened _ hwf _ _ (exec_flashReadOnce8 d hd.nofault i) rfl _
        (readOnceResp_parse 0 [(d.fuses.lookup i).getD 0, (d.fuses.lookup (i + 1)).getD 0] (by omega)
          (by intro x hx; simp at hx; rcases hx with rfl | rfl <;> assumption) (by simp) (by simp))
        (readOnceResp_ne_nil _ _ _) (by rw [readOnceResp_length]; simp)
      rw [cmdResult_ok _ _ rfl] at e2
      rw [next_eq d hs.idle] at hI2
      refine Refines.mk' ?_ hI2 hs.opened hs.idle heda
      show flashReadOnce i 8 h = _
      unfold flashReadOnce
      rw [if_neg (by simp), bind_ok e2]
      simp
    · simp at hspec

theorem refines_flashProgramOnce (h : Host) (d d' : Dev) (i : Nat) (data : Bytes) (res : Except HErr Val) (st : Nat)
    (hs : Synced h d) (hd : d.OK) (heda : h.eda = false)
    (hargs : (Op.flashProgramOnce i data).argsOK)
    (hspec : specOp h.cfg.cmdExc h.cfg.usb d (.flashProgramOnce i data) = some (d', res, st)) :
    Refines h (.flashProgramOnce i data) d' res st := by
  have hi : i < 4294967296 := hargs
  simp only [specOp] at hspec
  split at hspec
  · rename_i a b c e
    simp only [Option.some.injEq, Prod.mk.injEq] at hspec
    obtain ⟨rfl, rfl, rfl⟩ := hspec
    have hv : fromLe [a, b, c, e] < 4294967296 := by have := fromLe_lt [a, b, c, e]; simpa using this
    have hwf : (⟨Spec.cFlashProgramOnce, 0, [i, 4, fromLe [a, b, c, e]]⟩ : CmdPkt).WF :=
      wf_mk _ _ _ (by decide) (by decide) (by simp)
        (by intro v hv'; simp only [List.mem_cons, List.not_mem_nil, or_false] at hv'; rcases hv' with rfl | rfl | rfl <;> omega)
    obtain ⟨h2, e2, hI2⟩ := simpleCmd_single hs.is hs.opened _ _ hwf _ 0 (by omega)
      (exec_flashProgramOnce4 d hd.nofault i _) (by rw [programFuse_phase]; rfl)
    rw [programFuse_next d _ _ hs.idle] at hI2
    refine Refines.mk' ?_ hI2 hs.opened (by show (d.programFuse _ _).phase = _; rw [programFuse_phase]; exact hs.idle) heda
    show flashProgramOnce i [a, b, c, e] h = _
    unfold flashProgramOnce
    rw [if_neg (by simp)]
    exact e2
  · simp at hspec

theorem refines_efuseProgramOnce (h : Host) (d d' : Dev) (i v : Nat) (verify : Bool) (res : Except HErr Val) (st : Nat)
    (hs : Synced h d) (hd : d.OK) (heda : h.eda = false)
    (hargs : (Op.efuseProgramOnce i v verify).argsOK)
    (hspec : specOp h.cfg.cmdExc h.cfg.usb d (.efuseProgramOnce i v verify) = some (d', res, st)) :
    Refines h (.efuseProgramOnce i v verify) d' res st := by
  obtain ⟨hi, hv⟩ := hargs
  have hwf : (⟨Spec.cFlashProgramOnce, 0, [i, 4, v]⟩ : CmdPkt).WF :=
    wf_mk _ _ _ (by decide) (by decide) (by simp)
      (by intro x hx; simp only [List.mem_cons, List.not_mem_nil, or_false] at hx; rcases hx with rfl | rfl | rfl <;> omega)
  have hph1 : (d.next.programFuse i v).phase = .idle := by rw [programFuse_phase]; rfl
  have hphd : (d.programFuse i v).phase = .idle := by rw [programFuse_phase]; exact hs.idle
  obtain ⟨h2, e2, hI2⟩ := processCmd_single hs.is hs.opened _ hwf _ _ (exec_flashProgramOnce4 d hd.nofault i v) hph1 _
    (genericResp_parse 0 Spec.cFlashProgramOnce (by omega) (by decide)) (genericResp_ne_nil _ _)
    (by rw [genericResp_length]; omega)
  rw [cmdResult_ok _ _ rfl] at e2
  simp only [specOp] at hspec
  cases verify with
  | false =>
    simp only [Bool.false_eq_true, if_false, Option.some.injEq, Prod.mk.injEq] at hspec
    obtain ⟨rfl, rfl, rfl⟩ := hspec
    rw [programFuse_next d _ _ hs.idle] at hI2
    refine Refines.mk' ?_ hI2 hs.opened hphd heda
    show efuseProgramOnce i v false h = _
    unfold efuseProgramOnce
    rw [bind_ok e2]
    simp
  | true =>
    have hf1 : (d.next.programFuse i v).faults = [] := by rw [programFuse_faults]; exact hd.nofault
    have hfl1 := programFuse_fuses_lt d.next i v hd.fuses_lt hv
    obtain ⟨h3, e3, hI3⟩ := efuseReadOnce_ok hI2 hs.opened (i % 16777216) (by omega) hf1 hfl1
    have hfin : (d.next.programFuse i v).next = { d.programFuse i v with ncmd := d.ncmd + 2, pktCount := 0 } := by
      rw [programFuse_next d _ _ hs.idle]
      have := hphd
      generalize d.programFuse i v = e at this ⊢
      cases e; simp_all [Dev.next]
    have hfu : (d.next.programFuse i v).fuses = (d.programFuse i v).fuses := by
      rw [programFuse_next d _ _ hs.idle]
    rw [hfin] at hI3
    rw [hfu] at e3
    simp only [if_true] at hspec
    split at hspec <;> rename_i hc <;> simp only [Option.some.injEq, Prod.mk.injEq] at hspec <;>
      obtain ⟨rfl, rfl, rfl⟩ := hspec
    · refine Refines.mk' ?_ hI3 hs.opened hphd heda
      show efuseProgramOnce i v true h = _
      unfold efuseProgramOnce
      rw [bind_ok e2]
      simp only [ne_eq, not_true_eq_false, if_false, if_true]
      rw [bind_ok e3]
      simp only [hc, if_true]
      rfl
    · refine Refines.mk' ?_ (hI3.setStatus Spec.stOtpVerifyFail) hs.opened hphd heda
      show efuseProgramOnce i v true h = _
      unfold efuseProgramOnce
      rw [bind_ok e2]
      simp only [ne_eq, not_true_eq_false, if_false, if_true]
      rw [bind_ok e3]
      simp only [hc, if_false]
      rw [bind_ok (setStatus_run _ _)]
      rfl

/-! ### `load_image`: data packets without a command, collected by a device in image mode -/

theorem strayData_ok (d : Dev) (c : Bytes) (him : d.imageMode = true) (hph : d.phase = .idle) (hc0 : c ≠ [])
    (hc : c.length ≤ d.maxPacket) : d.strayData c = some { d with image := d.image ++ c } := by
  unfold Dev.strayData
  rw [if_pos ⟨him, hph, by simpa using hc0, hc⟩]

theorem sendChunks_stray {h0 : Host} (ab : Bool) :
    ∀ (cs : List Bytes) (d : Dev) (h1 : Host) (sent st : Nat),
      (∀ c ∈ cs, c ≠ [] ∧ c.length ≤ d.maxPacket ∧ c.length < 65536) → d.imageMode = true → d.phase = .idle →
      h1.Is h0 st d [] [] →
      ∃ h2, sendChunks ab cs sent h1 = (.ok (sent + (cs.map List.length).sum, none), h2) ∧
        h2.Is h0 st { d with image := d.image ++ cs.flatten } [] [] := by
  intro cs
  induction cs with
  | nil =>
    intro d h1 sent st _ _ _ hI
    refine ⟨h1, by simp [sendChunks], ?_⟩
    simpa using hI
  | cons c cs ih =>
    intro d h1 sent st hcs him hph hI
    obtain ⟨hc0, hc, hc2⟩ := hcs c (by simp)
    have hstray := strayData_ok d c him hph hc0 hc
    have hstep : ∃ h2, writeData ab c h1 = (.ok (), h2) ∧ h2.Is h0 st { d with image := d.image ++ c } [] [] := by
      cases htr : h0.cfg.tr with
      | serial =>
        exact writeData_serial hI htr ab c hc2 _ [] (by simpa using stepSerial_data_stray d c hc2 hph _ hstray)
      | hid =>
        obtain ⟨h2, e2, hI2⟩ := writeData_hid hI htr ab c hc2
        rw [stepHid_data_stray d c hc2 hph _ hstray] at hI2
        exact ⟨h2, e2, hI2⟩
    obtain ⟨h2, e2, hI2⟩ := hstep
    obtain ⟨h3, e3, hI3⟩ := ih { d with image := d.image ++ c } h2 (sent + c.length) st
      (fun x hx => hcs x (by simp [hx])) him hph hI2
    refine ⟨h3, ?_, ?_⟩
    · rw [sendChunks_cons_ok e2, e3]
      simp [Nat.add_assoc]
    · simpa [List.append_assoc] using hI3

theorem refines_loadImage (h : Host) (d d' : Dev) (data : Bytes) (res : Except HErr Val) (st : Nat)
    (hs : Synced h d) (hd : d.OK) (hmps : h.mps = some d.maxPacket) (heda : h.eda = false)
    (hspec : specOp h.cfg.cmdExc h.cfg.usb d (.loadImage data) = some (d', res, st)) :
    Refines h (.loadImage data) d' res st := by
  simp only [specOp] at hspec
  split at hspec <;> rename_i him
  · simp only [Option.some.injEq, Prod.mk.injEq] at hspec
    obtain ⟨rfl, rfl, rfl⟩ := hspec
    have esplit := splitData_ok data h d.maxPacket hmps hd.mp_pos
    have hcs : ∀ c ∈ split d.maxPacket data, c ≠ [] ∧ c.length ≤ d.maxPacket ∧ c.length < 65536 := by
      intro c hc
      have h1 := split_chunks' d.maxPacket hd.mp_pos data c hc
      have h2 := hd.mp_lt
      exact ⟨h1.2, h1.1, by omega⟩
    have hI1 : ({ h with status := Spec.stSuccess } : Host).Is h 0 d [] [] := hs.is.setStatus 0
    obtain ⟨h2, e2, hI2⟩ := sendChunks_stray (h0 := h) h.eda (split d.maxPacket data) d _ 0 0 hcs him hs.idle hI1
    rw [split_flatten' _ hd.mp_pos] at hI2
    refine Refines.mk' ?_ hI2 hs.opened hs.idle heda
    show loadImage data h = _
    unfold loadImage
    rw [bind_ok esplit, bind_ok (setStatus_run _ _)]
    have e3 : sendDataNoResp (split d.maxPacket data) { h with status := Spec.stSuccess } = (.ok true, h2) := by
      unfold sendDataNoResp
      rw [bind_ok (requireOpen_ok { h with status := Spec.stSuccess } hs.opened), bind_ok (get_run _)]
      simp only []
      rw [bind_ok e2]
      simp
    rw [bind_ok e3]
    rfl
  · simp at hspec

/-! ### `read_memory` -/

/-- the device after `k` more commands -/
def Dev.nextN (d : Dev) : Nat → Dev
  | 0 => d
  | k + 1 => d.next.nextN k

theorem nextN_eq : ∀ (k : Nat) (d : Dev), 0 < k → d.phase = .idle →
    d.nextN k = { d with ncmd := d.ncmd + k, pktCount := 0 } := by
  intro k
  induction k with
  | zero => intro d h; omega
  | succ k ih =>
    intro d _ hph
    by_cases hk : k = 0
    · subst hk
      exact next_eq d hph
    · rw [Dev.nextN, ih d.next (by omega) rfl, next_eq d hph]
      simp only [Nat.add_assoc, Nat.add_comm 1 k]

/-- the chunk loop of the `UsbDevice` path of `read_memory` -/
theorem readChunks_ok {h0 : Host} (hop : h0.opened = true) (a m mp rem P n : Nat) (mem : Bytes)
    (hmp : 0 < mp) (hmp2 : mp < 65536) (hm : m < 4294967296) (hrange : a + n ≤ mem.length)
    (hmemlt : mem.length < 4294967296)
    (hL1 : ∀ j, j < P → j * mp < n) (hL2 : n ≤ P * mp)
    (hlast : (P - 1) * mp + (if rem ≠ 0 then rem else mp) = n) :
    ∀ (k : Nat) (e : Dev) (h1 : Host) (acc : Bytes) (st : Nat), k ≤ P → e.mem = mem → e.maxPacket = mp →
      e.faults = [] → e.phase = .idle → h1.Is h0 st e [] [] → acc = (mem.drop a).take (min ((P - k) * mp) n) →
      ∃ h2, readChunks a m mp rem P k acc h1 = (.ok ((mem.drop a).take n), h2) ∧
        h2.Is h0 (if k = 0 then st else 0) (e.nextN k) [] [] := by
  intro k
  induction k with
  | zero =>
    intro e h1 acc st _ _ _ _ _ hI hacc
    refine ⟨h1, ?_, by simpa [Dev.nextN] using hI⟩
    rw [hacc, Nat.sub_zero, Nat.min_eq_right hL2]
    rfl
  | succ k ih =>
    intro e h1 acc st hk hmem hemp hef heph hI hacc
    have hidx : P - (k + 1) < P := by omega
    have hoff := hL1 _ hidx
    obtain ⟨len, hlen⟩ : ∃ len, len = (if P - (k + 1) = P - 1 ∧ rem ≠ 0 then rem else mp) := ⟨_, rfl⟩
    have hsucc : (P - k) * mp = (P - (k + 1)) * mp + mp := by
      rw [show P - k = (P - (k + 1)).succ by omega, Nat.succ_mul]
    -- the three arithmetic facts
    have hF : (P - (k + 1)) * mp + len ≤ n ∧ min ((P - k) * mp) n = (P - (k + 1)) * mp + len := by
      by_cases hlastidx : P - (k + 1) = P - 1
      · have hl2 : len = (if rem ≠ 0 then rem else mp) := by
          rw [hlen]; by_cases hr : rem ≠ 0 <;> simp [hlastidx, hr]
        have hPk : (P - k) * mp = P * mp := by rw [show P - k = P by omega]
        rw [hPk, hlastidx, hl2, hlast]
        exact ⟨Nat.le_refl _, Nat.min_eq_right hL2⟩
      · have hl2 : len = mp := by rw [hlen]; simp [hlastidx]
        have hnext : P - k < P := by omega
        have := hL1 _ hnext
        rw [hl2]
        omega
    obtain ⟨hF1, hF3⟩ := hF
    have hacc' : acc = (mem.drop a).take ((P - (k + 1)) * mp) := by
      rw [hacc]; congr 1; omega
    have hwf : (⟨Spec.cReadMemory, 0, [a + (P - (k + 1)) * mp, len, m]⟩ : CmdPkt).WF :=
      wf_mk _ _ _ (by decide) (by decide) (by simp)
        (by intro v hv; simp only [List.mem_cons, List.not_mem_nil, or_false] at hv; rcases hv with rfl | rfl | rfl <;> omega)
    have hex := exec_readMemory e hef (a + (P - (k + 1)) * mp) len m
    rw [if_pos (by rw [hmem]; omega), hmem] at hex
    have hdata : ((mem.drop (a + (P - (k + 1)) * mp)).take len).length = len := by
      rw [List.length_take, List.length_drop]; omega
    obtain ⟨h2, e2, h3, e3, hI3⟩ := cmd_readData hI hop _ hwf e.next _ _ hex rfl (by show 0 < e.maxPacket; omega)
      (by show e.maxPacket < 65536; omega) _ (readMemResp_parse 0 len (by omega) (by omega)) (readMemResp_ne_nil _ _)
      (by rw [readMemResp_length]; omega) rfl
    rw [hdata] at e3
    obtain ⟨h4, e4, hI4⟩ := ih e.next h3 (acc ++ (mem.drop (a + (P - (k + 1)) * mp)).take len) 0 (by omega) hmem hemp hef rfl hI3
      (by rw [hF3, List.take_add, List.drop_drop, ← hacc'])
    refine ⟨h4, ?_, ?_⟩
    · rw [readChunks, ← hlen, bind_ok e2]
      simp only [if_true]
      rw [bind_ok e3, bind_ok (get_run _), if_neg (by rw [hI3.status]; simp)]
      exact e4
    · rw [if_neg (by omega)]
      by_cases hk0 : k = 0
      · subst hk0; rw [if_pos rfl] at hI4; exact hI4
      · rw [if_neg hk0] at hI4; exact hI4

theorem chunk_arith (n mp : Nat) (hmp : 0 < mp) (hn : 0 < n) (P : Nat)
    (hP : P = n / mp + (if n % mp ≠ 0 then 1 else 0)) :
    0 < P ∧ (∀ j, j < P → j * mp < n) ∧ n ≤ P * mp ∧ (P - 1) * mp + (if n % mp ≠ 0 then n % mp else mp) = n := by
  have hdm := Nat.div_add_mod' n mp
  have hrlt : n % mp < mp := Nat.mod_lt _ hmp
  generalize n / mp = q at hP hdm
  generalize n % mp = r at hP hdm hrlt ⊢
  have hlast : (P - 1) * mp + (if r ≠ 0 then r else mp) = n := by
    by_cases hr : r ≠ 0
    · rw [if_pos hr] at hP ⊢
      rw [show P - 1 = q by omega]; exact hdm
    · rw [if_neg hr] at hP ⊢
      have hq : 0 < q := by
        rcases Nat.eq_zero_or_pos q with hz | hz
        · subst hz; simp at hdm; omega
        · exact hz
      have hs1 : q = (P - 1).succ := by omega
      rw [hs1, Nat.succ_mul] at hdm
      omega
  have hPpos : 0 < P := by
    by_cases hr : r ≠ 0
    · rw [if_pos hr] at hP; omega
    · rw [if_neg hr] at hP
      rcases Nat.eq_zero_or_pos q with hz | hz
      · subst hz; simp at hdm; omega
      · omega
  refine ⟨hPpos, ?_, ?_, hlast⟩
  · intro j hj
    have h1 : j * mp ≤ (P - 1) * mp := Nat.mul_le_mul_right _ (by omega)
    by_cases hr : r ≠ 0
    · rw [if_pos hr] at hlast; omega
    · rw [if_neg hr] at hlast; omega
  · have h1 : P * mp = (P - 1) * mp + mp := by
      rw [show P = (P - 1).succ by omega, Nat.succ_mul]; simp
    by_cases hr : r ≠ 0
    · rw [if_pos hr] at hlast; omega
    · rw [if_neg hr] at hlast; omega

theorem getMaxPacketSize_ok (h : Host) (mp : Nat) (hmps : h.mps = some mp) : getMaxPacketSize h = (.ok mp, h) := by
  unfold getMaxPacketSize
  rw [bind_ok (get_run _)]
  simp only [hmps]
  rfl

theorem refines_readMemory (h : Host) (d d' : Dev) (a n m : Nat) (fast : Bool) (res : Except HErr Val) (st : Nat)
    (hs : Synced h d) (hd : d.OK) (hmps : h.mps = some d.maxPacket) (heda : h.eda = false)
    (hargs : (Op.readMemory a n m fast).argsOK)
    (hspec : specOp h.cfg.cmdExc h.cfg.usb d (.readMemory a n m fast) = some (d', res, st)) :
    Refines h (.readMemory a n m fast) d' res st := by
  obtain ⟨ha, hn, hm⟩ := hargs
  have hm' := clampMemId_lt hm
  simp only [specOp] at hspec
  split at hspec <;> rename_i husb
  · -- the `UsbDevice` path: one command per max-packet chunk
    split at hspec <;> rename_i hc
    · simp only [Option.some.injEq, Prod.mk.injEq] at hspec
      obtain ⟨rfl, rfl, rfl⟩ := hspec
      obtain ⟨hn0, hrange⟩ := hc
      have hmp := hd.mp_pos
      obtain ⟨P, hP⟩ : ∃ P, P = n / d.maxPacket + (if n % d.maxPacket ≠ 0 then 1 else 0) := ⟨_, rfl⟩
      obtain ⟨hPpos, hL1, hL2, hlast⟩ := chunk_arith n d.maxPacket hmp hn0 P hP
      obtain ⟨h2, e2, hI2⟩ := readChunks_ok hs.opened a (clampMemId m) d.maxPacket (n % d.maxPacket) P n d.mem hmp hd.mp_lt
        hm' hrange hd.mem_lt hL1 hL2 hlast P d h [] h.status (Nat.le_refl _) rfl rfl hd.nofault hs.idle hs.is
        (by simp)
      rw [if_neg (by omega), nextN_eq P d hPpos hs.idle, hP] at hI2
      refine Refines.mk' ?_ hI2 hs.opened hs.idle heda
      show readMemory a n m fast h = _
      unfold readMemory
      rw [bind_ok (get_run _), if_pos (by simpa using husb), bind_ok (getMaxPacketSize_ok h _ hmps), if_neg (by omega)]
      rw [← hP, bind_ok e2]
      rfl
    · simp at hspec
  · have hnousb : ¬ (h.cfg.usb = true ∧ ¬ fast = true) := by simpa using husb
    have hrun : runOp (.readMemory a n m fast) h =
        dataInCmd Spec.cReadMemory [a, n, clampMemId m] .readMemory h := by
      show readMemory a n m fast h = _
      unfold readMemory
      rw [bind_ok (get_run _), if_neg hnousb]
      rfl
    have hwf : (⟨Spec.cReadMemory, 0, [a, n, clampMemId m]⟩ : CmdPkt).WF :=
      wf_mk _ _ _ (by decide) (by decide) (by simp) (by intro v hv; simp at hv; rcases hv with rfl | rfl | rfl <;> assumption)
    have hex := exec_readMemory d hd.nofault a n (clampMemId m)
    split at hspec <;> rename_i hc <;> simp only [Option.some.injEq, Prod.mk.injEq] at hspec <;>
      obtain ⟨rfl, rfl, rfl⟩ := hspec
    · rw [if_pos hc] at hex
      have hdata : ((d.mem.drop a).take n).length = n := by
        rw [List.length_take, List.length_drop]; omega
      obtain ⟨h3, e3, hI3⟩ := dataInCmd_ok hs hd _ _ .readMemory hwf d.next _ _ hex rfl rfl _
        (readMemResp_parse 0 n (by omega) hn) (readMemResp_ne_nil _ _)
        (by rw [readMemResp_length]; omega) rfl rfl hdata.symm
      rw [next_eq d hs.idle] at hI3
      exact Refines.mk' (hrun.trans e3) hI3 hs.opened hs.idle heda
    · rw [if_neg hc] at hex
      obtain ⟨h3, e3, hI3⟩ := dataInCmd_refused hs _ _ .readMemory hwf d.next Spec.stMemoryRangeInvalid
        (by decide) (by decide) hex rfl
      rw [next_eq d hs.idle] at hI3
      exact Refines.mk' (hrun.trans e3) hI3 hs.opened hs.idle heda

/-! ### the specified device stays well-formed -/

theorem programFuse_OK (d : Dev) (i v : Nat) (hd : d.OK) (hv : v < 4294967296) :
    (d.programFuse i v).OK ∧ (d.programFuse i v).maxPacket = d.maxPacket ∧ (d.programFuse i v).phase = d.phase := by
  have hf := programFuse_fuses_lt d i v hd.fuses_lt hv
  unfold Dev.programFuse at hf ⊢
  split
  · exact ⟨hd, rfl, rfl⟩
  · rename_i hl
    rw [if_neg hl] at hf
    exact ⟨⟨hd.mp_pos, hd.mp_lt, hd.mem_lt, hd.nofault, hd.props_lt, hf, hd.noabort, hd.keystore_lt⟩, rfl, rfl⟩

/-- the specified device after an operation is again a well-formed device with the same packet size -/
theorem specOp_OK (ce usb : Bool) (d d' : Dev) (op : Op) (res : Except HErr Val) (st : Nat)
    (hd : d.OK) (hidle : d.phase = .idle) (hargs : op.argsOK) (hspec : specOp ce usb d op = some (d', res, st)) :
    d'.OK ∧ d'.maxPacket = d.maxPacket ∧ d'.phase = .idle := by
  have hd0 := hd
  obtain ⟨h1, h2, h3, h4, h5, h6, h7, h8⟩ := hd
  cases op with
  | flashProgramOnce i data =>
    simp only [specOp] at hspec
    split at hspec
    · rename_i a b c e
      simp only [Option.some.injEq, Prod.mk.injEq] at hspec
      obtain ⟨rfl, -, -⟩ := hspec
      have hv : fromLe [a, b, c, e] < 4294967296 := by have := fromLe_lt [a, b, c, e]; simpa using this
      obtain ⟨hok, hmp, hph⟩ := programFuse_OK d i _ hd0 hv
      exact ⟨⟨hok.mp_pos, hok.mp_lt, hok.mem_lt, hok.nofault, hok.props_lt, hok.fuses_lt, hok.noabort, hok.keystore_lt⟩,
        hmp, hph.trans hidle⟩
    · simp at hspec
  | efuseProgramOnce i v verify =>
    obtain ⟨hok, hmp, hph⟩ := programFuse_OK d i v hd0 hargs.2
    simp only [specOp] at hspec
    split at hspec
    · split at hspec <;> simp only [Option.some.injEq, Prod.mk.injEq] at hspec <;> obtain ⟨rfl, -, -⟩ := hspec <;>
        exact ⟨⟨hok.mp_pos, hok.mp_lt, hok.mem_lt, hok.nofault, hok.props_lt, hok.fuses_lt, hok.noabort, hok.keystore_lt⟩,
          hmp, hph.trans hidle⟩
    · simp only [Option.some.injEq, Prod.mk.injEq] at hspec
      obtain ⟨rfl, -, -⟩ := hspec
      exact ⟨⟨hok.mp_pos, hok.mp_lt, hok.mem_lt, hok.nofault, hok.props_lt, hok.fuses_lt, hok.noabort, hok.keystore_lt⟩,
        hmp, hph.trans hidle⟩
  | _ =>
    simp only [specOp, reduceCtorEq] at hspec
    try split at hspec
    all_goals (try split at hspec)
    all_goals (try split at hspec)
    all_goals (try (simp only [Option.some.injEq, Prod.mk.injEq, reduceCtorEq] at hspec))
    all_goals (obtain ⟨rfl, -, -⟩ := hspec)
    all_goals refine ⟨⟨h1, h2, ?_, h4, ?_, h6, h7, ?_⟩, rfl, hidle⟩
    all_goals (try exact h3)
    all_goals (try exact h5)
    all_goals (try exact h8)
    all_goals first
      | (intro q hq
         simp only [List.mem_cons, List.mem_filter] at hq
         rcases hq with rfl | ⟨hq, -⟩
         · exact hargs.2
         · exact h5 q hq)
      | (show (splice d.mem _ _).length < _
         rw [splice_length _ _ _ (by first | (rw [fillPattern_length]; assumption) | (rw [List.length_replicate]; assumption) | assumption)]
         exact h3)
      | (show (List.replicate _ _).length < _
         rw [List.length_replicate]; exact h3)
      | exact hargs

/-! ### phase 3: update_life_cycle / ele_message / trust provisioning (log only), fuse_program, fuse_read -/

theorem exec_logCmd (d : Dev) (hf : d.faults = []) (tag : Nat) (ps : List Nat)
    (ht : tag = Spec.cUpdateLifeCycle ∨ tag = Spec.cEleMessage ∨
      (tag = Spec.cTrustProvisioning ∧ (ps.head? = some Spec.tpOemSetMasterShare ∨ ps.head? = some Spec.tpHsmEncBlock))) :
    d.exec ⟨tag, 0, ps⟩ = .single { d.next with log := d.log ++ [(tag, ps)] } (genericResp 0 tag) := by
  rcases ht with rfl | rfl | ⟨rfl, hp⟩
  · simp [Dev.exec, faultAt_none d hf, Dev.next, Spec.cFillMemory, Spec.cGetProperty, Spec.cSetProperty,
      Spec.cFlashEraseRegion, Spec.cFlashEraseAll, Spec.cReadMemory, Spec.cWriteMemory, Spec.cReceiveSbFile,
      Spec.cExecute, Spec.cCall, Spec.cFlashEraseAllUnsecure, Spec.cConfigureMemory, Spec.cReliableUpdate,
      Spec.cReset, Spec.cFlashReadResource, Spec.cFlashReadOnce, Spec.cFlashProgramOnce, Spec.cKeyProvisioning,
      Spec.cUpdateLifeCycle, Spec.cEleMessage, Spec.cTrustProvisioning, Spec.cFuseRead, Spec.cFuseProgram]
  · simp [Dev.exec, faultAt_none d hf, Dev.next, Spec.cFillMemory, Spec.cGetProperty, Spec.cSetProperty,
      Spec.cFlashEraseRegion, Spec.cFlashEraseAll, Spec.cReadMemory, Spec.cWriteMemory, Spec.cReceiveSbFile,
      Spec.cExecute, Spec.cCall, Spec.cFlashEraseAllUnsecure, Spec.cConfigureMemory, Spec.cReliableUpdate,
      Spec.cReset, Spec.cFlashReadResource, Spec.cFlashReadOnce, Spec.cFlashProgramOnce, Spec.cKeyProvisioning,
      Spec.cUpdateLifeCycle, Spec.cEleMessage, Spec.cTrustProvisioning, Spec.cFuseRead, Spec.cFuseProgram]
  · cases ps with
    | nil => simp at hp
    | cons op rest =>
      simp only [List.head?_cons, Option.some.injEq] at hp
      simp [Dev.exec, faultAt_none d hf, Dev.next, Spec.cFillMemory, Spec.cGetProperty, Spec.cSetProperty,
      Spec.cFlashEraseRegion, Spec.cFlashEraseAll, Spec.cReadMemory, Spec.cWriteMemory, Spec.cReceiveSbFile,
      Spec.cExecute, Spec.cCall, Spec.cFlashEraseAllUnsecure, Spec.cConfigureMemory, Spec.cReliableUpdate,
      Spec.cReset, Spec.cFlashReadResource, Spec.cFlashReadOnce, Spec.cFlashProgramOnce, Spec.cKeyProvisioning,
      Spec.cUpdateLifeCycle, Spec.cEleMessage, Spec.cTrustProvisioning, Spec.cFuseRead, Spec.cFuseProgram, hp]

theorem exec_fuseRead (d : Dev) (hf : d.faults = []) (a n m : Nat) :
    d.exec ⟨Spec.cFuseRead, 0, [a, n, m]⟩ =
      if a + n ≤ d.resource.length then .toHost d.next (readMemResp 0 n) ((d.resource.drop a).take n) 0
      else .single d.next (genericResp Spec.stMemoryRangeInvalid Spec.cFuseRead) := by
  simp [Dev.exec, faultAt_none d hf, Dev.next, Spec.cFillMemory, Spec.cGetProperty, Spec.cSetProperty,
      Spec.cFlashEraseRegion, Spec.cFlashEraseAll, Spec.cReadMemory, Spec.cWriteMemory, Spec.cReceiveSbFile,
      Spec.cExecute, Spec.cCall, Spec.cFlashEraseAllUnsecure, Spec.cConfigureMemory, Spec.cReliableUpdate,
      Spec.cReset, Spec.cFlashReadResource, Spec.cFlashReadOnce, Spec.cFlashProgramOnce, Spec.cKeyProvisioning,
      Spec.cUpdateLifeCycle, Spec.cEleMessage, Spec.cTrustProvisioning, Spec.cFuseRead, Spec.cFuseProgram]

theorem exec_fuseProgram (d : Dev) (hf : d.faults = []) (a n m : Nat) :
    d.exec ⟨Spec.cFuseProgram, Spec.flagHasDataPhase, [a, n, m]⟩ =
      .fromHost { d.next with sb := [], log := d.log ++ [(Spec.cFuseProgram, [a, n, m])] } (genericResp 0 Spec.cFuseProgram) 0 n 0 := by
  simp [Dev.exec, faultAt_none d hf, Dev.next, Spec.cFillMemory, Spec.cGetProperty, Spec.cSetProperty,
      Spec.cFlashEraseRegion, Spec.cFlashEraseAll, Spec.cReadMemory, Spec.cWriteMemory, Spec.cReceiveSbFile,
      Spec.cExecute, Spec.cCall, Spec.cFlashEraseAllUnsecure, Spec.cConfigureMemory, Spec.cReliableUpdate,
      Spec.cReset, Spec.cFlashReadResource, Spec.cFlashReadOnce, Spec.cFlashProgramOnce, Spec.cKeyProvisioning,
      Spec.cUpdateLifeCycle, Spec.cEleMessage, Spec.cTrustProvisioning, Spec.cFuseRead, Spec.cFuseProgram]

theorem refines_logCmd (h : Host) (d d' : Dev) (t : Nat) (ps : List Nat) (res : Except HErr Val) (st : Nat)
    (hs : Synced h d) (hd : d.OK) (heda : h.eda = false) (hargs : (Op.logCmd t ps).argsOK)
    (hspec : specOp h.cfg.cmdExc h.cfg.usb d (.logCmd t ps) = some (d', res, st)) :
    Refines h (.logCmd t ps) d' res st := by
  obtain ⟨ht, hn, hv⟩ := hargs
  simp only [specOp] at hspec
  split at hspec <;> rename_i hc
  · simp only [Option.some.injEq, Prod.mk.injEq] at hspec
    obtain ⟨rfl, rfl, rfl⟩ := hspec
    exact refines_logged h d _ t ps hs heda (wf_mk _ _ _ ht (by decide) (by omega) hv)
      (exec_logCmd d hd.nofault t ps hc) rfl
  · simp at hspec

theorem afterData_fuseProgram (d : Dev) (h : d.phase = .idle) (ps : List Nat) (data : Bytes) (k : Nat) :
    Dev.afterData { d.next with sb := [], log := d.log ++ [(Spec.cFuseProgram, ps)] } Spec.cFuseProgram 0 data k =
      { d with ncmd := d.ncmd + 1, pktCount := k, sb := data, log := d.log ++ [(Spec.cFuseProgram, ps)] } := by
  cases d
  simp only at h
  subst h
  simp [Dev.afterData, Dev.store, Dev.next, Dev.finishData, Spec.cFuseProgram, Spec.cWriteMemory, Spec.cKeyProvisioning]

theorem refines_fuseProgram (h : Host) (d d' : Dev) (a : Nat) (data : Bytes) (m : Nat) (res : Except HErr Val) (st : Nat)
    (hs : Synced h d) (hd : d.OK) (hmps : h.mps = some d.maxPacket) (heda : h.eda = false)
    (hargs : (Op.fuseProgram a data m).argsOK)
    (hspec : specOp h.cfg.cmdExc h.cfg.usb d (.fuseProgram a data m) = some (d', res, st)) :
    Refines h (.fuseProgram a data m) d' res st := by
  obtain ⟨ha, hn, hm⟩ := hargs
  have hm' := clampMemId_lt hm
  have hwf : (⟨Spec.cFuseProgram, Spec.flagHasDataPhase, [a, data.length, clampMemId m]⟩ : CmdPkt).WF :=
    wf_mk _ _ _ (by decide) (by decide) (by simp) (by intro v hv; simp at hv; rcases hv with rfl | rfl | rfl <;> assumption)
  have hex := exec_fuseProgram d hd.nofault a data.length (clampMemId m)
  simp only [specOp, Option.some.injEq, Prod.mk.injEq] at hspec
  obtain ⟨rfl, rfl, rfl⟩ := hspec
  obtain ⟨h3, e3, hI3⟩ := dataOutCmd_ok hs hd hmps _ _ data hwf _ 0 hex rfl rfl hd.noabort (fun e => absurd e (by decide))
  rw [afterData_fuseProgram d hs.idle] at hI3
  exact Refines.mk' e3 hI3 hs.opened hs.idle heda

theorem refines_fuseRead (h : Host) (d d' : Dev) (a n m : Nat) (res : Except HErr Val) (st : Nat)
    (hs : Synced h d) (hd : d.OK) (heda : h.eda = false)
    (hargs : (Op.fuseRead a n m).argsOK)
    (hspec : specOp h.cfg.cmdExc h.cfg.usb d (.fuseRead a n m) = some (d', res, st)) :
    Refines h (.fuseRead a n m) d' res st := by
  obtain ⟨ha, hn, hm⟩ := hargs
  have hm' := clampMemId_lt hm
  have hwf : (⟨Spec.cFuseRead, 0, [a, n, clampMemId m]⟩ : CmdPkt).WF :=
    wf_mk _ _ _ (by decide) (by decide) (by simp) (by intro v hv; simp at hv; rcases hv with rfl | rfl | rfl <;> assumption)
  have hex := exec_fuseRead d hd.nofault a n (clampMemId m)
  simp only [specOp] at hspec
  split at hspec <;> rename_i hc <;> simp only [Option.some.injEq, Prod.mk.injEq] at hspec <;>
    obtain ⟨rfl, rfl, rfl⟩ := hspec
  · rw [if_pos hc] at hex
    have hdata : ((d.resource.drop a).take n).length = n := by
      rw [List.length_take, List.length_drop]; omega
    obtain ⟨h3, e3, hI3⟩ := dataInCmd_ok hs hd _ _ .readMemory hwf d.next _ _ hex rfl rfl _
      (readMemResp_parse 0 n (by omega) hn) (readMemResp_ne_nil _ _)
      (by rw [readMemResp_length]; omega) rfl rfl hdata.symm
    rw [next_eq d hs.idle] at hI3
    exact Refines.mk' e3 hI3 hs.opened hs.idle heda
  · rw [if_neg hc] at hex
    obtain ⟨h3, e3, hI3⟩ := dataInCmd_refused hs _ _ .readMemory hwf d.next Spec.stMemoryRangeInvalid
      (by decide) (by decide) hex rfl
    rw [next_eq d hs.idle] at hI3
    exact Refines.mk' e3 hI3 hs.opened hs.idle heda

/-! ### the refinement theorems -/

/-- One operation against the live reference device, either transport. -/
theorem op_refines (h : Host) (d d' : Dev) (op : Op) (res : Except HErr Val) (st : Nat)
    (hs : Synced h d) (hd : d.OK) (hmps : h.mps = some d.maxPacket) (heda : h.eda = false)
    (hargs : op.argsOK) (hspec : specOp h.cfg.cmdExc h.cfg.usb d op = some (d', res, st)) :
    Refines h op d' res st := by
  have hf := hd.nofault
  cases op with
  | getProperty t i => exact refines_getProperty h d d' t i res st hs hd heda hargs hspec
  | setProperty t v => exact refines_setProperty h d d' t v res st hs hd heda hargs hspec
  | fillMemory a n p => exact refines_fillMemory h d d' a n p res st hs hd heda hargs hspec
  | eraseRegion a n m => exact refines_eraseRegion h d d' a n m res st hs hd heda hargs hspec
  | eraseAll m => exact refines_eraseAll h d d' m res st hs hd heda hargs hspec
  | readMemory a n m f => exact refines_readMemory h d d' a n m f res st hs hd hmps heda hargs hspec
  | writeMemory a data m => exact refines_writeMemory h d d' a data m res st hs hd hmps heda hargs hspec
  | receiveSbFile data c => exact refines_receiveSbFile h d d' data c res st hs hd hmps heda hargs hspec
  | loadImage data => exact refines_loadImage h d d' data res st hs hd hmps heda hspec
  | flashReadOnce i c => exact refines_flashReadOnce h d d' i c res st hs hd heda hargs hspec
  | flashProgramOnce i data => exact refines_flashProgramOnce h d d' i data res st hs hd heda hargs hspec
  | efuseReadOnce i => exact refines_efuseReadOnce h d d' i res st hs hd heda hargs hspec
  | efuseProgramOnce i v c => exact refines_efuseProgramOnce h d d' i v c res st hs hd heda hargs hspec
  | flashReadResource a n o => exact refines_flashReadResource h d d' a n o res st hs hd heda hargs hspec
  | kpSetUserKey t data => exact refines_kpSetUserKey h d d' t data res st hs hd hmps heda hargs hspec
  | logCmd t ps => exact refines_logCmd h d d' t ps res st hs hd heda hargs hspec
  | fuseProgram a data m => exact refines_fuseProgram h d d' a data m res st hs hd hmps heda hargs hspec
  | fuseRead a n m => exact refines_fuseRead h d d' a n m res st hs hd heda hargs hspec
  | kpWriteKeyStore data => exact refines_kpWriteKeyStore h d d' data res st hs hd hmps heda hargs hspec
  | kpReadKeyStore => exact refines_kpReadKeyStore h d d' res st hs hd heda hspec
  | execute a g sp =>
    obtain ⟨ha, hg, hsp⟩ := hargs
    simp only [specOp, Option.some.injEq, Prod.mk.injEq] at hspec
    obtain ⟨rfl, rfl, rfl⟩ := hspec
    exact refines_logged h d _ Spec.cExecute [a, g, sp] hs heda
      (wf_mk _ _ _ (by decide) (by decide) (by simp) (by intro v hv; simp at hv; rcases hv with rfl | rfl | rfl <;> assumption))
      (exec_logOnly d hf _ _ (by decide)) rfl
  | call a g =>
    obtain ⟨ha, hg⟩ := hargs
    simp only [specOp, Option.some.injEq, Prod.mk.injEq] at hspec
    obtain ⟨rfl, rfl, rfl⟩ := hspec
    exact refines_logged h d _ Spec.cCall [a, g] hs heda
      (wf_mk _ _ _ (by decide) (by decide) (by simp) (by intro v hv; simp at hv; rcases hv with rfl | rfl <;> assumption))
      (exec_logOnly d hf _ _ (by decide)) rfl
  | eraseAllUnsecure =>
    simp only [specOp, Option.some.injEq, Prod.mk.injEq] at hspec
    obtain ⟨rfl, rfl, rfl⟩ := hspec
    exact refines_logged h d _ Spec.cFlashEraseAllUnsecure [] hs heda
      (wf_mk _ _ _ (by decide) (by decide) (by simp) (by intro v hv; simp at hv))
      (exec_logOnly d hf _ _ (by decide)) rfl
  | configureMemory a m =>
    obtain ⟨ha, hm⟩ := hargs
    simp only [specOp, Option.some.injEq, Prod.mk.injEq] at hspec
    obtain ⟨rfl, rfl, rfl⟩ := hspec
    exact refines_logged h d _ Spec.cConfigureMemory [m, a] hs heda
      (wf_mk _ _ _ (by decide) (by decide) (by simp) (by intro v hv; simp at hv; rcases hv with rfl | rfl <;> assumption))
      (exec_logOnly d hf _ _ (by decide)) rfl
  | reliableUpdate a =>
    have ha : a < 4294967296 := hargs
    simp only [specOp, Option.some.injEq, Prod.mk.injEq] at hspec
    obtain ⟨rfl, rfl, rfl⟩ := hspec
    exact refines_logged h d _ Spec.cReliableUpdate [a] hs heda
      (wf_mk _ _ _ (by decide) (by decide) (by simp) (by intro v hv; simp at hv; rcases hv with rfl; assumption))
      (exec_logOnly d hf _ _ (by decide)) rfl
  | kpEnroll =>
    simp only [specOp, Option.some.injEq, Prod.mk.injEq] at hspec
    obtain ⟨rfl, rfl, rfl⟩ := hspec
    exact refines_logged h d _ Spec.cKeyProvisioning [Spec.kpEnroll] hs heda
      (wf_mk _ _ _ (by decide) (by decide) (by simp) (by intro v hv; simp at hv; rcases hv with rfl; decide))
      (exec_kpLog d hf _ (Or.inl rfl)) rfl
  | kpSetIntrinsicKey t z =>
    obtain ⟨ht, hz⟩ := hargs
    simp only [specOp, Option.some.injEq, Prod.mk.injEq] at hspec
    obtain ⟨rfl, rfl, rfl⟩ := hspec
    exact refines_logged h d _ Spec.cKeyProvisioning [Spec.kpSetIntrinsicKey, t, z] hs heda
      (wf_mk _ _ _ (by decide) (by decide) (by simp)
        (by intro v hv; simp at hv; rcases hv with rfl | rfl | rfl <;> first | assumption | decide))
      (exec_kpLog d hf _ (Or.inr (Or.inr (Or.inr ⟨t, z, rfl⟩)))) rfl
  | kpWriteNonvolatile m =>
    have hm : m < 4294967296 := hargs
    simp only [specOp, Option.some.injEq, Prod.mk.injEq] at hspec
    obtain ⟨rfl, rfl, rfl⟩ := hspec
    exact refines_logged h d _ Spec.cKeyProvisioning [Spec.kpWriteNonVolatile, m] hs heda
      (wf_mk _ _ _ (by decide) (by decide) (by simp)
        (by intro v hv; simp at hv; rcases hv with rfl | rfl <;> first | assumption | decide))
      (exec_kpLog d hf _ (Or.inr (Or.inl ⟨m, rfl⟩))) rfl
  | kpReadNonvolatile m =>
    have hm : m < 4294967296 := hargs
    simp only [specOp, Option.some.injEq, Prod.mk.injEq] at hspec
    obtain ⟨rfl, rfl, rfl⟩ := hspec
    exact refines_logged h d _ Spec.cKeyProvisioning [Spec.kpReadNonVolatile, m] hs heda
      (wf_mk _ _ _ (by decide) (by decide) (by simp)
        (by intro v hv; simp at hv; rcases hv with rfl | rfl <;> first | assumption | decide))
      (exec_kpLog d hf _ (Or.inr (Or.inr (Or.inl ⟨m, rfl⟩)))) rfl
  | _ => simp [specOp] at hspec

set_option linter.unusedVariables false in
/-- One operation, serial link: `McuBoot` + `MbootSerialProtocol` against the live reference device. -/
theorem op_refines_serial (h : Host) (d d' : Dev) (op : Op) (res : Except HErr Val) (st : Nat)
    (htr : h.cfg.tr = .serial)
    (hs : Synced h d) (hd : d.OK) (hmps : h.mps = some d.maxPacket) (heda : h.eda = false)
    (hargs : op.argsOK) (hspec : specOp h.cfg.cmdExc h.cfg.usb d op = some (d', res, st)) :
    ∃ h', runOp op h = (res, h') ∧ Synced h' d' ∧ h'.status = st ∧ h'.cfg = h.cfg ∧ h'.mps = h.mps ∧ h'.eda = false :=
  op_refines h d d' op res st hs hd hmps heda hargs hspec

set_option linter.unusedVariables false in
/-- One operation, USB-HID link. -/
theorem op_refines_hid (h : Host) (d d' : Dev) (op : Op) (res : Except HErr Val) (st : Nat)
    (htr : h.cfg.tr = .hid)
    (hs : Synced h d) (hd : d.OK) (hmps : h.mps = some d.maxPacket) (heda : h.eda = false)
    (hargs : op.argsOK) (hspec : specOp h.cfg.cmdExc h.cfg.usb d op = some (d', res, st)) :
    ∃ h', runOp op h = (res, h') ∧ Synced h' d' ∧ h'.status = st ∧ h'.cfg = h.cfg ∧ h'.mps = h.mps ∧ h'.eda = false :=
  op_refines h d d' op res st hs hd hmps heda hargs hspec

end SpsdkVerif.Mboot
