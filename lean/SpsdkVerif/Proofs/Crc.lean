/-
Theory of the bitwise CRC of Crypto/Crc.lean (Rocksoft model on `Nat` registers), for every well-formed
parameter set (width ≥ 8, polynomial without its leading term), all messages, all lengths:

  * `reflect` characterised bit by bit; involutive, injective, xor-linear;
  * one register shift = multiplication by `x` minus `G` when the `x^w` term appears (`bitStep_eq`);
  * LINEARITY   `registerFrom_xor`, `crc_affine`, `crc16Xmodem_xor`;
  * INJECTIVITY for polynomials with constant term 1 ⇒ `crc_burst`: a change confined to one byte is detected;
  * SPECIFICATION `registerFrom_congr` / `registerFrom_unique`: the register after message `M` from start state `s`
    is THE remainder of `s·x^(8|M|) + M(x)·x^w` modulo `G(x) = x^w + poly` in GF(2)[x]
    (`clmul` = carry-less product, `CongrMod`, degree argument `clmul_ge` for uniqueness);
  * RESIDUES `crc_append_self_zero` (message ‖ big-endian CRC has CRC 0: XMODEM, MPEG-2),
    `crc_append_self_reflected`, `crc32_residue` (= 0x2144DF1C).
Core Lean only (no Mathlib), generation-independent.
-/
import SpsdkVerif.Crypto.Crc
import SpsdkVerif.Crypto.Modes

namespace SpsdkVerif.Crypto.Crc
open SpsdkVerif SpsdkVerif.Crypto

theorem top_iff (c w : Nat) : ((c >>> (w - 1)) % 2 = 1) ↔ c.testBit (w - 1) = true := by
  rw [Nat.testBit_eq_decide_div_mod_eq, Nat.shiftRight_eq_div_pow]; simp

/-- one shift of the register = multiply by x and subtract G if the x^w term appeared -/
theorem bitStep_eq (p : Params) (c : Nat) (hw : 0 < p.width) (hp : p.poly < 2 ^ p.width) (hc : c < 2 ^ p.width) :
    bitStep p c = (c <<< 1) ^^^ (if c.testBit (p.width - 1) then 2 ^ p.width ^^^ p.poly else 0) := by
  unfold bitStep
  simp only [top_iff]
  apply Nat.eq_of_testBit_eq
  intro i
  have hpi : ∀ j, p.width ≤ j → p.poly.testBit j = false := fun j hj =>
    Nat.testBit_lt_two_pow (Nat.lt_of_lt_of_le hp (Nat.pow_le_pow_right (by omega) hj))
  have hci : ∀ j, p.width ≤ j → c.testBit j = false := fun j hj =>
    Nat.testBit_lt_two_pow (Nat.lt_of_lt_of_le hc (Nat.pow_le_pow_right (by omega) hj))
  by_cases ht : c.testBit (p.width - 1) = true
  · simp only [ht, if_true, Nat.testBit_xor, Nat.testBit_mod_two_pow, Nat.testBit_shiftLeft, Nat.testBit_two_pow]
    by_cases h1 : i < p.width
    · have : ¬ p.width = i := by omega
      simp [h1, this]
    · by_cases h2 : i = p.width
      · subst h2
        have : 1 ≤ p.width := hw
        simp [hpi p.width (Nat.le_refl _), ht, this]
      · have h3 : p.width ≤ i - 1 := by omega
        have : ¬ p.width = i := by omega
        simp [h1, hpi i (by omega), hci (i - 1) h3, this]
  · simp only [ht, Bool.false_eq_true, if_false, Nat.xor_zero, Nat.testBit_mod_two_pow, Nat.testBit_shiftLeft]
    by_cases h1 : i < p.width
    · simp [h1]
    · by_cases h2 : i = p.width
      · subst h2; simp at ht; simp [ht]
      · have h3 : p.width ≤ i - 1 := by omega
        simp [h1, hci (i - 1) h3]

theorem bitStep_lt (p : Params) (c : Nat) (hp : p.poly < 2 ^ p.width) : bitStep p c < 2 ^ p.width := by
  unfold bitStep
  have h1 : (c <<< 1) % 2 ^ p.width < 2 ^ p.width := Nat.mod_lt _ (Nat.two_pow_pos _)
  simp only []
  split
  · exact Nat.xor_lt_two_pow h1 hp
  · exact h1

/-! ### reflect, characterised bit by bit -/

theorem bitsOf_length : ∀ (n x : Nat), (Misc.bitsOf n x).length = n
  | 0, _ => rfl
  | n + 1, x => by simp [Misc.bitsOf, bitsOf_length n]

theorem ofBitsBE_foldl (l : List Bool) (acc : Nat) :
    l.foldl (fun acc b => acc * 2 + (if b then 1 else 0)) acc = acc * 2 ^ l.length + Misc.ofBitsBE l := by
  induction l generalizing acc with
  | nil => simp [Misc.ofBitsBE]
  | cons b l ih =>
    simp only [List.foldl_cons, List.length_cons, Misc.ofBitsBE]
    rw [ih, ih (0 * 2 + _)]
    rw [Nat.pow_succ, Nat.add_mul, Nat.add_mul, Nat.zero_mul,
      Nat.mul_assoc, Nat.mul_comm 2 (2 ^ l.length)]
    omega

theorem reflect_succ (n x : Nat) : reflect (n + 1) x = (x % 2) * 2 ^ n + reflect n (x / 2) := by
  simp only [reflect, Misc.bitsOf]
  conv => lhs; unfold Misc.ofBitsBE
  rw [List.foldl_cons, ofBitsBE_foldl, bitsOf_length]
  have : x % 2 = 0 ∨ x % 2 = 1 := by omega
  rcases this with h | h <;> simp [h]

theorem reflect_lt : ∀ (n x : Nat), reflect n x < 2 ^ n
  | 0, _ => by simp [reflect, Misc.bitsOf, Misc.ofBitsBE]
  | n + 1, x => by
    rw [reflect_succ, Nat.pow_succ]
    have := reflect_lt n (x / 2)
    have h2 : x % 2 < 2 := Nat.mod_lt _ (by omega)
    have : x % 2 * 2 ^ n ≤ 1 * 2 ^ n := Nat.mul_le_mul_right _ (by omega)
    omega

/-- bit `i` of the reflection is bit `n-1-i` of the argument -/
theorem testBit_reflect : ∀ (n x i : Nat), (reflect n x).testBit i = (decide (i < n) && x.testBit (n - 1 - i))
  | 0, x, i => by simp [reflect, Misc.bitsOf, Misc.ofBitsBE]
  | n + 1, x, i => by
    rw [reflect_succ]
    have hlt := reflect_lt n (x / 2)
    rw [Nat.mul_comm, Nat.two_pow_add_eq_or_of_lt hlt, Nat.testBit_or, testBit_reflect n (x / 2) i]
    have hx : x % 2 = 0 ∨ x % 2 = 1 := by omega
    by_cases h1 : i < n
    · have e1 : (2 ^ n * (x % 2)).testBit i = false := by
        rcases hx with h | h <;> simp [h, Nat.testBit_two_pow]; omega
      have e2 : n + 1 - 1 - i = (n - 1 - i) + 1 := by omega
      have h1' : i < n + 1 := by omega
      rw [e1, e2, Nat.testBit_succ]; simp [h1, h1']
    · by_cases h2 : i = n
      · subst h2
        have e0 : i + 1 - 1 - i = 0 := by omega
        rw [e0]
        rcases hx with h | h <;> simp [h, Nat.testBit_two_pow, Nat.testBit_zero]
      · have h3 : ¬ i < n + 1 := by omega
        have : ¬ n = i := by omega
        rcases hx with h | h <;> simp [h, h1, h3, Nat.testBit_two_pow, this]

theorem reflect_xor (n a b : Nat) : reflect n (a ^^^ b) = reflect n a ^^^ reflect n b := by
  apply Nat.eq_of_testBit_eq; intro i
  simp only [testBit_reflect, Nat.testBit_xor]
  cases decide (i < n) <;> simp

theorem reflect_reflect (n x : Nat) (h : x < 2 ^ n) : reflect n (reflect n x) = x := by
  apply Nat.eq_of_testBit_eq; intro i
  simp only [testBit_reflect]
  by_cases h1 : i < n
  · have h2 : n - 1 - i < n := by omega
    have h3 : n - 1 - (n - 1 - i) = i := by omega
    simp [h1, h2, h3]
  · have : x.testBit i = false :=
      Nat.testBit_lt_two_pow (Nat.lt_of_lt_of_le h (Nat.pow_le_pow_right (by omega) (by omega)))
    simp [h1, this]

theorem reflect_inj (n x y : Nat) (hx : x < 2 ^ n) (hy : y < 2 ^ n) (h : reflect n x = reflect n y) : x = y := by
  rw [← reflect_reflect n x hx, ← reflect_reflect n y hy, h]

/-! ### the register machine is xor-linear and, for an odd polynomial, injective -/

/-- well-formed parameters: at least one byte wide, polynomial given without its leading term -/
structure WF (p : Params) : Prop where
  w8 : 8 ≤ p.width
  poly_lt : p.poly < 2 ^ p.width

/-- the value a message byte enters the register with -/
def inByte (p : Params) (b : UInt8) : Nat := if p.refIn then reflect 8 b.toNat else b.toNat

/-- the register after `d`, started from an arbitrary state -/
def registerFrom (p : Params) (s : Nat) (d : Bytes) : Nat := d.foldl (byteStep p) s

theorem register_eq (p : Params) (d : Bytes) : register p d = registerFrom p p.init d := rfl

theorem inByte_lt (p : Params) (b : UInt8) : inByte p b < 2 ^ 8 := by
  unfold inByte
  split
  · exact reflect_lt 8 _
  · exact b.toNat_lt

theorem inByte_xor (p : Params) (x y : UInt8) : inByte p (x ^^^ y) = inByte p x ^^^ inByte p y := by
  unfold inByte
  split <;> simp [UInt8.toNat_xor, reflect_xor]

theorem inByte_inj (p : Params) (x y : UInt8) (h : inByte p x = inByte p y) : x = y := by
  unfold inByte at h
  apply UInt8.toNat_inj.mp
  split at h
  · exact reflect_inj 8 _ _ x.toNat_lt y.toNat_lt h
  · exact h

theorem byteStep_eq (p : Params) (c : Nat) (b : UInt8) :
    byteStep p c b = bitStep p (bitStep p (bitStep p (bitStep p (bitStep p (bitStep p (bitStep p (bitStep p
      (c ^^^ (inByte p b <<< (p.width - 8)))))))))) := rfl

theorem inject_lt {p : Params} (h : WF p) (b : UInt8) : inByte p b <<< (p.width - 8) < 2 ^ p.width := by
  have h1 := inByte_lt p b
  rw [Nat.shiftLeft_eq]
  have e : 2 ^ p.width = 2 ^ 8 * 2 ^ (p.width - 8) := by
    rw [← Nat.pow_add]; congr 1; have := h.w8; omega
  rw [e]
  exact Nat.mul_lt_mul_of_lt_of_le h1 (Nat.le_refl _) (Nat.two_pow_pos _)

theorem xor_xor_xor (x y g h : Nat) : (x ^^^ g) ^^^ (y ^^^ h) = (x ^^^ y) ^^^ (g ^^^ h) := by
  apply Nat.eq_of_testBit_eq; intro i
  simp only [Nat.testBit_xor]
  cases x.testBit i <;> cases y.testBit i <;> cases g.testBit i <;> cases h.testBit i <;> rfl

theorem xor_right_cancel {x y t : Nat} (h : x ^^^ t = y ^^^ t) : x = y := by
  have := congrArg (· ^^^ t) h
  simpa [Nat.xor_assoc] using this

theorem bitStep_xor {p : Params} (h : WF p) (a b : Nat) (ha : a < 2 ^ p.width) (hb : b < 2 ^ p.width) :
    bitStep p (a ^^^ b) = bitStep p a ^^^ bitStep p b := by
  have hw : 0 < p.width := by have := h.w8; omega
  rw [bitStep_eq p _ hw h.poly_lt (Nat.xor_lt_two_pow ha hb), bitStep_eq p a hw h.poly_lt ha,
    bitStep_eq p b hw h.poly_lt hb, xor_xor_xor, Nat.shiftLeft_xor_distrib, Nat.testBit_xor]
  congr 1
  cases a.testBit (p.width - 1) <;> cases b.testBit (p.width - 1) <;> simp

theorem byteStep_lt {p : Params} (h : WF p) (c : Nat) (b : UInt8) : byteStep p c b < 2 ^ p.width := by
  rw [byteStep_eq]; exact bitStep_lt p _ h.poly_lt

theorem byteStep_xor {p : Params} (h : WF p) (s s' : Nat) (x x' : UInt8) (hs : s < 2 ^ p.width)
    (hs' : s' < 2 ^ p.width) : byteStep p (s ^^^ s') (x ^^^ x') = byteStep p s x ^^^ byteStep p s' x' := by
  have l := fun c => bitStep_lt p c h.poly_lt
  have i1 := Nat.xor_lt_two_pow hs (inject_lt h x)
  have i2 := Nat.xor_lt_two_pow hs' (inject_lt h x')
  simp only [byteStep_eq]
  rw [inByte_xor, Nat.shiftLeft_xor_distrib, ← xor_xor_xor, bitStep_xor h _ _ i1 i2,
    bitStep_xor h _ _ (l _) (l _), bitStep_xor h _ _ (l _) (l _), bitStep_xor h _ _ (l _) (l _),
    bitStep_xor h _ _ (l _) (l _), bitStep_xor h _ _ (l _) (l _), bitStep_xor h _ _ (l _) (l _),
    bitStep_xor h _ _ (l _) (l _)]

theorem registerFrom_lt {p : Params} (h : WF p) : ∀ (d : Bytes) (s : Nat), s < 2 ^ p.width →
    registerFrom p s d < 2 ^ p.width
  | [], _, hs => hs
  | b :: d, s, _ => by
    simp only [registerFrom, List.foldl_cons]
    exact registerFrom_lt h d _ (byteStep_lt h s b)

/-- **Linearity**: the register of a bytewise xor, started from the xor of two states, is the xor of the registers -/
theorem registerFrom_xor {p : Params} (h : WF p) : ∀ (a b : Bytes) (s s' : Nat), a.length = b.length →
    s < 2 ^ p.width → s' < 2 ^ p.width →
    registerFrom p (s ^^^ s') (xorBytes a b) = registerFrom p s a ^^^ registerFrom p s' b
  | [], [], _, _, _, _, _ => rfl
  | [], _ :: _, _, _, hl, _, _ => by simp at hl
  | _ :: _, [], _, _, hl, _, _ => by simp at hl
  | x :: a, y :: b, s, s', hl, hs, hs' => by
    simp only [registerFrom, xorBytes, List.zipWith_cons_cons, List.foldl_cons]
    rw [byteStep_xor h s s' x y hs hs']
    exact registerFrom_xor h a b _ _ (by simpa using hl) (byteStep_lt h s x) (byteStep_lt h s' y)

theorem bitStep_bit0 {p : Params} (h : WF p) (hodd : p.poly % 2 = 1) (c : Nat) (hc : c < 2 ^ p.width) :
    (bitStep p c).testBit 0 = c.testBit (p.width - 1) := by
  have hw : 0 < p.width := by have := h.w8; omega
  rw [bitStep_eq p c hw h.poly_lt hc, Nat.testBit_xor, Nat.testBit_shiftLeft]
  have hp0 : p.poly.testBit 0 = true := by simp [Nat.testBit_zero, hodd]
  have : ¬ p.width = 0 := by omega
  cases c.testBit (p.width - 1) <;> simp [Nat.testBit_xor, Nat.testBit_two_pow, this, hodd]

theorem bitStep_inj {p : Params} (h : WF p) (hodd : p.poly % 2 = 1) (a b : Nat) (ha : a < 2 ^ p.width)
    (hb : b < 2 ^ p.width) (e : bitStep p a = bitStep p b) : a = b := by
  have hw : 0 < p.width := by have := h.w8; omega
  have ht : a.testBit (p.width - 1) = b.testBit (p.width - 1) := by
    rw [← bitStep_bit0 h hodd a ha, ← bitStep_bit0 h hodd b hb, e]
  rw [bitStep_eq p a hw h.poly_lt ha, bitStep_eq p b hw h.poly_lt hb, ht] at e
  have := xor_right_cancel e
  have := congrArg (· >>> 1) this
  simpa [Nat.shiftLeft_shiftRight] using this

theorem byteStep_inj_state {p : Params} (h : WF p) (hodd : p.poly % 2 = 1) (s s' : Nat) (x : UInt8)
    (hs : s < 2 ^ p.width) (hs' : s' < 2 ^ p.width) (e : byteStep p s x = byteStep p s' x) : s = s' := by
  have l := fun c => bitStep_lt p c h.poly_lt
  have i1 := Nat.xor_lt_two_pow hs (inject_lt h x)
  have i2 := Nat.xor_lt_two_pow hs' (inject_lt h x)
  simp only [byteStep_eq] at e
  have := bitStep_inj h hodd _ _ i1 i2 (bitStep_inj h hodd _ _ (l _) (l _) (bitStep_inj h hodd _ _ (l _) (l _)
    (bitStep_inj h hodd _ _ (l _) (l _) (bitStep_inj h hodd _ _ (l _) (l _) (bitStep_inj h hodd _ _ (l _) (l _)
    (bitStep_inj h hodd _ _ (l _) (l _) (bitStep_inj h hodd _ _ (l _) (l _) e)))))))
  exact xor_right_cancel this

theorem byteStep_inj_byte {p : Params} (h : WF p) (hodd : p.poly % 2 = 1) (s : Nat) (x y : UInt8)
    (hs : s < 2 ^ p.width) (e : byteStep p s x = byteStep p s y) : x = y := by
  have l := fun c => bitStep_lt p c h.poly_lt
  have i1 := Nat.xor_lt_two_pow hs (inject_lt h x)
  have i2 := Nat.xor_lt_two_pow hs (inject_lt h y)
  simp only [byteStep_eq] at e
  have := bitStep_inj h hodd _ _ i1 i2 (bitStep_inj h hodd _ _ (l _) (l _) (bitStep_inj h hodd _ _ (l _) (l _)
    (bitStep_inj h hodd _ _ (l _) (l _) (bitStep_inj h hodd _ _ (l _) (l _) (bitStep_inj h hodd _ _ (l _) (l _)
    (bitStep_inj h hodd _ _ (l _) (l _) (bitStep_inj h hodd _ _ (l _) (l _) e)))))))
  rw [Nat.xor_comm s, Nat.xor_comm s] at this
  have := xor_right_cancel this
  have := congrArg (· >>> (p.width - 8)) this
  simp only [Nat.shiftLeft_shiftRight] at this
  exact inByte_inj p x y this

theorem registerFrom_inj {p : Params} (h : WF p) (hodd : p.poly % 2 = 1) : ∀ (d : Bytes) (s s' : Nat),
    s < 2 ^ p.width → s' < 2 ^ p.width → registerFrom p s d = registerFrom p s' d → s = s'
  | [], _, _, _, _, e => e
  | b :: d, s, s', hs, hs', e => by
    simp only [registerFrom, List.foldl_cons] at e
    exact byteStep_inj_state h hodd s s' b hs hs'
      (registerFrom_inj h hodd d _ _ (byteStep_lt h s b) (byteStep_lt h s' b) e)

theorem registerFrom_append (p : Params) (s : Nat) (a b : Bytes) :
    registerFrom p s (a ++ b) = registerFrom p (registerFrom p s a) b := by
  simp [registerFrom, List.foldl_append]

/-- **Single-byte error detection**: two messages that differ in exactly one byte have different CRCs
    (any width ≥ 8, any polynomial with constant term 1, any init / xor-out / reflection) -/
theorem crc_burst {p : Params} (h : WF p) (hodd : p.poly % 2 = 1) (hinit : p.init < 2 ^ p.width)
    (pre suf : Bytes) (x y : UInt8) (hxy : x ≠ y) : crc p (pre ++ x :: suf) ≠ crc p (pre ++ y :: suf) := by
  intro e
  have hs := registerFrom_lt h pre p.init hinit
  have hr : register p (pre ++ x :: suf) = register p (pre ++ y :: suf) := by
    have l1 := registerFrom_lt h (pre ++ x :: suf) p.init hinit
    have l2 := registerFrom_lt h (pre ++ y :: suf) p.init hinit
    simp only [crc] at e
    have e' := xor_right_cancel e
    rw [register_eq, register_eq] at e' ⊢
    split at e'
    · exact reflect_inj _ _ _ l1 l2 e'
    · exact e'
  rw [register_eq, register_eq, registerFrom_append, registerFrom_append] at hr
  simp only [registerFrom, List.foldl_cons] at hr
  have := registerFrom_inj h hodd suf _ _ (byteStep_lt h _ x) (byteStep_lt h _ y) hr
  exact hxy (byteStep_inj_byte h hodd _ x y hs this)

/-! ### GF(2)[x]: carry-less product, congruence modulo the generator, uniqueness of remainders -/

/-- carry-less product of the polynomials `q` and `g` (bit `i` = coefficient of `x^i`) -/
def clmul (q g : Nat) : Nat :=
  if q = 0 then 0 else (if q % 2 = 1 then g else 0) ^^^ (clmul (q / 2) g <<< 1)
termination_by q
decreasing_by omega

theorem clmul_zero (g : Nat) : clmul 0 g = 0 := by unfold clmul; simp

/-- unconditional unfolding -/
theorem clmul_eq (q g : Nat) : clmul q g = (if q % 2 = 1 then g else 0) ^^^ (clmul (q / 2) g <<< 1) := by
  by_cases h : q = 0
  · subst h; simp [clmul_zero]
  · conv => lhs; unfold clmul
    simp [h]

theorem clmul_one (g : Nat) : clmul 1 g = g := by
  rw [clmul_eq]; simp [clmul_zero]

theorem clmul_double (q g : Nat) : clmul (2 * q) g = clmul q g <<< 1 := by
  rw [clmul_eq]
  have h1 : 2 * q % 2 = 0 := by omega
  have h2 : 2 * q / 2 = q := by omega
  simp [h1, h2]

theorem clmul_shift (q g : Nat) : ∀ k, clmul (q <<< k) g = clmul q g <<< k
  | 0 => by simp
  | k + 1 => by
    have e : q <<< (k + 1) = 2 * (q <<< k) := by
      rw [Nat.shiftLeft_eq, Nat.shiftLeft_eq, Nat.pow_succ]; rw [Nat.mul_comm 2, Nat.mul_assoc]
    rw [e, clmul_double, clmul_shift q g k, ← Nat.shiftLeft_add]

theorem xor_mod_two (a b : Nat) : (a ^^^ b) % 2 = (a % 2 + b % 2) % 2 := by
  have := @Nat.xor_mod_two_pow a b 1
  simp only [Nat.pow_one] at this
  rw [this]
  have ha : a % 2 = 0 ∨ a % 2 = 1 := by omega
  have hb : b % 2 = 0 ∨ b % 2 = 1 := by omega
  rcases ha with ha | ha <;> rcases hb with hb | hb <;> simp [ha, hb]

theorem clmul_xor (g : Nat) : ∀ (n a b : Nat), a + b ≤ n → clmul (a ^^^ b) g = clmul a g ^^^ clmul b g
  | 0, a, b, h => by
    have ha : a = 0 := by omega
    have hb : b = 0 := by omega
    subst ha hb; simp [clmul_zero]
  | n + 1, a, b, h => by
    by_cases h0 : a + b = 0
    · have ha : a = 0 := by omega
      have hb : b = 0 := by omega
      subst ha hb; simp [clmul_zero]
    · rw [clmul_eq (a ^^^ b), clmul_eq a, clmul_eq b, Nat.xor_div_two,
        clmul_xor g n (a / 2) (b / 2) (by omega), Nat.shiftLeft_xor_distrib, xor_xor_xor, xor_mod_two]
      congr 1
      have ha : a % 2 = 0 ∨ a % 2 = 1 := by omega
      have hb : b % 2 = 0 ∨ b % 2 = 1 := by omega
      rcases ha with ha | ha <;> rcases hb with hb | hb <;> simp [ha, hb]

theorem clmul_xor' (g a b : Nat) : clmul (a ^^^ b) g = clmul a g ^^^ clmul b g :=
  clmul_xor g (a + b) a b (Nat.le_refl _)

theorem testBit_of_range {x n : Nat} (h1 : 2 ^ n ≤ x) (h2 : x < 2 ^ (n + 1)) : x.testBit n = true := by
  rw [Nat.testBit_eq_decide_div_mod_eq]
  have : x / 2 ^ n = 1 := by
    apply Nat.div_eq_of_lt_le
    · simpa using h1
    · rw [Nat.pow_succ] at h2; omega
  simp [this]

/-- a non-zero multiple of a polynomial of degree `w` has degree at least `w` (exactly `deg q + w`) -/
theorem clmul_range (g w : Nat) (hg1 : 2 ^ w ≤ g) (hg2 : g < 2 ^ (w + 1)) : ∀ (n q : Nat), q ≤ n → q ≠ 0 →
    ∃ k, 2 ^ k ≤ q ∧ q < 2 ^ (k + 1) ∧ 2 ^ (w + k) ≤ clmul q g ∧ clmul q g < 2 ^ (w + k + 1)
  | 0, q, h, h0 => by omega
  | n + 1, q, h, h0 => by
    by_cases h1 : q = 1
    · subst h1
      exact ⟨0, by simp, by simp, by simpa [clmul_one] using hg1, by simpa [clmul_one] using hg2⟩
    · have hq2 : q / 2 ≠ 0 := by omega
      obtain ⟨k, a1, a2, a3, a4⟩ := clmul_range g w hg1 hg2 n (q / 2) (by omega) hq2
      refine ⟨k + 1, ?_, ?_, ?_, ?_⟩
      · rw [Nat.pow_succ]; omega
      · rw [Nat.pow_succ] at a2 ⊢; omega
      all_goals
        rw [clmul_eq]
        have s1 : 2 ^ (w + (k + 1)) ≤ clmul (q / 2) g <<< 1 := by
          rw [Nat.shiftLeft_eq, ← Nat.add_assoc, Nat.pow_succ]; omega
        have s2 : clmul (q / 2) g <<< 1 < 2 ^ (w + (k + 1) + 1) := by
          have e : 2 ^ (w + (k + 1) + 1) = 2 ^ (w + k + 1) * 2 := by rw [← Nat.add_assoc w k 1, Nat.pow_succ]
          rw [Nat.shiftLeft_eq, e]; omega
        have hb : (if q % 2 = 1 then g else 0) < 2 ^ (w + (k + 1)) := by
          have : 2 ^ (w + 1) ≤ 2 ^ (w + (k + 1)) := Nat.pow_le_pow_right (by omega) (by omega)
          split
          · omega
          · exact Nat.two_pow_pos _
      · apply Nat.ge_two_pow_of_testBit
        rw [Nat.testBit_xor, testBit_of_range s1 s2, Nat.testBit_lt_two_pow hb]; rfl
      · exact Nat.xor_lt_two_pow (Nat.lt_trans hb (Nat.pow_lt_pow_right (by omega) (by omega))) s2

theorem clmul_ge (g w q : Nat) (hg1 : 2 ^ w ≤ g) (hg2 : g < 2 ^ (w + 1)) (hq : q ≠ 0) : 2 ^ w ≤ clmul q g := by
  obtain ⟨k, _, _, a3, _⟩ := clmul_range g w hg1 hg2 q q (Nat.le_refl _) hq
  exact Nat.le_trans (Nat.pow_le_pow_right (by omega) (by omega)) a3

/-- the generator polynomial `G(x) = x^w + poly(x)` -/
def gen (p : Params) : Nat := 2 ^ p.width ^^^ p.poly

theorem gen_range {p : Params} (h : WF p) : 2 ^ p.width ≤ gen p ∧ gen p < 2 ^ (p.width + 1) := by
  constructor
  · apply Nat.ge_two_pow_of_testBit
    simp [gen, Nat.testBit_xor, Nat.testBit_two_pow, Nat.testBit_lt_two_pow h.poly_lt]
  · apply Nat.xor_lt_two_pow
    · exact Nat.pow_lt_pow_right (by omega) (by omega)
    · exact Nat.lt_trans h.poly_lt (Nat.pow_lt_pow_right (by omega) (by omega))

/-- `a ≡ r (mod G)` in GF(2)[x]: `a = q·G + r` for some quotient `q` -/
def CongrMod (G a r : Nat) : Prop := ∃ q, a = clmul q G ^^^ r

theorem xor_eq_zero {a b : Nat} (h : a ^^^ b = 0) : a = b := by
  apply xor_right_cancel (t := b); rw [h, Nat.xor_self]

/-- **remainders are unique**: two reduced values congruent to the same polynomial are equal -/
theorem congr_unique {p : Params} (h : WF p) {a r r' : Nat} (hr : r < 2 ^ p.width) (hr' : r' < 2 ^ p.width)
    (c1 : CongrMod (gen p) a r) (c2 : CongrMod (gen p) a r') : r = r' := by
  obtain ⟨q, e1⟩ := c1
  obtain ⟨q', e2⟩ := c2
  have e : clmul (q ^^^ q') (gen p) = r ^^^ r' := by
    rw [clmul_xor']
    apply Nat.eq_of_testBit_eq; intro i
    have := congrArg (·.testBit i) (e1.symm.trans e2)
    simp only [Nat.testBit_xor] at this ⊢
    revert this
    cases (clmul q (gen p)).testBit i <;> cases (clmul q' (gen p)).testBit i <;> cases r.testBit i <;>
      cases r'.testBit i <;> simp
  have hlt : r ^^^ r' < 2 ^ p.width := Nat.xor_lt_two_pow hr hr'
  by_cases hq : q ^^^ q' = 0
  · rw [hq, clmul_zero] at e
    exact xor_eq_zero e.symm
  · have := clmul_ge (gen p) p.width _ (gen_range h).1 (gen_range h).2 hq
    omega

theorem CongrMod.refl (G a : Nat) : CongrMod G a a := ⟨0, by simp [clmul_zero]⟩

theorem CongrMod.shl {G a r : Nat} (h : CongrMod G a r) (k : Nat) : CongrMod G (a <<< k) (r <<< k) := by
  obtain ⟨q, e⟩ := h
  exact ⟨q <<< k, by rw [e, Nat.shiftLeft_xor_distrib, clmul_shift]⟩

theorem CongrMod.xor_right {G a r : Nat} (h : CongrMod G a r) (x : Nat) : CongrMod G (a ^^^ x) (r ^^^ x) := by
  obtain ⟨q, e⟩ := h
  exact ⟨q, by rw [e, Nat.xor_assoc]⟩

theorem CongrMod.trans {G a b c : Nat} (h1 : CongrMod G a b) (h2 : CongrMod G b c) : CongrMod G a c := by
  obtain ⟨q1, e1⟩ := h1
  obtain ⟨q2, e2⟩ := h2
  exact ⟨q1 ^^^ q2, by rw [e1, e2, clmul_xor', Nat.xor_assoc]⟩

theorem CongrMod.symm_xor {G a r : Nat} (h : CongrMod G a r) : CongrMod G (a ^^^ r) 0 := by
  obtain ⟨q, e⟩ := h
  exact ⟨q, by rw [e, Nat.xor_assoc, Nat.xor_self]⟩

/-- one register shift is multiplication by `x` modulo `G` -/
theorem bitStep_congr {p : Params} (h : WF p) (c : Nat) (hc : c < 2 ^ p.width) :
    CongrMod (gen p) (c <<< 1) (bitStep p c) := by
  have hw : 0 < p.width := by have := h.w8; omega
  rw [bitStep_eq p c hw h.poly_lt hc]
  by_cases ht : c.testBit (p.width - 1) = true
  · refine ⟨1, ?_⟩
    simp only [ht, if_true, clmul_one, gen]
    rw [Nat.xor_comm (c <<< 1), ← Nat.xor_assoc, Nat.xor_self, Nat.zero_xor]
  · refine ⟨0, ?_⟩
    simp [ht, clmul_zero]

theorem step_congr {p : Params} (h : WF p) {a c : Nat} (hc : c < 2 ^ p.width) (hac : CongrMod (gen p) a c) :
    CongrMod (gen p) (a <<< 1) (bitStep p c) :=
  (hac.shl 1).trans (bitStep_congr h c hc)

/-- feeding one byte: `s·x^8 + b·x^w ≡ byteStep s b (mod G)` -/
theorem byteStep_congr {p : Params} (h : WF p) (s : Nat) (b : UInt8) (hs : s < 2 ^ p.width) :
    CongrMod (gen p) ((s <<< 8) ^^^ (inByte p b <<< p.width)) (byteStep p s b) := by
  have l := fun c => bitStep_lt p c h.poly_lt
  have i1 := Nat.xor_lt_two_pow hs (inject_lt h b)
  have := step_congr h (l _) (step_congr h (l _) (step_congr h (l _) (step_congr h (l _) (step_congr h (l _)
    (step_congr h (l _) (step_congr h (l _) (step_congr h i1 (CongrMod.refl (gen p) _))))))))
  rw [byteStep_eq]
  have e : (s ^^^ inByte p b <<< (p.width - 8)) <<< 1 <<< 1 <<< 1 <<< 1 <<< 1 <<< 1 <<< 1 <<< 1 =
      (s <<< 8) ^^^ (inByte p b <<< p.width) := by
    simp only [← Nat.shiftLeft_add, Nat.shiftLeft_xor_distrib]
    have : p.width - 8 + (1 + 1 + 1 + 1 + 1 + 1 + 1 + 1) = p.width := by have := h.w8; omega
    rw [this]
  rw [e] at this
  exact this

/-- the message as a polynomial: bytes most-significant first (each byte bit-reversed when `refIn`) -/
def msgPolyFrom (p : Params) (acc : Nat) (d : Bytes) : Nat := d.foldl (fun acc b => (acc <<< 8) ^^^ inByte p b) acc
def msgPoly (p : Params) (d : Bytes) : Nat := msgPolyFrom p 0 d

theorem msgPolyFrom_eq (p : Params) : ∀ (d : Bytes) (acc : Nat),
    msgPolyFrom p acc d = (acc <<< (8 * d.length)) ^^^ msgPoly p d
  | [], acc => by simp [msgPolyFrom, msgPoly]
  | b :: d, acc => by
    have e1 := msgPolyFrom_eq p d ((acc <<< 8) ^^^ inByte p b)
    have e2 := msgPolyFrom_eq p d ((0 <<< 8) ^^^ inByte p b)
    simp only [msgPolyFrom, msgPoly, List.foldl_cons, List.length_cons] at e1 e2 ⊢
    rw [e1, e2, Nat.shiftLeft_xor_distrib, Nat.zero_shiftLeft, Nat.zero_xor, ← Nat.shiftLeft_add, Nat.xor_assoc]
    congr 2
    omega

theorem msgPoly_cons (p : Params) (b : UInt8) (d : Bytes) :
    msgPoly p (b :: d) = (inByte p b <<< (8 * d.length)) ^^^ msgPoly p d := by
  have := msgPolyFrom_eq p d ((0 <<< 8) ^^^ inByte p b)
  simp only [Nat.zero_shiftLeft, Nat.zero_xor] at this
  simpa [msgPoly, msgPolyFrom] using this

theorem msgPoly_append (p : Params) (a b : Bytes) :
    msgPoly p (a ++ b) = (msgPoly p a <<< (8 * b.length)) ^^^ msgPoly p b := by
  have := msgPolyFrom_eq p b (msgPoly p a)
  simpa [msgPoly, msgPolyFrom, List.foldl_append] using this

/-- **The bitwise CRC register is the polynomial remainder**: for every start state `s`, message `d`,
    `s·x^(8·|d|) + M(x)·x^w ≡ registerFrom s d (mod G)` -/
theorem registerFrom_congr {p : Params} (h : WF p) : ∀ (d : Bytes) (s : Nat), s < 2 ^ p.width →
    CongrMod (gen p) ((s <<< (8 * d.length)) ^^^ (msgPoly p d <<< p.width)) (registerFrom p s d)
  | [], s, _ => by simpa [msgPoly, msgPolyFrom, registerFrom] using CongrMod.refl (gen p) s
  | b :: d, s, hs => by
    have ih := registerFrom_congr h d (byteStep p s b) (byteStep_lt h s b)
    have h1 := ((byteStep_congr h s b hs).shl (8 * d.length)).xor_right (msgPoly p d <<< p.width)
    have := h1.trans ih
    have e : ((s <<< 8) ^^^ (inByte p b <<< p.width)) <<< (8 * d.length) ^^^ (msgPoly p d <<< p.width) =
        (s <<< (8 * (b :: d).length)) ^^^ (msgPoly p (b :: d) <<< p.width) := by
      rw [msgPoly_cons, Nat.shiftLeft_xor_distrib, Nat.shiftLeft_xor_distrib, ← Nat.shiftLeft_add,
        ← Nat.shiftLeft_add, ← Nat.shiftLeft_add, Nat.xor_assoc, List.length_cons]
      congr 2
      · omega
      · rw [Nat.add_comm]
    rw [e] at this
    simpa [registerFrom] using this

/-- … and it is the ONLY reduced value with that property -/
theorem registerFrom_unique {p : Params} (h : WF p) (d : Bytes) (s r : Nat) (hs : s < 2 ^ p.width)
    (hr : r < 2 ^ p.width)
    (hc : CongrMod (gen p) ((s <<< (8 * d.length)) ^^^ (msgPoly p d <<< p.width)) r) :
    r = registerFrom p s d :=
  congr_unique h hr (registerFrom_lt h d s hs) hc (registerFrom_congr h d s hs)

/-- without input reflection the message polynomial is the big-endian integer of the message -/
theorem shl8_xor (a v : Nat) (hv : v < 2 ^ 8) : (a <<< 8) ^^^ v = a * 256 + v := by
  rw [Nat.shiftLeft_eq, Nat.mul_comm, Nat.two_pow_add_eq_or_of_lt hv]
  apply Nat.eq_of_testBit_eq; intro i
  simp only [Nat.testBit_xor, Nat.testBit_or]
  by_cases hi : i < 8
  · have : (2 ^ 8 * a).testBit i = false := by
      rw [Nat.mul_comm, ← Nat.shiftLeft_eq, Nat.testBit_shiftLeft]; simp; omega
    simp [this]
  · have : v.testBit i = false :=
      Nat.testBit_lt_two_pow (Nat.lt_of_lt_of_le hv (Nat.pow_le_pow_right (by omega) (by omega)))
    simp [this]

theorem msgPoly_eq_beDec (p : Params) (hr : p.refIn = false) (d : Bytes) : msgPoly p d = Misc.beDec d := by
  unfold msgPoly msgPolyFrom Misc.beDec
  suffices h : ∀ acc, d.foldl (fun acc b => (acc <<< 8) ^^^ inByte p b) acc =
      d.foldl (fun acc x => acc * 256 + x.toNat) acc from h 0
  induction d with
  | nil => intro acc; rfl
  | cons b d ih =>
    intro acc
    simp only [List.foldl_cons]
    rw [ih, shl8_xor _ _ (inByte_lt p b)]
    simp [inByte, hr]

/-! ### residues: what the register becomes after the CRC itself has been appended -/

/-- If the `w/8` bytes `e` appended to `m` encode `register(m) + X`, the register ends in the remainder of
    `X·x^w` — the same for every message and every start state. -/
theorem registerFrom_residue {p : Params} (h : WF p) (s : Nat) (hs : s < 2 ^ p.width) (m e e0 : Bytes) (X : Nat)
    (hlen : 8 * e.length = p.width) (he : msgPoly p e = registerFrom p s m ^^^ X) (he0 : msgPoly p e0 = X) :
    registerFrom p s (m ++ e) = registerFrom p 0 e0 := by
  have hR := registerFrom_lt h m s hs
  have c1 := registerFrom_congr h e (registerFrom p s m) hR
  have c2 := registerFrom_congr h e0 0 (Nat.two_pow_pos _)
  rw [registerFrom_append]
  rw [he, hlen, Nat.shiftLeft_xor_distrib, ← Nat.xor_assoc, Nat.xor_self, Nat.zero_xor] at c1
  rw [he0, Nat.zero_shiftLeft, Nat.zero_xor] at c2
  exact congr_unique h (registerFrom_lt h e _ hR) (registerFrom_lt h e0 0 (Nat.two_pow_pos _)) c1 c2

/-! ### the appended CRC: non-reflected (big-endian) and reflected (little-endian) conventions -/

theorem beDec_append_single (l : Bytes) (x : UInt8) : Misc.beDec (l ++ [x]) = Misc.beDec l * 256 + x.toNat := by
  simp [Misc.beDec, List.foldl_append]

theorem beDec_beEnc (n v : Nat) : Misc.beDec (Misc.beEnc n v) = v % 256 ^ n := by
  induction n generalizing v with
  | zero => simp [Misc.beEnc, Misc.beDec, Nat.mod_one]
  | succ n ih =>
    rw [Misc.beEnc, beDec_append_single, ih, UInt8.toNat_ofNat']
    have hp : 256 ^ (n + 1) = 256 * 256 ^ n := by rw [Nat.pow_succ, Nat.mul_comm]
    rw [hp, Nat.mod_mul]
    generalize v / 256 % 256 ^ n = q
    omega

theorem pow256 (k : Nat) : 256 ^ k = 2 ^ (8 * k) := by
  rw [Nat.pow_mul]

theorem beEnc_length : ∀ (n v : Nat), (Misc.beEnc n v).length = n
  | 0, _ => rfl
  | n + 1, v => by simp [Misc.beEnc, beEnc_length n]

theorem leEnc_succ (k v : Nat) : Misc.leEnc (k + 1) v = UInt8.ofNat (v % 256) :: Misc.leEnc k (v / 256) := by
  simp [Misc.leEnc, Misc.beEnc, List.reverse_append]

theorem reflect_add (n m v : Nat) :
    reflect (n + m) v = (reflect m (v % 2 ^ m) <<< n) ^^^ reflect n (v / 2 ^ m) := by
  apply Nat.eq_of_testBit_eq; intro i
  simp only [testBit_reflect, Nat.testBit_xor, Nat.testBit_shiftLeft, Nat.testBit_mod_two_pow,
    Nat.testBit_div_two_pow]
  by_cases h1 : i < n
  · have e : n - 1 - i + m = n + m - 1 - i := by omega
    have h2 : i < n + m := by omega
    have h3 : ¬ i ≥ n := by omega
    simp [h1, h2, h3, e]
  · by_cases h2 : i < n + m
    · have h3 : i - n < m := by omega
      have h4 : m - 1 - (i - n) < m := by omega
      have e : m - 1 - (i - n) = n + m - 1 - i := by omega
      have h5 : i ≥ n := by omega
      have h6 : n + m - 1 - i < m := by omega
      simp [h1, h2, h3, h5, h6, e]
    · have h3 : ¬ i - n < m := by omega
      simp [h1, h2, h3]

/-- with input reflection, the little-endian bytes of `v` read as a message polynomial are `v` bit-reversed -/
theorem msgPoly_leEnc (p : Params) (hr : p.refIn = true) : ∀ (k v : Nat),
    msgPoly p (Misc.leEnc k v) = reflect (8 * k) v
  | 0, v => by simp [Misc.leEnc, Misc.beEnc, msgPoly, msgPolyFrom, reflect, Misc.bitsOf, Misc.ofBitsBE]
  | k + 1, v => by
    have hl : (Misc.leEnc k (v / 256)).length = k := by simp [Misc.leEnc, beEnc_length]
    rw [leEnc_succ, msgPoly_cons, msgPoly_leEnc p hr k (v / 256), hl]
    have e : 8 * (k + 1) = 8 * k + 8 := by omega
    rw [e, reflect_add]
    have : inByte p (UInt8.ofNat (v % 256)) = reflect 8 (v % 2 ^ 8) := by
      simp [inByte, hr, UInt8.toNat_ofNat']
    rw [this]

/-- **zero residue** (no reflection, no final xor — CRC-16/XMODEM, CRC-32/MPEG-2): a message followed by its own
    big-endian CRC has CRC 0, whatever the initial value -/
theorem crc_append_self_zero {p : Params} (h : WF p) (hinit : p.init < 2 ^ p.width) (hri : p.refIn = false)
    (hro : p.refOut = false) (hx : p.xorOut = 0) (k : Nat) (hk : 8 * k = p.width) (m : Bytes) :
    crc p (m ++ Misc.beEnc k (crc p m)) = 0 := by
  have hR := registerFrom_lt h m p.init hinit
  have hc : crc p m = registerFrom p p.init m := by simp [crc, hro, hx, register_eq]
  have he : msgPoly p (Misc.beEnc k (crc p m)) = registerFrom p p.init m ^^^ 0 := by
    rw [msgPoly_eq_beDec p hri, beDec_beEnc, hc, pow256, hk, Nat.mod_eq_of_lt hR, Nat.xor_zero]
  have := registerFrom_residue h p.init hinit m (Misc.beEnc k (crc p m)) [] 0
    (by rw [beEnc_length]; exact hk) he rfl
  simp only [crc, hro, hx, register_eq, Nat.xor_zero, Bool.false_eq_true, if_false] at this ⊢
  rw [this]; rfl

/-- **constant residue** (input and output reflected — CRC-32): a message followed by its own little-endian
    CRC has a CRC that does not depend on the message -/
theorem crc_append_self_reflected {p : Params} (h : WF p) (hinit : p.init < 2 ^ p.width) (hri : p.refIn = true)
    (hro : p.refOut = true) (k : Nat) (hk : 8 * k = p.width) (m : Bytes) :
    crc p (m ++ Misc.leEnc k (crc p m)) = reflect p.width (registerFrom p 0 (Misc.leEnc k p.xorOut)) ^^^ p.xorOut := by
  have hR := registerFrom_lt h m p.init hinit
  have hc : crc p m = reflect p.width (registerFrom p p.init m) ^^^ p.xorOut := by simp [crc, hro, register_eq]
  have he : msgPoly p (Misc.leEnc k (crc p m)) = registerFrom p p.init m ^^^ reflect p.width p.xorOut := by
    rw [msgPoly_leEnc p hri, hc, hk, reflect_xor, reflect_reflect _ _ hR]
  have he0 : msgPoly p (Misc.leEnc k p.xorOut) = reflect p.width p.xorOut := by
    rw [msgPoly_leEnc p hri, hk]
  have := registerFrom_residue h p.init hinit m (Misc.leEnc k (crc p m)) (Misc.leEnc k p.xorOut) _
    (by simp [Misc.leEnc, beEnc_length]; exact hk) he he0
  simp only [crc, hro, register_eq, if_true] at this ⊢
  rw [this]

/-! ### the three parameter sets SPSDK uses -/

theorem wf_crc32 : WF crc32 := ⟨by decide, by decide⟩
theorem wf_crc32Mpeg2 : WF crc32Mpeg2 := ⟨by decide, by decide⟩
theorem wf_crc16Xmodem : WF crc16Xmodem := ⟨by decide, by decide⟩

/-- CRC-16/XMODEM is xor-linear in the message (zero init, no final xor) -/
theorem crc16Xmodem_xor (a b : Bytes) (hl : a.length = b.length) :
    crc crc16Xmodem (xorBytes a b) = crc crc16Xmodem a ^^^ crc crc16Xmodem b := by
  have := registerFrom_xor wf_crc16Xmodem a b 0 0 hl (by decide) (by decide)
  simpa [crc, register_eq, crc16Xmodem] using this

/-- every CRC of the table is affine: `crc (a ⊕ b ⊕ c) = crc a ⊕ crc b ⊕ crc c` for equally long messages -/
theorem crc_affine {p : Params} (h : WF p) (hinit : p.init < 2 ^ p.width) (a b c : Bytes)
    (h1 : a.length = b.length) (h2 : b.length = c.length) :
    crc p (xorBytes (xorBytes a b) c) = crc p a ^^^ crc p b ^^^ crc p c := by
  have e1 := registerFrom_xor h a b p.init p.init h1 hinit hinit
  have hl : (xorBytes a b).length = c.length := by simp [xorBytes]; omega
  have e2 := registerFrom_xor h (xorBytes a b) c (p.init ^^^ p.init) p.init hl
    (Nat.xor_lt_two_pow hinit hinit) hinit
  rw [e1] at e2
  have e3 : p.init ^^^ p.init ^^^ p.init = p.init := by rw [Nat.xor_self, Nat.zero_xor]
  rw [e3] at e2
  simp only [crc, register_eq]
  rw [e2]
  split
  · rw [reflect_xor, reflect_xor]
    apply Nat.eq_of_testBit_eq; intro i
    simp only [Nat.testBit_xor]
    cases (reflect p.width (registerFrom p p.init a)).testBit i <;>
      cases (reflect p.width (registerFrom p p.init b)).testBit i <;>
      cases (reflect p.width (registerFrom p p.init c)).testBit i <;> cases p.xorOut.testBit i <;> rfl
  · apply Nat.eq_of_testBit_eq; intro i
    simp only [Nat.testBit_xor]
    cases (registerFrom p p.init a).testBit i <;> cases (registerFrom p p.init b).testBit i <;>
      cases (registerFrom p p.init c).testBit i <;> cases p.xorOut.testBit i <;> rfl

/-- CRC-32 (ISO-HDLC): the well-known residue — message ‖ little-endian CRC always checks to 0x2144DF1C -/
theorem crc32_residue (m : Bytes) : crc crc32 (m ++ Misc.leEnc 4 (crc crc32 m)) = 0x2144DF1C := by
  rw [crc_append_self_reflected wf_crc32 (by decide) rfl rfl 4 rfl m]
  decide +kernel

end SpsdkVerif.Crypto.Crc
