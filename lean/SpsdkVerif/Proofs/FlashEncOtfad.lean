/-
C13 — OTFAD image encryption: the code (`Otfad.encryptImage`, chunk walk + blob loop + slice assignment) refines
the block-wise specification `otfadSpecImage`; the hardware model inverts the specification.
-/
import SpsdkVerif.Proofs.FlashEncCommon

namespace SpsdkVerif.FlashEnc
open SpsdkVerif SpsdkVerif.Crypto
open SpsdkVerif.Misc (beEnc beDec leEnc leDec)
open SpsdkVerif.Generated.FlashEncConsts

variable {c : CryptoOps}

/-! ### address arithmetic of the window registers -/

theorem otfad_or_mask (k x : Nat) : x ||| (2 ^ k - 1) = x / 2 ^ k * 2 ^ k + (2 ^ k - 1) := by
  have hlt : 2 ^ k - 1 < 2 ^ k := by have := Nat.two_pow_pos k; omega
  have hx : x = (x / 2 ^ k) <<< k + x % 2 ^ k := by
    rw [Nat.shiftLeft_eq]; exact (Nat.div_add_mod' x (2 ^ k)).symm
  have hr : x % 2 ^ k ||| (2 ^ k - 1) = 2 ^ k - 1 := by
    apply Nat.eq_of_testBit_eq
    intro i
    simp only [Nat.testBit_or, Nat.testBit_two_pow_sub_one]
    by_cases hi : i < k
    · simp [hi]
    · have : (x % 2 ^ k).testBit i = false := by
        apply Nat.testBit_lt_two_pow
        have := Nat.mod_lt x (Nat.two_pow_pos k)
        have : 2 ^ k ≤ 2 ^ i := Nat.pow_le_pow_right (by omega) (by omega)
        omega
      simp [hi, this]
  conv => lhs; rw [hx]
  rw [Nat.shiftLeft_add_eq_or_of_lt (Nat.mod_lt x (Nat.two_pow_pos k)), Nat.or_assoc, hr,
    ← Nat.shiftLeft_add_eq_or_of_lt hlt, Nat.shiftLeft_eq]

theorem otfad_or_1023 (x : Nat) : x ||| 1023 = x / 1024 * 1024 + 1023 := otfad_or_mask 10 x

theorem otfad_or_1016 (e f : Nat) (hf : f < 8) : ((e / 8 * 8) ||| f) ||| 1016 = e / 1024 * 1024 + 1016 + f := by
  have h1 : e / 8 * 8 = (e / 8) <<< 3 := by rw [Nat.shiftLeft_eq]
  have h2 : (1016 : Nat) = 127 <<< 3 := by decide
  have h3 := otfad_or_mask 7 (e / 8)
  have hf' : f < 2 ^ 3 := hf
  rw [h1, h2, Nat.or_assoc, Nat.or_comm f, ← Nat.or_assoc, ← Nat.shiftLeft_or_distrib,
    ← Nat.shiftLeft_add_eq_or_of_lt hf', Nat.shiftLeft_eq]
  have : (2:Nat) ^ 7 - 1 = 127 := by decide
  rw [this] at h3
  rw [h3]
  omega

theorem otfad_effEnd (kb : KeyBlob) : kb.effEnd = (kb.end_ - 1) / 1024 * 1024 + 1023 := by
  simp only [KeyBlob.effEnd, otfadStartAddrMask]
  exact otfad_or_1023 _

/-- the window of a well-formed blob is a union of whole 1 KiB units -/
theorem otfad_containsAddr_iff (kb : KeyBlob) (h : kb.WF) (a : Nat) :
    kb.containsAddr a = true ↔ kb.end_ ≠ 0 ∧ kb.start / 1024 ≤ a / 1024 ∧ a / 1024 ≤ (kb.end_ - 1) / 1024 := by
  have := h.start_al
  simp only [KeyBlob.containsAddr, otfad_effEnd, Bool.and_eq_true, bne_iff_ne, decide_eq_true_eq]
  omega

theorem otfad_endAddrWithFlags (kb : KeyBlob) (h : kb.WF) (h0 : kb.end_ ≠ 0) :
    kb.endAddrWithFlags = .ok ((kb.end_ - 1) / 1024 * 1024 + 1016 + kb.flags) := by
  simp only [KeyBlob.endAddrWithFlags, otfadKeyFlagMask, otfadEndAddrMask, h0, false_and, if_false]
  rw [otfad_or_1016 _ _ h.flags_lt]

/-- the context registers exported for a well-formed blob describe exactly the blob's window and flags -/
theorem otfad_ctx_range (kb : KeyBlob) (h : kb.WF) (a : Nat) :
    kb.ctx.hit a = (kb.vld && kb.containsAddr a) ∧ kb.ctx.ade = kb.adeFlag ∧ kb.ctx.key = kb.key ∧ kb.ctx.ctr = kb.ctr := by
  refine ⟨?_, ?_, rfl, rfl⟩
  · by_cases h0 : kb.end_ = 0
    · have hf := h.exportable h0
      simp [OtfadCtx.hit, OtfadCtx.vld, KeyBlob.ctx, KeyBlob.endAddrWithFlags, h0, hf, KeyBlob.vld]
    · have := h.flags_lt
      rw [Bool.eq_iff_iff]
      simp only [OtfadCtx.hit, OtfadCtx.vld, KeyBlob.ctx, otfad_endAddrWithFlags kb h h0, KeyBlob.vld,
        Bool.and_eq_true, otfad_containsAddr_iff kb h a, beq_iff_eq, decide_eq_true_eq]
      omega
  · by_cases h0 : kb.end_ = 0
    · have hf := h.exportable h0
      simp [OtfadCtx.ade, KeyBlob.ctx, KeyBlob.endAddrWithFlags, h0, hf, KeyBlob.adeFlag]
    · have := h.flags_lt
      rw [Bool.eq_iff_iff]
      simp only [OtfadCtx.ade, KeyBlob.ctx, otfad_endAddrWithFlags kb h h0, KeyBlob.adeFlag, beq_iff_eq]
      omega


theorem otfad_containsAddr_unit (kb : KeyBlob) (h : kb.WF) (a a' : Nat) (hu : a / 1024 = a' / 1024) :
    kb.containsAddr a = kb.containsAddr a' := by
  rw [Bool.eq_iff_iff, otfad_containsAddr_iff kb h, otfad_containsAddr_iff kb h, hu]

theorem otfad_isEncrypted_eq (kb : KeyBlob) (h : kb.WF) : kb.isEncrypted = (kb.vld && kb.adeFlag) := by
  have key : ∀ f < 8, ((f &&& (2 ||| 1)) == (2 ||| 1)) = (f % 2 == 1 && f / 2 % 2 == 1) := by decide
  simp only [KeyBlob.isEncrypted, KeyBlob.vld, KeyBlob.adeFlag, otfadFlagADE, otfadFlagVLD]
  exact key kb.flags h.flags_lt

theorem otfad_find?_congr {α : Type} (p q : α → Bool) : ∀ (l : List α), (∀ x ∈ l, p x = q x) → l.find? p = l.find? q
  | [], _ => rfl
  | x :: l, h => by
    simp only [List.find?_cons, h x List.mem_cons_self]
    rw [otfad_find?_congr p q l (fun y hy => h y (List.mem_cons_of_mem _ hy))]

/-- the blob that is active for an address depends on the 1 KiB unit of the address only -/
theorem otfad_active_unit (bs : List KeyBlob) (hwf : ∀ kb ∈ bs, kb.WF) (a a' : Nat) (hu : a / 1024 = a' / 1024) :
    otfadActive bs a = otfadActive bs a' := by
  unfold otfadActive
  apply otfad_find?_congr
  intro kb hkb
  rw [otfad_containsAddr_unit kb (hwf kb hkb) a a' hu]

/-! ### the specification: lengths, position independence -/

theorem otfad_encBlock_length (h : CryptoLaws c) (kb : KeyBlob) (swap : Bool) (cv : Nat) (blk : Bytes)
    (hb : blk.length = 16) : (kb.encBlock c swap cv blk).length = 16 := by
  unfold KeyBlob.encBlock
  cases swap
  · simp [ctrXor_length h, hb]
  · simp only [if_true]
    rw [swap8_length]
    rw [ctrXor_length h, swap8_length _ hb]

theorem otfad_specPiece_length (h : CryptoLaws c) (bs : List KeyBlob) (swap : Bool) (a : Nat) (p : Bytes)
    (h0 : 0 < p.length) (h16 : p.length ≤ 16) :
    p.length ≤ (otfadSpecPiece c bs swap a p).length ∧ (otfadSpecPiece c bs swap a p).length ≤ 16 := by
  unfold otfadSpecPiece
  split
  · rw [otfad_encBlock_length h _ _ _ _ (zeroPad16_length_piece p h0 h16)]; omega
  · omega

theorem otfad_blocksFor_succ (m : Bytes) (n : Nat) (h : n + 1 = blocksFor m.length) :
    0 < m.length ∧ n = blocksFor (m.drop 16).length := by
  simp only [blocksFor, List.length_drop] at *; omega

theorem otfad_spec_length_aux (h : CryptoLaws c) (bs : List KeyBlob) (swap : Bool) :
    ∀ (n a : Nat) (m : Bytes), n = blocksFor m.length →
      m.length ≤ (otfadSpec c bs swap n a m).length ∧ (otfadSpec c bs swap n a m).length ≤ 16 * n
  | 0, a, m, hn => by
    simp only [blocksFor] at hn
    have : m.length = 0 := by omega
    simp [otfadSpec, this]
  | n + 1, a, m, hn => by
    obtain ⟨h0, hn'⟩ := otfad_blocksFor_succ m n hn
    have ih := otfad_spec_length_aux h bs swap n (a + 16) (m.drop 16) hn'
    have hp := otfad_specPiece_length h bs swap a (m.take 16) (by simp; omega) (by simp; omega)
    simp only [otfadSpec, List.length_append]
    simp only [List.length_take, List.length_drop] at *
    omega

theorem otfad_spec_length (h : CryptoLaws c) (bs : List KeyBlob) (base : Nat) (img : Bytes) (swap : Bool) :
    img.length ≤ (otfadSpecImage c bs swap base img).length ∧
    (otfadSpecImage c bs swap base img).length ≤ (img.length + 15) / 16 * 16 := by
  have := otfad_spec_length_aux h bs swap (blocksFor img.length) base img rfl
  unfold otfadSpecImage
  simp only [blocksFor] at *
  omega

theorem otfad_specImage_length_aligned (h : CryptoLaws c) (bs : List KeyBlob) (base : Nat) (img : Bytes) (swap : Bool)
    (hl : img.length % 16 = 0) : (otfadSpecImage c bs swap base img).length = img.length := by
  have := otfad_spec_length h bs base img swap
  omega

theorem otfad_spec_append_aux (bs : List KeyBlob) (swap : Bool) :
    ∀ (k a : Nat) (p q : Bytes), p.length = 16 * k →
      otfadSpec c bs swap (blocksFor (p ++ q).length) a (p ++ q) =
        otfadSpec c bs swap k a p ++ otfadSpec c bs swap (blocksFor q.length) (a + p.length) q
  | 0, a, p, q, hp => by
    have : p = [] := List.eq_nil_of_length_eq_zero (by omega)
    subst this
    simp [otfadSpec]
  | k + 1, a, p, q, hp => by
    have hb : blocksFor (p ++ q).length = blocksFor (p.drop 16 ++ q).length + 1 := by
      simp only [blocksFor, List.length_append, List.length_drop]; omega
    have ht : (p ++ q).take 16 = p.take 16 := List.take_append_of_le_length (by omega)
    have hd : (p ++ q).drop 16 = p.drop 16 ++ q := List.drop_append_of_le_length (by omega)
    have ih := otfad_spec_append_aux bs swap k (a + 16) (p.drop 16) q (by simp; omega)
    have ha : a + 16 + (p.drop 16).length = a + p.length := by simp; omega
    rw [hb]
    simp only [otfadSpec]
    rw [ht, hd, ih, ha, List.append_assoc]

/-- the specification is position independent at 16-byte granularity -/
theorem otfad_spec_append (bs : List KeyBlob) (swap : Bool) (base : Nat) (p q : Bytes) (hp : p.length % 16 = 0) :
    otfadSpecImage c bs swap base (p ++ q) =
      otfadSpecImage c bs swap base p ++ otfadSpecImage c bs swap (base + p.length) q := by
  unfold otfadSpecImage
  have hk : blocksFor p.length = p.length / 16 := by simp only [blocksFor]; omega
  rw [hk]
  exact otfad_spec_append_aux bs swap (p.length / 16) base p q (by omega)

theorem otfad_spec_outside_aux (h : CryptoLaws c) (bs : List KeyBlob) (swap : Bool) :
    ∀ (n a : Nat) (m : Bytes), n = blocksFor m.length → ∀ i, i < m.length →
      otfadActive bs (a + i / 16 * 16) = none → (otfadSpec c bs swap n a m)[i]? = m[i]?
  | 0, a, m, hn, i, hi, _ => by
    simp only [blocksFor] at hn; omega
  | n + 1, a, m, hn, i, hi, hact => by
    obtain ⟨h0, hn'⟩ := otfad_blocksFor_succ m n hn
    have hp := otfad_specPiece_length h bs swap a (m.take 16) (by simp; omega) (by simp; omega)
    simp only [otfadSpec]
    by_cases hi16 : i < 16
    · have ha : a + i / 16 * 16 = a := by omega
      rw [ha] at hact
      have hpc : otfadSpecPiece c bs swap a (m.take 16) = m.take 16 := by
        simp only [otfadSpecPiece, hact]
      rw [hpc, List.getElem?_append_left (by simp; omega), List.getElem?_take_of_lt hi16]
    · have hlen : (otfadSpecPiece c bs swap a (m.take 16)).length = 16 := by
        simp only [List.length_take] at hp; omega
      have ha : a + 16 + (i - 16) / 16 * 16 = a + i / 16 * 16 := by omega
      have ih := otfad_spec_outside_aux h bs swap n (a + 16) (m.drop 16) hn' (i - 16) (by simp; omega)
        (by rw [ha]; exact hact)
      rw [List.getElem?_append_right (by omega), hlen, ih, List.getElem?_drop]
      congr 1; omega

/-- a byte whose own address lies in no window of an encrypting (ADE∧VLD) blob is left as it is -/
theorem otfad_spec_outside (h : CryptoLaws c) (bs : List KeyBlob) (hwf : ∀ kb ∈ bs, kb.WF)
    (base : Nat) (hb : base % 16 = 0) (img : Bytes) (swap : Bool) (i : Nat) (hi : i < img.length)
    (hout : ∀ kb ∈ bs, kb.isEncrypted = true → kb.containsAddr (base + i) = false) :
    (otfadSpecImage c bs swap base img)[i]? = img[i]? := by
  unfold otfadSpecImage
  apply otfad_spec_outside_aux h bs swap _ base img rfl i hi
  unfold otfadActive
  rw [List.find?_eq_none]
  intro kb hkb
  have hu : (base + i / 16 * 16) / 1024 = (base + i) / 1024 := by omega
  rw [otfad_containsAddr_unit kb (hwf kb hkb) _ _ hu]
  cases he : kb.isEncrypted
  · simp
  · simp [hout kb hkb he]


/-! ### the hardware side -/

theorem otfad_counter_eq (kb : KeyBlob) (h : kb.WF) (a : Nat) (ha : a % 16 = 0) :
    counterValue kb.ctrNonce a = kb.ctx.counter a := by
  have hl := h.ctr_len
  have ha' : a / 16 * 16 = a := by omega
  simp only [counterValue, KeyBlob.ctrNonce, OtfadCtx.counter, KeyBlob.ctx, ha']
  generalize kb.ctr = ct at hl
  match ct, hl with
  | [c0, c1, c2, c3, c4, c5, c6, c7], _ => simp [xorBytes, zeros, beDec]

theorem otfad_counter_length (kb : KeyBlob) (h : kb.WF) (a : Nat) : (kb.ctx.counter a).length = 16 := by
  simp [OtfadCtx.counter, KeyBlob.ctx, h.ctr_len, beEnc_length]

theorem otfad_find_ctx (bs : List KeyBlob) (hwf : ∀ kb ∈ bs, kb.WF) (a : Nat) :
    (bs.map KeyBlob.ctx).find? (fun x => x.hit a) =
      (bs.find? (fun kb => kb.vld && kb.containsAddr a)).map KeyBlob.ctx := by
  rw [List.find?_map]
  congr 1
  apply otfad_find?_congr
  intro kb hkb
  exact (otfad_ctx_range kb (hwf kb hkb) a).1

theorem otfad_overlaps_of_common (x y : KeyBlob) (a : Nat) (hx : (x.vld && x.containsAddr a) = true)
    (hy : (y.vld && y.containsAddr a) = true) : x.overlaps y = true := by
  simp only [KeyBlob.containsAddr, Bool.and_eq_true, bne_iff_ne, decide_eq_true_eq] at hx hy
  simp only [KeyBlob.overlaps, Bool.and_eq_true, bne_iff_ne, decide_eq_true_eq, Nat.max_le, Nat.le_min]
  refine ⟨⟨⟨⟨hx.1, hy.1⟩, hx.2.1.1⟩, hy.2.1.1⟩, ?_⟩
  omega

/-- among disjoint blobs the encrypting blob for an address is the (only) valid blob whose window holds it, if that
    one has ADE set -/
theorem otfad_active_of_vld : ∀ (bs : List KeyBlob), (∀ kb ∈ bs, kb.WF) → BlobsDisjoint bs → ∀ (a : Nat),
    otfadActive bs a =
      (bs.find? (fun kb => kb.vld && kb.containsAddr a)).bind (fun kb => if kb.adeFlag then some kb else none)
  | [], _, _, _ => rfl
  | x :: rest, hwf, hd, a => by
    have hx := hwf x List.mem_cons_self
    have hwf' : ∀ kb ∈ rest, kb.WF := fun y hy => hwf y (List.mem_cons_of_mem _ hy)
    obtain ⟨hxr, hd'⟩ := List.pairwise_cons.mp hd
    have ih := otfad_active_of_vld rest hwf' hd' a
    unfold otfadActive at ih ⊢
    simp only [List.find?_cons, otfad_isEncrypted_eq x hx]
    cases hv : (x.vld && x.containsAddr a)
    · have : (x.containsAddr a && (x.vld && x.adeFlag)) = false := by
        cases h1 : x.vld <;> cases h2 : x.containsAddr a <;> simp_all
      simp only [this, ih]
    · simp only [Bool.and_eq_true] at hv
      simp only [hv.1, hv.2, Bool.true_and, Option.bind_some]
      cases x.adeFlag
      · simp only [Bool.false_eq_true, if_false]
        rw [List.find?_eq_none]
        intro y hy
        have hxy := hxr y hy
        cases hyv : (y.vld && y.containsAddr a)
        · rw [otfad_isEncrypted_eq y (hwf' y hy)]
          cases h1 : y.vld <;> cases h2 : y.containsAddr a <;> simp_all
        · rw [otfad_overlaps_of_common x y a (by simp [hv.1, hv.2]) hyv] at hxy
          exact absurd hxy (by simp)
      · simp

theorem otfad_hw_encBlock (h : CryptoLaws c) (kb : KeyBlob) (hk : kb.WF) (swap : Bool) (a : Nat) (ha : a % 16 = 0)
    (z : Bytes) (hz : z.length = 16) :
    (if swap then swap8 (xorBytes (if swap then swap8 (kb.encBlock c swap a z) else kb.encBlock c swap a z)
        (c.encBlk kb.ctx.key (kb.ctx.counter a)))
      else xorBytes (if swap then swap8 (kb.encBlock c swap a z) else kb.encBlock c swap a z)
        (c.encBlk kb.ctx.key (kb.ctx.counter a))) = z := by
  have hcl := otfad_counter_length kb hk a
  have hkey : kb.ctx.key = kb.key := rfl
  have hK := h.enc_len kb.key (kb.ctx.counter a)
  unfold KeyBlob.encBlock
  rw [otfad_counter_eq kb hk a ha, hkey]
  cases swap
  · simp only [Bool.false_eq_true, if_false]
    rw [ctrXor_block c _ _ _ hcl hz, xorBytes_cancel_eq _ _ (by rw [hz, hK])]
  · simp only [if_true]
    have hs := swap8_length z hz
    rw [ctrXor_block c _ _ _ hcl hs, swap8_swap8 _ (by simp [hs, hK]),
      xorBytes_cancel_eq _ _ (by rw [hs, hK]), swap8_swap8 _ hz]

theorem otfad_hw_specPiece (h : CryptoLaws c) (bs : List KeyBlob) (hwf : ∀ kb ∈ bs, kb.WF) (hd : BlobsDisjoint bs)
    (swap : Bool) (a : Nat) (ha : a % 16 = 0) (p : Bytes) (h0 : 0 < p.length) (h16 : p.length ≤ 16) :
    otfadHw c (bs.map KeyBlob.ctx) swap a (otfadSpecPiece c bs swap a p) = p ∨
    otfadHw c (bs.map KeyBlob.ctx) swap a (otfadSpecPiece c bs swap a p) = zeroPad 16 p := by
  unfold otfadHw otfadSpecPiece
  rw [otfad_find_ctx bs hwf a, otfad_active_of_vld bs hwf hd a]
  cases hf : bs.find? (fun kb => kb.vld && kb.containsAddr a) with
  | none => left; simp
  | some kb =>
    have hk := hwf kb (List.mem_of_find?_eq_some hf)
    simp only [Option.map_some, Option.bind_some, (otfad_ctx_range kb hk a).2.1]
    cases hade : kb.adeFlag
    · left; simp
    · right
      simp only [if_true]
      exact otfad_hw_encBlock h kb hk swap a ha _ (zeroPad16_length_piece p h0 h16)

theorem otfad_hw_read_aux (h : CryptoLaws c) (bs : List KeyBlob) (hwf : ∀ kb ∈ bs, kb.WF) (hd : BlobsDisjoint bs)
    (swap : Bool) : ∀ (n a : Nat) (m : Bytes), n = blocksFor m.length → a % 16 = 0 →
      (otfadHwRead c (bs.map KeyBlob.ctx) swap n a (otfadSpec c bs swap n a m)).take m.length = m
  | 0, a, m, hn, _ => by
    simp only [blocksFor] at hn
    have : m.length = 0 := by omega
    simp [otfadHwRead, List.eq_nil_of_length_eq_zero this]
  | n + 1, a, m, hn, ha => by
    obtain ⟨h0, hn'⟩ := otfad_blocksFor_succ m n hn
    have hpl : 0 < (m.take 16).length := by simp; omega
    have hpu : (m.take 16).length ≤ 16 := by simp; omega
    have hp := otfad_specPiece_length h bs swap a (m.take 16) hpl hpu
    have hhw := otfad_hw_specPiece h bs hwf hd swap a ha (m.take 16) hpl hpu
    simp only [otfadSpec, otfadHwRead]
    by_cases hm : m.length ≤ 16
    · have hn0 : n = 0 := by
        simp only [blocksFor, List.length_drop] at hn'; omega
      subst hn0
      have hmt : m.take 16 = m := List.take_of_length_le hm
      rw [hmt] at hp hhw ⊢
      simp only [otfadSpec, otfadHwRead, List.append_nil]
      rw [List.take_of_length_le hp.2]
      rcases hhw with e | e
      · rw [e]; exact List.take_of_length_le (by omega)
      · rw [e]; exact zeroPad_take_self 16 m
    · have hlen : (otfadSpecPiece c bs swap a (m.take 16)).length = 16 := by
        simp only [List.length_take] at hp; omega
      have hzp : zeroPad 16 (m.take 16) = m.take 16 := zeroPad_of_aligned 16 _ (by simp; omega)
      have hhw' : otfadHw c (bs.map KeyBlob.ctx) swap a (otfadSpecPiece c bs swap a (m.take 16)) = m.take 16 := by
        rcases hhw with e | e
        · exact e
        · rw [e, hzp]
      have ih := otfad_hw_read_aux h bs hwf hd swap n (a + 16) (m.drop 16) hn' (by omega)
      rw [List.take_left' hlen, List.drop_left' hlen, hhw', List.take_append]
      have e1 : (m.take 16).take m.length = m.take 16 := List.take_of_length_le (by simp; omega)
      have e2 : m.length - (m.take 16).length = (m.drop 16).length := by simp; omega
      rw [e1, e2, ih, List.take_append_drop]

/-- the engine reading the specified ciphertext returns the plaintext (followed by the zero padding of a short last
    block inside a region) -/
theorem otfad_spec_hw (h : CryptoLaws c) (bs : List KeyBlob) (hwf : ∀ kb ∈ bs, kb.WF) (hd : BlobsDisjoint bs)
    (base : Nat) (hb : base % 16 = 0) (img : Bytes) (swap : Bool) :
    (otfadHwReadAll c (bs.map KeyBlob.ctx) swap base (otfadSpecImage c bs swap base img)).take img.length = img := by
  have hl := otfad_spec_length h bs base img swap
  have hbf : blocksFor (otfadSpecImage c bs swap base img).length = blocksFor img.length := by
    simp only [blocksFor]; omega
  unfold otfadHwReadAll
  rw [hbf]
  unfold otfadSpecImage
  exact otfad_hw_read_aux h bs hwf hd swap _ base img rfl hb


/-! ### the software side: blob loop on one 1 KiB unit -/

theorem otfad_zeroPad_take (m : Bytes) : (zeroPad 16 m).take 16 = zeroPad 16 (m.take 16) := by
  by_cases hm : 16 ≤ m.length
  · rw [zeroPad_of_aligned 16 (m.take 16) (by simp; omega)]
    unfold zeroPad
    exact List.take_append_of_le_length hm
  · rw [List.take_of_length_le (l := m) (by omega)]
    apply List.take_of_length_le
    rw [zeroPad_length]; omega

theorem otfad_zeroPad_drop (m : Bytes) : (zeroPad 16 m).drop 16 = zeroPad 16 (m.drop 16) := by
  by_cases hm : 16 ≤ m.length
  · unfold zeroPad
    rw [List.drop_append_of_le_length hm]
    congr 2
    simp only [List.length_drop]; omega
  · rw [List.drop_of_length_le (l := m) (by omega), zeroPad16_nil]
    apply List.drop_of_length_le
    rw [zeroPad_length]; omega

theorem otfad_encBlocks_spec (bs : List KeyBlob) (swap : Bool) (kb : KeyBlob) :
    ∀ (n a : Nat) (m : Bytes), n = blocksFor m.length → (∀ j, j < n → otfadActive bs (a + 16 * j) = some kb) →
      kb.encBlocks c swap n a (zeroPad 16 m) = otfadSpec c bs swap n a m
  | 0, _, _, _, _ => rfl
  | n + 1, a, m, hn, hact => by
    obtain ⟨h0, hn'⟩ := otfad_blocksFor_succ m n hn
    have ih := otfad_encBlocks_spec bs swap kb n (a + 16) (m.drop 16) hn'
      (fun j hj => by have := hact (j + 1) (by omega); rw [← this]; congr 1; omega)
    have ha0 := hact 0 (by omega)
    simp only [Nat.mul_zero, Nat.add_zero] at ha0
    simp only [KeyBlob.encBlocks, otfadSpec, otfadSpecPiece, ha0, otfadCtrIncrement]
    rw [otfad_zeroPad_take, otfad_zeroPad_drop, ih]

theorem otfad_spec_none (bs : List KeyBlob) (swap : Bool) :
    ∀ (n a : Nat) (m : Bytes), n = blocksFor m.length → (∀ j, j < n → otfadActive bs (a + 16 * j) = none) →
      otfadSpec c bs swap n a m = m
  | 0, _, m, hn, _ => by
    simp only [blocksFor] at hn
    have : m.length = 0 := by omega
    simp [otfadSpec, List.eq_nil_of_length_eq_zero this]
  | n + 1, a, m, hn, hact => by
    obtain ⟨h0, hn'⟩ := otfad_blocksFor_succ m n hn
    have ih := otfad_spec_none bs swap n (a + 16) (m.drop 16) hn'
      (fun j hj => by have := hact (j + 1) (by omega); rw [← this]; congr 1; omega)
    have ha0 := hact 0 (by omega)
    simp only [Nat.mul_zero, Nat.add_zero] at ha0
    simp only [otfadSpec, otfadSpecPiece, ha0]
    rw [ih, List.take_append_drop]

theorem otfad_blobsStep_none (swap : Bool) (base addr : Nat) (block : Bytes) :
    ∀ (bs : List KeyBlob) (data : Bytes),
      (∀ kb ∈ bs, (kb.matchesRange addr (addr + block.length - 1) && kb.isEncrypted) = false) →
      otfadBlobsStep c swap base addr block bs data = .ok data
  | [], _, _ => rfl
  | x :: rest, data, hno => by
    simp only [otfadBlobsStep, hno x List.mem_cons_self, Bool.false_eq_true, if_false]
    exact otfad_blobsStep_none swap base addr block rest data (fun y hy => hno y (List.mem_cons_of_mem _ hy))

theorem otfad_kb_encryptImage (kb : KeyBlob) (hk : kb.WF) (addr : Nat) (ha : addr % 16 = 0)
    (hc : kb.containsAddr addr = true) (block : Bytes) (swap : Bool) :
    kb.encryptImage c addr block swap (some addr) =
      .ok (kb.encBlocks c swap (blocksFor block.length) addr (zeroPad 16 block)) := by
  have hcv : (if addr = 0 then kb.start else addr) = addr := by
    split
    · next h0 =>
      simp only [KeyBlob.containsAddr, Bool.and_eq_true, decide_eq_true_eq] at hc
      omega
    · rfl
  have hlen : (zeroPad 16 block).length / 16 = blocksFor block.length := by
    rw [zeroPad16_length]; simp only [blocksFor]; omega
  simp only [KeyBlob.encryptImage, otfadEncBlockSize, hcv, hlen, hk.ctr_len, validAesKeyLen, hk.key_len]
  simp [ha]

theorem otfad_matchesRange_unit (kb : KeyBlob) (hk : kb.WF) (addr e : Nat) (hu : addr / 1024 = e / 1024) :
    kb.matchesRange addr e = kb.containsAddr addr := by
  simp [KeyBlob.matchesRange, ← otfad_containsAddr_unit kb hk addr e hu]

theorem otfad_blobsStep_unit (swap : Bool) (base addr : Nat) (ha : addr % 16 = 0) (block : Bytes)
    (hu : addr / 1024 = (addr + block.length - 1) / 1024) :
    ∀ (bs : List KeyBlob), (∀ kb ∈ bs, kb.WF) → BlobsDisjoint bs → ∀ (data : Bytes),
      otfadBlobsStep c swap base addr block bs data =
        .ok (match otfadActive bs addr with
          | none => data
          | some kb => sliceAssign data (addr - base) (block.length + addr - base)
              (kb.encBlocks c swap (blocksFor block.length) addr (zeroPad 16 block)))
  | [], _, _, _ => rfl
  | x :: rest, hwf, hd, data => by
    have hx := hwf x List.mem_cons_self
    have hwf' : ∀ kb ∈ rest, kb.WF := fun y hy => hwf y (List.mem_cons_of_mem _ hy)
    obtain ⟨hxr, hd'⟩ := List.pairwise_cons.mp hd
    simp only [otfadBlobsStep, otfadActive, List.find?_cons, otfad_matchesRange_unit x hx addr _ hu]
    cases hcond : (x.containsAddr addr && x.isEncrypted)
    · simp only [Bool.false_eq_true, if_false]
      exact otfad_blobsStep_unit swap base addr ha block hu rest hwf' hd' data
    · simp only [Bool.and_eq_true] at hcond
      simp only [if_true, otfad_kb_encryptImage x hx addr ha hcond.1]
      apply otfad_blobsStep_none
      intro y hy
      have hy' := hwf' y hy
      rw [otfad_matchesRange_unit y hy' addr _ hu]
      cases hyc : (y.containsAddr addr && y.isEncrypted)
      · rfl
      · exfalso
        have hxy := hxr y hy
        rw [otfad_isEncrypted_eq y hy'] at hyc
        have hxe := hcond.2
        rw [otfad_isEncrypted_eq x hx] at hxe
        simp only [Bool.and_eq_true] at hyc hxe
        rw [otfad_overlaps_of_common x y addr (by simp [hxe.1, hcond.1]) (by simp [hyc.1, hyc.2.1])] at hxy
        exact absurd hxy (by simp)

/-- one block that lies inside one 1 KiB unit: the blob loop writes the specified bytes over the block -/
theorem otfad_blobsStep_spec (bs : List KeyBlob) (hwf : ∀ kb ∈ bs, kb.WF) (hd : BlobsDisjoint bs) (swap : Bool)
    (base addr : Nat) (hab : base ≤ addr) (ha : addr % 16 = 0) (done block tail : Bytes)
    (hdone : done.length = addr - base) (h0 : 0 < block.length) (hu : addr % 1024 + block.length ≤ 1024) :
    otfadBlobsStep c swap base addr block bs (done ++ (block ++ tail)) =
      .ok (done ++ otfadSpecImage c bs swap addr block ++ tail) := by
  have hu' : addr / 1024 = (addr + block.length - 1) / 1024 := by omega
  have hunit : ∀ j, j < blocksFor block.length → otfadActive bs (addr + 16 * j) = otfadActive bs addr := by
    intro j hj
    apply otfad_active_unit bs hwf
    simp only [blocksFor] at hj
    omega
  rw [otfad_blobsStep_unit swap base addr ha block hu' bs hwf hd]
  unfold otfadSpecImage
  cases hact : otfadActive bs addr with
  | none =>
    simp only
    rw [otfad_spec_none bs swap _ addr block rfl (fun j hj => by rw [hunit j hj, hact]), List.append_assoc]
  | some kb =>
    simp only
    have e1 : addr - base = done.length := hdone.symm
    have e2 : block.length + addr - base = block.length + done.length := by omega
    rw [e1, e2, sliceAssign_prefix, List.drop_left,
      otfad_encBlocks_spec bs swap kb _ addr block rfl (fun j hj => by rw [hunit j hj, hact])]

/-! ### the software side: walk over the 1 KiB units -/

theorem otfad_loop_nil (bs : List KeyBlob) (swap : Bool) (base : Nat) :
    ∀ (f addr : Nat) (data : Bytes), otfadLoop c bs swap base f addr [] data = .ok data
  | 0, _, _ => rfl
  | _ + 1, _, _ => by simp [otfadLoop]

theorem otfad_specImage_nil (bs : List KeyBlob) (swap : Bool) (a : Nat) : otfadSpecImage c bs swap a [] = [] := by
  simp [otfadSpecImage, blocksFor, otfadSpec]

theorem otfad_loop_spec (h : CryptoLaws c) (bs : List KeyBlob) (hwf : ∀ kb ∈ bs, kb.WF) (hd : BlobsDisjoint bs)
    (swap : Bool) (base : Nat) :
    ∀ (f addr : Nat) (rest done : Bytes), rest.length ≤ f → addr % 1024 = 0 → base ≤ addr →
      done.length = addr - base →
      otfadLoop c bs swap base f addr rest (done ++ rest) = .ok (done ++ otfadSpecImage c bs swap addr rest)
  | 0, addr, rest, done, hf, _, _, _ => by
    have : rest = [] := List.eq_nil_of_length_eq_zero (by omega)
    subst this
    simp [otfadLoop, otfad_specImage_nil]
  | f + 1, addr, rest, done, hf, ha, hab, hdone => by
    by_cases hne : rest = []
    · subst hne
      simp [otfad_loop_nil, otfad_specImage_nil]
    · have hpos : 0 < rest.length := List.length_pos_iff.mpr hne
      have hemp : rest.isEmpty = false := by simpa using hne
      have hsplit : done ++ rest = done ++ (rest.take 1024 ++ rest.drop 1024) := by rw [List.take_append_drop]
      have hstep := otfad_blobsStep_spec (c := c) bs hwf hd swap base addr hab (by omega) done (rest.take 1024)
        (rest.drop 1024) hdone (by simp; omega) (by simp; omega)
      simp only [otfadLoop, hemp, Bool.false_eq_true, if_false, otfadDataUnit]
      rw [hsplit, hstep]
      simp only
      by_cases htail : rest.drop 1024 = []
      · have hblock : rest.take 1024 = rest := by
          have := List.take_append_drop 1024 rest
          rw [htail, List.append_nil] at this
          exact this
        rw [htail, otfad_loop_nil, hblock, List.append_nil]
      · have htl : 0 < (rest.drop 1024).length := List.length_pos_iff.mpr htail
        have hbl : (rest.take 1024).length = 1024 := by
          simp only [List.length_drop] at htl
          simp; omega
        have hsl := otfad_specImage_length_aligned h bs addr (rest.take 1024) swap (by omega)
        have ih := otfad_loop_spec h bs hwf hd swap base f (addr + (rest.take 1024).length) (rest.drop 1024)
          (done ++ otfadSpecImage c bs swap addr (rest.take 1024)) (by simp; omega) (by omega) (by omega)
          (by simp [hsl, hbl]; omega)
        rw [ih, List.append_assoc, ← otfad_spec_append bs swap addr _ _ (by omega), List.take_append_drop]

/-- REFINEMENT: the code computes the block-wise specification -/
theorem otfad_refines_spec (h : CryptoLaws c) (bs : List KeyBlob) (hwf : ∀ kb ∈ bs, kb.WF) (hd : BlobsDisjoint bs)
    (base : Nat) (hb : base % 16 = 0) (img : Bytes) (swap : Bool) :
    Otfad.encryptImage c bs img base swap = .ok (otfadSpecImage c bs swap base img) := by
  unfold Otfad.encryptImage
  simp only [otfadDataUnit]
  by_cases himg : img = []
  · subst himg
    simp [firstLen, otfad_loop_nil, otfad_specImage_nil]
  have hpos : 0 < img.length := List.length_pos_iff.mpr himg
  by_cases hfl : firstLen 1024 base img.length = 0
  · have hb1024 : base % 1024 = 0 := by
      simp only [firstLen] at hfl; omega
    have := otfad_loop_spec h bs hwf hd swap base img.length base img [] (by omega) hb1024 (by omega) (by simp)
    simpa [hfl] using this
  · have hfl_le : firstLen 1024 base img.length ≤ img.length := by simp only [firstLen]; omega
    have hstep := otfad_blobsStep_spec (c := c) bs hwf hd swap base base (by omega) hb []
      (img.take (firstLen 1024 base img.length)) (img.drop (firstLen 1024 base img.length)) (by simp)
      (by simp; omega) (by simp [firstLen]; omega)
    simp only [List.nil_append, List.take_append_drop] at hstep
    simp only [hfl, if_false, hstep]
    by_cases htail : img.drop (firstLen 1024 base img.length) = []
    · have hblock : img.take (firstLen 1024 base img.length) = img := by
        have := List.take_append_drop (firstLen 1024 base img.length) img
        rw [htail, List.append_nil] at this
        exact this
      rw [htail, otfad_loop_nil, hblock, List.append_nil]
    · have htl : 0 < (img.drop (firstLen 1024 base img.length)).length := List.length_pos_iff.mpr htail
      simp only [List.length_drop] at htl
      have hfv : firstLen 1024 base img.length = (1024 - base % 1024) % 1024 := by
        simp only [firstLen] at htl ⊢; omega
      have hbl : (img.take (firstLen 1024 base img.length)).length = firstLen 1024 base img.length := by
        simp; omega
      have hsl := otfad_specImage_length_aligned h bs base (img.take (firstLen 1024 base img.length)) swap
        (by rw [hbl, hfv]; omega)
      have ih := otfad_loop_spec h bs hwf hd swap base img.length (base + firstLen 1024 base img.length)
        (img.drop (firstLen 1024 base img.length))
        (otfadSpecImage c bs swap base (img.take (firstLen 1024 base img.length))) (by simp)
        (by rw [hfv]; omega) (by omega) (by rw [hsl, hbl]; omega)
      rw [ih]
      have := otfad_spec_append (c := c) bs swap base (img.take (firstLen 1024 base img.length))
        (img.drop (firstLen 1024 base img.length)) (by rw [hbl, hfv]; omega)
      rw [hbl, List.take_append_drop] at this
      rw [this]

end SpsdkVerif.FlashEnc
