/-
C18 — non-vacuity of the hypothesis `PickleOK`: a concrete (computable) codec satisfies it.

A `Val` is serialised as the list of numbers `[ty, fp, k₁, c₁, k₂, c₂, …]`, each number `n` in unary
(`n` zeros, then a `1`), terminated by a single `2`.  Every dump ends with its only `2`, so a strict
prefix of a dump contains no `2` and is not a dump; the empty file is not a dump either.
-/
import SpsdkVerif.Proofs.DbCacheSpec

namespace SpsdkVerif.DbCache.Codec
open SpsdkVerif SpsdkVerif.DbCache

def unary (n : Nat) : Bytes := List.replicate n 0 ++ [1]

def encNums : List Nat → Bytes
  | [] => []
  | n :: ns => unary n ++ encNums ns

def flat : List (Nat × Nat) → List Nat
  | [] => []
  | (k, c) :: r => k :: c :: flat r

def unflat : List Nat → List (Nat × Nat)
  | k :: c :: r => (k, c) :: unflat r
  | _ => []

def nums (v : Val) : List Nat := v.ty :: v.fp :: flat v.ents

def ofNums : List Nat → Val
  | ty :: fp :: r => { ty := ty, fp := fp, ents := unflat r }
  | _ => default

def enc (v : Val) : Bytes := encNums (nums v) ++ [2]

/-- read unary numbers up to the first byte that is neither `0` nor `1` -/
def decNums : Nat → Bytes → List Nat
  | _, [] => []
  | acc, x :: xs => if x = 0 then decNums (acc + 1) xs else if x = 1 then acc :: decNums 0 xs else []

def dec (b : Bytes) : Outcome :=
  let v := ofNums (decNums 0 b)
  if enc v = b then .ok v else .raises .EOFError

theorem unflat_flat : ∀ e : List (Nat × Nat), unflat (flat e) = e
  | [] => rfl
  | (k, c) :: r => by simp [flat, unflat, unflat_flat r]

theorem ofNums_nums (v : Val) : ofNums (nums v) = v := by
  simp [nums, ofNums, unflat_flat]

theorem decNums_unary (n : Nat) : ∀ (acc : Nat) (rest : Bytes),
    decNums acc (unary n ++ rest) = (acc + n) :: decNums 0 rest := by
  induction n with
  | zero => intro acc rest; simp [unary, decNums]
  | succ n ih =>
    intro acc rest
    have := ih (acc + 1) rest
    simp only [unary, List.replicate_succ, List.cons_append, decNums, if_true] at this ⊢
    rw [this]; congr 1; omega

theorem decNums_enc : ∀ ns : List Nat, decNums 0 (encNums ns ++ [2]) = ns
  | [] => by simp [encNums, decNums]
  | n :: ns => by
    simp only [encNums, List.append_assoc]
    rw [decNums_unary, decNums_enc ns]; simp

theorem dec_enc (v : Val) : dec (enc v) = .ok v := by
  have h : ofNums (decNums 0 (enc v)) = v := by
    unfold enc; rw [decNums_enc, ofNums_nums]
  simp [dec, h]

theorem two_not_mem_encNums : ∀ ns : List Nat, (2 : UInt8) ∉ encNums ns
  | [] => by simp [encNums]
  | n :: ns => by
    have := two_not_mem_encNums ns
    simp only [encNums, unary, List.mem_append, List.mem_replicate, List.mem_singleton, not_or]
    refine ⟨⟨?_, ?_⟩, this⟩
    · intro h; exact absurd h.2 (by decide)
    · decide

theorem two_mem_enc (v : Val) : (2 : UInt8) ∈ enc v := by simp [enc]

theorem dec_of_not_mem (b : Bytes) (h : (2 : UInt8) ∉ b) : dec b = .raises .EOFError := by
  unfold dec
  simp only
  split
  · rename_i he
    exact absurd (he ▸ two_mem_enc _) h
  · rfl

theorem dec_prefix (v : Val) (n : Nat) (hn : n < (enc v).length) :
    dec ((enc v).take n) = .raises .EOFError := by
  apply dec_of_not_mem
  have hlen : n ≤ (encNums (nums v)).length := by
    simp [enc] at hn; omega
  have : (enc v).take n = (encNums (nums v)).take n := by
    unfold enc; rw [List.take_append_of_le_length hlen]
  rw [this]
  intro h
  exact two_not_mem_encNums _ (List.mem_of_mem_take h)

/-- the codec as an environment (the other components are irrelevant for `PickleOK`) -/
def codecEnv : Env :=
  { pickle := enc, unpickle := dec, loadCfg := fun k => k, fpOf := fun ks => ks.length, expectedTy := 0,
    garbage := [] }

theorem codec_pickleOK : PickleOK codecEnv [Exc.EOFError, Exc.UnpicklingError] where
  roundtrip := dec_enc
  prefix_raises := fun v n hn => ⟨.EOFError, dec_prefix v n hn, by simp⟩
  empty_raises := ⟨.EOFError, dec_of_not_mem [] (by simp), by simp⟩

end SpsdkVerif.DbCache.Codec

namespace SpsdkVerif.DbCache

/-- `PickleOK` is satisfiable (for the measured classes of `Properties/C18.lean`). -/
theorem pickleOK_inhabited : ∃ env : Env, PickleOK env [Exc.EOFError, Exc.UnpicklingError] :=
  ⟨Codec.codecEnv, Codec.codec_pickleOK⟩

end SpsdkVerif.DbCache
