/-
C02, negative side for encrypted images, as REDUCTIONS (`Break co`): a changed byte of the first 64 bytes (not a layout word)
that is still accepted is an HMAC forgery; a changed ciphertext byte of the application behind the HMAC / key-store block
that is still accepted with the RSA obligation holding is a signature forgery (the signature is over the ciphertext image).
-/
import SpsdkVerif.Proofs.MbiRomEnc
import SpsdkVerif.Crypto.Break

namespace SpsdkVerif.Mbi
open SpsdkVerif SpsdkVerif.Misc SpsdkVerif.Crypto
open SpsdkVerif.Generated.IvtConsts

variable {co : CryptoOps} {env : Env} {c : Cls} {cfg : Cfg} {signer : Signer}

theorem tamper_rejected_encrypted_header (h : Hyp co env c cfg signer) (hf : c.family = some .encrypted) (ht : signedTypeOk c = true)
    (rkth : Bytes) (certs : List (Nat × Nat)) (table : List Bytes)
    (hrom : RomCertV1OK co (romEnvOf c rkth cfg.hmacKey) cfg.cert certs table) :
    ∃ e, exportImage co c cfg signer = .ok e
      ∧ ∀ (i : Nat) (y : UInt8), i < hmacOffset → ¬ layoutWord i → e[i]? ≠ some y →
          ∀ a, Spec.MbiRom.romCheck co (romEnvOf c rkth cfg.hmacKey) (e.set i y) = .ok a → Break co := by
  sorry

theorem tamper_rejected_encrypted (h : Hyp co env c cfg signer) (hf : c.family = some .encrypted) (ht : signedTypeOk c = true)
    (rkth : Bytes) (certs : List (Nat × Nat)) (table : List Bytes)
    (hrom : RomCertV1OK co (romEnvOf c rkth cfg.hmacKey) cfg.cert certs table)
    (alg : SigAlg) (sk : PrivKey) (r : Rand) (certPub : Bytes → PubKey)
    (hsigner : signer = fun m => co.sign alg sk m r)
    (hpub : ∀ last, certs.getLast? = some last → certPub (slice (certInImage c cfg) last.1 (last.1 + last.2)) = co.pubOf sk) :
    ∃ e, exportImage co c cfg signer = .ok e
      ∧ ∀ (i : Nat) (y : UInt8),
          (let strip := hmacSize + (cfg.keyStore.getD []).length
           hmacOffset + strip ≤ i ∧ i - strip < appLen c cfg) → e[i]? ≠ some y →
          ∀ a, Spec.MbiRom.romCheck co (romEnvOf c rkth cfg.hmacKey) (e.set i y) = .ok a →
            (∀ ob ∈ a.obligations, holdsRsa co alg certPub (encBodyOf cfg (e.set i y)) ob) → Break co := by
  sorry

end SpsdkVerif.Mbi
