/-
C02, negative side for encrypted images, as REDUCTIONS (`Break co`): a changed byte of the first 64 bytes (not a layout word)
that is still accepted is an HMAC forgery; a changed ciphertext byte of the application behind the HMAC / key-store block
that is still accepted with the RSA obligation holding is a signature forgery (the signature is over the ciphertext image).
-/
import SpsdkVerif.Proofs.MbiRomEnc
import SpsdkVerif.Crypto.Break

namespace SpsdkVerif.Mbi
open SpsdkVerif SpsdkVerif.Misc SpsdkVerif.Crypto
open SpsdkVerif.Generated.IvtConsts

variable {co : CryptoOps} {env : Env} {c : Cls} {cfg : Cfg} {signer : Signer}


/-! ### inversion of the ROM's monadic checks -/

theorem romneg_bind {α β : Type} {x : Spec.MbiRom.Rom α} {f : α → Spec.MbiRom.Rom β} {b : β} (h : (x >>= f) = .ok b) :
    ∃ r, x = .ok r ∧ f r = .ok b := by
  cases x with
  | error e => simp [bind, Except.bind] at h
  | ok r => exact ⟨r, rfl, h⟩

theorem romneg_need {β : Type} {cnd : Bool} {w : String} {f : Unit → Spec.MbiRom.Rom β} {b : β}
    (h : (Spec.MbiRom.need cnd w >>= f) = .ok b) : cnd = true ∧ f () = .ok b := by
  cases cnd with
  | false => simp [Spec.MbiRom.need, bind, Except.bind] at h
  | true => exact ⟨rfl, h⟩

/-- an accepted image of the encrypted type went through `romHmac` and `romEncrypted` -/
theorem romneg_romCheck_inv (renv : Spec.MbiRom.RomEnv) (img : Bytes) (a : Spec.MbiRom.Accepted)
    (ht : Spec.MbiRom.rd32 img Spec.MbiRom.offFlags &&& Spec.MbiRom.maskImageType = 3)
    (h : Spec.MbiRom.romCheck co renv img = .ok a) :
    ∃ body strip ks, Spec.MbiRom.romHmac co renv img = .ok (body, strip, ks)
      ∧ Spec.MbiRom.romEncrypted co renv body strip ks = .ok a := by
  unfold Spec.MbiRom.romCheck at h
  obtain ⟨_, h⟩ := romneg_need h
  simp only [ht] at h
  obtain ⟨_, h⟩ := romneg_need h
  obtain ⟨_, h⟩ := romneg_need h
  have e0 : ((3 : Nat) == Spec.MbiRom.typePlain) = false := by decide
  have e1 : ((3 : Nat) == Spec.MbiRom.typeCrcRam) = false := by decide
  have e2 : ((3 : Nat) == Spec.MbiRom.typeCrcXip) = false := by decide
  have e3 : ((3 : Nat) == Spec.MbiRom.typeSignedRam) = false := by decide
  have e4 : ((3 : Nat) == Spec.MbiRom.typeSignedXip) = false := by decide
  have e5 : ((3 : Nat) == Spec.MbiRom.typeSignedXipNxp) = false := by decide
  have e6 : ((3 : Nat) == Spec.MbiRom.typeEncryptedRam) = true := by decide
  simp only [e0, e1, e2, e3, e4, e5, e6, Bool.false_eq_true, or_self, if_false, if_true] at h
  obtain ⟨_, h⟩ := romneg_need h
  obtain ⟨⟨body, strip, ks⟩, h1, h2⟩ := romneg_bind h
  exact ⟨body, strip, ks, h1, h2⟩

theorem romneg_romHmac_inv (renv : Spec.MbiRom.RomEnv) (img body : Bytes) (strip : Nat) (ks : Bool) (k : Bytes)
    (huk : renv.userKey = some k) (h : Spec.MbiRom.romHmac co renv img = .ok (body, strip, ks)) :
    ks = (Spec.MbiRom.rd32 img Spec.MbiRom.offFlags &&& Spec.MbiRom.flagKeyStore != 0)
    ∧ strip = Spec.MbiRom.hmacSize + (if ks then Spec.MbiRom.keyStoreSize else 0)
    ∧ Spec.MbiRom.sub img Spec.MbiRom.hmacOffset (Spec.MbiRom.hmacOffset + Spec.MbiRom.hmacSize)
        = hmac co .sha256 (ecbEnc co k Spec.MbiRom.hmacKeyDerivation) (img.take Spec.MbiRom.hmacOffset)
    ∧ body = img.take Spec.MbiRom.hmacOffset ++ img.drop (Spec.MbiRom.hmacOffset + strip) := by
  unfold Spec.MbiRom.romHmac at h
  obtain ⟨_, h⟩ := romneg_need h
  simp only [huk] at h
  obtain ⟨_, h⟩ := romneg_need h
  obtain ⟨h3, h⟩ := romneg_need h
  have h := Except.ok.inj h
  simp only [Prod.mk.injEq] at h
  obtain ⟨hb, hs, hk⟩ := h
  subst hk
  subst hs
  exact ⟨rfl, rfl, by simpa using h3, hb.symm⟩

theorem romneg_romEncrypted_inv (renv : Spec.MbiRom.RomEnv) (body : Bytes) (strip : Nat) (ks : Bool) (a : Spec.MbiRom.Accepted)
    (h : Spec.MbiRom.romEncrypted co renv body strip ks = .ok a) :
    ∃ ci last, Spec.MbiRom.romCertV1 co renv body (Spec.MbiRom.rd32 body Spec.MbiRom.offCrcOrCert) = .ok ci
      ∧ ci.certs.getLast? = some last
      ∧ a.obligations = [.x509Chain ci.certs ci.table, .rsaByCert last ci.imageLength] := by
  unfold Spec.MbiRom.romEncrypted at h
  obtain ⟨_, h⟩ := romneg_need h
  obtain ⟨ci, hci, h⟩ := romneg_bind h
  obtain ⟨_, h⟩ := romneg_need h
  refine ⟨ci, ?_⟩
  split at h
  · rename_i k last _ hl
    obtain ⟨_, h⟩ := romneg_need h
    have h := Except.ok.inj h
    subst h
    exact ⟨last, hci, hl, rfl⟩
  · exact absurd h (by simp)

theorem romneg_certEntries_bound (body : Bytes) :
    ∀ (n off limit : Nat) (l : List (Nat × Nat)) (e : Nat), Spec.MbiRom.certEntries body n off limit = .ok (l, e) →
      ∀ q ∈ l, q.1 + q.2 ≤ limit := by
  intro n
  induction n with
  | zero =>
    intro off limit l e h q hq
    simp only [Spec.MbiRom.certEntries] at h
    have h := Except.ok.inj h
    simp only [Prod.mk.injEq] at h
    rw [← h.1] at hq
    simp at hq
  | succ n ih =>
    intro off limit l e h q hq
    unfold Spec.MbiRom.certEntries at h
    obtain ⟨_, h⟩ := romneg_need h
    obtain ⟨h2, h⟩ := romneg_need h
    obtain ⟨⟨rest, e'⟩, hr, h⟩ := romneg_bind h
    have h := Except.ok.inj h
    simp only [Prod.mk.injEq] at h
    rw [← h.1] at hq
    rcases List.mem_cons.mp hq with rfl | hq
    · simp only [decide_eq_true_eq] at h2
      simp only
      omega
    · exact ih _ _ _ _ hr q hq

theorem romneg_romCertV1_bound (renv : Spec.MbiRom.RomEnv) (body : Bytes) (off : Nat) (ci : Spec.MbiRom.CertV1Info)
    (h : Spec.MbiRom.romCertV1 co renv body off = .ok ci) : ∀ q ∈ ci.certs, q.1 + q.2 ≤ body.length := by
  unfold Spec.MbiRom.romCertV1 at h
  obtain ⟨_, h⟩ := romneg_need h
  obtain ⟨_, h⟩ := romneg_need h
  obtain ⟨_, h⟩ := romneg_need h
  obtain ⟨_, h⟩ := romneg_need h
  obtain ⟨_, h⟩ := romneg_need h
  obtain ⟨⟨certs, tblEnd⟩, hce, h⟩ := romneg_bind h
  obtain ⟨h1, h⟩ := romneg_need h
  obtain ⟨h2, h⟩ := romneg_need h
  obtain ⟨_, h⟩ := romneg_need h
  have h := Except.ok.inj h
  subst h
  intro q hq
  have := romneg_certEntries_bound body _ _ _ _ _ hce q hq
  simp only [beq_iff_eq, decide_eq_true_eq] at h1 h2
  simp only at hq ⊢
  omega


/-! ### a changed byte -/

theorem romneg_rd32_set (l : Bytes) (i off : Nat) (y : UInt8) (h : i < off ∨ off + 4 ≤ i) :
    Spec.MbiRom.rd32 (l.set i y) off = Spec.MbiRom.rd32 l off := by
  unfold Spec.MbiRom.rd32
  rcases h with h | h
  · rw [List.drop_set_of_lt h]
  · rw [List.drop_set, if_neg (by omega), List.take_set_of_le (by omega)]

theorem romneg_slice_set (l : Bytes) (i a b : Nat) (y : UInt8) (h : i < a ∨ b ≤ i) :
    slice (l.set i y) a b = slice l a b := by
  unfold slice
  rcases h with h | h
  · rw [List.take_set, List.drop_set_of_lt h]
  · rw [List.take_set_of_le h]

theorem romneg_set_ne (l : Bytes) (i : Nat) (y : UInt8) (hi : i < l.length) (h : l[i]? ≠ some y) : l ≠ l.set i y := by
  intro e
  apply h
  rw [e]
  exact List.getElem?_set_self hi

theorem romneg_slice_mid (X C Y : Bytes) (a b : Nat) (hb : b ≤ C.length) :
    slice (X ++ C ++ Y) (X.length + a) (X.length + b) = slice C a b := by
  unfold slice
  rw [List.append_assoc, List.take_append, List.take_of_length_le (by omega), Nat.add_sub_cancel_left,
    List.drop_append, List.drop_of_length_le (by omega), List.nil_append, Nat.add_sub_cancel_left,
    List.take_append_of_le_length hb]


theorem romneg_slice_mid' (X C Y : Bytes) (n a b : Nat) (hn : X.length = n) (hb : b ≤ C.length) :
    slice (X ++ C ++ Y) (n + a) (n + b) = slice C a b := by
  subst hn; exact romneg_slice_mid X C Y a b hb


/-! ### the two reductions -/

theorem romneg_type3 (hc : EncCls c) (hk : EncCfg c cfg) (hf : c.family = some .encrypted) (ht : signedTypeOk c = true) :
    flagsOf c cfg &&& Spec.MbiRom.maskImageType = 3 := by
  have hty : c.imageType = 3 := by
    unfold signedTypeOk at ht
    simpa [hc.hsign, hf] using ht
  have := romenc_imageType hc hk
  rw [hty] at this
  exact (rom_type _).trans this

theorem tamper_rejected_encrypted_header (h : Hyp co env c cfg signer) (hf : c.family = some .encrypted) (ht : signedTypeOk c = true)
    (rkth : Bytes) (certs : List (Nat × Nat)) (table : List Bytes)
    (hrom : RomCertV1OK co (romEnvOf c rkth cfg.hmacKey) cfg.cert certs table) :
    ∃ e, exportImage co c cfg signer = .ok e
      ∧ ∀ (i : Nat) (y : UInt8), i < hmacOffset → ¬ layoutWord i → e[i]? ≠ some y →
          ∀ a, Spec.MbiRom.romCheck co (romEnvOf c rkth cfg.hmacKey) (e.set i y) = .ok a → Break co := by
  have hc := encCls h.hcls hf
  have hk := encCfg hc h.hcfg
  have hn := encLens h.hlaws hc hk signer h.hsig
  obtain ⟨k, hk1, _⟩ := hk.hhmac
  have huk : (romEnvOf c rkth cfg.hmacKey).userKey = some k := hk1
  refine ⟨_, encrypted_export h.hlaws hc hk signer, ?_⟩
  intro i y hi hlw hne a H
  have hlw' : i < 36 ∨ 36 + 4 ≤ i := by
    unfold layoutWord at hlw
    simp only [hmacOffset] at hi
    omega
  have hflags : Spec.MbiRom.rd32 ((encImg co c cfg signer).set i y) Spec.MbiRom.offFlags = flagsOf c cfg := by
    rw [show Spec.MbiRom.offFlags = 36 from rfl, romneg_rd32_set _ _ _ _ hlw']
    exact romenc_flags h.hlaws hc hk signer
  obtain ⟨body, strip, ks, hH, _⟩ := romneg_romCheck_inv _ _ _ (by rw [hflags]; exact romneg_type3 hc hk hf ht) H
  obtain ⟨_, _, hm', _⟩ := romneg_romHmac_inv _ _ _ _ _ k huk hH
  obtain ⟨_, _, hm, _⟩ := romneg_romHmac_inv _ _ _ _ _ k huk (romenc_romHmac h.hlaws hc hk hn rkth)
  rw [romenc_sub, romneg_slice_set _ _ _ _ _ (Or.inl (by simpa [Spec.MbiRom.hmacOffset, hmacOffset] using hi)),
    ← romenc_sub, hm] at hm'
  have hlen : i < (encImg co c cfg signer).length := by
    have := encImg_len hn
    have := hn.hL
    simp only [hmacOffset] at *
    omega
  refine Break.hmacForgery .sha256 _ _ _ ?_ hm'
  rw [List.take_set]
  apply romneg_set_ne
  · rw [List.length_take]; simp only [Spec.MbiRom.hmacOffset, hmacOffset] at *; omega
  · rw [List.getElem?_take_of_lt (by simpa [Spec.MbiRom.hmacOffset, hmacOffset] using hi)]
    exact hne


/-- the certificates the ROM finds lie inside the block -/
theorem romneg_cert_inside (hk : EncCfg c cfg) (renv : Spec.MbiRom.RomEnv) (certs : List (Nat × Nat)) (table : List Bytes)
    (hrom : RomCertV1OK co renv cfg.cert certs table) : ∀ p ∈ certs, p.1 + p.2 ≤ cfg.cert.length := by
  intro p hp
  have hl : (certSetImageLength cfg.cert 0).length = cfg.cert.length := by
    unfold certSetImageLength
    apply setAt_length
    have := hk.hcertLen
    simp only [le32_length, certImageLengthOffset, certHeaderSize] at *
    omega
  have hat : certAt (certSetImageLength cfg.cert 0) (certSetImageLength cfg.cert 0) 0 := by
    unfold certAt
    rw [romenc_sub]
    unfold slice
    simp
  obtain ⟨ci, hci, hcerts, _⟩ := hrom.2 _ 0 0 hat (by decide)
  have := romneg_romCertV1_bound _ _ _ _ hci (0 + p.1, p.2) (by rw [hcerts]; exact List.mem_map.mpr ⟨p, hp, rfl⟩)
  rw [hl] at this
  simpa using this

theorem tamper_rejected_encrypted (h : Hyp co env c cfg signer) (hf : c.family = some .encrypted) (ht : signedTypeOk c = true)
    (rkth : Bytes) (certs : List (Nat × Nat)) (table : List Bytes)
    (hrom : RomCertV1OK co (romEnvOf c rkth cfg.hmacKey) cfg.cert certs table)
    (alg : SigAlg) (sk : PrivKey) (r : Rand) (certPub : Bytes → PubKey)
    (hsigner : signer = fun m => co.sign alg sk m r)
    (hpub : ∀ last, certs.getLast? = some last → certPub (slice (certInImage c cfg) last.1 (last.1 + last.2)) = co.pubOf sk) :
    ∃ e, exportImage co c cfg signer = .ok e
      ∧ ∀ (i : Nat) (y : UInt8),
          (let strip := hmacSize + (cfg.keyStore.getD []).length
           hmacOffset + strip ≤ i ∧ i - strip < appLen c cfg) → e[i]? ≠ some y →
          ∀ a, Spec.MbiRom.romCheck co (romEnvOf c rkth cfg.hmacKey) (e.set i y) = .ok a →
            (∀ ob ∈ a.obligations, holdsRsa co alg certPub (encBodyOf cfg (e.set i y)) ob) → Break co := by
  have hc := encCls h.hcls hf
  have hk := encCfg hc h.hcfg
  have hn := encLens h.hlaws hc hk signer h.hsig
  obtain ⟨k, hk1, _⟩ := hk.hhmac
  have huk : (romEnvOf c rkth cfg.hmacKey).userKey = some k := hk1
  refine ⟨_, encrypted_export h.hlaws hc hk signer, ?_⟩
  intro i y hi hne a H hob
  have hS : hmacSize + (cfg.keyStore.getD []).length = hmacSize + encKsLen cfg := rfl
  simp only [hS] at hi
  obtain ⟨hi1, hi2⟩ := hi
  have hL := hn.hL
  have hpl := romenc_pe_length h.hlaws hc hk
  -- the body of the changed image
  have hB : encBodyOf cfg ((encImg co c cfg signer).set i y)
      = (encPe co c cfg ++ signer (encPe co c cfg)).set (i - (hmacSize + encKsLen cfg)) y := by
    have e0 : hmacOffset + hmacSize + (cfg.keyStore.getD []).length = hmacOffset + hmacSize + encKsLen cfg := rfl
    have hpe : encPe co c cfg ++ signer (encPe co c cfg) = encIvtOf co c cfg ++ (encBody co c cfg ++ signer (encPe co c cfg)) := by
      unfold encPe; rw [List.append_assoc]
    have hl : ((encImg co c cfg signer).set i y).take hmacOffset = encIvtOf co c cfg := by
      rw [List.take_set_of_le (by omega), encImg_take_ivt hn]
    have hd : ((encImg co c cfg signer).set i y).drop (hmacOffset + hmacSize + encKsLen cfg)
        = (encBody co c cfg ++ signer (encPe co c cfg)).set (i - (hmacOffset + hmacSize + encKsLen cfg)) y := by
      rw [List.drop_set, if_neg (by omega), encImg_drop_body hn]
    have hr : (encIvtOf co c cfg ++ (encBody co c cfg ++ signer (encPe co c cfg))).set (i - (hmacSize + encKsLen cfg)) y
        = encIvtOf co c cfg ++ (encBody co c cfg ++ signer (encPe co c cfg)).set
            (i - (hmacSize + encKsLen cfg) - hmacOffset) y := by
      rw [List.set_append_right _ _ (by rw [hn.hivt]; omega), hn.hivt]
    have hidx : i - (hmacOffset + hmacSize + encKsLen cfg) = i - (hmacSize + encKsLen cfg) - hmacOffset := by omega
    unfold encBodyOf
    rw [hl, e0, hd, hpe, hr, hidx]
  generalize hj : i - (hmacSize + encKsLen cfg) = j at hB hi2
  have hj64 : hmacOffset ≤ j := by omega
  -- the byte really changes
  have hbyte : (encPe co c cfg)[j]? ≠ some y := by
    intro hq
    apply hne
    have e1 : encImg co c cfg signer = (encIvtOf co c cfg ++ computeHmac co cfg (encIvtOf co c cfg)
        ++ (cfg.keyStore.getD [])) ++ (encBody co c cfg ++ signer (encPe co c cfg)) := by
      unfold encImg; simp only [List.append_assoc]
    have l1 : (encIvtOf co c cfg ++ computeHmac co cfg (encIvtOf co c cfg) ++ (cfg.keyStore.getD [])).length
        = hmacOffset + hmacSize + encKsLen cfg := by
      simp only [List.length_append, hn.hivt, hn.hmac, hn.hks]
    have hbl := encBody_length h.hlaws hc hk
    have hjb : j - hmacOffset < (encBody co c cfg).length := by
      rw [hbl]; omega
    rw [e1, List.getElem?_append_right (by rw [l1]; omega), l1, List.getElem?_append_left (by omega)]
    unfold encPe at hq
    rw [List.getElem?_append_right (by rw [hn.hivt]; exact hj64), hn.hivt] at hq
    have hidx : i - (hmacOffset + hmacSize + encKsLen cfg) = j - hmacOffset := by omega
    rw [← hq, hidx]
  -- the ROM's path
  have hflags : Spec.MbiRom.rd32 ((encImg co c cfg signer).set i y) Spec.MbiRom.offFlags = flagsOf c cfg := by
    rw [show Spec.MbiRom.offFlags = 36 from rfl, romneg_rd32_set _ _ _ _ (Or.inr (by simp only [hmacOffset] at hi1; omega))]
    exact romenc_flags h.hlaws hc hk signer
  obtain ⟨body, strip, ks, hH, hE⟩ := romneg_romCheck_inv _ _ _ (by rw [hflags]; exact romneg_type3 hc hk hf ht) H
  obtain ⟨hks, hstrip, _, hbody⟩ := romneg_romHmac_inv _ _ _ _ _ k huk hH
  rw [hflags, romenc_ksflag hc hk] at hks
  have hstrip' : strip = hmacSize + encKsLen cfg := by
    rw [hstrip, hks, encKsLen_eq hk]; rfl
  have hbody' : body = (encPe co c cfg ++ signer (encPe co c cfg)).set j y := by
    rw [hbody, hstrip', ← hB]
    unfold encBodyOf
    rw [show Spec.MbiRom.hmacOffset = hmacOffset from rfl, ← Nat.add_assoc]
    rfl
  rw [hbody'] at hE
  clear hbody' hbody hH
  obtain ⟨ci, last, hci, hlast, hobl⟩ := romneg_romEncrypted_inv _ _ _ _ _ hE
  have hoff : Spec.MbiRom.rd32 ((encPe co c cfg ++ signer (encPe co c cfg)).set j y) Spec.MbiRom.offCrcOrCert = appLen c cfg := by
    rw [show Spec.MbiRom.offCrcOrCert = 40 from rfl, romneg_rd32_set _ _ _ _ (Or.inr (by simp only [hmacOffset] at hj64; omega))]
    exact (romenc_body_words h.hlaws hc hk _).2.2.1
  rw [hoff] at hci
  -- the certificate block is untouched
  have hel := encEnc_length h.hlaws hc hk
  have hivl := hk.hctr
  have hil : (encEnc co c cfg).length + cfg.cert.length + encIvtCopySize + cfg.ctrIv.length = (encPe co c cfg).length := by
    simp only [encIvtCopySize, ctrInitVectorSize] at *; omega
  have hilt : (encPe co c cfg).length < 2 ^ 32 := by
    have h1 := encImgLen_lt hc hk
    unfold encImgLen at h1
    rw [encrypted_totalLen hc hk] at h1
    simp only [Int.toNat_natCast] at h1
    have h2 := encrypted_appLen hc hk
    simp only [hmacSize, encIvtCopySize, encIvSize, ctrInitVectorSize] at *
    omega
  have hcertIn : certSetImageLength cfg.cert (encPe co c cfg).length = certInImage c cfg := by
    rw [← hil]; exact encrypted_certInImage h.hlaws hc hk
  have hat : certAt ((encPe co c cfg ++ signer (encPe co c cfg)).set j y)
      (certSetImageLength cfg.cert (encPe co c cfg).length) (appLen c cfg) := by
    unfold certAt
    rw [hcertIn, romenc_sub, hn.hcert, romneg_slice_set _ _ _ _ _ (Or.inl hi2)]
    exact romenc_cert hn _
  obtain ⟨ci', hci', hcerts, _, himl, _⟩ := hrom.2 _ _ _ hat hilt
  have hcc : ci = ci' := Except.ok.inj (hci.symm.trans hci')
  subst hcc
  rw [hcerts, List.getLast?_map] at hlast
  obtain ⟨p, hp, hlp⟩ := Option.map_eq_some_iff.mp hlast
  have hpin := romneg_cert_inside hk _ _ _ hrom p (List.mem_of_getLast? hp)
  -- the RSA obligation
  have hv := hob (.rsaByCert last ci.imageLength) (by rw [hobl]; simp)
  rw [hB, himl, ← hlp] at hv
  simp only [holdsRsa] at hv
  have hslice : Spec.MbiRom.sub ((encPe co c cfg ++ signer (encPe co c cfg)).set j y) (appLen c cfg + p.1)
      (appLen c cfg + p.1 + p.2) = slice (certInImage c cfg) p.1 (p.1 + p.2) := by
    rw [romenc_sub, romneg_slice_set _ _ _ _ _ (Or.inl (by omega))]
    have hsplit : encPe co c cfg ++ signer (encPe co c cfg)
        = (encIvtOf co c cfg ++ slice (encEnc co c cfg) hmacOffset (appLen c cfg)) ++ certInImage c cfg
          ++ ((encEnc co c cfg).take encIvtCopySize ++ cfg.ctrIv ++ (encEnc co c cfg).drop (appLen c cfg)
            ++ signer (encPe co c cfg)) := by
      unfold encPe encBody; simp only [List.append_assoc]
    have hX : (encIvtOf co c cfg ++ slice (encEnc co c cfg) hmacOffset (appLen c cfg)).length = appLen c cfg := by
      simp only [List.length_append, hn.hivt, hn.hmid]; omega
    rw [hsplit, Nat.add_assoc, romneg_slice_mid' _ _ _ _ _ _ hX (by rw [hn.hcert]; exact hpin)]
  have htake : ((encPe co c cfg ++ signer (encPe co c cfg)).set j y).take (encPe co c cfg).length
      = (encPe co c cfg).set j y := by
    rw [List.take_set, List.take_left]
  have hdrop : ((encPe co c cfg ++ signer (encPe co c cfg)).set j y).drop (encPe co c cfg).length
      = co.sign alg sk (encPe co c cfg) r := by
    rw [List.drop_set_of_lt (by omega), List.drop_left, hsigner]
  rw [hslice, htake, hdrop, hpub p hp] at hv
  exact Break.sigForgery alg sk _ _ r (romneg_set_ne _ _ _ (by omega) hbyte) hv

end SpsdkVerif.Mbi
