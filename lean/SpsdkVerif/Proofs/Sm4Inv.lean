/-
`Sm4.decBlk k (Sm4.encBlk k b) = b` (and the converse) for the SM4 of Crypto/Sm4.lean, every key and block.
SM4 is an unbalanced Feistel network: with `F_rk` one round and `σ` the word reversal,
`F_rk ∘ σ ∘ F_rk = σ`, hence running the rounds with the reversed key list undoes them.
The S-box and the key schedule play no role.  Core Lean only.
-/
import SpsdkVerif.Crypto.Sm4

namespace SpsdkVerif.Crypto.Sm4
open SpsdkVerif SpsdkVerif.Crypto

theorem B4.xor_cancel (x t : B4) : (x.xor t).xor t = x := by
  cases x; cases t
  simp [B4.xor, UInt8.xor_assoc]

theorem B4.xor_rev (x y z : B4) : (z.xor y).xor x = (x.xor y).xor z := by
  cases x; cases y; cases z
  simp only [B4.xor, B4.mk.injEq]
  refine ⟨?_, ?_, ?_, ?_⟩ <;> ac_rfl

theorem rev_rev (x : W4) : rev (rev x) = x := rfl

/-- `F_rk ∘ σ ∘ F_rk = σ` -/
theorem round_rev_round (x : W4) (rk : UInt32) : round (rev (round x rk)) rk = rev x := by
  cases x with
  | mk x0 x1 x2 x3 =>
    simp only [round, rev, W4.mk.injEq, true_and]
    rw [B4.xor_rev x1 x2 x3, B4.xor_cancel]

theorem foldl_round_rev : ∀ (rks : List UInt32) (x : W4),
    rks.reverse.foldl round (rev (rks.foldl round x)) = rev x
  | [], _ => rfl
  | rk :: rest, x => by
    simp only [List.foldl_cons, List.reverse_cons, List.foldl_append, List.foldl_nil]
    rw [foldl_round_rev rest (round x rk), round_rev_round]

theorem crypt_reverse_crypt (rks : List UInt32) (x : W4) : crypt rks.reverse (crypt rks x) = x := by
  simp only [crypt]
  rw [foldl_round_rev, rev_rev]

theorem crypt_crypt_reverse (rks : List UInt32) (x : W4) : crypt rks (crypt rks.reverse x) = x := by
  have := crypt_reverse_crypt rks.reverse x
  rwa [List.reverse_reverse] at this

theorem toW4_ofW4 (x : W4) : toW4 (ofW4 x) = x := rfl

theorem ofW4_toW4 (b : Bytes) (h : b.length = 16) : ofW4 (toW4 b) = b := by
  unfold toW4
  split
  · rfl
  · rename_i hn
    exfalso
    match b, h with
    | [s0, s1, s2, s3, s4, s5, s6, s7, s8, s9, s10, s11, s12, s13, s14, s15], _ =>
      exact hn _ _ _ _ _ _ _ _ _ _ _ _ _ _ _ _ rfl

@[simp] theorem ofW4_length (x : W4) : (ofW4 x).length = 16 := rfl
@[simp] theorem normBlock_length (b : Bytes) : (normBlock b).length = 16 := by simp [normBlock]
theorem normBlock_of_len (b : Bytes) (h : b.length = 16) : normBlock b = b := by
  simp [normBlock, List.take_append, h]

theorem encBlk_length (key b : Bytes) : (encBlk key b).length = 16 := rfl
theorem decBlk_length (key b : Bytes) : (decBlk key b).length = 16 := rfl

theorem decBlk_encBlk (key b : Bytes) (hb : b.length = 16) : decBlk key (encBlk key b) = b := by
  unfold decBlk
  rw [normBlock_of_len _ (encBlk_length key b)]
  unfold encBlk
  rw [toW4_ofW4, crypt_reverse_crypt, normBlock_of_len _ hb, ofW4_toW4 _ hb]

theorem encBlk_decBlk (key b : Bytes) (hb : b.length = 16) : encBlk key (decBlk key b) = b := by
  unfold encBlk
  rw [normBlock_of_len _ (decBlk_length key b)]
  unfold decBlk
  rw [toW4_ofW4, crypt_crypt_reverse, normBlock_of_len _ hb, ofW4_toW4 _ hb]

end SpsdkVerif.Crypto.Sm4
