/-
Basic facts about the big-endian codec (`Misc.beEnc` / `beDec` / `byteLen`) shared by the C08 proof files.
(The first lemmas repeat Proofs/Misc.lean so that the C08 proofs do not depend on another property's proof file.)
-/
import SpsdkVerif.Model.Keys

namespace SpsdkVerif.Keys
open SpsdkVerif SpsdkVerif.Misc

theorem beEnc_length (n v : Nat) : (beEnc n v).length = n := by
  induction n generalizing v with
  | zero => simp [beEnc]
  | succ n ih => simp [beEnc, ih]

theorem beDec_append_single (l : Bytes) (x : UInt8) : beDec (l ++ [x]) = beDec l * 256 + x.toNat := by
  simp [beDec, List.foldl_append]

theorem beDec_beEnc_mod (n v : Nat) : beDec (beEnc n v) = v % 256 ^ n := by
  induction n generalizing v with
  | zero => simp [beEnc, beDec, Nat.mod_one]
  | succ n ih =>
    rw [beEnc, beDec_append_single, ih, UInt8.toNat_ofNat']
    have hp : 256 ^ (n + 1) = 256 * 256 ^ n := by rw [Nat.pow_succ, Nat.mul_comm]
    rw [hp, Nat.mod_mul]
    generalize v / 256 % 256 ^ n = q
    omega

theorem beDec_beEnc (n v : Nat) (h : v < 256 ^ n) : beDec (beEnc n v) = v := by
  rw [beDec_beEnc_mod, Nat.mod_eq_of_lt h]

theorem byteLenF_zero (f : Nat) : byteLenF f 0 = 0 := by
  cases f <;> simp [byteLenF]

theorem byteLenF_min (f v : Nat) (h : v ≤ f) :
    v < 256 ^ byteLenF f v ∧ (0 < v → 256 ^ (byteLenF f v - 1) ≤ v) := by
  induction f generalizing v with
  | zero =>
    have : v = 0 := by omega
    subst this; simp [byteLenF]
  | succ f ih =>
    by_cases hv : v = 0
    · subst hv; simp [byteLenF]
    · have h' : v / 256 ≤ f := by omega
      obtain ⟨i1, i2⟩ := ih (v / 256) h'
      simp only [byteLenF, hv, if_false]
      rw [Nat.add_comm 1, Nat.pow_succ, Nat.add_sub_cancel]
      refine ⟨by omega, fun _ => ?_⟩
      by_cases hq : v / 256 = 0
      · rw [hq, byteLenF_zero]; simp; omega
      · have := i2 (by omega)
        have hL : byteLenF f (v / 256) ≠ 0 := by
          intro e; rw [e] at i1; simp at i1; omega
        obtain ⟨L, hL'⟩ := Nat.exists_eq_succ_of_ne_zero hL
        rw [hL'] at this ⊢
        rw [Nat.pow_succ]
        simp at this
        omega

/-- `v < 256 ^ byteLen v` -/
theorem lt_pow_byteLen (v : Nat) : v < 256 ^ byteLen v := (byteLenF_min v v (Nat.le_refl v)).1

/-- `256 ^ (byteLen v - 1) ≤ v` for `v > 0` -/
theorem pow_byteLen_le (v : Nat) (h : 0 < v) : 256 ^ (byteLen v - 1) ≤ v := (byteLenF_min v v (Nat.le_refl v)).2 h

theorem byteLen_zero : byteLen 0 = 0 := by simp [byteLen, byteLenF]

theorem byteLen_pos (v : Nat) (h : 0 < v) : 0 < byteLen v := by
  unfold byteLen
  cases v with
  | zero => omega
  | succ n => simp [byteLenF]; omega

/-- `byteLen v ≤ k` when `v < 256 ^ k` -/
theorem byteLen_le_of_lt (v k : Nat) (h : v < 256 ^ k) : byteLen v ≤ k := by
  by_cases hv : v = 0
  · subst hv; simp [byteLen_zero]
  · have h1 := pow_byteLen_le v (by omega)
    have h2 : 256 ^ (byteLen v - 1) < 256 ^ k := by omega
    have h3 : byteLen v - 1 < k := (Nat.pow_lt_pow_iff_right (by omega : 1 < 256)).1 h2
    omega

/-- `k ≤ byteLen v` when `256 ^ (k-1) ≤ v`, `k ≥ 1` -/
theorem le_byteLen_of_le (v k : Nat) (h : 256 ^ (k - 1) ≤ v) (hk : 0 < k) : k ≤ byteLen v := by
  have h1 := lt_pow_byteLen v
  have h2 : 256 ^ (k - 1) < 256 ^ byteLen v := by omega
  have h3 : k - 1 < byteLen v := (Nat.pow_lt_pow_iff_right (by omega : 1 < 256)).1 h2
  omega

/-- the two halves of a fixed-width pair -/
theorem take_pair (w a b : Nat) : (beEnc w a ++ beEnc w b).take w = beEnc w a := by
  rw [List.take_append_of_le_length (by rw [beEnc_length]; exact Nat.le_refl _)]
  rw [List.take_of_length_le (by rw [beEnc_length]; exact Nat.le_refl _)]

theorem drop_pair (w a b : Nat) : (beEnc w a ++ beEnc w b).drop w = beEnc w b := by
  rw [List.drop_append_of_le_length (by rw [beEnc_length]; exact Nat.le_refl _)]
  rw [List.drop_of_length_le (by rw [beEnc_length]; exact Nat.le_refl _)]
  simp

theorem pair_length (w a b : Nat) : (beEnc w a ++ beEnc w b).length = 2 * w := by
  rw [List.length_append, beEnc_length, beEnc_length]; omega

theorem toBytes_ok (w n : Nat) (h : n < 256 ^ w) : toBytes w n = .ok (beEnc w n) := by
  simp [toBytes, h]

theorem rawPair_ok (w a b : Nat) (ha : a < 256 ^ w) (hb : b < 256 ^ w) :
    rawPair w a b = .ok (beEnc w a ++ beEnc w b) := by
  simp [rawPair, toBytes_ok, ha, hb]

theorem cl_values : Curve.p256.cl = 32 ∧ Curve.p384.cl = 48 ∧ Curve.p521.cl = 66 := by decide

end SpsdkVerif.Keys
