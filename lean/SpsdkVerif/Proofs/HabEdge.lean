/- C07 helper lemmas, part 16 (phase 3): what happens outside `CsfWF` / `Cfg.WF` — a CSF whose header + commands + data
   exceed CSF_SIZE, and an initial load size that is not 16-byte aligned. -/
import SpsdkVerif.Proofs.HabLayout
import SpsdkVerif.Proofs.HabCsf

namespace SpsdkVerif.Hab
open SpsdkVerif SpsdkVerif.Misc SpsdkVerif.Generated

/-- `CsfHabSegment.export()` pads to a MULTIPLE of CSF_SIZE, `CsfHabSegment.size` is the constant CSF_SIZE: with more
    than CSF_SIZE bytes of header + commands + data the exported CSF is at least twice CSF_SIZE, the image is that much
    longer, and the boot-data length (computed from `size`) is short by exactly the overflow -/
theorem csf_oversize_lemma (c : Cfg) (b : Built) (h : c.WF) (ha : c.flags ≠ 0) (happ : b.app.length = c.appBin.length)
    (hbig : HabConsts.csfSize < (csfBase c.version b.cmds ++ encData b.cmds).length) :
    (exportImage c b).length = c.csfOff + (csfBytes c.version b.cmds).length ∧
    2 * HabConsts.csfSize ≤ (csfBytes c.version b.cmds).length ∧
    c.bdt.length + ((csfBytes c.version b.cmds).length - HabConsts.csfSize) =
      c.ivtOff + (exportImage c b).length + (if isEnc c.flags then HabConsts.keyblobSize else 0) := by
  have hf := flags_cases c.flags h.flags
  have hbefore := app_before_csf c h
  have hc : c.hasCsf = true := by rw [h.csf]; simpa using ha
  have e1 : bdtEndIsCsf c.flags = true := by rw [hf.2.2.2]; simpa using ha
  have hfit : (if c.hasCsf then some (csfBytes c.version b.cmds) else none).isSome → c.appOff + b.app.length ≤ c.csfOff := by
    intro _; rw [happ]; exact hbefore
  have hnf := image_nf c h b.app _ hfit
  have hpl := pre_length c h
  have e8 : HabConsts.csfSize = 8192 := rfl
  have hlen : 2 * HabConsts.csfSize ≤ (csfBytes c.version b.cmds).length := by
    unfold csfBytes
    rw [padAlign_length _ _ (by decide)]
    have h1 := alignUp_ge (csfBase c.version b.cmds ++ encData b.cmds).length HabConsts.csfSize (by decide)
    have h2 := alignUp_mod (csfBase c.version b.cmds ++ encData b.cmds).length HabConsts.csfSize
    generalize alignUp (csfBase c.version b.cmds ++ encData b.cmds).length HabConsts.csfSize = A at *
    rw [e8] at hbig h2 ⊢
    omega
  have hil : (exportImage c b).length = c.csfOff + (csfBytes c.version b.cmds).length := by
    unfold exportImage
    rw [hnf, hc]
    simp only [↓reduceIte, tailOf, List.length_append, hpl, zeros_length]
    rw [happ]; omega
  refine ⟨hil, hlen, ?_⟩
  rw [hil]
  simp only [Cfg.bdt, e1, ↓reduceIte, bdtLenN_eq]
  by_cases he : isEnc c.flags = true <;> simp only [he, Bool.false_eq_true, ↓reduceIte] <;> omega

end SpsdkVerif.Hab
