/-
C14 proofs, part 1: init-offset selection, offsets, export through the BinaryImage model (placement, gaps, no overwrite).
Model: Model/Bimg.lean, Model/BinImage.lean; spec vocabulary: Model/BimgSpec.lean.  Restated in Properties/C14.lean.

Route: `bimgLayout 0 slots` pairs every table entry with its offset in the full image as a plain number; under `Ctx`
(`bimg_geo : BimgGeo init slots`) it agrees with `absOffsets`, is a chain of disjoint increasing intervals (`bimgChain`),
non-excluded entries start at or after `init`, excluded ones end at or before it.  `bimgPlaced init slots` is what
`placedSegs` answers; `bimg_export_char` characterises the exported buffer pointwise.
-/
import SpsdkVerif.Model.Bimg
import SpsdkVerif.Model.BimgSpec

namespace SpsdkVerif.Bimg
open SpsdkVerif SpsdkVerif.Misc SpsdkVerif.BinImg SpsdkVerif.Generated

/-! ### `minList` -/

theorem bimg_minList_none (l : List Nat) : minList l = none ↔ l = [] := by
  cases l with
  | nil => simp [minList]
  | cons x xs =>
    simp only [minList]
    cases minList xs <;> simp

theorem bimg_minList_some (l : List Nat) (m : Nat) (h : minList l = some m) :
    m ∈ l ∧ ∀ x ∈ l, m ≤ x := by
  induction l generalizing m with
  | nil => simp [minList] at h
  | cons x xs ih =>
    simp only [minList] at h
    cases hm : minList xs with
    | none =>
      rw [hm] at h
      have : xs = [] := (bimg_minList_none xs).1 hm
      subst this
      simp at h
      subst h
      simp
    | some m' =>
      rw [hm] at h
      simp only [Option.some.injEq] at h
      obtain ⟨h1, h2⟩ := ih m' hm
      subst h
      refine ⟨?_, ?_⟩
      · by_cases hx : x ≤ m'
        · rw [Nat.min_eq_left hx]; simp
        · rw [Nat.min_eq_right (by omega)]; exact List.mem_cons_of_mem _ h1
      · intro y hy
        rcases List.mem_cons.1 hy with rfl | hy
        · exact Nat.min_le_left _ _
        · exact Nat.le_trans (Nat.min_le_right _ _) (h2 y hy)

theorem setInit_spec' (segs : List Seg) (req : Int) (m : Nat) (h : setInit segs req = .ok m) :
    (req = 0 ∧ m = 0) ∨
    (0 < req ∧ m ∈ statics segs ∧ req ≤ (m : Int) ∧ ∀ o ∈ statics segs, req ≤ (o : Int) → m ≤ o) := by
  unfold setInit at h
  by_cases h1 : req < 0
  · rw [if_pos h1] at h; cases h
  · rw [if_neg h1] at h
    by_cases h2 : req = 0
    · rw [if_pos h2] at h
      cases h
      exact Or.inl ⟨h2, rfl⟩
    · rw [if_neg h2] at h
      right
      cases hm : minList ((statics segs).filter (fun o => req.toNat ≤ o)) with
      | none => rw [hm] at h; cases h
      | some m' =>
        rw [hm] at h
        cases h
        obtain ⟨hmem, hmin⟩ := bimg_minList_some _ _ hm
        rw [List.mem_filter] at hmem
        obtain ⟨hm1, hm2⟩ := hmem
        simp only [decide_eq_true_eq] at hm2
        refine ⟨by omega, hm1, by omega, ?_⟩
        intro o ho hro
        apply hmin
        rw [List.mem_filter]
        refine ⟨ho, ?_⟩
        simp only [decide_eq_true_eq]
        omega

theorem setInit_error' (segs : List Seg) (req : Int) :
    (∃ e, setInit segs req = .error e) ↔ (req < 0 ∨ (0 < req ∧ ∀ o ∈ statics segs, (o : Int) < req)) := by
  unfold setInit
  by_cases h1 : req < 0
  · rw [if_pos h1]
    exact ⟨fun _ => Or.inl h1, fun _ => ⟨_, rfl⟩⟩
  · rw [if_neg h1]
    by_cases h2 : req = 0
    · rw [if_pos h2]
      constructor
      · rintro ⟨e, he⟩; cases he
      · rintro (h | ⟨h, _⟩) <;> omega
    · rw [if_neg h2]
      cases hm : minList ((statics segs).filter (fun o => req.toNat ≤ o)) with
      | none =>
        have hnil := (bimg_minList_none _).1 hm
        refine ⟨fun _ => Or.inr ⟨by omega, ?_⟩, fun _ => ⟨_, rfl⟩⟩
        intro o ho
        rw [List.filter_eq_nil_iff] at hnil
        have := hnil o ho
        simp only [decide_eq_true_eq] at this
        omega
      | some m' =>
        obtain ⟨hmem, _⟩ := bimg_minList_some _ _ hm
        rw [List.mem_filter] at hmem
        obtain ⟨hm1, hm2⟩ := hmem
        simp only [decide_eq_true_eq] at hm2
        constructor
        · rintro ⟨e, he⟩; cases he
        · rintro (h | ⟨_, h⟩)
          · omega
          · have := h m' hm1
            omega

theorem excluded_iff' (init : Nat) (s : Seg) : excluded init s = true ↔ ∃ p, s.pos = some p ∧ p < init := by
  unfold excluded
  cases s.pos with
  | none => simp
  | some p => simp

/-! ### `absOffsets`, `segOffset` -/

theorem bimg_absOffsets_length (prev : Option (Option Nat × Nat)) (slots : List Slot) :
    (absOffsets prev slots).length = slots.length := by
  induction slots generalizing prev with
  | nil => simp [absOffsets]
  | cons s rest ih => simp [absOffsets, ih]

theorem bimg_absOffsets_static (prev : Option (Option Nat × Nat)) (slots : List Slot) (i : Nat) (s : Slot) (p : Nat)
    (hs : slots[i]? = some s) (hp : s.seg.pos = some p) :
    (absOffsets prev slots)[i]? = some (some p) := by
  induction slots generalizing prev i with
  | nil => simp at hs
  | cons x rest ih =>
    cases i with
    | zero =>
      simp only [List.getElem?_cons_zero, Option.some.injEq] at hs
      subst hs
      simp [absOffsets, hp]
    | succ i =>
      simp only [List.getElem?_cons_succ] at hs
      simp only [absOffsets, List.getElem?_cons_succ]
      exact ih _ i hs

theorem bimg_absOffsets_dynamic (prev : Option (Option Nat × Nat)) (slots : List Slot) (i : Nat) (t s : Slot) (a : Nat)
    (ht : slots[i]? = some t) (hs : slots[i + 1]? = some s) (hp : s.seg.pos = none)
    (ha : (absOffsets prev slots)[i]? = some (some a)) :
    (absOffsets prev slots)[i + 1]? = some (some (alignNat (a + t.len) s.seg.align)) := by
  induction slots generalizing prev i with
  | nil => simp at ht
  | cons x rest ih =>
    cases i with
    | zero =>
      simp only [List.getElem?_cons_zero, Option.some.injEq] at ht
      subst ht
      simp only [List.getElem?_cons_succ] at hs
      cases rest with
      | nil => simp at hs
      | cons y rest' =>
        simp only [List.getElem?_cons_zero, Option.some.injEq] at hs
        subst hs
        simp only [absOffsets, List.getElem?_cons_zero, Option.some.injEq] at ha
        simp only [absOffsets, List.getElem?_cons_succ, List.getElem?_cons_zero, hp, ha]
    | succ i =>
      simp only [List.getElem?_cons_succ] at ht hs
      simp only [absOffsets, List.getElem?_cons_succ] at ha ⊢
      exact ih _ i ht hs ha

theorem bimg_excluded_dynamic (init : Nat) (s : Seg) (hp : s.pos = none) : excluded init s = false := by
  simp [excluded, hp]

theorem offset_static' (init : Nat) (slots : List Slot) (i : Nat) (s : Slot) (p : Nat)
    (hs : slots[i]? = some s) (hp : s.seg.pos = some p) (hex : excluded init s.seg = false) :
    segOffset init slots i = .ok ((p : Int) - init) := by
  unfold segOffset
  rw [hs, bimg_absOffsets_static none slots i s p hs hp]
  simp [hex]

theorem offset_dynamic' (init : Nat) (slots : List Slot) (i : Nat) (t s : Slot) (a : Nat)
    (ht : slots[i]? = some t) (hs : slots[i + 1]? = some s) (hp : s.seg.pos = none)
    (ha : (absOffsets none slots)[i]? = some (some a)) :
    segOffset init slots (i + 1) = .ok ((alignNat (a + t.len) s.seg.align : Nat) - (init : Int)) := by
  unfold segOffset
  rw [hs, bimg_absOffsets_dynamic none slots i t s a ht hs hp ha]
  simp [bimg_excluded_dynamic init s.seg hp]


/-! ### the conjuncts of `descOK` -/

theorem bimg_descOK_parts (d : Desc) (h : descOK d = true) :
    (d.segs.head?.bind (·.pos)).isSome = true ∧
    (∀ s ∈ d.segs, segOK d.pattern s = true) ∧
    (d.pattern = .zeros ∨ d.pattern = .ones) ∧
    ltChain (statics d.segs) = true ∧ dynOK d.segs = true ∧ windowsFit d.segs = true ∧
    greedyLast d.segs = true ∧ headersFirst d.segs = true ∧
    (∃ s ∈ d.segs, s.bootHeader = false ∧ s.pos.isSome = true) ∧
    (∀ o ∈ statics d.segs, ∀ s ∈ d.segs, s.pos.isSome = true ∨ o % s.align = 0) := by
  simp only [descOK, Bool.and_eq_true, List.all_eq_true, List.any_eq_true, Bool.or_eq_true, beq_iff_eq,
    Bool.not_eq_true'] at h
  obtain ⟨⟨⟨⟨⟨⟨⟨⟨⟨⟨h1, h2⟩, h3⟩, h4⟩, h5⟩, h6⟩, h7⟩, h8⟩, h9⟩, h10⟩, _⟩ := h
  exact ⟨h1, h2, h3, h4, h5, h6, h7, h8, h9, h10⟩

theorem bimg_segOK_align (pat : Pattern) (s : Seg) (h : segOK pat s = true) : 0 < s.align := by
  simp only [segOK, Bool.and_eq_true, decide_eq_true_eq] at h
  exact h.1.1.1.1.1.1.1.1.1.1.1

theorem bimg_le_alignNat (n a : Nat) (ha : 0 < a) : n ≤ alignNat n a := by
  unfold alignNat
  have h1 := Nat.div_add_mod (n + (a - 1)) a
  have h2 := Nat.mod_lt (n + (a - 1)) ha
  rw [Nat.mul_comm] at h1
  omega

theorem bimg_alignNat_one (n : Nat) : alignNat n 1 = n := by simp [alignNat]

/-! ### slots -/

theorem bimg_mkSlots_segs (segs : List Seg) (raws : List (Option Bytes)) (h : raws.length = segs.length) :
    (mkSlots segs raws).map (·.seg) = segs := by
  unfold mkSlots
  rw [List.map_map]
  have : ((fun x : Slot => x.seg) ∘ fun p : Seg × Option Bytes => Slot.mk p.1 p.2) = Prod.fst := by
    funext p; rfl
  rw [this]
  exact List.map_fst_zip (by omega)

/-! ### layout: every table entry with its offset in the full image -/

/-- offsets as plain numbers; `e` = end of the previous entry (a dynamic first entry would get `alignNat e …`) -/
def bimgLayout : Nat → List Slot → List (Nat × Slot)
  | _, [] => []
  | e, s :: rest =>
    let a := match s.seg.pos with
      | some p => p
      | none => alignNat e s.seg.align
    (a, s) :: bimgLayout (a + s.len) rest

theorem bimgLayout_snd (e : Nat) (slots : List Slot) : (bimgLayout e slots).map (·.2) = slots := by
  induction slots generalizing e with
  | nil => rfl
  | cons s rest ih => simp [bimgLayout, ih]

theorem bimgLayout_length (e : Nat) (slots : List Slot) : (bimgLayout e slots).length = slots.length := by
  induction slots generalizing e with
  | nil => rfl
  | cons s rest ih => simp [bimgLayout, ih]

theorem bimg_absOffsets_some (po pl : Nat) (slots : List Slot) :
    absOffsets (some (some po, pl)) slots = (bimgLayout (po + pl) slots).map (fun p => some p.1) := by
  induction slots generalizing po pl with
  | nil => rfl
  | cons s rest ih =>
    cases hp : s.seg.pos with
    | none => simp [absOffsets, bimgLayout, hp, ih]
    | some p => simp [absOffsets, bimgLayout, hp, ih]

theorem bimg_absOffsets_none (s : Slot) (rest : List Slot) (p : Nat) (hp : s.seg.pos = some p) :
    absOffsets none (s :: rest) = (bimgLayout 0 (s :: rest)).map (fun p => some p.1) := by
  simp [absOffsets, bimgLayout, hp, bimg_absOffsets_some]

/-- intervals in increasing order, each starting at or after the end of the one before (`e` = lower bound) -/
def bimgChain : Nat → List (Nat × Slot) → Prop
  | _, [] => True
  | e, p :: r => e ≤ p.1 ∧ bimgChain (p.1 + p.2.len) r

theorem bimgChain_mono {e e' : Nat} {l : List (Nat × Slot)} (h : bimgChain e l) (he : e' ≤ e) : bimgChain e' l := by
  cases l with
  | nil => trivial
  | cons p r => exact ⟨Nat.le_trans he h.1, h.2⟩

theorem bimgChain_ge {e : Nat} {l : List (Nat × Slot)} (h : bimgChain e l) : ∀ p ∈ l, e ≤ p.1 := by
  induction l generalizing e with
  | nil => intro p hp; cases hp
  | cons q r ih =>
    intro p hp
    rcases List.mem_cons.1 hp with rfl | hp
    · exact h.1
    · have := ih h.2 p hp
      have h1 := h.1
      omega

theorem bimgChain_filter {e : Nat} {l : List (Nat × Slot)} (f : Nat × Slot → Bool) (h : bimgChain e l) :
    bimgChain e (l.filter f) := by
  induction l generalizing e with
  | nil => trivial
  | cons q r ih =>
    rw [List.filter_cons]
    split
    · exact ⟨h.1, ih h.2⟩
    · exact bimgChain_mono (ih h.2) (by have := h.1; omega)

theorem bimgChain_shift {e : Nat} {l : List (Nat × Slot)} (init : Nat) (h : bimgChain e l)
    (hge : ∀ p ∈ l, init ≤ p.1) : bimgChain (e - init) (l.map (fun p => (p.1 - init, p.2))) := by
  induction l generalizing e with
  | nil => trivial
  | cons q r ih =>
    have hq := hge q (by simp)
    refine ⟨?_, ?_⟩
    · have := h.1
      show e - init ≤ q.1 - init
      omega
    · have := ih h.2 (fun p hp => hge p (List.mem_cons_of_mem _ hp))
      show bimgChain (q.1 - init + q.2.len) _
      have e1 : q.1 - init + q.2.len = q.1 + q.2.len - init := by omega
      rw [e1]
      exact this

/-- in a chain an earlier entry ends at or before the start of a later one -/
theorem bimgChain_idx {e : Nat} {l : List (Nat × Slot)} (h : bimgChain e l) (i j : Nat) (p q : Nat × Slot)
    (hij : i < j) (hp : l[i]? = some p) (hq : l[j]? = some q) : p.1 + p.2.len ≤ q.1 := by
  induction l generalizing e i j with
  | nil => simp at hp
  | cons x r ih =>
    cases j with
    | zero => omega
    | succ j =>
      simp only [List.getElem?_cons_succ] at hq
      cases i with
      | zero =>
        simp only [List.getElem?_cons_zero, Option.some.injEq] at hp
        subst hp
        exact bimgChain_ge h.2 q (List.mem_of_getElem? hq)
      | succ i =>
        simp only [List.getElem?_cons_succ] at hp
        exact ih h.2 i j (by omega) hp hq

/-- the last entry of a chain ends last -/
theorem bimgChain_last {e : Nat} {l : List (Nat × Slot)} (h : bimgChain e l) (q : Nat × Slot)
    (hq : l.getLast? = some q) : ∀ p ∈ l, p.1 ≤ q.1 ∧ p.1 + p.2.len ≤ q.1 + q.2.len := by
  induction l generalizing e with
  | nil => intro p hp; cases hp
  | cons x r ih =>
    intro p hp
    cases r with
    | nil =>
      simp at hq hp
      subst hq; subst hp
      exact ⟨Nat.le_refl _, Nat.le_refl _⟩
    | cons y r' =>
      rw [List.getLast?_cons_cons] at hq
      rcases List.mem_cons.1 hp with rfl | hp
      · have h1 := bimgChain_ge h.2 q (List.mem_of_getLast? hq)
        omega
      · exact ih h.2 hq p hp

/-! ### geometry of a well-formed description -/

/-- what `descOK` and `fits` say about the entries that follow the static entry `t` -/
def bimgStep (t : Slot) (slots : List Slot) : Prop :=
  dynOK ((t :: slots).map (·.seg)) = true ∧ fits (t :: slots) = true ∧ ∀ s ∈ slots, 0 < s.seg.align

theorem bimgStep_static {t s : Slot} {rest : List Slot} {po p : Nat} (hpo : t.seg.pos = some po)
    (hp : s.seg.pos = some p) (h : bimgStep t (s :: rest)) : po + t.len ≤ p ∧ bimgStep s rest := by
  obtain ⟨h1, h2, h3⟩ := h
  simp only [List.map_cons, dynOK, hp, Bool.and_eq_true] at h1
  simp only [fits, hpo, hp, Bool.and_eq_true, decide_eq_true_eq] at h2
  exact ⟨h2.1, h1.2, h2.2, fun x hx => h3 x (List.mem_cons_of_mem _ hx)⟩

theorem bimgStep_dynamic {t s : Slot} {rest : List Slot} (hp : s.seg.pos = none)
    (h : bimgStep t (s :: rest)) : rest = [] ∧ 0 < s.seg.align := by
  obtain ⟨h1, _, h3⟩ := h
  simp only [List.map_cons, dynOK, hp, Bool.and_eq_true, List.isEmpty_iff, List.map_eq_nil_iff] at h1
  exact ⟨h1.1.2, h3 s (by simp)⟩

theorem bimg_statics_cons_static (s : Seg) (r : List Seg) (p : Nat) (hp : s.pos = some p) :
    statics (s :: r) = p :: statics r := by
  simp [statics, hp]

theorem bimg_statics_cons_dynamic (s : Seg) (r : List Seg) (hp : s.pos = none) :
    statics (s :: r) = statics r := by
  simp [statics, hp]

theorem bimg_geo_step (init : Nat) (t : Slot) (po : Nat) (slots : List Slot) (hpo : t.seg.pos = some po)
    (hst : bimgStep t slots) (hinv : init ≤ po ∨ init ∈ statics (slots.map (·.seg))) :
    bimgChain (po + t.len) (bimgLayout (po + t.len) slots) ∧
    (∀ q ∈ statics (slots.map (·.seg)), po + t.len ≤ q) ∧
    (∀ p ∈ bimgLayout (po + t.len) slots, excluded init p.2.seg = false → init ≤ p.1) ∧
    (∀ p ∈ bimgLayout (po + t.len) slots, excluded init p.2.seg = true → p.1 + p.2.len ≤ init) := by
  induction slots generalizing t po with
  | nil =>
    refine ⟨trivial, ?_, ?_, ?_⟩ <;> intro p hp <;> simp [statics, bimgLayout] at hp
  | cons s rest ih =>
    cases hp : s.seg.pos with
    | none =>
      obtain ⟨hr, hal⟩ := bimgStep_dynamic hp hst
      subst hr
      have hge := bimg_le_alignNat (po + t.len) s.seg.align hal
      have hi : init ≤ po := by
        rcases hinv with h | h
        · exact h
        · simp [statics, hp] at h
      refine ⟨?_, ?_, ?_, ?_⟩
      · simp only [bimgLayout, hp]
        exact ⟨hge, trivial⟩
      · intro q hq; simp [statics, hp] at hq
      · intro p hpm _
        simp only [bimgLayout, hp, List.mem_singleton] at hpm
        subst hpm
        show init ≤ alignNat (po + t.len) s.seg.align
        omega
      · intro p hpm hex
        simp only [bimgLayout, hp, List.mem_singleton] at hpm
        subst hpm
        simp [excluded, hp] at hex
    | some p =>
      obtain ⟨hle, hst'⟩ := bimgStep_static hpo hp hst
      have hinv' : init ≤ p ∨ init ∈ statics (rest.map (·.seg)) := by
        rcases hinv with h | h
        · left; omega
        · rw [List.map_cons, bimg_statics_cons_static _ _ p hp] at h
          rcases List.mem_cons.1 h with h | h
          · left; omega
          · right; exact h
      obtain ⟨ih1, ih2, ih3, ih4⟩ := ih s p hp hst' hinv'
      have hlay : bimgLayout (po + t.len) (s :: rest) = (p, s) :: bimgLayout (p + s.len) rest := by
        simp [bimgLayout, hp]
      rw [hlay]
      refine ⟨⟨hle, ih1⟩, ?_, ?_, ?_⟩
      · intro q hq
        rw [List.map_cons, bimg_statics_cons_static _ _ p hp] at hq
        rcases List.mem_cons.1 hq with h | h
        · omega
        · have := ih2 q h; omega
      · intro x hx hex
        rcases List.mem_cons.1 hx with rfl | hx
        · simp only [excluded, hp, decide_eq_false_iff_not] at hex
          show init ≤ p
          omega
        · exact ih3 x hx hex
      · intro x hx hex
        rcases List.mem_cons.1 hx with rfl | hx
        · simp only [excluded, hp, decide_eq_true_eq] at hex
          show p + s.len ≤ init
          rcases hinv' with h | h
          · omega
          · exact ih2 init h
        · exact ih4 x hx hex

/-- the geometry facts the export / parse proofs use -/
structure BimgGeo (init : Nat) (slots : List Slot) : Prop where
  abs : absOffsets none slots = (bimgLayout 0 slots).map (fun p => some p.1)
  chain : bimgChain 0 (bimgLayout 0 slots)
  ge : ∀ p ∈ bimgLayout 0 slots, excluded init p.2.seg = false → init ≤ p.1
  le : ∀ p ∈ bimgLayout 0 slots, excluded init p.2.seg = true → p.1 + p.2.len ≤ init

theorem bimg_geo (d : Desc) (init : Nat) (raws : List (Option Bytes)) (h : Ctx d init raws) :
    BimgGeo init (mkSlots d.segs raws) := by
  obtain ⟨h1, h2, _, _, h5, _⟩ := bimg_descOK_parts d h.ok
  have hsegs := bimg_mkSlots_segs d.segs raws h.len
  have hal : ∀ s ∈ mkSlots d.segs raws, 0 < s.seg.align := by
    intro s hs
    apply bimg_segOK_align d.pattern
    apply h2
    rw [← hsegs]
    exact List.mem_map_of_mem hs
  have hfits := h.fits
  have hadm := h.adm
  rw [← hsegs] at h1 h5 hadm
  generalize mkSlots d.segs raws = slots at *
  cases slots with
  | nil => simp at h1
  | cons s rest =>
    cases hp : s.seg.pos with
    | none => simp [hp] at h1
    | some p =>
      have hst : bimgStep s rest := ⟨h5, hfits, fun x hx => hal x (List.mem_cons_of_mem _ hx)⟩
      have hinv : init ≤ p ∨ init ∈ statics (rest.map (·.seg)) := by
        rcases hadm with h | h
        · left; omega
        · rw [List.map_cons, bimg_statics_cons_static _ _ p hp] at h
          rcases List.mem_cons.1 h with h | h
          · left; omega
          · right; exact h
      obtain ⟨g1, g2, g3, g4⟩ := bimg_geo_step init s p rest hp hst hinv
      have hlay : bimgLayout 0 (s :: rest) = (p, s) :: bimgLayout (p + s.len) rest := by
        simp [bimgLayout, hp]
      refine ⟨bimg_absOffsets_none s rest p hp, ?_, ?_, ?_⟩
      · rw [hlay]; exact ⟨Nat.zero_le _, g1⟩
      · rw [hlay]
        intro x hx hex
        rcases List.mem_cons.1 hx with rfl | hx
        · simp only [excluded, hp, decide_eq_false_iff_not] at hex
          show init ≤ p
          omega
        · exact g3 x hx hex
      · rw [hlay]
        intro x hx hex
        rcases List.mem_cons.1 hx with rfl | hx
        · simp only [excluded, hp, decide_eq_true_eq] at hex
          show p + s.len ≤ init
          rcases hinv with h | h
          · omega
          · exact g2 init h
        · exact g4 x hx hex

/-! ### present entries -/

theorem bimg_present_iff (init : Nat) (s : Slot) :
    s.present init = true ↔ excluded init s.seg = false ∧ 0 < s.len := by
  simp [Slot.present]

theorem bimg_len_pos (s : Slot) (h : 0 < s.len) : ∃ b, s.raw = some b ∧ b ≠ [] ∧ s.len = b.length ∧ s.bytes = b := by
  unfold Slot.len binLen at h
  cases hr : s.raw with
  | none => rw [hr] at h; simp at h
  | some b =>
    rw [hr] at h
    refine ⟨b, rfl, ?_, ?_, ?_⟩
    · intro hb; subst hb; simp at h
    · simp [Slot.len, binLen, hr]
    · simp [Slot.bytes, hr]

theorem bimg_bytes_length (s : Slot) : s.bytes.length = s.len := by
  unfold Slot.bytes Slot.len binLen
  cases s.raw <;> simp

/-- the present entries with their offsets inside the exported image, in table order -/
def bimgPlaced (init : Nat) (slots : List Slot) : List (Nat × Slot) :=
  ((bimgLayout 0 slots).filter (fun p => p.2.present init)).map (fun p => (p.1 - init, p.2))

theorem bimg_presentAt (init : Nat) (lay : List (Nat × Slot))
    (hge : ∀ p ∈ lay, p.2.present init = true → init ≤ p.1) :
    presentAt init (lay.map (·.2)) (lay.map (fun p => some p.1)) =
      some ((lay.filter (fun p => p.2.present init)).map (fun p => (p.1 - init, p.2))) := by
  induction lay with
  | nil => rfl
  | cons q r ih =>
    have ih' := ih (fun p hp => hge p (List.mem_cons_of_mem _ hp))
    simp only [List.map_cons, presentAt]
    by_cases hq : q.2.present init = true
    · rw [if_pos hq, ih']
      simp only []
      rw [if_pos (hge q (by simp) hq)]
      simp [hq]
    · rw [if_neg hq, ih']
      simp [hq]

theorem bimg_placedSegs {init : Nat} {slots : List Slot} (g : BimgGeo init slots) :
    placedSegs init slots = some (bimgPlaced init slots) := by
  unfold placedSegs bimgPlaced
  rw [g.abs]
  have := bimg_presentAt init (bimgLayout 0 slots) (by
    intro p hp hpr
    exact g.ge p hp ((bimg_present_iff init p.2).1 hpr).1)
  rw [bimgLayout_snd] at this
  exact this

theorem bimg_mem_placed {init : Nat} {slots : List Slot} (q : Nat × Slot) :
    q ∈ bimgPlaced init slots ↔ ∃ a, (a, q.2) ∈ bimgLayout 0 slots ∧ q.2.present init = true ∧ q.1 = a - init := by
  unfold bimgPlaced
  rw [List.mem_map]
  constructor
  · rintro ⟨p, hp, rfl⟩
    rw [List.mem_filter] at hp
    exact ⟨p.1, hp.1, hp.2, rfl⟩
  · rintro ⟨a, h1, h2, h3⟩
    refine ⟨(a, q.2), ?_, ?_⟩
    · rw [List.mem_filter]; exact ⟨h1, h2⟩
    · cases q; simp at h3 ⊢; omega

theorem bimg_placed_chain {init : Nat} {slots : List Slot} (g : BimgGeo init slots) :
    bimgChain 0 (bimgPlaced init slots) := by
  have h1 := bimgChain_filter (fun p => p.2.present init) g.chain
  have h2 := bimgChain_shift init h1 (by
    intro p hp
    rw [List.mem_filter] at hp
    exact g.ge p hp.1 ((bimg_present_iff init p.2).1 hp.2).1)
  rw [Nat.zero_sub] at h2
  exact h2

theorem bimg_placed_pos {init : Nat} {slots : List Slot} : ∀ p ∈ bimgPlaced init slots, 0 < p.2.len := by
  intro p hp
  obtain ⟨a, _, h2, _⟩ := (bimg_mem_placed p).1 hp
  exact ((bimg_present_iff init p.2).1 h2).2

/-! ### indices: `slots[i]?`, `absOffsets`, `segOffset` against the layout -/

theorem bimg_layout_idx {init : Nat} {slots : List Slot} (g : BimgGeo init slots) (i : Nat) (s : Slot) (a : Nat)
    (hs : slots[i]? = some s) (ha : (absOffsets none slots)[i]? = some (some a)) :
    (bimgLayout 0 slots)[i]? = some (a, s) := by
  rw [g.abs, List.getElem?_map] at ha
  have hs' : ((bimgLayout 0 slots).map (·.2))[i]? = some s := by rw [bimgLayout_snd]; exact hs
  rw [List.getElem?_map] at hs'
  cases hl : (bimgLayout 0 slots)[i]? with
  | none => rw [hl] at ha; simp at ha
  | some p =>
    rw [hl] at ha hs'
    simp only [Option.map_some, Option.some.injEq] at ha hs'
    cases p
    simp_all

theorem bimg_layout_idx' {init : Nat} {slots : List Slot} (g : BimgGeo init slots) (i : Nat) (s : Slot) (a : Nat)
    (hl : (bimgLayout 0 slots)[i]? = some (a, s)) :
    slots[i]? = some s ∧ (absOffsets none slots)[i]? = some (some a) := by
  constructor
  · have : ((bimgLayout 0 slots).map (·.2))[i]? = some s := by rw [List.getElem?_map, hl]; rfl
    rw [bimgLayout_snd] at this
    exact this
  · rw [g.abs, List.getElem?_map, hl]; rfl

theorem bimg_segOffset_ok {init : Nat} {slots : List Slot} (g : BimgGeo init slots) (i : Nat) (s : Slot) (o : Int)
    (hs : slots[i]? = some s) (ho : segOffset init slots i = .ok o) :
    ∃ a, (bimgLayout 0 slots)[i]? = some (a, s) ∧ excluded init s.seg = false ∧ o = (a : Int) - init := by
  unfold segOffset at ho
  rw [hs] at ho
  cases ha : (absOffsets none slots)[i]? with
  | none => rw [ha] at ho; cases ho
  | some oa =>
    cases oa with
    | none => rw [ha] at ho; cases ho
    | some a =>
      rw [ha] at ho
      simp only [] at ho
      by_cases hex : excluded init s.seg = true
      · rw [if_pos hex] at ho; cases ho
      · rw [if_neg hex] at ho
        cases ho
        exact ⟨a, bimg_layout_idx g i s a hs ha, by simpa using hex, rfl⟩

theorem bimg_segOffset_of_layout {init : Nat} {slots : List Slot} (g : BimgGeo init slots) (i : Nat) (s : Slot)
    (a : Nat) (hl : (bimgLayout 0 slots)[i]? = some (a, s)) (hex : excluded init s.seg = false) :
    segOffset init slots i = .ok ((a : Int) - init) := by
  obtain ⟨h1, h2⟩ := bimg_layout_idx' g i s a hl
  unfold segOffset
  rw [h1, h2]
  simp [hex]

/-! ### the BinaryImage side -/

theorem bimg_insertSorted_append (c : Img) (l : List Img) (h : ∀ x ∈ l, x.offset ≤ c.offset) :
    insertSorted c l = l ++ [c] := by
  induction l with
  | nil => rfl
  | cons x xs ih =>
    have hx := h x (by simp)
    rw [insertSorted, if_neg (by omega), ih (fun y hy => h y (List.mem_cons_of_mem _ hy))]
    rfl

theorem bimg_fold_addImage (n : Nat) (pat : Option Pattern) (L : List (Nat × Slot)) (e : Nat) (C : List Img)
    (hch : bimgChain e L) (hC : ∀ c ∈ C, c.offset ≤ e) :
    L.foldl (fun p os => p.addImage (segImg os.1 os.2)) (Img.mk n 0 1 none pat C) =
      Img.mk n 0 1 none pat (C ++ L.map (fun os => segImg os.1 os.2)) := by
  induction L generalizing e C with
  | nil => simp
  | cons q r ih =>
    have hq := hch.1
    rw [List.foldl_cons]
    have hins : (Img.mk n 0 1 none pat C).addImage (segImg q.1 q.2) =
        Img.mk n 0 1 none pat (C ++ [segImg q.1 q.2]) := by
      simp only [Img.addImage]
      rw [bimg_insertSorted_append]
      intro x hx
      have := hC x hx
      show x.offset ≤ q.1
      omega
    rw [hins, ih (q.1 + q.2.len) _ hch.2]
    · simp
    · intro c hc
      rcases List.mem_append.1 hc with hc | hc
      · have := hC c hc; omega
      · simp only [List.mem_singleton] at hc
        subst hc
        show q.1 ≤ q.1 + q.2.len
        omega

theorem bimg_segImg_export (o : Nat) (s : Slot) (h : 0 < s.len) : (segImg o s).export = .ok s.bytes := by
  obtain ⟨b, h1, h2, h3, h4⟩ := bimg_len_pos s h
  have hb : b.isEmpty = false := by cases b <;> simp_all
  have hl : b.length ≠ 0 := by rw [← h3]; omega
  unfold segImg
  rw [h1, h3, h4, Img.export]
  simp [Img.len, hb, hl]

theorem bimg_blit (buf : Bytes) (off : Nat) (d : Bytes) (h : off + d.length ≤ buf.length) :
    ∃ buf', blit buf off d = .ok buf' ∧ buf'.length = buf.length ∧
      ∀ k, buf'[k]? = if off ≤ k ∧ k < off + d.length then d[k - off]? else buf[k]? := by
  unfold blit
  by_cases hd : d = []
  · subst hd
    refine ⟨buf, by simp, rfl, ?_⟩
    intro k
    have : ¬ (off ≤ k ∧ k < off + ([] : Bytes).length) := by simp
    rw [if_neg this]
  · have hd' : d.isEmpty = false := by cases d <;> simp_all
    refine ⟨buf.take off ++ d ++ buf.drop (off + d.length), by simp [hd', h], ?_, ?_⟩
    · simp; omega
    · intro k
      have hl : (buf.take off).length = off := by simp; omega
      by_cases h1 : k < off
      · have : ¬ (off ≤ k ∧ k < off + d.length) := by omega
        rw [if_neg this, List.append_assoc, List.getElem?_append_left (by omega), List.getElem?_take]
        simp [h1]
      · by_cases h2 : k < off + d.length
        · rw [if_pos ⟨by omega, h2⟩, List.append_assoc, List.getElem?_append_right (by omega), hl,
            List.getElem?_append_left (by omega)]
        · have : ¬ (off ≤ k ∧ k < off + d.length) := by omega
          rw [if_neg this, List.getElem?_append_right (by simp; omega), List.getElem?_drop]
          congr 1
          simp; omega

/-- placing a chain of present segments into a buffer that is long enough: the length stays, every segment's bytes
    sit at its offset, everything else is untouched -/
theorem bimg_placeChildren (L : List (Nat × Slot)) (e : Nat) (buf : Bytes) (hch : bimgChain e L)
    (hpos : ∀ p ∈ L, 0 < p.2.len) (hin : ∀ p ∈ L, p.1 + p.2.len ≤ buf.length) :
    ∃ buf', placeChildren (L.map (fun os => segImg os.1 os.2)) buf = .ok buf' ∧ buf'.length = buf.length ∧
      (∀ p ∈ L, ∀ k, k < p.2.len → buf'[p.1 + k]? = p.2.bytes[k]?) ∧
      (∀ k, (∀ p ∈ L, k < p.1 ∨ p.1 + p.2.len ≤ k) → buf'[k]? = buf[k]?) := by
  induction L generalizing e buf with
  | nil =>
    refine ⟨buf, by simp [placeChildren], rfl, ?_, fun _ _ => rfl⟩
    intro p hp; cases hp
  | cons q r ih =>
    have hql := bimg_bytes_length q.2
    obtain ⟨buf1, hb1, hl1, hg1⟩ := bimg_blit buf q.1 q.2.bytes (by
      rw [hql]; exact hin q (by simp))
    obtain ⟨buf', hb', hl', hat, hfree⟩ := ih (q.1 + q.2.len) buf1 hch.2
      (fun p hp => hpos p (List.mem_cons_of_mem _ hp))
      (fun p hp => by rw [hl1]; exact hin p (List.mem_cons_of_mem _ hp))
    have hrest := bimgChain_ge hch.2
    refine ⟨buf', ?_, by omega, ?_, ?_⟩
    · rw [List.map_cons, placeChildren, bimg_segImg_export q.1 q.2 (hpos q (by simp))]
      simp only []
      have hoff : (segImg q.1 q.2).offset = q.1 := rfl
      rw [hoff, hb1]
      exact hb'
    · intro p hp k hk
      rcases List.mem_cons.1 hp with rfl | hp
      · rw [hfree, hg1, if_pos (by omega)]
        · congr 1; omega
        · intro x hx
          have := hrest x hx
          omega
      · exact hat p hp k hk
    · intro k hk
      rw [hfree k (fun p hp => hk p (List.mem_cons_of_mem _ hp)), hg1 k]
      have := hk q (by simp)
      rw [if_neg (by omega)]

theorem bimg_block_zero (pat : Pattern) : pat.block 0 = [] := by
  cases pat <;> simp [Pattern.block, cycleTake]

theorem bimg_block (pat : Pattern) (n : Nat) (h : pat = .zeros ∨ pat = .ones) :
    pat.block n = List.replicate n (if pat = .ones then 0xFF else 0x00) := by
  rcases h with rfl | rfl <;> simp [Pattern.block]

theorem bimg_parent_export (n : Nat) (pat : Pattern) (ch : List Img) (buf : Bytes) (hn : n ≠ 0)
    (h : placeChildren ch (pat.block n) = .ok buf) :
    (Img.mk n 0 1 none (some pat) ch).export = .ok buf := by
  rw [Img.export.eq_2]
  · simp only [Img.len, hn, ne_eq, not_false_eq_true, if_true, ownBuf, patBlock]
    rw [h]
    simp [finishExport, bimg_alignNat_one, patBlock, bimg_block_zero]
  · intro b hb; cases hb

/-! ### the export, characterised pointwise -/

theorem bimg_take_drop_of_get {α} (b d : List α) (o : Nat) (h : ∀ j, j < d.length → b[o + j]? = d[j]?) :
    (b.drop o).take d.length = d := by
  apply List.ext_getElem?
  intro j
  rw [List.getElem?_take]
  by_cases hj : j < d.length
  · rw [if_pos hj, List.getElem?_drop, h j hj]
  · rw [if_neg hj]
    exact (List.getElem?_eq_none (by omega)).symm

/-- Under `Ctx` the export succeeds; `q` is the last present entry; the buffer has the reported length, holds every
    present entry's bytes at its offset and the fill byte everywhere else. -/
theorem bimg_export_char (d : Desc) (init : Nat) (raws : List (Option Bytes)) (h : Ctx d init raws) :
    ∃ b q, (bimgPlaced init (mkSlots d.segs raws)).getLast? = some q ∧
      exportImg d init raws = .ok b ∧ imageLen init (mkSlots d.segs raws) = .ok (q.1 + q.2.len) ∧
      b.length = q.1 + q.2.len ∧
      (∀ p ∈ bimgPlaced init (mkSlots d.segs raws), ∀ k, k < p.2.len → b[p.1 + k]? = p.2.bytes[k]?) ∧
      (∀ k, k < b.length → (∀ p ∈ bimgPlaced init (mkSlots d.segs raws), k < p.1 ∨ p.1 + p.2.len ≤ k) →
        b[k]? = some (if d.pattern = .ones then 0xFF else 0x00)) := by
  have g := bimg_geo d init raws h
  have hpat := (bimg_descOK_parts d h.ok).2.2.1
  obtain ⟨s, hs, hpr⟩ := h.nonempty
  have hs' : s ∈ (bimgLayout 0 (mkSlots d.segs raws)).map (·.2) := by rw [bimgLayout_snd]; exact hs
  obtain ⟨p, hp, rfl⟩ := List.mem_map.1 hs'
  have hmem : (p.1 - init, p.2) ∈ bimgPlaced init (mkSlots d.segs raws) :=
    (bimg_mem_placed _).2 ⟨p.1, hp, hpr, rfl⟩
  cases hlast : (bimgPlaced init (mkSlots d.segs raws)).getLast? with
  | none =>
    rw [List.getLast?_eq_none_iff] at hlast
    rw [hlast] at hmem
    cases hmem
  | some q =>
    have hch := bimg_placed_chain g
    have hposL := @bimg_placed_pos init (mkSlots d.segs raws)
    have hq := List.mem_of_getLast? hlast
    have hqpos := hposL q hq
    have hin := bimgChain_last hch q hlast
    have hn : q.1 + q.2.len ≠ 0 := by omega
    have hblk := bimg_block d.pattern (q.1 + q.2.len) hpat
    obtain ⟨buf, hb, hl, hat, hfree⟩ := bimg_placeChildren (bimgPlaced init (mkSlots d.segs raws)) 0
      (d.pattern.block (q.1 + q.2.len)) hch hposL (by
        intro p hp
        rw [hblk, List.length_replicate]
        exact (hin p hp).2)
    rw [hblk, List.length_replicate] at hl
    have hlen : imageLen init (mkSlots d.segs raws) = .ok (q.1 + q.2.len) := by
      unfold imageLen
      rw [bimg_placedSegs g]
      simp only []
      rw [hlast]
    refine ⟨buf, q, rfl, ?_, hlen, hl, hat, ?_⟩
    · unfold exportImg imageInfo
      simp only []
      rw [hlen, bimg_placedSegs g]
      simp only []
      rw [bimg_fold_addImage _ _ _ 0 [] hch (by intro c hc; cases hc), List.nil_append]
      exact bimg_parent_export _ _ _ _ hn hb
    · intro k hk hout
      rw [hfree k hout, hblk, List.getElem?_replicate, if_pos (by omega)]

theorem export_ok' (d : Desc) (init : Nat) (raws : List (Option Bytes)) (h : Ctx d init raws) :
    ∃ b, exportImg d init raws = .ok b ∧ imageLen init (mkSlots d.segs raws) = .ok b.length := by
  obtain ⟨b, q, _, hexp, hlen, hbl, _, _⟩ := bimg_export_char d init raws h
  exact ⟨b, hexp, by rw [hbl]; exact hlen⟩

theorem placed' (d : Desc) (init : Nat) (raws : List (Option Bytes)) (h : Ctx d init raws) (b : Bytes)
    (hb : exportImg d init raws = .ok b) (i : Nat) (s : Slot) (o : Int)
    (hs : (mkSlots d.segs raws)[i]? = some s) (hp : s.present init = true)
    (ho : segOffset init (mkSlots d.segs raws) i = .ok o) :
    0 ≤ o ∧ (b.drop o.toNat).take s.len = s.bytes := by
  obtain ⟨b', q, _, hexp, _, _, hat, _⟩ := bimg_export_char d init raws h
  rw [hexp] at hb
  cases hb
  have g := bimg_geo d init raws h
  obtain ⟨a, hl, hex, rfl⟩ := bimg_segOffset_ok g i s o hs ho
  have hmem := List.mem_of_getElem? hl
  have hge : init ≤ a := g.ge (a, s) hmem hex
  have hpl : (a - init, s) ∈ bimgPlaced init (mkSlots d.segs raws) := (bimg_mem_placed _).2 ⟨a, hmem, hp, rfl⟩
  refine ⟨by omega, ?_⟩
  have e1 : ((a : Int) - init).toNat = a - init := by omega
  rw [e1, ← bimg_bytes_length s]
  apply bimg_take_drop_of_get
  intro j hj
  rw [bimg_bytes_length] at hj
  exact hat _ hpl j hj

theorem no_overwrite' (d : Desc) (init : Nat) (raws : List (Option Bytes)) (h : Ctx d init raws)
    (i j : Nat) (s t : Slot) (oi oj : Int) (hij : i < j)
    (hs : (mkSlots d.segs raws)[i]? = some s) (ht : (mkSlots d.segs raws)[j]? = some t)
    (hps : s.present init = true) (hpt : t.present init = true)
    (hoi : segOffset init (mkSlots d.segs raws) i = .ok oi) (hoj : segOffset init (mkSlots d.segs raws) j = .ok oj) :
    oi + s.len ≤ oj := by
  have g := bimg_geo d init raws h
  obtain ⟨a, hl, hex, rfl⟩ := bimg_segOffset_ok g i s oi hs hoi
  obtain ⟨a', hl', hex', rfl⟩ := bimg_segOffset_ok g j t oj ht hoj
  have := bimgChain_idx g.chain i j (a, s) (a', t) hij hl hl'
  simp only at this
  omega

theorem gaps_pattern' (d : Desc) (init : Nat) (raws : List (Option Bytes)) (h : Ctx d init raws) (b : Bytes)
    (hb : exportImg d init raws = .ok b) (k : Nat) (hk : k < b.length)
    (hfree : ∀ i s o, (mkSlots d.segs raws)[i]? = some s → s.present init = true →
      segOffset init (mkSlots d.segs raws) i = .ok o → ¬ (o ≤ (k : Int) ∧ (k : Int) < o + s.len)) :
    b[k]? = some (if d.pattern = .ones then 0xFF else 0x00) := by
  obtain ⟨b', q, _, hexp, _, _, _, hout⟩ := bimg_export_char d init raws h
  rw [hexp] at hb
  cases hb
  have g := bimg_geo d init raws h
  apply hout k hk
  intro p hp
  obtain ⟨a, hmem, hpr, hpa⟩ := (bimg_mem_placed p).1 hp
  obtain ⟨i, hi⟩ := List.getElem?_of_mem hmem
  have hex := ((bimg_present_iff init p.2).1 hpr).1
  have hge : init ≤ a := g.ge (a, p.2) hmem hex
  have hoff := bimg_segOffset_of_layout g i p.2 a hi hex
  have := hfree i p.2 _ (bimg_layout_idx' g i p.2 a hi).1 hpr hoff
  omega

theorem bimg_excluded_zero (s : Seg) : excluded 0 s = false := by
  unfold excluded
  cases s.pos <;> simp

theorem bimg_present_zero (init : Nat) (s : Slot) (h : s.present init = true) : s.present 0 = true := by
  rw [bimg_present_iff] at h ⊢
  exact ⟨bimg_excluded_zero _, h.2⟩

theorem bimg_ctx_zero (d : Desc) (init : Nat) (raws : List (Option Bytes)) (h : Ctx d init raws) : Ctx d 0 raws := by
  obtain ⟨s, hs, hp⟩ := h.nonempty
  exact ⟨h.ok, h.len, Or.inl rfl, h.fits, ⟨s, hs, bimg_present_zero init s hp⟩⟩

theorem bimg_mem_placed_zero {slots : List Slot} (q : Nat × Slot) :
    q ∈ bimgPlaced 0 slots ↔ q ∈ bimgLayout 0 slots ∧ 0 < q.2.len := by
  rw [bimg_mem_placed]
  constructor
  · rintro ⟨a, h1, h2, h3⟩
    have : q = (a, q.2) := by cases q; simp at h3 ⊢; omega
    rw [this]
    exact ⟨h1, ((bimg_present_iff 0 q.2).1 h2).2⟩
  · rintro ⟨h1, h2⟩
    exact ⟨q.1, h1, (bimg_present_iff 0 q.2).2 ⟨bimg_excluded_zero _, h2⟩, rfl⟩

theorem export_init_drop' (d : Desc) (init : Nat) (raws : List (Option Bytes)) (h : Ctx d init raws) (b0 : Bytes)
    (h0 : exportImg d 0 raws = .ok b0) :
    exportImg d init raws = .ok (b0.drop init) := by
  have hc0 := bimg_ctx_zero d init raws h
  obtain ⟨b0', q0, hlast0, hexp0, _, hbl0, hat0, hout0⟩ := bimg_export_char d 0 raws hc0
  rw [hexp0] at h0
  cases h0
  obtain ⟨b, q, hlast, hexp, _, hbl, hat, hout⟩ := bimg_export_char d init raws h
  have g := bimg_geo d init raws h
  have g0 := bimg_geo d 0 raws hc0
  generalize mkSlots d.segs raws = slots at *
  have hch0 := bimg_placed_chain g0
  have hch := bimg_placed_chain g
  have hin0 := bimgChain_last hch0 q0 hlast0
  have hin := bimgChain_last hch q hlast
  -- entries of the two placements
  have hof : ∀ p ∈ bimgPlaced init slots,
      init ≤ p.1 + init ∧ (p.1 + init, p.2) ∈ bimgPlaced 0 slots ∧ 0 < p.2.len := by
    intro p hp
    obtain ⟨a, hmem, hpr, hpa⟩ := (bimg_mem_placed p).1 hp
    have hpi := (bimg_present_iff init p.2).1 hpr
    have hge : init ≤ a := g.ge (a, p.2) hmem hpi.1
    have e : p.1 + init = a := by omega
    rw [e]
    exact ⟨hge, (bimg_mem_placed_zero _).2 ⟨hmem, hpi.2⟩, hpi.2⟩
  have hto : ∀ p ∈ bimgPlaced 0 slots,
      p.1 + p.2.len ≤ init ∨ (init ≤ p.1 ∧ (p.1 - init, p.2) ∈ bimgPlaced init slots) := by
    intro p hp
    obtain ⟨hmem, hpos⟩ := (bimg_mem_placed_zero p).1 hp
    by_cases hex : excluded init p.2.seg = true
    · left; exact g.le p hmem hex
    · right
      have hex' : excluded init p.2.seg = false := by simpa using hex
      exact ⟨g.ge p hmem hex', (bimg_mem_placed _).2 ⟨p.1, hmem, (bimg_present_iff init p.2).2 ⟨hex', hpos⟩, rfl⟩⟩
  -- lengths
  have hq := List.mem_of_getLast? hlast
  have hq0 := List.mem_of_getLast? hlast0
  have hlen : b.length + init = b0.length := by
    obtain ⟨h1, h2, h3⟩ := hof q hq
    have h4 := (hin0 _ h2).2
    simp only at h4
    rcases hto q0 hq0 with h5 | ⟨h5, h6⟩
    · omega
    · have h7 := (hin _ h6).2
      simp only at h7
      omega
  rw [hexp]
  congr 1
  apply List.ext_getElem?
  intro k
  rw [List.getElem?_drop]
  by_cases hk : k < b.length
  · by_cases hcov : ∃ p ∈ bimgPlaced init slots, p.1 ≤ k ∧ k < p.1 + p.2.len
    · obtain ⟨p, hp, hk1, hk2⟩ := hcov
      obtain ⟨h1, h2, _⟩ := hof p hp
      have e1 := hat p hp (k - p.1) (by omega)
      have e2 := hat0 _ h2 (k - p.1) (by simp only; omega)
      simp only at e2
      have i1 : p.1 + (k - p.1) = k := by omega
      have i2 : p.1 + init + (k - p.1) = init + k := by omega
      rw [i1] at e1
      rw [i2] at e2
      rw [e1, e2]
    · rw [hout k hk, hout0 (init + k) (by omega)]
      · intro p hp
        rcases hto p hp with h5 | ⟨h5, h6⟩
        · right; omega
        · have : ¬ (p.1 - init ≤ k ∧ k < p.1 - init + p.2.len) := fun hh => hcov ⟨_, h6, hh⟩
          omega
      · intro p hp
        have : ¬ (p.1 ≤ k ∧ k < p.1 + p.2.len) := fun hh => hcov ⟨p, hp, hh⟩
        omega
  · rw [List.getElem?_eq_none (by omega), List.getElem?_eq_none (by omega)]

end SpsdkVerif.Bimg
