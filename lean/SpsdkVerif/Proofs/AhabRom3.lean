/- Third part of the tie between the exporter model and the independent checker: the whole file (`ahabCheck`):
   the container loop, "no container at offset 0", and the pairwise disjointness of all containers and images. -/
import SpsdkVerif.Proofs.AhabRom2

namespace SpsdkVerif.Ahab
open SpsdkVerif SpsdkVerif.Misc
open SpsdkVerif.Generated
open SpsdkVerif.Spec.AhabRom
open SpsdkVerif.Crypto (CryptoOps CryptoLaws)

/-! ### generic facts about the checker (no exporter involved) -/

/-- what `checkContainer` reports as index / base is the slot it was asked about -/
theorem checkContainer_index {c : CryptoOps} {p : Params} {bin : Bytes} {k : Nat} {dek : Option Bytes} {r : ContainerRep}
    (h : checkContainer c p bin k dek = .ok r) : r.index = k ∧ r.base = k * p.containerSize := by
  unfold checkContainer at h
  simp only at h
  split at h
  · cases h
  split at h
  · cases h
  split at h
  · cases h
  split at h
  · cases h
  split at h
  · cases h
  cases h
  exact ⟨rfl, rfl⟩

/-- the container loop: slots `k < reps.length` hold accepted containers no longer than a slot, no later slot looks like a
    container -/
theorem checkContainers_accepts (c : CryptoOps) (p : Params) (bin : Bytes) (deks : List (Option Bytes)) (reps : List ContainerRep)
    (K : Nat)
    (hok : ∀ k r, reps[k]? = some r → looksLikeContainer p bin (k * p.containerSize) = true ∧
      checkContainer c p bin k (deks.getD k none) = .ok r ∧ r.length ≤ p.containerSize)
    (hph : ∀ k, reps.length ≤ k → k < K → looksLikeContainer p bin (k * p.containerSize) = false) :
    ∀ (fuel k prevEnd : Nat), k + fuel ≤ K → prevEnd ≤ k * p.containerSize →
      checkContainers c p bin deks fuel k prevEnd = .ok ((reps.drop k).take fuel)
  | 0, _, _, _, _ => by simp [checkContainers]
  | fuel + 1, k, prevEnd, hK, hprev => by
    unfold checkContainers
    simp only
    by_cases hk : k < reps.length
    · obtain ⟨hl, hc, hlen⟩ := hok k reps[k] (by simp [hk])
      rw [if_pos ⟨hprev, hl⟩, hc]
      simp only
      have ih := checkContainers_accepts c p bin deks reps K hok hph fuel (k + 1) (k * p.containerSize + reps[k].length)
        (by omega) (by rw [Nat.succ_mul]; omega)
      rw [ih]
      simp only
      rw [← List.getElem_cons_drop hk, List.take_succ_cons]
    · have hl := hph k (by omega) (by omega)
      rw [if_neg (by rw [hl]; simp)]
      have ih := checkContainers_accepts c p bin deks reps K hok hph fuel (k + 1) prevEnd (by omega)
        (by rw [Nat.succ_mul]; omega)
      rw [ih, List.drop_of_length_le (by omega), List.drop_of_length_le (by omega)]
      simp

theorem pairwiseDisjoint_of_pairwise : ∀ (l : List (Nat × Nat)),
    l.Pairwise (fun a b => a.2 = 0 ∨ b.2 = 0 ∨ a.1 + a.2 ≤ b.1) → pairwiseDisjoint l = true
  | [], _ => rfl
  | (a, al) :: rest, h => by
    rw [List.pairwise_cons] at h
    unfold pairwiseDisjoint
    rw [Bool.and_eq_true, List.all_eq_true]
    refine ⟨fun x hx => ?_, pairwiseDisjoint_of_pairwise rest h.2⟩
    obtain ⟨b, bl⟩ := x
    have := h.1 (b, bl) hx
    simp only at this
    simp only [disjoint, Bool.or_eq_true, decide_eq_true_eq]
    omega

/-- the whole-file check, from its parts -/
theorem ahabCheck_of_parts (c : CryptoOps) (p : Params) (bin : Bytes) (deks : List (Option Bytes)) (reps : List ContainerRep)
    (hne : reps ≠ []) (hmax : reps.length ≤ p.maxContainers)
    (hok : ∀ k r, reps[k]? = some r → looksLikeContainer p bin (k * p.containerSize) = true ∧
      checkContainer c p bin k (deks.getD k none) = .ok r ∧ r.length ≤ p.containerSize)
    (hph : ∀ k, reps.length ≤ k → k < p.maxContainers → looksLikeContainer p bin (k * p.containerSize) = false)
    (hdis : (reps.map (fun r => (r.base, r.length)) ++ reps.flatMap (fun r => r.images.map (fun i => (i.offset, i.size)))).Pairwise
      (fun a b => a.2 = 0 ∨ b.2 = 0 ∨ a.1 + a.2 ≤ b.1)) :
    ahabCheck c p bin deks = .ok reps := by
  have hloop := checkContainers_accepts c p bin deks reps p.maxContainers hok hph p.maxContainers 0 0 (by omega) (by omega)
  rw [List.drop_zero, List.take_of_length_le hmax] at hloop
  unfold ahabCheck
  rw [hloop]
  cases reps with
  | nil => exact absurd rfl hne
  | cons r0 rest =>
    have h0 := (checkContainer_index (hok 0 r0 rfl).2.1).1
    simp only [List.head?_cons, Option.map_some, h0, ne_eq, not_true_eq_false, if_false]
    rw [if_pos (pairwiseDisjoint_of_pairwise _ hdis)]

/-! ### the exported file -/

theorem romParams_size (v : Ver) (maxC maxI : Nat) :
    (romParams v maxC maxI).containerSize = v.containerSize ∧ (romParams v maxC maxI).version = v.containerVersion ∧
    (romParams v maxC maxI).sbVersion = v.sigBlockVersion ∧ (romParams v maxC maxI).maxContainers = maxC ∧
    (romParams v maxC maxI).maxImages = maxI := by
  cases v <;> exact ⟨rfl, rfl, rfl, rfl, rfl⟩

/-- the header fields of the signature block of an exported container, read in the file (both container generations) -/
theorem sb_header_reads (v : Ver) (bin cb : Bytes) (base : Nat) (cont : Container) (iaes : List Iae)
    (hcb : slice bin base cb.length = cb) (hexp : exportContainerWith v cont iaes = .ok cb) (hb : BlobLenOK cont.sb) :
    cb.length = sigBlockOffset v iaes.length + (sbLayout v cont.sb).length ∧
    rd bin (base + sigBlockOffset v iaes.length) 1 = v.sigBlockVersion ∧
    rd bin (base + sigBlockOffset v iaes.length + 1) 2 = (sbLayout v cont.sb).length ∧
    rd bin (base + sigBlockOffset v iaes.length + 3) 1 = AhabConsts.sigBlockTag ∧
    rd bin (base + sigBlockOffset v iaes.length + 4) 2 = (sbLayout v cont.sb).certOff ∧
    rd bin (base + sigBlockOffset v iaes.length + 6) 2 = (sbLayout v cont.sb).srkOff ∧
    rd bin (base + sigBlockOffset v iaes.length + 8) 2 = (sbLayout v cont.sb).sigOff ∧
    rd bin (base + sigBlockOffset v iaes.length + 10) 2 = (sbLayout v cont.sb).blobOff := by
  obtain ⟨hd, ab, s, hdr0, e1, e2, e3, _, e5, e6, e7, _⟩ := exportContainer_spec v cont iaes cb hb hexp
  obtain ⟨hdr, sg, sg2, bl, hh, _, _, _, hslen, c0, _, _, _, _, _⟩ := sigblock_content v cont.sb s hb e3
  have L := sigblock_layout v cont.sb
  simp only at L
  obtain ⟨_, _, _, _, _, _, _, _, h16, _⟩ := L
  generalize ho : sbLayout v cont.sb = o at *
  unfold sbHeader at hh
  obtain ⟨hfh, rfl⟩ := packChecked_ok hh
  have hwh : (v.sbLayout).intWidths = [1, 2, 1, 2, 2, 2, 2, 4] := by cases v <;> rfl
  rw [hwh] at hfh c0
  have hrest : s = packInts [1, 2, 1, 2, 2, 2, 2, 4] [v.sigBlockVersion, o.length, AhabConsts.sigBlockTag, o.certOff, o.srkOff, o.sigOff,
      o.blobOff, cont.sb.keyId] ++ s.drop 16 := by
    have hl16 : (packInts [1, 2, 1, 2, 2, 2, 2, 4] [v.sigBlockVersion, o.length, AhabConsts.sigBlockTag, o.certOff, o.srkOff, o.sigOff,
      o.blobOff, cont.sb.keyId]).length = 16 := by rw [packInts_length _ _ hfh]; rfl
    have := drop_of_slice s _ 0 (by rw [hl16]; exact c0) (by rw [hl16]; omega)
    rw [hl16] at this
    simpa using this
  have hrd : ∀ i, i < 8 → rd s (intsLen (([1, 2, 1, 2, 2, 2, 2, 4] : List Nat).take i)) (([1, 2, 1, 2, 2, 2, 2, 4] : List Nat).getD i 0) =
      ([v.sigBlockVersion, o.length, AhabConsts.sigBlockTag, o.certOff, o.srkOff, o.sigOff, o.blobOff, cont.sb.keyId] : List Nat).getD i 0 := by
    intro i hi
    rw [hrest]
    exact rd_packInts _ _ _ i hfh (by simpa using hi)
  have s0 := hrd 0 (by decide); have s1 := hrd 1 (by decide); have s2 := hrd 2 (by decide); have s3 := hrd 3 (by decide)
  have s4 := hrd 4 (by decide); have s5 := hrd 5 (by decide); have s6 := hrd 6 (by decide)
  simp only [List.take_zero, List.take_succ_cons, List.take_nil, intsLen, List.foldr_cons, List.foldr_nil, List.getD_cons_zero,
    List.getD_cons_succ] at s0 s1 s2 s3 s4 s5 s6
  have hX : (hd ++ ab ++ zerosB (sigBlockOffset v iaes.length - (hd ++ ab).length)).length = sigBlockOffset v iaes.length := e6
  have rdS : ∀ k n, k + n ≤ s.length → rd bin (base + sigBlockOffset v iaes.length + k) n = rd s k n := by
    intro k n hk
    rw [Nat.add_assoc, rd_of_eq bin cb base (sigBlockOffset v iaes.length + k) n hcb (by rw [e7]; omega)]
    unfold rd
    rw [e5]
    have := slice_append_right (hd ++ ab ++ zerosB (sigBlockOffset v iaes.length - (hd ++ ab).length)) s k n
    rw [hX] at this
    rw [this]
  have hsl : s.length = o.length := hslen
  refine ⟨e7, ?_, ?_, ?_, ?_, ?_, ?_, ?_⟩
  · have := rdS 0 1 (by omega); rw [Nat.add_zero] at this; rw [this]; exact s0
  · rw [rdS 1 2 (by omega)]; exact s1
  · rw [rdS 3 1 (by omega)]; exact s2
  · rw [rdS 4 2 (by omega)]; exact s3
  · rw [rdS 6 2 (by omega)]; exact s4
  · rw [rdS 8 2 (by omega)]; exact s5
  · rw [rdS 10 2 (by omega)]; exact s6

/-- `rom_accepts`, signature-block part for an UNSIGNED container (SRK set "none", no SRK table, no signature), both container
    generations: accepted, and no signature obligation is reported -/
theorem checkSigBlock_accepts_unsigned (c : CryptoOps) (v : Ver) (maxC maxI : Nat) (bin cb : Bytes) (base : Nat) (cont : Container)
    (iaes : List Iae) (hcb : slice bin base cb.length = cb) (hexp : exportContainerWith v cont iaes = .ok cb)
    (hb : BlobLenOK cont.sb) (hset : cont.srkSet = 0) (hsrk : cont.sb.srk = []) (hsig : cont.sb.signature = []) :
    checkSigBlock c (romParams v maxC maxI) bin base cb.length (sigBlockOffset v iaes.length) cont.flags =
      .ok (0, 0, (sbLayout v cont.sb).certOff, (sbLayout v cont.sb).blobOff, (sbLayout v cont.sb).length, none) := by
  obtain ⟨hlen, R0, R1, R3, R4, R6, R8, R10⟩ := sb_header_reads v bin cb base cont iaes hcb hexp hb
  have L := sigblock_layout v cont.sb
  simp only at L
  obtain ⟨z1, z2, _, _, _, _, _, _, h16, _⟩ := L
  have hs1 : (sbLayout v cont.sb).srkOff = 0 := z1 (by rw [hsrk]; rfl)
  have hs2 : (sbLayout v cont.sb).sigOff = 0 := z2 (by
    unfold SigBlock.sigSize signatureLen
    cases v <;> simp [hsig])
  have F0 : cont.flags % 4 = 0 := by
    have := hset; unfold Container.srkSet at this; rw [getF_eq] at this
    have e : (2 : Nat) ^ AhabConsts.cFlagsSrkSetOffset = 1 := rfl
    have e2 : (2 : Nat) ^ AhabConsts.cFlagsSrkSetSize = 4 := rfl
    rw [e, e2, Nat.div_one] at this; exact this
  unfold checkSigBlock
  simp only [R0, R1, R3, R4, R6, R8, R10, (romParams_size v maxC maxI).2.2.1, hs1, hs2, F0]
  rw [if_neg (by rw [hlen]; show ¬ (_ + 16 > _); omega), if_neg (by decide), if_neg (by simp), if_neg (by rw [hlen]; simp)]
  simp

/-- container level, generic in the container generation and in the kind of signature block: whatever `checkSigBlock` answers
    for the exported container, `checkContainer` accepts header and entries and passes that answer on; the slot also
    `looksLikeContainer` -/
theorem checkContainer_accepts_gen (c : CryptoOps) (hc : CryptoLaws c) (img : Image) (bin : Bytes) (maxC maxI : Nat)
    (hexp : img.export c = .ok bin) (hA : 0 < img.chip.imageAlignment)
    (us : List UContainer) (hus : img.update c = .ok us) (k : Nat) (u : UContainer) (hk : us[k]? = some u)
    (hblob : BlobLenOK u.cont.sb) (hn : u.placed.length ≤ maxI)
    (hent : ∀ (i : Nat) (p : Placed), u.placed[i]? = some p → 0 < p.ready.size ∧
      ¬ (Iae.isEncrypted img.ver p.entry.flags = true ∧ u.cont.sb.blob.isSome = false) ∧
      (Iae.isEncrypted img.ver p.entry.flags = true → u.cont.sb.blob.isSome = true →
        p.ready.size = p.ready.image.length ∧ (storedImage img.chip p.entry.data).length % 16 = 0 ∧ u.cont.dek.isSome = true))
    (sbres : Nat × Nat × Nat × Nat × Nat × Option SigRep)
    (hsb : ∀ cb, u.export img.ver = .ok cb → slice bin (k * img.ver.containerSize) cb.length = cb →
      checkSigBlock c (romParams img.ver maxC maxI) bin (k * img.ver.containerSize) cb.length
        (sigBlockOffset img.ver u.placed.length) u.cont.flags = .ok sbres) :
    ∃ cb, u.export img.ver = .ok cb ∧ slice bin (k * img.ver.containerSize) cb.length = cb ∧
      cb.length = sigBlockOffset img.ver u.placed.length + (sbLayout img.ver u.cont.sb).length ∧
      looksLikeContainer (romParams img.ver maxC maxI) bin (k * img.ver.containerSize) = true ∧
      checkContainer c (romParams img.ver maxC maxI) bin k (if u.cont.sb.blob.isSome then u.cont.dek else none) =
        .ok ⟨k, k * img.ver.containerSize, cb.length, u.cont.flags, u.cont.swVersion, u.cont.fuseVersion,
             sigBlockOffset img.ver u.placed.length, sbres.1, sbres.2.1, sbres.2.2.1, sbres.2.2.2.1, sbres.2.2.2.2.1,
             u.placed.map (repOf img.ver), sbres.2.2.2.2.2⟩ := by
  obtain ⟨cb, hcbe, hbase, _, hsl⟩ := export_containers_fixed' c img bin hexp hA us hus k u hk hblob
  have hsb' := hsb cb hcbe hsl
  generalize hv : img.ver = v at *
  have hcbe' := hcbe
  unfold UContainer.export at hcbe'
  obtain ⟨hd, ab, s, hdr0, e1, e2, e3, _, e5, e6, e7, _⟩ := exportContainer_spec v u.cont _ cb hblob hcbe'
  simp only [List.length_map] at e1 e5 e6 e7
  refine ⟨cb, hcbe, hsl, e7, ?_⟩
  unfold encodeHeader at e1
  obtain ⟨hfh, rfl⟩ := packChecked_ok e1
  have hwh : (v.hdrLayout).intWidths = [1, 2, 1, 4, 2, 1, 1, 2, 2] := (hdrLayout_widths v).1
  rw [hwh] at hfh e5
  have hsbo := sbo_exact v u.placed.length
  have hcb16 : 16 ≤ cb.length := by rw [e7]; omega
  have rdH : ∀ i, i < 9 → rd bin (k * v.containerSize + intsLen (([1, 2, 1, 4, 2, 1, 1, 2, 2] : List Nat).take i))
      (([1, 2, 1, 4, 2, 1, 1, 2, 2] : List Nat).getD i 0) =
      ([v.containerVersion, headerLength v u.placed.length (sbLayout v u.cont.sb).length, AhabConsts.containerTag, u.cont.flags,
        u.cont.swVersion, u.cont.fuseVersion, u.placed.length, sigBlockOffset v u.placed.length, AhabConsts.reserved] : List Nat).getD i 0 := by
    intro i hi
    have hle : intsLen (([1, 2, 1, 4, 2, 1, 1, 2, 2] : List Nat).take i) + (([1, 2, 1, 4, 2, 1, 1, 2, 2] : List Nat).getD i 0) ≤ 16 := by
      have : i = 0 ∨ i = 1 ∨ i = 2 ∨ i = 3 ∨ i = 4 ∨ i = 5 ∨ i = 6 ∨ i = 7 ∨ i = 8 := by omega
      rcases this with h | h | h | h | h | h | h | h | h <;> subst h <;> decide
    rw [rd_of_eq bin cb (k * v.containerSize) _ _ hsl (by omega), e5, List.append_assoc, List.append_assoc]
    exact rd_packInts _ _ _ i hfh (by simpa using hi)
  have h0 := rdH 0 (by decide); have h1 := rdH 1 (by decide); have h2 := rdH 2 (by decide); have h3 := rdH 3 (by decide)
  have h4 := rdH 4 (by decide); have h5 := rdH 5 (by decide); have h6 := rdH 6 (by decide); have h7 := rdH 7 (by decide)
  simp only [List.take_zero, List.take_succ_cons, List.take_nil, intsLen, List.foldr_cons, List.foldr_nil, List.getD_cons_zero,
    List.getD_cons_succ, Nat.add_zero, Nat.reduceAdd] at h0 h1 h2 h3 h4 h5 h6 h7
  have hhl : headerLength v u.placed.length (sbLayout v u.cont.sb).length = cb.length := by
    unfold headerLength
    rw [(hdrLayout_widths v).2, (iaeLayout_facts v).2.2, e7, hsbo]; omega
  have hlenle : k * v.containerSize + cb.length ≤ bin.length := by
    have hl := congrArg List.length hsl
    simp only [slice, List.length_take, List.length_drop] at hl
    omega
  obtain ⟨pS, pV, _, _, pI⟩ := romParams_size v maxC maxI
  refine ⟨?_, ?_⟩
  · unfold looksLikeContainer
    rw [h0, h2, pV]
    have : decide (k * v.containerSize + headerSize ≤ bin.length) = true := by
      rw [decide_eq_true_eq]; show _ + 16 ≤ _; omega
    rw [this]
    simp [containerTag, AhabConsts.containerTag]
  -- entries
  have hu : u ∈ us := List.mem_of_getElem? hk
  have hEach : ∀ i r, (u.placed.map (repOf v))[i]? = some r →
      checkEntry c (romParams v maxC maxI) bin (k * v.containerSize) (k * v.containerSize + (16 + 128 * i))
        (if u.cont.sb.blob.isSome then u.cont.dek else none) = .ok r := by
    intro i r hi
    rw [List.getElem?_map] at hi
    cases hp : u.placed[i]? with
    | none => rw [hp] at hi; cases hi
    | some p =>
      rw [hp] at hi; simp only [Option.map_some, Option.some.injEq] at hi
      subst hi
      obtain ⟨hs0, hnb, hne⟩ := hent i p hp
      have := rom_accepts_entry' c hc img bin maxC maxI hexp hA us hus u hu i p hp hblob hs0
        (by rw [hv]; exact hne)
      rw [hv] at this
      rcases this with hbad | hok
      · exact absurd hbad hnb
      · rw [hbase] at hok
        exact hok
  have hentries := checkEntries_of_each c (romParams v maxC maxI) bin (k * v.containerSize)
    (if u.cont.sb.blob.isSome then u.cont.dek else none) (u.placed.map (repOf v)) u.placed.length 0 (by simp) hEach
  rw [List.drop_zero, Nat.mul_zero, Nat.add_zero] at hentries
  obtain ⟨r1, r2, r3, r4, r5, r6⟩ := sbres
  unfold checkContainer
  simp only [pS, pI, h1, h3, h4, h5, h6, h7, hhl]
  rw [if_neg (by omega), if_neg (by omega),
    if_neg (by rw [hsbo]; show ¬ (_ < 16 + _ * 128 ∨ _ % 8 ≠ 0); omega)]
  have e16 : k * v.containerSize + headerSize = k * v.containerSize + 16 := rfl
  rw [e16, hentries]
  simp only
  rw [hsb']

theorem sigSize_ge8 (v : Ver) (sb : SigBlock) (hsig : sb.signature ≠ []) : 8 + sb.signature.length ≤ sb.sigSize v := by
  have hsgE : sb.signature.isEmpty = false := by cases hx : sb.signature <;> simp_all
  have hsl8 : signatureLen sb.signature = 8 + sb.signature.length := by
    unfold signatureLen; rw [hsgE]; rfl
  unfold SigBlock.sigSize
  cases v
  · simp only; omega
  · simp only [hsgE, Bool.false_eq_true, if_false]; omega

/-- the header of the (first) signature container of an exported container, read in the file -/
theorem sig_header_reads (v : Ver) (bin cb : Bytes) (base : Nat) (cont : Container) (iaes : List Iae)
    (hcb : slice bin base cb.length = cb) (hexp : exportContainerWith v cont iaes = .ok cb) (hb : BlobLenOK cont.sb)
    (hsig : cont.sb.signature ≠ []) :
    rd bin (base + sigBlockOffset v iaes.length + (sbLayout v cont.sb).sigOff + 3) 1 = AhabConsts.signatureTag ∧
    rd bin (base + sigBlockOffset v iaes.length + (sbLayout v cont.sb).sigOff + 1) 2 = 8 + cont.sb.signature.length := by
  obtain ⟨hd, ab, s, hdr0, e1, e2, e3, _, e5, e6, e7, _⟩ := exportContainer_spec v cont iaes cb hb hexp
  obtain ⟨hdr, sg, sg2, bl, hh, hsg, hsg2, hbl, hslen, c0, cS, cG, _, _, _⟩ := sigblock_content v cont.sb s hb e3
  have L := sigblock_layout v cont.sb
  simp only at L
  obtain ⟨_, _, _, _, _, p2, _, _, h16, _⟩ := L
  have hge := sigSize_ge8 v cont.sb hsig
  have q2 := (p2 (by omega)).2.2
  have hsgE : cont.sb.signature.isEmpty = false := by cases hx : cont.sb.signature <;> simp_all
  have hsgl := encodeSignature_length hsg
  have hsl8 : signatureLen cont.sb.signature = 8 + cont.sb.signature.length := by
    unfold signatureLen; rw [hsgE]; rfl
  have hsgne : sg ≠ [] := by intro h0; rw [h0] at hsgl; simp at hsgl; omega
  generalize ho : sbLayout v cont.sb = o at *
  unfold encodeSignature at hsg
  rw [hsgE] at hsg
  simp only [Bool.false_eq_true, if_false] at hsg
  cases hpg : packChecked AhabConsts.signatureLayout.intWidths
      [AhabConsts.signatureVersion, AhabConsts.signatureLayout.size + cont.sb.signature.length, AhabConsts.signatureTag, AhabConsts.reserved] with
  | error e => rw [hpg] at hsg; cases hsg
  | ok hbg =>
    rw [hpg] at hsg; cases hsg
    obtain ⟨hfg, rfl⟩ := packChecked_ok hpg
    have hwg : AhabConsts.signatureLayout.intWidths = [1, 2, 1, 4] := rfl
    rw [hwg] at hfg cG hsgl hsgne
    have g1 := rd_packInts [1, 2, 1, 4] _ cont.sb.signature 1 hfg (by decide)
    have g2 := rd_packInts [1, 2, 1, 4] _ cont.sb.signature 2 hfg (by decide)
    simp only [List.take_zero, List.take_succ_cons, intsLen, List.foldr_cons, List.foldr_nil, List.getD_cons_zero,
      List.getD_cons_succ] at g1 g2
    have hX : (hd ++ ab ++ zerosB (sigBlockOffset v iaes.length - (hd ++ ab).length)).length = sigBlockOffset v iaes.length := e6
    have rdS : ∀ k n, k + n ≤ s.length → rd bin (base + sigBlockOffset v iaes.length + k) n = rd s k n := by
      intro k n hk
      rw [Nat.add_assoc, rd_of_eq bin cb base (sigBlockOffset v iaes.length + k) n hcb (by rw [e7]; omega)]
      unfold rd
      rw [e5]
      have := slice_append_right (hd ++ ab ++ zerosB (sigBlockOffset v iaes.length - (hd ++ ab).length)) s k n
      rw [hX] at this
      rw [this]
    have rdG : ∀ k n, k + n ≤ 8 + cont.sb.signature.length → rd s (o.sigOff + k) n =
        rd (packInts [1, 2, 1, 4] [AhabConsts.signatureVersion, AhabConsts.signatureLayout.size + cont.sb.signature.length,
          AhabConsts.signatureTag, AhabConsts.reserved] ++ cont.sb.signature) k n :=
      fun k n hk => rd_of_eq s _ o.sigOff k n (cG hsgne) (by rw [hsgl, hsl8]; exact hk)
    have hsl : s.length = o.length := hslen
    refine ⟨?_, ?_⟩
    · rw [Nat.add_assoc (base + sigBlockOffset v iaes.length), rdS (o.sigOff + 3) 1 (by omega), rdG 3 1 (by omega)]; exact g2
    · rw [Nat.add_assoc (base + sigBlockOffset v iaes.length), rdS (o.sigOff + 1) 2 (by omega), rdG 1 2 (by omega)]; exact g1

/-- `rom_accepts`, signature-block part (container version 2, signed; the SRK table array is opaque to the checker): accepted,
    and the report names the signed range, the SRK table array region and the (first) signature -/
theorem checkSigBlock_accepts_v2 (c : CryptoOps) (maxC maxI : Nat) (bin cb : Bytes) (base : Nat) (cont : Container) (iaes : List Iae)
    (hcb : slice bin base cb.length = cb) (hexp : exportContainerWith .v2 cont iaes = .ok cb)
    (hb : BlobLenOK cont.sb) (hsrk : cont.sb.srk ≠ []) (hsig : cont.sb.signature ≠ [])
    (hset : cont.srkSet ≠ 0) (hrev : (cont.revokeMask >>> cont.usedSrkId) % 2 = 0) :
    checkSigBlock c (paramsV2 maxC maxI) bin base cb.length (sigBlockOffset .v2 iaes.length) cont.flags =
      .ok ((sbLayout .v2 cont.sb).srkOff, (sbLayout .v2 cont.sb).sigOff, (sbLayout .v2 cont.sb).certOff, (sbLayout .v2 cont.sb).blobOff,
           (sbLayout .v2 cont.sb).length,
           some ⟨sigBlockOffset .v2 iaes.length + (sbLayout .v2 cont.sb).sigOff,
                 base + sigBlockOffset .v2 iaes.length + (sbLayout .v2 cont.sb).srkOff,
                 (sbLayout .v2 cont.sb).sigOff - (sbLayout .v2 cont.sb).srkOff, 0, 0, cont.usedSrkId,
                 base + sigBlockOffset .v2 iaes.length + (sbLayout .v2 cont.sb).sigOff + 8, cont.sb.signature.length, []⟩) := by
  obtain ⟨hcbl, R0, R1, R3, R4, R6, R8, R10⟩ := sb_header_reads .v2 bin cb base cont iaes hcb hexp hb
  obtain ⟨G3, G1⟩ := sig_header_reads .v2 bin cb base cont iaes hcb hexp hb hsig
  have L := sigblock_layout .v2 cont.sb
  simp only at L
  obtain ⟨z1, z2, z3, z4, p1, p2, p3, p4, h16, _⟩ := L
  have hsrkl : cont.sb.srk.length ≠ 0 := fun h => hsrk (List.length_eq_zero_iff.1 h)
  have hge := sigSize_ge8 .v2 cont.sb hsig
  have q1 := p1 hsrkl
  have q2 := p2 (by omega)
  have q2s := q2.2.1 hsrkl
  have F0 : cont.flags % 4 ≠ 0 := by
    have := hset; unfold Container.srkSet at this; rw [getF_eq] at this
    have e : (2 : Nat) ^ AhabConsts.cFlagsSrkSetOffset = 1 := rfl
    have e2 : (2 : Nat) ^ AhabConsts.cFlagsSrkSetSize = 4 := rfl
    rw [e, e2, Nat.div_one] at this; exact this
  have FU : (cont.flags >>> 4) % 4 = cont.usedSrkId := by
    unfold Container.usedSrkId; rw [getF_eq, Nat.shiftRight_eq_div_pow]; rfl
  have FR : (cont.flags >>> 8) % 16 = cont.revokeMask := by
    unfold Container.revokeMask; rw [getF_eq, Nat.shiftRight_eq_div_pow]; rfl
  have hblob8 : ∀ b, cont.sb.blob = some b → cont.sb.blobLen = b.length ∧ 8 ≤ b.length := by
    intro b hbs
    have := hb b hbs
    have hs4 : cont.sb.blobLen = b.length := by simp [SigBlock.blobLen, hbs]
    exact ⟨hs4, by omega⟩
  generalize ho : sbLayout .v2 cont.sb = o at *
  generalize hS : cont.sb.sigSize .v2 = S at *
  generalize hT : cont.sb.srk.length = T at *
  generalize hG : cont.sb.signature.length = G at *
  have q3 : o.certOff ≠ 0 → o.sigOff + (8 + G) ≤ o.certOff := by
    intro hc
    have hcl : cont.sb.cert.length ≠ 0 := fun h => hc (z3 h)
    have := (p3 hcl).2.2.1 (by omega); omega
  have q4 : o.blobOff ≠ 0 → (o.certOff ≠ 0 → o.certOff ≤ o.blobOff) ∧ o.sigOff + (8 + G) ≤ o.blobOff ∧
      o.blobOff + 8 ≤ o.length := by
    intro hbo
    have hbl0 : cont.sb.blobLen ≠ 0 := fun h => hbo (z4 h)
    have q := p4 hbl0
    refine ⟨fun hc => ?_, by have := q.2.2.1 (by omega); omega, ?_⟩
    · have hcl : cont.sb.cert.length ≠ 0 := fun h => hc (z3 h)
      have := q.2.2.2.1 hcl; omega
    · cases hbs : cont.sb.blob with
      | none => simp [SigBlock.blobLen, hbs] at hbl0
      | some b =>
        have := hblob8 b hbs
        have := q.2.2.2.2; omega
  have c1 : ¬ (sigBlockOffset .v2 iaes.length + sigBlockHeaderSize > cb.length) := by
    rw [hcbl]; show ¬ (_ + 16 > _); omega
  have c5 : ¬ (o.srkOff < 16) := by omega
  have c6 : ¬ (o.sigOff ≤ o.srkOff) := by omega
  have c7 : ¬ ((cont.revokeMask >>> cont.usedSrkId) % 2 = 1) := by omega
  have c8 : ¬ (o.sigOff + 8 > o.length) := by omega
  have c9 : ¬ (AhabConsts.signatureTag ≠ signatureTag) := by decide
  have c10 : ¬ (8 + G ≤ 8 ∨ o.sigOff + (8 + G) > o.length) := by
    have : 0 < G := by rw [← hG]; exact List.length_pos_iff.2 hsig
    omega
  have c12 : ¬ (o.certOff ≠ 0 ∧ o.certOff < o.sigOff + (8 + G)) := by
    intro ⟨h1, h2⟩; have := q3 h1; omega
  have c13 : ¬ (o.blobOff ≠ 0 ∧ o.blobOff < if o.certOff ≠ 0 then o.certOff else o.sigOff + (8 + G)) := by
    intro ⟨h1, h2⟩
    have q := q4 h1
    split at h2
    · rename_i hc; have := q.1 hc; omega
    · omega
  have c14 : ¬ (o.blobOff ≠ 0 ∧ o.blobOff + 8 > o.length) := by
    intro ⟨h1, h2⟩; have := (q4 h1).2.2; omega
  unfold checkSigBlock
  simp only [paramsV2, R3, R0, R1, R4, R6, R8, R10, FU, FR, G3, G1]
  rw [if_neg c1, if_neg (by decide), if_neg (by decide), if_neg (by rw [hcbl]; simp), if_neg F0,
    if_neg (show ¬ (o.srkOff < sigBlockHeaderSize) from c5), if_neg c6, if_neg c7, if_neg c8, if_neg c9, if_neg c10,
    if_neg c12, if_neg c13, if_neg c14]
  simp only [Bool.false_eq_true, if_false]
  rw [show 8 + G - 8 = G from by omega]

/-! ### the whole file -/

/-- the kinds of authentication for which the signature-block check of the independent checker is proved to accept:
    not signed at all (SRK set "none": no SRK table, no signature; either container generation), signed with an SRK table
    (container version 1), or signed with an SRK table array (container version 2, the array opaque to the checker), in
    both cases by a key that is not revoked -/
inductive SigKind (v : Ver) (cont : Container) : Prop
  | unsigned (hset : cont.srkSet = 0) (hsrk : cont.sb.srk = []) (hsig : cont.sb.signature = [])
  | signedV1 (t : SrkTable) (hv : v = .v1) (ht : SrkTableWF t) (hte : encodeSrkTable t = .ok cont.sb.srk)
      (hsig : cont.sb.signature ≠ []) (hset : cont.srkSet ≠ 0) (hrev : (cont.revokeMask >>> cont.usedSrkId) % 2 = 0)
  | signedV2 (hv : v = .v2) (hsrk : cont.sb.srk ≠ []) (hsig : cont.sb.signature ≠ []) (hset : cont.srkSet ≠ 0)
      (hrev : (cont.revokeMask >>> cont.usedSrkId) % 2 = 0)

/-- `checkSigBlock` on an exported container of either kind: accepted; a signature obligation is reported exactly for a
    signed container and names the signed range `[base, base + signature block offset + signature offset)` and the signature -/
theorem checkSigBlock_accepts_kind (c : CryptoOps) (v : Ver) (maxC maxI : Nat) (bin cb : Bytes) (base : Nat) (cont : Container)
    (iaes : List Iae) (hcb : slice bin base cb.length = cb) (hexp : exportContainerWith v cont iaes = .ok cb)
    (hb : BlobLenOK cont.sb) (hkind : SigKind v cont) :
    ∃ sg, checkSigBlock c (romParams v maxC maxI) bin base cb.length (sigBlockOffset v iaes.length) cont.flags =
        .ok ((sbLayout v cont.sb).srkOff, (sbLayout v cont.sb).sigOff, (sbLayout v cont.sb).certOff, (sbLayout v cont.sb).blobOff,
             (sbLayout v cont.sb).length, sg) ∧
      (sg = none ↔ cont.srkSet = 0) ∧
      ∀ s, sg = some s → s.signedLen = sigBlockOffset v iaes.length + (sbLayout v cont.sb).sigOff ∧
        s.sigOff = base + sigBlockOffset v iaes.length + (sbLayout v cont.sb).sigOff + 8 ∧ s.sigLen = cont.sb.signature.length ∧
        s.usedSrk = cont.usedSrkId ∧ (v = .v1 → s.srkHash = c.hash .sha256 cont.sb.srk) := by
  cases hkind with
  | unsigned hset hsrk hsig =>
    have h := checkSigBlock_accepts_unsigned c v maxC maxI bin cb base cont iaes hcb hexp hb hset hsrk hsig
    have L := sigblock_layout v cont.sb
    simp only at L
    obtain ⟨z1, z2, _⟩ := L
    have hs1 : (sbLayout v cont.sb).srkOff = 0 := z1 (by rw [hsrk]; rfl)
    have hs2 : (sbLayout v cont.sb).sigOff = 0 := z2 (by
      unfold SigBlock.sigSize signatureLen
      cases v <;> simp [hsig])
    refine ⟨none, ?_, by simp [hset], fun s hs => by cases hs⟩
    rw [h, hs1, hs2]
  | signedV1 t hv ht hte hsig hset hrev =>
    subst hv
    obtain ⟨P, _, h⟩ := checkSigBlock_accepts_v1 c maxC maxI bin cb base cont iaes t hcb hexp hb ht hte hsig hset hrev
    refine ⟨_, h, by simp [hset], fun s hs => ?_⟩
    simp only [Option.some.injEq] at hs
    subst hs
    exact ⟨rfl, rfl, rfl, rfl, fun _ => rfl⟩
  | signedV2 hv hsrk hsig hset hrev =>
    subst hv
    have h := checkSigBlock_accepts_v2 c maxC maxI bin cb base cont iaes hcb hexp hb hsrk hsig hset hrev
    refine ⟨_, h, by simp [hset], fun s hs => ?_⟩
    simp only [Option.some.injEq] at hs
    subst hs
    exact ⟨rfl, rfl, rfl, rfl, fun h => by cases h⟩

/-- what the checker reports for slot `k` (used only to name the list of reports) -/
def repOfCheck (c : CryptoOps) (p : Params) (bin : Bytes) (k : Nat) (dek : Option Bytes) : ContainerRep :=
  match checkContainer c p bin k dek with
  | .ok r => r
  | .error _ => ⟨0, 0, 0, 0, 0, 0, 0, 0, 0, 0, 0, 0, [], none⟩

theorem repOfCheck_eq {c : CryptoOps} {p : Params} {bin : Bytes} {k : Nat} {dek : Option Bytes} {r : ContainerRep}
    (h : checkContainer c p bin k dek = .ok r) : repOfCheck c p bin k dek = r := by
  unfold repOfCheck; rw [h]

/-- the DEK handed to the checker for a container: the one of its blob, if it has a blob -/
def dekOf (u : UContainer) : Option Bytes := if u.cont.sb.blob.isSome then u.cont.dek else none

theorem flatMap_images (f : ImageRep → Nat × Nat) (g : Placed → ImageRep) : ∀ (reps : List ContainerRep) (us : List UContainer),
    reps.length = us.length → (∀ (k : Nat) (r : ContainerRep) (u : UContainer), reps[k]? = some r → us[k]? = some u → r.images = u.placed.map g) →
    reps.flatMap (fun r => r.images.map f) = (allPlaced us).map (fun p => f (g p))
  | [], [], _, _ => rfl
  | [], _ :: _, h, _ => by simp at h
  | _ :: _, [], h, _ => by simp at h
  | r :: reps, u :: us, hl, h => by
    have h0 := h 0 r u rfl rfl
    have ih := flatMap_images f g reps us (by simpa using hl) (fun k r' u' hr hu => h (k + 1) r' u' (by simpa using hr) (by simpa using hu))
    unfold allPlaced at ih ⊢
    rw [List.flatMap_cons, List.flatMap_cons, List.map_append, ih, h0, List.map_map]
    rfl

/-- what is known about the report `r` of container `k` (exported bytes `cb`) -/
structure RepFacts (c : CryptoOps) (img : Image) (bin : Bytes) (maxC maxI k : Nat) (u : UContainer) (r : ContainerRep) (cb : Bytes) : Prop where
  look : looksLikeContainer (romParams img.ver maxC maxI) bin (k * img.ver.containerSize) = true
  exp : u.export img.ver = .ok cb
  sl : slice bin (k * img.ver.containerSize) cb.length = cb
  index : r.index = k
  base : r.base = k * img.ver.containerSize
  len : r.length = cb.length
  flags : r.flags = u.cont.flags
  sw : r.swVersion = u.cont.swVersion
  fuse : r.fuseVersion = u.cont.fuseVersion
  images : r.images = u.placed.map (repOf img.ver)
  signone : r.sig = none ↔ u.cont.srkSet = 0
  sigsome : ∀ s, r.sig = some s → s.signedLen = sigBlockOffset img.ver u.placed.length + (sbLayout img.ver u.cont.sb).sigOff ∧
    s.sigOff = k * img.ver.containerSize + sigBlockOffset img.ver u.placed.length + (sbLayout img.ver u.cont.sb).sigOff + 8 ∧
    s.sigLen = u.cont.sb.signature.length ∧ s.usedSrk = u.cont.usedSrkId ∧
    (img.ver = .v1 → s.srkHash = c.hash .sha256 u.cont.sb.srk)

/-- `rom_accepts`, the whole file: for every `c` with `CryptoLaws c`, `ahabCheck` of the independent checker accepts an exported
    image - every container slot `k < n` is recognised, starts behind the previous container, passes `checkContainer` (header,
    entries: placement, hash, decryption; signature block); no later slot is taken for a container; containers and images are
    pairwise disjoint - and reports, per container, index, base `k * CONTAINER_SIZE`, flags, the images and (exactly for a
    signed container) the signed range and signature for the signature obligation.
    Hypotheses: each container is unsigned or signed by a key that is not revoked (`SigKind`), fits its slot, its entries are outside the open
    finding C06-encrypted-size-alignment; no explicit offset points behind the cursor; the slots behind the last container do
    not happen to hold a container header (they are zero filled unless an image was explicitly placed there); the containers
    end before the first image address. -/
theorem ahabCheck_accepts (c : CryptoOps) (hc : CryptoLaws c) (img : Image) (bin : Bytes) (maxC maxI : Nat)
    (hexp : img.export c = .ok bin) (hA : 0 < img.chip.imageAlignment)
    (us : List UContainer) (hus : img.update c = .ok us) (hne : us ≠ []) (hmax : us.length ≤ maxC)
    (hcont : ∀ u ∈ us, BlobLenOK u.cont.sb ∧ u.placed.length ≤ maxI ∧ SigKind img.ver u.cont ∧
      (∀ cb, u.export img.ver = .ok cb → cb.length ≤ img.ver.containerSize) ∧
      ∀ (i : Nat) (p : Placed), u.placed[i]? = some p → 0 < p.ready.size ∧
        ¬ (Iae.isEncrypted img.ver p.entry.flags = true ∧ u.cont.sb.blob.isSome = false) ∧
        (Iae.isEncrypted img.ver p.entry.flags = true → u.cont.sb.blob.isSome = true →
          p.ready.size = p.ready.image.length ∧ (storedImage img.chip p.entry.data).length % 16 = 0 ∧ u.cont.dek.isSome = true))
    (hph : ∀ m, us.length ≤ m → m < maxC →
      looksLikeContainer (romParams img.ver maxC maxI) bin (m * img.ver.containerSize) = false)
    (ha : ExplicitAhead img.chip img.ver (img.chip.startAddr img.ver) (allPlaced us))
    (hstart : us.length * img.ver.containerSize ≤ img.chip.startAddr img.ver) :
    ∃ reps, ahabCheck c (romParams img.ver maxC maxI) bin (us.map dekOf) = .ok reps ∧ reps.length = us.length ∧
      ∀ k u r, us[k]? = some u → reps[k]? = some r →
        r.index = k ∧ r.base = k * img.ver.containerSize ∧ r.flags = u.cont.flags ∧ r.swVersion = u.cont.swVersion ∧
        r.fuseVersion = u.cont.fuseVersion ∧ r.images = u.placed.map (repOf img.ver) ∧
        u.export img.ver = .ok (slice bin r.base r.length) ∧
        (r.sig = none ↔ u.cont.srkSet = 0) ∧
        ∀ s, r.sig = some s → s.signedLen = sigBlockOffset img.ver u.placed.length + (sbLayout img.ver u.cont.sb).sigOff ∧
          s.sigOff = r.base + s.signedLen + 8 ∧ s.sigLen = u.cont.sb.signature.length ∧ s.usedSrk = u.cont.usedSrkId ∧
          (img.ver = .v1 → s.srkHash = c.hash .sha256 u.cont.sb.srk) := by
  obtain ⟨pS, _, _, pC, _⟩ := romParams_size img.ver maxC maxI
  -- per container
  have hper : ∀ (k : Nat) (u : UContainer), us[k]? = some u → ∃ r cb, checkContainer c (romParams img.ver maxC maxI) bin k (dekOf u) = .ok r ∧
      RepFacts c img bin maxC maxI k u r cb := by
    intro k u hk
    have hu : u ∈ us := List.mem_of_getElem? hk
    obtain ⟨hblob, hn, hkind, _, hent⟩ := hcont u hu
    obtain ⟨cb0, hcbe0, _, _, hsl0⟩ := export_containers_fixed' c img bin hexp hA us hus k u hk hblob
    have hcbe0' := hcbe0
    unfold UContainer.export at hcbe0'
    obtain ⟨sg, hsb, hnone, hsome⟩ := checkSigBlock_accepts_kind c img.ver maxC maxI bin cb0 (k * img.ver.containerSize) u.cont _
      hsl0 hcbe0' hblob hkind
    simp only [List.length_map] at hsb hsome
    obtain ⟨cb, hcbe, hsl, _, hlook, hchk⟩ := checkContainer_accepts_gen c hc img bin maxC maxI hexp hA us hus k u hk hblob hn hent _
      (fun cb' hcb' _ => by rw [hcbe0] at hcb'; cases hcb'; exact hsb)
    exact ⟨_, cb, hchk, ⟨hlook, hcbe, hsl, rfl, rfl, rfl, rfl, rfl, rfl, rfl, hnone, hsome⟩⟩
  let reps : List ContainerRep := (List.range us.length).map
    (fun k => repOfCheck c (romParams img.ver maxC maxI) bin k ((us.map dekOf).getD k none))
  have hrl : reps.length = us.length := by simp [reps]
  have hdek : ∀ (k : Nat) (u : UContainer), us[k]? = some u → (us.map dekOf).getD k none = dekOf u := by
    intro k u hk
    simp [List.getD, List.getElem?_map, hk]
  have hrep : ∀ (k : Nat) (u : UContainer) (r : ContainerRep), us[k]? = some u → reps[k]? = some r →
      checkContainer c (romParams img.ver maxC maxI) bin k (dekOf u) = .ok r := by
    intro k u r hk hr
    have hkl : k < us.length := (List.getElem?_eq_some_iff.1 hk).1
    obtain ⟨r', cb, hchk, _⟩ := hper k u hk
    have : reps[k]? = some (repOfCheck c (romParams img.ver maxC maxI) bin k ((us.map dekOf).getD k none)) := by
      simp [reps, List.getElem?_map, List.getElem?_range hkl]
    rw [this, hdek k u hk, repOfCheck_eq hchk] at hr
    cases hr
    exact hchk
  have hfacts : ∀ (k : Nat) (u : UContainer) (r : ContainerRep), us[k]? = some u → reps[k]? = some r → ∃ cb, RepFacts c img bin maxC maxI k u r cb := by
    intro k u r hk hr
    obtain ⟨r', cb, hchk, rest⟩ := hper k u hk
    have := hrep k u r hk hr
    rw [hchk] at this
    cases this
    exact ⟨cb, rest⟩
  have hus_of : ∀ (k : Nat) (r : ContainerRep), reps[k]? = some r → ∃ u, us[k]? = some u := by
    intro k r hr
    have hkl : k < us.length := by rw [← hrl]; exact (List.getElem?_eq_some_iff.1 hr).1
    exact ⟨us[k], by simp [hkl]⟩
  refine ⟨reps, ?_, hrl, ?_⟩
  · have hord := assigned_ordered img.chip img.ver _ _ (updateContainers_assigned c img.chip img.ver img.containers 0 _ us hus) ha
    have hpw := OrderedFrom_pairwise _ _ hord
    have hge := OrderedFrom_ge _ _ hord
    apply ahabCheck_of_parts
    · intro h
      have : reps.length = 0 := by rw [h]; rfl
      rw [hrl] at this
      exact hne (List.length_eq_zero_iff.1 this)
    · rw [pC, hrl]; exact hmax
    · intro k r hr
      obtain ⟨u, hk⟩ := hus_of k r hr
      obtain ⟨cb, F⟩ := hfacts k u r hk hr
      have hu : u ∈ us := List.mem_of_getElem? hk
      refine ⟨by rw [pS]; exact F.look, by rw [hdek k u hk]; exact hrep k u r hk hr, ?_⟩
      rw [pS, F.len]
      exact (hcont u hu).2.2.2.1 cb F.exp
    · intro m hm1 hm2
      rw [pS]
      exact hph m (by rw [← hrl]; exact hm1) (by rw [← pC]; exact hm2)
    · rw [List.pairwise_append]
      refine ⟨?_, ?_, ?_⟩
      · rw [List.pairwise_map, List.pairwise_iff_getElem]
        intro i j hi hj hij
        obtain ⟨ui, hki⟩ := hus_of i reps[i] (by simp [hi])
        obtain ⟨uj, hkj⟩ := hus_of j reps[j] (by simp [hj])
        obtain ⟨cbi, Fi⟩ := hfacts i ui reps[i] hki (by simp [hi])
        obtain ⟨cbj, Fj⟩ := hfacts j uj reps[j] hkj (by simp [hj])
        have hle := (hcont ui (List.mem_of_getElem? hki)).2.2.2.1 cbi Fi.exp
        right; right
        show reps[i].base + reps[i].length ≤ reps[j].base
        rw [Fi.base, Fj.base, Fi.len]
        have : (i + 1) * img.ver.containerSize ≤ j * img.ver.containerSize := Nat.mul_le_mul_right _ hij
        rw [Nat.succ_mul] at this
        omega
      · rw [flatMap_images (fun i => (i.offset, i.size)) (repOf img.ver) reps us hrl
          (fun k r u hr hk => (hfacts k u r hk hr).elim (fun _ F => F.images)), List.pairwise_map]
        exact hpw.imp (fun {p q} h => Or.inr (Or.inr h))
      · intro a ha' b hb'
        rw [flatMap_images (fun i => (i.offset, i.size)) (repOf img.ver) reps us hrl
          (fun k r u hr hk => (hfacts k u r hk hr).elim (fun _ F => F.images))] at hb'
        obtain ⟨r, hr, rfl⟩ := List.mem_map.1 ha'
        obtain ⟨p, hp, rfl⟩ := List.mem_map.1 hb'
        obtain ⟨k, hkl, hkr⟩ := List.getElem_of_mem hr
        obtain ⟨u, hk⟩ := hus_of k r (by rw [← hkr]; simp [hkl])
        obtain ⟨cb, F⟩ := hfacts k u r hk (by rw [← hkr]; simp [hkl])
        have hle := (hcont u (List.mem_of_getElem? hk)).2.2.2.1 cb F.exp
        have hkus : k < us.length := (List.getElem?_eq_some_iff.1 hk).1
        have h1 : (k + 1) * img.ver.containerSize ≤ us.length * img.ver.containerSize := Nat.mul_le_mul_right _ hkus
        rw [Nat.succ_mul] at h1
        have h2 := hge p hp
        right; right
        show r.base + r.length ≤ (repOf img.ver p).offset
        rw [F.base, F.len]
        show _ ≤ p.offset
        omega
  · intro k u r hk hr
    obtain ⟨cb, F⟩ := hfacts k u r hk hr
    refine ⟨F.index, F.base, F.flags, F.sw, F.fuse, F.images, by rw [F.base, F.len, F.sl]; exact F.exp, F.signone, fun s hs => ?_⟩
    obtain ⟨a1, a2, a3, a4, a5⟩ := F.sigsome s hs
    refine ⟨a1, ?_, a3, a4, a5⟩
    rw [a2, a1, F.base]; omega

end SpsdkVerif.Ahab
