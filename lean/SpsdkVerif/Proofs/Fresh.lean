/-
Helper lemmas for Properties/C17.lean (model: Model/Fresh.lean).
-/
import SpsdkVerif.Model.Fresh

namespace SpsdkVerif.Fresh

/-- an environment without early values -/
def EnvFresh (env : Env) : Prop := ∀ (i : Nat) (t : Token), env[i]? ≠ some (some t)

theorem boot_perCall (P : List Site) (hp : ∀ s ∈ P, s.evalTime = .perCall) (n : Nat) :
    (boot P n).2 = n ∧ EnvFresh (boot P n).1 := by
  induction P generalizing n with
  | nil => exact ⟨rfl, by intro i t; simp [boot]⟩
  | cons s ss ih =>
    have hs : s.evalTime = .perCall := hp s (by simp)
    have ih' := ih (fun x hx => hp x (by simp [hx])) n
    refine ⟨by simp [boot, hs, ih'.1], ?_⟩
    intro i t
    cases i with
    | zero => simp [boot, hs]
    | succ j =>
      have := ih'.2 j t
      simpa [boot, hs] using this

/-- In a fresh environment a build only hands out new tokens, in increasing order. -/
theorem runBuild_fresh (env : Env) (hf : EnvFresh env) (art : Nat) (b : Build) (n : Nat) :
    n ≤ (runBuild env art b n).2 ∧
    (∀ o ∈ (runBuild env art b n).1, n ≤ o.tok ∧ o.tok < (runBuild env art b n).2) ∧
    (runBuild env art b n).1.Pairwise (fun x y => x.tok < y.tok) := by
  induction b generalizing n with
  | nil => simp [runBuild]
  | cons i is ih =>
    unfold runBuild
    cases hE : env[i]? with
    | none => simpa using ih n
    | some v =>
      cases v with
      | some t => exact absurd hE (hf i t)
      | none =>
        have h1 := ih (n + 1)
        have h10 := h1.1
        simp only [draw]
        refine ⟨by omega, ?_, ?_⟩
        · intro o ho
          simp only [List.mem_cons] at ho
          rcases ho with rfl | ho
          · exact ⟨Nat.le_refl _, by show n < _; omega⟩
          · have := h1.2.1 o ho
            exact ⟨by omega, this.2⟩
        · refine List.Pairwise.cons ?_ h1.2.2
          intro o ho
          have := h1.2.1 o ho
          show n < o.tok
          omega

theorem runFrom_fresh (env : Env) (hf : EnvFresh env) (art : Nat) (h : History) (n : Nat) :
    (∀ o ∈ runFrom env art h n, n ≤ o.tok) ∧
    (runFrom env art h n).Pairwise (fun x y => x.tok < y.tok) := by
  induction h generalizing art n with
  | nil => simp [runFrom]
  | cons b bs ih =>
    have hb := runBuild_fresh env hf art b n
    have hr := ih (art + 1) (runBuild env art b n).2
    simp only [runFrom]
    refine ⟨?_, ?_⟩
    · intro o ho
      rcases List.mem_append.mp ho with ho | ho
      · exact (hb.2.1 o ho).1
      · have h1 := hr.1 o ho
        have h2 := hb.1
        omega
    · rw [List.pairwise_append]
      refine ⟨hb.2.2, hr.2, ?_⟩
      intro x hx y hy
      have h1 := (hb.2.1 x hx).2
      have h2 := hr.1 y hy
      exact Nat.lt_of_lt_of_le h1 h2

/-- the stored value of an early site -/
theorem boot_early (P : List Site) (n i : Nat) (s : Site) (hi : P[i]? = some s) (he : s.evalTime ≠ .perCall) :
    ∃ t, (boot P n).1[i]? = some (some t) := by
  induction P generalizing n i with
  | nil => simp at hi
  | cons p ps ih =>
    cases i with
    | zero =>
      simp at hi
      subst hi
      exact ⟨n, by simp [boot, he, draw]⟩
    | succ j =>
      simp at hi
      by_cases hp : p.evalTime = .perCall
      · obtain ⟨t, ht⟩ := ih n j hi
        exact ⟨t, by simpa [boot, hp] using ht⟩
      · obtain ⟨t, ht⟩ := ih (n + 1) j hi
        exact ⟨t, by simpa [boot, hp, draw] using ht⟩

/-- Two builds that use the same early site share its value. -/
theorem run_early_shares (P : List Site) (i : Nat) (s : Site) (hi : P[i]? = some s) (he : s.evalTime ≠ .perCall) :
    ∃ t, run P [[i], [i]] = [⟨0, i, t⟩, ⟨1, i, t⟩] := by
  obtain ⟨t, ht⟩ := boot_early P 0 i s hi he
  exact ⟨t, by simp [run, runFrom, runBuild, ht]⟩

/-- distinct values everywhere ⇒ nothing shared between two artifacts -/
theorem noSharing_of_allDistinct (o : List Obs) (hd : AllDistinct o) : NoSharing o := by
  intro a ha b hb hne htok
  induction o with
  | nil => simp at ha
  | cons x xs ih =>
    rw [AllDistinct, List.pairwise_cons] at hd
    simp only [List.mem_cons] at ha hb
    rcases ha with rfl | ha <;> rcases hb with rfl | hb
    · exact hne rfl
    · exact hd.1 b hb htok
    · exact hd.1 a ha htok.symm
    · exact ih hd.2 ha hb

end SpsdkVerif.Fresh
