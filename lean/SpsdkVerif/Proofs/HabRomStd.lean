/- C07 helper lemmas, part 10: the final command list of a container built from a standard configuration, and its
   data references. -/
import SpsdkVerif.Model.HabStd
import SpsdkVerif.Proofs.HabSign
import SpsdkVerif.Proofs.HabRomBase

namespace SpsdkVerif.Hab
open SpsdkVerif SpsdkVerif.Misc SpsdkVerif.Generated

theorem isExtra_facts (e : Cmd) (h : isExtra e = true) : isAut e = false ∧ needsRef e = false := by
  cases e <;> simp_all [isExtra, isAut, needsRef]

theorem mapAut_app_noaut (f : CsfCmd → CsfCmd) (n : Nat) (l1 l2 : List CsfCmd) (h : ∀ c ∈ l1, isAut c.cmd = false) :
    mapAut f n (l1 ++ l2) = l1 ++ mapAut f n l2 := by
  induction l1 with
  | nil => rfl
  | cons a r ih =>
    have ha := h a (by simp)
    simp only [List.cons_append, mapAut, ha, Bool.false_eq_true, ↓reduceIte]
    rw [ih (fun c hc => h c (by simp [hc]))]

theorem extras_noaut (ex : List Cmd) (h : ∀ e ∈ ex, isExtra e = true) :
    ∀ c ∈ ex.map (fun c => (⟨c, none⟩ : CsfCmd)), isAut c.cmd = false := by
  intro c hc
  obtain ⟨e, he, rfl⟩ := List.mem_map.1 hc
  exact (isExtra_facts e (h e he)).1

/-- the loop only replaces the data block of the first Authenticate Data command -/
theorem mapAut_set_set (b1 b2 : Bytes) (l : List CsfCmd) :
    mapAut (fun c => { c with data := some b2 }) 0 (mapAut (fun c => { c with data := some b1 }) 0 l) =
      mapAut (fun c => { c with data := some b2 }) 0 l := by
  induction l with
  | nil => rfl
  | cons a r ih =>
    by_cases ha : isAut a.cmd = true
    · simp [mapAut, ha]
    · simp [mapAut, ha, ih]

theorem signLoop_shape (s : Signer) (v fuel i : Nat) (l l' : List CsfCmd) (n : Nat)
    (h : signLoop s v fuel i l = some (l', n)) :
    ∃ blob, l' = mapAut (fun c => { c with data := some blob }) 0 l ∧ ∃ x, blob = sigBlob v x := by
  induction fuel generalizing i l with
  | zero => simp [signLoop] at h
  | succ fuel ih =>
    unfold signLoop at h
    by_cases hn : (getAut 0 l).isNone = true
    · simp [hn] at h
    · simp only [hn, Bool.false_eq_true, ↓reduceIte] at h
      by_cases hs : autSize (resign s v i l) = autSize l
      · simp only [hs, ↓reduceIte, Option.some.injEq, Prod.mk.injEq] at h
        exact ⟨_, h.1.symm, _, rfl⟩
      · simp only [hs, ↓reduceIte] at h
        obtain ⟨blob, e, x, hx⟩ := ih (i + 1) (resign s v i l) h
        refine ⟨blob, ?_, x, hx⟩
        rw [e]; unfold resign
        exact mapAut_set_set _ _ _

/-- the final command list of a standard configuration -/
theorem build_std (cr : Crypto.CryptoOps) (sg : Signer) (fuel : Nat) (c : Cfg) (b : Built) (s : StdCsf)
    (hs : StdCfg c s) (hb : build cr sg fuel c = some b) (hc : c.hasCsf = true) (ha : isAuth c.flags = true) :
    ∃ x, b.cmds = s.list (fun _ => 0) (sigBlob c.version x) (blockPairs c.signedBlocks) (sigBlob c.version (sg.data b.msgData))
      (if isEnc c.flags then some ⟨secretKeyLocN c.ils c.app.length c.start, blockPairs c.encryptedBlocks,
                                   some (macBlob c.version c.nonce (encMac cr c))⟩ else none) := by
  obtain ⟨_, _, hmd, _, _, hl⟩ := build_inv cr sg fuel c b hb hc ha
  obtain ⟨blob, e, x, hx⟩ := signLoop_shape sg c.version fuel 0 _ b.cmds b.attempts hl
  refine ⟨x, ?_⟩
  have hex := extras_noaut s.extras hs.extras
  rw [e, hx, hmd]
  unfold cmdsSigned cmdsEnc
  rw [hs.cmds]
  by_cases he : isEnc c.flags = true
  · simp only [he, ↓reduceIte, StdCsf.list]
    simp [mapAut, isAut, mapAut_app_noaut _ _ _ _ hex, Cmd.addBlocks]
  · simp only [he, Bool.false_eq_true, ↓reduceIte, StdCsf.list]
    simp [mapAut, isAut, mapAut_app_noaut _ _ _ _ hex, Cmd.addBlocks]

end SpsdkVerif.Hab
