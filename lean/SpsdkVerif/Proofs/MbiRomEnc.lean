/-
C02 for the encrypted family: decrypting, with the derived AES-CTR key and the IV stored behind the certificate block, the
ciphertext pieces in their original order gives back the plaintext image (application with IVT, relocation table,
TrustZone data), and the independent ROM model (Spec/MbiRom.lean) accepts what the model exports - given what its walk over
the (opaque) certificate block answers.
-/
import SpsdkVerif.Proofs.MbiRomFlags
import SpsdkVerif.Proofs.MbiEncrypted
import SpsdkVerif.Proofs.MbiRomDefs

namespace SpsdkVerif.Mbi
open SpsdkVerif SpsdkVerif.Misc SpsdkVerif.Crypto
open SpsdkVerif.Generated.IvtConsts
open SpsdkVerif.Generated.MbiClasses (MixinName Method Attr provider attrs preParsed isData parent countInLegacyCertBlockLen)

variable {co : CryptoOps} {env : Env} {c : Cls} {cfg : Cfg} {signer : Signer}

/-- the image without the HMAC / key store block inserted at offset 64 -/
def encBodyOf (cfg : Cfg) (e : Bytes) : Bytes :=
  e.take hmacOffset ++ e.drop (hmacOffset + hmacSize + (cfg.keyStore.getD []).length)

/-! ### the body (image without HMAC / key store) in closed form -/

theorem romenc_rd32 (b : Bytes) (off : Nat) : Spec.MbiRom.rd32 b off = rd32 b off := rfl
theorem romenc_sub (b : Bytes) (i j : Nat) : Spec.MbiRom.sub b i j = slice b i j := rfl

theorem romenc_body (hn : EncLens co c cfg signer) :
    encBodyOf cfg (encImg co c cfg signer) = encPe co c cfg ++ signer (encPe co c cfg) := by
  have e : hmacOffset + hmacSize + (cfg.keyStore.getD []).length = hmacOffset + hmacSize + encKsLen cfg := rfl
  unfold encBodyOf
  rw [encImg_take_ivt hn, e, encImg_drop_body hn]
  unfold encPe
  simp only [List.append_assoc]

theorem romenc_slice_prefix (a b : Bytes) (i j : Nat) (h : j ≤ a.length) : slice (a ++ b) i j = slice a i j := by
  unfold slice
  rw [List.take_append_of_le_length h]

/-- the ciphertext pieces of the body in their original order are the encrypted image -/
theorem romenc_cipher_pe (hl : CryptoLaws co) (hc : EncCls c) (hk : EncCfg c cfg) (hn : EncLens co c cfg signer) :
    slice (encPe co c cfg) (appLen c cfg + cfg.cert.length) (appLen c cfg + cfg.cert.length + encIvtCopySize)
      ++ slice (encPe co c cfg) encIvtCopySize (appLen c cfg)
      ++ (encPe co c cfg).drop (appLen c cfg + cfg.cert.length + encIvtCopySize + encIvSize) = encEnc co c cfg := by
  have hoff : rd32 (encPe co c cfg) ivtCrcCertificateOffset = appLen c cfg := (encIvtOf_words hl hc hk _).2.2.1
  have h := encrypted_postEncryptRevert hl hc hk hn { cert := some (encCertInfo c cfg) } (encCertInfo c cfg) rfl rfl rfl
  unfold postEncryptRevert at h
  rw [hc.hpenc] at h
  simp only [encCertInfo, hoff, not_true_eq_false, if_false] at h
  exact Except.ok.inj h

theorem romenc_pe_length (hl : CryptoLaws co) (hc : EncCls c) (hk : EncCfg c cfg) :
    (encPe co c cfg).length = appLen c cfg + cfg.cert.length + 56 + 16 + cfg.tz.bytes.length :=
  encPe_length hl hc hk

theorem romenc_cipher (hl : CryptoLaws co) (hc : EncCls c) (hk : EncCfg c cfg) (hn : EncLens co c cfg signer) (sig : Bytes) :
    slice (encPe co c cfg ++ sig) (appLen c cfg + cfg.cert.length) (appLen c cfg + cfg.cert.length + 56)
      ++ slice (encPe co c cfg ++ sig) 56 (appLen c cfg)
      ++ slice (encPe co c cfg ++ sig) (appLen c cfg + cfg.cert.length + 72) (encPe co c cfg).length
      = encEnc co c cfg := by
  have hlen := romenc_pe_length hl hc hk
  rw [romenc_slice_prefix _ _ _ _ (by omega), romenc_slice_prefix _ _ _ _ (by omega),
    romenc_slice_prefix _ _ _ _ (Nat.le_refl _)]
  have := romenc_cipher_pe hl hc hk hn
  simp only [encIvtCopySize, encIvSize] at this
  unfold slice at this ⊢
  rw [List.take_length]
  exact this

theorem romenc_iv (hn : EncLens co c cfg signer) (sig : Bytes) :
    slice (encPe co c cfg ++ sig) (appLen c cfg + cfg.cert.length + 56) (appLen c cfg + cfg.cert.length + 72) = cfg.ctrIv := by
  have hL := hn.hL
  apply encrypted_slice_of_split _ (encIvtOf co c cfg ++ slice (encEnc co c cfg) hmacOffset (appLen c cfg)
      ++ certInImage c cfg ++ (encEnc co c cfg).take encIvtCopySize) _ ((encEnc co c cfg).drop (appLen c cfg) ++ sig)
  · unfold encPe encBody; simp only [List.append_assoc]
  · simp only [List.length_append, hn.hivt, hn.hmid, hn.hcert, hn.hcopy]
    simp only [encIvtCopySize, hmacOffset] at *; omega
  · rw [hn.hiv]; simp only [encIvSize]

theorem romenc_cert (hn : EncLens co c cfg signer) (sig : Bytes) :
    slice (encPe co c cfg ++ sig) (appLen c cfg) (appLen c cfg + cfg.cert.length) = certInImage c cfg := by
  have hL := hn.hL
  apply encrypted_slice_of_split _ (encIvtOf co c cfg ++ slice (encEnc co c cfg) hmacOffset (appLen c cfg)) _
    ((encEnc co c cfg).take encIvtCopySize ++ cfg.ctrIv ++ (encEnc co c cfg).drop (appLen c cfg) ++ sig)
  · unfold encPe encBody; simp only [List.append_assoc]
  · simp only [List.length_append, hn.hivt, hn.hmid]; omega
  · rw [hn.hcert]

theorem romenc_key (k : Bytes) (hk1 : cfg.hmacKey = some k) (b : Bool) (hb : b = cfg.keyStore.isSome) :
    (if b = true then k else ecbEnc co k Spec.MbiRom.encKeyDerivation) = encKeyOf co cfg := by
  have : Spec.MbiRom.encKeyDerivation = deriveEncImageKeyConst := by decide
  subst hb
  simp only [encKeyOf, hk1, Option.getD_some, encKey, deriveEncImageKey, this]

theorem romenc_decrypt (hl : CryptoLaws co) (c : Cls) (cfg : Cfg) :
    ctrXor co (encKeyOf co cfg) cfg.ctrIv (encEnc co c cfg) = encRaw c cfg := by
  unfold encEnc; rw [ctr_invol hl]


/-! ### the ROM's checks on the exported image -/

theorem romenc_flags (hl : CryptoLaws co) (hc : EncCls c) (hk : EncCfg c cfg) (signer : Signer) :
    Spec.MbiRom.rd32 (encImg co c cfg signer) Spec.MbiRom.offFlags = flagsOf c cfg :=
  (encImg_words hl hc hk signer).2.1

theorem romenc_ksflag (hc : EncCls c) (hk : EncCfg c cfg) :
    (flagsOf c cfg &&& Spec.MbiRom.flagKeyStore != 0) = cfg.keyStore.isSome :=
  (rom_ks _).trans (encrypted_flag_fields hc hk).2.2.2.1

theorem romenc_romHmac (hl : CryptoLaws co) (hc : EncCls c) (hk : EncCfg c cfg) (hn : EncLens co c cfg signer)
    (rkth : Bytes) :
    Spec.MbiRom.romHmac co (romEnvOf c rkth cfg.hmacKey) (encImg co c cfg signer)
      = .ok (encPe co c cfg ++ signer (encPe co c cfg), hmacSize + encKsLen cfg, cfg.keyStore.isSome) := by
  obtain ⟨k, hk1, hk2⟩ := hk.hhmac
  have hstrip : (Spec.MbiRom.hmacSize + if cfg.keyStore.isSome = true then Spec.MbiRom.keyStoreSize else 0)
      = hmacSize + encKsLen cfg := by
    rw [encKsLen_eq hk]; rfl
  have hlen : (encImg co c cfg signer).length ≥ Spec.MbiRom.hmacOffset + (hmacSize + encKsLen cfg) := by
    have := encImg_len hn
    have := hn.hL
    simp only [Spec.MbiRom.hmacOffset, hmacOffset] at *
    omega
  have huk : (romEnvOf c rkth cfg.hmacKey).userKey = some k := hk1
  have hkl : (k.length == Spec.MbiRom.userKeySize) = true := by
    simp only [hmacKeyLength] at hk2; simp [hk2, Spec.MbiRom.userKeySize]
  have htake : (encImg co c cfg signer).take Spec.MbiRom.hmacOffset = encIvtOf co c cfg := encImg_take_ivt hn
  have hdk : Spec.MbiRom.hmacKeyDerivation = deriveHmacKeyConst := by decide
  have hmac : Spec.MbiRom.sub (encImg co c cfg signer) Spec.MbiRom.hmacOffset (Spec.MbiRom.hmacOffset + Spec.MbiRom.hmacSize)
      = hmac co .sha256 (ecbEnc co k Spec.MbiRom.hmacKeyDerivation) (encIvtOf co c cfg) := by
    have e1 : hmac co .sha256 (ecbEnc co k Spec.MbiRom.hmacKeyDerivation) (encIvtOf co c cfg)
        = computeHmac co cfg (encIvtOf co c cfg) := by
      unfold computeHmac deriveHmacKey; rw [hk1, hdk]
    rw [e1]
    apply encrypted_slice_of_split _ (encIvtOf co c cfg) _ ((cfg.keyStore.getD []) ++ encBody co c cfg
      ++ signer (encPe co c cfg))
    · unfold encImg; simp only [List.append_assoc]
    · exact hn.hivt
    · rw [hn.hmac]; rfl
  have hdrop : (encImg co c cfg signer).drop (Spec.MbiRom.hmacOffset + (hmacSize + encKsLen cfg))
      = encBody co c cfg ++ signer (encPe co c cfg) := by
    have := encImg_drop_body hn
    rwa [Nat.add_assoc] at this
  unfold Spec.MbiRom.romHmac
  simp only [romenc_flags hl hc hk, romenc_ksflag hc hk, hstrip, hlen, huk, hkl, htake, hmac, hdrop, Spec.MbiRom.need,
    decide_true, if_true, bind, Except.bind, pure, Except.pure, beq_self_eq_true]
  unfold encPe
  simp only [List.append_assoc]


theorem romenc_relocImages_mod (es : List RelocEntry) : (relocImages es).length % 4 = 0 := by
  induction es with
  | nil => rfl
  | cons e es ih =>
    rw [relocImages_cons, List.length_append]
    have := align4_length_mod e.image
    omega

theorem romenc_appLen_mod (hc : EncCls c) (hk : EncCfg c cfg) : appLen c cfg % 4 = 0 := by
  rw [encrypted_appLen hc hk]
  have h1 : (appData cfg).length % 4 = 0 := align4_length_mod cfg.app
  have h2 : relocLen c cfg % 4 = 0 := by
    unfold relocLen
    cases cfg.reloc with
    | none => rfl
    | some es =>
      simp only
      rw [relocExport_length]
      have := romenc_relocImages_mod es
      omega
  omega

/-- the IVT words of the decrypted image -/
theorem romenc_raw_words (hc : EncCls c) (hk : EncCfg c cfg) :
    rd32 (encRaw c cfg) ivtImageLengthOffset = (if c.zeroTotalLength then 0 else encImgLen c cfg)
    ∧ rd32 (encRaw c cfg) ivtImageFlagsOffset = flagsOf c cfg
    ∧ rd32 (encRaw c cfg) ivtCrcCertificateOffset = appLen c cfg
    ∧ rd32 (encRaw c cfg) ivtLoadAddrOffset = (if c.has .Mbi_MixinLoadAddress then cfg.loadAddress else 0) := by
  have hA := encrypted_app_ivt hk
  have hw := updateIvt_words c cfg (appData cfg) (encImgLen c cfg) (appLen c cfg) hA hk.hflags
    (encImgLen_lt hc hk) (encrypted_appLen_lt hc hk) hk.hla
  simp only [hc.hla, hc.htype, if_false] at hw
  have : encRaw c cfg = encU c cfg ++ (encR cfg ++ cfg.tz.bytes) := by unfold encRaw; rw [List.append_assoc]
  rw [this]
  unfold encU
  rw [rd32_updateIvt_append _ _ _ _ _ _ _ hA (by decide), rd32_updateIvt_append _ _ _ _ _ _ _ hA (by decide),
    rd32_updateIvt_append _ _ _ _ _ _ _ hA (by decide), rd32_updateIvt_append _ _ _ _ _ _ _ hA (by decide)]
  exact hw

theorem romenc_body_words (hl : CryptoLaws co) (hc : EncCls c) (hk : EncCfg c cfg) (sig : Bytes) :
    rd32 (encPe co c cfg ++ sig) ivtImageLengthOffset = (if c.zeroTotalLength then 0 else encImgLen c cfg)
    ∧ rd32 (encPe co c cfg ++ sig) ivtImageFlagsOffset = flagsOf c cfg
    ∧ rd32 (encPe co c cfg ++ sig) ivtCrcCertificateOffset = appLen c cfg
    ∧ rd32 (encPe co c cfg ++ sig) ivtLoadAddrOffset = (if c.has .Mbi_MixinLoadAddress then cfg.loadAddress else 0) := by
  have : encPe co c cfg ++ sig = encIvtOf co c cfg ++ (encBody co c cfg ++ sig) := by
    unfold encPe; rw [List.append_assoc]
  rw [this]
  exact encIvtOf_words hl hc hk _

theorem romenc_romEncrypted (hl : CryptoLaws co) (hc : EncCls c) (hk : EncCfg c cfg) (hn : EncLens co c cfg signer)
    (rkth : Bytes) (certs : List (Nat × Nat)) (table : List Bytes)
    (hrom : RomCertV1OK co (romEnvOf c rkth cfg.hmacKey) cfg.cert certs table) (strip : Nat) :
    ∃ a, Spec.MbiRom.romEncrypted co (romEnvOf c rkth cfg.hmacKey) (encPe co c cfg ++ signer (encPe co c cfg)) strip
        cfg.keyStore.isSome = .ok a ∧ a.plain = some (encRaw c cfg) ∧ a.stripped = strip := by
  obtain ⟨k, hk1, hk2⟩ := hk.hhmac
  obtain ⟨hne, hwalk⟩ := hrom
  have hL := hn.hL
  have hpl := romenc_pe_length hl hc hk
  have hel := encEnc_length hl hc hk
  have hivl := hk.hctr
  have hil : (encEnc co c cfg).length + cfg.cert.length + encIvtCopySize + cfg.ctrIv.length = (encPe co c cfg).length := by
    simp only [encIvtCopySize, ctrInitVectorSize] at *; omega
  have hilt : (encPe co c cfg).length < 2 ^ 32 := by
    have h1 := encImgLen_lt hc hk
    unfold encImgLen at h1
    rw [encrypted_totalLen hc hk] at h1
    simp only [Int.toNat_natCast] at h1
    rw [encrypted_appLen hc hk] at hpl
    simp only [hmacSize, encIvtCopySize, encIvSize, ctrInitVectorSize] at *
    omega
  have hcertIn : certSetImageLength cfg.cert (encPe co c cfg).length = certInImage c cfg := by
    rw [← hil]; exact encrypted_certInImage hl hc hk
  have hat : certAt (encPe co c cfg ++ signer (encPe co c cfg)) (certSetImageLength cfg.cert (encPe co c cfg).length)
      (appLen c cfg) := by
    unfold certAt
    rw [hcertIn, romenc_sub, hn.hcert]
    exact romenc_cert hn _
  obtain ⟨ci, hci, hcerts, _, himl, hend⟩ := hwalk _ _ _ hat hilt
  obtain ⟨w1, w2, w3, w4⟩ := romenc_body_words hl hc hk (signer (encPe co c cfg))
  obtain ⟨r1, r2, r3, r4⟩ := romenc_raw_words hc hk
  have hoff : Spec.MbiRom.rd32 (encPe co c cfg ++ signer (encPe co c cfg)) Spec.MbiRom.offCrcOrCert = appLen c cfg := w3
  have hneed1 : (decide (appLen c cfg ≥ Spec.MbiRom.hmacOffset ∧ (appLen c cfg % 4 == 0) = true)) = true := by
    have := romenc_appLen_mod hc hk
    simp only [Spec.MbiRom.hmacOffset, hmacOffset] at *
    simp [this, hL]
  have hneed2 : (decide (appLen c cfg + cfg.cert.length + Spec.MbiRom.encIvtCopySize + Spec.MbiRom.ivSize
        ≤ (encPe co c cfg).length
      ∧ (encPe co c cfg).length < (encPe co c cfg ++ signer (encPe co c cfg)).length)) = true := by
    have := hk.hsigLen
    rw [decide_eq_true_eq, List.length_append, hn.hsig]
    simp only [Spec.MbiRom.encIvtCopySize, Spec.MbiRom.ivSize]
    omega
  have huk : (romEnvOf c rkth cfg.hmacKey).userKey = some k := hk1
  have hlast : ∃ last, ci.certs.getLast? = some last := by
    rw [hcerts]
    cases certs with
    | nil => exact absurd rfl hne
    | cons a l => exact ⟨_, List.getLast?_eq_some_getLast (by simp)⟩
  obtain ⟨last, hlast⟩ := hlast
  have hiv : Spec.MbiRom.sub (encPe co c cfg ++ signer (encPe co c cfg))
      (appLen c cfg + cfg.cert.length + Spec.MbiRom.encIvtCopySize)
      (appLen c cfg + cfg.cert.length + Spec.MbiRom.encIvtCopySize + Spec.MbiRom.ivSize) = cfg.ctrIv :=
    romenc_iv hn _
  have hcipher : Spec.MbiRom.sub (encPe co c cfg ++ signer (encPe co c cfg)) (appLen c cfg + cfg.cert.length)
        (appLen c cfg + cfg.cert.length + Spec.MbiRom.encIvtCopySize)
      ++ Spec.MbiRom.sub (encPe co c cfg ++ signer (encPe co c cfg)) Spec.MbiRom.encIvtCopySize (appLen c cfg)
      ++ Spec.MbiRom.sub (encPe co c cfg ++ signer (encPe co c cfg))
        (appLen c cfg + cfg.cert.length + Spec.MbiRom.encIvtCopySize + Spec.MbiRom.ivSize) (encPe co c cfg).length
      = encEnc co c cfg := romenc_cipher hl hc hk hn _
  have hkey := romenc_key (co := co) (cfg := cfg) k hk1 cfg.keyStore.isSome rfl
  have hwords : (decide ((Spec.MbiRom.rd32 (encRaw c cfg) Spec.MbiRom.offFlags
        == Spec.MbiRom.rd32 (encPe co c cfg ++ signer (encPe co c cfg)) Spec.MbiRom.offFlags) = true
      ∧ (Spec.MbiRom.rd32 (encRaw c cfg) Spec.MbiRom.offTotalLength
        == Spec.MbiRom.rd32 (encPe co c cfg ++ signer (encPe co c cfg)) Spec.MbiRom.offTotalLength) = true
      ∧ (Spec.MbiRom.rd32 (encRaw c cfg) Spec.MbiRom.offCrcOrCert == appLen c cfg) = true
      ∧ (Spec.MbiRom.rd32 (encRaw c cfg) Spec.MbiRom.offLoadAddress
        == Spec.MbiRom.rd32 (encPe co c cfg ++ signer (encPe co c cfg)) Spec.MbiRom.offLoadAddress) = true)) = true := by
    have a1 : Spec.MbiRom.rd32 (encRaw c cfg) Spec.MbiRom.offFlags
        = Spec.MbiRom.rd32 (encPe co c cfg ++ signer (encPe co c cfg)) Spec.MbiRom.offFlags := r2.trans w2.symm
    have a2 : Spec.MbiRom.rd32 (encRaw c cfg) Spec.MbiRom.offTotalLength
        = Spec.MbiRom.rd32 (encPe co c cfg ++ signer (encPe co c cfg)) Spec.MbiRom.offTotalLength := r1.trans w1.symm
    have a3 : Spec.MbiRom.rd32 (encRaw c cfg) Spec.MbiRom.offCrcOrCert = appLen c cfg := r3
    have a4 : Spec.MbiRom.rd32 (encRaw c cfg) Spec.MbiRom.offLoadAddress
        = Spec.MbiRom.rd32 (encPe co c cfg ++ signer (encPe co c cfg)) Spec.MbiRom.offLoadAddress := r4.trans w4.symm
    rw [a1, a2, a3, a4]
    simp
  have hres : Spec.MbiRom.romEncrypted co (romEnvOf c rkth cfg.hmacKey) (encPe co c cfg ++ signer (encPe co c cfg)) strip
      cfg.keyStore.isSome = .ok { stripped := strip
                                  obligations := [.x509Chain ci.certs ci.table, .rsaByCert last ci.imageLength]
                                  authenticated := [(0, (encPe co c cfg ++ signer (encPe co c cfg)).length + strip)]
                                  plain := some (encRaw c cfg) } := by
    unfold Spec.MbiRom.romEncrypted
    simp only [hoff, hneed1, hci, hend, himl, hneed2, huk, hlast, hiv, hcipher, hkey, romenc_decrypt hl, hwords,
      Spec.MbiRom.need, if_true, bind, Except.bind, pure, Except.pure]
  exact ⟨_, hres, rfl, rfl⟩

/-- decrypts_to_plain: (encrypted IVT copy ‖ bytes 56..certificate ‖ bytes behind the IV up to the signature), decrypted with
    AES-CTR under the user key (key store present) or the derived key (ROM's derivation constant) and the stored IV,
    is the plaintext image the collector built -/
theorem decrypts_to_plain (h : Hyp co env c cfg signer) (hf : c.family = some .encrypted) :
    ∃ e raw k, exportImage co c cfg signer = .ok e ∧ collect c cfg = .ok raw ∧ cfg.hmacKey = some k
      ∧ (let body := encBodyOf cfg e
         let off := appLen c cfg
         let ce := off + cfg.cert.length
         let key := if cfg.keyStore.isSome then k else ecbEnc co k Spec.MbiRom.encKeyDerivation
         ctrXor co key (slice body (ce + 56) (ce + 72))
            (slice body ce (ce + 56) ++ slice body 56 off ++ slice body (ce + 72) (body.length - cfg.sigLen)) = raw)
      ∧ raw.take (appData cfg).length = updateIvt c cfg (appData cfg) (encImgLen c cfg) (appLen c cfg) := by
  have hc := encCls h.hcls hf
  have hk := encCfg hc h.hcfg
  have hn := encLens h.hlaws hc hk signer h.hsig
  obtain ⟨k, hk1, _⟩ := hk.hhmac
  refine ⟨_, _, k, encrypted_export h.hlaws hc hk signer, encrypted_collect hc hk, hk1, ?_, ?_⟩
  · simp only [romenc_body hn]
    rw [romenc_iv hn, List.length_append, h.hsig, Nat.add_sub_cancel, romenc_cipher h.hlaws hc hk hn,
      romenc_key k hk1 _ rfl, romenc_decrypt h.hlaws]
  · have : encRaw c cfg = encU c cfg ++ (encR cfg ++ cfg.tz.bytes) := by unfold encRaw; rw [List.append_assoc]
    rw [this, ← encU_length hk, List.take_left]
    rfl

/-- the signed range: everything of the body before the signature, announced by the certificate block inside it -/
theorem signed_range_is_prefix_encrypted (h : Hyp co env c cfg signer) (hf : c.family = some .encrypted) :
    ∃ e pre, exportImage co c cfg signer = .ok e
      ∧ encBodyOf cfg e = pre ++ signer pre
      ∧ slice pre (appLen c cfg) (appLen c cfg + cfg.cert.length) = certInImage c cfg
      ∧ rd32 (certInImage c cfg) certImageLengthOffset = pre.length := by
  have hc := encCls h.hcls hf
  have hk := encCfg hc h.hcfg
  have hn := encLens h.hlaws hc hk signer h.hsig
  refine ⟨_, encPe co c cfg, encrypted_export h.hlaws hc hk signer, romenc_body hn, ?_, ?_⟩
  · have := romenc_cert hn []
    rwa [List.append_nil] at this
  · have hlen := romenc_pe_length h.hlaws hc hk
    have hil := encrypted_certInImage h.hlaws hc hk
    have he := encEnc_length h.hlaws hc hk
    have hiv := hk.hctr
    have hlt := encImgLen_lt hc hk
    have htl := encImg_length_total h.hlaws hc hk signer h.hsig
    have htl2 := encImg_len hn
    have hcl := hk.hcertLen
    simp only [ctrInitVectorSize, encIvtCopySize, certHeaderSize, encIvSize, hmacSize] at *
    rw [← hil]
    unfold certSetImageLength setAt
    simp only [certImageLengthOffset]
    rw [rd32_at _ (cfg.cert.take 20) (cfg.cert.drop (20 + (le32 ((encEnc co c cfg).length + cfg.cert.length + 56
      + cfg.ctrIv.length)).length)) _ 20 rfl (by rw [List.length_take]; omega) (by omega)]
    omega

theorem romenc_imageType (hc : EncCls c) (hk : EncCfg c cfg) : getImageType (flagsOf c cfg) = c.imageType := by
  unfold flagsOf
  exact (flags_fields c.imageType cfg.tz.tag cfg.subType cfg.imageVersion _ _ _ _ _ _ _ _ _ _ _ _ hc.himgType
    (encrypted_tzTag_le cfg) hk.hst (encrypted_imgVer_le hk)).1

/-- the ROM accepts the exported image and its decryption is the collector's plaintext -/
theorem rom_accepts_encrypted (h : Hyp co env c cfg signer) (hf : c.family = some .encrypted) (ht : signedTypeOk c = true)
    (rkth : Bytes) (certs : List (Nat × Nat)) (table : List Bytes)
    (hrom : RomCertV1OK co (romEnvOf c rkth cfg.hmacKey) cfg.cert certs table) :
    ∃ e a raw, exportImage co c cfg signer = .ok e ∧ collect c cfg = .ok raw
      ∧ Spec.MbiRom.romCheck co (romEnvOf c rkth cfg.hmacKey) e = .ok a
      ∧ a.plain = some raw
      ∧ a.stripped = hmacSize + (cfg.keyStore.getD []).length := by
  have hc := encCls h.hcls hf
  have hk := encCfg hc h.hcfg
  have hn := encLens h.hlaws hc hk signer h.hsig
  obtain ⟨a, ha, hplain, hstrip⟩ := romenc_romEncrypted h.hlaws hc hk hn rkth certs table hrom (hmacSize + encKsLen cfg)
  refine ⟨_, a, _, encrypted_export h.hlaws hc hk signer, encrypted_collect hc hk, ?_, hplain, hstrip⟩
  have hflags := romenc_flags h.hlaws hc hk signer
  have hty : c.imageType = 3 := by
    unfold signedTypeOk at ht
    simpa [hc.hsign, hf] using ht
  have htype : (flagsOf c cfg &&& Spec.MbiRom.maskImageType) = 3 := by
    have := romenc_imageType hc hk
    rw [hty] at this
    exact (rom_type _).trans this
  have htz : ((flagsOf c cfg >>> Spec.MbiRom.shiftTzType) &&& Spec.MbiRom.maskTzType) = cfg.tz.tag :=
    (rom_tz _).trans (encrypted_flag_fields hc hk).1
  have hlen : decide ((encImg co c cfg signer).length ≥ Spec.MbiRom.ivtSize) = true := by
    have h1 := encImg_len hn
    have h2 := hn.hL
    rw [decide_eq_true_eq]
    simp only [Spec.MbiRom.ivtSize, hmacOffset] at *
    omega
  have htotal : (if (romEnvOf c rkth cfg.hmacKey).zeroTotalLength = true
      then Spec.MbiRom.rd32 (encImg co c cfg signer) Spec.MbiRom.offTotalLength == 0
      else Spec.MbiRom.rd32 (encImg co c cfg signer) Spec.MbiRom.offTotalLength == (encImg co c cfg signer).length) = true := by
    have w1 : Spec.MbiRom.rd32 (encImg co c cfg signer) Spec.MbiRom.offTotalLength
        = (if c.zeroTotalLength then 0 else encImgLen c cfg) := (encImg_words h.hlaws hc hk signer).1
    have hz : (romEnvOf c rkth cfg.hmacKey).zeroTotalLength = c.zeroTotalLength := rfl
    rw [w1, hz, encImg_length_total h.hlaws hc hk signer h.hsig]
    cases c.zeroTotalLength <;> simp
  have htzok : decide ((cfg.tz.tag == Spec.MbiRom.tzEnabled) = true ∨ (cfg.tz.tag == Spec.MbiRom.tzCustom) = true
      ∨ (cfg.tz.tag == Spec.MbiRom.tzDisabled) = true) = true := by
    cases cfg.tz <;> simp [TzCfg.tag, tzEnabled, tzCustom, tzDisabled, Spec.MbiRom.tzEnabled, Spec.MbiRom.tzCustom,
      Spec.MbiRom.tzDisabled]
  have hkind : ((romEnvOf c rkth cfg.hmacKey).certKind == Spec.MbiRom.CertKind.v1) = true := by
    simp [romEnvOf, hc.hV1]
  unfold Spec.MbiRom.romCheck
  simp only [hflags, htype, htz, hlen, htotal, htzok, hkind, romenc_romHmac h.hlaws hc hk hn rkth, ha,
    Spec.MbiRom.need, if_true, bind, Except.bind, pure, Except.pure]
  rfl

end SpsdkVerif.Mbi
