/-
C02 for the encrypted family: decrypting, with the derived AES-CTR key and the IV stored behind the certificate block, the
ciphertext pieces in their original order gives back the plaintext image (application with IVT, relocation table,
TrustZone data), and the independent ROM model (Spec/MbiRom.lean) accepts what the model exports - given what its walk over
the (opaque) certificate block answers.
-/
import SpsdkVerif.Proofs.MbiEncrypted
import SpsdkVerif.Proofs.MbiRomDefs

namespace SpsdkVerif.Mbi
open SpsdkVerif SpsdkVerif.Misc SpsdkVerif.Crypto
open SpsdkVerif.Generated.IvtConsts
open SpsdkVerif.Generated.MbiClasses (MixinName Method Attr provider attrs preParsed isData parent countInLegacyCertBlockLen)

variable {co : CryptoOps} {env : Env} {c : Cls} {cfg : Cfg} {signer : Signer}

/-- the image without the HMAC / key store block inserted at offset 64 -/
def encBodyOf (cfg : Cfg) (e : Bytes) : Bytes :=
  e.take hmacOffset ++ e.drop (hmacOffset + hmacSize + (cfg.keyStore.getD []).length)

/-- decrypts_to_plain: (encrypted IVT copy ‖ bytes 56..certificate ‖ bytes behind the IV up to the signature), decrypted with
    AES-CTR under the user key (key store present) or the derived key (ROM's derivation constant) and the stored IV,
    is the plaintext image the collector built -/
theorem decrypts_to_plain (h : Hyp co env c cfg signer) (hf : c.family = some .encrypted) :
    ∃ e raw k, exportImage co c cfg signer = .ok e ∧ collect c cfg = .ok raw ∧ cfg.hmacKey = some k
      ∧ (let body := encBodyOf cfg e
         let off := appLen c cfg
         let ce := off + cfg.cert.length
         let key := if cfg.keyStore.isSome then k else ecbEnc co k Spec.MbiRom.encKeyDerivation
         ctrXor co key (slice body (ce + 56) (ce + 72))
            (slice body ce (ce + 56) ++ slice body 56 off ++ slice body (ce + 72) (body.length - cfg.sigLen)) = raw)
      ∧ raw.take (appData cfg).length = updateIvt c cfg (appData cfg) (encImgLen c cfg) (appLen c cfg) := by
  sorry

/-- the signed range: everything of the body before the signature, announced by the certificate block inside it -/
theorem signed_range_is_prefix_encrypted (h : Hyp co env c cfg signer) (hf : c.family = some .encrypted) :
    ∃ e pre, exportImage co c cfg signer = .ok e
      ∧ encBodyOf cfg e = pre ++ signer pre
      ∧ slice pre (appLen c cfg) (appLen c cfg + cfg.cert.length) = certInImage c cfg
      ∧ rd32 (certInImage c cfg) certImageLengthOffset = pre.length := by
  sorry

/-- the ROM accepts the exported image and its decryption is the collector's plaintext -/
theorem rom_accepts_encrypted (h : Hyp co env c cfg signer) (hf : c.family = some .encrypted) (ht : signedTypeOk c = true)
    (rkth : Bytes) (certs : List (Nat × Nat)) (table : List Bytes)
    (hrom : RomCertV1OK co (romEnvOf c rkth cfg.hmacKey) cfg.cert certs table) :
    ∃ e a raw, exportImage co c cfg signer = .ok e ∧ collect c cfg = .ok raw
      ∧ Spec.MbiRom.romCheck co (romEnvOf c rkth cfg.hmacKey) e = .ok a
      ∧ a.plain = some raw
      ∧ a.stripped = hmacSize + (cfg.keyStore.getD []).length := by
  sorry

end SpsdkVerif.Mbi
