/-
C18 — interleavings: vocabulary of the invariant (lexical facts unpacked, per-process invariant,
lock regions, "stale witness") and what the local programs of `Model/DbCache.lean` guarantee.
Helper file of `Proofs/DbCacheInv.lean`.
-/
import SpsdkVerif.Proofs.DbCacheSpec
namespace SpsdkVerif.DbCache.Sched
open SpsdkVerif

/-! ### the lexical facts, unpacked -/

structure WF (G : Guards) : Prop where
  ioL : ∀ e, ioExcs.contains e = true → Exc.caughtBy G.l.caught e = true
  tcTry : G.l.typeChecked = true → G.l.typeCheckInTry = true
  tcExc : G.l.typeChecked = true → Exc.caughtBy G.l.caught G.l.typeExc = true
  fpc : G.l.fpChecked = true
  stale : G.l.staleClearsLoaded = true
  hcl : G.l.handlerClearsLoaded = true
  rsTry : G.l.removeStale = true → G.l.removeStaleInTry = true
  hrt : G.l.handlerRemoves = true → Exc.caughtBy G.l.handlerRemoveTolerates .FileNotFoundError = true
  lw : G.w.lockWrite = true
  ait : G.w.allInTry = true
  ioW : ∀ e, ioExcs.contains e = true → Exc.caughtBy G.w.caught e = true
  mte : G.w.mergesExisting = true → G.w.mergeTypeChecked = true → Exc.caughtBy G.w.caught G.w.mergeTypeExc = true
  mrs : G.w.mergesExisting = true → G.l.removeStale = true
  mhr : G.w.mergesExisting = true → G.l.handlerRemoves = true

theorem imp_of_not_or {a b : Bool} (h : (!a || b) = true) : a = true → b = true := by
  cases a <;> simp_all

theorem WF.of (G : Guards) (h : wfGuards G = true) : WF G := by
  simp only [wfGuards, Bool.and_eq_true] at h
  obtain ⟨⟨⟨⟨⟨⟨⟨⟨⟨⟨h1, h2⟩, h3⟩, h4⟩, h5⟩, h6⟩, h7⟩, h8⟩, h9⟩, h10⟩, h11⟩ := h
  have h2' := imp_of_not_or h2
  have h11' := imp_of_not_or h11
  refine ⟨?_, ?_, ?_, h3, h4, h5, imp_of_not_or h6, imp_of_not_or h7, h8, h9, ?_, ?_, ?_, ?_⟩
  · intro e he; exact List.all_eq_true.mp h1 e (List.contains_iff_mem.mp he)
  · intro h; have := h2' h; simp only [Bool.and_eq_true] at this; exact this.1
  · intro h; have := h2' h; simp only [Bool.and_eq_true] at this; exact this.2
  · intro e he; exact List.all_eq_true.mp h10 e (List.contains_iff_mem.mp he)
  · intro h hm; have := h11' h; simp only [Bool.and_eq_true] at this; exact imp_of_not_or this.1.1 hm
  · intro h; have := h11' h; simp only [Bool.and_eq_true] at this; exact this.1.2
  · intro h; have := h11' h; simp only [Bool.and_eq_true] at this; exact this.2

theorem WF.fnf {G : Guards} (hw : WF G) : Exc.caughtBy G.l.caught .FileNotFoundError = true :=
  hw.ioL _ (by decide)

theorem WF.mfnf {G : Guards} (hw : WF G) : Exc.caughtBy G.w.caught .FileNotFoundError = true :=
  hw.ioW _ (by decide)

/-! ### file contents -/

/-- the file is missing or holds bytes that may even be merged -/
def FileGood (env : Env) (G : Guards) (f : Option Bytes) : Prop := ∀ b, f = some b → BytesGood env G b

theorem Good.sound {env : Env} {v : Val} (h : Good env v) : Sound env v := fun _ => h

theorem BytesGood.harmless {env : Env} {G : Guards} {b : Bytes} (h : BytesGood env G b) : Harmless env G b := by
  unfold BytesGood at h; unfold Harmless
  split
  · rename_i v hv; rw [hv] at h; exact Good.sound h
  · rename_i e hv; rw [hv] at h; exact h

theorem FileGood.none {env : Env} {G : Guards} : FileGood env G none := fun _ h => by cases h

/-- what the environment assumptions give: everything a (killed) writer can leave is mergeable -/
structure EnvOK (env : Env) (G : Guards) : Prop where
  empty : BytesGood env G []
  dump : ∀ v n, Good env v → BytesGood env G ((env.pickle v).take n)

theorem EnvOK.of {env : Env} {G : Guards} {measured : List Exc}
    (hP : PickleOK env measured) (hM : coversMeasured G measured = true) : EnvOK env G := by
  have hc : ∀ e ∈ measured, CaughtRW G e := by
    intro e he
    have := List.all_eq_true.mp hM e he
    simp only [Bool.and_eq_true, Bool.or_eq_true, Bool.not_eq_true'] at this
    refine ⟨this.1, fun hm => ?_⟩
    rcases this.2 with h | h
    · rw [hm] at h; cases h
    · exact h
  refine ⟨?_, fun v n hv => ?_⟩
  · obtain ⟨e, he, hmem⟩ := hP.empty_raises
    unfold BytesGood; rw [he]; exact hc e hmem
  · by_cases hn : n < (env.pickle v).length
    · obtain ⟨e, he, hmem⟩ := hP.prefix_raises v n hn
      unfold BytesGood; rw [he]; exact hc e hmem
    · rw [List.take_of_length_le (by omega)]
      unfold BytesGood; rw [hP.roundtrip v]; exact hv

theorem EnvOK.full {env : Env} {G : Guards} (h : EnvOK env G) (v : Val) (hv : Good env v) :
    BytesGood env G (env.pickle v) := by
  have := h.dump v (env.pickle v).length hv
  rwa [List.take_length] at this

/-! ### per-process invariant -/

/-- program counters inside a `with FileLock` block -/
def inLock (G : Guards) : PC → Bool
  | .lOpen | .lUnpickle => G.l.lockRead
  | .lRelease _ => true
  | .wExists | .wOpenR | .wUnpickle | .wTrunc | .wWrite | .wRelease _ => true
  | _ => false

structure Base (env : Env) (p : Proc) : Prop where
  ans : ∀ a ∈ p.answers, EntOK env a
  mem : ∀ e ∈ p.mem, EntOK env e
  keys : keys p.answers ++ p.todo = p.asked

def PcInv (env : Env) (G : Guards) (p : Proc) : Prop :=
  match p.pc with
  | .lExists | .lOpen => p.loaded = none
  | .lAcquire => p.loaded = none ∧ G.l.lockRead = true
  | .lUnpickle => p.loaded = none ∧ Harmless env G p.buf
  | .lRelease .normal => ∀ v, p.loaded = some v → Sound env v
  | .lRelease (.exc e) => Exc.caughtBy G.l.caught e = true
  | .lRemoveStale => p.loaded = none ∧ G.l.removeStale = true
  | .hExists | .hRemove => p.loaded = none ∧ G.l.handlerRemoves = true
  | .wAcquire | .wTrunc | .wWrite | .wRelease .normal | .crashed => True
  | .wExists | .wOpenR => G.w.mergesExisting = true
  | .wUnpickle => G.w.mergesExisting = true ∧ BytesGood env G p.buf
  | .wRelease (.exc e) => Exc.caughtBy G.w.caught e = true
  | .done => p.todo = []
  | .fatal _ => False

structure PInv (env : Env) (G : Guards) (p : Proc) : Prop extends Base env p where
  pc : PcInv env G p

/-- "has only seen the initial file so far": the processes that do NOT witness that the file is mergeable -/
def PreW (env : Env) (f0 : Option Bytes) (p : Proc) : Prop :=
  match p.pc with
  | .lExists | .lAcquire | .lOpen | .crashed | .lRemoveStale | .hExists | .hRemove | .lRelease (.exc _) => True
  | .lUnpickle => f0 = some p.buf
  | .lRelease .normal => f0 = some p.buf ∧ ∃ v, p.loaded = some v ∧ env.unpickle p.buf = .ok v
  | _ => False

/-- result of a local program that ends outside every lock region -/
structure Fin (env : Env) (G : Guards) (p r : Proc) : Prop where
  inv : PInv env G r
  nolock : inLock G r.pc = false
  asked : r.asked = p.asked

theorem mem_of_lookup {k c : Nat} {l : List (Nat × Nat)} (h : l.lookup k = some c) : (k, c) ∈ l := by
  induction l with
  | nil => simp at h
  | cons x xs ih =>
    obtain ⟨a, b⟩ := x
    simp only [List.lookup_cons] at h
    split at h
    · rename_i hk; simp at hk h; subst hk; subst h; simp
    · exact List.mem_cons_of_mem _ (ih h)

theorem rq_fin {env : Env} {G : Guards} (hw : WF G) (p : Proc) (qs : List Nat)
    (hans : ∀ a ∈ p.answers, EntOK env a) (hmem : ∀ e ∈ p.mem, EntOK env e)
    (hkeys : keys p.answers ++ qs = p.asked) : Fin env G p (runQueries env G p qs) := by
  induction qs generalizing p with
  | nil =>
    simp only [runQueries]
    exact ⟨⟨⟨hans, hmem, hkeys⟩, by simp [PcInv]⟩, by simp [inLock], rfl⟩
  | cons k rest ih =>
    simp only [runQueries]
    split
    · rename_i c hc
      have := ih { p with answers := p.answers ++ [(k, c)] }
        (by intro a ha; simp only [List.mem_append, List.mem_singleton] at ha
            rcases ha with ha | rfl
            · exact hans a ha
            · exact hmem _ (mem_of_lookup hc))
        hmem (by simpa [keys] using hkeys)
      exact ⟨this.inv, this.nolock, this.asked⟩
    · have hans' : ∀ a ∈ p.answers ++ [(k, env.loadCfg k)], EntOK env a := by
        intro a ha; simp only [List.mem_append, List.mem_singleton] at ha
        rcases ha with ha | rfl
        · exact hans a ha
        · rfl
      have hmem' : ∀ a ∈ p.mem ++ [(k, env.loadCfg k)], EntOK env a := by
        intro a ha; simp only [List.mem_append, List.mem_singleton] at ha
        rcases ha with ha | rfl
        · exact hmem a ha
        · rfl
      split
      · have := ih { p with mem := p.mem ++ [(k, env.loadCfg k)], answers := p.answers ++ [(k, env.loadCfg k)] }
          hans' hmem' (by simpa [keys] using hkeys)
        exact ⟨this.inv, this.nolock, this.asked⟩
      · refine ⟨⟨⟨hans', hmem', by simpa [keys] using hkeys⟩, ?_⟩, ?_, rfl⟩
        · simp [PcInv, writerStart, hw.lw]
        · simp [inLock, writerStart, hw.lw]

theorem rq_fin' {env : Env} {G : Guards} (hw : WF G) (p : Proc) (hb : Base env p) :
    Fin env G p (runQueries env G p p.todo) := rq_fin hw p p.todo hb.ans hb.mem hb.keys

theorem fl_fin {env : Env} {G : Guards} (hw : WF G) (p : Proc) (hb : Base env p)
    (hl : ∀ v, p.loaded = some v → ∀ e ∈ v.ents, EntOK env e) : Fin env G p (finishLoader env G p) := by
  simp only [finishLoader]
  have := rq_fin hw { p with mem := (match p.loaded with | some v => v.ents | none => []), loaded := none, buf := [] }
    p.todo hb.ans (by
      simp only
      split
      · rename_i v hv; exact hl v hv
      · simp) hb.keys
  exact ⟨this.inv, this.nolock, this.asked⟩

theorem lr_fin {env : Env} {G : Guards} (hw : WF G) (p : Proc) (e : Exc) (hb : Base env p)
    (he : Exc.caughtBy G.l.caught e = true) : Fin env G p (loaderRaise env G p e) := by
  simp only [loaderRaise, he, hw.hcl, if_true]
  split
  · rename_i hr
    refine ⟨⟨⟨hb.ans, hb.mem, hb.keys⟩, ?_⟩, ?_, rfl⟩
    · split <;> simp [PcInv, hr]
    · split <;> simp [inLock]
  · have := fl_fin hw { p with loaded := none } ⟨hb.ans, hb.mem, hb.keys⟩ (by simp)
    exact ⟨this.inv, this.nolock, this.asked⟩

/-- for a merging writer the handler removes the file: the process stays a pending witness -/
theorem lr_prew {env : Env} {G : Guards} {f0 : Option Bytes} (hw : WF G) (p : Proc) (e : Exc)
    (he : Exc.caughtBy G.l.caught e = true) (hm : G.w.mergesExisting = true) :
    PreW env f0 (loaderRaise env G p e) := by
  simp only [loaderRaise, he, hw.hcl, hw.mhr hm, if_true]
  by_cases hg : G.l.handlerExistsGuard = true <;> simp [PreW, hg]

theorem lc_fin {env : Env} {G : Guards} {f0 : Option Bytes} (hw : WF G) (p : Proc) (hb : Base env p)
    (hs : ∀ v, p.loaded = some v → Sound env v) :
    Fin env G p (loaderChecks env G p) ∧
    (G.w.mergesExisting = true → ∀ v, p.loaded = some v → env.unpickle p.buf = .ok v →
      BytesGood env G p.buf ∨ PreW env f0 (loaderChecks env G p)) := by
  simp only [loaderChecks, hw.fpc, hw.stale, if_true, Bool.not_true, Bool.false_or]
  split
  · rename_i hl
    exact ⟨fl_fin hw p hb (by simp [hl]), by simp [hl]⟩
  · rename_i v hl
    have hsv := hs v hl
    split
    · rename_i hty
      have htc : G.l.typeChecked = true := by
        simp only [Bool.and_eq_true] at hty; exact hty.1
      simp only [hw.tcTry htc, if_true]
      refine ⟨lr_fin hw p _ hb (hw.tcExc htc), ?_⟩
      intro hm _ _ _
      exact Or.inr (lr_prew hw p _ (hw.tcExc htc) hm)
    · split
      · rename_i hfp
        have hfp : env.fpOf (keys v.ents) = v.fp := by simpa using hfp
        have hg : ∀ e ∈ v.ents, EntOK env e := hsv hfp
        refine ⟨?_, ?_⟩
        · have := fl_fin hw { p with selfFp := some v.fp } ⟨hb.ans, hb.mem, hb.keys⟩ (by
            intro v' hv'; simp only [hl] at hv'; cases hv'; exact hg)
          exact ⟨this.inv, this.nolock, this.asked⟩
        · intro _ v' hv' hu
          rw [hl] at hv'; cases hv'
          left; unfold BytesGood; rw [hu]; exact hg
      · split
        · rename_i hrs
          refine ⟨⟨⟨⟨hb.ans, hb.mem, hb.keys⟩, by simp [PcInv, hrs]⟩, by simp [inLock], rfl⟩, ?_⟩
          intro _ _ _ _; right; simp [PreW]
        · rename_i hrs
          refine ⟨?_, ?_⟩
          · have := fl_fin hw { p with loaded := none } ⟨hb.ans, hb.mem, hb.keys⟩ (by simp)
            exact ⟨this.inv, this.nolock, this.asked⟩
          · intro hm; exact absurd (hw.mrs hm) hrs

theorem wr_fin {env : Env} {G : Guards} (hw : WF G) (p : Proc) (e : Exc) (hb : Base env p)
    (he : Exc.caughtBy G.w.caught e = true) : Fin env G p (writerRaise env G p e) := by
  simp only [writerRaise, he, hw.ait, Bool.and_self, if_true]
  have := rq_fin hw { p with selfFp := none } p.todo hb.ans hb.mem hb.keys
  exact ⟨this.inv, this.nolock, this.asked⟩

end SpsdkVerif.DbCache.Sched
