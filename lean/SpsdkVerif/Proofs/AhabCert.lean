/- The certificate model: what is signed, and `parse (export x) = x`. -/
import SpsdkVerif.Model.AhabCert
import SpsdkVerif.Proofs.AhabRom3

namespace SpsdkVerif.Ahab
open SpsdkVerif SpsdkVerif.Misc
open SpsdkVerif.Generated
open SpsdkVerif.Spec.AhabRom
open SpsdkVerif.Crypto (CryptoOps CryptoLaws)

theorem drop_app {α : Type} (X Y : List α) (n : Nat) (h : X.length = n) : (X ++ Y).drop n = Y := by
  subst h; simp

theorem take_app {α : Type} (X Y : List α) (n : Nat) (h : X.length = n) : (X ++ Y).take n = X := by
  subst h; simp

/-- shape of the 40-byte header -/
theorem certHeader_ok {len so : Nat} {ct : Cert} {h : Bytes} (hh : certHeader len so ct = .ok h) :
    ct.permData.length ≤ 12 ∧ ct.uuid.length ≤ 16 ∧
    fits certIntsA [AhabConsts.certificateVersion, len, AhabConsts.certificateTag, so, 255 - ct.perms % 256, ct.perms] = true ∧
    fits certIntsB [ct.fuse, AhabConsts.reserved, AhabConsts.reserved] = true ∧
    h = packInts certIntsA [AhabConsts.certificateVersion, len, AhabConsts.certificateTag, so, 255 - ct.perms % 256, ct.perms] ++
        extendTo 12 ct.permData ++ packInts certIntsB [ct.fuse, AhabConsts.reserved, AhabConsts.reserved] ++ extendTo 16 ct.uuid ∧
    h.length = 40 := by
  unfold certHeader at hh
  split at hh
  · cases hh
  rename_i hle
  have hle' : ct.permData.length ≤ 12 ∧ ct.uuid.length ≤ 16 := by
    simp only [certPermDataLen, certUuidLen, not_or, Nat.not_lt] at hle; exact hle
  cases hA : packChecked certIntsA [AhabConsts.certificateVersion, len, AhabConsts.certificateTag, so, 255 - ct.perms % 256, ct.perms] with
  | error e => rw [hA] at hh; cases hB : packChecked certIntsB [ct.fuse, AhabConsts.reserved, AhabConsts.reserved] <;> rw [hB] at hh <;> cases hh
  | ok a =>
    cases hB : packChecked certIntsB [ct.fuse, AhabConsts.reserved, AhabConsts.reserved] with
    | error e => rw [hA, hB] at hh; cases hh
    | ok b =>
      rw [hA, hB] at hh
      cases hh
      obtain ⟨fA, rfl⟩ := packChecked_ok hA
      obtain ⟨fB, rfl⟩ := packChecked_ok hB
      refine ⟨hle'.1, hle'.2, fA, fB, rfl, ?_⟩
      simp only [List.length_append, packInts_length _ _ fA, packInts_length _ _ fB, certPermDataLen, certUuidLen,
        extendTo_length 12 _ hle'.1, extendTo_length 16 _ hle'.2]
      rfl

/-- shape of an exported certificate -/
theorem encodeCert_spec (c : CryptoOps) (ct : Cert) (b : Bytes) (h : encodeCert c ct = .ok b) :
    ∃ rb db hd g, certKeyBytes c ct = .ok (rb, db) ∧
      certHeader (certSigOffset rb db + signatureLen ct.signature) (certSigOffset rb db) ct = .ok hd ∧
      encodeSignature ct.signature = .ok g ∧ encodeCertSigned c ct = .ok (hd ++ rb ++ db) ∧
      b = hd ++ rb ++ db ++ g ∧ (hd ++ rb ++ db).length = certSigOffset rb db ∧
      b.length = certSigOffset rb db + signatureLen ct.signature := by
  unfold encodeCert at h
  cases hs : encodeCertSigned c ct with
  | error e => rw [hs] at h; cases hg : encodeSignature ct.signature <;> rw [hg] at h <;> cases h
  | ok sd =>
    cases hg : encodeSignature ct.signature with
    | error e => rw [hs, hg] at h; cases h
    | ok g =>
      rw [hs, hg] at h
      cases h
      have hs' := hs
      unfold encodeCertSigned at hs'
      cases hk : certKeyBytes c ct with
      | error e => rw [hk] at hs'; cases hs'
      | ok p =>
        obtain ⟨rb, db⟩ := p
        rw [hk] at hs'
        simp only at hs'
        cases hh : certHeader (certSigOffset rb db + signatureLen ct.signature) (certSigOffset rb db) ct with
        | error e => rw [hh] at hs'; cases hs'
        | ok hd =>
          rw [hh] at hs'
          cases hs'
          have h40 := (certHeader_ok hh).2.2.2.2.2
          have hl : (hd ++ rb ++ db).length = certSigOffset rb db := by
            simp only [List.length_append, h40, certSigOffset]; rfl
          refine ⟨rb, db, hd, g, rfl, hh, rfl, rfl, rfl, hl, ?_⟩
          rw [List.length_append, hl, encodeSignature_length hg]

/-- the signed part does not depend on the signature BYTES (only on their number, through the length field) -/
theorem certSigned_independent (c : CryptoOps) (ct : Cert) (sig' : Bytes) (hl : sig'.length = ct.signature.length) :
    encodeCertSigned c { ct with signature := sig' } = encodeCertSigned c ct := by
  have hs : signatureLen sig' = signatureLen ct.signature := by
    unfold signatureLen
    have : sig'.isEmpty = ct.signature.isEmpty := by
      cases hx : sig' <;> cases hy : ct.signature <;> simp_all
    rw [this, hl]
  unfold encodeCertSigned certKeyBytes certHeader
  simp only [hs]

structure CertWF (ct : Cert) : Prop where
  sigNe : ct.signature ≠ []
  alg : AhabConsts.srkRecordVersions.contains ct.key.signAlg = true ∧ AhabConsts.signAlgV2.any (fun t => t.2.1 == ct.key.signAlg) = true
  hsh : AhabConsts.hashAlgV2.any (fun t => t.2.1 == ct.key.hashAlg) = true

/-- what `parseCert` returns for an exported certificate -/
def expectedCert (c : CryptoOps) (ct : Cert) (rec : SrkRecord) (len so : Nat) : PCert :=
  ⟨len, so, ct.perms, extendTo 12 ct.permData, ct.fuse, extendTo 16 ct.uuid, rec, ct.srkId, ct.key.keyData, ct.signature⟩

theorem srkRecordOfV2_ok {c : CryptoOps} (hc : CryptoLaws c) {ix : Nat} {k : SrkV2} {rec : SrkRecord} (h : srkRecordOfV2 c ix k = .ok rec) :
    rec.signAlg = k.signAlg ∧ rec.hashAlg = k.hashAlg ∧ rec.keySize = k.keySize ∧ rec.srkFlags = k.srkFlags ∧ rec.length = 76 ∧
    rec.params.length = 64 := by
  unfold srkRecordOfV2 at h
  cases hd : encodeSrkData ix k.keyData with
  | error e => rw [hd] at h; cases h
  | ok d =>
    cases ha : hashAlgOfTag k.hashAlg with
    | none => rw [hd, ha] at h; cases h
    | some a =>
      rw [hd, ha] at h
      cases h
      refine ⟨rfl, rfl, rfl, rfl, rfl, ?_⟩
      have hl := hc.hash_len a d
      have ha64 : a.size ≤ 64 := by
        unfold hashAlgOfTag at ha
        split at ha
        · cases ha; decide
        · split at ha
          · cases ha; decide
          · split at ha
            · cases ha; decide
            · cases ha
      exact extendTo_length 64 _ (by rw [hl]; exact ha64)

theorem srkRecordV2_roundtrip (rec : SrkRecord) (rb rest : Bytes) (h : encodeSrkRecord rec = .ok rb) (hlen : rec.length = 76)
    (hp : rec.params.length = 64)
    (halg : AhabConsts.srkRecordVersions.contains rec.signAlg = true ∧ AhabConsts.signAlgV2.any (fun t => t.2.1 == rec.signAlg) = true)
    (hhsh : AhabConsts.hashAlgV2.any (fun t => t.2.1 == rec.hashAlg) = true) :
    decodeSrkRecordV2 (rb ++ rest) = some rec ∧ rb.length = 76 := by
  have hbl := encodeSrkRecord_length h
  obtain ⟨l1, l2, hk, hf, hf2, rfl⟩ := encodeSrkRecord_ok h
  have hsz : AhabConsts.srkRecordLayout.size = 12 := rfl
  have hw : AhabConsts.srkRecordLayout.intWidths = [1, 2, 1, 1, 1, 1, 1] := rfl
  rw [hsz, hp] at hbl
  refine ⟨?_, hbl⟩
  unfold decodeSrkRecordV2
  simp only [hsz]
  have hlen12 : ¬ ((packInts AhabConsts.srkRecordLayout.intWidths [AhabConsts.srkRecordTag, rec.length, rec.signAlg, rec.hashAlg, rec.keySize,
      AhabConsts.reserved, rec.srkFlags] ++ packInts [2, 2] [l1, l2] ++ rec.params ++ rest).length < 12) := by
    rw [List.length_append, hbl]; omega
  rw [if_neg hlen12]
  have hup : unpackInts AhabConsts.srkRecordLayout.intWidths
      (packInts AhabConsts.srkRecordLayout.intWidths [AhabConsts.srkRecordTag, rec.length, rec.signAlg, rec.hashAlg, rec.keySize,
        AhabConsts.reserved, rec.srkFlags] ++ packInts [2, 2] [l1, l2] ++ rec.params ++ rest) =
      some [AhabConsts.srkRecordTag, rec.length, rec.signAlg, rec.hashAlg, rec.keySize, AhabConsts.reserved, rec.srkFlags] := by
    rw [List.append_assoc, List.append_assoc]
    exact unpack_pack _ _ _ hf
  rw [hup]
  simp only
  have hl8 : (packInts AhabConsts.srkRecordLayout.intWidths [AhabConsts.srkRecordTag, rec.length, rec.signAlg, rec.hashAlg, rec.keySize,
      AhabConsts.reserved, rec.srkFlags]).length = 8 := by rw [packInts_length _ _ hf]; rfl
  have hl4 : (packInts [2, 2] [l1, l2]).length = 4 := by rw [packInts_length _ _ hf2]; rfl
  have c1 : ¬ (AhabConsts.srkRecordTag ≠ AhabConsts.srkRecordTag ∨ (!AhabConsts.srkRecordVersions.contains rec.signAlg) = true ∨
      (packInts AhabConsts.srkRecordLayout.intWidths [AhabConsts.srkRecordTag, rec.length, rec.signAlg, rec.hashAlg, rec.keySize,
        AhabConsts.reserved, rec.srkFlags] ++ packInts [2, 2] [l1, l2] ++ rec.params ++ rest).length < rec.length) := by
    rw [List.length_append, hbl, hlen, halg.1]
    simp
  rw [if_neg c1]
  have hpl : AhabConsts.srkRecordV2ParamsLen = 64 := rfl
  rw [hpl, hlen, if_neg (by omega)]
  have c3 : ¬ ((!AhabConsts.signAlgV2.any (fun t => t.2.1 == rec.signAlg)) = true ∨ (!AhabConsts.hashAlgV2.any (fun t => t.2.1 == rec.hashAlg)) = true) := by
    rw [halg.2, hhsh]; simp
  rw [if_neg c3]
  have hdrop : (packInts AhabConsts.srkRecordLayout.intWidths [AhabConsts.srkRecordTag, 76, rec.signAlg, rec.hashAlg, rec.keySize,
      AhabConsts.reserved, rec.srkFlags] ++ packInts [2, 2] [l1, l2] ++ rec.params ++ rest).drop 12 = rec.params ++ rest := by
    rw [List.append_assoc]
    exact drop_app _ _ 12 (by rw [List.length_append, ← hlen, hl8, hl4])
  rw [hdrop, take_app _ _ 64 hp]
  cases rec
  simp only at hlen
  subst hlen
  rfl

theorem srkData_roundtrip (sid : Nat) (data db rest : Bytes) (h : encodeSrkData sid data = .ok db) :
    parseSrkData (db ++ rest) = some (sid, 8 + data.length, data) ∧ db.length = 8 + data.length := by
  have hsz : AhabConsts.srkDataLayout.size = 8 := rfl
  unfold encodeSrkData at h
  rw [hsz] at h
  cases hp : packChecked AhabConsts.srkDataLayout.intWidths
      [AhabConsts.srkDataVersion, 8 + data.length, AhabConsts.srkDataTag, sid, AhabConsts.reserved, AhabConsts.reserved] with
  | error e => rw [hp] at h; cases h
  | ok hb =>
    rw [hp] at h
    cases h
    obtain ⟨hf, rfl⟩ := packChecked_ok hp
    generalize hX : packInts AhabConsts.srkDataLayout.intWidths
      [AhabConsts.srkDataVersion, 8 + data.length, AhabConsts.srkDataTag, sid, AhabConsts.reserved, AhabConsts.reserved] = X at *
    have hl8 : X.length = 8 := by rw [← hX, packInts_length _ _ hf]; rfl
    have hlen : (X ++ data).length = 8 + data.length := by rw [List.length_append, hl8]
    refine ⟨?_, hlen⟩
    unfold parseSrkData
    rw [hsz, if_neg (by rw [List.length_append, hlen]; omega), List.append_assoc]
    have hu : unpackInts AhabConsts.srkDataLayout.intWidths (X ++ (data ++ rest)) =
        some [AhabConsts.srkDataVersion, 8 + data.length, AhabConsts.srkDataTag, sid, AhabConsts.reserved, AhabConsts.reserved] := by
      rw [← hX]; exact unpack_pack _ _ _ hf
    rw [hu]
    simp only
    have c1 : ¬ (AhabConsts.srkDataTag ≠ AhabConsts.srkDataTag ∨ AhabConsts.srkDataVersion ≠ AhabConsts.srkDataVersion ∨
        (X ++ (data ++ rest)).length < 8 + data.length) := by
      intro hx
      rcases hx with h1 | h1 | h1
      · exact h1 rfl
      · exact h1 rfl
      · rw [← List.append_assoc, List.length_append, hlen] at h1; omega
    rw [if_neg c1, ← List.append_assoc, take_app _ _ (8 + data.length) hlen, drop_app _ _ 8 hl8]

theorem certKeyBytes_ok {c : CryptoOps} {ct : Cert} {rb db : Bytes} (h : certKeyBytes c ct = .ok (rb, db)) :
    ∃ rec, srkRecordOfV2 c ct.srkId ct.key = .ok rec ∧ encodeSrkRecord rec = .ok rb ∧ encodeSrkData ct.srkId ct.key.keyData = .ok db := by
  unfold certKeyBytes at h
  cases hr : srkRecordOfV2 c ct.srkId ct.key with
  | error e => rw [hr] at h; cases h
  | ok rec =>
    rw [hr] at h
    simp only at h
    cases h1 : encodeSrkRecord rec with
    | error e => rw [h1] at h; cases h2 : encodeSrkData ct.srkId ct.key.keyData <;> rw [h2] at h <;> cases h
    | ok rb' =>
      cases h2 : encodeSrkData ct.srkId ct.key.keyData with
      | error e => rw [h1, h2] at h; cases h
      | ok db' =>
        rw [h1, h2] at h
        cases h
        exact ⟨rec, rfl, h1, rfl⟩

/-- `cert_roundtrip`: parsing an exported certificate gives back every field (permission data and UUID zero-extended to their
    field widths), the public key record with the hash of its SRK data block, the key data, the signature, and as length /
    signature offset the numbers `update_fields` computed -/
theorem cert_roundtrip' (c : CryptoOps) (hc : CryptoLaws c) (ct : Cert) (b rest : Bytes) (hwf : CertWF ct)
    (h : encodeCert c ct = .ok b) :
    ∃ rec so, srkRecordOfV2 c ct.srkId ct.key = .ok rec ∧ b.length = so + signatureLen ct.signature ∧
      so = 40 + 76 + (8 + ct.key.keyData.length) ∧
      parseCert (b ++ rest) = some (expectedCert c ct rec b.length so) := by
  obtain ⟨rb, db, hd, g, hk, hh, hg, hs, rfl, hl, hbl⟩ := encodeCert_spec c ct b h
  obtain ⟨rec, hrec, hrb, hdb⟩ := certKeyBytes_ok hk
  obtain ⟨ra, rh, _, _, rlen, rpl⟩ := srkRecordOfV2_ok hc hrec
  obtain ⟨plen, puu, fA, fB, hhd, h40⟩ := certHeader_ok hh
  have hdbl := (srkData_roundtrip ct.srkId ct.key.keyData db (g ++ rest) hdb).2
  have hrbl := (srkRecordV2_roundtrip rec rb (db ++ (g ++ rest)) hrb rlen rpl (by rw [ra]; exact hwf.alg) (by rw [rh]; exact hwf.hsh)).2
  have hso : certSigOffset rb db = 40 + 76 + (8 + ct.key.keyData.length) := by
    unfold certSigOffset; rw [hrbl, hdbl]; rfl
  refine ⟨rec, certSigOffset rb db, hrec, hbl, hso, ?_⟩
  have hgl := encodeSignature_length hg
  generalize hso' : certSigOffset rb db = so at *
  generalize hA : packInts certIntsA [AhabConsts.certificateVersion, so + signatureLen ct.signature, AhabConsts.certificateTag, so,
    255 - ct.perms % 256, ct.perms] = A at *
  generalize hB : packInts certIntsB [ct.fuse, AhabConsts.reserved, AhabConsts.reserved] = B at *
  have hAl : A.length = 8 := by rw [← hA, packInts_length _ _ fA]; rfl
  have hBl : B.length = 4 := by rw [← hB, packInts_length _ _ fB]; rfl
  have hPl := extendTo_length 12 ct.permData plen
  have hUl := extendTo_length 16 ct.uuid puu
  generalize hPD : extendTo 12 ct.permData = PD at *
  generalize hUU : extendTo 16 ct.uuid = UU at *
  subst hhd
  -- the file, right associated
  have hW : A ++ PD ++ B ++ UU ++ rb ++ db ++ g ++ rest = A ++ (PD ++ (B ++ (UU ++ (rb ++ (db ++ (g ++ rest)))))) := by
    simp only [List.append_assoc]
  have d8 : (A ++ (PD ++ (B ++ (UU ++ (rb ++ (db ++ (g ++ rest))))))).drop 8 = PD ++ (B ++ (UU ++ (rb ++ (db ++ (g ++ rest))))) :=
    drop_app _ _ 8 hAl
  have d20 : (A ++ (PD ++ (B ++ (UU ++ (rb ++ (db ++ (g ++ rest))))))).drop 20 = B ++ (UU ++ (rb ++ (db ++ (g ++ rest)))) := by
    rw [← List.append_assoc]; exact drop_app _ _ 20 (by rw [List.length_append, hAl, hPl])
  have d24 : (A ++ (PD ++ (B ++ (UU ++ (rb ++ (db ++ (g ++ rest))))))).drop 24 = UU ++ (rb ++ (db ++ (g ++ rest))) := by
    rw [← List.append_assoc, ← List.append_assoc]; exact drop_app _ _ 24 (by simp only [List.length_append, hAl, hPl, hBl])
  have d40 : (A ++ (PD ++ (B ++ (UU ++ (rb ++ (db ++ (g ++ rest))))))).drop 40 = rb ++ (db ++ (g ++ rest)) := by
    rw [← List.append_assoc, ← List.append_assoc, ← List.append_assoc]
    exact drop_app _ _ 40 (by simp only [List.length_append, hAl, hPl, hBl, hUl])
  have d116 : (A ++ (PD ++ (B ++ (UU ++ (rb ++ (db ++ (g ++ rest))))))).drop (40 + 76) = db ++ (g ++ rest) := by
    rw [← List.drop_drop, d40]; exact drop_app _ _ 76 hrbl
  have dso : (A ++ (PD ++ (B ++ (UU ++ (rb ++ (db ++ (g ++ rest))))))).drop so = g ++ rest := by
    rw [hso, ← List.drop_drop, d116]; exact drop_app _ _ _ hdbl
  have hlenW : (A ++ (PD ++ (B ++ (UU ++ (rb ++ (db ++ (g ++ rest))))))).length = so + signatureLen ct.signature + rest.length := by
    rw [← hW, List.length_append, hbl]
  rw [hW]
  unfold parseCert
  have hcs : AhabConsts.certificateLayout.size = 40 := rfl
  rw [hcs, if_neg (by rw [hlenW, hso]; omega)]
  have hu1 : unpackInts certIntsA (A ++ (PD ++ (B ++ (UU ++ (rb ++ (db ++ (g ++ rest))))))) =
      some [AhabConsts.certificateVersion, so + signatureLen ct.signature, AhabConsts.certificateTag, so, 255 - ct.perms % 256, ct.perms] := by
    rw [← hA]; exact unpack_pack _ _ _ fA
  have hu2 : unpackInts certIntsB (B ++ (UU ++ (rb ++ (db ++ (g ++ rest))))) = some [ct.fuse, AhabConsts.reserved, AhabConsts.reserved] := by
    rw [← hB]; exact unpack_pack _ _ _ fB
  rw [hu1, d20, hu2]
  simp only
  have c1 : ¬ (AhabConsts.certificateTag ≠ AhabConsts.certificateTag ∨ AhabConsts.certificateVersion ≠ AhabConsts.certificateVersion ∨
      (A ++ (PD ++ (B ++ (UU ++ (rb ++ (db ++ (g ++ rest))))))).length < so + signatureLen ct.signature) := by
    intro hx
    rcases hx with h1 | h1 | h1
    · exact h1 rfl
    · exact h1 rfl
    · rw [hlenW] at h1; omega
  rw [if_neg c1, if_neg (by simp), d40,
    (srkRecordV2_roundtrip rec rb (db ++ (g ++ rest)) hrb rlen rpl (by rw [ra]; exact hwf.alg) (by rw [rh]; exact hwf.hsh)).1]
  simp only
  unfold parseCertKey
  rw [hcs, rlen, d116, (srkData_roundtrip ct.srkId ct.key.keyData db (g ++ rest) hdb).1]
  simp only
  rw [if_neg (by rw [hso]; omega), dso, signature_roundtrip ct.signature g rest hwf.sigNe hg]
  simp only
  rw [if_neg (by simp)]
  unfold expectedCert certPermDataLen certUuidLen
  rw [d8, d24, take_app _ _ 12 hPl, take_app _ _ 16 hUl, hbl, hPD, hUU]

/-- what the certificate signature covers: the exported certificate is `signed part ‖ signature container`, the signed part is
    exactly the first `signature offset` bytes, and the header names that offset (bytes 4..5) and the total length (bytes 1..2) -/
theorem cert_signed_range' (c : CryptoOps) (ct : Cert) (b : Bytes) (h : encodeCert c ct = .ok b) :
    ∃ sd g, encodeCertSigned c ct = .ok sd ∧ encodeSignature ct.signature = .ok g ∧ b = sd ++ g ∧ b.take sd.length = sd ∧
      rd b 4 2 = sd.length ∧ rd b 1 2 = b.length ∧ rd b 0 1 = AhabConsts.certificateVersion ∧ rd b 3 1 = AhabConsts.certificateTag ∧
      rd b 7 1 = ct.perms ∧ rd b 6 1 = 255 - ct.perms % 256 := by
  obtain ⟨rb, db, hd, g, hk, hh, hg, hs, rfl, hl, hbl⟩ := encodeCert_spec c ct b h
  obtain ⟨_, _, fA, _, hhd, _⟩ := certHeader_ok hh
  refine ⟨hd ++ rb ++ db, g, hs, hg, rfl, take_app _ _ _ rfl, ?_⟩
  rw [hl, hbl]
  subst hhd
  have hW : ∀ X : Bytes, packInts certIntsA [AhabConsts.certificateVersion, certSigOffset rb db + signatureLen ct.signature,
      AhabConsts.certificateTag, certSigOffset rb db, 255 - ct.perms % 256, ct.perms] ++ extendTo 12 ct.permData ++
      packInts certIntsB [ct.fuse, AhabConsts.reserved, AhabConsts.reserved] ++ extendTo 16 ct.uuid ++ rb ++ db ++ g =
      packInts certIntsA [AhabConsts.certificateVersion, certSigOffset rb db + signatureLen ct.signature,
      AhabConsts.certificateTag, certSigOffset rb db, 255 - ct.perms % 256, ct.perms] ++ (extendTo 12 ct.permData ++
      (packInts certIntsB [ct.fuse, AhabConsts.reserved, AhabConsts.reserved] ++ (extendTo 16 ct.uuid ++ (rb ++ (db ++ g))))) := by
    intro _; simp only [List.append_assoc]
  rw [hW []]
  have r := fun i hi => rd_packInts certIntsA _ (extendTo 12 ct.permData ++
      (packInts certIntsB [ct.fuse, AhabConsts.reserved, AhabConsts.reserved] ++ (extendTo 16 ct.uuid ++ (rb ++ (db ++ g))))) i fA hi
  have r0 := r 0 (by decide); have r1 := r 1 (by decide); have r2 := r 2 (by decide); have r3 := r 3 (by decide)
  have r4 := r 4 (by decide); have r5 := r 5 (by decide)
  simp only [certIntsA, List.take_zero, List.take_succ_cons, List.take_nil, intsLen, List.foldr_cons, List.foldr_nil, List.getD_cons_zero,
    List.getD_cons_succ, Nat.add_zero, Nat.reduceAdd] at r0 r1 r2 r3 r4 r5
  exact ⟨r3, r1, r0, r2, r5, r4⟩

end SpsdkVerif.Ahab
