/- Link-fault lemmas for the SDP model: wrong status word, SDPS delivery, truncation safety. -/
import SpsdkVerif.Model.Sdp
import SpsdkVerif.Proofs.Sdp
namespace SpsdkVerif.Sdp
open S

/-- `bind_run` for a first action written as a bare function (its type is the unfolded `S α`, which `simp` does not
    see through when instantiating `bind_run`) -/
theorem bind_lam_run {α β} (g : Host → Except SErr α × Host) (f : α → S β) (s : Host) :
    (@bind S _ α β g f) s = match g s with
      | (.ok a, s') => f a s'
      | (.error e, s') => (.error e, s') := rfl

theorem bind_ok {α β} {m : S α} {f : α → S β} {s s' : Host} {b : β} (h : (m >>= f) s = (.ok b, s')) :
    ∃ a s1, m s = (.ok a, s1) ∧ f a s1 = (.ok b, s') := by
  rw [bind_run] at h
  rcases hm : m s with ⟨r, s1⟩
  rw [hm] at h
  cases r with
  | error e => simp at h
  | ok a => exact ⟨a, s1, rfl, h⟩

theorem guardConn_ok {α} {m : S α} {s s' : Host} {a : α} (h : guardConn m s = (.ok a, s')) : m s = (.ok a, s') := by
  rw [guardConn_run] at h
  rcases hm : m s with ⟨r, s1⟩
  rw [hm] at h
  cases r with
  | error e => simp at h
  | ok a => exact h

/-! ## (1) a wrong status word never yields `True` for the data-phase commands -/

theorem sendData_true_ok (c : Cmd) (data : Bytes) (h h' : Host)
    (hr : sendData c data h = (.ok true, h')) :
    (c.tag = Spec.cWriteFile → h'.cmdStatus = Spec.rWriteFileOk) ∧
    (c.tag = Spec.cWriteDcd → h'.cmdStatus = Spec.rWriteDataOk) ∧
    (c.tag = Spec.cWriteCsf → h'.cmdStatus = Spec.rWriteDataOk) := by
  unfold sendData at hr
  obtain ⟨h0, s0, e0, hr⟩ := bind_ok hr
  simp only [get_run, Prod.mk.injEq, Except.ok.injEq] at e0
  obtain ⟨rfl, rfl⟩ := e0
  by_cases ho : h.opened = true
  · have hno : ¬ ¬ h.opened = true := fun x => x ho
    rw [if_neg hno] at hr
    obtain ⟨_, s1, e1, hr⟩ := bind_ok hr
    obtain ⟨ok, s2, e2, hr⟩ := bind_ok hr
    obtain ⟨hz, s3, e3, hr⟩ := bind_ok hr
    simp only [get_run, Prod.mk.injEq, Except.ok.injEq] at e3
    obtain ⟨rfl, rfl⟩ := e3
    have e2 := guardConn_ok e2
    obtain ⟨_, t1, _, e2⟩ := bind_ok e2
    obtain ⟨_, t2, _, e2⟩ := bind_ok e2
    obtain ⟨⟨_, habRaw⟩, t3, _, e2⟩ := bind_ok e2
    simp only at e2
    obtain ⟨hv, t4, _, e2⟩ := bind_ok e2
    obtain ⟨_, t5, _, e2⟩ := bind_ok e2
    obtain ⟨⟨_, stRaw⟩, t6, _, e2⟩ := bind_ok e2
    simp only at e2
    obtain ⟨sv, t7, _, e2⟩ := bind_ok e2
    obtain ⟨_, t8, e8, e2⟩ := bind_ok e2
    simp only [modify_run, Prod.mk.injEq, true_and] at e8
    subst e8
    have hok : ok = true ∧ h' = s2 := by
      by_cases hc : ¬ok = true ∧ s2.ce = true
      · rw [if_pos hc] at hr; simp at hr
      · rw [if_neg hc] at hr
        simp only [pure_run, Prod.mk.injEq, Except.ok.injEq] at hr
        exact ⟨hr.1, hr.2.symm⟩
    obtain ⟨rfl, rfl⟩ := hok
    by_cases c1 : c.tag = Spec.cWriteDcd ∧ sv ≠ Spec.rWriteDataOk
    · rw [if_pos c1] at e2; simp at e2
    rw [if_neg c1] at e2
    by_cases c2 : c.tag = Spec.cWriteCsf ∧ sv ≠ Spec.rWriteDataOk
    · rw [if_pos c2] at e2; simp at e2
    rw [if_neg c2] at e2
    by_cases c3 : c.tag = Spec.cWriteFile ∧ sv ≠ Spec.rWriteFileOk
    · rw [if_pos c3] at e2; simp at e2
    rw [if_neg c3] at e2
    simp only [pure_run, Prod.mk.injEq, true_and] at e2
    subst e2
    refine ⟨fun ht => ?_, fun ht => ?_, fun ht => ?_⟩
    · exact Classical.not_not.mp (fun hne => c3 ⟨ht, hne⟩)
    · exact Classical.not_not.mp (fun hne => c1 ⟨ht, hne⟩)
    · exact Classical.not_not.mp (fun hne => c2 ⟨ht, hne⟩)
  · simp [ho] at hr

/-- the hypothesis is satisfiable: a scripted peer answering HAB word + `0x128A8A12` to a one-byte DCD -/
example : (sendData ⟨Spec.cWriteDcd, 0, 0, 1, 0⟩ [7]
    { peer := .script [[], [be 4 Spec.rUnlocked ++ be 4 Spec.rWriteDataOk]] }).1 = .ok true := by decide
/-- ... and with a wrong status word the same call returns `False` -/
example : (sendData ⟨Spec.cWriteDcd, 0, 0, 1, 0⟩ [7]
    { peer := .script [[], [be 4 Spec.rUnlocked ++ be 4 Spec.rWriteFileOk]] }).1 = .ok false := by decide

/-! ## (2) `SDPS.write_file` over HID: exactly the command-block reports, then the data reports -/

theorem devWrite_fields (h : Host) (w : Bytes) :
    (h.devWrite w).txRev = w :: h.txRev ∧ (h.devWrite w).tr = h.tr ∧ (h.devWrite w).packSize = h.packSize := by
  unfold Host.devWrite
  cases h.tr <;> exact ⟨rfl, rfl, rfl⟩

theorem foldl_devWrite_fields (fs : List Bytes) (h : Host) :
    (fs.foldl (fun x f => x.devWrite f) h).txRev = fs.reverse ++ h.txRev ∧
      (fs.foldl (fun x f => x.devWrite f) h).tr = h.tr ∧
      (fs.foldl (fun x f => x.devWrite f) h).packSize = h.packSize := by
  induction fs generalizing h with
  | nil => exact ⟨rfl, rfl, rfl⟩
  | cons f fs ih =>
    obtain ⟨a, b, c⟩ := devWrite_fields h f
    obtain ⟨a', b', c'⟩ := ih (h.devWrite f)
    refine ⟨?_, b'.trans b, c'.trans c⟩
    simp only [List.foldl_cons, a', a, List.reverse_cons, List.append_assoc, List.singleton_append]

theorem sendFrame_hid (rid : Nat) (w : Bytes) (h : Host) (htr : h.tr = .hid) (hps : 0 < h.packSize) :
    sendFrame rid w h = (.ok (), (hidFrames rid h.packSize w).foldl (fun x f => x.devWrite f) h) := by
  unfold sendFrame
  simp only [htr]
  rw [if_neg (by omega)]

theorem sdpsWriteFile_delivers (noCmd : Bool) (ps : Nat) (data : Bytes) (h : Host) (htr : h.tr = .hid) (hps : 0 < ps)
    (hlen : data.length < 4294967296) :
    ∃ h', runOp (.sdpsWriteFile noCmd ps data) h = (.ok .none, h') ∧ h'.packSize = ps ∧
      h'.txRev = (hidFrames Spec.ridData ps data).reverse ++
                 (if noCmd then [] else (hidFrames Spec.ridCmd ps (cbw data.length)).reverse) ++ h.txRev := by
  have hnl : ¬ 4294967296 ≤ data.length := by omega
  let h0 : Host := { h with packSize := ps }
  have h0tr : h0.tr = .hid := htr
  have h0ps : 0 < h0.packSize := hps
  cases noCmd with
  | true =>
    obtain ⟨a, b, c⟩ := foldl_devWrite_fields (hidFrames Spec.ridData ps data) h0
    refine ⟨_, ?_, c, ?_⟩
    · simp only [runOp, sdpsWriteFile, guardConn_run, bind_run, modify_run]
      rw [if_neg (by simp)]
      simp only [bind_run]
      rw [sendFrame_hid _ _ _ h0tr h0ps]
      rfl
    · rw [a]; simp [h0]
  | false =>
    let h1 : Host := (hidFrames Spec.ridCmd ps (cbw data.length)).foldl (fun x f => x.devWrite f) h0
    obtain ⟨a1, b1, c1⟩ := foldl_devWrite_fields (hidFrames Spec.ridCmd ps (cbw data.length)) h0
    have h1tr : h1.tr = .hid := b1.trans h0tr
    have h1ps : h1.packSize = ps := c1
    obtain ⟨a, b, c⟩ := foldl_devWrite_fields (hidFrames Spec.ridData ps data) h1
    refine ⟨(hidFrames Spec.ridData ps data).foldl (fun x f => x.devWrite f) h1, ?_, c.trans h1ps, ?_⟩
    · simp only [runOp, sdpsWriteFile, guardConn_run, bind_run, modify_run]
      rw [if_pos (by simp), if_neg hnl]
      simp only [bind_run]
      rw [sendFrame_hid _ _ _ h0tr h0ps]
      simp only
      rw [sendFrame_hid _ _ _ h1tr (by rw [h1ps]; exact hps)]
      simp only [pure_run, h1ps]
    · rw [a, a1]; simp [h0]

example : ({ tr := .hid } : Host).tr = .hid ∧ 0 < 4 ∧ ([1, 2, 3, 4, 5] : Bytes).length < 4294967296 := by decide
example : ((runOp (.sdpsWriteFile true 4 [1, 2, 3, 4, 5]) { tr := .hid }).2.txRev).reverse =
    [[2, 1, 2, 3, 4], [2, 5, 0, 0, 0]] := by decide

/-! ## (3) truncation safety, serial transport -/

/-- observable success of an SDP call: nothing raised and the value is not `False` -/
def succeeded (r : Except SErr Val) : Prop := ∃ v, r = .ok v ∧ v ≠ .bool false

/-- cut one release after `k` bytes (the shape is kept, cut-away parts become empty); returns the budget left -/
def truncChunk : Nat → List Bytes → List Bytes × Nat
  | k, [] => ([], k)
  | k, b :: bs => (b.take k :: (truncChunk (k - b.length) bs).1, (truncChunk (k - b.length) bs).2)

/-- cut the device→host byte stream (concatenation of all chunks of all releases) after `k` bytes -/
def truncChunks : Nat → List (List Bytes) → List (List Bytes)
  | _, [] => []
  | k, c :: cs => (truncChunk k c).1 :: truncChunks (truncChunk k c).2 cs

def Host.truncate (k : Nat) (h : Host) : Host :=
  match h.peer with
  | .script cs => { h with peer := .script (truncChunks k cs) }
  | _ => h

def observable (x : Except SErr Val × Host) : Except SErr Val × Nat × Nat × List Bytes :=
  (x.1, x.2.status, x.2.hab, x.2.txRev)

theorem truncChunk_spec (k : Nat) (c : List Bytes) :
    (truncChunk k c).1.flatten = c.flatten.take k ∧ (truncChunk k c).2 = k - c.flatten.length := by
  induction c generalizing k with
  | nil => simp [truncChunk]
  | cons b bs ih =>
    obtain ⟨i1, i2⟩ := ih (k - b.length)
    simp only [truncChunk, List.flatten_cons, i1, i2, List.take_append, List.length_append]
    exact ⟨trivial, by omega⟩

/-- everything except `rx`, `peer`, `relRev` -/
def core (h : Host) :=
  (h.ce, h.status, h.hab, h.cmdStatus, h.expectStatus, h.opened, h.rxR, h.txRev, h.tr, h.packSize, h.fuelHint)

/-- truncated link `(rxt, pt)` against full link `(rxf, pf)`: the truncated side has received a prefix, and once it lags
    behind the budget is used up -/
def Link (rxt : Bytes) (pt : Peer) (rxf : Bytes) (pf : Peer) : Prop :=
  ∃ (b : Nat) (cs : List (List Bytes)) (t : Bytes),
    pt = .script (truncChunks b cs) ∧ pf = .script cs ∧ rxf = rxt ++ t ∧ (t = [] ∨ b = 0)

def R (ht hf : Host) : Prop := core ht = core hf ∧ ht.tr = .serial ∧ Link ht.rx ht.peer hf.rx hf.peer

/-- lock-step: both runs return the same value in related states, or the truncated run raises -/
def Sim {α} (m : S α) : Prop :=
  ∀ ht hf, R ht hf →
    (∃ a ht' hf', m ht = (.ok a, ht') ∧ m hf = (.ok a, hf') ∧ R ht' hf') ∨ (∃ e ht', m ht = (.error e, ht'))

theorem sim_pure {α} (a : α) : Sim (pure a : S α) := fun ht hf r => .inl ⟨a, ht, hf, rfl, rfl, r⟩

theorem sim_fail {α} (e : SErr) : Sim (fail e : S α) := fun ht _ _ => .inr ⟨e, ht, rfl⟩

theorem sim_lift {α} (x : Except SErr α) : Sim (fun h => (x, h) : S α) := by
  intro ht hf r
  cases x with
  | error e => exact .inr ⟨e, ht, rfl⟩
  | ok a => exact .inl ⟨a, ht, hf, rfl, rfl, r⟩

theorem sim_bind {α β} {m : S α} {f : α → S β} (hm : Sim m) (hf : ∀ a, Sim (f a)) : Sim (m >>= f) := by
  intro ht hf' r
  rcases hm ht hf' r with ⟨a, ht', hf'', e1, e2, r'⟩ | ⟨e, ht', e1⟩
  · simp only [bind_run, e1, e2]; exact hf a ht' hf'' r'
  · right; exact ⟨e, ht', by simp only [bind_run, e1]⟩

theorem sim_guardConn {α} {m : S α} (hm : Sim m) : Sim (guardConn m) := by
  intro ht hf' r
  rcases hm ht hf' r with ⟨a, ht', hf'', e1, e2, r'⟩ | ⟨e, ht', e1⟩
  · left; exact ⟨a, ht', hf'', by simp only [guardConn_run, e1], by simp only [guardConn_run, e2], r'⟩
  · right; exact ⟨.conn, ht', by simp only [guardConn_run, e1]⟩

theorem sim_modify {f : Host → Host} (hf : ∀ ht hf, R ht hf → R (f ht) (f hf)) : Sim (S.modify f) :=
  fun ht hf' r => .inl ⟨(), f ht, f hf', rfl, rfl, hf ht hf' r⟩

/-- `R` is kept by an update of the fields outside the link that is computed from those fields alone -/
macro "r_mod" : tactic => `(tactic| (
  intro ht hf r
  obtain ⟨hc, hs, hl⟩ := r
  simp only [core, Prod.mk.injEq] at hc
  obtain ⟨c1, c2, c3, c4, c5, c6, c7, c8, c9, c10, c11⟩ := hc
  exact ⟨by simp only [core, Prod.mk.injEq]; simp [c1, c2, c3, c4, c5, c6, c7, c8, c9, c10, c11], hs, hl⟩))

theorem sim_get_bind {β} (f : Host → S β) (g : Bool → Bool → Nat → S β)
    (hfg : ∀ h, f h = g h.opened h.ce h.status) (hg : ∀ a b c, Sim (g a b c)) : Sim (S.get >>= f) := by
  intro ht hf r
  simp only [bind_run, get_run, hfg]
  have hc := r.1
  simp only [core, Prod.mk.injEq] at hc
  obtain ⟨c1, c2, c3, c4, c5, c6, _⟩ := hc
  rw [c1, c2, c6]
  exact hg _ _ _ ht hf r

theorem protoRead_serial (n : Nat) (h : Host) (hs : h.tr = .serial) :
    protoRead n h =
      if (if n = 0 then 4 else n) ≤ h.rx.length ∧ ¬ h.rx.isEmpty then
        (.ok (h.expectStatus, h.rx.take (if n = 0 then 4 else n)), { h with rx := h.rx.drop (if n = 0 then 4 else n) })
      else (.error .other, { h with rx := [] }) := by
  unfold protoRead
  split
  · rfl
  · rename_i heq; rw [hs] at heq; cases heq

theorem write_serial_nil (w : Bytes) (h : Host) (hs : h.tr = .serial) (hp : h.peer = .script []) :
    h.write w = { h with txRev := w :: h.txRev, relRev := [] :: h.relRev, peer := .script [], rx := h.rx ++ [],
                         expectStatus := true } := by
  unfold Host.write Host.devWrite
  rw [hp]
  simp only
  split
  · rfl
  · rename_i heq; rw [hs] at heq; cases heq

theorem write_serial_cons (w : Bytes) (h : Host) (c : List Bytes) (cs : List (List Bytes)) (hs : h.tr = .serial)
    (hp : h.peer = .script (c :: cs)) :
    h.write w = { h with txRev := w :: h.txRev, relRev := c :: h.relRev, peer := .script cs, rx := h.rx ++ c.flatten,
                         expectStatus := true } := by
  unfold Host.write Host.devWrite
  rw [hp]
  simp only
  split
  · rfl
  · rename_i heq; rw [hs] at heq; cases heq

theorem sendFrame_serial_f (rid : Nat) (w : Bytes) (h : Host) (hs : h.tr = .serial) :
    sendFrame rid w h = (.ok (), h.write w) := by
  unfold sendFrame
  split
  · rfl
  · rename_i heq; rw [hs] at heq; cases heq

theorem sim_protoRead (n : Nat) : Sim (protoRead n) := by
  intro ht hf r
  obtain ⟨hc, hs, b, cs, t, hpt, hpf, hrx, hb⟩ := r
  have hc' := hc
  simp only [core, Prod.mk.injEq] at hc'
  obtain ⟨c1, c2, c3, c4, c5, c6, c7, c8, c9, c10, c11⟩ := hc'
  have hsf : hf.tr = .serial := c9 ▸ hs
  rw [protoRead_serial n ht hs, protoRead_serial n hf hsf]
  generalize (if n = 0 then 4 else n) = n'
  by_cases hcond : n' ≤ ht.rx.length ∧ ¬ ht.rx.isEmpty = true
  · left
    have hcond' : n' ≤ hf.rx.length ∧ ¬ hf.rx.isEmpty = true := by
      obtain ⟨q1, q2⟩ := hcond
      rw [hrx]
      refine ⟨by simp only [List.length_append]; omega, ?_⟩
      cases hq : ht.rx with
      | nil => simp [hq] at q2
      | cons x xs => simp
    rw [if_pos hcond, if_pos hcond']
    refine ⟨(ht.expectStatus, ht.rx.take n'), { ht with rx := ht.rx.drop n' }, { hf with rx := hf.rx.drop n' }, rfl, ?_, ?_⟩
    · rw [c5, hrx, List.take_append_of_le_length hcond.1]
    · refine ⟨hc, hs, b, cs, t, hpt, hpf, ?_, hb⟩
      show hf.rx.drop n' = ht.rx.drop n' ++ t
      rw [hrx, List.drop_append_of_le_length hcond.1]
  · right; rw [if_neg hcond]; exact ⟨_, _, rfl⟩

theorem sim_sendFrame (rid : Nat) (w : Bytes) : Sim (sendFrame rid w) := by
  intro ht hf r
  obtain ⟨hc, hs, b, cs, t, hpt, hpf, hrx, hb⟩ := r
  have hc' := hc
  simp only [core, Prod.mk.injEq] at hc'
  obtain ⟨c1, c2, c3, c4, c5, c6, c7, c8, c9, c10, c11⟩ := hc'
  have hsf : hf.tr = .serial := c9 ▸ hs
  left
  refine ⟨(), ht.write w, hf.write w, sendFrame_serial_f rid w ht hs, sendFrame_serial_f rid w hf hsf, ?_⟩
  cases cs with
  | nil =>
    rw [write_serial_nil w ht hs hpt, write_serial_nil w hf hsf hpf]
    refine ⟨by simp only [core, Prod.mk.injEq]; simp [*], hs, 0, [], t, rfl, rfl, ?_, hb.elim .inl (fun _ => .inr rfl)⟩
    simp [hrx]
  | cons c cs =>
    rw [write_serial_cons w ht _ _ hs hpt, write_serial_cons w hf _ _ hsf hpf]
    obtain ⟨s1, s2⟩ := truncChunk_spec b c
    refine ⟨by simp only [core, Prod.mk.injEq]; simp [*], hs, (truncChunk b c).2, cs,
      t ++ c.flatten.drop b, rfl, rfl, ?_, ?_⟩
    · show hf.rx ++ c.flatten = (ht.rx ++ (truncChunk b c).1.flatten) ++ (t ++ c.flatten.drop b)
      rw [s1, hrx]
      rcases hb with rfl | rfl
      · simp
      · simp
    · rcases hb with rfl | rfl
      · rw [s2]
        rcases Nat.lt_or_ge b c.flatten.length with hlt | hge
        · right; omega
        · left; simp [List.drop_of_length_le hge]
      · right; rw [s2]; omega

theorem sim_writeCommand (c : Cmd) : Sim (writeCommand c) := by
  unfold writeCommand
  split
  · exact sim_sendFrame _ _
  · exact sim_fail _

theorem sim_get_opened {β} (m : S β) (hm : Sim m) :
    Sim (S.get >>= fun h => if ¬ h.opened then fail .conn else m) :=
  sim_get_bind _ (fun o _ _ => if ¬ o then fail .conn else m) (fun _ => rfl)
    (fun o _ _ => by split; exact sim_fail _; exact hm)

theorem sim_processCmd (c : Cmd) : Sim (processCmd c) := by
  unfold processCmd
  apply sim_get_opened
  apply sim_bind (sim_modify (by r_mod))
  intro _
  apply sim_bind (sim_guardConn (sim_bind (sim_writeCommand c) (fun _ => sim_protoRead 0)))
  intro ⟨hab, raw⟩
  dsimp only
  cases respValue raw with
  | error e => exact sim_fail _
  | ok v =>
    dsimp only
    split
    · exact sim_bind (sim_modify (by r_mod)) (fun _ => sim_pure _)
    · exact sim_pure _

theorem sim_readStatus : Sim readStatus := by
  unfold readStatus
  apply sim_guardConn
  apply sim_bind (sim_protoRead 0)
  intro ⟨_, raw⟩
  dsimp only
  cases respValue raw with
  | error e => exact sim_fail _
  | ok v => exact sim_pure _

theorem sim_readDataLoop (length f : Nat) (acc : Bytes) : Sim (readDataLoop length f acc) := by
  induction f generalizing acc with
  | zero => unfold readDataLoop; exact sim_fail _
  | succ f ih =>
    unfold readDataLoop
    split
    · apply sim_bind (sim_modify (by r_mod))
      intro _
      apply sim_bind (sim_guardConn (sim_protoRead _))
      intro ⟨hab, raw⟩
      dsimp only
      split
      · exact ih _
      · cases respValue raw with
        | error e => exact sim_fail _
        | ok v => exact sim_bind (sim_modify (by r_mod)) (fun _ => ih _)
    · exact sim_pure _

theorem sim_readData (length : Nat) : Sim (readData length) := by
  intro ht hf r
  have hc := r.1
  simp only [core, Prod.mk.injEq] at hc
  obtain ⟨c1, c2, c3, c4, c5, c6, c7, c8, c9, c10, c11⟩ := hc
  unfold readData
  rw [c7, c11]
  exact sim_readDataLoop _ _ _ ht hf r

theorem sim_statusTail (st okv failSt : Nat) : Sim (statusTail st okv failSt) := by
  unfold statusTail
  split
  · apply sim_bind (sim_modify (by r_mod))
    intro _
    exact sim_get_bind _ (fun _ ce _ => if ce then fail (.cmd failSt) else pure (.bool false)) (fun _ => rfl)
      (fun _ ce _ => by split; exact sim_fail _; exact sim_pure _)
  · exact sim_pure _

theorem sim_sendData (c : Cmd) (data : Bytes) : Sim (sendData c data) := by
  unfold sendData
  apply sim_get_opened
  apply sim_bind (sim_modify (by r_mod))
  intro _
  refine sim_bind (sim_guardConn ?_) ?_
  · apply sim_bind (sim_writeCommand c)
    intro _
    apply sim_bind (sim_sendFrame _ _)
    intro _
    apply sim_bind (sim_protoRead 0)
    intro ⟨_, habRaw⟩
    dsimp only
    apply sim_bind (sim_lift _)
    intro hv
    apply sim_bind (sim_modify (by r_mod))
    intro _
    apply sim_bind (sim_protoRead 0)
    intro ⟨_, stRaw⟩
    dsimp only
    apply sim_bind (sim_lift _)
    intro sv
    apply sim_bind (sim_modify (by r_mod))
    intro _
    split
    · exact sim_bind (sim_modify (by r_mod)) (fun _ => sim_pure _)
    · split
      · exact sim_bind (sim_modify (by r_mod)) (fun _ => sim_pure _)
      · split
        · exact sim_bind (sim_modify (by r_mod)) (fun _ => sim_pure _)
        · exact sim_pure _
  · intro ok
    exact sim_get_bind _ (fun _ ce st => if ¬ ok ∧ ce then fail (.cmd st) else pure ok) (fun _ => rfl)
      (fun _ ce st => by split; exact sim_fail _; exact sim_pure _)

theorem sim_sdpsWriteFile (noCmd : Bool) (ps : Nat) (data : Bytes) : Sim (sdpsWriteFile noCmd ps data) := by
  unfold sdpsWriteFile
  apply sim_guardConn
  apply sim_bind (sim_modify (by r_mod))
  intro _
  split
  · split
    · exact sim_bind (sim_fail _) (fun _ => sim_bind (sim_sendFrame _ _) (fun _ => sim_pure _))
    · exact sim_bind (sim_sendFrame _ _) (fun _ => sim_bind (sim_sendFrame _ _) (fun _ => sim_pure _))
  · exact sim_bind (sim_sendFrame _ _) (fun _ => sim_pure _)

theorem sim_runOp (op : Op) : Sim (runOp op) := by
  cases op with
  | read a n f =>
    exact sim_bind (sim_processCmd _) (fun _ => sim_bind (sim_readData _) (fun _ => sim_pure _))
  | write a v c f =>
    exact sim_bind (sim_processCmd _) (fun _ => sim_bind sim_readStatus (fun _ => sim_statusTail _ _ _))
  | writeFile a d => exact sim_bind (sim_sendData _ _) (fun _ => sim_pure _)
  | writeDcd a d => exact sim_bind (sim_sendData _ _) (fun _ => sim_pure _)
  | writeCsf a d => exact sim_bind (sim_sendData _ _) (fun _ => sim_pure _)
  | skipDcd =>
    exact sim_bind (sim_processCmd _) (fun _ => sim_bind sim_readStatus (fun _ => sim_statusTail _ _ _))
  | jumpAndRun a => exact sim_bind (sim_processCmd _) (fun _ => sim_pure _)
  | readStatus => exact sim_bind (sim_processCmd _) (fun _ => sim_bind sim_readStatus (fun _ => sim_pure _))
  | sdpsWriteFile nc ps d => exact sim_sdpsWriteFile nc ps d

/-- Cutting the device→host byte stream after `k` bytes (serial transport) never turns a call into a *different*
    success: either the call behaves exactly as on the uncut stream (result, `status_code`, `hab_status`, bytes written),
    or it raises. -/
theorem truncation_safe_serial (h : Host) (op : Op) (k : Nat) (cs : List (List Bytes))
    (htr : h.tr = .serial) (hpeer : h.peer = .script cs) :
    observable (runOp op (h.truncate k)) = observable (runOp op h) ∨ ¬ succeeded (runOp op (h.truncate k)).1 := by
  have htrunc : h.truncate k = { h with peer := .script (truncChunks k cs) } := by
    unfold Host.truncate; rw [hpeer]
  have r : R (h.truncate k) h := by
    rw [htrunc]
    exact ⟨rfl, htr, k, cs, [], rfl, hpeer, by simp, .inl rfl⟩
  rcases sim_runOp op _ _ r with ⟨a, ht', hf', e1, e2, r'⟩ | ⟨e, ht', e1⟩
  · left
    have hc := r'.1
    simp only [core, Prod.mk.injEq] at hc
    obtain ⟨c1, c2, c3, c4, c5, c6, c7, c8, _⟩ := hc
    simp only [observable, e1, e2, c2, c3, c8]
  · right
    rintro ⟨v, hv, _⟩
    rw [e1] at hv
    cases hv

example : ({ peer := .script [[be 4 Spec.rUnlocked, be 4 Spec.rWriteDataOk]] } : Host).tr = .serial := rfl
/-- uncut: `write` succeeds; cut after 6 of the 8 bytes: SdpConnectionError; cut after 8 or more: unchanged -/
example : (runOp (.write 0 1 4 32) { peer := .script [[be 4 Spec.rUnlocked, be 4 Spec.rWriteDataOk]] }).1 =
    .ok (.bool true) := by decide
example : (runOp (.write 0 1 4 32)
    (({ peer := .script [[be 4 Spec.rUnlocked, be 4 Spec.rWriteDataOk]] } : Host).truncate 6)).1 = .error .conn := by
  decide
example : (runOp (.write 0 1 4 32)
    (({ peer := .script [[be 4 Spec.rUnlocked, be 4 Spec.rWriteDataOk]] } : Host).truncate 8)).1 =
    .ok (.bool true) := by decide

/-! ## (4) truncation safety, HID transport (stream cut after `k` whole reports) -/

def truncReports : Nat → List (List Bytes) → List (List Bytes)
  | _, [] => []
  | k, c :: cs => c.take k :: truncReports (k - c.length) cs

def Host.truncateHid (k : Nat) (h : Host) : Host :=
  match h.peer with
  | .script cs => { h with peer := .script (truncReports k cs) }
  | _ => h

/-- everything except `rxR`, `peer`, `relRev` -/
def coreH (h : Host) :=
  (h.ce, h.status, h.hab, h.cmdStatus, h.expectStatus, h.opened, h.rx, h.txRev, h.tr, h.packSize, h.fuelHint)

def LinkH (rt : List Bytes) (pt : Peer) (rf : List Bytes) (pf : Peer) : Prop :=
  ∃ (b : Nat) (cs : List (List Bytes)) (t : List Bytes),
    pt = .script (truncReports b cs) ∧ pf = .script cs ∧ rf = rt ++ t ∧ (t = [] ∨ b = 0)

def RH (ht hf : Host) : Prop := coreH ht = coreH hf ∧ ht.tr = .hid ∧ LinkH ht.rxR ht.peer hf.rxR hf.peer

/-- lock-step of two (possibly different) computations: the fuel of `readData` differs between the two runs -/
def SimH2 {α} (mt mf : S α) : Prop :=
  ∀ ht hf, RH ht hf →
    (∃ a ht' hf', mt ht = (.ok a, ht') ∧ mf hf = (.ok a, hf') ∧ RH ht' hf') ∨ (∃ e ht', mt ht = (.error e, ht'))

def SimH {α} (m : S α) : Prop :=
  ∀ ht hf, RH ht hf →
    (∃ a ht' hf', m ht = (.ok a, ht') ∧ m hf = (.ok a, hf') ∧ RH ht' hf') ∨ (∃ e ht', m ht = (.error e, ht'))

theorem simH_pure {α} (a : α) : SimH (pure a : S α) := fun ht hf r => .inl ⟨a, ht, hf, rfl, rfl, r⟩

theorem simH_fail {α} (e : SErr) : SimH (fail e : S α) := fun ht _ _ => .inr ⟨e, ht, rfl⟩

theorem simH_lift {α} (x : Except SErr α) : SimH (fun h => (x, h) : S α) := by
  intro ht hf r
  cases x with
  | error e => exact .inr ⟨e, ht, rfl⟩
  | ok a => exact .inl ⟨a, ht, hf, rfl, rfl, r⟩

theorem simH_bind {α β} {m : S α} {f : α → S β} (hm : SimH m) (hf : ∀ a, SimH (f a)) : SimH (m >>= f) := by
  intro ht hf' r
  rcases hm ht hf' r with ⟨a, ht', hf'', e1, e2, r'⟩ | ⟨e, ht', e1⟩
  · simp only [bind_run, e1, e2]; exact hf a ht' hf'' r'
  · right; exact ⟨e, ht', by simp only [bind_run, e1]⟩

theorem simH_guardConn {α} {m : S α} (hm : SimH m) : SimH (guardConn m) := by
  intro ht hf' r
  rcases hm ht hf' r with ⟨a, ht', hf'', e1, e2, r'⟩ | ⟨e, ht', e1⟩
  · left; exact ⟨a, ht', hf'', by simp only [guardConn_run, e1], by simp only [guardConn_run, e2], r'⟩
  · right; exact ⟨.conn, ht', by simp only [guardConn_run, e1]⟩

theorem simH_modify {f : Host → Host} (hf : ∀ ht hf, RH ht hf → RH (f ht) (f hf)) : SimH (S.modify f) :=
  fun ht hf' r => .inl ⟨(), f ht, f hf', rfl, rfl, hf ht hf' r⟩

/-- `RH` is kept by an update of the fields outside the link that is computed from those fields alone -/
macro "rh_mod" : tactic => `(tactic| (
  intro ht hf r
  obtain ⟨hc, hs, hl⟩ := r
  simp only [coreH, Prod.mk.injEq] at hc
  obtain ⟨c1, c2, c3, c4, c5, c6, c7, c8, c9, c10, c11⟩ := hc
  exact ⟨by simp only [coreH, Prod.mk.injEq]; simp [c1, c2, c3, c4, c5, c6, c7, c8, c9, c10, c11], hs, hl⟩))

theorem simH_get_bind {β} (f : Host → S β) (g : Bool → Bool → Nat → S β)
    (hfg : ∀ h, f h = g h.opened h.ce h.status) (hg : ∀ a b c, SimH (g a b c)) : SimH (S.get >>= f) := by
  intro ht hf r
  simp only [bind_run, get_run, hfg]
  have hc := r.1
  simp only [coreH, Prod.mk.injEq] at hc
  obtain ⟨c1, c2, c3, c4, c5, c6, _⟩ := hc
  rw [c1, c2, c6]
  exact hg _ _ _ ht hf r

theorem simH2_bind {α β} {m : S α} {ft ff : α → S β} (hm : SimH m) (hf : ∀ a, SimH2 (ft a) (ff a)) :
    SimH2 (m >>= ft) (m >>= ff) := by
  intro ht hf' r
  rcases hm ht hf' r with ⟨a, ht', hf'', e1, e2, r'⟩ | ⟨e, ht', e1⟩
  · simp only [bind_run, e1, e2]; exact hf a ht' hf'' r'
  · right; exact ⟨e, ht', by simp only [bind_run, e1]⟩

theorem protoRead_hid (n : Nat) (h : Host) (hs : h.tr = .hid) :
    protoRead n h =
      match h.rxR with
      | [] => (.error .other, h)
      | r :: rs =>
        match r with
        | [] => (.error .other, { h with rxR := rs })
        | rid :: payload => (.ok (rid.toNat = Spec.ridHab, payload), { h with rxR := rs }) := by
  unfold protoRead
  split
  · rename_i heq; rw [hs] at heq; cases heq
  · rfl

theorem simH_protoRead (n : Nat) : SimH (protoRead n) := by
  intro ht hf r
  obtain ⟨hc, hs, b, cs, t, hpt, hpf, hrx, hb⟩ := r
  have hc' := hc
  simp only [coreH, Prod.mk.injEq] at hc'
  obtain ⟨c1, c2, c3, c4, c5, c6, c7, c8, c9, c10, c11⟩ := hc'
  have hsf : hf.tr = .hid := c9 ▸ hs
  rw [protoRead_hid n ht hs, protoRead_hid n hf hsf]
  cases hq : ht.rxR with
  | nil => right; exact ⟨_, _, rfl⟩
  | cons r rs =>
    have hqf : hf.rxR = r :: (rs ++ t) := by rw [hrx, hq]; rfl
    rw [hqf]
    cases r with
    | nil => right; exact ⟨_, _, rfl⟩
    | cons rid payload =>
      left
      exact ⟨_, { ht with rxR := rs }, { hf with rxR := rs ++ t }, rfl, rfl, hc, hs, b, cs, t, hpt, hpf, rfl, hb⟩

theorem devWrite_hid_nil (w : Bytes) (h : Host) (hs : h.tr = .hid) (hp : h.peer = .script []) :
    h.devWrite w = { h with txRev := w :: h.txRev, relRev := [] :: h.relRev, peer := .script [], rxR := h.rxR ++ [] } := by
  unfold Host.devWrite
  rw [hp]
  simp only
  split
  · rename_i heq; rw [hs] at heq; cases heq
  · rfl

theorem devWrite_hid_cons (w : Bytes) (h : Host) (c : List Bytes) (cs : List (List Bytes)) (hs : h.tr = .hid)
    (hp : h.peer = .script (c :: cs)) :
    h.devWrite w = { h with txRev := w :: h.txRev, relRev := c :: h.relRev, peer := .script cs, rxR := h.rxR ++ c } := by
  unfold Host.devWrite
  rw [hp]
  simp only
  split
  · rename_i heq; rw [hs] at heq; cases heq
  · rfl

theorem RH_devWrite (w : Bytes) (ht hf : Host) (r : RH ht hf) : RH (ht.devWrite w) (hf.devWrite w) := by
  obtain ⟨hc, hs, b, cs, t, hpt, hpf, hrx, hb⟩ := r
  have hc' := hc
  simp only [coreH, Prod.mk.injEq] at hc'
  obtain ⟨c1, c2, c3, c4, c5, c6, c7, c8, c9, c10, c11⟩ := hc'
  have hsf : hf.tr = .hid := c9 ▸ hs
  cases cs with
  | nil =>
    rw [devWrite_hid_nil w ht hs hpt, devWrite_hid_nil w hf hsf hpf]
    refine ⟨by simp only [coreH, Prod.mk.injEq]; simp [c1, c2, c3, c4, c5, c6, c7, c8, c9, c10, c11], hs, 0, [], t,
      rfl, rfl, ?_, hb.elim .inl (fun _ => .inr rfl)⟩
    simp [hrx]
  | cons c cs =>
    rw [devWrite_hid_cons w ht _ _ hs hpt, devWrite_hid_cons w hf _ _ hsf hpf]
    refine ⟨by simp only [coreH, Prod.mk.injEq]; simp [c1, c2, c3, c4, c5, c6, c7, c8, c9, c10, c11], hs,
      b - c.length, cs, t ++ c.drop b, rfl, rfl, ?_, ?_⟩
    · show hf.rxR ++ c = (ht.rxR ++ c.take b) ++ (t ++ c.drop b)
      rw [hrx]
      rcases hb with rfl | rfl
      · simp
      · simp
    · rcases hb with rfl | rfl
      · rcases Nat.lt_or_ge b c.length with hlt | hge
        · right; omega
        · left; simp [List.drop_of_length_le hge]
      · right; omega

theorem RH_foldl (fs : List Bytes) (ht hf : Host) (r : RH ht hf) :
    RH (fs.foldl (fun x f => x.devWrite f) ht) (fs.foldl (fun x f => x.devWrite f) hf) := by
  induction fs generalizing ht hf with
  | nil => exact r
  | cons f fs ih => exact ih _ _ (RH_devWrite f ht hf r)

theorem sendFrame_hid' (rid : Nat) (w : Bytes) (h : Host) (hs : h.tr = .hid) :
    sendFrame rid w h =
      if h.packSize = 0 ∧ ¬ w.isEmpty then (.error .other, h)
      else (.ok (), (hidFrames rid h.packSize w).foldl (fun x f => x.devWrite f) h) := by
  unfold sendFrame
  split
  · rename_i heq; rw [hs] at heq; cases heq
  · rfl

theorem simH_sendFrame (rid : Nat) (w : Bytes) : SimH (sendFrame rid w) := by
  intro ht hf r
  have hc := r.1
  have hs := r.2.1
  simp only [coreH, Prod.mk.injEq] at hc
  obtain ⟨c1, c2, c3, c4, c5, c6, c7, c8, c9, c10, c11⟩ := hc
  have hsf : hf.tr = .hid := c9 ▸ hs
  rw [sendFrame_hid' rid w ht hs, sendFrame_hid' rid w hf hsf, ← c10]
  by_cases hcond : ht.packSize = 0 ∧ ¬ w.isEmpty = true
  · right; rw [if_pos hcond]; exact ⟨_, _, rfl⟩
  · left; rw [if_neg hcond, if_neg hcond]; exact ⟨_, _, _, rfl, rfl, RH_foldl _ ht hf r⟩

theorem simH_writeCommand (c : Cmd) : SimH (writeCommand c) := by
  unfold writeCommand
  split
  · exact simH_sendFrame _ _
  · exact simH_fail _

theorem simH_get_opened {β} (m : S β) (hm : SimH m) :
    SimH (S.get >>= fun h => if ¬ h.opened then fail .conn else m) :=
  simH_get_bind _ (fun o _ _ => if ¬ o then fail .conn else m) (fun _ => rfl)
    (fun o _ _ => by split; exact simH_fail _; exact hm)

theorem simH_processCmd (c : Cmd) : SimH (processCmd c) := by
  unfold processCmd
  apply simH_get_opened
  apply simH_bind (simH_modify (by rh_mod))
  intro _
  apply simH_bind (simH_guardConn (simH_bind (simH_writeCommand c) (fun _ => simH_protoRead 0)))
  intro ⟨hab, raw⟩
  dsimp only
  cases respValue raw with
  | error e => exact simH_fail _
  | ok v =>
    dsimp only
    split
    · exact simH_bind (simH_modify (by rh_mod)) (fun _ => simH_pure _)
    · exact simH_pure _

theorem simH_readStatus : SimH readStatus := by
  unfold readStatus
  apply simH_guardConn
  apply simH_bind (simH_protoRead 0)
  intro ⟨_, raw⟩
  dsimp only
  cases respValue raw with
  | error e => exact simH_fail _
  | ok v => exact simH_pure _

theorem simH2_readDataLoop (length ft : Nat) :
    ∀ (ff : Nat) (acc : Bytes), ft ≤ ff → SimH2 (readDataLoop length ft acc) (readDataLoop length ff acc) := by
  induction ft with
  | zero => intro ff acc _ ht hf r; right; exact ⟨.fuel, ht, rfl⟩
  | succ ft ih =>
    intro ff acc hle
    cases ff with
    | zero => omega
    | succ ff =>
      have hle' : ft ≤ ff := by omega
      unfold readDataLoop
      by_cases hl : acc.length < length
      · rw [if_pos hl, if_pos hl]
        apply simH2_bind (simH_modify (by rh_mod))
        intro _
        apply simH2_bind (simH_guardConn (simH_protoRead _))
        intro ⟨hab, raw⟩
        dsimp only
        by_cases hh : ¬ hab = true
        · rw [if_pos hh, if_pos hh]; exact ih _ _ hle'
        · rw [if_neg hh, if_neg hh]
          cases respValue raw with
          | error e => exact simH_fail _
          | ok v => exact simH2_bind (simH_modify (by rh_mod)) (fun _ => ih _ _ hle')
      · rw [if_neg hl, if_neg hl]; exact simH_pure _

theorem simH_readData (length : Nat) : SimH (readData length) := by
  intro ht hf r
  have hc := r.1
  simp only [coreH, Prod.mk.injEq] at hc
  obtain ⟨c1, c2, c3, c4, c5, c6, c7, c8, c9, c10, c11⟩ := hc
  obtain ⟨b, cs, t, _, _, hrx, _⟩ := r.2.2
  unfold readData
  have hle : length + ht.rxR.length + ht.fuelHint + 1 ≤ length + hf.rxR.length + hf.fuelHint + 1 := by
    rw [hrx, c11]; simp only [List.length_append]; omega
  exact simH2_readDataLoop _ _ _ _ hle ht hf r

theorem simH_statusTail (st okv failSt : Nat) : SimH (statusTail st okv failSt) := by
  unfold statusTail
  split
  · apply simH_bind (simH_modify (by rh_mod))
    intro _
    exact simH_get_bind _ (fun _ ce _ => if ce then fail (.cmd failSt) else pure (.bool false)) (fun _ => rfl)
      (fun _ ce _ => by split; exact simH_fail _; exact simH_pure _)
  · exact simH_pure _

theorem simH_sendData (c : Cmd) (data : Bytes) : SimH (sendData c data) := by
  unfold sendData
  apply simH_get_opened
  apply simH_bind (simH_modify (by rh_mod))
  intro _
  refine simH_bind (simH_guardConn ?_) ?_
  · apply simH_bind (simH_writeCommand c)
    intro _
    apply simH_bind (simH_sendFrame _ _)
    intro _
    apply simH_bind (simH_protoRead 0)
    intro ⟨_, habRaw⟩
    dsimp only
    apply simH_bind (simH_lift _)
    intro hv
    apply simH_bind (simH_modify (by rh_mod))
    intro _
    apply simH_bind (simH_protoRead 0)
    intro ⟨_, stRaw⟩
    dsimp only
    apply simH_bind (simH_lift _)
    intro sv
    apply simH_bind (simH_modify (by rh_mod))
    intro _
    split
    · exact simH_bind (simH_modify (by rh_mod)) (fun _ => simH_pure _)
    · split
      · exact simH_bind (simH_modify (by rh_mod)) (fun _ => simH_pure _)
      · split
        · exact simH_bind (simH_modify (by rh_mod)) (fun _ => simH_pure _)
        · exact simH_pure _
  · intro ok
    exact simH_get_bind _ (fun _ ce st => if ¬ ok ∧ ce then fail (.cmd st) else pure ok) (fun _ => rfl)
      (fun _ ce st => by split; exact simH_fail _; exact simH_pure _)

theorem simH_sdpsWriteFile (noCmd : Bool) (ps : Nat) (data : Bytes) : SimH (sdpsWriteFile noCmd ps data) := by
  unfold sdpsWriteFile
  apply simH_guardConn
  apply simH_bind (simH_modify (by rh_mod))
  intro _
  split
  · split
    · exact simH_bind (simH_fail _) (fun _ => simH_bind (simH_sendFrame _ _) (fun _ => simH_pure _))
    · exact simH_bind (simH_sendFrame _ _) (fun _ => simH_bind (simH_sendFrame _ _) (fun _ => simH_pure _))
  · exact simH_bind (simH_sendFrame _ _) (fun _ => simH_pure _)

theorem simH_runOp (op : Op) : SimH (runOp op) := by
  cases op with
  | read a n f =>
    exact simH_bind (simH_processCmd _) (fun _ => simH_bind (simH_readData _) (fun _ => simH_pure _))
  | write a v c f =>
    exact simH_bind (simH_processCmd _) (fun _ => simH_bind simH_readStatus (fun _ => simH_statusTail _ _ _))
  | writeFile a d => exact simH_bind (simH_sendData _ _) (fun _ => simH_pure _)
  | writeDcd a d => exact simH_bind (simH_sendData _ _) (fun _ => simH_pure _)
  | writeCsf a d => exact simH_bind (simH_sendData _ _) (fun _ => simH_pure _)
  | skipDcd =>
    exact simH_bind (simH_processCmd _) (fun _ => simH_bind simH_readStatus (fun _ => simH_statusTail _ _ _))
  | jumpAndRun a => exact simH_bind (simH_processCmd _) (fun _ => simH_pure _)
  | readStatus => exact simH_bind (simH_processCmd _) (fun _ => simH_bind simH_readStatus (fun _ => simH_pure _))
  | sdpsWriteFile nc ps d => exact simH_sdpsWriteFile nc ps d

/-- Cutting the device→host report stream after `k` whole reports (USB-HID transport): the call behaves exactly as on
    the uncut stream, or it raises. -/
theorem truncation_safe_hid (h : Host) (op : Op) (k : Nat) (cs : List (List Bytes))
    (htr : h.tr = .hid) (hpeer : h.peer = .script cs) :
    observable (runOp op (h.truncateHid k)) = observable (runOp op h) ∨ ¬ succeeded (runOp op (h.truncateHid k)).1 := by
  have htrunc : h.truncateHid k = { h with peer := .script (truncReports k cs) } := by
    unfold Host.truncateHid; rw [hpeer]
  have r : RH (h.truncateHid k) h := by
    rw [htrunc]
    exact ⟨rfl, htr, k, cs, [], rfl, hpeer, by simp, .inl rfl⟩
  rcases simH_runOp op _ _ r with ⟨a, ht', hf', e1, e2, r'⟩ | ⟨e, ht', e1⟩
  · left
    have hc := r'.1
    simp only [coreH, Prod.mk.injEq] at hc
    obtain ⟨c1, c2, c3, c4, c5, c6, c7, c8, _⟩ := hc
    simp only [observable, e1, e2, c2, c3, c8]
  · right
    rintro ⟨v, hv, _⟩
    rw [e1] at hv
    cases hv

example : ({ tr := .hid, peer := .script [[3 :: be 4 Spec.rUnlocked, 4 :: be 4 Spec.rWriteDataOk]] } : Host).tr = .hid := rfl
/-- uncut: `write` over HID succeeds; cut after 1 of the 2 reports: SdpConnectionError; cut after 2: unchanged -/
example : (runOp (.write 0 1 4 32)
    { tr := .hid, peer := .script [[3 :: be 4 Spec.rUnlocked, 4 :: be 4 Spec.rWriteDataOk]] }).1 = .ok (.bool true) := by
  decide
example : (runOp (.write 0 1 4 32)
    (({ tr := .hid, peer := .script [[3 :: be 4 Spec.rUnlocked, 4 :: be 4 Spec.rWriteDataOk]] } : Host).truncateHid 1)).1 =
    .error .conn := by decide
example : (runOp (.write 0 1 4 32)
    (({ tr := .hid, peer := .script [[3 :: be 4 Spec.rUnlocked, 4 :: be 4 Spec.rWriteDataOk]] } : Host).truncateHid 2)).1 =
    .ok (.bool true) := by decide

/-- `read` (the loop whose fuel differs between the two runs): cut before the data report -> SdpConnectionError -/
example : (runOp (.read 0 4 8)
    { tr := .hid, peer := .script [[3 :: be 4 Spec.rUnlocked, 4 :: [1, 2, 3, 4]]] }).1 = .ok (.bytes [1, 2, 3, 4]) := by
  decide
example : (runOp (.read 0 4 8)
    (({ tr := .hid, peer := .script [[3 :: be 4 Spec.rUnlocked, 4 :: [1, 2, 3, 4]]] } : Host).truncateHid 1)).1 =
    .error .conn := by decide

end SpsdkVerif.Sdp
