/-
Helper lemmas for the grouped-register part of Properties/C12.lean (Phase 3): the sub-register structure of the details table as C11
registers (`toRegG`), the meaning of the per-register checker `groupOkB`, and the reduction of "bits a configuration does not carry"
to "bits no bit-field covers" through the reset facts of the table (`resetsB`).
-/
import SpsdkVerif.Model.ConfigArea
import SpsdkVerif.Proofs.ConfigArea
import SpsdkVerif.Proofs.ConfigAreaCfg
import SpsdkVerif.Proofs.RegistersCfg
import SpsdkVerif.Properties.C11

namespace SpsdkVerif.C12
open SpsdkVerif SpsdkVerif.CfgArea SpsdkVerif.Misc SpsdkVerif.BinImg
open SpsdkVerif.Regs (mask testBit_mask)

/-- bit `k` lies in one of the bit-fields of the register -/
def Covered (r : RegL) (k : Nat) : Prop := ∃ f ∈ r.fields, f.off ≤ k ∧ k < f.off + f.width

/-- the reset facts of one register of the details table (what `resetsB` checks per bit-field) -/
def FieldResets (r : RegL) (rd : RegD) : Prop :=
  ∀ (j : Nat) (f : BF) (fd : FieldD), r.fields[j]? = some f → rd.fields[j]? = some fd → ((rd.init >>> f.off) % 2 ^ f.width) <<< fd.shift = fd.reset

theorem zipAll_get {α β} {p : α → β → Bool} : ∀ {as : List α} {bs : List β}, zipAll p as bs = true →
    ∀ (i : Nat) (a : α) (b : β), as[i]? = some a → bs[i]? = some b → p a b = true := by
  intro as
  induction as with
  | nil => intro bs _ i a b ha; simp at ha
  | cons x xs ih =>
    intro bs h i a b ha hb
    cases bs with
    | nil => simp at hb
    | cons y ys =>
      simp only [zipAll, Bool.and_eq_true] at h
      cases i with
      | zero => simp at ha hb; subst ha; subst hb; exact h.1
      | succ j => exact ih h.2 j a b (by simpa using ha) (by simpa using hb)

theorem fieldResets_of_resetsB (l : Layout) (d : LayoutD) (h : resetsB l d = true) (i : Nat) (r : RegL) (rd : RegD)
    (hr : l.regs[i]? = some r) (hrd : d.regs[i]? = some rd) : FieldResets r rd := by
  have h1 := zipAll_get h i r rd hr hrd
  simp only [Bool.and_eq_true] at h1
  intro j f fd hf hfd
  have h2 := zipAll_get h1.2 j f fd hf hfd
  simp only [Bool.and_eq_true, beq_iff_eq] at h2
  exact h2.2

/-- **a bit the configuration does not carry is an uncovered bit or agrees with the fresh object**: a hidden bit-field is left out
    of `get_config` only when it reads its reset value, and (table fact `gen_resets_fit`) the reset value IS what the field reads
    in the fresh register; so on every COVERED bit that is not carried, the fresh register agrees with the state -/
theorem not_carried_covered (r : RegL) (rd : RegD) (v k : Nat) (hfl : r.fields.length = rd.fields.length)
    (hres : FieldResets r rd) (hc : Covered r k) (hnc : ¬ Regs.Carried (toRegMeta rd) (toReg r rd v) k) :
    rd.init.testBit k = v.testBit k := by
  obtain ⟨f, hf, h1, h2⟩ := hc
  obtain ⟨j, hj, rfl⟩ := List.mem_iff_getElem.1 hf
  have hj' : j < rd.fields.length := by omega
  have hfj : (toReg r rd v).fields[j]? = some (toField r.fields[j] rd.fields[j]) := by
    simp [toReg, List.getElem?_zipWith, List.getElem?_eq_getElem hj, List.getElem?_eq_getElem hj']
  have hget : Regs.fieldGet (toReg r rd v) (toField r.fields[j] rd.fields[j]) = .ok rd.fields[j].reset := by
    have := mt (fun hh => (Regs.carried_iff (toRegMeta rd) (toReg r rd v) k).2 ⟨j, _, hfj, h1, h2, hh⟩) hnc
    simp only [Classical.not_not] at this
    exact this.2
  rw [Regs.fieldGet_plain _ _ rfl rfl] at hget
  simp only [toField, toReg, Except.ok.injEq] at hget
  have hr := hres j _ _ (List.getElem?_eq_getElem hj) (List.getElem?_eq_getElem hj')
  rw [← hr] at hget
  have hinj := Nat.eq_of_mul_eq_mul_right (Nat.two_pow_pos _) (by simpa only [Nat.shiftLeft_eq] using hget)
  have hk : k = r.fields[j].off + (k - r.fields[j].off) := by omega
  have hlt : k - r.fields[j].off < r.fields[j].width := by omega
  have e1 := congrArg (fun x => x.testBit (k - r.fields[j].off)) hinj
  simp only [Nat.testBit_and, Nat.testBit_shiftRight, testBit_mask, Nat.testBit_mod_two_pow, hlt, decide_true, Bool.and_true,
    Bool.true_and, ← hk] at e1
  exact e1.symm

theorem toFileFromG_getElem? : ∀ {rs : List RegL} {rds : List RegD} {vs : Vals} (i : Nat), Aligned3 rs rds vs →
    (toFileFromG rs rds vs)[i]? = match rs[i]?, rds[i]?, vs[i]? with
      | some r, some rd, some v => some (toRegG r rd v)
      | _, _, _ => none := by
  intro rs rds vs i h
  induction h generalizing i with
  | nil => simp [toFileFromG]
  | cons _ _ ih =>
    cases i with
    | zero => simp [toFileFromG]
    | succ j => simpa [toFileFromG] using ih j

theorem toFileFromG_length : ∀ {rs : List RegL} {rds : List RegD} {vs : Vals}, Aligned3 rs rds vs →
    (toFileFromG rs rds vs).length = rs.length := by
  intro rs rds vs h
  induction h with
  | nil => rfl
  | cons _ _ ih => simp [toFileFromG, ih]

theorem pick3G {rs : List RegL} {rds : List RegD} {vs : Vals} {i : Nat} {x : Regs.Reg} (h : Aligned3 rs rds vs)
    (hx : (toFileFromG rs rds vs)[i]? = some x) :
    ∃ r rd v, rs[i]? = some r ∧ rds[i]? = some rd ∧ vs[i]? = some v ∧ x = toRegG r rd v := by
  rw [toFileFromG_getElem? i h] at hx
  split at hx
  · next r rd v h1 h2 h3 => exact ⟨r, rd, v, h1, h2, h3, by simpa using hx.symm⟩
  · cases hx

/-- what the per-register Boolean `groupOkB` establishes -/
structure GroupFacts (r : RegL) (rd : RegD) : Prop where
  plain : rd.subW = 0 → rd.reverse = false ∧ rd.alts = []
  nofields : rd.subW ≠ 0 → r.fields = []
  width : rd.subW ≠ 0 → r.width = rd.subW * rd.nsubs
  alts : rd.subW ≠ 0 → ∀ a ∈ rd.alts, a % 8 = 0 ∧ 8 ≤ a ∧ a ≤ r.width ∧ a % rd.subW = 0
  order : rd.subW ≠ 0 → rd.revSubs = false ∨ rd.alts = []
  fresh : rd.subW ≠ 0 → rd.alts = [] ∨ rd.init = 0

theorem groupOkB_sound (r : RegL) (rd : RegD) (h : groupOkB r rd = true) : GroupFacts r rd := by
  unfold groupOkB at h
  split at h
  · next h0 =>
    simp only [Bool.and_eq_true, Bool.not_eq_true', List.isEmpty_iff] at h
    exact ⟨fun _ => h, fun hn => absurd h0 hn, fun hn => absurd h0 hn, fun hn => absurd h0 hn, fun hn => absurd h0 hn,
      fun hn => absurd h0 hn⟩
  · next h0 =>
    simp only [Bool.and_eq_true, Bool.or_eq_true, Bool.not_eq_true', List.isEmpty_iff, beq_iff_eq, List.all_eq_true,
      decide_eq_true_eq] at h
    obtain ⟨⟨⟨⟨h1, h2⟩, h3⟩, h4⟩, h5⟩ := h
    refine ⟨fun hh => absurd hh h0, fun _ => h1, fun _ => h2, fun _ a ha => ?_, fun _ => ?_, fun _ => h5⟩
    · have := h3 a ha; exact ⟨this.1.1.1, this.1.1.2, this.1.2, this.2⟩
    · rcases h4 with h4 | h4
      · exact Or.inl h4
      · exact Or.inr h4

/-- a byte-reversed group with alternative widths shows its value unambiguously: the stored raw value does not end in so many zero
    bytes that a smaller alternative width would be chosen when it is read back (open finding
    C11-alt-width-reversed-trailing-zero-bytes; vacuous without alternative widths, and for every value that fits the smallest
    alternative width) -/
def AltStable (r : RegL) (rd : RegD) (v : Nat) : Prop :=
  rd.reverse = true → ∀ a ∈ rd.alts, a < Regs.altWidth rd.alts r.width v → v % 2 ^ (Regs.altWidth rd.alts r.width v - a) ≠ 0

theorem toRegG_plain (r : RegL) (rd : RegD) (v : Nat) (h : rd.subW = 0) : toRegG r rd v = toReg r rd v := by
  simp [toRegG, h]

theorem toRegG_group (r : RegL) (rd : RegD) (v : Nat) (h : rd.subW ≠ 0) (hv : v < 2 ^ r.width) :
    toRegG r rd v = { groupBase r rd with subs := Regs.distribute (groupBase r rd) v } := by
  have := Regs.set_group (groupBase r rd) v (by simp only [groupBase]; omega) (by simpa only [groupBase] using hv)
  simp [toRegG, h, this]

theorem distribute_zero (r : RegL) (rd : RegD) (i : Nat) : (Regs.distribute (groupBase r rd) 0).getD i 0 = 0 := by
  rw [List.getD_eq_getElem?_getD]
  cases h : (Regs.distribute (groupBase r rd) 0)[i]? with
  | none => rfl
  | some s =>
    simp only [Regs.distribute, groupBase, List.length_replicate, List.getElem?_map, Option.map_eq_some_iff] at h
    obtain ⟨j, _, hj⟩ := h
    subst hj
    by_cases hc : j < r.width / rd.subW
    · simp [if_pos hc]
    · simp only [hc, if_false, Option.getD_some, List.getD_eq_getElem?_getD, List.getElem?_replicate]
      split <;> rfl

theorem groupWF_G (r : RegL) (rd : RegD) (v : Nat) (h8 : r.width % 8 = 0) (hne : rd.subW ≠ 0) (hw : r.width = rd.subW * rd.nsubs) :
    C11.GroupWF { groupBase r rd with subs := Regs.distribute (groupBase r rd) v } := by
  have hg : 0 < (groupBase r rd).subW := by simp only [groupBase]; omega
  have hw' : (groupBase r rd).width = (groupBase r rd).subW * (groupBase r rd).subs.length := by
    simp only [groupBase, List.length_replicate]; exact hw
  refine ⟨hg, ?_, Regs.distribute_bound (groupBase r rd) v hw' hg, h8⟩
  simp only [Regs.distribute_length]; exact hw'

theorem assemble_G (r : RegL) (rd : RegD) (v : Nat) (hne : rd.subW ≠ 0) (hw : r.width = rd.subW * rd.nsubs) (hv : v < 2 ^ r.width) :
    Regs.assemble { groupBase r rd with subs := Regs.distribute (groupBase r rd) v } = v := by
  apply Regs.assemble_distribute
  · simp only [groupBase, List.length_replicate]; exact hw
  · simp only [groupBase]; omega
  · simpa only [groupBase] using hv

theorem altStable_of_fits (r : RegL) (rd : RegD) (v : Nat) (h : ∀ a ∈ rd.alts, Regs.byteCnt v ≤ a / 8) : AltStable r rd v := by
  intro _ a ha hlt
  rcases Regs.altWidth_cases rd.alts r.width v with ⟨_, hno⟩ | ⟨_, _, hmin⟩
  · exact absurd (h a ha) (hno a ha)
  · have := hmin a ha (h a ha); omega


end SpsdkVerif.C12

/-! ### scalar decoding of `_load_yml_config` -/

namespace SpsdkVerif.CfgArea

theorem digitsVal_append (base : Nat) (xs : List Nat) (d : Nat) : digitsVal base (xs ++ [d]) = digitsVal base xs * base + d := by
  simp [digitsVal, List.foldl_append]

theorem digitsVal_hexDigits : ∀ (n v : Nat), digitsVal 16 (hexDigits n v) = v % 16 ^ n := by
  intro n
  induction n with
  | zero => intro v; simp [hexDigits, digitsVal, Nat.mod_one]
  | succ n ih =>
    intro v
    rw [hexDigits, digitsVal_append, ih, Nat.pow_succ', Nat.mod_mul]
    omega

theorem hexDigits_ne_nil (n v : Nat) (hn : 0 < n) : (hexDigits n v).isEmpty = false := by
  cases n with
  | zero => omega
  | succ n => simp [hexDigits]

/-- a rule whose first applicable step (hex-string register, string value) is `int(x, 16)` reads the text `get_hex_value` wrote
    back as the value -/
theorem decodeScalar_hex (rule : ScalarRule) (h : hexFirstB rule = true) (n v : Nat) (hn : 0 < n) (hv : v < 16 ^ n) :
    decodeScalar rule true (.digits (hexDigits n v)) = some v := by
  induction rule with
  | nil => simp [hexFirstB] at h
  | cons st rest ih =>
    simp only [hexFirstB, List.find?_cons] at h
    by_cases hc : st.cond.holds true true = true
    · simp only [hc] at h
      have hp : st.parser = .hex16 := by simpa using h
      simp only [decodeScalar, Scalar.isStr, hc, if_true, hp, ScalarParser.run, parseHex16, hexDigits_ne_nil n v hn,
        digitsVal_hexDigits, Nat.mod_eq_of_lt hv]
      rfl
    · have hc' : st.cond.holds true true = false := by simpa using hc
      simp only [hc'] at h
      simp only [decodeScalar, Scalar.isStr, hc']
      exact ih h

end SpsdkVerif.CfgArea
