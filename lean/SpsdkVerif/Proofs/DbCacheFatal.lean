/-
C18 — nobody is ever fatal, whatever is in the cache file and whoever removes it: with guards that catch
every `Exception` (`CatchAll`) no schedule — kills, I/O errors, `wipe`s by cache-disabled processes, any
file content (garbage included) — drives a process into `fatal`.
-/
import SpsdkVerif.Proofs.DbCacheSpec

namespace SpsdkVerif.DbCache.Fatal
open SpsdkVerif SpsdkVerif.DbCache

/-- a pending exception (carried over a lock release) is a subclass of `Exception` -/
def ContOK : Cont → Prop
  | .normal => True
  | .exc e => Exc.isSub e .Exception = true

/-- per-process invariant, a function of the program counter only -/
def PCOK (G : Guards) : PC → Prop
  | .fatal _ => False
  | .lRelease c => ContOK c
  | .wRelease c => ContOK c
  | .lRemoveStale => G.l.removeStale = true
  | .hExists => G.l.handlerRemoves = true
  | .hRemove => G.l.handlerRemoves = true
  | _ => True

theorem fnf_sub : Exc.isSub .FileNotFoundError .Exception = true := by decide

theorem io_sub : ∀ e ∈ ioExcs, Exc.isSub e .Exception = true := by decide

theorem afterWAcquire_ok (G : Guards) : PCOK G (afterWAcquire G) := by
  unfold afterWAcquire
  split
  · split <;> trivial
  · trivial

theorem writerStart_ok (G : Guards) : PCOK G (writerStart G) := by
  unfold writerStart
  split
  · trivial
  · exact afterWAcquire_ok G

theorem runQueries_ok (env : Env) (G : Guards) (qs : List Nat) :
    ∀ p : Proc, PCOK G (runQueries env G p qs).pc := by
  induction qs with
  | nil => intro p; simp [runQueries, PCOK]
  | cons k rest ih =>
    intro p
    unfold runQueries
    split
    · exact ih _
    · dsimp only
      split
      · exact ih _
      · exact writerStart_ok G

theorem finishLoader_ok (env : Env) (G : Guards) (p : Proc) : PCOK G (finishLoader env G p).pc :=
  runQueries_ok env G _ _

theorem loaderRaise_ok {G : Guards} (env : Env) (hC : CatchAll G) (p : Proc) (e : Exc)
    (he : Exc.isSub e .Exception = true) : PCOK G (loaderRaise env G p e).pc := by
  unfold loaderRaise
  rw [if_pos (hC.1 e he).1]
  dsimp only
  by_cases hr : G.l.handlerRemoves = true
  · rw [if_pos hr]
    by_cases hg : G.l.handlerExistsGuard = true
    · simp only [hg, if_true]; exact hr
    · simp only [hg, Bool.false_eq_true, if_false]; exact hr
  · rw [if_neg hr]
    exact finishLoader_ok env G _

theorem loaderChecks_ok {G : Guards} (env : Env) (hC : CatchAll G) (p : Proc) :
    PCOK G (loaderChecks env G p).pc := by
  unfold loaderChecks
  split
  · exact finishLoader_ok env G _
  · rename_i v _
    split
    · rename_i hty
      have htc : G.l.typeChecked = true := by
        simp only [Bool.and_eq_true] at hty; exact hty.1
      rw [if_pos (hC.2.1 htc)]
      exact loaderRaise_ok env hC p _ hC.2.2.2.2.2.1
    · split
      · exact finishLoader_ok env G _
      · dsimp only
        by_cases hrs : G.l.removeStale = true
        · rw [if_pos hrs]; exact hrs
        · rw [if_neg hrs]; exact finishLoader_ok env G _

theorem leaveRead_ok {G : Guards} (env : Env) (hC : CatchAll G) (p : Proc) (c : Cont) (hc : ContOK c) :
    PCOK G (leaveRead env G p c).pc := by
  unfold leaveRead
  split
  · exact hc
  · cases c with
    | normal => exact loaderChecks_ok env hC p
    | exc e => exact loaderRaise_ok env hC p e hc

theorem writerRaise_ok {G : Guards} (env : Env) (hC : CatchAll G) (p : Proc) (e : Exc)
    (he : Exc.isSub e .Exception = true) : PCOK G (writerRaise env G p e).pc := by
  unfold writerRaise
  have h : (G.w.allInTry && Exc.caughtBy G.w.caught e) = true := by
    rw [hC.2.2.2.2.1, (hC.1 e he).2]; rfl
  rw [if_pos h]
  exact runQueries_ok env G _ _

theorem leaveWrite_ok {G : Guards} (env : Env) (hC : CatchAll G) (p : Proc) (c : Cont) (hc : ContOK c) :
    PCOK G (leaveWrite env G p c).pc := by
  unfold leaveWrite
  split
  · exact hc
  · cases c with
    | normal => exact runQueries_ok env G _ _
    | exc e => exact writerRaise_ok env hC p e hc

theorem pstep_ok {env : Env} {G : Guards} (hC : CatchAll G) (hR : RaisesOnlyExceptions env)
    (i : Nat) (sh sh' : Sh) (p p' : Proc) (hp : PCOK G p.pc)
    (h : pstep env G i sh p = some (sh', p')) : PCOK G p'.pc := by
  unfold pstep at h
  split at h
  · -- lExists
    simp only [Option.some.injEq, Prod.mk.injEq] at h
    rw [← h.2]
    split
    · dsimp only; split <;> trivial
    · exact finishLoader_ok env G _
  · -- lAcquire
    split at h
    · simp only [Option.some.injEq, Prod.mk.injEq] at h
      rw [← h.2]; trivial
    · cases h
  · -- lOpen
    split at h
    · simp only [Option.some.injEq, Prod.mk.injEq] at h
      rw [← h.2]; exact leaveRead_ok env hC _ _ fnf_sub
    · simp only [Option.some.injEq, Prod.mk.injEq] at h
      rw [← h.2]; trivial
  · -- lUnpickle
    split at h
    · simp only [Option.some.injEq, Prod.mk.injEq] at h
      rw [← h.2]; exact leaveRead_ok env hC _ _ trivial
    · rename_i e he
      simp only [Option.some.injEq, Prod.mk.injEq] at h
      rw [← h.2]; exact leaveRead_ok env hC _ _ (hR _ e he)
  · -- lRelease
    rename_i c hpc
    rw [hpc] at hp
    simp only [Option.some.injEq, Prod.mk.injEq] at h
    rw [← h.2]
    cases c with
    | normal => exact loaderChecks_ok env hC p
    | exc e => exact loaderRaise_ok env hC p e hp
  · -- lRemoveStale
    rename_i hpc
    rw [hpc] at hp
    split at h
    · simp only [Option.some.injEq, Prod.mk.injEq] at h
      rw [← h.2]; exact finishLoader_ok env G _
    · simp only [Option.some.injEq, Prod.mk.injEq] at h
      rw [← h.2, if_pos (hC.2.2.1 hp)]
      exact loaderRaise_ok env hC p _ fnf_sub
  · -- hExists
    rename_i hpc
    rw [hpc] at hp
    simp only [Option.some.injEq, Prod.mk.injEq] at h
    rw [← h.2]
    split
    · exact hp
    · exact finishLoader_ok env G _
  · -- hRemove
    rename_i hpc
    rw [hpc] at hp
    split at h
    · simp only [Option.some.injEq, Prod.mk.injEq] at h
      rw [← h.2]; exact finishLoader_ok env G _
    · simp only [Option.some.injEq, Prod.mk.injEq] at h
      rw [← h.2, if_pos (hC.2.2.2.1 hp)]
      exact finishLoader_ok env G _
  · -- wAcquire
    split at h
    · simp only [Option.some.injEq, Prod.mk.injEq] at h
      rw [← h.2]; exact afterWAcquire_ok G
    · cases h
  · -- wExists
    simp only [Option.some.injEq, Prod.mk.injEq] at h
    rw [← h.2]
    dsimp only
    split <;> trivial
  · -- wOpenR
    split at h
    · simp only [Option.some.injEq, Prod.mk.injEq] at h
      rw [← h.2]; exact leaveWrite_ok env hC _ _ fnf_sub
    · simp only [Option.some.injEq, Prod.mk.injEq] at h
      rw [← h.2]; trivial
  · -- wUnpickle
    split at h
    · rename_i e he
      simp only [Option.some.injEq, Prod.mk.injEq] at h
      rw [← h.2]; exact leaveWrite_ok env hC _ _ (hR _ e he)
    · split at h
      · simp only [Option.some.injEq, Prod.mk.injEq] at h
        rw [← h.2]; exact leaveWrite_ok env hC _ _ hC.2.2.2.2.2.2
      · simp only [Option.some.injEq, Prod.mk.injEq] at h
        rw [← h.2]; trivial
  · -- wTrunc
    simp only [Option.some.injEq, Prod.mk.injEq] at h
    rw [← h.2]; trivial
  · -- wWrite
    simp only [Option.some.injEq, Prod.mk.injEq] at h
    rw [← h.2]; exact leaveWrite_ok env hC _ _ trivial
  · -- wRelease
    rename_i c hpc
    rw [hpc] at hp
    simp only [Option.some.injEq, Prod.mk.injEq] at h
    rw [← h.2]
    cases c with
    | normal => exact runQueries_ok env G _ _
    | exc e => exact writerRaise_ok env hC p e hp
  · cases h
  · cases h
  · cases h

theorem crashStep_ok {env : Env} {G : Guards} (i n : Nat) (sh sh' : Sh) (p p' : Proc)
    (h : crashStep env G i n sh p = some (sh', p')) : PCOK G p'.pc := by
  unfold crashStep at h
  split at h
  · cases h
  · simp only [Option.some.injEq, Prod.mk.injEq] at h
    rw [← h.2]; trivial

theorem failStep_ok {env : Env} {G : Guards} (hC : CatchAll G) (e : Exc) (n : Nat) (sh sh' : Sh) (p p' : Proc)
    (h : failStep env G e n sh p = some (sh', p')) : PCOK G p'.pc := by
  unfold failStep at h
  split at h
  · cases h
  · rename_i hin
    have he : Exc.isSub e .Exception = true := by
      apply io_sub
      simpa using hin
    split at h
    all_goals first
      | cases h; done
      | (simp only [Option.some.injEq, Prod.mk.injEq] at h
         rw [← h.2]
         first
           | exact loaderRaise_ok env hC _ _ he
           | exact leaveRead_ok env hC _ _ he
           | exact writerRaise_ok env hC _ _ he
           | exact leaveWrite_ok env hC _ _ he)

theorem gstep_ok {env : Env} {G : Guards} (hC : CatchAll G) (hR : RaisesOnlyExceptions env)
    (s s' : St) (l : Lbl) (hs : ∀ p ∈ s.procs, PCOK G p.pc) (h : gstep env G s l = some s') :
    ∀ p ∈ s'.procs, PCOK G p.pc := by
  have hset : ∀ (i : Nat) (p0 p1 : Proc) (sh' : Sh), PCOK G p1.pc →
      ∀ p ∈ ({ sh := sh', procs := s.procs.set i p1 } : St).procs, PCOK G p.pc := by
    intro i p0 p1 sh' h1 p hp
    rcases List.mem_or_eq_of_mem_set hp with h | h
    · exact hs p h
    · rw [h]; exact h1
  cases l with
  | run i =>
    simp only [gstep] at h
    split at h
    · cases h
    · rename_i p hp
      have hmem : p ∈ s.procs := List.mem_of_getElem? hp
      split at h
      · cases h
      · rename_i sh' p' hstep
        cases h
        exact hset i p p' sh' (pstep_ok hC hR i _ _ _ _ (hs p hmem) hstep)
  | crash i n =>
    simp only [gstep] at h
    split at h
    · cases h
    · rename_i p hp
      split at h
      · cases h
      · rename_i sh' p' hstep
        cases h
        exact hset i p p' sh' (crashStep_ok i n _ _ _ _ hstep)
  | fail i e n =>
    simp only [gstep] at h
    split at h
    · cases h
    · rename_i p hp
      split at h
      · cases h
      · rename_i sh' p' hstep
        cases h
        exact hset i p p' sh' (failStep_ok hC e n _ _ _ _ hstep)
  | wipe =>
    simp only [gstep] at h
    cases h
    exact hs

theorem runSched_ok {env : Env} {G : Guards} (hC : CatchAll G) (hR : RaisesOnlyExceptions env)
    (sched : List Lbl) : ∀ (s s' : St), (∀ p ∈ s.procs, PCOK G p.pc) → runSched env G s sched = some s' →
    ∀ p ∈ s'.procs, PCOK G p.pc := by
  induction sched with
  | nil => intro s s' hs h; simp only [runSched] at h; cases h; exact hs
  | cons l ls ih =>
    intro s s' hs h
    simp only [runSched] at h
    split at h
    · cases h
    · rename_i s1 h1
      exact ih s1 s' (gstep_ok hC hR s s1 l hs h1) h

theorem initPC_ok (G : Guards) : PCOK G (initPC G) := by
  unfold initPC
  split
  · trivial
  · split <;> trivial

end SpsdkVerif.DbCache.Fatal

namespace SpsdkVerif.DbCache
open SpsdkVerif

theorem never_fatal (env : Env) (G : Guards) (hC : CatchAll G) (hR : RaisesOnlyExceptions env)
    (f0 : Option Bytes) (queries : List (List Nat)) (sched : List Lbl) (s : St)
    (hrun : runSched env G (initSt G f0 queries) sched = some s) :
    ∀ p ∈ s.procs, ∀ e, p.pc ≠ .fatal e := by
  have hinit : ∀ p ∈ (initSt G f0 queries).procs, Fatal.PCOK G p.pc := by
    intro p hp
    simp only [initSt, List.mem_map] at hp
    obtain ⟨qs, _, rfl⟩ := hp
    exact Fatal.initPC_ok G
  intro p hp e he
  have := Fatal.runSched_ok hC hR sched _ s hinit hrun p hp
  rw [he] at this
  exact this

end SpsdkVerif.DbCache
