/-
SM4 block cipher (GB/T 32907-2016) written out in Lean (executable reference).

An unbalanced Feistel network on four 32-bit words; decryption is encryption with the round keys
reversed, so `dec (enc b) = b` does not depend on the S-box (proof: `Proofs/Sm4Inv.lean`).
Totality: key and block are zero-extended / truncated to 16 bytes.
The S-box was derived algebraically and the cipher validated against `cryptography` (OpenSSL) by the
C09 check — a test of this reference, not a theorem.  No Mathlib imports.
-/
import SpsdkVerif.Crypto.Iface

namespace SpsdkVerif.Crypto.Sm4
open SpsdkVerif SpsdkVerif.Crypto

def sboxTab : Array UInt8 := #[
  0xd6, 0x90, 0xe9, 0xfe, 0xcc, 0xe1, 0x3d, 0xb7, 0x16, 0xb6, 0x14, 0xc2, 0x28, 0xfb, 0x2c, 0x05,
  0x2b, 0x67, 0x9a, 0x76, 0x2a, 0xbe, 0x04, 0xc3, 0xaa, 0x44, 0x13, 0x26, 0x49, 0x86, 0x06, 0x99,
  0x9c, 0x42, 0x50, 0xf4, 0x91, 0xef, 0x98, 0x7a, 0x33, 0x54, 0x0b, 0x43, 0xed, 0xcf, 0xac, 0x62,
  0xe4, 0xb3, 0x1c, 0xa9, 0xc9, 0x08, 0xe8, 0x95, 0x80, 0xdf, 0x94, 0xfa, 0x75, 0x8f, 0x3f, 0xa6,
  0x47, 0x07, 0xa7, 0xfc, 0xf3, 0x73, 0x17, 0xba, 0x83, 0x59, 0x3c, 0x19, 0xe6, 0x85, 0x4f, 0xa8,
  0x68, 0x6b, 0x81, 0xb2, 0x71, 0x64, 0xda, 0x8b, 0xf8, 0xeb, 0x0f, 0x4b, 0x70, 0x56, 0x9d, 0x35,
  0x1e, 0x24, 0x0e, 0x5e, 0x63, 0x58, 0xd1, 0xa2, 0x25, 0x22, 0x7c, 0x3b, 0x01, 0x21, 0x78, 0x87,
  0xd4, 0x00, 0x46, 0x57, 0x9f, 0xd3, 0x27, 0x52, 0x4c, 0x36, 0x02, 0xe7, 0xa0, 0xc4, 0xc8, 0x9e,
  0xea, 0xbf, 0x8a, 0xd2, 0x40, 0xc7, 0x38, 0xb5, 0xa3, 0xf7, 0xf2, 0xce, 0xf9, 0x61, 0x15, 0xa1,
  0xe0, 0xae, 0x5d, 0xa4, 0x9b, 0x34, 0x1a, 0x55, 0xad, 0x93, 0x32, 0x30, 0xf5, 0x8c, 0xb1, 0xe3,
  0x1d, 0xf6, 0xe2, 0x2e, 0x82, 0x66, 0xca, 0x60, 0xc0, 0x29, 0x23, 0xab, 0x0d, 0x53, 0x4e, 0x6f,
  0xd5, 0xdb, 0x37, 0x45, 0xde, 0xfd, 0x8e, 0x2f, 0x03, 0xff, 0x6a, 0x72, 0x6d, 0x6c, 0x5b, 0x51,
  0x8d, 0x1b, 0xaf, 0x92, 0xbb, 0xdd, 0xbc, 0x7f, 0x11, 0xd9, 0x5c, 0x41, 0x1f, 0x10, 0x5a, 0xd8,
  0x0a, 0xc1, 0x31, 0x88, 0xa5, 0xcd, 0x7b, 0xbd, 0x2d, 0x74, 0xd0, 0x12, 0xb8, 0xe5, 0xb4, 0xb0,
  0x89, 0x69, 0x97, 0x4a, 0x0c, 0x96, 0x77, 0x7e, 0x65, 0xb9, 0xf1, 0x09, 0xc5, 0x6e, 0xc6, 0x84,
  0x18, 0xf0, 0x7d, 0xec, 0x3a, 0xdc, 0x4d, 0x20, 0x79, 0xee, 0x5f, 0x3e, 0xd7, 0xcb, 0x39, 0x48]

@[inline] def sbox (x : UInt8) : UInt8 := sboxTab.getD x.toNat 0

/-- a 32-bit word kept as its four big-endian bytes: xor is bytewise, so the Feistel inversion argument needs no
    bit-vector reasoning; only the round function `T` goes through `UInt32` (for the rotations) -/
structure B4 where
  a : UInt8
  b : UInt8
  c : UInt8
  d : UInt8
  deriving DecidableEq, Repr

@[inline] def B4.xor (x y : B4) : B4 := ⟨x.a ^^^ y.a, x.b ^^^ y.b, x.c ^^^ y.c, x.d ^^^ y.d⟩

structure W4 where
  x0 : B4
  x1 : B4
  x2 : B4
  x3 : B4
  deriving DecidableEq, Repr

@[inline] def rotl (x : UInt32) (n : UInt32) : UInt32 := (x <<< n) ||| (x >>> (32 - n))

@[inline] def word (a b c d : UInt8) : UInt32 :=
  (a.toUInt32 <<< 24) ||| (b.toUInt32 <<< 16) ||| (c.toUInt32 <<< 8) ||| d.toUInt32

@[inline] def B4.toU32 (x : B4) : UInt32 := word x.a x.b x.c x.d
@[inline] def B4.ofU32 (w : UInt32) : B4 := ⟨(w >>> 24).toUInt8, (w >>> 16).toUInt8, (w >>> 8).toUInt8, w.toUInt8⟩

/-- the non-linear substitution `τ`: S-box on each byte -/
def tau (x : UInt32) : UInt32 :=
  word (sbox (x >>> 24).toUInt8) (sbox (x >>> 16).toUInt8) (sbox (x >>> 8).toUInt8) (sbox x.toUInt8)

def tEnc (x : UInt32) : UInt32 :=
  let b := tau x
  b ^^^ rotl b 2 ^^^ rotl b 10 ^^^ rotl b 18 ^^^ rotl b 24

def tKey (x : UInt32) : UInt32 :=
  let b := tau x
  b ^^^ rotl b 13 ^^^ rotl b 23

def fk0 : UInt32 := 0xa3b1bac6
def fk1 : UInt32 := 0x56aa3350
def fk2 : UInt32 := 0x677d9197
def fk3 : UInt32 := 0xb27022dc

/-- `CK_i`: bytes `(4i+j)·7 mod 256` -/
def ck (i : Nat) : UInt32 :=
  word (UInt8.ofNat ((4 * i) * 7 % 256)) (UInt8.ofNat ((4 * i + 1) * 7 % 256))
       (UInt8.ofNat ((4 * i + 2) * 7 % 256)) (UInt8.ofNat ((4 * i + 3) * 7 % 256))

def normBlock (b : Bytes) : Bytes := (b ++ List.replicate 16 0).take 16

def toW4 : Bytes → W4
  | [s0, s1, s2, s3, s4, s5, s6, s7, s8, s9, s10, s11, s12, s13, s14, s15] =>
    ⟨⟨s0, s1, s2, s3⟩, ⟨s4, s5, s6, s7⟩, ⟨s8, s9, s10, s11⟩, ⟨s12, s13, s14, s15⟩⟩
  | _ => ⟨⟨0, 0, 0, 0⟩, ⟨0, 0, 0, 0⟩, ⟨0, 0, 0, 0⟩, ⟨0, 0, 0, 0⟩⟩

def ofW4 (x : W4) : Bytes :=
  [x.x0.a, x.x0.b, x.x0.c, x.x0.d, x.x1.a, x.x1.b, x.x1.c, x.x1.d,
   x.x2.a, x.x2.b, x.x2.c, x.x2.d, x.x3.a, x.x3.b, x.x3.c, x.x3.d]

/-- round keys `rk_0 … rk_31` (key schedule entirely on `UInt32`) -/
def roundKeysAux : Nat → Nat → UInt32 → UInt32 → UInt32 → UInt32 → List UInt32
  | 0, _, _, _, _, _ => []
  | n + 1, i, k0, k1, k2, k3 =>
    let rk := k0 ^^^ tKey (k1 ^^^ k2 ^^^ k3 ^^^ ck i)
    rk :: roundKeysAux n (i + 1) k1 k2 k3 rk

def roundKeys (key : Bytes) : List UInt32 :=
  let mk := toW4 (normBlock key)
  roundKeysAux 32 0 (mk.x0.toU32 ^^^ fk0) (mk.x1.toU32 ^^^ fk1) (mk.x2.toU32 ^^^ fk2) (mk.x3.toU32 ^^^ fk3)

def round (x : W4) (rk : UInt32) : W4 :=
  ⟨x.x1, x.x2, x.x3, x.x0.xor (B4.ofU32 (tEnc (((x.x1.xor x.x2).xor x.x3).toU32 ^^^ rk)))⟩

def rev (x : W4) : W4 := ⟨x.x3, x.x2, x.x1, x.x0⟩

def crypt (rks : List UInt32) (x : W4) : W4 := rev (rks.foldl round x)

def encBlk (key b : Bytes) : Bytes := ofW4 (crypt (roundKeys key) (toW4 (normBlock b)))
def decBlk (key b : Bytes) : Bytes := ofW4 (crypt (roundKeys key).reverse (toW4 (normBlock b)))

end SpsdkVerif.Crypto.Sm4
