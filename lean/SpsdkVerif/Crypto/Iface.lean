/-
Abstract cryptographic interface (DESIGN.md §4).

Every mode / construction of `Crypto/Modes.lean` and every model that uses cryptography is
written against an arbitrary `c : CryptoOps`; positive theorems need only `CryptoLaws c`
(plus `Sm4Laws c` where SM4 is involved); negative statements are reductions to `Break c`
(`Crypto/Break.lean`) — there are no idealised axioms.

Two instances exist: the executable one (`Crypto/Exec.lean`, FIPS-197 / FIPS-180 / SM4 written
out in Lean and validated against `hashlib` / `cryptography` by the C09 check) and whatever
symbolic instance a proof wants to plug in.

No Mathlib imports here (native drivers link this module).
-/
import SpsdkVerif.Model.Misc

namespace SpsdkVerif.Crypto
open SpsdkVerif

abbrev Bytes := SpsdkVerif.Misc.Bytes

/-- Hash algorithms of `spsdk.crypto.hash.EnumHashAlgorithm` that are modelled. -/
inductive HashAlg where
  | sha1 | sha256 | sha384 | sha512
  deriving DecidableEq, Repr, Inhabited

/-- digest size in bytes -/
def HashAlg.size : HashAlg → Nat
  | .sha1 => 20 | .sha256 => 32 | .sha384 => 48 | .sha512 => 64

/-- internal block size in bytes (HMAC's `B`) -/
def HashAlg.blockSize : HashAlg → Nat
  | .sha1 => 64 | .sha256 => 64 | .sha384 => 128 | .sha512 => 128

def HashAlg.name : HashAlg → String
  | .sha1 => "sha1" | .sha256 => "sha256" | .sha384 => "sha384" | .sha512 => "sha512"

def HashAlg.ofName? (s : String) : Option HashAlg :=
  if s == "sha1" then some .sha1 else if s == "sha256" then some .sha256
  else if s == "sha384" then some .sha384 else if s == "sha512" then some .sha512 else none

/-- Signature schemes; kept abstract (asymmetric cryptography is a parameter everywhere). -/
inductive SigAlg where
  | rsaPkcs1v15 (h : HashAlg)
  | rsaPss (h : HashAlg)
  | ecdsa (h : HashAlg)
  | sm2
  deriving DecidableEq, Repr, Inhabited

abbrev PrivKey := Bytes
abbrev PubKey := Bytes
abbrev Rand := Bytes

/-- The primitive operations everything else is defined from. All functions are total:
    * `hash a m`            – digest of `m` (`a.size` bytes)
    * `encBlk k b`/`decBlk` – AES block cipher, key `k` (16/24/32 bytes), block `b` (16 bytes) → 16 bytes
    * `sm4Enc k b`/`sm4Dec` – SM4 block cipher, key 16 bytes, block 16 bytes
    * `sign`/`verify`/`pubOf` – abstract signature scheme. -/
structure CryptoOps where
  hash    : HashAlg → Bytes → Bytes
  encBlk  : Bytes → Bytes → Bytes
  decBlk  : Bytes → Bytes → Bytes
  sm4Enc  : Bytes → Bytes → Bytes
  sm4Dec  : Bytes → Bytes → Bytes
  sign    : SigAlg → PrivKey → Bytes → Rand → Bytes
  verify  : SigAlg → PubKey → Bytes → Bytes → Bool
  pubOf   : PrivKey → PubKey

/-- The only facts positive theorems may use about the primitives. No idealised laws
    (no injectivity, no unforgeability): those appear as `Break c` in conclusions. -/
structure CryptoLaws (c : CryptoOps) : Prop where
  dec_enc     : ∀ k b, b.length = 16 → c.decBlk k (c.encBlk k b) = b
  enc_dec     : ∀ k b, b.length = 16 → c.encBlk k (c.decBlk k b) = b
  enc_len     : ∀ k b, (c.encBlk k b).length = 16
  dec_len     : ∀ k b, (c.decBlk k b).length = 16
  hash_len    : ∀ a m, (c.hash a m).length = a.size
  verify_sign : ∀ a sk m r, c.verify a (c.pubOf sk) m (c.sign a sk m r) = true

/-- Laws of the SM4 block cipher (kept separate: only `sm4_cbc_*` needs them). -/
structure Sm4Laws (c : CryptoOps) : Prop where
  dec_enc : ∀ k b, b.length = 16 → c.sm4Dec k (c.sm4Enc k b) = b
  enc_dec : ∀ k b, b.length = 16 → c.sm4Enc k (c.sm4Dec k b) = b
  enc_len : ∀ k b, (c.sm4Enc k b).length = 16
  dec_len : ∀ k b, (c.sm4Dec k b).length = 16

end SpsdkVerif.Crypto
