/-
`Break c`: an explicit break of one of the primitives / constructions.  Negative statements
("tampering is detected", "a wrong key is refused") are proved as `… ∨ Break c` (DESIGN.md §4):
consistent for every instance, no idealised axiom.
-/
import SpsdkVerif.Crypto.Modes

namespace SpsdkVerif.Crypto
open SpsdkVerif

inductive Break (c : CryptoOps) : Prop where
  /-- two different messages with the same digest -/
  | collision (a : HashAlg) (m m' : Bytes) : m ≠ m' → c.hash a m = c.hash a m' → Break c
  /-- two different messages with the same HMAC under one key -/
  | hmacForgery (a : HashAlg) (k m m' : Bytes) : m ≠ m' → hmac c a k m = hmac c a k m' → Break c
  /-- two different messages with the same CMAC under one key -/
  | cmacForgery (k m m' : Bytes) : m ≠ m' → cmac c k m = cmac c k m' → Break c
  /-- a signature on `m` that verifies for a different `m'` -/
  | sigForgery (a : SigAlg) (sk : PrivKey) (m m' : Bytes) (r : Rand) :
      m ≠ m' → c.verify a (c.pubOf sk) m' (c.sign a sk m r) = true → Break c
  /-- an RFC 3394 blob that unwraps under a different KEK -/
  | wrapForgery (k k' p : Bytes) : k ≠ k' → (kwUnwrap c k' (kwWrap c k p)).isSome → Break c
  /-- a CCM ciphertext that authenticates after being modified (or under other nonce / AAD) -/
  | ccmForgery (k n n' a a' : Bytes) (t : Nat) (m ct' : Bytes) :
      (n', a', ct') ≠ (n, a, ccmEnc c k n a t m) → (ccmDec c k n' a' t ct').isSome → Break c

end SpsdkVerif.Crypto
