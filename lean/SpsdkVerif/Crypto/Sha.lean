/-
FIPS 180-4 SHA-1, SHA-256, SHA-384, SHA-512 written out in Lean (executable reference).

Working state is an 8-field structure so that the digest length is evident (`hash_len`).
Validated against `hashlib` by the C09 check — a test of this reference, not a theorem.
No Mathlib imports.
-/
import SpsdkVerif.Crypto.Iface

namespace SpsdkVerif.Crypto.Sha
open SpsdkVerif SpsdkVerif.Crypto
open SpsdkVerif.Misc (beEnc)

structure St8 (α : Type) where
  a : α
  b : α
  c : α
  d : α
  e : α
  f : α
  g : α
  h : α

def be32 (w : UInt32) : Bytes := [(w >>> 24).toUInt8, (w >>> 16).toUInt8, (w >>> 8).toUInt8, w.toUInt8]
def be64 (w : UInt64) : Bytes :=
  [(w >>> 56).toUInt8, (w >>> 48).toUInt8, (w >>> 40).toUInt8, (w >>> 32).toUInt8,
   (w >>> 24).toUInt8, (w >>> 16).toUInt8, (w >>> 8).toUInt8, w.toUInt8]

/-- big-endian 32-bit words of a byte string (a trailing partial word is dropped) -/
def words32 : Bytes → List UInt32
  | a :: b :: c :: d :: rest =>
    ((a.toUInt32 <<< 24) ||| (b.toUInt32 <<< 16) ||| (c.toUInt32 <<< 8) ||| d.toUInt32) :: words32 rest
  | _ => []

def words64 : Bytes → List UInt64
  | a :: b :: c :: d :: e :: f :: g :: h :: rest =>
    ((a.toUInt64 <<< 56) ||| (b.toUInt64 <<< 48) ||| (c.toUInt64 <<< 40) ||| (d.toUInt64 <<< 32) |||
     (e.toUInt64 <<< 24) ||| (f.toUInt64 <<< 16) ||| (g.toUInt64 <<< 8) ||| h.toUInt64) :: words64 rest
  | _ => []

@[inline] def rotr32 (x : UInt32) (n : UInt32) : UInt32 := (x >>> n) ||| (x <<< (32 - n))
@[inline] def rotl32 (x : UInt32) (n : UInt32) : UInt32 := (x <<< n) ||| (x >>> (32 - n))
@[inline] def rotr64 (x : UInt64) (n : UInt64) : UInt64 := (x >>> n) ||| (x <<< (64 - n))

/-- fold `f` over `k` consecutive chunks of `n` bytes -/
def foldChunks {σ : Type} (n : Nat) (f : σ → Bytes → σ) : Nat → σ → Bytes → σ
  | 0, s, _ => s
  | k + 1, s, m => foldChunks n f k (f s (m.take n)) (m.drop n)

/-- Merkle–Damgård padding: `0x80`, zeros, bit length on `lenBytes` bytes, to a multiple of `blk` -/
def pad (blk lenBytes : Nat) (m : Bytes) : Bytes :=
  m ++ [0x80] ++ List.replicate ((blk - (m.length + 1 + lenBytes) % blk) % blk) 0 ++ beEnc lenBytes (8 * m.length)

/-! ### SHA-256 -/

def k256 : Array UInt32 := #[
  0x428a2f98, 0x71374491, 0xb5c0fbcf, 0xe9b5dba5, 0x3956c25b, 0x59f111f1, 0x923f82a4, 0xab1c5ed5,
  0xd807aa98, 0x12835b01, 0x243185be, 0x550c7dc3, 0x72be5d74, 0x80deb1fe, 0x9bdc06a7, 0xc19bf174,
  0xe49b69c1, 0xefbe4786, 0x0fc19dc6, 0x240ca1cc, 0x2de92c6f, 0x4a7484aa, 0x5cb0a9dc, 0x76f988da,
  0x983e5152, 0xa831c66d, 0xb00327c8, 0xbf597fc7, 0xc6e00bf3, 0xd5a79147, 0x06ca6351, 0x14292967,
  0x27b70a85, 0x2e1b2138, 0x4d2c6dfc, 0x53380d13, 0x650a7354, 0x766a0abb, 0x81c2c92e, 0x92722c85,
  0xa2bfe8a1, 0xa81a664b, 0xc24b8b70, 0xc76c51a3, 0xd192e819, 0xd6990624, 0xf40e3585, 0x106aa070,
  0x19a4c116, 0x1e376c08, 0x2748774c, 0x34b0bcb5, 0x391c0cb3, 0x4ed8aa4a, 0x5b9cca4f, 0x682e6ff3,
  0x748f82ee, 0x78a5636f, 0x84c87814, 0x8cc70208, 0x90befffa, 0xa4506ceb, 0xbef9a3f7, 0xc67178f2]

def h256 : St8 UInt32 := ⟨0x6a09e667, 0xbb67ae85, 0x3c6ef372, 0xa54ff53a, 0x510e527f, 0x9b05688c, 0x1f83d9ab, 0x5be0cd19⟩

/-- message schedule: extend the first 16 words to `total` words -/
def sched256 (w : Array UInt32) : Nat → Array UInt32
  | 0 => w
  | n + 1 =>
    let i := w.size
    let w15 := w.getD (i - 15) 0
    let w2 := w.getD (i - 2) 0
    let s0 := rotr32 w15 7 ^^^ rotr32 w15 18 ^^^ (w15 >>> 3)
    let s1 := rotr32 w2 17 ^^^ rotr32 w2 19 ^^^ (w2 >>> 10)
    sched256 (w.push (w.getD (i - 16) 0 + s0 + w.getD (i - 7) 0 + s1)) n

def round256 (w : Array UInt32) (s : St8 UInt32) (i : Nat) : St8 UInt32 :=
  let s1 := rotr32 s.e 6 ^^^ rotr32 s.e 11 ^^^ rotr32 s.e 25
  let ch := (s.e &&& s.f) ^^^ ((~~~ s.e) &&& s.g)
  let t1 := s.h + s1 + ch + k256.getD i 0 + w.getD i 0
  let s0 := rotr32 s.a 2 ^^^ rotr32 s.a 13 ^^^ rotr32 s.a 22
  let mj := (s.a &&& s.b) ^^^ (s.a &&& s.c) ^^^ (s.b &&& s.c)
  ⟨t1 + s0 + mj, s.a, s.b, s.c, s.d + t1, s.e, s.f, s.g⟩

def add32 (x y : St8 UInt32) : St8 UInt32 :=
  ⟨x.a + y.a, x.b + y.b, x.c + y.c, x.d + y.d, x.e + y.e, x.f + y.f, x.g + y.g, x.h + y.h⟩

def compress256 (h : St8 UInt32) (chunk : Bytes) : St8 UInt32 :=
  let w := sched256 (words32 chunk).toArray 48
  add32 h ((List.range 64).foldl (round256 w) h)

def sha256 (m : Bytes) : Bytes :=
  let p := pad 64 8 m
  let s := foldChunks 64 compress256 (p.length / 64) h256 p
  be32 s.a ++ be32 s.b ++ be32 s.c ++ be32 s.d ++ be32 s.e ++ be32 s.f ++ be32 s.g ++ be32 s.h

/-! ### SHA-1 (five words; the three spare fields stay zero) -/

def h1 : St8 UInt32 := ⟨0x67452301, 0xefcdab89, 0x98badcfe, 0x10325476, 0xc3d2e1f0, 0, 0, 0⟩

def sched1 (w : Array UInt32) : Nat → Array UInt32
  | 0 => w
  | n + 1 =>
    let i := w.size
    sched1 (w.push (rotl32 (w.getD (i - 3) 0 ^^^ w.getD (i - 8) 0 ^^^ w.getD (i - 14) 0 ^^^ w.getD (i - 16) 0) 1)) n

def round1 (w : Array UInt32) (s : St8 UInt32) (i : Nat) : St8 UInt32 :=
  let fk : UInt32 × UInt32 :=
    if i < 20 then ((s.b &&& s.c) ||| ((~~~ s.b) &&& s.d), 0x5a827999)
    else if i < 40 then (s.b ^^^ s.c ^^^ s.d, 0x6ed9eba1)
    else if i < 60 then ((s.b &&& s.c) ||| (s.b &&& s.d) ||| (s.c &&& s.d), 0x8f1bbcdc)
    else (s.b ^^^ s.c ^^^ s.d, 0xca62c1d6)
  let t := rotl32 s.a 5 + fk.1 + s.e + fk.2 + w.getD i 0
  ⟨t, s.a, rotl32 s.b 30, s.c, s.d, 0, 0, 0⟩

def compress1 (h : St8 UInt32) (chunk : Bytes) : St8 UInt32 :=
  let w := sched1 (words32 chunk).toArray 64
  add32 h ((List.range 80).foldl (round1 w) h)

def sha1 (m : Bytes) : Bytes :=
  let p := pad 64 8 m
  let s := foldChunks 64 compress1 (p.length / 64) h1 p
  be32 s.a ++ be32 s.b ++ be32 s.c ++ be32 s.d ++ be32 s.e

/-! ### SHA-512 / SHA-384 -/

def k512 : Array UInt64 := #[
  0x428a2f98d728ae22, 0x7137449123ef65cd, 0xb5c0fbcfec4d3b2f, 0xe9b5dba58189dbbc,
  0x3956c25bf348b538, 0x59f111f1b605d019, 0x923f82a4af194f9b, 0xab1c5ed5da6d8118,
  0xd807aa98a3030242, 0x12835b0145706fbe, 0x243185be4ee4b28c, 0x550c7dc3d5ffb4e2,
  0x72be5d74f27b896f, 0x80deb1fe3b1696b1, 0x9bdc06a725c71235, 0xc19bf174cf692694,
  0xe49b69c19ef14ad2, 0xefbe4786384f25e3, 0x0fc19dc68b8cd5b5, 0x240ca1cc77ac9c65,
  0x2de92c6f592b0275, 0x4a7484aa6ea6e483, 0x5cb0a9dcbd41fbd4, 0x76f988da831153b5,
  0x983e5152ee66dfab, 0xa831c66d2db43210, 0xb00327c898fb213f, 0xbf597fc7beef0ee4,
  0xc6e00bf33da88fc2, 0xd5a79147930aa725, 0x06ca6351e003826f, 0x142929670a0e6e70,
  0x27b70a8546d22ffc, 0x2e1b21385c26c926, 0x4d2c6dfc5ac42aed, 0x53380d139d95b3df,
  0x650a73548baf63de, 0x766a0abb3c77b2a8, 0x81c2c92e47edaee6, 0x92722c851482353b,
  0xa2bfe8a14cf10364, 0xa81a664bbc423001, 0xc24b8b70d0f89791, 0xc76c51a30654be30,
  0xd192e819d6ef5218, 0xd69906245565a910, 0xf40e35855771202a, 0x106aa07032bbd1b8,
  0x19a4c116b8d2d0c8, 0x1e376c085141ab53, 0x2748774cdf8eeb99, 0x34b0bcb5e19b48a8,
  0x391c0cb3c5c95a63, 0x4ed8aa4ae3418acb, 0x5b9cca4f7763e373, 0x682e6ff3d6b2b8a3,
  0x748f82ee5defb2fc, 0x78a5636f43172f60, 0x84c87814a1f0ab72, 0x8cc702081a6439ec,
  0x90befffa23631e28, 0xa4506cebde82bde9, 0xbef9a3f7b2c67915, 0xc67178f2e372532b,
  0xca273eceea26619c, 0xd186b8c721c0c207, 0xeada7dd6cde0eb1e, 0xf57d4f7fee6ed178,
  0x06f067aa72176fba, 0x0a637dc5a2c898a6, 0x113f9804bef90dae, 0x1b710b35131c471b,
  0x28db77f523047d84, 0x32caab7b40c72493, 0x3c9ebe0a15c9bebc, 0x431d67c49c100d4c,
  0x4cc5d4becb3e42b6, 0x597f299cfc657e2a, 0x5fcb6fab3ad6faec, 0x6c44198c4a475817]

def h512 : St8 UInt64 := ⟨0x6a09e667f3bcc908, 0xbb67ae8584caa73b, 0x3c6ef372fe94f82b, 0xa54ff53a5f1d36f1, 0x510e527fade682d1, 0x9b05688c2b3e6c1f, 0x1f83d9abfb41bd6b, 0x5be0cd19137e2179⟩

def h384 : St8 UInt64 := ⟨0xcbbb9d5dc1059ed8, 0x629a292a367cd507, 0x9159015a3070dd17, 0x152fecd8f70e5939, 0x67332667ffc00b31, 0x8eb44a8768581511, 0xdb0c2e0d64f98fa7, 0x47b5481dbefa4fa4⟩

def sched512 (w : Array UInt64) : Nat → Array UInt64
  | 0 => w
  | n + 1 =>
    let i := w.size
    let w15 := w.getD (i - 15) 0
    let w2 := w.getD (i - 2) 0
    let s0 := rotr64 w15 1 ^^^ rotr64 w15 8 ^^^ (w15 >>> 7)
    let s1 := rotr64 w2 19 ^^^ rotr64 w2 61 ^^^ (w2 >>> 6)
    sched512 (w.push (w.getD (i - 16) 0 + s0 + w.getD (i - 7) 0 + s1)) n

def round512 (w : Array UInt64) (s : St8 UInt64) (i : Nat) : St8 UInt64 :=
  let s1 := rotr64 s.e 14 ^^^ rotr64 s.e 18 ^^^ rotr64 s.e 41
  let ch := (s.e &&& s.f) ^^^ ((~~~ s.e) &&& s.g)
  let t1 := s.h + s1 + ch + k512.getD i 0 + w.getD i 0
  let s0 := rotr64 s.a 28 ^^^ rotr64 s.a 34 ^^^ rotr64 s.a 39
  let mj := (s.a &&& s.b) ^^^ (s.a &&& s.c) ^^^ (s.b &&& s.c)
  ⟨t1 + s0 + mj, s.a, s.b, s.c, s.d + t1, s.e, s.f, s.g⟩

def add64 (x y : St8 UInt64) : St8 UInt64 :=
  ⟨x.a + y.a, x.b + y.b, x.c + y.c, x.d + y.d, x.e + y.e, x.f + y.f, x.g + y.g, x.h + y.h⟩

def compress512 (h : St8 UInt64) (chunk : Bytes) : St8 UInt64 :=
  let w := sched512 (words64 chunk).toArray 64
  add64 h ((List.range 80).foldl (round512 w) h)

def sha512Core (iv : St8 UInt64) (m : Bytes) : St8 UInt64 :=
  let p := pad 128 16 m
  foldChunks 128 compress512 (p.length / 128) iv p

def sha512 (m : Bytes) : Bytes :=
  let s := sha512Core h512 m
  be64 s.a ++ be64 s.b ++ be64 s.c ++ be64 s.d ++ be64 s.e ++ be64 s.f ++ be64 s.g ++ be64 s.h

def sha384 (m : Bytes) : Bytes :=
  let s := sha512Core h384 m
  be64 s.a ++ be64 s.b ++ be64 s.c ++ be64 s.d ++ be64 s.e ++ be64 s.f

def hash : HashAlg → Bytes → Bytes
  | .sha1 => sha1
  | .sha256 => sha256
  | .sha384 => sha384
  | .sha512 => sha512

theorem hash_len (a : HashAlg) (m : Bytes) : (hash a m).length = a.size := by
  cases a <;> simp [hash, sha1, sha256, sha384, sha512, be32, be64, HashAlg.size]

end SpsdkVerif.Crypto.Sha
