/-
The executable instance of `CryptoOps`: FIPS-197 AES, FIPS-180 SHA, SM4 written out in Lean.
Used by the native model drivers.  Asymmetric cryptography is NOT implemented: `sign`/`verify`
are a keyed-hash placeholder (`pubOf sk = sk`, signature = SHA-256 (sk ‖ alg-tag ‖ m)) that merely
satisfies `verify_sign`; it must never be compared with real signatures.
-/
import SpsdkVerif.Crypto.Aes
import SpsdkVerif.Crypto.Sha
import SpsdkVerif.Crypto.Sm4
import SpsdkVerif.Crypto.Crc
import SpsdkVerif.Crypto.Modes

namespace SpsdkVerif.Crypto
open SpsdkVerif

def SigAlg.tag : SigAlg → Bytes
  | .rsaPkcs1v15 h => [1, UInt8.ofNat h.size]
  | .rsaPss h => [2, UInt8.ofNat h.size]
  | .ecdsa h => [3, UInt8.ofNat h.size]
  | .sm2 => [4, 0]

def placeholderSign (a : SigAlg) (sk : PrivKey) (m : Bytes) : Bytes := Sha.sha256 (sk ++ a.tag ++ m)

def execOps : CryptoOps where
  hash := Sha.hash
  encBlk := Aes.encBlk
  decBlk := Aes.decBlk
  sm4Enc := Sm4.encBlk
  sm4Dec := Sm4.decBlk
  sign := fun a sk m _ => placeholderSign a sk m
  verify := fun a pk m s => s == placeholderSign a pk m
  pubOf := fun sk => sk

end SpsdkVerif.Crypto
