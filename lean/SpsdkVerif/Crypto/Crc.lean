/-
Generic bitwise CRC (Rocksoft model): width, polynomial (without the leading `x^width` term),
initial register value, final xor, input/output reflection.  `width ≥ 8`.

Registers are `Nat` (kept below `2^width`), one bit per step — the textbook definition, chosen for
provability over speed (still ~10 ms per 100 KB natively).  No Mathlib imports.
-/
import SpsdkVerif.Crypto.Iface

namespace SpsdkVerif.Crypto.Crc
open SpsdkVerif SpsdkVerif.Crypto

structure Params where
  width  : Nat
  poly   : Nat      -- truncated polynomial, `< 2^width`
  init   : Nat      -- initial shift-register value
  xorOut : Nat
  refIn  : Bool
  refOut : Bool
  deriving DecidableEq, Repr, Inhabited

/-- reverse the low `n` bits of `x` -/
def reflect (n x : Nat) : Nat := Misc.ofBitsBE (Misc.bitsOf n x)

/-- one shift of the register (MSB first) -/
def bitStep (p : Params) (crc : Nat) : Nat :=
  let sh := (crc <<< 1) % 2 ^ p.width
  if (crc >>> (p.width - 1)) % 2 = 1 then sh ^^^ p.poly else sh

def byteStep (p : Params) (crc : Nat) (b : UInt8) : Nat :=
  let x := if p.refIn then reflect 8 b.toNat else b.toNat
  let c := crc ^^^ (x <<< (p.width - 8))
  bitStep p (bitStep p (bitStep p (bitStep p (bitStep p (bitStep p (bitStep p (bitStep p c)))))))

/-- the shift register after the whole message -/
def register (p : Params) (data : Bytes) : Nat := data.foldl (byteStep p) p.init

def crc (p : Params) (data : Bytes) : Nat :=
  let r := register p data
  (if p.refOut then reflect p.width r else r) ^^^ p.xorOut

/-- standard parameter sets (catalogue names) for reference -/
def crc32 : Params := ⟨32, 0x04C11DB7, 0xFFFFFFFF, 0xFFFFFFFF, true, true⟩
def crc32Mpeg2 : Params := ⟨32, 0x04C11DB7, 0xFFFFFFFF, 0, false, false⟩
def crc16Xmodem : Params := ⟨16, 0x1021, 0, 0, false, false⟩

end SpsdkVerif.Crypto.Crc
