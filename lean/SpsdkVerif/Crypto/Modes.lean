/-
Block-cipher modes, MACs and KDFs DEFINED on top of an arbitrary `c : CryptoOps`
(DESIGN.md §4).  Nothing here knows how AES or SHA work.

Every construction comes in two layers:
  * `…With` takes the raw block function(s) (`enc dec : Bytes → Bytes`, already keyed), so that
    the same definition serves AES and SM4 and the theorems need only the two block laws;
  * the `c k …` form fixes `enc := c.encBlk k`, `dec := c.decBlk k`.

All functions are total.  Inputs outside the domain of the standard (data that is not a multiple
of the block size for ECB/CBC/XTS, key-wrap input that is not a multiple of 8, …) get *some* value
(a trailing partial block is ignored); wrappers that model Python code check the domain first.

Recursion is structural on a block count so that `decide`/`simp` can unfold the definitions.
Inversion theorems: `SpsdkVerif/Proofs/Crypto.lean`.  No Mathlib imports here.
-/
import SpsdkVerif.Crypto.Iface

namespace SpsdkVerif.Crypto
open SpsdkVerif
open SpsdkVerif.Misc (beEnc beDec leEnc leDec)

/-! ## Generic helpers -/

/-- bytewise xor, truncated to the shorter operand (Python: `bytes(x ^ y for x, y in zip(a, b))`) -/
def xorBytes (a b : Bytes) : Bytes := List.zipWith (· ^^^ ·) a b

def zeros (n : Nat) : Bytes := List.replicate n 0

/-- append zero bytes up to the next multiple of `n` (nothing if already aligned; `n = 0`: nothing) -/
def zeroPad (n : Nat) (m : Bytes) : Bytes := m ++ zeros ((n - m.length % n) % n)

/-- SPSDK's `align_block(data, 16)` with the default zero padding -/
def zeroPad16 (m : Bytes) : Bytes := zeroPad 16 m

/-- split into pieces of `n` bytes, the last one possibly shorter (`n = 0`: fuel-bounded, never used) -/
def chunksF (n : Nat) : Nat → Bytes → List Bytes
  | 0, _ => []
  | f + 1, l => if l.isEmpty then [] else l.take n :: chunksF n f (l.drop n)

def chunks (n : Nat) (l : Bytes) : List Bytes := chunksF n l.length l

-- fixed-width integer codecs: `Misc.beEnc n v` (v mod 256^n on n bytes, big endian), `Misc.beDec`, `Misc.leEnc`, `Misc.leDec`.

/-- apply `f` to `n` consecutive 16-byte blocks of `m` -/
def mapBlocks (f : Bytes → Bytes) : Nat → Bytes → Bytes
  | 0, _ => []
  | n + 1, m => f (m.take 16) ++ mapBlocks f n (m.drop 16)

/-- concatenation of `f (blk i), f (blk (i+1)), …` (`n` blocks): the keystream of every counter mode -/
def streamOf (f : Bytes → Bytes) (blk : Nat → Bytes) : Nat → Nat → Bytes
  | 0, _ => []
  | n + 1, i => f (blk i) ++ streamOf f blk n (i + 1)

/-- number of 16-byte blocks needed to cover `len` bytes -/
def blocksFor (len : Nat) : Nat := (len + 15) / 16

/-! ## ECB -/

def ecbEncWith (enc : Bytes → Bytes) (m : Bytes) : Bytes := mapBlocks enc (m.length / 16) m
def ecbDecWith (dec : Bytes → Bytes) (ct : Bytes) : Bytes := mapBlocks dec (ct.length / 16) ct

def ecbEnc (c : CryptoOps) (k m : Bytes) : Bytes := ecbEncWith (c.encBlk k) m
def ecbDec (c : CryptoOps) (k ct : Bytes) : Bytes := ecbDecWith (c.decBlk k) ct

/-! ## CBC (no padding; input is a multiple of 16 bytes, IV is 16 bytes) -/

def cbcEncAux (enc : Bytes → Bytes) : Nat → Bytes → Bytes → Bytes
  | 0, _, _ => []
  | n + 1, prev, m =>
    let ct := enc (xorBytes (m.take 16) prev)
    ct ++ cbcEncAux enc n ct (m.drop 16)

def cbcDecAux (dec : Bytes → Bytes) : Nat → Bytes → Bytes → Bytes
  | 0, _, _ => []
  | n + 1, prev, ct =>
    xorBytes (dec (ct.take 16)) prev ++ cbcDecAux dec n (ct.take 16) (ct.drop 16)

def cbcEncWith (enc : Bytes → Bytes) (iv m : Bytes) : Bytes := cbcEncAux enc (m.length / 16) iv m
def cbcDecWith (dec : Bytes → Bytes) (iv ct : Bytes) : Bytes := cbcDecAux dec (ct.length / 16) iv ct

def cbcEnc (c : CryptoOps) (k iv m : Bytes) : Bytes := cbcEncWith (c.encBlk k) iv m
def cbcDec (c : CryptoOps) (k iv ct : Bytes) : Bytes := cbcDecWith (c.decBlk k) iv ct
def sm4CbcEnc (c : CryptoOps) (k iv m : Bytes) : Bytes := cbcEncWith (c.sm4Enc k) iv m
def sm4CbcDec (c : CryptoOps) (k iv ct : Bytes) : Bytes := cbcDecWith (c.sm4Dec k) iv ct

/-! ## CTR — 16-byte counter block incremented as a 128-bit big-endian integer (wraps at 2^128),
    which is what `cryptography`'s `modes.CTR(nonce)` / OpenSSL do. -/

def ctrBlock (iv : Bytes) (i : Nat) : Bytes := beEnc 16 (beDec iv + i)

/-- keystream of `n` blocks starting at block index `start` -/
def ctrStream (enc : Bytes → Bytes) (iv : Bytes) (n start : Nat) : Bytes :=
  streamOf enc (ctrBlock iv) n start

/-- encrypt = decrypt; any length -/
def ctrXorWith (enc : Bytes → Bytes) (iv m : Bytes) : Bytes :=
  xorBytes m (ctrStream enc iv (blocksFor m.length) 0)

def ctrXor (c : CryptoOps) (k iv m : Bytes) : Bytes := ctrXorWith (c.encBlk k) iv m

/-! ## XTS (IEEE 1619) without ciphertext stealing: the data unit is the whole input, a multiple
    of 16 bytes; tweak is 16 bytes; `k1` encrypts the data, `k2` the tweak. -/

/-- multiplication by `α` in GF(2^128), little-endian byte convention of IEEE 1619 -/
def gfDouble (t : Bytes) : Bytes :=
  let v := leDec t * 2
  leEnc 16 (if v ≥ 2 ^ 128 then (v - 2 ^ 128) ^^^ 0x87 else v)

def xtsAux (f : Bytes → Bytes) : Nat → Bytes → Bytes → Bytes
  | 0, _, _ => []
  | n + 1, t, m => xorBytes (f (xorBytes (m.take 16) t)) t ++ xtsAux f n (gfDouble t) (m.drop 16)

def xtsEncWith (enc1 enc2 : Bytes → Bytes) (tweak m : Bytes) : Bytes :=
  xtsAux enc1 (m.length / 16) (enc2 tweak) m
def xtsDecWith (dec1 enc2 : Bytes → Bytes) (tweak ct : Bytes) : Bytes :=
  xtsAux dec1 (ct.length / 16) (enc2 tweak) ct

def xtsEnc (c : CryptoOps) (k1 k2 tweak m : Bytes) : Bytes := xtsEncWith (c.encBlk k1) (c.encBlk k2) tweak m
def xtsDec (c : CryptoOps) (k1 k2 tweak ct : Bytes) : Bytes := xtsDecWith (c.decBlk k1) (c.encBlk k2) tweak ct

/-! ## CBC-MAC (building block of CCM and CMAC): zero IV, last cipher block -/

def cbcMacAux (enc : Bytes → Bytes) : Nat → Bytes → Bytes → Bytes
  | 0, x, _ => x
  | n + 1, x, m => cbcMacAux enc n (enc (xorBytes (m.take 16) x)) (m.drop 16)

def cbcMac (enc : Bytes → Bytes) (m : Bytes) : Bytes := cbcMacAux enc (m.length / 16) (zeros 16) m

/-! ## CCM (RFC 3610 / NIST SP 800-38C): nonce of 7..13 bytes (`L = 15 - |nonce|`), tag length
    `M ∈ {4,6,…,16}`, associated data `aad`; output = ciphertext ‖ tag (as `cryptography`'s AESCCM). -/

def ccmEncodeAad (a : Bytes) : Bytes :=
  if a.length = 0 then []
  else
    let hdr : Bytes :=
      if a.length < 0xFF00 then beEnc 2 a.length
      else if a.length < 2 ^ 32 then [0xFF, 0xFE] ++ beEnc 4 a.length
      else [0xFF, 0xFF] ++ beEnc 8 a.length
    zeroPad16 (hdr ++ a)

def ccmB0 (nonce : Bytes) (aadLen msgLen tagLen : Nat) : Bytes :=
  let l := 15 - nonce.length
  [UInt8.ofNat ((if aadLen = 0 then 0 else 64) + 8 * ((tagLen - 2) / 2) + (l - 1))] ++ nonce ++ beEnc l msgLen

def ccmCtrBlock (nonce : Bytes) (i : Nat) : Bytes :=
  let l := 15 - nonce.length
  [UInt8.ofNat (l - 1)] ++ nonce ++ beEnc l i

/-- the (unencrypted) CBC-MAC value `T`, truncated to `tagLen` -/
def ccmMac (enc : Bytes → Bytes) (nonce aad : Bytes) (tagLen : Nat) (m : Bytes) : Bytes :=
  (cbcMac enc (ccmB0 nonce aad.length m.length tagLen ++ ccmEncodeAad aad ++ zeroPad16 m)).take tagLen

def ccmStream (enc : Bytes → Bytes) (nonce : Bytes) (n : Nat) : Bytes :=
  streamOf enc (ccmCtrBlock nonce) n 1

/-- the transmitted tag `U = T xor first-M-bytes(S_0)` -/
def ccmTag (enc : Bytes → Bytes) (nonce aad : Bytes) (tagLen : Nat) (m : Bytes) : Bytes :=
  xorBytes (ccmMac enc nonce aad tagLen m) (enc (ccmCtrBlock nonce 0))

def ccmEncWith (enc : Bytes → Bytes) (nonce aad : Bytes) (tagLen : Nat) (m : Bytes) : Bytes :=
  xorBytes m (ccmStream enc nonce (blocksFor m.length)) ++ ccmTag enc nonce aad tagLen m

/-- decrypt-and-verify: `none` = authentication failure (`InvalidTag`) -/
def ccmDecWith (enc : Bytes → Bytes) (nonce aad : Bytes) (tagLen : Nat) (ct : Bytes) : Option Bytes :=
  if ct.length < tagLen then none
  else
    let body := ct.take (ct.length - tagLen)
    let tag := ct.drop (ct.length - tagLen)
    let m := xorBytes body (ccmStream enc nonce (blocksFor body.length))
    if ccmTag enc nonce aad tagLen m = tag then some m else none

def ccmEnc (c : CryptoOps) (k nonce aad : Bytes) (tagLen : Nat) (m : Bytes) : Bytes :=
  ccmEncWith (c.encBlk k) nonce aad tagLen m
def ccmDec (c : CryptoOps) (k nonce aad : Bytes) (tagLen : Nat) (ct : Bytes) : Option Bytes :=
  ccmDecWith (c.encBlk k) nonce aad tagLen ct

/-! ## RFC 3394 AES key wrap.  `p` is a multiple of 8 bytes, at least 16. -/

def kwDefaultIV : Bytes := List.replicate 8 0xA6

/-- the `6·n` steps `(t, i)`: step counter `t = n·j + i + 1` (1-based) and register index `i` (0-based) -/
def kwSteps (n : Nat) : List (Nat × Nat) := (List.range (6 * n)).map (fun s => (s + 1, s % n))

def kwStepEnc (enc : Bytes → Bytes) (ti : Nat × Nat) (s : Bytes × List Bytes) : Bytes × List Bytes :=
  let b := enc (s.1 ++ s.2.getD ti.2 [])
  (xorBytes (b.take 8) (beEnc 8 ti.1), s.2.set ti.2 (b.drop 8))

def kwStepDec (dec : Bytes → Bytes) (ti : Nat × Nat) (s : Bytes × List Bytes) : Bytes × List Bytes :=
  let b := dec (xorBytes s.1 (beEnc 8 ti.1) ++ s.2.getD ti.2 [])
  (b.take 8, s.2.set ti.2 (b.drop 8))

def kwWrapWith (enc : Bytes → Bytes) (iv p : Bytes) : Bytes :=
  let r0 := chunks 8 p
  let s := (kwSteps r0.length).foldl (fun s ti => kwStepEnc enc ti s) (iv, r0)
  s.1 ++ s.2.flatten

/-- `none` = integrity check failed / malformed input (`InvalidUnwrap`) -/
def kwUnwrapWith (dec : Bytes → Bytes) (iv w : Bytes) : Option Bytes :=
  if w.length < 24 ∨ w.length % 8 ≠ 0 then none
  else
    let r0 := chunks 8 (w.drop 8)
    let s := (kwSteps r0.length).foldr (fun ti s => kwStepDec dec ti s) (w.take 8, r0)
    if s.1 = iv then some s.2.flatten else none

def kwWrap (c : CryptoOps) (kek p : Bytes) : Bytes := kwWrapWith (c.encBlk kek) kwDefaultIV p
def kwUnwrap (c : CryptoOps) (kek w : Bytes) : Option Bytes := kwUnwrapWith (c.decBlk kek) kwDefaultIV w

/-! ## CMAC (NIST SP 800-38B) -/

/-- doubling in GF(2^128), big-endian convention of SP 800-38B (`R_128 = 0x87`) -/
def cmacDbl (b : Bytes) : Bytes :=
  let v := beDec b * 2
  beEnc 16 (if v ≥ 2 ^ 128 then (v - 2 ^ 128) ^^^ 0x87 else v)

def cmacWith (enc : Bytes → Bytes) (m : Bytes) : Bytes :=
  let k1 := cmacDbl (enc (zeros 16))
  let k2 := cmacDbl k1
  let n := if m.length = 0 then 1 else blocksFor m.length
  let head := m.take (16 * (n - 1))
  let lastB := m.drop (16 * (n - 1))
  let last :=
    if lastB.length = 16 then xorBytes lastB k1
    else xorBytes (lastB ++ [0x80] ++ zeros (15 - lastB.length)) k2
  cbcMac enc (head ++ last)

def cmac (c : CryptoOps) (k m : Bytes) : Bytes := cmacWith (c.encBlk k) m

/-! ## HMAC (RFC 2104 / FIPS 198-1) over `c.hash` -/

def hmacKey0 (c : CryptoOps) (a : HashAlg) (k : Bytes) : Bytes :=
  let k' := if k.length > a.blockSize then c.hash a k else k
  k' ++ zeros (a.blockSize - k'.length)

def hmac (c : CryptoOps) (a : HashAlg) (k m : Bytes) : Bytes :=
  let k0 := hmacKey0 c a k
  c.hash a (k0.map (· ^^^ 0x5c) ++ c.hash a (k0.map (· ^^^ 0x36) ++ m))

/-! ## HKDF (RFC 5869) -/

def hkdfExtract (c : CryptoOps) (a : HashAlg) (salt ikm : Bytes) : Bytes :=
  hmac c a (if salt.isEmpty then zeros a.size else salt) ikm

def hkdfExpandAux (c : CryptoOps) (a : HashAlg) (prk info : Bytes) : Nat → Nat → Bytes → Bytes
  | 0, _, _ => []
  | n + 1, i, prev =>
    let t := hmac c a prk (prev ++ info ++ [UInt8.ofNat i])
    t ++ hkdfExpandAux c a prk info n (i + 1) t

/-- `len ≤ 255 · a.size` in the RFC; larger values wrap the one-byte counter here (callers check) -/
def hkdfExpand (c : CryptoOps) (a : HashAlg) (prk info : Bytes) (len : Nat) : Bytes :=
  (hkdfExpandAux c a prk info ((len + a.size - 1) / a.size) 1 []).take len

def hkdf (c : CryptoOps) (a : HashAlg) (salt ikm info : Bytes) (len : Nat) : Bytes :=
  hkdfExpand c a (hkdfExtract c a salt ikm) info len

end SpsdkVerif.Crypto
