/-
C04 — Secure Binary 2.0 / 2.1: the ROM decodes exactly the command list that was given.

Objects: `Sb2.*` = model of SPSDK's builder/parser (Model/Sb2.lean part 1, over constants generated from the
current sources), `Sb2.Rom.*` = independent model of the boot ROM (part 2, own constants `Rom.Spec`),
`Sb2.Spec.*` = the expectation written from the meaning of the builder's arguments (Model/Sb2Spec.lean).
All statements are for EVERY `c : CryptoOps` with `CryptoLaws c` (every key, nonce, length, section list).
Helper lemmas: SpsdkVerif/Proofs/Sb2Cmd.lean, Sb2Section.lean, Sb2Image.lean.
-/
import SpsdkVerif.Proofs.Sb2Image
import SpsdkVerif.Proofs.Sb2Sig
import SpsdkVerif.Proofs.Sb2Parse
import SpsdkVerif.Proofs.Sb2Tamper
import SpsdkVerif.Proofs.ExecLaws

namespace SpsdkVerif.Properties.C04
open SpsdkVerif SpsdkVerif.Sb2 SpsdkVerif.Sb2.Rom
open SpsdkVerif.Misc (Bytes)
open SpsdkVerif.Crypto (CryptoOps CryptoLaws Break SigAlg PrivKey Rand)
open SpsdkVerif.Generated

/-! ## 1. Generated = Spec: the constants of the current SPSDK sources are the ones the ROM model is written with
    (a changed tag, flag, mask, format, marker or size in /repo stops one of these from compiling) -/

theorem gen_tags_agree :
    Sb2Consts.cmdTags = [("NOP", Spec.tagNop), ("TAG", Spec.tagTag), ("LOAD", Spec.tagLoad), ("FILL", Spec.tagFill),
      ("JUMP", Spec.tagJump), ("CALL", Spec.tagCall), ("ERASE", Spec.tagErase), ("RESET", Spec.tagReset),
      ("MEM_ENABLE", Spec.tagMemEnable), ("PROG", Spec.tagProg), ("FW_VERSION_CHECK", Spec.tagFwVersionCheck),
      ("WR_KEYSTORE_TO_NV", Spec.tagWrKeystoreToNv), ("WR_KEYSTORE_FROM_NV", Spec.tagWrKeystoreFromNv)] := by decide

/-- every command class announces the tag under which `parse_command` dispatches to it -/
theorem gen_class_table_consistent :
    ∀ p ∈ Sb2Consts.cmdClassTable, (p.2, p.1) ∈ Sb2Consts.cmdClassTag := by decide

theorem gen_section_flags_agree :
    (Sb2Consts.sectFlagBootable, Sb2Consts.sectFlagCleartext, Sb2Consts.sectFlagLastSect)
      = (Spec.sectBootable, Spec.sectCleartext, Spec.sectLast) := by decide

theorem gen_cmd_header_agree :
    Sb2Consts.cmdHeaderFmtLittle = true ∧ Sb2Consts.cmdHeaderFmt.map (·.2) = Spec.cmdHeaderWidths ∧
    Sb2Consts.cmdHeaderFmt.all (fun f => !f.1) = true ∧ Sb2Consts.cmdHeaderFmtSize = Spec.cmdHeaderSize ∧
    Sb2Consts.checksumSeed = Spec.checksumSeed ∧ Sb2Consts.checksumStart = 1 ∧ Sb2Consts.checksumMask = 255 := by decide

theorem gen_image_header_agree :
    Sb2Consts.imageHeaderFmtLittle = true ∧ Sb2Consts.imageHeaderFmt.map (·.2) = Spec.imageHeaderWidths ∧
    Sb2Consts.imageHeaderFmt.map (·.1) =
      [true, true, true, false, false, false, false, false, false, false, false, false, false, false, true, false,
       false, false, false, false, false, false, false, false, false, false, false, false, false, true] ∧
    Sb2Consts.imageHeaderFmtSize = Spec.imageHeaderSize ∧
    Sb2Consts.imageSignature1 = Spec.signature1 ∧ Sb2Consts.imageSignature2 = Spec.signature2 ∧
    Sb2Consts.hdrKeyBlobBlock * 16 = Sb2Consts.imageHeaderFmtSize + Sb2Consts.v21HeaderMacSize ∧
    Sb2Consts.hdrKeyBlobBlockCount * 16 = Sb2Consts.v21KeyBlobSize := by decide

theorem gen_image_consts_agree :
    (Sb2Consts.v21HeaderMacSize, Sb2Consts.v20HeaderMacSize, Sb2Consts.sectionHmacSize, Sb2Consts.certSectionHmacSize)
      = (Spec.macSize, Spec.macSize, Spec.macSize, Spec.macSize) ∧
    Sb2Consts.v21KeyBlobSize = 80 ∧ Sb2Consts.v20KeyBlobSize = 80 ∧ Sb2Consts.v20DekMacSize = 80 ∧
    Sb2Consts.v21Sha256Size = Spec.shaSize ∧ Sb2Consts.v21FlagsShaPresentBit = Spec.flagSha ∧
    Sb2Consts.v21FlagsEncryptedSignedBit = Spec.flagSigned ∧ Sb2Consts.v20FlagsSigned = Spec.flagSigned ∧
    Sb2Consts.v20FlagsUnsigned = Spec.flagUnsignedV20 ∧ Sb2Consts.certSectionMark = Spec.certSectionMark ∧
    Sb2Consts.blockSize = 16 := by decide

theorem gen_cert_block_agree :
    Sb2Consts.certBlockHeaderFmtLittle = true ∧ Sb2Consts.certBlockHeaderFmt.map (·.2) = Spec.certHeaderWidths ∧
    Sb2Consts.certBlockHeaderFmtSize = Spec.certHeaderSize ∧ Sb2Consts.certBlockSignature = Spec.certSignature ∧
    Sb2Consts.rkhtEntries * Sb2Consts.rkhSize = Spec.rkhTableSize ∧ Sb2Consts.certBlockAlignment = 16 := by decide

theorem gen_mem_id_masks :
    (Sb2Consts.memDeviceIdMask, Sb2Consts.memDeviceIdShift, Sb2Consts.memGroupIdMask, Sb2Consts.memGroupIdShift)
      = (0xFF, 0, 0xF00, 8) ∧
    (Sb2Consts.romDeviceIdMask, Sb2Consts.romDeviceIdShift, Sb2Consts.romGroupIdMask, Sb2Consts.romGroupIdShift)
      = (0xFF00, 8, 0xF0, 4) ∧
    (Sb2Consts.keystoreDeviceIdMask, Sb2Consts.keystoreDeviceIdShift, Sb2Consts.keystoreCount) = (0xFF00, 8, 4) ∧
    Sb2Consts.versionCheckTypes = [0, 1] ∧ Sb2Consts.extMemIds = [1, 4, 8, 9, 10, 11, 16] ∧
    Sb2Consts.timestampEpoch = [2000, 1, 1, 0, 0, 0, 0] ∧ Sb2Consts.timestampScale = 1000000 := by decide

/-! ## 2. Commands -/

/-- `CmdHeader.parse(CmdHeader.export())` gives the header back (checksum `0x5A + Σ` accepted) -/
theorem hdr_roundtrip (h : CmdHdr) (hr : h.inRange = true) (rest : Bytes) :
    decodeHdr (encodeHdr h ++ rest) = .ok h := decodeHdr_encodeHdr h hr rest

/-- a well-formed command is accepted by its constructor and exported as `encodeCmd` -/
theorem cmd_export_ok (x : Cmd) (wf : Spec.WFcmd x) : exportCmd x = .ok (encodeCmd x) := by
  simp [exportCmd, check_ok x wf, hdr_inRange x wf]

/-- SPSDK's own `parse_command` on an exported command followed by anything: the canonical form of the command
    and exactly its length, for each of the 13 command kinds and all field values in range -/
theorem cmd_roundtrip (x : Cmd) (wf : Spec.WFcmd x) (rest : Bytes) :
    decodeCmd (encodeCmd x ++ rest) = .ok (x.canon, (encodeCmd x).length) := decodeCmd_encodeCmd x wf rest

/-- the ROM model on an exported command followed by anything: the command that was given -/
theorem rom_cmd_roundtrip (x : Cmd) (wf : Spec.WFcmd x) (rest : Bytes) :
    Rom.readCmd (encodeCmd x ++ rest) = .ok (Spec.view x, (encodeCmd x).length) := by
  rw [encodeCmd_length]; exact readCmd_encodeCmd x wf rest

/- Full-strength statement (FALSE on the current code, known finding C04-load-count-padded):
     `Rom.readCmd (encodeCmd x ++ rest) = .ok (Spec.viewExact x, _)` for every well-formed `x`.
   Counter-example: `x = .load 0 [1] 0 0` — the exported byte count is 16, so the ROM loads `1 :: 15 zero bytes`.
   Proved instead: it holds whenever the LOAD data is a multiple of 16 bytes (and for every other command kind). -/
theorem rom_cmd_exact_partial (x : Cmd) (wf : Spec.WFcmd x) (rest : Bytes)
    (hal : ∀ a d m f, x = .load a d m f → d.length % 16 = 0) :
    Rom.readCmd (encodeCmd x ++ rest) = .ok (Spec.viewExact x, (encodeCmd x).length) := by
  rw [rom_cmd_roundtrip x wf rest]
  cases x <;> simp only [Spec.viewExact]
  case load a d m f =>
    have h16 := hal a d m f rfl
    simp [Spec.view, Spec.pad16, h16, Crypto.zeros]

/-- in every case the given LOAD data is a prefix of what the ROM writes, and the excess is zero padding (< 16 bytes) -/
theorem rom_load_prefix (a : Nat) (d : Bytes) (m f : Nat) :
    ∃ z, Spec.view (.load a d m f) = .load a (f ||| Spec.memBits m) (d ++ Crypto.zeros z) ∧ z < 16 :=
  ⟨(16 - d.length % 16) % 16, rfl, by omega⟩

/-- a whole command stream of a section is read back command for command -/
theorem rom_cmds_roundtrip (cmds : List Cmd) (wf : ∀ x ∈ cmds, Spec.WFcmd x) :
    Rom.readCmds cmds.length (cmdsData cmds) = .ok (cmds.map Spec.view) :=
  readCmds_cmdsData cmds wf cmds.length (Nat.le_refl _)

/-! ## 3. Counter and sections -/

variable {c : CryptoOps}

/-- Counter agreement: the builder encrypts block `j` of a stream that will sit at the 16-aligned file offset `o`
    with its running counter `ctr₀ + o/16 + j`; the ROM decrypts the block at file offset `o + 16 j` with
    `ctr₀ + (o + 16 j)/16`: the plaintext comes back, for every stream length and position. -/
theorem counter_agreement (h : CryptoLaws c) (dek nonce pre d post : Bytes) (n : Nat)
    (hpre : pre.length % 16 = 0) (hd : d.length = 16 * n) :
    Rom.decryptAt c dek nonce (pre ++ ctrBlocks c dek nonce n (nonceCtr nonce + pre.length / 16) d ++ post) n pre.length = d :=
  decryptAt_ctrBlocks h dek nonce pre d post n hpre hd

theorem counter_keystream (dek nonce : Bytes) (off : Nat) :
    Rom.ksAt c dek nonce off = ksBlock c dek nonce (nonceCtr nonce + off / 16) := ksAt_eq_ksBlock dek nonce off

/-- Section round trip: wherever (16-aligned) a section sits in a file, if it was built with the counter of that
    offset, the ROM verifies the header MAC and the MAC table (any `hmac_count`), decrypts, verifies checksums and
    CRCs, and returns uid, effective MAC count and the given commands; it ends exactly behind the section. -/
theorem section_roundtrip (h : CryptoLaws c) (dek mac nonce pre post : Bytes) (s : Section)
    (wf : Spec.WFsection s) (hpre : pre.length % 16 = 0) :
    Rom.readSection c dek mac nonce
        (pre ++ buildSection c dek mac nonce (nonceCtr nonce + pre.length / 16) s ++ post) pre.length
      = .ok (Spec.expectedSection s, pre.length + Spec.sectionLen s) :=
  readSection_buildSection h dek mac nonce pre post s wf hpre

/-! ## 4. Images -/

/-- SB 2.1: the ROM model, holding the same KEK, accepts every file the builder model produces and reports exactly
    what was given: versions, build number, flags, timestamp, block counts/offsets, DEK and MAC key, every section
    with its id and every command, and the signature obligation `(signedLen, signature, certBlock)`. -/
theorem rom_accepts_v21 (h : CryptoLaws c) (cfg : Cfg) (wf : Spec.WF21 cfg) :
    Rom.romV21 c cfg.kek (buildV21 c cfg) = .ok (Spec.expected21 cfg) := romV21_buildV21 h cfg wf

/- Full-strength statement (FALSE on the current code, known finding C04-load-count-padded): the ROM reports
   `expected21Exact cfg` (every LOAD with exactly the given bytes) for every well-formed `cfg`.  Refuting example:
   one section with `.load 0 [1] 0 0` — the file says 16 bytes, the ROM loads `1 :: 15 zeros`.
   Proved: it is exact whenever every LOAD's data is a multiple of 16 bytes long (and `rom_load_prefix` says what is
   written otherwise: the data followed by fewer than 16 zero bytes). -/
theorem rom_accepts_v21_exact_partial (h : CryptoLaws c) (cfg : Cfg) (wf : Spec.WF21 cfg) (hal : loadsAligned cfg) :
    Rom.romV21 c cfg.kek (buildV21 c cfg) = .ok (expected21Exact cfg) := by
  rw [← expected21_exact cfg hal]; exact romV21_buildV21 h cfg wf

theorem rom_accepts_v20_exact_partial (h : CryptoLaws c) (cfg : Cfg) (signed : Bool) (wf : Spec.WF20 cfg signed)
    (hal : loadsAligned cfg) :
    Rom.romV20 c cfg.kek (buildV20 c cfg signed) = .ok (expected20Exact cfg signed) := by
  rw [← expected20_exact cfg signed hal]; exact romV20_buildV20 h cfg signed wf

/-- SB 2.0, signed (certificate section, signature at the end) and unsigned -/
theorem rom_accepts_v20 (h : CryptoLaws c) (cfg : Cfg) (signed : Bool) (wf : Spec.WF20 cfg signed) :
    Rom.romV20 c cfg.kek (buildV20 c cfg signed) = .ok (Spec.expected20 cfg signed) := romV20_buildV20 h cfg signed wf

/-! ### SPSDK's own parser (Model/Sb2Parse.lean: `BootImageV21.parse` / `BootImageV20.parse` as the code is)

    The certificate block is opaque: `cp` stands for `CertBlockV1.parse`, `ci` for what the image parser uses of its result
    (`raw_size`, `signature_size`, `verify_data`).  Hypotheses: `cp` recognises the block that was put into the file, with
    its length and signature size, and `verify_data` accepts the signer's signature over the signed range (that is
    `CryptoLaws.verify_sign` for the real pair; C02/C03 own the certificate block).  The KEK has a legal AES length and the
    version numbers are BCD (otherwise `BcdVersion3` refuses them — the builder does, too). -/

/-- `BootSectionV2.parse` on a section built for its position: uid, effective MAC count, the commands in canonical
    form, and the counter has advanced by the section's length in blocks -/
theorem parser_section_roundtrip (h : CryptoLaws c) (dek mac nonce pre post : Bytes) (s : Section)
    (wf : Spec.WFsection s) (hpre : pre.length % 16 = 0) :
    Parse.parseSection c dek mac nonce
        (pre ++ buildSection c dek mac nonce (nonceCtr nonce + pre.length / 16) s ++ post) pre.length
        (nonceCtr nonce + pre.length / 16)
      = .ok (Parse.parsedSection s, nonceCtr nonce + pre.length / 16 + Spec.sectionLen s / 16) :=
  parseSection_buildSection h dek mac nonce pre post s wf hpre

/-- parser_agrees (SB 2.1): SPSDK's parser returns what was given to the builder — flags, versions, build number,
    timestamp, nonce, DEK/MAC key, EVERY section (uid, MAC count) and every command -/
theorem parser_agrees_v21 (h : CryptoLaws c) (cfg : Cfg) (wf : Spec.WF21 cfg)
    (hk : Parse.kekLenOk cfg.kek = true)
    (hpv : Parse.bcdVersionOk cfg.productVersion) (hcv : Parse.bcdVersionOk cfg.componentVersion)
    (cp : Parse.CertParser) (ci : Parse.CertInfo)
    (hcp : ∀ rest, cp (cfg.certBlock ++ rest) = some ci)
    (hraw : ci.rawSize = cfg.certBlock.length) (hsz : ci.sigSize = cfg.signature.length)
    (hver : ci.verify cfg.signature (cfg.signed21 c) = true) :
    Parse.parseV21 c cp cfg.kek (buildV21 c cfg) = .ok (Parse.parsedOf21 cfg) :=
  parseV21_buildV21 h cfg wf hk hpv hcv cp ci hcp hraw hsz hver

/-- parser_agrees (SB 2.0, signed and unsigned; section ids must be distinct — `add_boot_section` refuses duplicates) -/
theorem parser_agrees_v20 (h : CryptoLaws c) (cfg : Cfg) (signed : Bool) (wf : Spec.WF20 cfg signed)
    (hk : Parse.kekLenOk cfg.kek = true)
    (hpv : Parse.bcdVersionOk cfg.productVersion) (hcv : Parse.bcdVersionOk cfg.componentVersion)
    (hu : (cfg.sections.map (·.uid)).Nodup)
    (cp : Parse.CertParser) (ci : Parse.CertInfo)
    (hcp : signed = true → ∀ rest, cp (cfg.certBlock ++ rest) = some ci)
    (hraw : signed = true → ci.rawSize = cfg.certBlock.length)
    (hver : signed = true → ci.verify cfg.signature (cfg.body20 c true) = true) :
    Parse.parseV20 c cp cfg.kek (buildV20 c cfg signed) = .ok (Parse.parsedOf20 cfg signed) :=
  parseV20_buildV20 h cfg signed wf hk hpv hcv hu cp ci hcp hraw hver

/-- parser and ROM model see the same commands: the parsed object of a well-formed command, exported again, is decoded
    by the ROM model to the same action as the original -/
theorem parser_rom_consistent (x : Cmd) (wf : Spec.WFcmd x) (rest : Bytes) :
    decodeCmd (encodeCmd x ++ rest) = .ok (x.canon, (encodeCmd x).length) ∧
    Rom.readCmd (encodeCmd x ++ rest) = .ok (Spec.view x, (encodeCmd x).length) :=
  ⟨cmd_roundtrip x wf rest, rom_cmd_roundtrip x wf rest⟩

/-- KEK lengths: SPSDK's parser, given a KEK that is not 16, 24 or 32 bytes long (the lengths AES key unwrap accepts),
    raises for EVERY input file — it never returns content (empty KEK: SPSDKError, other lengths: ValueError of
    `cryptography`); the tie is the `tamper`/`images` streams' wrong-KEK trials and stream `kek_len` -/
theorem parser_illegal_kek_len (cp : Parse.CertParser) (kek data : Bytes) (hk : Parse.kekLenOk kek = false) :
    (∃ e, Parse.parseV21 c cp kek data = .error e) ∧ (∃ e, Parse.parseV20 c cp kek data = .error e) := by
  have hu : ∃ e, Parse.unwrapKeys c kek data = .error e := by
    unfold Parse.unwrapKeys
    by_cases he : kek.isEmpty = true
    · rw [if_pos he]; exact ⟨_, rfl⟩
    · rw [if_neg he, hk]; exact ⟨_, rfl⟩
  obtain ⟨e, he⟩ := hu
  constructor
  · refine ⟨e, ?_⟩; unfold Parse.parseV21; rw [he]
  · refine ⟨e, ?_⟩; unfold Parse.parseV20; rw [he]

/-- the header describes the file: image size, first boot tag, certificate block, key blob, header size -/
theorem header_describes_file (h : CryptoLaws c) (cfg : Cfg) (wf : Spec.WF21 cfg) :
    (buildV21 c cfg).length = (Spec.expected21 cfg).imageBlocks * 16 ∧
    (buildV21 c cfg).drop ((Spec.expected21 cfg).firstBootTagBlock * 16) = cfg.bsData21 c ∧
    (cfg.bsData21 c).length = Spec.sectionsLen cfg.sections ∧
    Rom.slice (buildV21 c cfg) (Spec.expected21 cfg).offsetToCert cfg.certBlock.length = cfg.certBlock ∧
    Rom.slice (buildV21 c cfg) ((Spec.expected21 cfg).keyBlobBlock * 16) ((Spec.expected21 cfg).keyBlobBlockCount * 16)
      = keyBlob c cfg.kek cfg.dek cfg.mac ∧
    (buildV21 c cfg).take ((Spec.expected21 cfg).headerBlocks * 16) = encodeImageHdr cfg.header21 :=
  header_describes_file_v21 h cfg wf

/-- the signed range is header ‖ header MAC ‖ key blob ‖ certificate block ‖ [SHA-256 of the sections], the
    signature follows it and ends where the first boot section begins -/
theorem signed_range_v21 (h : CryptoLaws c) (cfg : Cfg) (wf : Spec.WF21 cfg) :
    (buildV21 c cfg).take (Spec.expected21 cfg).signedLen = cfg.signed21 c ∧
    Rom.slice (buildV21 c cfg) (Spec.expected21 cfg).signedLen cfg.signature.length = cfg.signature ∧
    (Spec.expected21 cfg).signedLen + cfg.signature.length = (Spec.expected21 cfg).firstBootTagBlock * 16 :=
  Sb2.signed_range_v21 h cfg wf

/-- the signed bytes, spelled out -/
theorem signed_range_parts (cfg : Cfg) :
    cfg.signed21 c =
      encodeImageHdr cfg.header21 ++
      hmac256 c cfg.mac (((cfg.bsData21 c).drop 16).take ((cfg.sections.head?.map Section.effHmacCount).getD 0 * 32 + 32)) ++
      keyBlob c cfg.kek cfg.dek cfg.mac ++ cfg.certBlock ++
      (if cfg.shaPresent then c.hash .sha256 (cfg.bsData21 c) else []) := rfl

/-! ## 5. Reductions (DESIGN §4): refused unless a primitive is broken -/

theorem wrong_kek (h : CryptoLaws c) (cfg : Cfg) (wf : Spec.WF21 cfg) (kek' : Bytes) (hk : kek' ≠ cfg.kek) :
    Rom.romV21 c kek' (buildV21 c cfg) = .error .badKeyBlob ∨ Break c := wrong_kek_v21 h cfg wf kek' hk

theorem wrong_kek_v20 (h : CryptoLaws c) (cfg : Cfg) (signed : Bool) (wf : Spec.WF20 cfg signed) (kek' : Bytes)
    (hk : kek' ≠ cfg.kek) :
    Rom.romV20 c kek' (buildV20 c cfg signed) = .error .badKeyBlob ∨ Break c := Sb2.wrong_kek_v20 h cfg signed wf kek' hk

/-- the property's last sentence, for SPSDK's parser: with a different KEK it raises (whatever the certificate
    parser does) — unless RFC 3394 integrity is broken -/
theorem parser_wrong_kek (h : CryptoLaws c) (cfg : Cfg) (wf : Spec.WF21 cfg) (cp : Parse.CertParser)
    (kek' : Bytes) (hk : kek' ≠ cfg.kek) :
    (∃ e, Parse.parseV21 c cp kek' (buildV21 c cfg) = .error e) ∨ Break c :=
  parseV21_wrong_kek h cfg wf cp kek' hk

theorem parser_wrong_kek_v20 (h : CryptoLaws c) (cfg : Cfg) (signed : Bool) (wf : Spec.WF20 cfg signed)
    (cp : Parse.CertParser) (kek' : Bytes) (hk : kek' ≠ cfg.kek) :
    (∃ e, Parse.parseV20 c cp kek' (buildV20 c cfg signed) = .error e) ∨ Break c :=
  parseV20_wrong_kek h cfg signed wf cp kek' hk

/-- a boot section whose ciphertext body was replaced (same length) is refused — or two different byte strings with
    the same HMAC-SHA256 under the MAC key are exhibited; `S` = the section as built for its position -/
theorem section_body_tampered (h : CryptoLaws c) (dek mac nonce pre post : Bytes) (s : Section)
    (wf : Spec.WFsection s) (hpre : pre.length % 16 = 0) (body' : Bytes)
    (hlen : body'.length = Spec.cmdsLen s.cmds)
    (hne : body' ≠ (buildSection c dek mac nonce (nonceCtr nonce + pre.length / 16) s).drop (48 + 32 * Spec.macCount s)) :
    Rom.readSection c dek mac nonce
        (pre ++ (buildSection c dek mac nonce (nonceCtr nonce + pre.length / 16) s).take (48 + 32 * Spec.macCount s) ++ body' ++ post)
        pre.length = .error .badSectionMac ∨ Break c :=
  readSection_body_tampered h dek mac nonce pre post s wf hpre body' hlen hne

/-- the same for the encrypted section header -/
theorem section_header_tampered (h : CryptoLaws c) (dek mac nonce pre post : Bytes) (s : Section)
    (wf : Spec.WFsection s) (hpre : pre.length % 16 = 0) (eh' : Bytes) (hlen : eh'.length = 16)
    (hne : eh' ≠ (buildSection c dek mac nonce (nonceCtr nonce + pre.length / 16) s).take 16) :
    Rom.readSection c dek mac nonce
        (pre ++ eh' ++ (buildSection c dek mac nonce (nonceCtr nonce + pre.length / 16) s).drop 16 ++ post)
        pre.length = .error .badSectionMac ∨ Break c :=
  readSection_header_tampered h dek mac nonce pre post s wf hpre eh' hlen hne

/-- a modified header MAC or MAC table is always refused (the ROM recomputes and compares; no assumption needed) -/
theorem section_macs_tampered (h : CryptoLaws c) (dek mac nonce pre post : Bytes) (s : Section)
    (wf : Spec.WFsection s) (hpre : pre.length % 16 = 0) (macs' : Bytes)
    (hlen : macs'.length = 32 + 32 * Spec.macCount s)
    (hne : macs' ≠ ((buildSection c dek mac nonce (nonceCtr nonce + pre.length / 16) s).drop 16).take (32 + 32 * Spec.macCount s)) :
    Rom.readSection c dek mac nonce
        (pre ++ (buildSection c dek mac nonce (nonceCtr nonce + pre.length / 16) s).take 16 ++ macs' ++
          (buildSection c dek mac nonce (nonceCtr nonce + pre.length / 16) s).drop (48 + 32 * Spec.macCount s) ++ post)
        pre.length = .error .badSectionMac :=
  readSection_macs_tampered h dek mac nonce pre post s wf hpre macs' hlen hne

/-- Signature coverage (SB 2.1).  The signature is the signer's output for the signed range of the built file.  Change the
    file anywhere inside that range (same length): whatever prefix length `n` a loader or parser derives from the tampered
    header, the original signature verifying over that prefix exhibits a signature forgery.  (Injectivity of the range
    extraction: `take_ne_of_diff`.)  With `rom_accepts_v21`/`signed_range_v21` this says: the ROM's obligation
    `(signedLen, signature)` cannot be met by a file tampered inside the signed range while the signature bytes are the
    original ones.  A *different* byte string in the signature field that verifies is an existential forgery of the
    signature scheme itself and is outside `Break.sigForgery`. -/
theorem signed_range_tamper (h : CryptoLaws c) (cfg : Cfg) (wf : Spec.WF21 cfg) (alg : SigAlg) (sk : PrivKey) (r : Rand)
    (hsig : cfg.signature = c.sign alg sk (cfg.signed21 c) r)
    (file' : Bytes) (hl : file'.length = (buildV21 c cfg).length)
    (i : Nat) (hi : i < (Spec.expected21 cfg).signedLen) (hd : file'[i]? ≠ (buildV21 c cfg)[i]?)
    (n : Nat) (hv : c.verify alg (c.pubOf sk) (file'.take n) cfg.signature = true) : Break c :=
  signed_range_tamper_v21 h cfg wf alg sk r hsig file' hl i hi hd n hv

/-- the same for signed SB 2.0, where the signed message is everything in front of the signature -/
theorem signed_range_tamper_v20 (h : CryptoLaws c) (cfg : Cfg) (wf : Spec.WF20 cfg true) (alg : SigAlg) (sk : PrivKey) (r : Rand)
    (hsig : cfg.signature = c.sign alg sk (cfg.body20 c true) r)
    (file' : Bytes) (hl : file'.length = (buildV20 c cfg true).length)
    (i : Nat) (hi : i < Spec.bodyLen20 cfg true) (hd : file'[i]? ≠ (buildV20 c cfg true)[i]?)
    (n : Nat) (hv : c.verify alg (c.pubOf sk) (file'.take n) cfg.signature = true) : Break c :=
  Sb2.signed_range_tamper_v20 h cfg wf alg sk r hsig file' hl i hi hd n hv

/-! ### Phase 3: header fields and multi-section layout spelled out; one changed byte in the section area -/

/-- every header value the builder was given comes back from the ROM model reading the exported file: flags (with or
    without the SHA bit), timestamp, product and component version (each its own BCD triple), build number, nonce —
    for ALL values in range — together with the derived layout words the format prescribes
    (header blocks 6, key blob at block 8 with 5 blocks, certificate block at byte 208). -/
theorem rom_header_fields_v21 (h : CryptoLaws c) (cfg : Cfg) (wf : Spec.WF21 cfg) :
    (Rom.romV21 c cfg.kek (buildV21 c cfg)).map
        (fun r => (r.major, r.minor, r.flags, r.timestamp, r.productVersion, r.componentVersion, r.buildNumber, r.nonce,
                   r.headerBlocks, r.keyBlobBlock, r.keyBlobBlockCount, r.offsetToCert))
      = .ok (2, 1, cfg.flags, cfg.timestamp, cfg.productVersion, cfg.componentVersion, cfg.buildNumber, cfg.nonce, 6, 8, 5, 208) := by
  rw [rom_accepts_v21 h cfg wf]; rfl

/-- SB 2.0 twin (flags are 8 = signed / 4 = encrypted only; `cfg.flags` is not an input of `BootImageV20`) -/
theorem rom_header_fields_v20 (h : CryptoLaws c) (cfg : Cfg) (signed : Bool) (wf : Spec.WF20 cfg signed) :
    (Rom.romV20 c cfg.kek (buildV20 c cfg signed)).map
        (fun r => (r.major, r.minor, r.flags, r.timestamp, r.productVersion, r.componentVersion, r.buildNumber, r.nonce,
                   r.headerBlocks, r.keyBlobBlock, r.keyBlobBlockCount))
      = .ok (2, 0, if signed then 8 else 4, cfg.timestamp, cfg.productVersion, cfg.componentVersion, cfg.buildNumber,
             cfg.nonce, 6, 8, 5) := by
  rw [rom_accepts_v20 h cfg signed wf]; rfl

/-- multi-section images, any number of sections: the ROM sees the sections in the order given, each with its id,
    flags BOOTABLE|LAST_SECT (SPSDK sets the last-section bit on every section), a MAC table of
    `min (max hmac_count 1) (blocks of the section)` entries and its commands; the header announces the first id,
    the sum of the table sizes, and `image_blocks` counts every section's `48 + 32·macs + stream` bytes. -/
theorem rom_sections_v21 (h : CryptoLaws c) (cfg : Cfg) (wf : Spec.WF21 cfg) :
    (Rom.romV21 c cfg.kek (buildV21 c cfg)).map
        (fun r => (r.sections.map (fun s => (s.uid, s.flags, s.hmacCount, s.cmds)), r.firstBootSectionId,
                   r.maxSectionMacCount, r.imageBlocks * 16))
      = .ok (cfg.sections.map (fun s => (s.uid, 0x8001, min (max s.hmacCount 1) (Spec.cmdsLen s.cmds / 16), s.cmds.map Spec.view)),
             (cfg.sections.head?.map (·.uid)).getD 0,
             (cfg.sections.map (fun s => min (max s.hmacCount 1) (Spec.cmdsLen s.cmds / 16))).sum,
             (Spec.expected21 cfg).firstBootTagBlock * 16 +
               (cfg.sections.map (fun s => 48 + 32 * min (max s.hmacCount 1) (Spec.cmdsLen s.cmds / 16) + Spec.cmdsLen s.cmds)).sum) := by
  have hl := (header_describes_file h cfg wf).1
  have hd := (header_describes_file h cfg wf).2.1
  have hs := (header_describes_file h cfg wf).2.2.1
  have hlen : (buildV21 c cfg).length = (Spec.expected21 cfg).firstBootTagBlock * 16 + Spec.sectionsLen cfg.sections := by
    have h1 : (Spec.expected21 cfg).firstBootTagBlock * 16 ≤ (buildV21 c cfg).length := by
      by_cases hc : (Spec.expected21 cfg).firstBootTagBlock * 16 ≤ (buildV21 c cfg).length
      · exact hc
      · exfalso
        have hnil : (buildV21 c cfg).drop ((Spec.expected21 cfg).firstBootTagBlock * 16) = [] :=
          List.drop_eq_nil_of_le (by omega)
        rw [hnil] at hd
        rw [← hd] at hs
        obtain ⟨_, _, _, _, _, _, _, _, _, _, _, _, wne, wsec, _, _⟩ := wf
        have := sections_length_le cfg.sections wsec
        have : 0 < cfg.sections.length := List.length_pos_iff.2 wne
        simp at hs
        omega
    have h2 := congrArg List.length hd
    rw [List.length_drop, hs] at h2
    omega
  rw [rom_accepts_v21 h cfg wf]
  simp only [Except.map]
  have e1 : (Spec.expected21 cfg).sections.map (fun s => (s.uid, s.flags, s.hmacCount, s.cmds))
      = cfg.sections.map (fun s => (s.uid, 0x8001, min (max s.hmacCount 1) (Spec.cmdsLen s.cmds / 16), s.cmds.map Spec.view)) := by
    simp only [Spec.expected21, List.map_map]
    rfl
  have e2 : (Spec.expected21 cfg).maxSectionMacCount
      = (cfg.sections.map (fun s => min (max s.hmacCount 1) (Spec.cmdsLen s.cmds / 16))).sum := rfl
  have e3 : Spec.sectionsLen cfg.sections
      = (cfg.sections.map (fun s => 48 + 32 * min (max s.hmacCount 1) (Spec.cmdsLen s.cmds / 16) + Spec.cmdsLen s.cmds)).sum := rfl
  rw [e1, e2, ← e3, ← hlen, hl]
  rfl

/-- Tamper side, whole image (SB 2.1): change ONE byte anywhere behind the first boot tag — an encrypted section
    header, its MAC, any MAC-table entry, any ciphertext block, of ANY section of an image with any number of sections —
    and the ROM model refuses the file, or two different byte strings with the same HMAC-SHA256 under the image's MAC key
    are exhibited (`Break.hmacForgery`).  Induction over the section list on top of `section_header_tampered`,
    `section_macs_tampered`, `section_body_tampered`.  Together with `signed_range_tamper` (bytes in front of the
    signature) this covers every region of the file except the signature bytes themselves. -/
theorem image_section_byte_tampered_v21 (h : CryptoLaws c) (cfg : Cfg) (wf : Spec.WF21 cfg) (i : Nat) (v : UInt8)
    (hi1 : (Spec.expected21 cfg).firstBootTagBlock * 16 ≤ i) (hi2 : i < (buildV21 c cfg).length)
    (hv : some v ≠ (buildV21 c cfg)[i]?) :
    (∃ e, Rom.romV21 c cfg.kek ((buildV21 c cfg).set i v) = .error e) ∨ Break c := by
  have hstart : (Spec.expected21 cfg).firstBootTagBlock * 16 = start21 cfg := start21_aligned cfg wf
  exact romV21_section_byte_tampered h cfg wf i v (by omega) hi2 hv

/-- the same for SB 2.0, signed (certificate section in front of the boot sections, signature behind them) and unsigned:
    one changed byte anywhere between the first boot tag and `image_blocks * 16` is refused or exhibits an HMAC forgery -/
theorem image_section_byte_tampered_v20 (h : CryptoLaws c) (cfg : Cfg) (signed : Bool) (wf : Spec.WF20 cfg signed)
    (i : Nat) (v : UInt8)
    (hi1 : (Spec.expected20 cfg signed).firstBootTagBlock * 16 ≤ i) (hi2 : i < (Spec.expected20 cfg signed).imageBlocks * 16)
    (hv : some v ≠ (buildV20 c cfg signed)[i]?) :
    (∃ e, Rom.romV20 c cfg.kek ((buildV20 c cfg signed).set i v) = .error e) ∨ Break c := by
  have hmod : Spec.sectionsLen cfg.sections % 16 = 0 :=
    (buildSections_length h cfg.dek cfg.mac cfg.nonce cfg.sections wf.2.2.2.2.2.2.2.2.2.2.1 0).2
  have hcert : signed = true → cfg.certBlock.length % 16 = 0 := fun hs => certBlockOk_mod _ (wf.2.2.2.2.2.2.2.2.1 hs).1
  have e1 : (Spec.expected20 cfg signed).firstBootTagBlock * 16 = 208 + (if signed then 80 + cfg.certBlock.length else 0) := by
    show (208 + (if signed then 80 + cfg.certBlock.length else 0)) / 16 * 16 = _
    cases signed
    · simp
    · have := hcert rfl; simp only [if_true]; omega
  have e2 : (Spec.expected20 cfg signed).imageBlocks * 16
      = 208 + (if signed then 80 + cfg.certBlock.length else 0) + Spec.sectionsLen cfg.sections := by
    show Spec.bodyLen20 cfg signed / 16 * 16 = _
    unfold Spec.bodyLen20
    cases signed
    · simp only [Bool.false_eq_true, if_false]; omega
    · have := hcert rfl; simp only [if_true]; omega
  exact romV20_section_byte_tampered h cfg signed wf i v (by omega) (by omega) hv

/-- one changed byte in the header-MAC field (bytes 96..127) of an SB 2.1 file: always refused — the ROM recomputes the
    HMAC over the first section's MAC table and compares; no crypto assumption -/
theorem header_mac_byte_tampered_v21 (h : CryptoLaws c) (cfg : Cfg) (wf : Spec.WF21 cfg) (i : Nat) (v : UInt8)
    (h1 : 96 ≤ i) (h2 : i < 128) (hv : some v ≠ (buildV21 c cfg)[i]?) :
    Rom.romV21 c cfg.kek ((buildV21 c cfg).set i v) = .error .badHeaderMac :=
  romV21_hmac_byte_tampered h cfg wf i v h1 h2 hv

/-- one changed byte in the SHA-256 field (present with flag 0x8000, in front of the signature; without the flag the range
    `[offsetToCert + |cert|, signedLen)` is empty): always refused.
    Region map of an SB 2.1 file: header, key blob, certificate block → `signed_range_tamper` (signature forgery);
    header MAC, SHA-256 → refused unconditionally (these two; they are inside the signed range as well);
    boot sections → `image_section_byte_tampered_v21` (HMAC forgery); signature bytes → not covered (existential forgery). -/
theorem sha_byte_tampered_v21 (h : CryptoLaws c) (cfg : Cfg) (wf : Spec.WF21 cfg) (i : Nat) (v : UInt8)
    (h1 : (Spec.expected21 cfg).offsetToCert + cfg.certBlock.length ≤ i)
    (h2 : i < (Spec.expected21 cfg).signedLen) (hv : some v ≠ (buildV21 c cfg)[i]?) :
    Rom.romV21 c cfg.kek ((buildV21 c cfg).set i v) = .error .badSha := by
  have e : (Spec.expected21 cfg).signedLen = 208 + cfg.certBlock.length + shaLen21 cfg := rfl
  exact romV21_sha_byte_tampered h cfg wf i v h1 (by omega) hv

/-- SB 2.0: one changed byte in the header-MAC field (bytes 96..127): always refused (the ROM recomputes HMAC(mac key, header)) -/
theorem header_mac_byte_tampered_v20 (h : CryptoLaws c) (cfg : Cfg) (signed : Bool) (wf : Spec.WF20 cfg signed) (i : Nat) (v : UInt8)
    (h1 : 96 ≤ i) (h2 : i < 128) (hv : some v ≠ (buildV20 c cfg signed)[i]?) :
    ∃ e, Rom.romV20 c cfg.kek ((buildV20 c cfg signed).set i v) = .error e :=
  romV20_hmac_byte_tampered h cfg signed wf i v h1 h2 hv

/-- SB 2.0: one changed byte in the 96-byte header is refused, or two different headers with the same HMAC-SHA256 under the image's
    MAC key are exhibited.  Hypothesis `hkb`: the changed header, if the ROM can read it at all, still locates the key blob at block 8
    with 5 blocks (true for every byte outside the two 16-bit words at offsets 46..49).  Without it the statement cannot be a reduction
    to `Break`: a redirected key-blob pointer makes the ROM unwrap other bytes of the file, and "some other byte string unwraps under
    the KEK" is not one of `Break`'s cases (for those four bytes the signature covers the header: `signed_range_tamper_v20`). -/
theorem header_byte_tampered_v20 (h : CryptoLaws c) (cfg : Cfg) (signed : Bool) (wf : Spec.WF20 cfg signed) (i : Nat) (v : UInt8)
    (h2 : i < 96) (hv : some v ≠ (buildV20 c cfg signed)[i]?)
    (hkb : ∀ h', Rom.readImageHdr ((buildV20 c cfg signed).set i v) = .ok h' → h'.keyBlobBlock = 8 ∧ h'.keyBlobBlockCount = 5) :
    (∃ e, Rom.romV20 c cfg.kek ((buildV20 c cfg signed).set i v) = .error e) ∨ Break c :=
  romV20_header_byte_tampered h cfg signed wf i v h2 hv hkb

/-- ANY byte string that starts with a 96-byte header, a 32-byte field `M` and this image's wrapped keys, and whose header points at
    them, is refused by the SB 2.0 reader unless `M = HMAC(mac key, header)` — nothing about the rest of the file is assumed -/
theorem v20_header_mac_is_checked (h : CryptoLaws c) (kek dek mac H M T : Bytes) (wdek : dek.length = 32) (wmac : mac.length = 32)
    (lH : H.length = 96) (lM : M.length = 32) (lT : 8 ≤ T.length)
    (hkb : ∀ h', Rom.readImageHdr (H ++ M ++ (Crypto.kwWrap c kek (dek ++ mac) ++ T)) = .ok h' →
      h'.keyBlobBlock = 8 ∧ h'.keyBlobBlockCount = 5)
    (hne : M ≠ Crypto.hmac c .sha256 mac H) :
    ∃ e, Rom.romV20 c kek (H ++ M ++ (Crypto.kwWrap c kek (dek ++ mac) ++ T)) = .error e :=
  romV20_header_mac_mismatch h kek dek mac H M T wdek wmac lH lM lT hkb hne

/-- the same for exactly the compiled primitives the driver runs -/
theorem exec_image_section_byte_tampered_v21 (cfg : Cfg) (wf : Spec.WF21 cfg) (i : Nat) (v : UInt8)
    (hi1 : (Spec.expected21 cfg).firstBootTagBlock * 16 ≤ i) (hi2 : i < (buildV21 Crypto.execOps cfg).length)
    (hv : some v ≠ (buildV21 Crypto.execOps cfg)[i]?) :
    (∃ e, Rom.romV21 Crypto.execOps cfg.kek ((buildV21 Crypto.execOps cfg).set i v) = .error e) ∨ Break Crypto.execOps :=
  image_section_byte_tampered_v21 Crypto.execOps_laws cfg wf i v hi1 hi2 hv

/-! ## 6. The compiled instance: the driver's `execOps` (FIPS-197 AES, FIPS-180 SHA-256 written in Lean) satisfies the
    laws (Proofs/ExecLaws.lean), so the theorems hold for exactly the functions the harness runs natively -/

theorem exec_rom_accepts_v21 (cfg : Cfg) (wf : Spec.WF21 cfg) :
    Rom.romV21 Crypto.execOps cfg.kek (buildV21 Crypto.execOps cfg) = .ok (Spec.expected21 cfg) :=
  rom_accepts_v21 Crypto.execOps_laws cfg wf

theorem exec_rom_accepts_v20 (cfg : Cfg) (signed : Bool) (wf : Spec.WF20 cfg signed) :
    Rom.romV20 Crypto.execOps cfg.kek (buildV20 Crypto.execOps cfg signed) = .ok (Spec.expected20 cfg signed) :=
  rom_accepts_v20 Crypto.execOps_laws cfg signed wf

/-! ## 7. Non-vacuity and sanity -/

/-- smallest certificate block the ROM can delimit: header with an empty certificate table + 4 root key hashes -/
def demoCert : Bytes :=
  [0x63, 0x65, 0x72, 0x74, 1, 0, 0, 0, 32, 0, 0, 0, 0, 0, 0, 0, 7, 0, 0, 0, 0x70, 1, 0, 0, 0, 0, 0, 0, 0, 0, 0, 0] ++
  List.replicate 128 0

def demoCmds : List Cmd :=
  [.erase 0 0x2800 0 0, .load 0x10 [1, 2, 3, 4, 5] 0x109 0, .fill 0x100 0x5A 8, .jump 0x20000000 7 (some 0x20008000),
   .prog 0x40 4 1 2 0, .versionCheck 1 22, .keystoreToNv 0x1000 9, .memEnable 0 4 0x100, .call 4 5, .tag 0 0 0 0, .nop, .reset]

def demoCfg : Cfg :=
  { kek := List.replicate 32 1, dek := List.replicate 32 2, mac := List.replicate 32 3, nonce := List.replicate 16 4,
    padding := List.replicate 8 0, timestamp := 633830400000000, productVersion := ⟨1, 2, 3⟩, componentVersion := ⟨4, 5, 0x9999⟩,
    buildNumber := 7, flags := 0x8008, certBlock := demoCert, signature := List.replicate 256 0xAA,
    sections := [⟨0, 2, demoCmds⟩, ⟨7, 0, [.reset]⟩] }

example : Parse.kekLenOk demoCfg.kek = true ∧ Parse.bcdVersionOk demoCfg.productVersion ∧ Parse.bcdVersionOk demoCfg.componentVersion ∧
    (demoCfg.sections.map (·.uid)).Nodup := by
  refine ⟨by decide, ⟨by decide, by decide, by decide⟩, ⟨by decide, by decide, by decide⟩, by decide⟩
example : ((Parse.parsedOf21 demoCfg).sections.map (fun s => (s.uid, s.hmacCount, s.cmds.length))) = [(0, 2, 12), (7, 1, 1)] := by decide
example : Spec.WF21 demoCfg := by decide +kernel
/-- hypotheses of `image_section_byte_tampered_v21` are satisfiable: byte 656 (first section's encrypted header) exists -/
example : (Spec.expected21 demoCfg).firstBootTagBlock * 16 = 656 ∧ 656 < Spec.fileLen21 demoCfg := by decide +kernel
example : demoCfg.flags / 0x8000 % 2 = 1 ∧ (Spec.expected21 demoCfg).offsetToCert + demoCfg.certBlock.length = 368 ∧
    (Spec.expected21 demoCfg).signedLen = 400 := by decide +kernel
/-- `hkb` of `header_byte_tampered_v20` is satisfiable: it holds for every changed nonce byte of every well-formed image -/
example (cfg : Cfg) (signed : Bool) (wf : Spec.WF20 cfg signed) (i : Nat) (v : UInt8) (hi : i < 16) :
    ∀ h', Rom.readImageHdr ((buildV20 c cfg signed).set i v) = .ok h' → h'.keyBlobBlock = 8 ∧ h'.keyBlobBlockCount = 5 :=
  hkb_of_nonce_byte cfg signed wf i v hi
/-- hypotheses of `v20_header_mac_is_checked` (lengths) for a concrete instance -/
example : (List.replicate 32 (2 : UInt8)).length = 32 ∧ (List.replicate 96 (0 : UInt8)).length = 96 ∧ 8 ≤ (List.replicate 8 (0 : UInt8)).length := by decide
example : Parse.kekLenOk (List.replicate 17 1) = false ∧ Parse.kekLenOk [] = false := by decide
example : (Spec.expected20 demoCfg true).firstBootTagBlock * 16 = 448 ∧ 448 < (Spec.expected20 demoCfg true).imageBlocks * 16 ∧
    (Spec.expected20 demoCfg false).firstBootTagBlock * 16 = 208 ∧ 208 < (Spec.expected20 demoCfg false).imageBlocks * 16 := by decide +kernel
example : Spec.WF20 demoCfg true ∧ Spec.WF20 demoCfg false := by decide +kernel
example : ∀ x ∈ demoCmds, Spec.WFcmd x := by decide
example : (Spec.expected21 demoCfg).imageBlocks * 16 = 208 + 160 + 32 + 256 + (48 + 64 + 13 * 16) + (48 + 32 + 16) := by decide +kernel
example : (Spec.expected21 demoCfg).sections.map (·.hmacCount) = [2, 1] := by decide
example : Spec.view (.load 0x10 [1, 2, 3, 4, 5] 0x109 0) = .load 0x10 0x910 ([1, 2, 3, 4, 5] ++ List.replicate 11 0) := by decide
example : Spec.view (.fill 0 0x1234 0) = .fill 0 0x12341234 4 := by decide
example : Spec.view (.prog 1 4 5 6 0x1200) = .prog 1 5 6 0x0401 := by decide
example : (CmdHdr.mk 2 0x910 0x10 16 0x12345678).inRange = true := by decide
example : checksum (rawHdr 0 ⟨8, 0, 0, 0, 0⟩) = 0x62 := by decide

end SpsdkVerif.Properties.C04
