/-
C18 — database cache: no crash point or concurrent start can break or skew SPSDK.

What is proved here is about the action programs of `Model/DbCache.lean`, instantiated with the guards
that `tools/extract/gen_C18.py` reads from the CURRENT source (`Generated/CacheGuards.lean`):

  * `guards_wf`, `caught_covers`, `sites_guarded` — decided on the generated tables: the lexical facts the
    proofs need hold in the source as it is now (caught exception classes, lock regions, handler shape);
  * `crash_states_harmless`, `answers_equal_disabled` — one process started on ANY cache state a crash can
    leave (missing, empty, any prefix, stale, valid);
  * `schedule_safe`, `schedule_terminates` — ALL interleavings of ANY number of processes, with SIGKILLs
    at any point (inside `pickle.dump`: any prefix written), from any such state.

Assumed, not proved (stated as hypotheses; the harness measures them on every run):
  `PickleOK`  — `pickle.load (pickle.dump v) = v`; a strict prefix of a dump, and the empty file, never
                load but raise a class from `measuredPrefixExcs`;
  `Sound`     — fingerprint soundness of whatever object the initial file holds.
The tie between these programs and the Python code is the generated guards plus the trace
correspondence of `harness/props/C18.py` (real processes under a controlled scheduler vs `drv_c18`).
-/
import SpsdkVerif.Generated.CacheGuards
import SpsdkVerif.Model.DbCache
import SpsdkVerif.Proofs.DbCacheSpec
import SpsdkVerif.Proofs.DbCacheInv
import SpsdkVerif.Proofs.DbCacheSeq
import SpsdkVerif.Proofs.DbCacheCodec
import SpsdkVerif.Proofs.DbCacheFatal
import SpsdkVerif.Proofs.DbCacheProgram
import SpsdkVerif.Generated.CachePrograms
import SpsdkVerif.Proofs.DbCacheListingSem
import SpsdkVerif.Proofs.DbCacheFingerprint
import SpsdkVerif.Generated.CacheFingerprint

namespace SpsdkVerif.C18
open SpsdkVerif SpsdkVerif.DbCache

/-- quick-info cache: `DatabaseManager._get_quick_info_db` (load and store) -/
def quickG : Guards := ⟨Generated.CacheGuards.quickLoader, Generated.CacheGuards.quickWriter⟩
/-- config cache: `DatabaseData.__init__` (load) and `DatabaseData.make_cache` (merge + store) -/
def configG : Guards := ⟨Generated.CacheGuards.configLoader, Generated.CacheGuards.configWriter⟩

/-- The MEASURED set of exception classes `pickle.load` raises on the empty file and on strict prefixes of
    both cache files.  The harness re-measures it on every run (every prefix in the thorough tier) and
    fails when it observes a class outside this list. -/
def measuredPrefixExcs : List Exc := [.EOFError, .UnpicklingError]

/-! ## Obligations decided on the generated tables -/

/-- the lexical facts the proofs below rest on hold for both caches in the current source -/
theorem guards_wf : wfGuards quickG = true ∧ wfGuards configG = true := by decide

/-- every measured class is caught wherever a cache file is unpickled (loaders, and the merge read) -/
theorem caught_covers :
    coversMeasured quickG measuredPrefixExcs = true ∧ coversMeasured configG measuredPrefixExcs = true := by decide

/-- Table obligation over EVERY lexical file operation in the functions that (un)pickle a cache:
    writes are inside the lock and inside a `try` that catches `OSError`; reads/removes tolerate a
    file that vanished; loads catch every measured class.  (Not required: the lock around a load.) -/
def siteOK (s : CacheSite) : Bool :=
  (if s.op == "open_w" || s.op == "dump" || s.op == "replace" then s.inLock && Exc.caughtBy s.caught .OSError else true) &&
  (if s.op == "makedirs" then Exc.caughtBy s.caught .OSError else true) &&
  (if s.op == "open_r" || s.op == "remove" then Exc.caughtBy s.caught .FileNotFoundError else true) &&
  (if s.op == "load" then measuredPrefixExcs.all (Exc.caughtBy s.caught) else true)

theorem sites_guarded : Generated.CacheGuards.sites.all siteOK = true := by decide

/-- the model really has the two shapes the source has (not two copies of one) -/
theorem shapes :
    quickG.w.mergesExisting = false ∧ configG.w.mergesExisting = true ∧
    quickG.l.removeStale = false ∧ configG.l.removeStale = true ∧ configG.l.handlerRemoves = true := by decide

/-- **The program text is the model's.**  The ordered listing of cache actions that the generator reads from the
    three functions (action, lock scope, enclosing branches, handler classes of the enclosing `try`s, in source order)
    equals the canonical text of the model's action programs instantiated with the generated guards
    (`Proofs/DbCacheProgram.lean`).  A reordered / added / dropped action, or one moved out of its lock, `try` or
    branch, breaks this even when no guard flag changes. -/
theorem program_text_canonical :
    Generated.CachePrograms.quickProgram = Program.quick quickG ∧
    Generated.CachePrograms.configLoaderProgram = Program.configLoader configG.l ∧
    Generated.CachePrograms.configWriterProgram = Program.configWriter configG.w := by decide

/-- **The regenerated program means what the model does.**  The generated listings, executed by the generic listing
    semantics of `Proofs/DbCacheListingSem.lean` (items in source order; branch conditions and handlers activated
    dynamically; each action with its obvious effect — no reference to `pstep` or to the guard flags), and the model
    (`pstep` with the generated guards, run to completion) produce the same sequence of observable actions, the same final
    cache file, the same answers and the same fatal/non-fatal outcome — for one process started on every class of
    initial file (missing, empty, truncated, valid, stale, wrong type, garbage) and several query lists.  Kernel-evaluated
    on every run on the listings of the CURRENT source. -/
theorem listing_semantics_agree :
    (ListingSem.initialFiles [0]).all (fun f =>
      ListingSem.runQuick ListingSem.env0 Generated.CachePrograms.quickProgram f
        == ListingSem.modelOutcome ListingSem.env0 quickG f [0]) = true ∧
    (ListingSem.initialFiles [1, 2]).all (fun f => [[1], [1, 2], [3, 1], []].all fun qs =>
      ListingSem.runConfig ListingSem.env0 Generated.CachePrograms.configLoaderProgram
          Generated.CachePrograms.configWriterProgram f qs
        == ListingSem.modelOutcome ListingSem.env0 configG f qs) = true := by
  constructor <;> decide +kernel

/-- … and the comparison is not vacuous: e.g. on the stale config cache the common run removes the file, stores twice. -/
example : (ListingSem.runConfig ListingSem.env0 Generated.CachePrograms.configLoaderProgram
      Generated.CachePrograms.configWriterProgram
      (some (ListingSem.env0.pickle { ty := 1, fp := 0, ents := [(1, 0)] })) [3, 1]).trace =
    ["exists", "acquire", "open_r", "load", "release", "remove", "acquire", "exists", "open_w", "dump", "release",
     "acquire", "exists", "open_r", "load", "open_w", "dump", "release"] := by decide +kernel

/-! ## Crash states -/

/-- Every state a crash can leave is harmless: the empty file and every prefix (strict or not) of a
    dump of a fingerprint-sound object. -/
theorem crash_state_bytes_harmless (env : Env) (G : Guards)
    (hP : PickleOK env measuredPrefixExcs) (hM : coversMeasured G measuredPrefixExcs = true)
    (v : Val) (hv : Sound env v) (n : Nat) : Harmless env G ((env.pickle v).take n) := by
  have hc : ∀ e ∈ measuredPrefixExcs, CaughtRW G e := by
    intro e he
    have := List.all_eq_true.mp hM e he
    simp only [Bool.and_eq_true, Bool.or_eq_true, Bool.not_eq_true'] at this
    refine ⟨this.1, fun hm => ?_⟩
    rcases this.2 with h | h
    · rw [hm] at h; cases h
    · exact h
  by_cases hn : n < (env.pickle v).length
  · obtain ⟨e, he, hmem⟩ := hP.prefix_raises v n hn
    unfold Harmless; rw [he]; exact hc e hmem
  · rw [List.take_of_length_le (by omega)]
    unfold Harmless; rw [hP.roundtrip v]; exact hv

/-- **crash_states_harmless.**  A process started alone on the cache state `f0` — missing, or any prefix
    (empty … complete) of a dump of any fingerprint-sound object, i.e. also a stale or wrong-type one —
    finishes normally (not fatal), answers every query exactly as a load from the data folder, releases the
    lock and leaves the cache missing or complete, valid and up to date. -/
theorem crash_states_harmless (env : Env) (hP : PickleOK env measuredPrefixExcs)
    (v : Val) (hv : Sound env v) (n : Nat) (f0 : Option Bytes)
    (hf : f0 = none ∨ f0 = some ((env.pickle v).take n)) :
    (∃ k sh p, runSeq env quickG k { file := f0, lock := none } (initProc quickG [0]) = (sh, p) ∧
        p.pc = .done ∧ p.answers = disabledAnswers env [0] ∧ sh.lock = none ∧
        (sh.file = none ∨ ∃ b, sh.file = some b ∧ Valid env b)) ∧
    (∀ qs, ∃ k sh p, runSeq env configG k { file := f0, lock := none } (initProc configG qs) = (sh, p) ∧
        p.pc = .done ∧ p.answers = disabledAnswers env qs ∧ sh.lock = none ∧
        (sh.file = none ∨ ∃ b, sh.file = some b ∧ Valid env b)) := by
  have hsafe : ∀ G, coversMeasured G measuredPrefixExcs = true → FileSafe env G f0 := by
    intro G hM b hb
    rcases hf with h | h
    · rw [h] at hb; cases hb
    · rw [h] at hb; cases hb; exact crash_state_bytes_harmless env G hP hM v hv n
  refine ⟨?_, fun qs => ?_⟩
  · exact seq_run env quickG measuredPrefixExcs guards_wf.1 hP caught_covers.1 f0 (hsafe _ caught_covers.1) [0]
      (Or.inr ⟨by simp, shapes.1⟩)
  · exact seq_run env configG measuredPrefixExcs guards_wf.2 hP caught_covers.2 f0 (hsafe _ caught_covers.2) qs
      (Or.inl ⟨shapes.2.2.2.1, shapes.2.2.2.2⟩)

/-- **answers_equal_disabled.**  Whatever harmless state the cache is in, the answers of a start equal the
    answers of a start with the cache disabled (`disabledAnswers`: every query loaded from the data folder):
    a cached object is used only if `isinstance ∧ fingerprint = current`. -/
theorem answers_equal_disabled (env : Env) (G : Guards) (hG : G = quickG ∨ G = configG)
    (hP : PickleOK env measuredPrefixExcs) (f0 : Option Bytes) (h0 : FileSafe env G f0) (qs : List Nat)
    (hq : G = quickG → qs = [0]) :
    ∃ k, (runSeq env G k { file := f0, lock := none } (initProc G qs)).2.pc = .done ∧
         (runSeq env G k { file := f0, lock := none } (initProc G qs)).2.answers = disabledAnswers env qs := by
  rcases hG with rfl | rfl
  · obtain ⟨k, sh, p, h, h1, h2, _⟩ := seq_run env quickG measuredPrefixExcs guards_wf.1 hP caught_covers.1 f0 h0 qs
      (Or.inr ⟨by rw [hq rfl]; simp, shapes.1⟩)
    exact ⟨k, by rw [h]; exact h1, by rw [h]; exact h2⟩
  · obtain ⟨k, sh, p, h, h1, h2, _⟩ := seq_run env configG measuredPrefixExcs guards_wf.2 hP caught_covers.2 f0 h0 qs
      (Or.inl ⟨shapes.2.2.2.1, shapes.2.2.2.2⟩)
    exact ⟨k, by rw [h]; exact h1, by rw [h]; exact h2⟩

/-! ## Concurrent starts -/

/-- **schedule_safe.**  For every number of processes (`queries.length`), every initial harmless cache state
    and EVERY schedule (any interleaving of the processes' atomic actions, any process killed at any point,
    a kill inside `pickle.dump` leaving any prefix; any lock / open / write failing with an I/O error of `ioExcs`,
    `pickle.dump` failing after any prefix — read-only or full cache folder, lock time-out): in every reachable state no process is fatal, every
    answer given so far is the answer of a load from the data folder, a finished process has answered all
    its queries so, and the cache file is again harmless (so the next start is covered too). -/
theorem schedule_safe (env : Env) (G : Guards) (hG : G = quickG ∨ G = configG)
    (hP : PickleOK env measuredPrefixExcs) (f0 : Option Bytes) (h0 : FileSafe env G f0)
    (queries : List (List Nat)) (sched : List Lbl) (hnw : ∀ l ∈ sched, l.isWipe = false) (s : St)
    (hrun : runSched env G (initSt G f0 queries) sched = some s) :
    (∀ p ∈ s.procs, ProcSafe env p) ∧ FileSafe env G s.sh.file ∧ s.procs.map (·.asked) = queries := by
  rcases hG with rfl | rfl
  · exact sched_inv env quickG measuredPrefixExcs guards_wf.1 hP caught_covers.1 f0 h0 queries sched hnw s hrun
  · exact sched_inv env configG measuredPrefixExcs guards_wf.2 hP caught_covers.2 f0 h0 queries sched hnw s hrun

/-- **schedule_terminates.**  Every schedule is finite (bounded by the initial measure: no livelock), and as
    long as some process is unfinished some process can act (no deadlock on the file lock) — so every maximal
    schedule ends with every process `done` (or killed), and by `schedule_safe` none fatal. -/
theorem schedule_terminates (env : Env) (G : Guards) (hG : G = quickG ∨ G = configG)
    (hP : PickleOK env measuredPrefixExcs) (f0 : Option Bytes) (h0 : FileSafe env G f0)
    (queries : List (List Nat)) (sched : List Lbl) (hnw : ∀ l ∈ sched, l.isWipe = false) (s : St)
    (hrun : runSched env G (initSt G f0 queries) sched = some s) :
    sched.length ≤ (initSt G f0 queries).totalMeasure ∧
    ((∃ p ∈ s.procs, p.pc.terminal = false) → ∃ i, (gstep env G s (.run i)).isSome = true) := by
  refine ⟨?_, fun hl => ?_⟩
  · have h := sched_length_le env G _ _ sched hrun
    have hf : sched.filter (fun l => !l.isWipe) = sched :=
      List.filter_eq_self.mpr (fun l hl => by simp [hnw l hl])
    rw [hf] at h; omega
  · rcases hG with rfl | rfl
    · exact sched_progress env quickG measuredPrefixExcs guards_wf.1 hP caught_covers.1 f0 h0 queries sched hnw s hrun hl
    · exact sched_progress env configG measuredPrefixExcs guards_wf.2 hP caught_covers.2 f0 h0 queries sched hnw s hrun hl

/-- the generated guards catch every `Exception` (they are `except Exception`) and every raise site is in its `try` -/
theorem guards_catch_all : CatchAll quickG ∧ CatchAll configG := by
  refine ⟨⟨fun e he => ?_, ?_⟩, ⟨fun e he => ?_, ?_⟩⟩
  · simpa [quickG, Generated.CacheGuards.quickLoader, Generated.CacheGuards.quickWriter, Exc.caughtBy] using he
  · decide
  · simpa [configG, Generated.CacheGuards.configLoader, Generated.CacheGuards.configWriter, Exc.caughtBy] using he
  · decide

/-- **never_fatal.**  Whatever is in the cache file (garbage included), whoever removes the cache folder at whatever
    moment (`wipe`: an SPSDK process running with SPSDK_CACHE_DISABLED `rmtree`s it, breaking the lock of whoever holds
    it), whichever lock / open / write fails with an I/O error (read-only or full folder, time-out), whoever is
    killed: no process of any schedule is ever fatal — provided only that `pickle.load` raises nothing but
    `Exception` subclasses.  (The *answers* under `wipe` are not covered by a theorem: two writers may then share an inode.) -/
theorem never_fatal_any_schedule (env : Env) (G : Guards) (hG : G = quickG ∨ G = configG)
    (hR : RaisesOnlyExceptions env) (f0 : Option Bytes) (queries : List (List Nat)) (sched : List Lbl) (s : St)
    (hrun : runSched env G (initSt G f0 queries) sched = some s) :
    ∀ p ∈ s.procs, ∀ e, p.pc ≠ .fatal e := by
  rcases hG with rfl | rfl
  · exact never_fatal env quickG guards_catch_all.1 hR f0 queries sched s hrun
  · exact never_fatal env configG guards_catch_all.2 hR f0 queries sched s hrun

/-! ## The fingerprint sees every configured data folder -/

/-- shape obligations on the two fingerprint functions of the CURRENT source: an unconfigured folder is `continue`d over
    (no other exit from the loop), defaults + device names + device files are stamped with mtime and size, the call site
    hands over the three folders; the config fingerprint hashes its three path parameters and stamps every cached file -/
theorem fingerprint_shapes_wf :
    Fingerprint.wfQuickHash Generated.CacheFingerprint.quickHash = true ∧
    Fingerprint.wfConfigHash Generated.CacheFingerprint.configHash = true := by decide

/-- **Every configured folder is in the fingerprint**, wherever it stands in `[data, restricted, add-ons]` and whichever
    of the others is not configured. -/
theorem fingerprint_covers_all_folders (paths : List (Option Fingerprint.Folder)) (f : Fingerprint.Folder)
    (hf : some f ∈ paths) :
    ∀ it ∈ Fingerprint.folderItems Generated.CacheFingerprint.quickHash f,
      it ∈ Fingerprint.fpInputs Generated.CacheFingerprint.quickHash paths :=
  Fingerprint.covers _ (by decide) paths f hf

/-- **Any visible change of any configured folder changes what is hashed** (installing, updating or removing a
    device file or the defaults of the data, restricted or add-ons folder) — so, SHA-1 collisions apart, a cache made
    before the change fails the fingerprint comparison (`Sound` of the stale object holds vacuously). -/
theorem fingerprint_sees_every_change (pre post : List (Option Fingerprint.Folder)) (f f' : Fingerprint.Folder)
    (hne : Fingerprint.folderItems Generated.CacheFingerprint.quickHash f ≠
           Fingerprint.folderItems Generated.CacheFingerprint.quickHash f') :
    Fingerprint.fpInputs Generated.CacheFingerprint.quickHash (pre ++ some f :: post) ≠
    Fingerprint.fpInputs Generated.CacheFingerprint.quickHash (pre ++ some f' :: post) :=
  Fingerprint.sees_change _ (by decide) pre post f f' hne

/-- why the `continue` matters: with `break` the add-ons folder behind an unconfigured restricted folder is invisible -/
example : Fingerprint.fpInputs { Generated.CacheFingerprint.quickHash with noneAction := "break" }
      [some ⟨some 1, [("dev", some 2)]⟩, none, some ⟨none, [("dev", some 3)]⟩] =
    Fingerprint.fpInputs { Generated.CacheFingerprint.quickHash with noneAction := "break" }
      [some ⟨some 1, [("dev", some 2)]⟩, none, some ⟨none, [("dev", some 4)]⟩] := by decide

/-- … and the hypothesis of `fingerprint_sees_every_change` is satisfiable: an updated device file is a visible change -/
example : Fingerprint.folderItems Generated.CacheFingerprint.quickHash ⟨none, [("dev", some 3)]⟩ ≠
    Fingerprint.folderItems Generated.CacheFingerprint.quickHash ⟨none, [("dev", some 4)]⟩ := by decide

/-! ## Non-vacuity -/

/-- the pickle assumption is satisfiable: a concrete (computable, prefix-free) codec meets `PickleOK` -/
example : ∃ env : Env, PickleOK env measuredPrefixExcs := pickleOK_inhabited

/-- … and with it the hypothesis set of the theorems for the headline crash state (the empty file a kill right
    after `open('wb')` leaves), for both caches — so `schedule_safe` applies to e.g. three processes on it. -/
example : ∃ env : Env, PickleOK env measuredPrefixExcs ∧ FileSafe env quickG (some []) ∧ FileSafe env configG (some []) := by
  refine ⟨Codec.codecEnv, Codec.codec_pickleOK, ?_, ?_⟩
  · intro b hb
    cases hb
    simpa using crash_state_bytes_harmless Codec.codecEnv quickG Codec.codec_pickleOK caught_covers.1
      default (by intro _ e he; cases he) 0
  · intro b hb
    cases hb
    simpa using crash_state_bytes_harmless Codec.codecEnv configG Codec.codec_pickleOK caught_covers.2
      default (by intro _ e he; cases he) 0

example : (initSt quickG (some []) [[0], [0], [0]]).procs.length = 3 := by decide

/-- the missing file is harmless by definition -/
example (env : Env) : FileSafe env quickG none := by intro b hb; cases hb

/-- a stale object (wrong fingerprint, wrong entries) satisfies `Sound` — the theorems cover it -/
example : Sound Codec.codecEnv { ty := Codec.codecEnv.expectedTy, fp := Codec.codecEnv.fpOf [7] + 1, ents := [(7, Codec.codecEnv.loadCfg 7 + 1)] } := by
  intro h
  simp [keys] at h

/-- the unrepaired source did NOT satisfy the obligations: its caught tuple misses `EOFError` -/
example : Exc.caughtBy [.SPSDKError, .UnicodeDecodeError, .FileNotFoundError, .PickleError, .MemoryError] .EOFError = false := by decide
example : Exc.caughtBy [.SPSDKError, .UnicodeDecodeError, .FileNotFoundError, .PickleError, .MemoryError] .UnpicklingError = true := by decide
example : Exc.caughtBy [.SPSDKError, .UnicodeDecodeError, .FileNotFoundError, .PickleError, .MemoryError] .AssertionError = false := by decide

end SpsdkVerif.C18
