/-
C02 - Master Boot Image: signatures, CRC, HMAC and encryption pass the ROM checks.

`Spec.MbiRom.romCheck` (Spec/MbiRom.lean) is an INDEPENDENT acceptance function written from the format description with its
own constants; `spec_consts_agree` ties those constants to the ones GENERATED from the current source.  The theorems say
that it accepts every image the model (Model/Mbi.lean, tied to /repo by the C01 correspondence) exports, for every payload,
option set, key, IV and signature, and that the protected ranges are what the format defines:
  * CRC: exactly the CRC word is excluded;
  * signatures: the signed data is the whole prefix that precedes the signature (HMAC / key store taken out), nothing
    follows the signature except the manifest digest (hash of the same prefix); the certificate block inside the prefix
    announces exactly that length;
  * HMAC: first 64 bytes under AES-ECB(user key, 0^16);  encryption: AES-CTR under the derived key decrypts to the plaintext.
Certificate blocks are opaque in the MBI model: what the ROM's walk over the block answers is a hypothesis (`RomCertV1OK` /
`RomCertV21OK`).  Phase 2: the hypothesis is DISCHARGED for every block exported by the certificate-block model of C03
(Proofs/CertBlockRom.lean, composed in Proofs/MbiRomBuilt.lean) - section "certificate block from the C03 model" at the end: the image built around the block SPSDK
makes from a root-key list is accepted against the documented fuse value `Spec.rotkh`.
The X.509 chain and the RSA / ECDSA verifications are returned as obligations (discharged with `cryptography` by the harness).
-/
import SpsdkVerif.Proofs.MbiRomCrc
import SpsdkVerif.Proofs.MbiRomV1
import SpsdkVerif.Proofs.MbiRomV21
import SpsdkVerif.Proofs.MbiRomEnc
import SpsdkVerif.Proofs.MbiRomNegCrc
import SpsdkVerif.Proofs.MbiRomNegV1
import SpsdkVerif.Proofs.MbiRomNegV21
import SpsdkVerif.Proofs.MbiRomNegEnc
import SpsdkVerif.Spec.Rotkh
import SpsdkVerif.Proofs.MbiRomBuilt
import SpsdkVerif.Proofs.MbiRomVx

namespace SpsdkVerif.Properties.C02
open SpsdkVerif SpsdkVerif.Mbi
open SpsdkVerif.Generated
open SpsdkVerif.Crypto (CryptoOps CryptoLaws hmac ecbEnc ctrXor Break SigAlg PrivKey PubKey Rand)

/-- the constants of the independent ROM spec are the constants the builder uses (generated from the current source) -/
theorem spec_consts_agree :
    Spec.MbiRom.offTotalLength = IvtConsts.ivtImageLengthOffset ∧ Spec.MbiRom.offFlags = IvtConsts.ivtImageFlagsOffset
    ∧ Spec.MbiRom.offCrcOrCert = IvtConsts.ivtCrcCertificateOffset ∧ Spec.MbiRom.offLoadAddress = IvtConsts.ivtLoadAddrOffset
    ∧ Spec.MbiRom.ivtSize = IvtConsts.minIvtSize ∧ Spec.MbiRom.ivtSize = IvtConsts.minAppSize
    ∧ Spec.MbiRom.maskImageType = IvtConsts.imageTypeMask
    ∧ Spec.MbiRom.shiftSubType = IvtConsts.subTypeShift ∧ Spec.MbiRom.maskSubType = IvtConsts.subTypeMask
    ∧ Spec.MbiRom.flagImageVersion = IvtConsts.bootImageVersionFlag ∧ Spec.MbiRom.flagRelocTable = IvtConsts.relocTableFlag
    ∧ Spec.MbiRom.flagHwUserKey = IvtConsts.hwUserKeyEnFlag ∧ Spec.MbiRom.shiftTzType = IvtConsts.tzTypeShift
    ∧ Spec.MbiRom.maskTzType = IvtConsts.tzTypeMask ∧ Spec.MbiRom.flagKeyStore = IvtConsts.keyStoreFlag
    ∧ Spec.MbiRom.shiftImageVersion = IvtConsts.imgVerShift
    ∧ Spec.MbiRom.typePlain = IvtConsts.typePlainImage ∧ Spec.MbiRom.typeSignedRam = IvtConsts.typeSignedRamImage
    ∧ Spec.MbiRom.typeCrcRam = IvtConsts.typeCrcRamImage ∧ Spec.MbiRom.typeEncryptedRam = IvtConsts.typeEncryptedRamImage
    ∧ Spec.MbiRom.typeSignedXip = IvtConsts.typeSignedXipImage ∧ Spec.MbiRom.typeCrcXip = IvtConsts.typeCrcXipImage
    ∧ Spec.MbiRom.typeSignedXipNxp = IvtConsts.typeSignedXipNxpImage
    ∧ Spec.MbiRom.tzEnabled = IvtConsts.tzEnabled ∧ Spec.MbiRom.tzCustom = IvtConsts.tzCustom ∧ Spec.MbiRom.tzDisabled = IvtConsts.tzDisabled
    ∧ Spec.MbiRom.hmacOffset = IvtConsts.hmacOffset ∧ Spec.MbiRom.hmacSize = IvtConsts.hmacSize
    ∧ Spec.MbiRom.keyStoreSize = IvtConsts.keyStoreSize ∧ Spec.MbiRom.userKeySize = IvtConsts.userKeyLength
    ∧ Spec.MbiRom.userKeySize = IvtConsts.hmacKeyLength
    ∧ Spec.MbiRom.encIvtCopySize = IvtConsts.encIvtCopySize ∧ Spec.MbiRom.ivSize = IvtConsts.encIvSize
    ∧ Spec.MbiRom.ivSize = IvtConsts.ctrInitVectorSize
    ∧ IvtConsts.postEncryptLiterals = [Spec.MbiRom.ivSize, Spec.MbiRom.encIvtCopySize, Spec.MbiRom.hmacOffset]
    ∧ IvtConsts.ctrIvParseLiterals = [Spec.MbiRom.ivSize, Spec.MbiRom.hmacSize, Spec.MbiRom.encIvtCopySize, Spec.MbiRom.keyStoreSize]
    ∧ Spec.MbiRom.hmacKeyDerivation = IvtConsts.deriveHmacKeyConst ∧ Spec.MbiRom.encKeyDerivation = IvtConsts.deriveEncImageKeyConst
    ∧ Spec.MbiRom.certV1Magic = IvtConsts.certHeaderSignature ∧ Spec.MbiRom.certV1HeaderSize = IvtConsts.certHeaderSize
    ∧ Spec.MbiRom.rkhTableEntries = IvtConsts.rkhtEntries ∧ Spec.MbiRom.rkhSize = IvtConsts.rkhSize
    ∧ Spec.MbiRom.certV21Magic = IvtConsts.certV21Magic
    ∧ Spec.MbiRom.manifestMagic = IvtConsts.manifestMagic ∧ Spec.MbiRom.manifestVersion = IvtConsts.manifestFormatVersion
    ∧ Spec.MbiRom.manifestHeaderSize = IvtConsts.manifestHeaderSize
    ∧ Spec.MbiRom.manifestDigestPresent = IvtConsts.manifestDigestPresentFlag ∧ Spec.MbiRom.manifestHashMask = IvtConsts.manifestHashTypeMask
    ∧ Spec.MbiRom.crcParams.poly + 2 ^ 32 = IvtConsts.crcPolynomial ∧ Spec.MbiRom.crcParams.init = IvtConsts.crcInitialValue
    ∧ Spec.MbiRom.crcParams.xorOut = IvtConsts.crcFinalXor ∧ Spec.MbiRom.crcParams.refIn = IvtConsts.crcReverse
    ∧ Spec.MbiRom.crcParams = Crypto.Crc.crc32Mpeg2 := by decide


/-! ## the fused value: what the ROM model hashes is the documented root-of-trust hash (Spec/Rotkh.lean, property C03) -/

/-- v1: the ROM model compares SHA-256 of the 4 x 32 byte RKH table found in the image with the fuses (`romCertV1`); when that
    table is the documented table of the root keys, the compared value is `Spec.rotkh` -/
theorem mbi_rkth_eq_spec_v1 (co : CryptoOps) (ks : List Spec.Key) :
    co.hash .sha256 (Spec.rkhTableV1 co ks) = Spec.rotkh co .certBlock1 ks := by
  simp [Spec.rotkh, Spec.rotkhCa, Spec.rotkhV1, List.map_map, Function.comp_def]

/-- v2.1: the ROM model compares the hash of the single root key, or the hash (by key size) of the CTRK table found in the image,
    with the fuses (`romCertV21`); when the table is the documented one this is `Spec.rotkh` -/
theorem mbi_rkth_eq_spec_v21 (co : CryptoOps) (k : Spec.Key) (ks : List Spec.Key) :
    (if (k :: ks).length = 1 then Spec.keyHash co k else co.hash k.hashAlg (Spec.ctrkTable co (k :: ks)))
      = Spec.rotkh co .certBlock21 (k :: ks) := by
  cases ks with
  | nil => simp [Spec.rotkh, Spec.rotkhCa, Spec.rotkhV21]
  | cons k' ks' => simp [Spec.rotkh, Spec.rotkhCa, Spec.rotkhV21, List.map_map, Function.comp_def]

/-! ## class facts decided over the generated table -/

/-- the generated CRC classes carry the two CRC image types, the signed classes the signed types, the encrypted the encrypted type -/
theorem class_types_ok : ∀ c ∈ ivtClasses, crcTypeOk c = true ∧ signedTypeOk c = true := by decide +kernel

variable {co : CryptoOps} {env : Env} {c : Cls} {cfg : Cfg} {signer : Signer}

/-! ## CRC -/

/-- the stored CRC is the CRC-32/MPEG-2 (ROM's parameters) of the image with exactly the four bytes of the CRC word removed -/
theorem crc_excludes_only_itself (h : Mbi.Hyp co env c cfg signer) (hs : c.signKind = .crc) :
    ∃ e, exportImage co c cfg signer = .ok e
      ∧ Spec.MbiRom.rd32 e Spec.MbiRom.offCrcOrCert = Crypto.Crc.crc Spec.MbiRom.crcParams (Spec.MbiRom.crcInput e)
      ∧ (Spec.MbiRom.crcInput e).length + 4 = e.length
      ∧ (∀ i, i < 0x28 → (Spec.MbiRom.crcInput e)[i]? = e[i]?)
      ∧ (∀ i, 0x28 ≤ i → (Spec.MbiRom.crcInput e)[i]? = e[i + 4]?) := Mbi.crc_excludes_only_itself h hs

theorem rom_accepts_crc (h : Mbi.Hyp co env c cfg signer) (hs : c.signKind = .crc) (ht : crcTypeOk c = true)
    (rkth : Mbi.Bytes) (uk : Option Mbi.Bytes) :
    ∃ e a, exportImage co c cfg signer = .ok e ∧ Spec.MbiRom.romCheck co (romEnvOf c rkth uk) e = .ok a :=
  Mbi.rom_accepts_crc h hs ht rkth uk

theorem rom_accepts_plain (h : Mbi.Hyp co env c cfg signer) (hf : c.family = some .plain) (ht : c.imageType = 0)
    (rkth : Mbi.Bytes) (uk : Option Mbi.Bytes) :
    ∃ e a, exportImage co c cfg signer = .ok e ∧ Spec.MbiRom.romCheck co (romEnvOf c rkth uk) e = .ok a :=
  Mbi.rom_accepts_plain h hf ht rkth uk

/-! ## RSA signed (certificate block v1), with and without HMAC / key store -/

theorem signed_range_is_prefix_v1 (h : Mbi.Hyp co env c cfg signer) (hf : c.family = some .signedV1) :
    ∃ e pre, exportImage co c cfg signer = .ok e
      ∧ bodyOf c cfg e = pre ++ signer pre
      ∧ pre.length = (totalLenForCertBlock c cfg).toNat
      ∧ slice pre (appLen c cfg) (appLen c cfg + cfg.cert.length) = certInImage c cfg
      ∧ rd32 (certInImage c cfg) certImageLengthOffset = pre.length := Mbi.signed_range_is_prefix_signedV1 h hf

theorem hmac_covers_header (h : Mbi.Hyp co env c cfg signer) (hf : c.family = some .signedV1)
    (hh : c.has .Mbi_MixinHmac = true) :
    ∃ e k, exportImage co c cfg signer = .ok e ∧ cfg.hmacKey = some k
      ∧ slice e IvtConsts.hmacOffset (IvtConsts.hmacOffset + IvtConsts.hmacSize)
          = hmac co .sha256 (ecbEnc co k Spec.MbiRom.hmacKeyDerivation) (e.take IvtConsts.hmacOffset)
      ∧ slice e (IvtConsts.hmacOffset + IvtConsts.hmacSize)
          (IvtConsts.hmacOffset + IvtConsts.hmacSize + (cfg.keyStore.getD []).length) = cfg.keyStore.getD [] :=
  Mbi.hmac_covers_header_signedV1 h hf hh

theorem rom_accepts_signed_v1 (h : Mbi.Hyp co env c cfg signer) (hf : c.family = some .signedV1) (ht : signedTypeOk c = true)
    (rkth : Mbi.Bytes) (certs : List (Nat × Nat)) (table : List Mbi.Bytes)
    (hrom : RomCertV1OK co (romEnvOf c rkth cfg.hmacKey) cfg.cert certs table) :
    ∃ e a last, exportImage co c cfg signer = .ok e
      ∧ Spec.MbiRom.romCheck co (romEnvOf c rkth cfg.hmacKey) e = .ok a
      ∧ (certs.map (fun p => (appLen c cfg + p.1, p.2))).getLast? = some last
      ∧ a.obligations = [.x509Chain (certs.map (fun p => (appLen c cfg + p.1, p.2))) table,
                         .rsaByCert last (totalLenForCertBlock c cfg).toNat]
      ∧ a.stripped = (if c.has .Mbi_MixinHmac then IvtConsts.hmacSize + (cfg.keyStore.getD []).length else 0) :=
  Mbi.rom_accepts_signedV1 h hf ht rkth certs table hrom

/-! ## ECC signed (certificate block v2.1) with manifest -/

theorem signed_range_is_prefix_v21 (h : Mbi.Hyp co env c cfg signer) (hf : c.family = some .signedV21) :
    ∃ e pre, exportImage co c cfg signer = .ok e
      ∧ e = pre ++ signer pre ++ (match cfg.digest with | some a => co.hash a pre | none => [])
      ∧ (rd32 e IvtConsts.ivtCrcCertificateOffset + cfg.cert.length ≤ pre.length)
      ∧ pre.take (rd32 e IvtConsts.ivtCrcCertificateOffset)
          = updateIvt c cfg (appData cfg) (totalLen c cfg).toNat (appLen c cfg) := Mbi.signed_range_is_prefix_signedV21 h hf

theorem rom_accepts_signed_v21 (h : Mbi.Hyp co env c cfg signer) (hf : c.family = some .signedV21) (ht : signedTypeOk c = true)
    (rkth : Mbi.Bytes) (uk : Option Mbi.Bytes) (signPub : Mbi.Bytes) (obs : Mbi.Bytes → Nat → List Spec.MbiRom.Obligation)
    (hrom : RomCertV21OK co (romEnvOf c rkth uk) cfg.cert cfg.sigLen signPub obs) :
    ∃ e pre a, exportImage co c cfg signer = .ok e
      ∧ e = pre ++ signer pre ++ (match cfg.digest with | some a => co.hash a pre | none => [])
      ∧ Spec.MbiRom.romCheck co (romEnvOf c rkth uk) e = .ok a
      ∧ a.obligations = obs e (appLen c cfg) ++ [.ecdsa signPub pre (signer pre)] :=
  Mbi.rom_accepts_signedV21 h hf ht rkth uk signPub obs hrom

/-- with a signer that signs (`co.sign` under a key whose public part is the block's signing key) the image obligation holds:
    the ROM's ECDSA check of the image signature succeeds - by `CryptoLaws.verify_sign`, no idealisation -/
theorem image_signature_verifies (laws : CryptoLaws co) (alg : Crypto.SigAlg) (sk r pre : Mbi.Bytes) :
    co.verify alg (co.pubOf sk) pre (co.sign alg sk pre r) = true := laws.verify_sign alg sk pre r

/-! ## encrypted -/

theorem decrypts_to_plain (h : Mbi.Hyp co env c cfg signer) (hf : c.family = some .encrypted) :
    ∃ e raw k, exportImage co c cfg signer = .ok e ∧ collect c cfg = .ok raw ∧ cfg.hmacKey = some k
      ∧ (let body := encBodyOf cfg e
         let off := appLen c cfg
         let ce := off + cfg.cert.length
         let key := if cfg.keyStore.isSome then k else ecbEnc co k Spec.MbiRom.encKeyDerivation
         ctrXor co key (slice body (ce + 56) (ce + 72))
            (slice body ce (ce + 56) ++ slice body 56 off ++ slice body (ce + 72) (body.length - cfg.sigLen)) = raw)
      ∧ raw.take (appData cfg).length = updateIvt c cfg (appData cfg) (encImgLen c cfg) (appLen c cfg) :=
  Mbi.decrypts_to_plain h hf

theorem signed_range_is_prefix_encrypted (h : Mbi.Hyp co env c cfg signer) (hf : c.family = some .encrypted) :
    ∃ e pre, exportImage co c cfg signer = .ok e
      ∧ encBodyOf cfg e = pre ++ signer pre
      ∧ slice pre (appLen c cfg) (appLen c cfg + cfg.cert.length) = certInImage c cfg
      ∧ rd32 (certInImage c cfg) certImageLengthOffset = pre.length := Mbi.signed_range_is_prefix_encrypted h hf

theorem rom_accepts_encrypted (h : Mbi.Hyp co env c cfg signer) (hf : c.family = some .encrypted) (ht : signedTypeOk c = true)
    (rkth : Mbi.Bytes) (certs : List (Nat × Nat)) (table : List Mbi.Bytes)
    (hrom : RomCertV1OK co (romEnvOf c rkth cfg.hmacKey) cfg.cert certs table) :
    ∃ e a raw, exportImage co c cfg signer = .ok e ∧ collect c cfg = .ok raw
      ∧ Spec.MbiRom.romCheck co (romEnvOf c rkth cfg.hmacKey) e = .ok a
      ∧ a.plain = some raw
      ∧ a.stripped = IvtConsts.hmacSize + (cfg.keyStore.getD []).length :=
  Mbi.rom_accepts_encrypted h hf ht rkth certs table hrom

/-! ## protected_total: every byte the ROM model's verdict depends on lies in what the builder signed / hashed / MACed -/

/-- CRC images: the ROM authenticates the whole image; the builder's CRC covers every byte except the CRC word, which is the
    check value itself.  Signed images: see `signed_range_is_prefix_*` - the prefix is signed, the signature is the check
    value, the digest is a hash of the prefix; HMAC images: the 32 HMAC bytes are the check value of the first 64 bytes which
    are also inside the signed prefix; only the key store (documented as unauthenticated) is outside.  Stated for the
    accepted result: the ROM's `authenticated` ranges are the whole image. -/
theorem protected_total_crc (h : Mbi.Hyp co env c cfg signer) (hs : c.signKind = .crc) (ht : crcTypeOk c = true)
    (rkth : Mbi.Bytes) (uk : Option Mbi.Bytes) :
    ∃ e a, exportImage co c cfg signer = .ok e ∧ Spec.MbiRom.romCheck co (romEnvOf c rkth uk) e = .ok a
      ∧ (Spec.MbiRom.crcInput e).length + 4 = e.length := by
  obtain ⟨e, he, _, hl, _⟩ := Mbi.crc_excludes_only_itself h hs
  obtain ⟨e', a, he', ha⟩ := Mbi.rom_accepts_crc h hs ht rkth uk
  have : e = e' := by rw [he] at he'; exact Except.ok.inj he'
  subst this
  exact ⟨e, a, he, ha, hl⟩

/-! ## protected_total for the signed / encrypted families: what the ROM model verifies is exactly what the builder signed -/

/-- v2.1: the ROM's image obligation is over `pre`, the bytes the builder handed to the signer; the image is `pre`, its
    signature and (optionally) the hash of `pre` - no authenticated byte lies outside what was signed -/
theorem protected_total_v21 (h : Mbi.Hyp co env c cfg signer) (hf : c.family = some .signedV21) (ht : signedTypeOk c = true)
    (rkth : Mbi.Bytes) (uk : Option Mbi.Bytes) (signPub : Mbi.Bytes) (obs : Mbi.Bytes → Nat → List Spec.MbiRom.Obligation)
    (hrom : RomCertV21OK co (romEnvOf c rkth uk) cfg.cert cfg.sigLen signPub obs) :
    ∃ e pre a, exportImage co c cfg signer = .ok e ∧ Spec.MbiRom.romCheck co (romEnvOf c rkth uk) e = .ok a
      ∧ Spec.MbiRom.Obligation.ecdsa signPub pre (signer pre) ∈ a.obligations
      ∧ e.length = pre.length + cfg.sigLen + (match cfg.digest with | some al => (co.hash al pre).length | none => 0)
      ∧ e.take pre.length = pre := by
  obtain ⟨e, pre, a, he, hform, hr, hob⟩ := Mbi.rom_accepts_signedV21 h hf ht rkth uk signPub obs hrom
  refine ⟨e, pre, a, he, hr, ?_, ?_, ?_⟩
  · rw [hob]; simp
  · rw [hform]; cases cfg.digest <;> simp [h.hsig pre] <;> omega
  · rw [hform]; simp [List.append_assoc]

/-- v1 (with or without HMAC / key store): the ROM's RSA obligation covers `body[:n]` with `n` the length of the bytes the
    builder signed, and the body is exactly those bytes followed by the signature -/
theorem protected_total_v1 (h : Mbi.Hyp co env c cfg signer) (hf : c.family = some .signedV1) (ht : signedTypeOk c = true)
    (rkth : Mbi.Bytes) (certs : List (Nat × Nat)) (table : List Mbi.Bytes)
    (hrom : RomCertV1OK co (romEnvOf c rkth cfg.hmacKey) cfg.cert certs table) :
    ∃ e pre a last, exportImage co c cfg signer = .ok e
      ∧ Spec.MbiRom.romCheck co (romEnvOf c rkth cfg.hmacKey) e = .ok a
      ∧ bodyOf c cfg e = pre ++ signer pre
      ∧ Spec.MbiRom.Obligation.rsaByCert last pre.length ∈ a.obligations := by
  obtain ⟨e, pre, he, hb, hl, _, _⟩ := Mbi.signed_range_is_prefix_signedV1 h hf
  obtain ⟨e', a, last, he', hr, _, hob, _⟩ := Mbi.rom_accepts_signedV1 h hf ht rkth certs table hrom
  have : e = e' := by rw [he] at he'; exact Except.ok.inj he'
  subst this
  exact ⟨e, pre, a, last, he, hr, hb, by rw [hob, hl]; simp⟩

/-! ## the negative side: tampering is rejected - unconditionally for CRC, as reductions to an explicit break otherwise -/

/-- CRC: ANY change of ANY single byte of an exported CRC image is rejected (CRC-32/MPEG-2 detects every single-byte error);
    the only exception the format has: a change that turns the type bits into "plain" while the stored CRC word is 0 -/
theorem bitflip_rejected_crc (h : Mbi.Hyp co env c cfg signer) (hs : c.signKind = .crc) (ht : crcTypeOk c = true)
    (rkth : Mbi.Bytes) (uk : Option Mbi.Bytes) :
    ∃ e, exportImage co c cfg signer = .ok e
      ∧ ∀ (pre suf : Mbi.Bytes) (x y : UInt8), e = pre ++ x :: suf → x ≠ y →
          ∀ a, Spec.MbiRom.romCheck co (romEnvOf c rkth uk) (pre ++ y :: suf) = .ok a →
            (Spec.MbiRom.rd32 (pre ++ y :: suf) Spec.MbiRom.offFlags &&& Spec.MbiRom.maskImageType = Spec.MbiRom.typePlain
              ∧ Spec.MbiRom.rd32 e Spec.MbiRom.offCrcOrCert = 0) := Mbi.crc_tamper_rejected h hs ht rkth uk

/-- ECC signed: a changed application byte (not a layout word) that the ROM still accepts with its ECDSA obligations holding
    is a signature forgery -/
theorem bitflip_rejected_v21 (h : Mbi.Hyp co env c cfg signer) (hf : c.family = some .signedV21) (ht : signedTypeOk c = true)
    (rkth : Mbi.Bytes) (uk : Option Mbi.Bytes) (signPub : Mbi.Bytes) (obs : Mbi.Bytes → Nat → List Spec.MbiRom.Obligation)
    (hrom : RomCertV21OK co (romEnvOf c rkth uk) cfg.cert cfg.sigLen signPub obs)
    (alg : SigAlg) (sk : PrivKey) (r : Rand) (hsigner : signer = fun m => co.sign alg sk m r) (hpub : signPub = co.pubOf sk) :
    ∃ e, exportImage co c cfg signer = .ok e
      ∧ ∀ (i : Nat) (y : UInt8), i < appLen c cfg → ¬ layoutWord i → e[i]? ≠ some y →
          ∀ a, Spec.MbiRom.romCheck co (romEnvOf c rkth uk) (e.set i y) = .ok a →
            (∀ ob ∈ a.obligations, holdsEcdsa co alg ob) → Break co :=
  Mbi.tamper_rejected_signedV21 h hf ht rkth uk signPub obs hrom alg sk r hsigner hpub

/-- RSA signed without HMAC: signature forgery -/
theorem bitflip_rejected_v1 (h : Mbi.Hyp co env c cfg signer) (hf : c.family = some .signedV1) (ht : signedTypeOk c = true)
    (hh : c.has .Mbi_MixinHmac = false)
    (rkth : Mbi.Bytes) (certs : List (Nat × Nat)) (table : List Mbi.Bytes)
    (hrom : RomCertV1OK co (romEnvOf c rkth cfg.hmacKey) cfg.cert certs table)
    (alg : SigAlg) (sk : PrivKey) (r : Rand) (certPub : Mbi.Bytes → PubKey)
    (hsigner : signer = fun m => co.sign alg sk m r)
    (hpub : ∀ last, certs.getLast? = some last → certPub (slice (certInImage c cfg) last.1 (last.1 + last.2)) = co.pubOf sk) :
    ∃ e, exportImage co c cfg signer = .ok e
      ∧ ∀ (i : Nat) (y : UInt8), i < appLen c cfg → ¬ layoutWord i → e[i]? ≠ some y →
          ∀ a, Spec.MbiRom.romCheck co (romEnvOf c rkth cfg.hmacKey) (e.set i y) = .ok a →
            (∀ ob ∈ a.obligations, holdsRsa co alg certPub (e.set i y) ob) → Break co :=
  Mbi.tamper_rejected_signedV1 h hf ht hh rkth certs table hrom alg sk r certPub hsigner hpub

/-- images with HMAC (signed load-to-RAM): a changed byte of the first 64 bytes that is still accepted is an HMAC forgery -/
theorem bitflip_rejected_hmac_header (h : Mbi.Hyp co env c cfg signer) (hf : c.family = some .signedV1) (ht : signedTypeOk c = true)
    (hh : c.has .Mbi_MixinHmac = true)
    (rkth : Mbi.Bytes) (certs : List (Nat × Nat)) (table : List Mbi.Bytes)
    (hrom : RomCertV1OK co (romEnvOf c rkth cfg.hmacKey) cfg.cert certs table) :
    ∃ e, exportImage co c cfg signer = .ok e
      ∧ ∀ (i : Nat) (y : UInt8), i < IvtConsts.hmacOffset → ¬ layoutWord i → e[i]? ≠ some y →
          ∀ a, Spec.MbiRom.romCheck co (romEnvOf c rkth cfg.hmacKey) (e.set i y) = .ok a → Break co :=
  Mbi.tamper_rejected_hmac_header h hf ht hh rkth certs table hrom

/-- images with HMAC: application bytes behind the HMAC / key-store block: signature forgery -/
theorem bitflip_rejected_v1_hmac (h : Mbi.Hyp co env c cfg signer) (hf : c.family = some .signedV1) (ht : signedTypeOk c = true)
    (hh : c.has .Mbi_MixinHmac = true)
    (rkth : Mbi.Bytes) (certs : List (Nat × Nat)) (table : List Mbi.Bytes)
    (hrom : RomCertV1OK co (romEnvOf c rkth cfg.hmacKey) cfg.cert certs table)
    (alg : SigAlg) (sk : PrivKey) (r : Rand) (certPub : Mbi.Bytes → PubKey)
    (hsigner : signer = fun m => co.sign alg sk m r)
    (hpub : ∀ last, certs.getLast? = some last → certPub (slice (certInImage c cfg) last.1 (last.1 + last.2)) = co.pubOf sk) :
    ∃ e, exportImage co c cfg signer = .ok e
      ∧ ∀ (i : Nat) (y : UInt8),
          (let strip := IvtConsts.hmacSize + (cfg.keyStore.getD []).length
           IvtConsts.hmacOffset + strip ≤ i ∧ i - strip < appLen c cfg) → e[i]? ≠ some y →
          ∀ a, Spec.MbiRom.romCheck co (romEnvOf c rkth cfg.hmacKey) (e.set i y) = .ok a →
            (∀ ob ∈ a.obligations, holdsRsa co alg certPub (bodyOf c cfg (e.set i y)) ob) → Break co :=
  Mbi.tamper_rejected_signedV1_hmac h hf ht hh rkth certs table hrom alg sk r certPub hsigner hpub

/-- encrypted: header bytes - HMAC forgery; ciphertext bytes of the application - signature forgery -/
theorem bitflip_rejected_encrypted_header (h : Mbi.Hyp co env c cfg signer) (hf : c.family = some .encrypted)
    (ht : signedTypeOk c = true) (rkth : Mbi.Bytes) (certs : List (Nat × Nat)) (table : List Mbi.Bytes)
    (hrom : RomCertV1OK co (romEnvOf c rkth cfg.hmacKey) cfg.cert certs table) :
    ∃ e, exportImage co c cfg signer = .ok e
      ∧ ∀ (i : Nat) (y : UInt8), i < IvtConsts.hmacOffset → ¬ layoutWord i → e[i]? ≠ some y →
          ∀ a, Spec.MbiRom.romCheck co (romEnvOf c rkth cfg.hmacKey) (e.set i y) = .ok a → Break co :=
  Mbi.tamper_rejected_encrypted_header h hf ht rkth certs table hrom

theorem bitflip_rejected_encrypted (h : Mbi.Hyp co env c cfg signer) (hf : c.family = some .encrypted) (ht : signedTypeOk c = true)
    (rkth : Mbi.Bytes) (certs : List (Nat × Nat)) (table : List Mbi.Bytes)
    (hrom : RomCertV1OK co (romEnvOf c rkth cfg.hmacKey) cfg.cert certs table)
    (alg : SigAlg) (sk : PrivKey) (r : Rand) (certPub : Mbi.Bytes → PubKey)
    (hsigner : signer = fun m => co.sign alg sk m r)
    (hpub : ∀ last, certs.getLast? = some last → certPub (slice (certInImage c cfg) last.1 (last.1 + last.2)) = co.pubOf sk) :
    ∃ e, exportImage co c cfg signer = .ok e
      ∧ ∀ (i : Nat) (y : UInt8),
          (let strip := IvtConsts.hmacSize + (cfg.keyStore.getD []).length
           IvtConsts.hmacOffset + strip ≤ i ∧ i - strip < appLen c cfg) → e[i]? ≠ some y →
          ∀ a, Spec.MbiRom.romCheck co (romEnvOf c rkth cfg.hmacKey) (e.set i y) = .ok a →
            (∀ ob ∈ a.obligations, holdsRsa co alg certPub (encBodyOf cfg (e.set i y)) ob) → Break co :=
  Mbi.tamper_rejected_encrypted h hf ht rkth certs table hrom alg sk r certPub hsigner hpub


/-! ## certificate block from the C03 model: the `RomCert…OK` hypotheses discharged, fuse value = `Spec.rotkh` of the root keys -/

section CertBlockModel
open SpsdkVerif.CertBlock SpsdkVerif.Rkht SpsdkVerif.Spec

/-- every well-formed v2.1 block exported by the C03 model (with or without ISK certificate) satisfies `RomCertV21OK` -/
theorem rom_cert_v21_of_model (pointOk : Mbi.Bytes → Bool) (ca : Bool) (used : Nat) (cv : Curve) (cb : CertBlockV21)
    (wf : WFv21 co pointOk ca used cv cb) (rwf : RomWF co used cv cb) (renv : Spec.MbiRom.RomEnv)
    (hrkth : renv.rkth = rotkhOfRecord co cv cb.rkr) :
    RomCertV21OK co renv (bytesV21 cb) (signerOf cv cb).1.length (signerOf cv cb).1 (fun _ _ => obsOf cb) :=
  Mbi.Built.rom_cert_v21_of_model pointOk ca used cv cb wf rwf renv hrkth

/-- every well-formed v1 block exported by the C03 model satisfies `RomCertV1OK` (for every patched `image_length`) -/
theorem rom_cert_v1_of_model (certOk : Mbi.Bytes → Bool) (cb : CertBlockV1) (wf : WFv1 certOk cb) (rwf : RomWFv1 cb)
    (renv : Spec.MbiRom.RomEnv) (hrkth : renv.rkth = co.hash .sha256 (pad4 cb.rkh).flatten) :
    RomCertV1OK co renv (bytesV1 cb) (relCerts cb.certs 32) (pad4 cb.rkh) :=
  Mbi.Built.rom_cert_v1_of_model certOk cb wf rwf renv hrkth

/-- END TO END, ECC signed: an image whose certificate block is the one SPSDK builds from the root keys `ks` (documented
    domain, any used index) is accepted by the ROM fused with the documented value `Spec.rotkh … cert_block_21 ks`; the only
    obligation left is the image signature under the selected root key - which holds when the signer signs with that key.
    No hypothesis about the certificate block remains. -/
theorem rom_accepts_signed_v21_built (h : Mbi.Hyp co env c cfg signer) (hf : c.family = some .signedV21) (ht : signedTypeOk c = true)
    (uk : Option Mbi.Bytes) (ks : List Key) (hk : KeysOK .certBlock21 ks) (used : Nat) (hu : used < ks.length)
    (r : RootKeyRecord) (hr : rkrCalculate co true ks used = .ok r)
    (hcert : cfg.cert = bytesV21 ⟨2, 1, r, none⟩)
    (alg : SigAlg) (sk : PrivKey) (rnd : Rand) (hsigner : signer = fun m => co.sign alg sk m rnd)
    (hpub : ∀ ku, ks[used]? = some ku → ku.material = co.pubOf sk ∧ cfg.sigLen = ku.material.length) :
    ∃ e pre a, exportImage co c cfg signer = .ok e
      ∧ Spec.MbiRom.romCheck co (romEnvOf c (Spec.rotkh co .certBlock21 ks) uk) e = .ok a
      ∧ a.obligations = [.ecdsa (co.pubOf sk) pre (signer pre)]
      ∧ (∀ ob ∈ a.obligations, holdsEcdsa co alg ob) :=
  Mbi.Built.rom_accepts_signed_v21_built h hf ht uk ks hk used hu r hr hcert alg sk rnd hsigner hpub

/-- END TO END, ECC signed WITH an ISK certificate - the chain  root[used] → ISK → image  with the signing root index a parameter:
    block built by `RootKeyRecord.calculate` (non-CA) from the root keys `ks` with signing root `used`, plus a well-formed ISK
    certificate.  The ROM fused with `Spec.rotkh … cert_block_21 ks` accepts the exported image; the record names index `used` and
    carries THAT root's public key; the two obligations left (ISK certificate under the carried root key, image under the ISK key)
    hold when the certificate was signed by root `used` and the image by the ISK key (`verify_sign`). -/
theorem rom_accepts_signed_v21_built_isk (h : Mbi.Hyp co env c cfg signer) (hf : c.family = some .signedV21) (ht : signedTypeOk c = true)
    (uk : Option Mbi.Bytes) (ks : List Key) (hk : KeysOK .certBlock21 ks) (used : Nat) (hu : used < ks.length)
    (r : RootKeyRecord) (hr : rkrCalculate co false ks used = .ok r)
    (pointOk : Mbi.Bytes → Bool) (i : IskCert) (wi : WFisk pointOk r.rootPublicKey.length i)
    (hsize : headerSizeV21 + (rkrBytes r).length + (iskBytes i).length < 2 ^ 32)
    (hcert : cfg.cert = bytesV21 ⟨2, 1, r, some i⟩) (hsl : cfg.sigLen = i.pubKey.length)
    (rootSk iskSk : PrivKey) (rnd rnd' : Rand) (alg : SigAlg)
    (hroot : ∀ ku, ks[used]? = some ku → ku.material = co.pubOf rootSk)
    (hisksig : ∀ cv : Curve, (∀ k ∈ ks, k.curve? = some cv) →
        i.signature = co.sign (.ecdsa cv.hashAlg) rootSk (rkrBytes r ++ iskSignedPart i) rnd')
    (hiskpub : i.pubKey = co.pubOf iskSk) (hsigner : signer = fun m => co.sign alg iskSk m rnd) :
    ∃ (e pre : Mbi.Bytes) (a : Spec.MbiRom.Accepted) (cv : Curve) (ku : Key), exportImage co c cfg signer = .ok e
      ∧ Spec.MbiRom.romCheck co (romEnvOf c (Spec.rotkh co .certBlock21 ks) uk) e = .ok a
      ∧ ks[used]? = some ku ∧ r.rootPublicKey = ku.material ∧ rkrUsed r.flags = used ∧ rkrCa r.flags = false
      ∧ a.obligations = [.ecdsa (co.pubOf rootSk) (rkrBytes r ++ iskSignedPart i) i.signature,
                         .ecdsa (co.pubOf iskSk) pre (signer pre)]
      ∧ co.verify (.ecdsa cv.hashAlg) (co.pubOf rootSk) (rkrBytes r ++ iskSignedPart i) i.signature = true
      ∧ co.verify alg (co.pubOf iskSk) pre (signer pre) = true :=
  Mbi.Built.rom_accepts_signed_v21_built_isk h hf ht uk ks hk used hu r hr pointOk i wi hsize hcert hsl rootSk iskSk rnd rnd' alg
    hroot hisksig hiskpub hsigner

/-- END TO END, RSA signed (plain signed, with HMAC / key store, or encrypted - same statement through the respective
    acceptance theorem): with a certificate block exported by the C03 model whose RKH table is the one
    `CertBlockV1.set_root_key_hash` computes from the root keys `ks`, the ROM fused with `Spec.rotkh … cert_block_1 ks`
    accepts the image; the obligations left are the X.509 chain over the certificates of the block and the RSA signature
    over the signed prefix -/
theorem rom_accepts_signed_v1_built (h : Mbi.Hyp co env c cfg signer) (hf : c.family = some .signedV1) (ht : signedTypeOk c = true)
    (ks : List Key) (hk : KeysOK .certBlock1 ks) (certOk : Mbi.Bytes → Bool) (cb : CertBlockV1) (wf : WFv1 certOk cb)
    (rwf : RomWFv1 cb) (hrkh : certBlockV1Rkh co ks = .ok cb.rkh) (hcert : cfg.cert = bytesV1 cb) :
    ∃ e a last, exportImage co c cfg signer = .ok e
      ∧ Spec.MbiRom.romCheck co (romEnvOf c (Spec.rotkh co .certBlock1 ks) cfg.hmacKey) e = .ok a
      ∧ ((relCerts cb.certs 32).map (fun p => (appLen c cfg + p.1, p.2))).getLast? = some last
      ∧ a.obligations = [.x509Chain ((relCerts cb.certs 32).map (fun p => (appLen c cfg + p.1, p.2))) (pad4 cb.rkh),
                         .rsaByCert last (totalLenForCertBlock c cfg).toNat] :=
  Mbi.Built.rom_accepts_signed_v1_built h hf ht ks hk certOk cb wf rwf hrkh hcert


theorem rom_accepts_encrypted_built (h : Mbi.Hyp co env c cfg signer) (hf : c.family = some .encrypted) (ht : signedTypeOk c = true)
    (ks : List Key) (hk : KeysOK .certBlock1 ks) (certOk : Mbi.Bytes → Bool) (cb : CertBlockV1) (wf : WFv1 certOk cb)
    (rwf : RomWFv1 cb) (hrkh : certBlockV1Rkh co ks = .ok cb.rkh) (hcert : cfg.cert = bytesV1 cb) :
    ∃ e a raw, exportImage co c cfg signer = .ok e ∧ collect c cfg = .ok raw
      ∧ Spec.MbiRom.romCheck co (romEnvOf c (Spec.rotkh co .certBlock1 ks) cfg.hmacKey) e = .ok a
      ∧ a.plain = some raw :=
  Mbi.Built.rom_accepts_encrypted_built h hf ht ks hk certOk cb wf rwf hrkh hcert

end CertBlockModel

/-! ## header-less "Vx" images (mc56f81xxx / mwct20x2): ROM model `Spec.MbiRomVx` (Spec/MbiRomVx.lean), phase 3

The export side is `Vx.exportImage` (Model/MbiVx.lean; offsets GENERATED from `Mbi_MixinBcaTable`, tied to /repo by the C01
stream `vx`); the ROM side has its own constants (`vx_spec_consts_agree`).  Certificate: the ISK certificate block is opaque
bytes in the Vx model; `VxCertOK` says it is an ISK certificate of the format and `cert_hash` is the stored 16-byte hash. -/

/-- the constants of the independent Vx ROM spec are the offsets the builder uses (generated from the current source) -/
theorem vx_spec_consts_agree :
    Spec.MbiRomVx.digestOff = IvtConsts.vxImgDigestOffset ∧ Spec.MbiRomVx.digestSize = IvtConsts.vxImgDigestSize
    ∧ Spec.MbiRomVx.sigOff = IvtConsts.vxImgSignatureOffset ∧ Spec.MbiRomVx.sigOff + Spec.MbiRomVx.sigSize = IvtConsts.vxImgBcaOffset
    ∧ Spec.MbiRomVx.bcaOff = IvtConsts.vxImgBcaOffset
    ∧ Spec.MbiRomVx.bcaOff + Spec.MbiRomVx.bcaImageLength = IvtConsts.vxImgBcaImageLengthOffset
    ∧ Spec.MbiRomVx.bcaOff + Spec.MbiRomVx.bcaFwVersion = IvtConsts.vxImgBcaFwVersionOffset
    ∧ Spec.MbiRomVx.fcfOff = IvtConsts.vxImgFcfOffset ∧ Spec.MbiRomVx.fcfOff = IvtConsts.vxImgSignedHeaderEnd
    ∧ Spec.MbiRomVx.iskOff = IvtConsts.vxImgIskOffset ∧ Spec.MbiRomVx.iskOff = IvtConsts.vxImgFcfOffset + IvtConsts.vxImgFcfSize
    ∧ Spec.MbiRomVx.iskOff + Spec.MbiRomVx.iskCertSize ≤ IvtConsts.vxImgIskHashOffset
    ∧ Spec.MbiRomVx.iskHashOff = IvtConsts.vxImgIskHashOffset ∧ Spec.MbiRomVx.iskHashSize = IvtConsts.vxImgIskHashSize
    ∧ Spec.MbiRomVx.dataStart = IvtConsts.vxImgDataStart
    ∧ Spec.MbiRomVx.iskPubOff + 2 * 32 = Spec.MbiRomVx.iskTbsSize ∧ Spec.MbiRomVx.iskTbsSize + Spec.MbiRomVx.sigSize = Spec.MbiRomVx.iskCertSize := by
  decide

/-- `vx_rom_accepts (export x)`: every complete Vx image the model exports - plain, CRC in the BCA, ECC signed - passes the
    ROM checks of its kind (the device compares the ISK hash iff the builder stores it) -/
theorem vx_rom_accepts (co : CryptoOps) (k : Vx.Kind) (cfg : Vx.Cfg) (signer : Signer) (hw : Vx.cfgWF k cfg = true)
    (hj : cfg.justHeader = false) (hs : ∀ m, (signer m).length = IvtConsts.vxImgBcaOffset - IvtConsts.vxImgSignatureOffset)
    (hh : ∀ m, (co.hash .sha256 m).length = IvtConsts.vxImgDigestSize) (hc : k = .signed → Vx.VxCertOK co cfg)
    (rootPub : Mbi.Bytes) :
    ∃ e a, Vx.exportImage co k cfg signer = .ok e
      ∧ Spec.MbiRomVx.romVx co ⟨rootPub, cfg.addHash⟩ (Vx.romKind k) e = .ok a := by
  cases k with
  | plain => exact Vx.vx_rom_accepts_plain co _ cfg signer hw
  | crc => obtain ⟨e, a, h1, h2, _⟩ := Vx.vx_rom_accepts_crc co ⟨rootPub, cfg.addHash⟩ cfg signer hw; exact ⟨e, a, h1, h2⟩
  | signed => obtain ⟨e, a, h1, h2, _⟩ := Vx.vx_rom_accepts_signed co cfg signer hw hj hs hh (hc rfl) rootPub; exact ⟨e, a, h1, h2⟩

/-- CRC: the ROM insists that the three BCA words describe the WHOLE data part (start 0xC00, up to the end of the image): the
    authenticated ranges of an accepted export are the CRC words and everything from 0xC00 on -/
theorem vx_rom_accepts_crc (co : CryptoOps) (env : Spec.MbiRomVx.VxEnv) (cfg : Vx.Cfg) (signer : Signer)
    (hw : Vx.cfgWF .crc cfg = true) :
    ∃ e a, Vx.exportImage co .crc cfg signer = .ok e ∧ Spec.MbiRomVx.romVx co env .crc e = .ok a
      ∧ a.authenticated = [(964, 976), (3072, e.length)] := Vx.vx_rom_accepts_crc co env cfg signer hw

/-- signed: accepted, and exactly two obligations are left - root key → ISK certificate (over its first 72 bytes) and ISK key →
    image over `dataToSign e` = header[0:0x360] ‖ BCA ‖ data OF THE EMITTED IMAGE with the signature the provider returned -/
theorem vx_rom_accepts_signed (co : CryptoOps) (cfg : Vx.Cfg) (signer : Signer) (hw : Vx.cfgWF .signed cfg = true)
    (hj : cfg.justHeader = false) (hs : ∀ m, (signer m).length = IvtConsts.vxImgBcaOffset - IvtConsts.vxImgSignatureOffset)
    (hh : ∀ m, (co.hash .sha256 m).length = IvtConsts.vxImgDigestSize) (hc : Vx.VxCertOK co cfg) (rootPub : Mbi.Bytes) :
    ∃ e a, Vx.exportImage co .signed cfg signer = .ok e
      ∧ Spec.MbiRomVx.romVx co ⟨rootPub, cfg.addHash⟩ .signed e = .ok a
      ∧ a.obligations = [.ecdsa rootPub (cfg.cert.take 72) (cfg.cert.drop 72),
                         .ecdsa (slice cfg.cert 8 72) (Vx.dataToSign e) (signer (Vx.dataToSign e))] :=
  Vx.vx_rom_accepts_signed co cfg signer hw hj hs hh hc rootPub

/-- … and both obligations HOLD (by `verify_sign`, no hypothesis about the signatures) when the ISK certificate is the
    root key's signature over its to-be-signed part and the image is signed with the private key of the ISK it carries -/
theorem vx_rom_obligations_hold (laws : CryptoLaws co) (cfg : Vx.Cfg) (signer : Signer) (hw : Vx.cfgWF .signed cfg = true)
    (hj : cfg.justHeader = false) (hs : ∀ m, (signer m).length = IvtConsts.vxImgBcaOffset - IvtConsts.vxImgSignatureOffset)
    (hh : ∀ m, (co.hash .sha256 m).length = IvtConsts.vxImgDigestSize) (hc : Vx.VxCertOK co cfg)
    (alg : SigAlg) (rootSk iskSk : PrivKey) (r r' : Rand)
    (hroot : cfg.cert.drop 72 = co.sign alg rootSk (cfg.cert.take 72) r')
    (hisk : slice cfg.cert 8 72 = co.pubOf iskSk) (hsigner : signer = fun m => co.sign alg iskSk m r) :
    ∃ e a, Vx.exportImage co .signed cfg signer = .ok e
      ∧ Spec.MbiRomVx.romVx co ⟨co.pubOf rootSk, cfg.addHash⟩ .signed e = .ok a
      ∧ a.obligations.length = 2 ∧ ∀ ob ∈ a.obligations, holdsEcdsa co alg ob := by
  obtain ⟨e, a, h1, h2, h3⟩ := Vx.vx_rom_accepts_signed co cfg signer hw hj hs hh hc (co.pubOf rootSk)
  refine ⟨e, a, h1, h2, by rw [h3]; rfl, ?_⟩
  intro ob hob
  rw [h3] at hob
  simp only [List.mem_cons, List.mem_nil_iff, or_false] at hob
  rcases hob with rfl | rfl
  · simp only [holdsEcdsa]; rw [hroot]; exact laws.verify_sign alg rootSk _ r'
  · simp only [holdsEcdsa]; rw [hisk, hsigner]; exact laws.verify_sign alg iskSk _ r

/-- tamper reduction, signed: a changed byte of the signed ranges (below the digest, BCA, data part) that the ROM still
    accepts with its ECDSA obligations holding is a forgery of the ISK key's signature -/
theorem vx_bitflip_rejected_signed (co : CryptoOps) (cfg : Vx.Cfg) (signer : Signer) (hw : Vx.cfgWF .signed cfg = true)
    (hj : cfg.justHeader = false) (hs : ∀ m, (signer m).length = IvtConsts.vxImgBcaOffset - IvtConsts.vxImgSignatureOffset)
    (hh : ∀ m, (co.hash .sha256 m).length = IvtConsts.vxImgDigestSize) (hc : Vx.VxCertOK co cfg) (rootPub : Mbi.Bytes)
    (alg : SigAlg) (sk : PrivKey) (r : Rand) (hsigner : signer = fun m => co.sign alg sk m r)
    (hpub : slice cfg.cert 8 72 = co.pubOf sk) :
    ∃ e, Vx.exportImage co .signed cfg signer = .ok e
      ∧ ∀ (i : Nat) (y : UInt8), Vx.vxSignedPos i → i < e.length → e[i]? ≠ some y →
          ∀ a, Spec.MbiRomVx.romVx co ⟨rootPub, cfg.addHash⟩ .signed (e.set i y) = .ok a →
            (∀ ob ∈ a.obligations, holdsEcdsa co alg ob) → Break co :=
  Vx.vx_tamper_rejected_signed co cfg signer hw hj hs hh hc rootPub alg sk r hsigner hpub

/-- … and without any key: the digest check alone makes such an accepted change a SHA-256 collision -/
theorem vx_bitflip_rejected_digest (co : CryptoOps) (cfg : Vx.Cfg) (signer : Signer) (hw : Vx.cfgWF .signed cfg = true)
    (hj : cfg.justHeader = false) (hs : ∀ m, (signer m).length = IvtConsts.vxImgBcaOffset - IvtConsts.vxImgSignatureOffset)
    (hh : ∀ m, (co.hash .sha256 m).length = IvtConsts.vxImgDigestSize) (env : Spec.MbiRomVx.VxEnv) :
    ∃ e, Vx.exportImage co .signed cfg signer = .ok e
      ∧ ∀ (i : Nat) (y : UInt8), Vx.vxSignedPos i → i < e.length → e[i]? ≠ some y →
          ∀ a, Spec.MbiRomVx.romVx co env .signed (e.set i y) = .ok a → Break co :=
  Vx.vx_tamper_digest co cfg signer hw hj hs hh env

/-- tamper, CRC: ANY change of ANY single byte of the data part is rejected - unconditionally (CRC-32/MPEG-2 burst property) -/
theorem vx_bitflip_rejected_crc (co : CryptoOps) (env : Spec.MbiRomVx.VxEnv) (cfg : Vx.Cfg) (signer : Signer)
    (hw : Vx.cfgWF .crc cfg = true) :
    ∃ e, Vx.exportImage co .crc cfg signer = .ok e
      ∧ ∀ (i : Nat) (y : UInt8), 3072 ≤ i → i < e.length → e[i]? ≠ some y →
          ∀ a, Spec.MbiRomVx.romVx co env .crc (e.set i y) ≠ .ok a := Vx.vx_tamper_rejected_crc co env cfg signer hw

/-- non-vacuity: a signed Vx configuration with a 136-byte ISK certificate of the format (magic 0x4D43, version 1) satisfies
    `cfgWF` and the decidable part of `VxCertOK` (with `addHash = false` the hash clause is empty) -/
example : ∃ cfg : Vx.Cfg, Vx.cfgWF .signed cfg = true ∧ cfg.justHeader = false ∧ cfg.addHash = false
    ∧ cfg.cert.length = Spec.MbiRomVx.iskCertSize ∧ Spec.MbiRom.rd16 cfg.cert 0 = Spec.MbiRomVx.iskMagic
    ∧ Spec.MbiRom.rd16 cfg.cert 2 = Spec.MbiRomVx.iskVersion ∧ Vx.vxSignedPos 3100 :=
  ⟨{ app := List.replicate 3200 7, lifecycle := 0x90, fwVersion := 5, cert := [0x43, 0x4D, 1, 0] ++ List.replicate 132 9,
     certHash := List.replicate 16 2, addHash := false }, by decide +kernel, rfl, rfl, by decide +kernel, by decide +kernel,
   by decide +kernel, Or.inr (Or.inr (by decide))⟩


end SpsdkVerif.Properties.C02
