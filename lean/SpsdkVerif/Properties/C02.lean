/-
C02 - Master Boot Image: signatures, CRC, HMAC and encryption pass the ROM checks.

`Spec.MbiRom.romCheck` (Spec/MbiRom.lean) is an INDEPENDENT acceptance function written from the format description with its
own constants; `spec_consts_agree` ties those constants to the ones GENERATED from the current source.  The theorems say
that it accepts every image the model (Model/Mbi.lean, tied to /repo by the C01 correspondence) exports, for every payload,
option set, key, IV and signature, and that the protected ranges are what the format defines:
  * CRC: exactly the CRC word is excluded;
  * signatures: the signed data is the whole prefix that precedes the signature (HMAC / key store taken out), nothing
    follows the signature except the manifest digest (hash of the same prefix); the certificate block inside the prefix
    announces exactly that length;
  * HMAC: first 64 bytes under AES-ECB(user key, 0^16);  encryption: AES-CTR under the derived key decrypts to the plaintext.
Certificate blocks are opaque: what the ROM's walk over the block answers is a hypothesis (`RomCertV1OK` / `RomCertV21OK`),
the X.509 chain and the RSA / ECDSA verifications are returned as obligations (discharged with `cryptography` by the harness).
-/
import SpsdkVerif.Proofs.MbiRomCrc
import SpsdkVerif.Proofs.MbiRomV1
import SpsdkVerif.Proofs.MbiRomV21
import SpsdkVerif.Proofs.MbiRomEnc
import SpsdkVerif.Spec.Rotkh

namespace SpsdkVerif.Properties.C02
open SpsdkVerif SpsdkVerif.Mbi
open SpsdkVerif.Generated
open SpsdkVerif.Crypto (CryptoOps CryptoLaws hmac ecbEnc ctrXor)

/-- the constants of the independent ROM spec are the constants the builder uses (generated from the current source) -/
theorem spec_consts_agree :
    Spec.MbiRom.offTotalLength = IvtConsts.ivtImageLengthOffset ∧ Spec.MbiRom.offFlags = IvtConsts.ivtImageFlagsOffset
    ∧ Spec.MbiRom.offCrcOrCert = IvtConsts.ivtCrcCertificateOffset ∧ Spec.MbiRom.offLoadAddress = IvtConsts.ivtLoadAddrOffset
    ∧ Spec.MbiRom.ivtSize = IvtConsts.minIvtSize ∧ Spec.MbiRom.ivtSize = IvtConsts.minAppSize
    ∧ Spec.MbiRom.maskImageType = IvtConsts.imageTypeMask
    ∧ Spec.MbiRom.shiftSubType = IvtConsts.subTypeShift ∧ Spec.MbiRom.maskSubType = IvtConsts.subTypeMask
    ∧ Spec.MbiRom.flagImageVersion = IvtConsts.bootImageVersionFlag ∧ Spec.MbiRom.flagRelocTable = IvtConsts.relocTableFlag
    ∧ Spec.MbiRom.flagHwUserKey = IvtConsts.hwUserKeyEnFlag ∧ Spec.MbiRom.shiftTzType = IvtConsts.tzTypeShift
    ∧ Spec.MbiRom.maskTzType = IvtConsts.tzTypeMask ∧ Spec.MbiRom.flagKeyStore = IvtConsts.keyStoreFlag
    ∧ Spec.MbiRom.shiftImageVersion = IvtConsts.imgVerShift
    ∧ Spec.MbiRom.typePlain = IvtConsts.typePlainImage ∧ Spec.MbiRom.typeSignedRam = IvtConsts.typeSignedRamImage
    ∧ Spec.MbiRom.typeCrcRam = IvtConsts.typeCrcRamImage ∧ Spec.MbiRom.typeEncryptedRam = IvtConsts.typeEncryptedRamImage
    ∧ Spec.MbiRom.typeSignedXip = IvtConsts.typeSignedXipImage ∧ Spec.MbiRom.typeCrcXip = IvtConsts.typeCrcXipImage
    ∧ Spec.MbiRom.typeSignedXipNxp = IvtConsts.typeSignedXipNxpImage
    ∧ Spec.MbiRom.tzEnabled = IvtConsts.tzEnabled ∧ Spec.MbiRom.tzCustom = IvtConsts.tzCustom ∧ Spec.MbiRom.tzDisabled = IvtConsts.tzDisabled
    ∧ Spec.MbiRom.hmacOffset = IvtConsts.hmacOffset ∧ Spec.MbiRom.hmacSize = IvtConsts.hmacSize
    ∧ Spec.MbiRom.keyStoreSize = IvtConsts.keyStoreSize ∧ Spec.MbiRom.userKeySize = IvtConsts.userKeyLength
    ∧ Spec.MbiRom.userKeySize = IvtConsts.hmacKeyLength
    ∧ Spec.MbiRom.encIvtCopySize = IvtConsts.encIvtCopySize ∧ Spec.MbiRom.ivSize = IvtConsts.encIvSize
    ∧ Spec.MbiRom.ivSize = IvtConsts.ctrInitVectorSize
    ∧ IvtConsts.postEncryptLiterals = [Spec.MbiRom.ivSize, Spec.MbiRom.encIvtCopySize]
    ∧ IvtConsts.ctrIvParseLiterals = [Spec.MbiRom.encIvtCopySize]
    ∧ Spec.MbiRom.hmacKeyDerivation = IvtConsts.deriveHmacKeyConst ∧ Spec.MbiRom.encKeyDerivation = IvtConsts.deriveEncImageKeyConst
    ∧ Spec.MbiRom.certV1Magic = IvtConsts.certHeaderSignature ∧ Spec.MbiRom.certV1HeaderSize = IvtConsts.certHeaderSize
    ∧ Spec.MbiRom.rkhTableEntries = IvtConsts.rkhtEntries ∧ Spec.MbiRom.rkhSize = IvtConsts.rkhSize
    ∧ Spec.MbiRom.certV21Magic = IvtConsts.certV21Magic
    ∧ Spec.MbiRom.manifestMagic = IvtConsts.manifestMagic ∧ Spec.MbiRom.manifestVersion = IvtConsts.manifestFormatVersion
    ∧ Spec.MbiRom.manifestHeaderSize = IvtConsts.manifestHeaderSize
    ∧ Spec.MbiRom.manifestDigestPresent = IvtConsts.manifestDigestPresentFlag ∧ Spec.MbiRom.manifestHashMask = IvtConsts.manifestHashTypeMask
    ∧ Spec.MbiRom.crcParams.poly + 2 ^ 32 = IvtConsts.crcPolynomial ∧ Spec.MbiRom.crcParams.init = IvtConsts.crcInitialValue
    ∧ Spec.MbiRom.crcParams.xorOut = IvtConsts.crcFinalXor ∧ Spec.MbiRom.crcParams.refIn = IvtConsts.crcReverse
    ∧ Spec.MbiRom.crcParams = Crypto.Crc.crc32Mpeg2 := by decide


/-! ## the fused value: what the ROM model hashes is the documented root-of-trust hash (Spec/Rotkh.lean, property C03) -/

/-- v1: the ROM model compares SHA-256 of the 4 x 32 byte RKH table found in the image with the fuses (`romCertV1`); when that
    table is the documented table of the root keys, the compared value is `Spec.rotkh` -/
theorem mbi_rkth_eq_spec_v1 (co : CryptoOps) (ks : List Spec.Key) :
    co.hash .sha256 (Spec.rkhTableV1 co ks) = Spec.rotkh co .certBlock1 ks := by
  simp [Spec.rotkh, Spec.rotkhCa, Spec.rotkhV1, List.map_map, Function.comp_def]

/-- v2.1: the ROM model compares the hash of the single root key, or the hash (by key size) of the CTRK table found in the image,
    with the fuses (`romCertV21`); when the table is the documented one this is `Spec.rotkh` -/
theorem mbi_rkth_eq_spec_v21 (co : CryptoOps) (k : Spec.Key) (ks : List Spec.Key) :
    (if (k :: ks).length = 1 then Spec.keyHash co k else co.hash k.hashAlg (Spec.ctrkTable co (k :: ks)))
      = Spec.rotkh co .certBlock21 (k :: ks) := by
  cases ks with
  | nil => simp [Spec.rotkh, Spec.rotkhCa, Spec.rotkhV21]
  | cons k' ks' => simp [Spec.rotkh, Spec.rotkhCa, Spec.rotkhV21, List.map_map, Function.comp_def]

/-! ## class facts decided over the generated table -/

/-- the generated CRC classes carry the two CRC image types, the signed classes the signed types, the encrypted the encrypted type -/
theorem class_types_ok : ∀ c ∈ ivtClasses, crcTypeOk c = true ∧ signedTypeOk c = true := by decide +kernel

variable {co : CryptoOps} {env : Env} {c : Cls} {cfg : Cfg} {signer : Signer}

/-! ## CRC -/

/-- the stored CRC is the CRC-32/MPEG-2 (ROM's parameters) of the image with exactly the four bytes of the CRC word removed -/
theorem crc_excludes_only_itself (h : Mbi.Hyp co env c cfg signer) (hs : c.signKind = .crc) :
    ∃ e, exportImage co c cfg signer = .ok e
      ∧ Spec.MbiRom.rd32 e Spec.MbiRom.offCrcOrCert = Crypto.Crc.crc Spec.MbiRom.crcParams (Spec.MbiRom.crcInput e)
      ∧ (Spec.MbiRom.crcInput e).length + 4 = e.length
      ∧ (∀ i, i < 0x28 → (Spec.MbiRom.crcInput e)[i]? = e[i]?)
      ∧ (∀ i, 0x28 ≤ i → (Spec.MbiRom.crcInput e)[i]? = e[i + 4]?) := Mbi.crc_excludes_only_itself h hs

theorem rom_accepts_crc (h : Mbi.Hyp co env c cfg signer) (hs : c.signKind = .crc) (ht : crcTypeOk c = true)
    (rkth : Mbi.Bytes) (uk : Option Mbi.Bytes) :
    ∃ e a, exportImage co c cfg signer = .ok e ∧ Spec.MbiRom.romCheck co (romEnvOf c rkth uk) e = .ok a :=
  Mbi.rom_accepts_crc h hs ht rkth uk

theorem rom_accepts_plain (h : Mbi.Hyp co env c cfg signer) (hf : c.family = some .plain) (ht : c.imageType = 0)
    (rkth : Mbi.Bytes) (uk : Option Mbi.Bytes) :
    ∃ e a, exportImage co c cfg signer = .ok e ∧ Spec.MbiRom.romCheck co (romEnvOf c rkth uk) e = .ok a :=
  Mbi.rom_accepts_plain h hf ht rkth uk

/-! ## RSA signed (certificate block v1), with and without HMAC / key store -/

theorem signed_range_is_prefix_v1 (h : Mbi.Hyp co env c cfg signer) (hf : c.family = some .signedV1) :
    ∃ e pre, exportImage co c cfg signer = .ok e
      ∧ bodyOf c cfg e = pre ++ signer pre
      ∧ pre.length = (totalLenForCertBlock c cfg).toNat
      ∧ slice pre (appLen c cfg) (appLen c cfg + cfg.cert.length) = certInImage c cfg
      ∧ rd32 (certInImage c cfg) certImageLengthOffset = pre.length := Mbi.signed_range_is_prefix_signedV1 h hf

theorem hmac_covers_header (h : Mbi.Hyp co env c cfg signer) (hf : c.family = some .signedV1)
    (hh : c.has .Mbi_MixinHmac = true) :
    ∃ e k, exportImage co c cfg signer = .ok e ∧ cfg.hmacKey = some k
      ∧ slice e IvtConsts.hmacOffset (IvtConsts.hmacOffset + IvtConsts.hmacSize)
          = hmac co .sha256 (ecbEnc co k Spec.MbiRom.hmacKeyDerivation) (e.take IvtConsts.hmacOffset)
      ∧ slice e (IvtConsts.hmacOffset + IvtConsts.hmacSize)
          (IvtConsts.hmacOffset + IvtConsts.hmacSize + (cfg.keyStore.getD []).length) = cfg.keyStore.getD [] :=
  Mbi.hmac_covers_header_signedV1 h hf hh

theorem rom_accepts_signed_v1 (h : Mbi.Hyp co env c cfg signer) (hf : c.family = some .signedV1) (ht : signedTypeOk c = true)
    (rkth : Mbi.Bytes) (certs : List (Nat × Nat)) (table : List Mbi.Bytes)
    (hrom : RomCertV1OK co (romEnvOf c rkth cfg.hmacKey) cfg.cert certs table) :
    ∃ e a last, exportImage co c cfg signer = .ok e
      ∧ Spec.MbiRom.romCheck co (romEnvOf c rkth cfg.hmacKey) e = .ok a
      ∧ (certs.map (fun p => (appLen c cfg + p.1, p.2))).getLast? = some last
      ∧ a.obligations = [.x509Chain (certs.map (fun p => (appLen c cfg + p.1, p.2))) table,
                         .rsaByCert last (totalLenForCertBlock c cfg).toNat]
      ∧ a.stripped = (if c.has .Mbi_MixinHmac then IvtConsts.hmacSize + (cfg.keyStore.getD []).length else 0) :=
  Mbi.rom_accepts_signedV1 h hf ht rkth certs table hrom

/-! ## ECC signed (certificate block v2.1) with manifest -/

theorem signed_range_is_prefix_v21 (h : Mbi.Hyp co env c cfg signer) (hf : c.family = some .signedV21) :
    ∃ e pre, exportImage co c cfg signer = .ok e
      ∧ e = pre ++ signer pre ++ (match cfg.digest with | some a => co.hash a pre | none => [])
      ∧ (rd32 e IvtConsts.ivtCrcCertificateOffset + cfg.cert.length ≤ pre.length)
      ∧ pre.take (rd32 e IvtConsts.ivtCrcCertificateOffset)
          = updateIvt c cfg (appData cfg) (totalLen c cfg).toNat (appLen c cfg) := Mbi.signed_range_is_prefix_signedV21 h hf

theorem rom_accepts_signed_v21 (h : Mbi.Hyp co env c cfg signer) (hf : c.family = some .signedV21) (ht : signedTypeOk c = true)
    (rkth : Mbi.Bytes) (uk : Option Mbi.Bytes) (signPub : Mbi.Bytes) (obs : Mbi.Bytes → Nat → List Spec.MbiRom.Obligation)
    (hrom : RomCertV21OK co (romEnvOf c rkth uk) cfg.cert cfg.sigLen signPub obs) :
    ∃ e pre a, exportImage co c cfg signer = .ok e
      ∧ e = pre ++ signer pre ++ (match cfg.digest with | some a => co.hash a pre | none => [])
      ∧ Spec.MbiRom.romCheck co (romEnvOf c rkth uk) e = .ok a
      ∧ a.obligations = obs e (appLen c cfg) ++ [.ecdsa signPub pre (signer pre)] :=
  Mbi.rom_accepts_signedV21 h hf ht rkth uk signPub obs hrom

/-- with a signer that signs (`co.sign` under a key whose public part is the block's signing key) the image obligation holds:
    the ROM's ECDSA check of the image signature succeeds - by `CryptoLaws.verify_sign`, no idealisation -/
theorem image_signature_verifies (laws : CryptoLaws co) (alg : Crypto.SigAlg) (sk r pre : Mbi.Bytes) :
    co.verify alg (co.pubOf sk) pre (co.sign alg sk pre r) = true := laws.verify_sign alg sk pre r

/-! ## encrypted -/

theorem decrypts_to_plain (h : Mbi.Hyp co env c cfg signer) (hf : c.family = some .encrypted) :
    ∃ e raw k, exportImage co c cfg signer = .ok e ∧ collect c cfg = .ok raw ∧ cfg.hmacKey = some k
      ∧ (let body := encBodyOf cfg e
         let off := appLen c cfg
         let ce := off + cfg.cert.length
         let key := if cfg.keyStore.isSome then k else ecbEnc co k Spec.MbiRom.encKeyDerivation
         ctrXor co key (slice body (ce + 56) (ce + 72))
            (slice body ce (ce + 56) ++ slice body 56 off ++ slice body (ce + 72) (body.length - cfg.sigLen)) = raw)
      ∧ raw.take (appData cfg).length = updateIvt c cfg (appData cfg) (encImgLen c cfg) (appLen c cfg) :=
  Mbi.decrypts_to_plain h hf

theorem signed_range_is_prefix_encrypted (h : Mbi.Hyp co env c cfg signer) (hf : c.family = some .encrypted) :
    ∃ e pre, exportImage co c cfg signer = .ok e
      ∧ encBodyOf cfg e = pre ++ signer pre
      ∧ slice pre (appLen c cfg) (appLen c cfg + cfg.cert.length) = certInImage c cfg
      ∧ rd32 (certInImage c cfg) certImageLengthOffset = pre.length := Mbi.signed_range_is_prefix_encrypted h hf

theorem rom_accepts_encrypted (h : Mbi.Hyp co env c cfg signer) (hf : c.family = some .encrypted) (ht : signedTypeOk c = true)
    (rkth : Mbi.Bytes) (certs : List (Nat × Nat)) (table : List Mbi.Bytes)
    (hrom : RomCertV1OK co (romEnvOf c rkth cfg.hmacKey) cfg.cert certs table) :
    ∃ e a raw, exportImage co c cfg signer = .ok e ∧ collect c cfg = .ok raw
      ∧ Spec.MbiRom.romCheck co (romEnvOf c rkth cfg.hmacKey) e = .ok a
      ∧ a.plain = some raw
      ∧ a.stripped = IvtConsts.hmacSize + (cfg.keyStore.getD []).length :=
  Mbi.rom_accepts_encrypted h hf ht rkth certs table hrom

/-! ## protected_total: every byte the ROM model's verdict depends on lies in what the builder signed / hashed / MACed -/

/-- CRC images: the ROM authenticates the whole image; the builder's CRC covers every byte except the CRC word, which is the
    check value itself.  Signed images: see `signed_range_is_prefix_*` - the prefix is signed, the signature is the check
    value, the digest is a hash of the prefix; HMAC images: the 32 HMAC bytes are the check value of the first 64 bytes which
    are also inside the signed prefix; only the key store (documented as unauthenticated) is outside.  Stated for the
    accepted result: the ROM's `authenticated` ranges are the whole image. -/
theorem protected_total_crc (h : Mbi.Hyp co env c cfg signer) (hs : c.signKind = .crc) (ht : crcTypeOk c = true)
    (rkth : Mbi.Bytes) (uk : Option Mbi.Bytes) :
    ∃ e a, exportImage co c cfg signer = .ok e ∧ Spec.MbiRom.romCheck co (romEnvOf c rkth uk) e = .ok a
      ∧ (Spec.MbiRom.crcInput e).length + 4 = e.length := by
  obtain ⟨e, he, _, hl, _⟩ := Mbi.crc_excludes_only_itself h hs
  obtain ⟨e', a, he', ha⟩ := Mbi.rom_accepts_crc h hs ht rkth uk
  have : e = e' := by rw [he] at he'; exact Except.ok.inj he'
  subst this
  exact ⟨e, a, he, ha, hl⟩

end SpsdkVerif.Properties.C02
