/-
Property C03 — the root-of-trust value and the certificate blocks are a pure function of the root keys.

Model: Model/Rkht.lean (every tool path, statement by statement, constants generated from the current source),
       Model/CertBlock.lean (CertBlockV1 / CertBlockV21 / RootKeyRecord / IskCertificate codecs).
Spec : Spec/Rotkh.lean (the documented construction over raw key material, hand transcribed).
`c : CryptoOps` is arbitrary; `CryptoLaws c` is used only for the digest lengths (`hash_len`) and, in
`isk_signature_verifies`, for `verify_sign`.  Keys are numbers; the CA attribute AHAB / HAB copy into their
records is an explicit input.
-/
import SpsdkVerif.Proofs.Rkht
import SpsdkVerif.Proofs.CertBlock
import SpsdkVerif.Proofs.CertBlockRom
import SpsdkVerif.Proofs.HabSrk
import SpsdkVerif.Proofs.CertBlockCanon
import SpsdkVerif.Proofs.CertBlockSb2

namespace SpsdkVerif.C03
open SpsdkVerif SpsdkVerif.Spec SpsdkVerif.Rkht SpsdkVerif.CertBlock
open SpsdkVerif.Misc (beEnc leEnc leDec byteLen)
open SpsdkVerif.Crypto (HashAlg SigAlg CryptoOps CryptoLaws Bytes)

namespace Gen
export SpsdkVerif.Generated.RotTypes (RotRow rotRows rotClassTypes pfrRkhtTypes cbV1HeaderFormat cbV1HeaderWidths cbV1Signature
  cbV1Alignment cbV21HeaderFormat cbV21HeaderWidths cbV21Magic rkhtV1Slots
  rkhV1Size rkhtMaxKeys rsaHashName rkrCaBit rkrUsedShift rkrCountShift rkrCurveBits rkrParseCaMask rkrParseUsedMask
  rkrParseUsedShift rkrParseCountMask rkrParseCountShift rkrParseHashLen rkrParseCurveMask rkrHashAlg iskUserDataBit
  iskCurveBits iskNoOffsetMagic iskNoOffsetSigOffset iskParseUserDataMask iskParseKeyLen ahabTagSrkTable ahabTagSrkRecord
  ahabTagSrkData ahabSignRsaPssV1 ahabSignEcdsaV1 ahabHashTagsV1 ahabSignRsaPssV2 ahabSignEcdsaV2 ahabHashTagsV2 ahabEccKeyType
  ahabRsaKeyType ahabKeySizes ahabCaMask ahabTableVersion ahabTableVersionV2 ahabTableHash ahabTableHashV2 ahabRecordsCnt
  ahabV2ParamsLen ahabSrkDataVersion ahabEccHashByBits habTagKeyPublic habAlgPkcs1 habAlgEcdsa habEccKeyType
  habHeaderFormat habTagCrt datRsaExpLength datRsaTableLen datEccHashSizes datFlagsAlwaysBit datFlagsUsedShift
  datFlagsCountShift)
end Gen

/-! ## 1. The constants of the current source are the documented ones

Every number / table below is re-extracted from /repo on each run (tools/extract/gen_C03.py); a changed
source constant makes this theorem (and the path theorems that `decide` the same lookups) stop compiling. -/

theorem generated_constants_agree :
    -- certificate block v1 header "<4s2H6I" (canonical spelling: one code per field): "cert", major, minor, header size, flags, build, image length, count, table length
    Gen.cbV1HeaderFormat = "<4sHHIIIIII" ∧ Generated.RotTypes.cbV1HeaderSize = 32 ∧ Gen.cbV1HeaderWidths = [4, 2, 2, 4, 4, 4, 4, 4, 4] ∧
    Gen.cbV1Signature = [0x63, 0x65, 0x72, 0x74] ∧ Gen.cbV1Alignment = 16 ∧
    -- certificate block v2.1 header "<4s2HL": "chdr", minor, major, size
    Gen.cbV21HeaderFormat = "<4sHHI" ∧ Generated.RotTypes.cbV21HeaderSize = 12 ∧ Gen.cbV21HeaderWidths = [4, 2, 2, 4] ∧ Gen.cbV21Magic = [0x63, 0x68, 0x64, 0x72] ∧
    -- RKH table geometry
    Gen.rkhtV1Slots = 4 ∧ Gen.rkhV1Size = 32 ∧ Gen.rkhtMaxKeys = 4 ∧ Gen.rsaHashName = "sha256" ∧
    -- root key record flags: written (`_calculate_flags`) and read (`parse`) at the same positions
    Gen.rkrCaBit = 31 ∧ Gen.rkrUsedShift = 8 ∧ Gen.rkrCountShift = 4 ∧
    Gen.rkrCurveBits = [(0, ["NIST P-256", "p256", "secp256r1"]), (1, ["NIST P-384", "p384", "secp384r1"])] ∧
    Gen.rkrParseCaMask = 2 ^ 31 ∧ Gen.rkrParseUsedMask = 0xF00 ∧ Gen.rkrParseUsedShift = 8 ∧ Gen.rkrParseCountMask = 0xF0 ∧
    Gen.rkrParseCountShift = 4 ∧ Gen.rkrParseCurveMask = 0xF ∧ Gen.rkrParseHashLen = [(0, 32), (1, 32), (2, 48)] ∧
    Gen.rkrHashAlg = [(1, "sha256"), (2, "sha384")] ∧
    -- ISK certificate flags
    Gen.iskUserDataBit = 31 ∧ Gen.iskCurveBits = [(0, "secp256r1"), (1, "secp384r1")] ∧ Gen.iskParseUserDataMask = 2 ^ 31 ∧
    Gen.iskParseKeyLen = [(0, 32), (1, 32), (2, 48)] ∧ Gen.iskNoOffsetMagic = 0x4D43 ∧ Gen.iskNoOffsetSigOffset = 72 ∧
    -- AHAB
    Gen.ahabTagSrkTable = 0xD7 ∧ Gen.ahabTagSrkRecord = 0xE1 ∧ Gen.ahabTagSrkData = 0x5D ∧ Gen.ahabSignRsaPssV1 = 0x22 ∧
    Gen.ahabSignEcdsaV1 = 0x27 ∧ Gen.ahabSignRsaPssV2 = 0x22 ∧ Gen.ahabSignEcdsaV2 = 0x27 ∧
    Gen.ahabHashTagsV1 = [("sha256", 0), ("sha384", 1), ("sha512", 2)] ∧ Gen.ahabHashTagsV2 = [("sha256", 0), ("sha384", 1), ("sha512", 2)] ∧
    Gen.ahabCaMask = 0x80 ∧ Gen.ahabTableVersion = 0x42 ∧ Gen.ahabTableVersionV2 = 0x43 ∧ Gen.ahabTableHash = "sha256" ∧
    Gen.ahabTableHashV2 = "sha512" ∧ Gen.ahabRecordsCnt = 4 ∧ Gen.ahabV2ParamsLen = 64 ∧ Gen.ahabSrkDataVersion = 0 ∧
    Gen.ahabRsaKeyType = [(2048, 5), (3072, 6), (4096, 7)] ∧
    Gen.ahabEccHashByBits = [(256, "sha256"), (384, "sha384"), (521, "sha512")] ∧
    -- HAB
    Gen.habTagKeyPublic = 0xE1 ∧ Gen.habAlgPkcs1 = 0x21 ∧ Gen.habAlgEcdsa = 0x27 ∧ Gen.habTagCrt = 0xD7 ∧
    Gen.habHeaderFormat = ">BHB" ∧
    Gen.habEccKeyType = [("secp256r1", 0x4B), ("secp384r1", 0x4D), ("secp521r1", 0x4E)] ∧
    -- debug credential RoT meta
    Gen.datRsaExpLength = 3 ∧ Gen.datRsaTableLen = 128 ∧ Gen.datEccHashSizes = [(32, 256), (48, 384), (66, 512)] ∧
    Gen.datFlagsAlwaysBit = 31 ∧ Gen.datFlagsUsedShift = 8 ∧ Gen.datFlagsCountShift = 4 ∧
    -- dispatch tables
    Gen.rotClassTypes = [("RotCertBlockv1", "cert_block_1"), ("RotCertBlockv21", "cert_block_21"),
      ("RotSrkTableAhab", "srk_table_ahab"), ("RotSrkTableAhabV2", "srk_table_ahab_v2"), ("RotSrkTableHab", "srk_table_hab")] ∧
    Gen.pfrRkhtTypes = [("cert_block_1", "RKHTv1"), ("cert_block_21", "RKHTv21")] := by
  repeat' apply And.intro
  all_goals decide

/-- AHAB key-size codes / parameter lengths and curve codes of the source = the documented ones -/
theorem generated_ahab_tables_agree :
    (∀ code l1 l2, (code, l1, l2) ∈ [(1, 32, 32), (2, 48, 48), (3, 66, 66), (5, 256, 4), (6, 384, 4), (7, 512, 4)] →
      Gen.ahabKeySizes.lookup code = some (l1, l2)) ∧
    Gen.ahabEccKeyType.lookup "secp256r1" = some 1 ∧ Gen.ahabEccKeyType.lookup "secp384r1" = some 2 ∧
    Gen.ahabEccKeyType.lookup "secp521r1" = some 3 := by
  refine ⟨?_, by decide, by decide, by decide⟩
  intro code l1 l2 h
  simp only [List.mem_cons, Prod.mk.injEq, List.mem_nil_iff, or_false] at h
  rcases h with ⟨rfl, rfl, rfl⟩ | ⟨rfl, rfl, rfl⟩ | ⟨rfl, rfl, rfl⟩ | ⟨rfl, rfl, rfl⟩ | ⟨rfl, rfl, rfl⟩ | ⟨rfl, rfl, rfl⟩ <;> decide

def knownRotTypes : List String :=
  ["cert_block_1", "cert_block_21", "srk_table_ahab", "srk_table_ahab_v2", "srk_table_hab", "cert_block_x"]

/-- every (family, revision) row of the database names a RoT type the dispatch knows (or the MC56 `cert_block_x`,
    which has no root-key hash), and the ISK user-data limits are the documented 96 / 4 -/
theorem rot_rows_known :
    ∀ r ∈ Gen.rotRows, r.rotType ∈ knownRotTypes ∧
      (r.rotType ≠ "cert_block_x" → (RotType.ofName? r.rotType).isSome ∧
        (Gen.rotClassTypes.find? (fun p => p.2 == r.rotType)).isSome) := by
  decide +kernel

theorem rotType_name_roundtrip (t : RotType) : RotType.ofName? t.name = some t := by cases t <;> decide

/-! ## 2. Every tool path computes the documented value -/

variable (c : CryptoOps)

theorem rotkh_cb1 (ks : List Key) : Spec.rotkh c .certBlock1 ks = rotkhV1 c ks := by
  simp [Spec.rotkh, rotkhCa, List.map_map, Function.comp_def]

theorem rotkh_cb21 (ks : List Key) : Spec.rotkh c .certBlock21 ks = rotkhV21 c ks := by
  simp [Spec.rotkh, rotkhCa, List.map_map, Function.comp_def]

/-- the bytes `CertBlockV1.set_root_key_hash` hashes (`PublicKeyRsa.export()`) are the bytes `_calc_key_hash` hashes
    (`BE n ‖ BE e`, both minimal) — for EVERY modulus and exponent -/
theorem rsa_export_eq_hash_input (n e : Nat) :
    exportKey (.rsa n e) = .ok (Spec.beMin n ++ Spec.beMin e) ∧ (Key.rsa n e).material = Spec.beMin n ++ Spec.beMin e :=
  ⟨exportRsa_default n e, rfl⟩

/-- EC keys: the exported key is `X ‖ Y` at the fixed coordinate width — leading zero bytes are kept -/
theorem ecc_export_eq_hash_input (cv : Curve) (x y : Nat) (hx : x < 256 ^ cv.coordSize) (hy : y < 256 ^ cv.coordSize) :
    exportKey (.ecc cv x y) = .ok (beEnc cv.coordSize x ++ beEnc cv.coordSize y) ∧
      (beEnc cv.coordSize x ++ beEnc cv.coordSize y).length = 2 * cv.coordSize := by
  refine ⟨exportEcc_fit cv x y hx hy, ?_⟩
  simp [Misc.beEnc_length']; omega

/-- `RKHTv1.from_keys(keys).rkth()` — also `Rot(cert_block_1)`, `nxpcrypto rot calc-hash` -/
theorem path_rkhtV1_eq_spec (hc : CryptoLaws c) (ks : List Key) (h : KeysOK .certBlock1 ks) :
    pathRkhtV1 c ks = .ok (Spec.rotkh c .certBlock1 ks) := by
  rw [rotkh_cb1]; exact path_rkhtV1 c hc ks h

/-- `CertBlockV1` built from the root certificates: independent of the used index / chain / signer -/
theorem path_certBlockV1_eq_spec (hc : CryptoLaws c) (ks : List Key) (h : KeysOK .certBlock1 ks) (usedIdx : Nat) :
    pathCertBlockV1 c ks usedIdx = .ok (Spec.rotkh c .certBlock1 ks) := by
  rw [rotkh_cb1]; exact path_certBlockV1 c hc ks h usedIdx

/-- `RKHTv21.from_keys(keys).rkth()` — also `Rot(cert_block_21)` -/
theorem path_rkhtV21_eq_spec (hc : CryptoLaws c) (ks : List Key) (h : KeysOK .certBlock21 ks) :
    pathRkhtV21 c ks = .ok (Spec.rotkh c .certBlock21 ks) := by
  rw [rotkh_cb21]; exact path_rkhtV21 c hc ks h

/-- `CertBlockV21(root_certs, used_root_cert, ca_flag, isk…).calculate(); .rkth` -/
theorem path_certBlockV21_eq_spec (hc : CryptoLaws c) (ks : List Key) (h : KeysOK .certBlock21 ks)
    (usedIdx : Nat) (hu : usedIdx < ks.length) (ca : Bool) :
    pathCertBlockV21 c ks usedIdx ca = .ok (Spec.rotkh c .certBlock21 ks) := by
  rw [rotkh_cb21]; exact path_certBlockV21 c hc ks h usedIdx hu ca

/-- the same value is obtained from the BINARY root key record: calculate → export → parse → rkth
    (what `get_keys_or_rotkh_from_certblock_config` does for a binary certificate block) -/
theorem path_certBlockV21_parsed_eq_spec (hc : CryptoLaws c) (ks : List Key) (h : KeysOK .certBlock21 ks)
    (usedIdx : Nat) (hu : usedIdx < ks.length) (ca : Bool) (tail : Bytes) :
    ∃ r, rkrCalculate c ca ks usedIdx = .ok r ∧ rkrExport r = .ok (rkrBytes r) ∧
      rkrParse c (rkrBytes r ++ tail) = .ok (r, (rkrBytes r).length) ∧
      rkthV21 c r.rkh = .ok (Spec.rotkh c .certBlock21 ks) := by
  obtain ⟨h1, h4, _, _⟩ := keysOK_cb21 h
  obtain ⟨cv, ku, hcv, hku, hkc, hall, hcalc⟩ := rkrCalculate_ok c hc ks h usedIdx hu ca
  have wf := wf_calculated c hc ks cv ku usedIdx ca hcv h1 h4 hu hku hkc hall
  refine ⟨_, hcalc, rkrExport_ok wf, rkrParse_ok wf tail, ?_⟩
  rw [rotkh_cb21]
  cases ks with
  | nil => simp at h1
  | cons k0 rest => exact rkthV21_hashes c hc k0 rest (hashAlg_cases k0)

/-- PFR `_calc_rotkh`: the value left-justified to the ROTKH register width -/
theorem path_pfr_eq_spec_v1 (hc : CryptoLaws c) (ks : List Key) (h : KeysOK .certBlock1 ks) (width : Nat) (hw : 256 ≤ width) :
    pathPfr c (RotType.name .certBlock1) width ks = .ok (ljust (width / 8) (Spec.rotkh c .certBlock1 ks)) := by
  rw [rotkh_cb1]; exact path_pfr_v1 c hc ks h width hw

theorem path_pfr_eq_spec_v21 (hc : CryptoLaws c) (k0 : Key) (rest : List Key) (h : KeysOK .certBlock21 (k0 :: rest))
    (width : Nat) (hw : k0.hashAlg.size * 8 ≤ width) :
    pathPfr c (RotType.name .certBlock21) width (k0 :: rest) = .ok (ljust (width / 8) (Spec.rotkh c .certBlock21 (k0 :: rest))) := by
  rw [rotkh_cb21]; exact path_pfr_v21 c hc k0 rest h width hw

/-- `ljust` only appends zero bytes: the register starts with the documented value -/
theorem pfr_prefix (n : Nat) (b : Bytes) : (ljust n b).take b.length = b := by
  simp [ljust]

/-- debug credential, RSA (`RotMetaRSA`): the cert-block-v1 value, for exponents of exactly three bytes (65537) -/
theorem path_datRsa_eq_spec (hc : CryptoLaws c) (ks : List Key) (h : KeysOK .certBlock1 ks)
    (he : ∀ n e, Key.rsa n e ∈ ks → byteLen e = 3) : pathDatRsa c ks = .ok (Spec.rotkh c .certBlock1 ks) := by
  rw [rotkh_cb1]; exact path_datRsa c hc ks h he

/-- debug credential, EC (`RotMetaEcc` + the single-key fallback of `DebugCredentialCertificateEcc`):
    the cert-block-v2.1 construction, for every curve incl. P-521 (SHA-512) -/
theorem path_datEcc_eq_spec (hc : CryptoLaws c) (cv : Curve) (ks : List Key) (h : DatEccOK cv ks)
    (usedIdx : Nat) (hu : usedIdx < ks.length) : pathDatEcc c ks usedIdx = .ok (Spec.rotkh c .certBlock21 ks) := by
  rw [rotkh_cb21]; exact path_datEcc c hc cv ks h usedIdx hu

/-- AHAB SRK table (container version 1) -/
theorem path_ahab_eq_spec (kcs : List (Key × Bool)) (h : AhabOK kcs) :
    pathAhab c kcs = .ok (rotkhCa c .srkTableAhab kcs) := path_ahab c kcs h

/-- AHAB SRK table version 2 (SRK data hashed into the record) -/
theorem path_ahabV2_eq_spec (hc : CryptoLaws c) (kcs : List (Key × Bool)) (h : AhabOK kcs) :
    pathAhabV2 c kcs = .ok (rotkhCa c .srkTableAhabV2 kcs) := path_ahabV2 c hc kcs h

/-- HAB SRK table fuses -/
theorem path_hab_eq_spec (kcs : List (Key × Bool)) (h : ∀ kc ∈ kcs, keyOK kc.1 = true) :
    pathHab c kcs = .ok (rotkhCa c .srkTableHab kcs) := path_hab c kcs h

/-- `KeysOK` for the AHAB types + equal CA flags is the hypothesis of the AHAB path theorems -/
theorem ahabOK_of_keysOK (t : RotType) (ht : t = .srkTableAhab ∨ t = .srkTableAhabV2) (ks : List Key) (h : KeysOK t ks) (ca : Bool) :
    AhabOK (ks.map fun k => (k, ca)) := by
  have h' : ks.all keyOK = true ∧ ks.length = 4 ∧ ∃ k0 rest, ks = k0 :: rest ∧ ks.all (Key.sameKind k0) = true := by
    rcases ht with rfl | rfl <;>
    · simp only [KeysOK, keysOK, Bool.and_eq_true, decide_eq_true_eq] at h
      obtain ⟨ha, hl, hs⟩ := h
      refine ⟨ha, hl, ?_⟩
      cases ks with
      | nil => simp at hl
      | cons k0 rest => exact ⟨k0, rest, rfl, hs⟩
  obtain ⟨ha, hl, k0, rest, rfl, hs⟩ := h'
  refine ⟨by simpa using hl, ?_, k0, ca, rfl, ?_⟩
  · intro kc hkc
    obtain ⟨k, hk, rfl⟩ := List.mem_map.mp hkc
    exact List.all_eq_true.mp ha k hk
  · intro kc hkc
    obtain ⟨k, hk, rfl⟩ := List.mem_map.mp hkc
    exact ⟨List.all_eq_true.mp hs k hk, rfl⟩

/-- `Rot(family, revision, keys).calculate_hash()`: the database `rot_type` string selects the path; for every RoT type
    the result is the documented value of that type -/
theorem path_rot_eq_spec (hc : CryptoLaws c) (t : RotType) (ks : List Key) (h : KeysOK t ks) :
    pathRot c t.name (ks.map fun k => (k, false)) = .ok (Spec.rotkh c t ks) := by
  have hm : (ks.map fun k => (k, false)).map (·.1) = ks := by simp [List.map_map, Function.comp_def]
  cases t with
  | certBlock1 => rw [pathRot_cb1, hm]; exact path_rkhtV1_eq_spec c hc ks h
  | certBlock21 => rw [pathRot_cb21, hm]; exact path_rkhtV21_eq_spec c hc ks h
  | srkTableAhab => rw [pathRot_ahab]; exact path_ahab c _ (ahabOK_of_keysOK _ (Or.inl rfl) ks h false)
  | srkTableAhabV2 => rw [pathRot_ahabV2]; exact path_ahabV2 c hc _ (ahabOK_of_keysOK _ (Or.inr rfl) ks h false)
  | srkTableHab =>
    rw [pathRot_hab]
    apply path_hab
    intro kc hkc
    obtain ⟨k, hk, rfl⟩ := List.mem_map.mp hkc
    simp only [KeysOK, keysOK, Bool.and_eq_true] at h
    exact List.all_eq_true.mp h.1 k hk

/-! ## 2b. HAB SRK table entry for EC keys: the generated description of `SrkItemEcc.export` / `parse` (phase 3)

`habEccExportFields` / `habEccCoord*` / `habEccCurveRanges` / `habEccParse*` are obtained on every run by evaluating the bodies of
`SrkItemEcc.__init__`, `export`, `parse` and `get_ecc_curve` (gen_C03.probe_hab_ecc); the Spec side (`Spec.habItem`) is hand
transcribed from the HAB item layout.  The key-size field carries the size in BITS: 521 = 0x0209 for P-521, not 8 x 66 = 528. -/

/-- what the current source does, field by field -/
theorem generated_hab_ecc_description_agree :
    Generated.RotTypes.habHeaderSize = 4 ∧
    -- pack(">8B", 0, 0, 0, flag, curve_id, 0, key_size >> 8 & 0xFF, key_size & 0xFF)
    Generated.RotTypes.habEccExportFields = [(0, 0, 0), (0, 0, 0), (0, 0, 0), (1, 0, 255), (2, 0, 255), (0, 0, 0), (3, 8, 255), (3, 0, 255)] ∧
    -- coordinate_size = ceil(key_size / 8), both in the constructor and in parse
    Generated.RotTypes.habEccCoordAdd = 7 ∧ Generated.RotTypes.habEccCoordDiv = 8 ∧ Generated.RotTypes.habEccLenExtra = 8 ∧
    Generated.RotTypes.habEccParseCoordAdd = 7 ∧ Generated.RotTypes.habEccParseCoordDiv = 8 ∧
    -- unpack_from(">3BH", data, 7): flag, curve id, (unused), key size big endian; coordinates from offset 12
    Generated.RotTypes.habEccParseFlagIdx = 7 ∧ Generated.RotTypes.habEccParseCurveIdx = 8 ∧
    Generated.RotTypes.habEccParseBitsIdx = [(10, 8), (11, 0)] ∧ Generated.RotTypes.habEccParseCoordOff = 12 ∧
    -- get_ecc_curve(key_size // 8) names the key's curve for the three key sizes
    habCurveName 256 = .ok "secp256r1" ∧ habCurveName 384 = .ok "secp384r1" ∧ habCurveName 521 = .ok "secp521r1" := by
  repeat' apply And.intro
  all_goals decide

/-- for every curve (P-256 / P-384 / P-521), both CA flags and all coordinates that fit the field: the generated description of
    `SrkItemEcc(key_size, x, y, flag).export()` produces exactly the documented item `Spec.habItem`, and so does the
    `from_certificate` path of the SRK table -/
theorem hab_ecc_item_eq_spec (cv : Curve) (x y : Nat) (ca : Bool) (hx : x < 256 ^ cv.coordSize) (hy : y < 256 ^ cv.coordSize) :
    habEccExport { keySize := cv.bits, x := x, y := y, flag := caFlag ca } = .ok (Spec.habItem (.ecc cv x y) ca) ∧
    habItemExport (.ecc cv x y) ca = .ok (Spec.habItem (.ecc cv x y) ca) :=
  ⟨habEccExport_curve cv x y ca hx hy, habEccExport_curve cv x y ca hx hy⟩

/-- the key-size field (bytes 10..11 of the item) is the key size in BITS, big endian; for P-521 that is 02 09, which differs from
    eight times the coordinate size (02 10); the length field is 12 + 2 x coordinate size -/
theorem hab_ecc_key_size_in_bits (cv : Curve) (x y : Nat) (ca : Bool) :
    ((Spec.habItem (.ecc cv x y) ca).drop 10).take 2 = beEnc 2 cv.bits ∧
    ((Spec.habItem (.ecc cv x y) ca).drop 1).take 2 = beEnc 2 (12 + 2 * cv.coordSize) ∧
    (Spec.habItem (.ecc cv x y) ca).length = 12 + 2 * cv.coordSize ∧
    beEnc 2 Curve.p521.bits = [0x02, 0x09] ∧ beEnc 2 (8 * Curve.p521.coordSize) = [0x02, 0x10] := by
  refine ⟨?_, ?_, ?_, by decide, by decide⟩
  · rw [habItem_ecc_layout]; cases cv <;> rfl
  · rw [habItem_ecc_layout]; cases cv <;> rfl
  · rw [habItem_ecc_layout]; simp [Misc.beEnc_length']; omega

/-- `SrkItemEcc.parse(SrkItemEcc(...).export() ‖ rest)` gives key size (bits), X, Y and flag back -/
theorem hab_ecc_item_roundtrip (cv : Curve) (x y : Nat) (ca : Bool) (hx : x < 256 ^ cv.coordSize) (hy : y < 256 ^ cv.coordSize)
    (rest : Bytes) :
    ∃ b, habEccExport { keySize := cv.bits, x := x, y := y, flag := caFlag ca } = .ok b ∧
      habEccParse (b ++ rest) = .ok { keySize := cv.bits, x := x, y := y, flag := caFlag ca } :=
  ⟨_, habEccExport_curve cv x y ca hx hy, habEccParse_item cv x y ca hx hy rest⟩

/-- …and for EVERY item the constructor and `export` accept, not only keys on the three curves: any key size of the generated
    `get_ecc_curve(key_size // 8)` table (0..535 and 768..775 - e.g. 512..519 are written with the P-256 curve id), both flag values, all
    coordinates that fit `ceil(key_size / 8)` bytes: `parse (export item ‖ rest) = item` -/
theorem hab_ecc_item_roundtrip_any (it : HabEccItem) (b : Bytes) (h : habEccExport it = .ok b) (rest : Bytes) :
    habEccParse (b ++ rest) = .ok it :=
  habEccParse_export_any it b h rest

set_option maxRecDepth 20000 in
/-- non-vacuity: an item with the odd key size 515 (exported with the P-256 id 0x4B, 65-byte coordinates) -/
example : ∃ b, habEccExport { keySize := 515, x := 5, y := 6, flag := 0x80 } = .ok b ∧ b.length = 142 ∧ b.take 12 = [0xE1, 0, 142, 0x27, 0, 0, 0, 0x80, 0x4B, 0, 2, 3] :=
  ⟨_, rfl, by decide, by decide⟩

/-- non-vacuity: a short X (leading zero bytes) and a full-width Y on P-521 -/
example : (7 : Nat) < 256 ^ Curve.p521.coordSize ∧ (2 ^ 250 * 2 ^ 250 * 2 ^ 20 + 1 : Nat) < 256 ^ Curve.p521.coordSize := by decide +kernel

def eccEx' (cv : Curve) (d : Nat) : Key := .ecc cv (7 + d) (11 + d)

/-! ## 2c. One generated RoT-type table: every database row dispatches to a path that computes the documented value (phase 3) -/

theorem rotType_ofName_name (s : String) (t : RotType) (h : RotType.ofName? s = some t) : t.name = s := by
  unfold RotType.ofName? at h
  split at h
  next hs => cases h; exact (eq_of_beq hs).symm
  next =>
    split at h
    next hs => cases h; exact (eq_of_beq hs).symm
    next =>
      split at h
      next hs => cases h; exact (eq_of_beq hs).symm
      next =>
        split at h
        next hs => cases h; exact (eq_of_beq hs).symm
        next =>
          split at h
          next hs => cases h; exact (eq_of_beq hs).symm
          next => cases h

/-- SRK-table types (AHAB v1 / v2, HAB) with the CA flag the records carry: `Rot(...).calculate_hash()` is `Spec.rotkhCa` of the type named by
    the database string, the ordered key list and the record flags - nothing else enters (AHAB refuses tables with mixed flags) -/
theorem path_rot_srk_eq_spec (hc : CryptoLaws c) (t : RotType) (ht : t = .srkTableAhab ∨ t = .srkTableAhabV2 ∨ t = .srkTableHab)
    (kcs : List (Key × Bool)) (h : KeysOK t (kcs.map (·.1))) (ca : Bool) (hca : t ≠ .srkTableHab → ∀ kc ∈ kcs, kc.2 = ca) :
    pathRot c t.name kcs = .ok (rotkhCa c t kcs) := by
  have hmap : (∀ kc ∈ kcs, kc.2 = ca) → (kcs.map (·.1)).map (fun k => (k, ca)) = kcs := by
    intro hh
    rw [List.map_map]
    conv => rhs; rw [← List.map_id kcs]
    apply List.map_congr_left
    intro kc hkc
    simp only [Function.comp_apply, id_eq]
    rw [← hh kc hkc]
  rcases ht with rfl | rfl | rfl
  · have ok := ahabOK_of_keysOK _ (Or.inl rfl) _ h ca
    rw [hmap (hca (by decide))] at ok
    rw [pathRot_ahab]; exact path_ahab c _ ok
  · have ok := ahabOK_of_keysOK _ (Or.inr rfl) _ h ca
    rw [hmap (hca (by decide))] at ok
    rw [pathRot_ahabV2]; exact path_ahabV2 c hc _ ok
  · rw [pathRot_hab]
    apply path_hab
    intro kc hkc
    simp only [KeysOK, keysOK, Bool.and_eq_true] at h
    exact List.all_eq_true.mp h.1 kc.1 (List.mem_map.mpr ⟨kc, hkc, rfl⟩)

/-- for EVERY (family, revision) row of the database that has a root-key hash (generated table, 127 rows): its `rot_type` string names one
    of the five documented constructions, and `Rot(family, revision, keys).calculate_hash()` returns that construction's value of the
    ordered key list - the value is a function of (rot type, key sequence) alone -/
theorem rot_rows_dispatch_eq_spec (hc : CryptoLaws c) :
    ∀ r ∈ Gen.rotRows, r.rotType ≠ "cert_block_x" →
      ∃ t : RotType, RotType.ofName? r.rotType = some t ∧ t.name = r.rotType ∧
        ∀ ks, KeysOK t ks → pathRot c r.rotType (ks.map fun k => (k, false)) = .ok (Spec.rotkh c t ks) := by
  intro r hr hx
  obtain ⟨_, hk⟩ := rot_rows_known r hr
  obtain ⟨ht, _⟩ := hk hx
  obtain ⟨t, ht⟩ := Option.isSome_iff_exists.mp ht
  have hn := rotType_ofName_name _ _ ht
  refine ⟨t, ht, hn, fun ks hks => ?_⟩
  rw [← hn]; exact path_rot_eq_spec c hc t ks hks

/-- non-vacuity: a HAB table of a P-521 key flagged CA and a P-256 key without the flag -/
example : KeysOK .srkTableHab ([(eccEx' .p521 3, true), (eccEx' .p256 1, false)].map (·.1)) := by decide

/-! ## 3. Corollaries: independence of signer / ISK / used index, agreement of the tool paths -/

/-- which root key is selected, whether an ISK certificate is used (CA flag) — the value does not change -/
theorem rot_indep_signer (hc : CryptoLaws c) (ks : List Key) (h : KeysOK .certBlock21 ks)
    (u1 u2 : Nat) (h1 : u1 < ks.length) (h2 : u2 < ks.length) (ca1 ca2 : Bool) :
    pathCertBlockV21 c ks u1 ca1 = pathCertBlockV21 c ks u2 ca2 := by
  rw [path_certBlockV21_eq_spec c hc ks h u1 h1 ca1, path_certBlockV21_eq_spec c hc ks h u2 h2 ca2]

theorem rot_indep_signer_v1 (ks : List Key) (u1 u2 : Nat) : pathCertBlockV1 c ks u1 = pathCertBlockV1 c ks u2 := rfl

/-- RSA key sets: RKHT, certificate block v1, `Rot`, debug credential and (as a prefix) PFR agree -/
theorem rot_paths_agree_rsa (hc : CryptoLaws c) (ks : List Key) (h : KeysOK .certBlock1 ks)
    (he : ∀ n e, Key.rsa n e ∈ ks → byteLen e = 3) (usedIdx width : Nat) (hw : 256 ≤ width) :
    pathCertBlockV1 c ks usedIdx = pathRkhtV1 c ks ∧ pathDatRsa c ks = pathRkhtV1 c ks ∧
    pathRot c "cert_block_1" (ks.map fun k => (k, false)) = pathRkhtV1 c ks ∧
    pathPfr c "cert_block_1" width ks = (pathRkhtV1 c ks).map (ljust (width / 8)) := by
  have e := path_rkhtV1_eq_spec c hc ks h
  refine ⟨?_, ?_, ?_, ?_⟩
  · rw [e]; exact path_certBlockV1_eq_spec c hc ks h usedIdx
  · rw [e]; exact path_datRsa_eq_spec c hc ks h he
  · rw [e]; exact path_rot_eq_spec c hc .certBlock1 ks h
  · rw [e]; exact path_pfr_eq_spec_v1 c hc ks h width hw

/-- EC key sets (P-256 / P-384): RKHT, certificate block v2.1, its binary form, `Rot`, debug credential, PFR agree -/
theorem rot_paths_agree_ecc (hc : CryptoLaws c) (k0 : Key) (rest : List Key) (h : KeysOK .certBlock21 (k0 :: rest))
    (usedIdx : Nat) (hu : usedIdx < (k0 :: rest).length) (ca : Bool) (width : Nat) (hw : k0.hashAlg.size * 8 ≤ width) :
    pathCertBlockV21 c (k0 :: rest) usedIdx ca = pathRkhtV21 c (k0 :: rest) ∧
    pathDatEcc c (k0 :: rest) usedIdx = pathRkhtV21 c (k0 :: rest) ∧
    pathRot c "cert_block_21" ((k0 :: rest).map fun k => (k, false)) = pathRkhtV21 c (k0 :: rest) ∧
    pathPfr c "cert_block_21" width (k0 :: rest) = (pathRkhtV21 c (k0 :: rest)).map (ljust (width / 8)) := by
  have e := path_rkhtV21_eq_spec c hc _ h
  obtain ⟨h1, h4, hk, hcv⟩ := keysOK_cb21 h
  refine ⟨?_, ?_, ?_, ?_⟩
  · rw [e]; exact path_certBlockV21_eq_spec c hc _ h usedIdx hu ca
  · rw [e]
    rcases hcv with hcv | hcv
    · exact path_datEcc_eq_spec c hc .p256 _ ⟨h1, h4, fun k hk' => ⟨hk k hk', hcv k hk'⟩⟩ usedIdx hu
    · exact path_datEcc_eq_spec c hc .p384 _ ⟨h1, h4, fun k hk' => ⟨hk k hk', hcv k hk'⟩⟩ usedIdx hu
  · rw [e]; exact path_rot_eq_spec c hc .certBlock21 _ h
  · rw [e]; exact path_pfr_eq_spec_v21 c hc k0 rest h width hw

/-- the value depends on the keys as an ORDERED list only through the documented construction: equal inputs, equal value
    (stated for the record; order sensitivity itself is shown by `order_matters_example`) -/
theorem rot_function_of_keys (t : RotType) (ks ks' : List Key) (h : ks = ks') : Spec.rotkh c t ks = Spec.rotkh c t ks' := by
  rw [h]

/-! ## 4. Fuse words -/

/-- `CertBlockV1.rkth_fuses`: the hash cut into 4-byte groups, each read little endian — re-encoding the words
    little endian gives the hash back, there are `len / 4` words and each fits 32 bits -/
theorem rkth_fuses_le (n : Nat) (rkth : Bytes) (h : rkth.length = 4 * n) :
    ((rkthFuses rkth).map (leEnc 4)).flatten = rkth ∧ (rkthFuses rkth).length = n ∧ ∀ w ∈ rkthFuses rkth, w < 2 ^ 32 :=
  rkthFuses_le n rkth h

/-! ## 5. Certificate blocks survive export → parse -/

/-- certificate block v1: every header field (incl. `image_length`, fix C03-1), every certificate and the RKH table
    come back; the table is returned with its four slots and the alignment is the default -/
theorem certblock_v1_roundtrip (certOk : Bytes → Bool) (cb : CertBlockV1) (wf : WFv1 certOk cb) :
    ∃ data, exportV1Block true cb = .ok data ∧
      parseV1Block certOk data = .ok { cb with rkh := pad4 cb.rkh, alignment := Gen.cbV1Alignment } ∧
      (cb.alignment = Gen.cbV1Alignment →
        exportV1Block true { cb with rkh := pad4 cb.rkh, alignment := Gen.cbV1Alignment } = .ok data) ∧
      data.length % cb.alignment = 0 :=
  ⟨bytesV1 cb, exportV1Block_ok certOk cb wf, parse_exportV1 certOk cb wf, reexportV1 certOk cb wf, by
    have hl := bodyV1_len certOk cb wf
    have ha := Misc.alignNat_spec (bodyV1 cb).length cb.alignment wf.align
    simp only [bytesV1, List.length_append, List.length_replicate]
    rw [Nat.add_sub_cancel' ha.2.1]; exact ha.1⟩

/-- the RKTH of a parsed block is the RKTH of the block that was exported -/
theorem certblock_v1_rkth_preserved (cb : CertBlockV1) (hl : cb.rkh.length ≤ 4) (h32 : ∀ h ∈ cb.rkh, h.length = 32) :
    rkthV1 c (pad4 cb.rkh) = rkthV1 c cb.rkh := by
  simp only [rkthV1, exportV1_ok _ hl h32, exportV1_ok _ (by simp [pad4_len _ hl]) (pad4_32 _ h32), pad4_len _ hl]
  simp [pad4]

/-- certificate block v2.1 (root key record, optional ISK certificate): parse ∘ export = id, trailing bytes ignored -/
theorem certblock_v21_roundtrip (pointOk : Bytes → Bool) (ca : Bool) (used : Nat) (cv : Curve) (cb : CertBlockV21)
    (wf : WFv21 c pointOk ca used cv cb) (tail : Bytes) :
    ∃ data, exportV21Block cb = .ok data ∧ parseV21Block c pointOk (data ++ tail) = .ok cb :=
  ⟨bytesV21 cb, exportV21Block_ok wf, parse_exportV21 wf tail⟩

/-- root key record flags: CA bit, used root index, key count and curve nibble are recovered from the flags word
    exactly as written (all 4-bit field values; P-256 / P-384) -/
theorem rkr_flags_fields (ca : Bool) (used count : Nat) (cv : Curve) (hu : used < 16) (hn : count < 16) (hcv : cv ≠ .p521) :
    rkrCa (rkrFlags ca used count cv) = ca ∧ rkrUsed (rkrFlags ca used count cv) = used ∧
    rkrCount (rkrFlags ca used count cv) = count ∧ rkrCurve (rkrFlags ca used count cv) = curveBit cv ∧
    rkrFlags ca used count cv < 2 ^ 32 ∧ (curveBit .p256 = 1 ∧ curveBit .p384 = 2 ∧ curveBit .p521 = 0) :=
  have h := rkr_fields ca used count cv hu hn hcv
  ⟨h.1, h.2.1, h.2.2.1, h.2.2.2.1, h.2.2.2.2, by decide⟩

/-! ## 6. What the ISK signature covers -/

/-- the data handed to the signature provider is, byte for byte,
    root key record ‖ pack("<3L", signature offset, constraints, flags) ‖ ISK public key ‖ user data -/
theorem isk_signed_range (pointOk : Bytes → Bool) (n : Nat) (i : IskCert) (wf : WFisk pointOk n i) (rootKeyRecordBytes : Bytes) :
    iskDataToSign rootKeyRecordBytes i =
      .ok (rootKeyRecordBytes ++ (leEnc 4 (iskSigOffset i) ++ leEnc 4 i.constraints ++ leEnc 4 i.flags) ++ i.pubKey ++ i.userData) ∧
    iskSigOffset i = 12 + i.pubKey.length + i.userData.length := by
  refine ⟨iskDataToSign_ok pointOk n i wf rootKeyRecordBytes, ?_⟩
  simp [iskSigOffset, wf.offset]; omega

/-- …and that is exactly the slice of the exported certificate block between the 12-byte block header and the
    signature (located by the `signature_offset` field) -/
theorem isk_signed_range_in_block (pointOk : Bytes → Bool) (used : Nat) (cv : Curve) (cb : CertBlockV21) (i : IskCert)
    (wf : WFv21 c pointOk false used cv cb) (hi : cb.isk = some i) :
    iskDataToSign (rkrBytes cb.rkr) i =
      .ok (((bytesV21 cb).drop headerSizeV21).take ((rkrBytes cb.rkr).length + iskSigOffset i)) :=
  signed_slice wf hi

/-- the signature created at export verifies under the signer's public key over that range -/
theorem isk_signature_verifies (hc : CryptoLaws c) (alg : SigAlg) (sk rand keyRecord : Bytes) (i : IskCert)
    (hs : i.signature = []) (tbs : Bytes) (ht : iskDataToSign keyRecord i = .ok tbs) :
    ∃ i', iskSign c alg sk rand keyRecord i = .ok i' ∧ c.verify alg (c.pubOf sk) tbs i'.signature = true ∧
      i'.pubKey = i.pubKey ∧ i'.userData = i.userData ∧ i'.constraints = i.constraints ∧ i'.flags = i.flags := by
  refine ⟨{ i with signature := c.sign alg sk tbs rand }, ?_, hc.verify_sign alg sk tbs rand, rfl, rfl, rfl, rfl⟩
  simp only [iskSign, hs, ht, List.isEmpty_nil, Bool.not_true, Bool.false_eq_true, ↓reduceIte]
  rfl

/-! ## 6b. The exported blocks inside their containers (phase 2)

Certificate blocks are embedded in MBI, SB 2.1 and SB 3.1 files.  The theorems below are stated in the form the other
properties need: the export is self-delimiting (a parser / ROM that knows only where the block starts reads exactly
`|export cb|` bytes), and the ROM models of C02 (`Spec/MbiRom.lean`) and C05 (`Model/Sb31.lean`) accept an exported block
against the documented fuse value and report the right signing key.  They discharge `RomCertV1OK` / `RomCertV21OK`
(Proofs/MbiRomDefs.lean) and `DevOK.cert` (Model/Sb31.lean), which those properties keep as hypotheses. -/

/-- v1: `parse (export cb ‖ rest)` gives the block back whatever follows; the exported length is
    `align(32 + cert_table_length + 128, alignment)` (`raw_size` / `expected_size`), computable from the header alone -/
theorem certblock_v1_self_delimiting (certOk : Bytes → Bool) (cb : CertBlockV1) (wf : WFv1 certOk cb) (rest : Bytes) :
    parseV1Block certOk (bytesV1 cb ++ rest) = .ok { cb with rkh := pad4 cb.rkh, alignment := Gen.cbV1Alignment } ∧
    (bytesV1 cb).length = Misc.alignNat (32 + certTableLength cb.certs + 128) cb.alignment ∧
    (headerV1Parse (bytesV1 cb ++ rest)).map (·.certTableLength) = .ok (certTableLength cb.certs) := by
  refine ⟨parse_exportV1_tail certOk cb wf rest, bytesV1_length certOk cb wf, ?_⟩
  have := parse_exportV1_tail certOk cb wf rest
  generalize hpad : List.replicate (Misc.alignNat (bodyV1 cb).length cb.alignment - (bodyV1 cb).length) (0 : UInt8) = pad
  have hb : bytesV1 cb ++ rest = Gen.cbV1Signature ++ (leEnc 2 cb.major ++ (leEnc 2 cb.minor ++ (leEnc 4 32 ++ (leEnc 4 cb.flags ++
      (leEnc 4 cb.buildNumber ++ (leEnc 4 cb.imageLength ++ (leEnc 4 cb.certs.length ++
      (leEnc 4 (certTableLength cb.certs) ++ ((cb.certs.map (fun c => leEnc 4 c.length ++ c)).flatten ++
        ((pad4 cb.rkh).flatten ++ (pad ++ rest))))))))))) := by
    unfold bytesV1; rw [hpad]; simp only [bodyV1, List.append_assoc]
  rw [hb, headerV1Parse_ok certOk cb wf _]; rfl

/-- v2.1: `parse (export cb ‖ rest) = cb`, the `cert_block_size` word is the exported length, and that length is
    12 + (4 + table + root key) + (ISK: 12 + key + user data + signature) — `expected_size` -/
theorem certblock_v21_self_delimiting (pointOk : Bytes → Bool) (ca : Bool) (used : Nat) (cv : Curve) (cb : CertBlockV21)
    (wf : WFv21 c pointOk ca used cv cb) (rest : Bytes) :
    parseV21Block c pointOk (bytesV21 cb ++ rest) = .ok cb ∧
    headerV21Parse (bytesV21 cb ++ rest) = .ok (cb.major, cb.minor, (bytesV21 cb).length) ∧
    (bytesV21 cb).length = headerSizeV21 + (rkrBytes cb.rkr).length + (match cb.isk with | some i => (iskBytes i).length | none => 0) :=
  ⟨parse_exportV21 wf rest, sizeWord_bytesV21 wf rest, (bytesV21_length cb).1⟩

/-- SB 3.1 loader model of C05 (`Sb31.Rom.romCert`): a well-formed exported block whose ISK signature verifies is accepted
    against the fuse value of its root key record; the loader names the signing key (ISK if present, else the root key) -/
theorem rom_sb31_accepts_export (pointOk : Bytes → Bool) (ca : Bool) (used : Nat) (cv : Curve) (cb : CertBlockV21)
    (wf : WFv21 c pointOk ca used cv cb) (rwf : RomWF c used cv cb)
    (hsig : ∀ i, cb.isk = some i →
      c.verify (.ecdsa cv.hashAlg) cb.rkr.rootPublicKey (rkrBytes cb.rkr ++ iskSignedPart i) i.signature = true) :
    Sb31.Rom.romCert c (rotkhOfRecord c cv cb.rkr) (bytesV21 cb) =
      .ok (⟨(signerOf cv cb).1, (signerOf cv cb).2⟩,
           match cb.isk with
           | none => []
           | some i => [⟨cv.hashAlg.size, cb.rkr.rootPublicKey, rkrBytes cb.rkr ++ iskSignedPart i, i.signature⟩]) :=
  sb31_romCert_accepts wf rwf hsig

/-- MBI ROM model of C02, v2.1 block: `RomCertV21OK` holds for every well-formed exported block -/
theorem rom_mbi_v21_accepts_export (pointOk : Bytes → Bool) (ca : Bool) (used : Nat) (cv : Curve) (cb : CertBlockV21)
    (wf : WFv21 c pointOk ca used cv cb) (rwf : RomWF c used cv cb) (renv : Spec.MbiRom.RomEnv)
    (hrkth : renv.rkth = rotkhOfRecord c cv cb.rkr) :
    Mbi.RomCertV21OK c renv (bytesV21 cb) (signerOf cv cb).1.length (signerOf cv cb).1 (fun _ _ => obsOf cb) :=
  mbi_romCertV21_ok wf rwf renv hrkth

/-- MBI ROM model of C02, v1 block: `RomCertV1OK` holds for every well-formed exported block (version 1.0, ≤ 4 non-empty
    certificates, alignment 4) - for EVERY `image_length` the MBI export patches in -/
theorem rom_mbi_v1_accepts_export (certOk : Bytes → Bool) (cb : CertBlockV1) (wf : WFv1 certOk cb) (rwf : RomWFv1 cb)
    (renv : Spec.MbiRom.RomEnv) (hrkth : renv.rkth = c.hash .sha256 (pad4 cb.rkh).flatten) :
    Mbi.RomCertV1OK c renv (bytesV1 cb) (relCerts cb.certs 32) (pad4 cb.rkh) :=
  mbi_romCertV1_ok wf rwf renv hrkth

/-- END TO END, v2.1: the block SPSDK builds from root keys of the documented domain is accepted by both ROM models against
    the documented fuse value `Spec.rotkh`, and the selected root key is reported as the signer -/
theorem rom_accepts_built_v21 (hc : CryptoLaws c) (ks : List Key) (h : KeysOK .certBlock21 ks) (used : Nat) (hu : used < ks.length) :
    ∃ (r : RootKeyRecord) (cv : Curve) (ku : Key), rkrCalculate c true ks used = .ok r ∧ ks[used]? = some ku ∧
      exportV21Block ⟨2, 1, r, none⟩ = .ok (bytesV21 ⟨2, 1, r, none⟩) ∧
      Sb31.Rom.romCert c (Spec.rotkh c .certBlock21 ks) (bytesV21 ⟨2, 1, r, none⟩) = .ok (⟨ku.material, cv.hashAlg.size⟩, []) ∧
      ∀ renv : Spec.MbiRom.RomEnv, renv.rkth = Spec.rotkh c .certBlock21 ks →
        Mbi.RomCertV21OK c renv (bytesV21 ⟨2, 1, r, none⟩) ku.material.length ku.material (fun _ _ => []) :=
  built_v21_block_accepted c hc ks h used hu

/-- END TO END, v1: with the RKH table `CertBlockV1.set_root_key_hash` computes from the root keys, the MBI ROM accepts the
    block against the documented fuse value `Spec.rotkh … cert_block_1` -/
theorem rom_accepts_built_v1 (hc : CryptoLaws c) (ks : List Key) (h : KeysOK .certBlock1 ks) (certOk : Bytes → Bool)
    (cb : CertBlockV1) (wf : WFv1 certOk cb) (rwf : RomWFv1 cb) (hrkh : certBlockV1Rkh c ks = .ok cb.rkh)
    (renv : Spec.MbiRom.RomEnv) (hr : renv.rkth = Spec.rotkh c .certBlock1 ks) :
    Mbi.RomCertV1OK c renv (bytesV1 cb) (relCerts cb.certs 32) (pad4 cb.rkh) :=
  built_v1_block_accepted c hc ks h wf rwf hrkh renv hr

/-- the ISK signature created at export by the selected root key satisfies the ROM's check -/
theorem rom_isk_signature_ok (hc : CryptoLaws c) (alg : HashAlg) (sk rand : Bytes) (r : RootKeyRecord) (i : IskCert)
    (hpub : r.rootPublicKey = c.pubOf sk) (hs : i.signature = c.sign (.ecdsa alg) sk (rkrBytes r ++ iskSignedPart i) rand) :
    c.verify (.ecdsa alg) r.rootPublicKey (rkrBytes r ++ iskSignedPart i) i.signature = true :=
  isk_signature_accepted c hc alg sk rand r i hpub hs

/-! ## 6c. ISK certificate lite / certificate block Vx (MC56F8xxxx; phase 2) -/

/-- to-be-signed data = magic 0x4D43 ‖ version 1 ‖ constraints ‖ X‖Y (72 bytes); the export appends the 64-byte signature;
    parse ∘ export = id (trailing bytes ignored), and `CertBlockVx.parse` keeps certificates with constraints 0 / 1 -/
theorem isk_lite_roundtrip (pointOk : Bytes → Bool) (i : IskLite) (wf : WFlite pointOk i) (tail : Bytes) :
    liteTbs i = .ok (leEnc 2 0x4D43 ++ leEnc 2 1 ++ leEnc 4 i.constraints ++ i.pubKey) ∧
    liteExport i = .ok (liteBytes i) ∧ (liteBytes i).length = 136 ∧
    liteParse pointOk (liteBytes i ++ tail) = .ok i ∧
    ((i.constraints = 0 ∨ i.constraints = 1) → vxParse pointOk (liteBytes i ++ tail) = .ok i) := by
  refine ⟨liteTbs_ok pointOk i wf, liteExport_ok pointOk i wf, ?_, liteParse_export pointOk i wf tail,
    fun h => vxParse_export pointOk i wf h tail⟩
  simp only [liteBytes, List.length_append, CertBlock.leEnc_len, wf.pub, wf.sig]

/-- the lite certificate's signature verifies over exactly the 72 to-be-signed bytes = the exported bytes before it -/
theorem isk_lite_signature_verifies (hc : CryptoLaws c) (pointOk : Bytes → Bool) (alg : SigAlg) (sk rand : Bytes) (i : IskLite)
    (wf : WFlite pointOk i) (tbs : Bytes) (ht : liteTbs i = .ok tbs) :
    c.verify alg (c.pubOf sk) tbs (c.sign alg sk tbs rand) = true ∧ tbs = (liteBytes i).take 72 := by
  refine ⟨hc.verify_sign alg sk tbs rand, ?_⟩
  rw [liteTbs_ok pointOk i wf] at ht
  injection ht with ht
  rw [← ht, liteBytes]
  exact (List.take_left' (by simp only [List.length_append, CertBlock.leEnc_len, wf.pub])).symm

/-- the OTP fuse words of `get_otp_script` are the certificate hash, each 4-byte group byte-reversed -/
theorem vx_fuse_words (h : Bytes) (hl : h.length = 16) : ((vxFuseWords h).map List.reverse).flatten = h :=
  vxFuseWords_hash h hl

theorem generated_lite_constants_agree :
    Generated.RotTypes.liteMagic = 0x4D43 ∧ Generated.RotTypes.liteVersion = 1 ∧ Generated.RotTypes.liteHeaderFormat = "<HHI" ∧
    Generated.RotTypes.liteHeaderWidths = [2, 2, 4] ∧ Generated.RotTypes.litePubKeyLength = 64 ∧
    Generated.RotTypes.liteSignatureSize = 64 ∧ Generated.RotTypes.liteSignatureOffset = 72 ∧
    Generated.RotTypes.vxCertHashLength = 16 ∧
    -- the "no offset" magic `IskCertificate.parse` looks for is the lite certificate's magic
    Generated.RotTypes.iskNoOffsetMagic = Generated.RotTypes.liteMagic ∧
    Generated.RotTypes.iskNoOffsetSigOffset = Generated.RotTypes.liteSignatureOffset := by
  repeat' apply And.intro
  all_goals decide

/-! ## 6d. The fuse value binds the key list (negative statements as reductions; phase 2) -/

/-- cert block v1: two key lists of the documented domain with equally many keys and the same RKTH are the same list, or the
    proof exhibits a SHA-256 collision.  (Equal lengths are needed: an unused slot is 32 zero bytes, indistinguishable from a
    key whose hash is zero - finding such a key is a preimage, not one of the `Break` cases.) -/
theorem rot_binding_v1 (hc : CryptoLaws c) (ks ks' : List Key) (h : KeysOK .certBlock1 ks) (h' : KeysOK .certBlock1 ks')
    (hl : ks.length = ks'.length) (he : Spec.rotkh c .certBlock1 ks = Spec.rotkh c .certBlock1 ks') : ks = ks' ∨ Crypto.Break c := by
  rw [rotkh_cb1, rotkh_cb1] at he
  exact rotkhV1_binding c hc ks ks' h h' hl he

/-- cert block v2.1 / debug-credential CTRK hash: the same.  (Equal lengths are needed: the value of ONE key X‖Y is its hash,
    the value of several keys is the hash of their hashes - 64 bytes X‖Y could equal H(k₁)‖H(k₂).) -/
theorem rot_binding_v21 (hc : CryptoLaws c) (ks ks' : List Key) (h : KeysOK .certBlock21 ks) (h' : KeysOK .certBlock21 ks')
    (hl : ks.length = ks'.length) (he : Spec.rotkh c .certBlock21 ks = Spec.rotkh c .certBlock21 ks') : ks = ks' ∨ Crypto.Break c := by
  rw [rotkh_cb21, rotkh_cb21] at he
  exact rotkhV21_binding c hc ks ks' h h' hl he

/-- the SB3.1 loader accepts a well-formed exported block exactly against the fuse value of its root key record -/
theorem rom_sb31_accepts_only_its_rot (pointOk : Bytes → Bool) (ca : Bool) (used : Nat) (cv : Curve) (cb : CertBlockV21)
    (wf : WFv21 c pointOk ca used cv cb) (rwf : RomWF c used cv cb)
    (hsig : ∀ i, cb.isk = some i →
      c.verify (.ecdsa cv.hashAlg) cb.rkr.rootPublicKey (rkrBytes cb.rkr ++ iskSignedPart i) i.signature = true)
    (rot : Bytes) : (∃ x, Sb31.Rom.romCert c rot (bytesV21 cb) = .ok x) ↔ rot = rotkhOfRecord c cv cb.rkr := by
  constructor
  · rintro ⟨x, hx⟩; exact sb31_romCert_ok_rot wf rwf hsig rot x hx
  · intro e; subst e; exact ⟨_, sb31_romCert_accepts wf rwf hsig⟩

/-- a device fused for `ks` accepts the block built from another key list of the same length only if a hash collision is exhibited -/
theorem rom_refuses_other_key_list (hc : CryptoLaws c) (ks ks' : List Key) (h : KeysOK .certBlock21 ks) (h' : KeysOK .certBlock21 ks')
    (hl : ks'.length = ks.length) (used : Nat) (hu : used < ks'.length) (r' : RootKeyRecord)
    (hcalc : rkrCalculate c true ks' used = .ok r') (x : Sb31.Rom.CertInfo × List Sb31.Rom.SigOb)
    (hacc : Sb31.Rom.romCert c (Spec.rotkh c .certBlock21 ks) (bytesV21 ⟨2, 1, r', none⟩) = .ok x) : ks' = ks ∨ Crypto.Break c :=
  rom_refuses_other_keys c hc ks ks' h h' hl used hu r' hcalc x hacc

/-! ## 6f. Acceptance of ARBITRARY bytes: what a successful parse says about its input (phase 3) -/

/-- ISK certificate lite / certificate block Vx, ANY input of at least 136 bytes (not only exported certificates): if the parser accepts `b`,
    the parsed certificate is well formed, re-exporting it gives `magic ‖ version ‖ b[4:136]` - i.e. exactly `b[:136]` when `b` starts with the
    magic and version words - and parsing that canonical form gives the same certificate (the parser is injective on canonical forms) -/
theorem isk_lite_parse_canonical (pointOk : Bytes → Bool) (b : Bytes) (i : IskLite) (h : liteParse pointOk b = .ok i) (hl : 136 ≤ b.length) :
    WFlite pointOk i ∧
    liteExport i = .ok (leEnc 2 0x4D43 ++ leEnc 2 1 ++ (b.take 136).drop 4) ∧
    (b.take 4 = leEnc 2 0x4D43 ++ leEnc 2 1 → liteExport i = .ok (b.take 136)) ∧
    ∀ rest, liteParse pointOk (leEnc 2 0x4D43 ++ leEnc 2 1 ++ (b.take 136).drop 4 ++ rest) = .ok i := by
  obtain ⟨wf, e⟩ := liteParse_inv pointOk b i h hl
  have hc := liteParse_canonical pointOk b i h hl
  refine ⟨wf, hc, fun h4 => ?_, fun rest => ?_⟩
  · rw [hc, ← h4]
    have : (b.take 136).take 4 = b.take 4 := by rw [List.take_take]; congr 1
    rw [← this, List.take_append_drop]
  · have := liteParse_export pointOk i wf rest
    rw [liteBytes, ← e] at *
    simpa only [List.append_assoc] using this

set_option maxRecDepth 20000 in
/-- the plain statement `parse b = ok i → export i = b` is FALSE for this format: the parser does not look at the magic / version words
    (136 zero bytes are accepted whenever the key check passes; the export starts with 43 4D 01 00).  Full statement kept for the record:
    `∀ b i, liteParse pointOk b = .ok i → liteExport i = .ok b` - missing hypothesis: `b.take 4 = magic ‖ version` and `b.length = 136`. -/
theorem isk_lite_parse_export_refuted :
    ∃ (b : Bytes) (i : IskLite), liteParse (fun _ => true) b = .ok i ∧ b.length = 136 ∧ liteExport i ≠ .ok b := by
  have hp : liteParse (fun _ => true) (List.replicate 136 0) = .ok ⟨0, List.replicate 64 0, List.replicate 64 0⟩ := rfl
  refine ⟨List.replicate 136 0, ⟨0, List.replicate 64 0, List.replicate 64 0⟩, hp, List.length_replicate, ?_⟩
  rw [liteParse_canonical _ _ _ hp (by simp)]
  intro h
  injection h with h
  have := congrArg (fun l => l.head?) h
  revert this; decide

/-- certificate block v1, ANY input the parser accepts (not only exported blocks): the header parses, the block has as many certificates as
    announced, all of them passed the X.509 check, the RKH table has its four slots.  If at least one certificate is present and the header's
    `cert_table_length` equals the size of the entries actually read (SPSDK's parser never compares the two; the ROM uses the field to find the
    RKH table), then the parsed block is well formed, re-exporting it gives the first `n = 32 + cert_table_length + 128` input bytes followed by
    zero padding to 16 - the canonical form - and parsing the canonical form (with anything after it) gives the same block -/
theorem certblock_v1_parse_canonical (certOk : Bytes → Bool) (data : Bytes) (cb : CertBlockV1)
    (h : parseV1Block certOk data = .ok cb) :
    ∃ hd : HeaderV1, headerV1Parse data = .ok hd ∧ cb.certs.length = hd.certCount ∧ cb.rkh.length = 4 ∧
      (∀ x ∈ cb.certs, certOk x = true) ∧
      (hd.certCount ≠ 0 → hd.certTableLength = certTableLength cb.certs →
        WFv1 certOk cb ∧
        exportV1Block true cb = .ok (data.take (32 + certTableLength cb.certs + 128) ++
          List.replicate (Misc.alignNat (32 + certTableLength cb.certs + 128) 16 - (32 + certTableLength cb.certs + 128)) 0) ∧
        ∀ rest, parseV1Block certOk (data.take (32 + certTableLength cb.certs + 128) ++
          List.replicate (Misc.alignNat (32 + certTableLength cb.certs + 128) 16 - (32 + certTableLength cb.certs + 128)) 0 ++ rest) = .ok cb) := by
  obtain ⟨hd, h1, h2, h3, h4, ha, h5⟩ := parseV1Block_inv certOk data cb h
  refine ⟨hd, h1, h2, h3, h4, fun hne hctl => ?_⟩
  obtain ⟨wf, hb⟩ := h5 hne hctl
  have hlen := bodyV1_len certOk cb wf
  have ha16 : cb.alignment = 16 := ha
  have hbytes : bytesV1 cb = data.take (32 + certTableLength cb.certs + 128) ++
      List.replicate (Misc.alignNat (32 + certTableLength cb.certs + 128) 16 - (32 + certTableLength cb.certs + 128)) 0 := by
    rw [bytesV1, hlen, ha16, hb]
  refine ⟨wf, by rw [← hbytes]; exact exportV1Block_ok certOk cb wf, fun rest => ?_⟩
  rw [← hbytes, parse_exportV1_tail certOk cb wf rest, pad4_of_len4 _ h3]
  cases cb
  simp only at ha
  simp only [ha]

set_option maxRecDepth 20000 in
/-- the plain statement `parse b = ok cb → export cb = b` is FALSE for certificate block v1: a block announcing ZERO certificates is accepted by
    `CertBlockV1.parse`, but `export` refuses a block without certificates.  (A second family of counterexamples: a `cert_table_length` field
    that differs from the entries present - accepted, re-exported with the recomputed length.)  Missing hypotheses of the full statement:
    `certificate_count ≠ 0`, `cert_table_length` consistent, zero padding, nothing after the block. -/
theorem certblock_v1_parse_export_refuted :
    ∃ (data : Bytes) (cb : CertBlockV1), parseV1Block (fun _ => true) data = .ok cb ∧ exportV1Block true cb = .error .spsdk :=
  ⟨[0x63, 0x65, 0x72, 0x74, 1, 0, 0, 0, 32, 0, 0, 0] ++ List.replicate 20 0 ++ List.replicate 128 7,
   ⟨1, 0, 0, 0, 0, [], [List.replicate 32 7, List.replicate 32 7, List.replicate 32 7, List.replicate 32 7], 16⟩, rfl, rfl⟩

/-- root key record of certificate block v2.1, ANY input `RootKeyRecord.parse` accepts that is at least as long as the record its own flags word
    announces (4 + [count × hash length, if count > 1] + 2 × hash length): re-exporting the parsed record gives exactly the `n` bytes the parser
    reports as consumed, and `n` is that announced size.  (Inputs shorter than announced are accepted too - the slices just come out short; they
    are outside this theorem, no refuting example is known for them.) -/
theorem rkr_parse_canonical (b : Bytes) (r : RootKeyRecord) (n : Nat) (h : rkrParse c b = .ok (r, n)) (hl : Nat)
    (hhl : lookupOr Generated.RotTypes.rkrParseHashLen (rkrCurve (leDec (b.take 4))) = .ok hl)
    (hfull : 4 + (if rkrCount (leDec (b.take 4)) > 1 then hl * rkrCount (leDec (b.take 4)) else 0) + hl * 2 ≤ b.length) :
    rkrExport r = .ok (b.take n) ∧ n ≤ b.length ∧ r.flags = leDec (b.take 4) ∧
    n = 4 + (if rkrCount r.flags > 1 then hl * rkrCount r.flags else 0) + hl * 2 := by
  obtain ⟨h1, h2, h3, h4, _⟩ := rkrParse_inv c b r n h hl hhl hfull
  exact ⟨h1, h2, h3, h4⟩

/-- certificate block v2.1 WITHOUT ISK certificate (CA flag set in the root key record), ANY input `CertBlockV21.parse` accepts with a complete
    record: the parsed block has no ISK certificate; re-exporting it gives `chdr ‖ minor ‖ major ‖ (12 + n) ‖ record bytes`, which is the first
    `12 + n` input bytes exactly when the input's `cert_block_size` word was `12 + n` (the parser never looks at that word) -/
theorem certblock_v21_ca_parse_canonical (pointOk : Bytes → Bool) (data : Bytes) (cb : CertBlockV21)
    (h : parseV21Block c pointOk data = .ok cb) (hca : rkrCa (leDec ((data.drop 12).take 4)) = true) (hl : Nat)
    (hhl : lookupOr Generated.RotTypes.rkrParseHashLen (rkrCurve (leDec ((data.drop 12).take 4))) = .ok hl)
    (hfull : 12 + 4 + (if rkrCount (leDec ((data.drop 12).take 4)) > 1 then hl * rkrCount (leDec ((data.drop 12).take 4)) else 0) + hl * 2
      ≤ data.length) :
    ∃ n, cb.isk = none ∧ n ≤ (data.drop 12).length ∧
      n = 4 + (if rkrCount cb.rkr.flags > 1 then hl * rkrCount cb.rkr.flags else 0) + hl * 2 ∧
      exportV21Block cb = .ok (Gen.cbV21Magic ++ leEnc 2 cb.minor ++ leEnc 2 cb.major ++ leEnc 4 (12 + n) ++ (data.drop 12).take n) ∧
      (leDec ((data.drop 8).take 4) = 12 + n → exportV21Block cb = .ok (data.take (12 + n))) :=
  parseV21Block_ca_inv c pointOk data cb h hca hl hhl hfull

/-- ISK certificate, ANY input `IskCertificate.parse(data, signature_size)` accepts in the normal (offset-carrying) format: if the input's flags
    word is the one the constructor recomputes from user data and key, nothing lies between user data and signature and the signature has its
    full non-zero length, then re-exporting gives exactly the first `signature_offset + signature_size` input bytes (which exist) -/
theorem isk_parse_canonical (pointOk : Bytes → Bool) (data : Bytes) (sigSize : Nat) (i : IskCert)
    (h : iskParse pointOk data sigSize = .ok i) (hoff : leDec (data.take 4) % 65536 ≠ Gen.iskNoOffsetMagic)
    (hfl : leDec ((data.drop 8).take 4) = i.flags) (hso : leDec (data.take 4) = 12 + i.pubKey.length + i.userData.length)
    (hsig : i.signature.length = sigSize) (hs0 : 0 < sigSize) :
    iskExport i = .ok (data.take (leDec (data.take 4) + sigSize)) ∧ i.offsetPresent = true ∧ leDec (data.take 4) + sigSize ≤ data.length :=
  iskParse_inv pointOk data sigSize i h hoff hfl hso hsig hs0

/-- certificate block v2.1 WITH ISK certificate, ANY accepted input (shorter than 4 GiB) with a complete root key record without the CA flag:
    an ISK certificate is parsed from the bytes after the record (signature size = 2 × hash length); if it is in canonical form (hypotheses of
    `isk_parse_canonical`), re-exporting the block gives `chdr ‖ minor ‖ major ‖ recomputed size ‖ record ‖ certificate` - exactly the first
    `12 + n + m` input bytes when the input's size word had that value.  Together with `certblock_v21_ca_parse_canonical` this is the canonical
    form of every v2.1 block.  The plain statement is false (size word, ISK flags word, gap and short signature are not checked by the parser). -/
theorem certblock_v21_isk_parse_canonical (pointOk : Bytes → Bool) (data : Bytes) (cb : CertBlockV21)
    (h : parseV21Block c pointOk data = .ok cb) (hca : rkrCa (leDec ((data.drop 12).take 4)) = false) (hl : Nat)
    (hhl : lookupOr Generated.RotTypes.rkrParseHashLen (rkrCurve (leDec ((data.drop 12).take 4))) = .ok hl)
    (hfull : 12 + 4 + (if rkrCount (leDec ((data.drop 12).take 4)) > 1 then hl * rkrCount (leDec ((data.drop 12).take 4)) else 0) + hl * 2
      ≤ data.length) (hdl : data.length < 2 ^ 32) :
    ∃ n i, cb.isk = some i ∧ n = 4 + (if rkrCount cb.rkr.flags > 1 then hl * rkrCount cb.rkr.flags else 0) + hl * 2 ∧
      iskParse pointOk (data.drop (12 + n)) (hl * 2) = .ok i ∧
      (leDec ((data.drop (12 + n)).take 4) % 65536 ≠ Gen.iskNoOffsetMagic →
       leDec (((data.drop (12 + n)).drop 8).take 4) = i.flags →
       leDec ((data.drop (12 + n)).take 4) = 12 + i.pubKey.length + i.userData.length →
       i.signature.length = hl * 2 →
        exportV21Block cb = .ok (Gen.cbV21Magic ++ leEnc 2 cb.minor ++ leEnc 2 cb.major ++
          leEnc 4 (12 + n + (leDec ((data.drop (12 + n)).take 4) + hl * 2)) ++
          (data.drop 12).take (n + (leDec ((data.drop (12 + n)).take 4) + hl * 2))) ∧
        (leDec ((data.drop 8).take 4) = 12 + n + (leDec ((data.drop (12 + n)).take 4) + hl * 2) →
          exportV21Block cb = .ok (data.take (12 + n + (leDec ((data.drop (12 + n)).take 4) + hl * 2))))) :=
  parseV21Block_isk_inv c pointOk data cb h hca hl hhl hfull hdl

/-- non-vacuity of the ISK hypotheses: the exported form of the well-formed certificate `iskEx'` (P-256 key bytes, 4 bytes of user data) -/
def iskEx' : IskCert :=
  { offsetPresent := true, constraints := 1, flags := 2 ^ 31 + 1, pubKey := List.replicate 64 1, userData := [1, 2, 3, 4],
    signature := List.replicate 64 9 }
set_option maxRecDepth 20000 in
example : iskParse (fun _ => true) (iskBytes iskEx') 64 = .ok iskEx' ∧
    leDec ((iskBytes iskEx').take 4) % 65536 ≠ Gen.iskNoOffsetMagic ∧ leDec (((iskBytes iskEx').drop 8).take 4) = iskEx'.flags ∧
    leDec ((iskBytes iskEx').take 4) = 12 + iskEx'.pubKey.length + iskEx'.userData.length ∧ iskEx'.signature.length = 64 :=
  ⟨rfl, by decide, by decide, by decide, by decide⟩

/-- The plain statement `parse b = ok cb → export cb = b` is FALSE for v2.1 as well: the parser never looks at the `cert_block_size` word, the
    export recomputes it (observed on the real classes by the stream `parse_canonical`: a CA block with another size word is accepted and
    re-exported with the recomputed word); with an ISK certificate the further hypotheses of `certblock_v21_isk_parse_canonical` are needed.  Non-vacuity of the hypotheses of the two theorems above: a block with the CA
    flag, one P-256 key and a size word of 0 -/
def cb21RawEx : Bytes :=
  [0x63, 0x68, 0x64, 0x72, 1, 0, 2, 0, 0, 0, 0, 0] ++ [0x11, 0, 0, 0x80] ++ List.replicate 64 5

example : rkrCa (leDec ((cb21RawEx.drop 12).take 4)) = true ∧
    lookupOr Generated.RotTypes.rkrParseHashLen (rkrCurve (leDec ((cb21RawEx.drop 12).take 4))) = .ok 32 ∧
    12 + 4 + (if rkrCount (leDec ((cb21RawEx.drop 12).take 4)) > 1 then 32 * rkrCount (leDec ((cb21RawEx.drop 12).take 4)) else 0) + 32 * 2
      ≤ cb21RawEx.length := by decide

/-! ## 6g. Certificate block v1 inside an SB 2.1 file: what the loader model of C04 reads (phase 3) -/

/-- SB 2.1 (`Spec/Sb2Rom.lean`, the loader side of C04, written independently with its own constants): wherever the exported block sits in
    the file, the loader derives from the block's own header exactly the exported length (this is C04's hypothesis `certBlockOk` when the block
    stands alone), and the RKH table it reads at `offset + 32 + certificate table length` hashes to the documented fuse value
    `Spec.rotkh cert_block_1 ks` of the keys that were given to `CertBlockV1.set_root_key_hash` - the same table and value the MBI ROM model of
    C02 uses (`rom_accepts_built_v1`) -/
theorem rom_sb21_reads_built_v1 (hc : CryptoLaws c) (ks : List Key) (h : KeysOK .certBlock1 ks) (certOk : Bytes → Bool)
    (cb : CertBlockV1) (wf : WFv1 certOk cb) (ha : cb.alignment = 16) (hrkh : certBlockV1Rkh c ks = .ok cb.rkh) (pre rest : Bytes) :
    Sb2.Rom.certBlockLen (pre ++ (bytesV1 cb ++ rest)) pre.length = .ok (bytesV1 cb).length ∧
    Sb2.Rom.certBlockLen (bytesV1 cb) 0 = .ok (bytesV1 cb).length ∧
    Sb2.Rom.slice (pre ++ (bytesV1 cb ++ rest)) (pre.length + 32 + certTableLength cb.certs) 128 = (pad4 cb.rkh).flatten ∧
    c.hash .sha256 (Sb2.Rom.slice (pre ++ (bytesV1 cb ++ rest)) (pre.length + 32 + certTableLength cb.certs) 128) =
      Spec.rotkh c .certBlock1 ks := by
  obtain ⟨h1, h2⟩ := sb21_rom_reads_exportV1 certOk cb wf ha pre rest
  have h0 := (sb21_rom_reads_exportV1 certOk cb wf ha [] []).1
  simp only [List.nil_append, List.append_nil, List.length_nil] at h0
  have e2 : Sb2.Rom.Spec.certHeaderSize = 32 := rfl
  have e3 : Sb2.Rom.Spec.rkhTableSize = 128 := rfl
  rw [e2, e3] at h2
  exact ⟨h1, h0, h2, by rw [h2]; exact rkhTable_hash_eq_rotkh c hc ks h cb.rkh hrkh⟩

/-! ## 7. Non-vacuity and sanity examples -/

/-- a 2048-bit modulus with the top bit set, e = 65537 -/
def rsaEx (d : Nat) : Key := .rsa (2 ^ 2047 + d) 65537
def eccEx (cv : Curve) (d : Nat) : Key := .ecc cv (7 + d) (11 + d)

example : KeysOK .certBlock1 [rsaEx 1, rsaEx 3, rsaEx 5] := by decide +kernel
example : KeysOK .certBlock21 [eccEx .p256 0, eccEx .p256 1] := by decide
example : KeysOK .certBlock21 [eccEx .p384 0] := by decide
example : KeysOK .srkTableAhab [eccEx .p521 0, eccEx .p521 1, eccEx .p521 2, eccEx .p521 3] := by decide
example : KeysOK .srkTableAhabV2 [rsaEx 1, rsaEx 3, rsaEx 5, rsaEx 7] := by decide +kernel
example : KeysOK .srkTableHab [rsaEx 1, eccEx .p256 0] := by decide +kernel
example : ¬ KeysOK .certBlock21 [eccEx .p521 0] := by decide
example : ¬ KeysOK .certBlock1 [] := by decide
example : ∀ n e, Key.rsa n e ∈ [rsaEx 1, rsaEx 3] → byteLen e = 3 := by
  intro n e h; simp only [rsaEx, List.mem_cons, Key.rsa.injEq, List.mem_nil_iff, or_false] at h
  rcases h with ⟨_, rfl⟩ | ⟨_, rfl⟩ <;> decide
example : DatEccOK .p521 [eccEx .p521 0, eccEx .p521 1] := ⟨by decide, by decide, by decide⟩
example : AhabOK [(eccEx .p256 0, true), (eccEx .p256 1, true), (eccEx .p256 2, true), (eccEx .p256 3, true)] :=
  ⟨rfl, by decide, eccEx .p256 0, true, rfl, by decide⟩

/-- a leading-zero coordinate keeps its width: X = 7 on P-256 is 31 zero bytes and a 7 -/
example : (eccEx .p256 0).material.length = 64 ∧ (eccEx .p256 0).material.take 32 = List.replicate 31 0 ++ [7] := by decide

/-- a well-formed ISK certificate (P-256 key bytes, 4 bytes of user data, 64-byte signature) -/
def iskEx : IskCert :=
  { offsetPresent := true, constraints := 1, flags := 2 ^ 31 + 1, pubKey := List.replicate 64 1, userData := [1, 2, 3, 4],
    signature := List.replicate 64 9 }
example : WFisk (fun _ => true) 64 iskEx :=
  { offset := rfl, constraints := by decide, flags := by decide, pub := Or.inl rfl, point := rfl, magic := by decide,
    sigoff := by decide, sig := rfl, siglen := by decide }

/-- a well-formed certificate block v1 (one opaque certificate, two root key hashes) -/
def cb1Ex : CertBlockV1 :=
  { major := 1, minor := 0, flags := 0, buildNumber := 7, imageLength := 0x1234, certs := [[0x30, 0x82, 1, 2, 3]],
    rkh := [List.replicate 32 5, List.replicate 32 6], alignment := 16 }
example : WFv1 (fun _ => true) cb1Ex :=
  { major := by decide, minor := by decide, flags := by decide, build := by decide, image := by decide, certs_ne := by decide,
    certs := by decide, count := by decide, table := by decide, rkh_len := by decide, rkh := by decide, align := by decide }
example : (parseV1Block (fun _ => true) (bytesV1 cb1Ex)).map (·.imageLength) = .ok 0x1234 := by decide +kernel

example : WFlite (fun _ => true) { constraints := 1, pubKey := List.replicate 64 7, signature := List.replicate 64 9 } :=
  { constraints := by decide, pub := rfl, point := rfl, sig := rfl }

/-- a block acceptable to the MBI ROM: version 1.0, alignment 4 -/
def cb1RomEx : CertBlockV1 := { cb1Ex with alignment := 4 }
example : WFv1 (fun _ => true) cb1RomEx ∧ RomWFv1 cb1RomEx :=
  ⟨{ major := by decide, minor := by decide, flags := by decide, build := by decide, image := by decide, certs_ne := by decide,
     certs := by decide, count := by decide, table := by decide, rkh_len := by decide, rkh := by decide, align := by decide },
   { major := rfl, minor := rfl, count := by decide, nonempty := by decide, align := rfl }⟩

/-- a well-formed v2.1 block without ISK certificate (two P-256 key hashes, used index 1) - for every hash function -/
def cb21Ex : CertBlockV21 :=
  { major := 2, minor := 1, isk := none,
    rkr := { flags := rkrFlags true 1 2 .p256, rkh := [List.replicate 32 1, List.replicate 32 2], rootPublicKey := List.replicate 64 3 } }
example : WFv21 c (fun _ => true) true 1 .p256 cb21Ex :=
  { major := by decide, minor := by decide, isk_none := fun _ => rfl, isk_some := fun h => (by cases h), size := by decide,
    rkr := { cv_ok := by decide, used_lt := by decide, count1 := by decide, count4 := by decide, flags := rfl, rkh := by decide,
             pk := by decide, single := fun h => absurd h (by decide) } }
example : (bytesV21 cb21Ex).length = 12 + 4 + 64 + 64 := by decide +kernel

/-! ## 6e. any sequence of `set_rkh` / `CertBlockV1.set_root_key_hash` calls: last write per slot wins, call order is irrelevant -/

/-- after ANY admissible call sequence (slots 0..3, 32-byte hashes; gaps, repeats, overwrites, descending, on a built or parsed
    table) slot `i` of the exported 4-slot table holds the last hash written to it, or its former content (zeros if none) -/
theorem set_rkh_last_write_wins (l : List Bytes) (ops : List (Nat × Bytes)) (hw : WFtab l) (ho : WFops ops) :
    ∃ l', setSeq l ops = .ok l' ∧ WFtab l' ∧ exportV1 l' = .ok (tbl l').flatten ∧
      ∀ i, i < 4 → (tbl l')[i]? = some ((lastWrite ops i).getD ((tbl l)[i]?.getD Z32)) := by
  obtain ⟨l', e, w, h⟩ := setSeq_last_write l ops hw ho
  exact ⟨l', e, w, exportV1_tbl l' w, h⟩

/-- two call sequences with the same last write per slot (e.g. permutations of writes to different slots) give the same table and RKTH -/
theorem set_rkh_order_independent (l : List Bytes) (ops1 ops2 : List (Nat × Bytes)) (hw : WFtab l)
    (h1 : WFops ops1) (h2 : WFops ops2) (hlw : ∀ i, i < 4 → lastWrite ops1 i = lastWrite ops2 i) :
    (setSeq l ops1 >>= exportV1) = (setSeq l ops2 >>= exportV1) ∧ (setSeq l ops1 >>= rkthV1 c) = (setSeq l ops2 >>= rkthV1 c) :=
  setSeq_order_indep c l ops1 ops2 hw h1 h2 hlw

/-- the v1 certificate-block path for every call order: if the last write to slot `i` is the hash of root key `i` and no other slot is
    written, the RKTH is `Spec.rotkh` of the ordered key list (= `RKHTv1.from_keys` = `Rot`, by `path_eq_spec_*`) -/
theorem set_root_key_hash_any_order (hc : CryptoLaws c) (ks : List Key) (h : KeysOK .certBlock1 ks)
    (ops : List (Nat × Bytes)) (ho : WFops ops) (hlw : ∀ i, i < 4 → lastWrite ops i = (ks.map (keyHash c))[i]?) :
    (setSeq [] ops >>= rkthV1 c) = .ok (rotkh c .certBlock1 ks) := by
  rw [rotkh_cb1]; exact setSeq_keys_any_order c hc ks h ops ho hlw

/-- non-vacuity: signing slot 2 first, then 0, 1, 3, with an overwrite on the way -/
example (a b d e x : Bytes) :
    lastWrite [(2, d), (0, x), (0, a), (1, b), (3, e)] 0 = some a ∧ lastWrite [(2, d), (0, x), (0, a), (1, b), (3, e)] 2 = some d := by
  simp [lastWrite]

/-- the order of the keys matters (here: for every `c` that separates the two tables) — stated on the table -/
theorem order_matters_example (k1 k2 : Key) : rkhTableV1 c [k1, k2] = rkhTableV1 c [k2, k1] →
    keyHash c k1 ++ keyHash c k2 = keyHash c k2 ++ keyHash c k1 := by
  intro h
  simp only [rkhTableV1, List.map_cons, List.map_nil, List.flatten_append, List.flatten_cons, List.flatten_nil,
    List.append_nil, List.length_cons, List.length_nil] at h
  have := List.append_cancel_right h
  simpa using this

end SpsdkVerif.C03
